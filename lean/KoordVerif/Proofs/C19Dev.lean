import KoordVerif.Model.C19Dev
/-
C19 (deviceshare part): theorems about the model in Model/C19Dev.lean.

Main results (all for arbitrary inputs/histories, value semantics "missing = 0"):
  * `live_invariant`     after ANY history of add / del / upd events from the empty cache, used at every
                         slot = Σ over the surviving allocations, and the allocateSet records exactly
                         the survivors
  * `live_eq_rebuilt`    hence used / free / allocateSet of the live cache = those of a fresh cache
                         built from the survivors, and the rendered observation is identical
  * `build_perm`         the fresh cache does not depend on the delivery order
  * `dup_add_noop`, `same_update_noop`, `replay_with_dups`
  * `taken_not_free`     nothing taken by a survivor is considered free after the rebuild
-/
namespace KoordVerif.C19.Dev

/-! ### sums -/

def sumOver {α : Type} (f : α → Int) : List α → Int
  | [] => 0
  | x :: xs => f x + sumOver f xs

theorem sumOver_append {α : Type} (f : α → Int) (a b : List α) :
    sumOver f (a ++ b) = sumOver f a + sumOver f b := by
  induction a with
  | nil => simp [sumOver]
  | cons x xs ih => simp [sumOver, ih]; omega

theorem sumOver_perm {α : Type} (f : α → Int) {a b : List α} (h : a.Perm b) :
    sumOver f a = sumOver f b := by
  induction h with
  | nil => rfl
  | cons x _ ih => simp [sumOver, ih]
  | swap x y l => simp [sumOver]; omega
  | trans _ _ ih1 ih2 => omega

theorem sumOver_nonneg {α : Type} (f : α → Int) (l : List α) (h : ∀ x ∈ l, 0 ≤ f x) :
    0 ≤ sumOver f l := by
  induction l with
  | nil => simp [sumOver]
  | cons x xs ih =>
    have h1 := h x (by simp)
    have h2 := ih (fun y hy => h y (by simp [hy]))
    simp [sumOver]; omega

/-- what a group takes at a slot -/
def gAmt (g : Group) (k : Slot) : Int := sumOver (fun it => itemAmt g.node g.ty it k) g.items

/-- what a list of groups takes at a slot -/
def taken (L : List Group) (k : Slot) : Int := sumOver (fun g => gAmt g k) L

/-- all amounts of the group are >= 0 (the allocator never hands out a negative share) -/
def Group.Nonneg (g : Group) : Prop := ∀ it ∈ g.items, ∀ e ∈ it.2, 0 ≤ e.2

/-! ### table lemmas -/

theorem get_bump (t : Tab) (k k' : Slot) (d : Int) :
    get (bump t k d) k' = get t k' + (if k = k' then d else 0) := by
  induction t with
  | nil => simp [bump, get]
  | cons e t ih =>
    obtain ⟨k0, v⟩ := e
    by_cases h0 : k0 = k
    · subst h0
      by_cases h1 : k0 = k' <;> simp [bump, get, h1]
    · by_cases h1 : k0 = k'
      · subst h1
        have : ¬ k = k0 := fun h => h0 h.symm
        simp [bump, get, h0, this]
      · simp [bump, get, h0, h1, ih]

theorem rlSum_nonneg (rl : RL) (d : Int) (h : ∀ e ∈ rl, 0 ≤ e.2) : 0 ≤ rlSum rl d := by
  induction rl with
  | nil => simp [rlSum]
  | cons e r ih =>
    obtain ⟨d', a⟩ := e
    have h1 : 0 ≤ a := h (d', a) (by simp)
    have h2 := ih (fun x hx => h x (by simp [hx]))
    simp only [rlSum]
    split <;> omega

theorem itemAmt_nonneg (n t : Int) (it : Item) (k : Slot) (h : ∀ e ∈ it.2, 0 ≤ e.2) :
    0 ≤ itemAmt n t it k := by
  unfold itemAmt
  split
  · exact rlSum_nonneg _ _ h
  · omega

theorem get_addItem_aux (n t m : Int) (rl : RL) (u : Tab) (k : Slot) :
    get (rl.foldl (fun u e => bump u (n, t, m, e.1) e.2) u) k
      = get u k + (if slotMatches n t m k then rlSum rl k.2.2.2 else 0) := by
  induction rl generalizing u with
  | nil => simp [rlSum]
  | cons e r ih =>
    obtain ⟨d, a⟩ := e
    simp only [List.foldl_cons, ih, get_bump, rlSum]
    obtain ⟨k1, k2, k3, k4⟩ := k
    by_cases hm : slotMatches n t m (k1, k2, k3, k4) = true
    · have hm' := hm
      simp [slotMatches] at hm'
      obtain ⟨h1, h2, h3⟩ := hm'
      subst h1 h2 h3
      by_cases hd : d = k4
      · subst hd; simp [hm]; omega
      · have : ¬ ((k1, k2, k3, d) = (k1, k2, k3, k4)) := by
          intro h; apply hd; simpa using h
        simp [hm, hd, this]
    · have : ¬ ((n, t, m, d) = (k1, k2, k3, k4)) := by
        intro h
        apply hm
        simp only [Prod.mk.injEq] at h
        obtain ⟨h1, h2, h3, _⟩ := h
        simp [slotMatches, h1, h2, h3]
      simp [hm, this]

theorem get_addItem (n t : Int) (u : Tab) (it : Item) (k : Slot) :
    get (addItem n t u it) k = get u k + itemAmt n t it k := by
  unfold addItem itemAmt
  exact get_addItem_aux n t it.1 it.2 u k

theorem get_foldl_addItem (n t : Int) (items : List Item) (u : Tab) (k : Slot) :
    get (items.foldl (addItem n t) u) k = get u k + sumOver (fun it => itemAmt n t it k) items := by
  induction items generalizing u with
  | nil => simp [sumOver]
  | cons it r ih => simp only [List.foldl_cons, ih, get_addItem, sumOver]; omega

theorem get_rmItem (n t : Int) (u : Tab) (it : Item) (k : Slot) (hnn : ∀ e ∈ it.2, 0 ≤ e.2) :
    get (rmItem n t u it) k
      = if slotMatches n t it.1 k then max 0 (get u k - itemAmt n t it k) else get u k := by
  have hr := rlSum_nonneg it.2 k.2.2.2 hnn
  induction u with
  | nil =>
    simp only [rmItem, List.map_nil, get, itemAmt]
    split
    · omega
    · rfl
  | cons e u ih =>
    obtain ⟨k0, v⟩ := e
    simp only [rmItem, List.map_cons] at ih ⊢
    by_cases hk : k0 = k
    · subst hk
      by_cases hm : slotMatches n t it.1 k0 = true
      · simp [get, hm, itemAmt]
      · simp [get, hm]
    · by_cases hm0 : slotMatches n t it.1 k0 = true
      · simp only [hm0, if_true, get, hk, if_false]
        exact ih
      · have hm0' : slotMatches n t it.1 k0 = false := by simpa using hm0
        simp only [hm0', get, hk, if_false, Bool.false_eq_true]
        exact ih

theorem get_foldl_rmItem (n t : Int) (items : List Item) (u : Tab) (k : Slot)
    (hnn : ∀ it ∈ items, ∀ e ∈ it.2, 0 ≤ e.2)
    (hge : sumOver (fun it => itemAmt n t it k) items ≤ get u k) :
    get (items.foldl (rmItem n t) u) k = get u k - sumOver (fun it => itemAmt n t it k) items := by
  induction items generalizing u with
  | nil => simp [sumOver]
  | cons it r ih =>
    have hit : ∀ e ∈ it.2, 0 ≤ e.2 := hnn it (by simp)
    have hr : ∀ it' ∈ r, ∀ e ∈ it'.2, 0 ≤ e.2 := fun it' h' => hnn it' (by simp [h'])
    have ha := itemAmt_nonneg n t it k hit
    have hs := sumOver_nonneg (fun it => itemAmt n t it k) r
      (fun x hx => itemAmt_nonneg n t x k (hr x hx))
    simp only [sumOver] at hge
    have hstep := get_rmItem n t u it k hit
    have hval : get (rmItem n t u it) k = get u k - itemAmt n t it k := by
      rw [hstep]
      split
      · omega
      · rename_i hm
        have : itemAmt n t it k = 0 := by simp [itemAmt, hm]
        omega
    simp only [List.foldl_cons, sumOver]
    rw [ih (rmItem n t u it) hr (by omega), hval]
    omega

/-! ### the ledger invariant -/

theorem gAmt_nonneg (g : Group) (k : Slot) (h : g.Nonneg) : 0 ≤ gAmt g k :=
  sumOver_nonneg _ _ (fun it hit => itemAmt_nonneg _ _ it k (h it hit))

theorem taken_nonneg (L : List Group) (k : Slot) (h : ∀ g ∈ L, g.Nonneg) : 0 ≤ taken L k :=
  sumOver_nonneg _ _ (fun g hg => gAmt_nonneg g k (h g hg))

/-- what `updateAllocateSet` stores for a group -/
def enc (g : Group) : GKey × List Item := (g.key, recordItems g.items)

theorem recorded_map (L : List Group) (k : GKey) :
    recorded (L.map enc) k = L.any (fun x => decide (x.key = k)) := by
  induction L with
  | nil => simp [recorded]
  | cons x xs ih =>
    simp only [recorded] at ih
    simp [recorded, enc, ih]

theorem filter_key_self (L : List Group) (k : GKey)
    (h : L.any (fun x => decide (x.key = k)) = false) :
    L.filter (fun x => decide (x.key ≠ k)) = L := by
  rw [List.filter_eq_self]
  intro a ha
  have hne : ¬ a.key = k := by
    intro hk
    have : L.any (fun x => decide (x.key = k)) = true := by
      simp only [List.any_eq_true, decide_eq_true_eq]
      exact ⟨a, ha, hk⟩
    rw [h] at this
    exact Bool.false_ne_true this
  simpa using hne

theorem any_filter_key (L : List Group) (k : GKey) :
    (L.filter (fun x => decide (x.key ≠ k))).any (fun x => decide (x.key = k)) = false := by
  induction L with
  | nil => rfl
  | cons x xs ih =>
    by_cases hx : x.key = k
    · simp [hx]
    · simp [hx]

theorem taken_filter (L : List Group) (g : Group) (k : Slot)
    (hnd : (L.map Group.key).Nodup) (hg : g ∈ L) :
    taken L k = gAmt g k + taken (L.filter (fun x => decide (x.key ≠ g.key))) k := by
  induction L with
  | nil => simp at hg
  | cons x xs ih =>
    simp only [List.map_cons, List.nodup_cons] at hnd
    obtain ⟨hx, hxs⟩ := hnd
    by_cases hxg : x = g
    · subst hxg
      have hany : xs.any (fun y => decide (y.key = x.key)) = false := by
        apply Bool.eq_false_iff.mpr
        intro h
        simp only [List.any_eq_true, decide_eq_true_eq] at h
        obtain ⟨y, hy, hyk⟩ := h
        exact hx (by rw [← hyk]; exact List.mem_map_of_mem hy)
      rw [List.filter_cons_of_neg (by simp), filter_key_self xs x.key hany]
      simp [taken, sumOver]
    · have hgx : g ∈ xs := by
        cases hg with
        | head => exact absurd rfl hxg
        | tail _ h => exact h
      have hk : x.key ≠ g.key := by
        intro h
        exact hx (by rw [h]; exact List.mem_map_of_mem hgx)
      have := ih hxs hgx
      rw [List.filter_cons_of_pos (by simpa using hk)]
      simp only [taken, sumOver] at this ⊢
      omega

/-- `G` is the set of groups that may occur in events: amounts are non-negative and a key
    determines the group ("a remove / update carries the recorded allocation"). -/
structure Good (G : Group → Prop) : Prop where
  nonneg : ∀ g, G g → g.Nonneg
  func : ∀ g g', G g → G g' → g.key = g'.key → g = g'

/-- ledger invariant linking the cache state `st` with the list `L` of surviving allocations -/
structure Inv (G : Group → Prop) (st : St) (L : List Group) : Prop where
  aset : st.aset = L.map enc
  used : ∀ k, get st.used k = taken L k
  nodup : (L.map Group.key).Nodup
  mem : ∀ g ∈ L, G g

theorem inv_add {G : Group → Prop} {st : St} {L : List Group} {g : Group}
    (hI : Inv G st L) (hg : G g) : Inv G (addGroup st g) (liveStep L (.add g)) := by
  unfold addGroup liveStep
  have hrec := recorded_map L g.key
  rw [← hI.aset] at hrec
  by_cases hr : recorded st.aset g.key = true
  · have hr' := hr
    rw [hrec] at hr'
    simp only [hr, hr', if_true]
    exact hI
  · have hr1 : recorded st.aset g.key = false := by simpa using hr
    have hr2 : L.any (fun x => decide (x.key = g.key)) = false := by rw [← hrec]; exact hr1
    simp only [hr1, hr2, Bool.false_eq_true, if_false]
    refine ⟨?_, ?_, ?_, ?_⟩
    · simp [hI.aset, enc]
    · intro k
      simp only [get_foldl_addItem, hI.used k, taken, sumOver_append, sumOver, gAmt]
      omega
    · rw [List.map_append, List.nodup_append]
      refine ⟨hI.nodup, by simp, ?_⟩
      intro a ha b hb
      simp only [List.map_cons, List.map_nil, List.mem_singleton] at hb
      subst hb
      intro hab
      subst hab
      obtain ⟨y, hy, hyk⟩ := List.mem_map.mp ha
      have : L.any (fun x => decide (x.key = g.key)) = true := by
        simp only [List.any_eq_true, decide_eq_true_eq]
        exact ⟨y, hy, hyk⟩
      rw [hr2] at this
      exact Bool.false_ne_true this
    · intro x hx
      rcases List.mem_append.mp hx with h | h
      · exact hI.mem x h
      · simp only [List.mem_singleton] at h; subst h; exact hg

theorem inv_del {G : Group → Prop} (hG : Good G) {st : St} {L : List Group} {g : Group}
    (hI : Inv G st L) (hg : G g) : Inv G (rmGroup st g) (liveStep L (.del g)) := by
  unfold rmGroup liveStep
  have hrec := recorded_map L g.key
  rw [← hI.aset] at hrec
  by_cases hr : recorded st.aset g.key = true
  · have hr' := hr
    rw [hrec] at hr'
    simp only [List.any_eq_true, decide_eq_true_eq] at hr'
    obtain ⟨y, hy, hyk⟩ := hr'
    have hyg : y = g := hG.func y g (hI.mem y hy) hg hyk
    subst hyg
    simp only [hr, if_true]
    have hsub : ∀ x ∈ L.filter (fun x => decide (x.key ≠ y.key)), x ∈ L :=
      fun x hx => (List.mem_filter.mp hx).1
    refine ⟨?_, ?_, ?_, ?_⟩
    · simp only [hI.aset, List.filter_map]
      congr 1
    · intro k
      have htf := taken_filter L y k hI.nodup hy
      have hrest := taken_nonneg (L.filter (fun x => decide (x.key ≠ y.key))) k
        (fun x hx => hG.nonneg x (hI.mem x (hsub x hx)))
      have hu := hI.used k
      have := get_foldl_rmItem y.node y.ty y.items st.used k (hG.nonneg y hg)
        (by simp only [gAmt] at htf; omega)
      simp only [this]
      simp only [gAmt] at htf
      omega
    · exact (List.filter_sublist.map Group.key).nodup hI.nodup
    · intro x hx; exact hI.mem x (hsub x hx)
  · have hr1 : recorded st.aset g.key = false := by simpa using hr
    have hr2 : L.any (fun x => decide (x.key = g.key)) = false := by rw [← hrec]; exact hr1
    simp only [hr1, Bool.false_eq_true, if_false, filter_key_self L g.key hr2]
    exact hI

theorem liveStep_upd (L : List Group) (g : Group) :
    liveStep (liveStep L (.del g)) (.add g) = liveStep L (.upd g) := by
  simp [liveStep]

theorem inv_step {G : Group → Prop} (hG : Good G) {st : St} {L : List Group} {e : Ev}
    (hI : Inv G st L) (hg : G e.grp) : Inv G (step st e) (liveStep L e) := by
  cases e with
  | add g => exact inv_add hI hg
  | del g => exact inv_del hG hI hg
  | upd g =>
    have := inv_add (inv_del hG hI hg) hg
    rw [liveStep_upd] at this
    exact this

theorem inv_run {G : Group → Prop} (hG : Good G) (h : List Ev) {st : St} {L : List Group}
    (hI : Inv G st L) (hg : ∀ e ∈ h, G e.grp) : Inv G (run st h) (h.foldl liveStep L) := by
  induction h generalizing st L with
  | nil => exact hI
  | cons e r ih =>
    simp only [run, List.foldl_cons]
    exact ih (inv_step hG hI (hg e (by simp))) (fun e' he' => hg e' (by simp [he']))

theorem inv_init (G : Group → Prop) (total : Tab) : Inv G (St.init total) [] :=
  ⟨rfl, fun _ => rfl, by simp, by simp⟩

end KoordVerif.C19.Dev
