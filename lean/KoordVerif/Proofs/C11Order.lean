import KoordVerif.Model.C11
/-
C11 — the executor trace of KillAndEvictPods is, task after task, a sub-sequence of each task's
published victim list.
-/
namespace KoordVerif.C11

theorem loopPods_segment (agg : Entry → Rel) (isEv : Nat → Bool) (ti : Nat) (t : Task) (es : List Entry) :
    ∀ st, ∃ s : List Ev, (loopPods agg isEv ti t st es).logRev = s.reverse ++ st.logRev ∧
      (s.map (·.e)).Sublist es ∧ ∀ ev ∈ s, ev.task = ti := by
  induction es with
  | nil => intro st; exact ⟨[], by simp [loopPods]⟩
  | cons e es ih =>
    intro st
    unfold loopPods
    by_cases hc : st.evicted.contains e.pod = true
    · rw [if_pos hc]
      obtain ⟨s, h1, h2, h3⟩ := ih st
      exact ⟨s, h1, h2.trans (List.sublist_cons_self ..), h3⟩
    · rw [if_neg hc]
      by_cases hev : isEv e.pod = true
      · rw [if_pos hev]
        show ∃ s, (if (remaining t (addRel st.released (agg e))).isEmpty = true then _ else _ : St).logRev = _ ∧ _
        split
        · exact ⟨[⟨ti, e, .pending⟩], by simp, by simp, by simp⟩
        · obtain ⟨s, h1, h2, h3⟩ := ih { st with evicted := e.pod :: st.evicted, released := addRel st.released (agg e),
                                                 logRev := ⟨ti, e, .pending⟩ :: st.logRev }
          refine ⟨⟨ti, e, .pending⟩ :: s, ?_, ?_, ?_⟩
          · rw [h1]; simp
          · simpa using h2
          · intro ev hev'; rcases List.mem_cons.mp hev' with rfl | h
            · rfl
            · exact h3 ev h
      · rw [if_neg hev]
        by_cases hok : st.script.headD true = true
        · rw [if_pos hok]
          show ∃ s, (if (remaining t (addRel st.released (agg e))).isEmpty = true then _ else _ : St).logRev = _ ∧ _
          split
          · exact ⟨[⟨ti, e, .ok⟩], by simp, by simp, by simp⟩
          · obtain ⟨s, h1, h2, h3⟩ := ih { st with evicted := e.pod :: st.evicted, newly := true,
                                                   released := addRel st.released (agg e), script := st.script.tail,
                                                   logRev := ⟨ti, e, .ok⟩ :: st.logRev }
            refine ⟨⟨ti, e, .ok⟩ :: s, ?_, ?_, ?_⟩
            · rw [h1]; simp
            · simpa using h2
            · intro ev hev'; rcases List.mem_cons.mp hev' with rfl | h
              · rfl
              · exact h3 ev h
        · rw [if_neg hok]
          obtain ⟨s, h1, h2, h3⟩ := ih { st with script := st.script.tail, logRev := ⟨ti, e, .fail⟩ :: st.logRev }
          refine ⟨⟨ti, e, .fail⟩ :: s, ?_, ?_, ?_⟩
          · rw [h1]; simp
          · simpa using h2
          · intro ev hev'; rcases List.mem_cons.mp hev' with rfl | h
            · rfl
            · exact h3 ev h

/-- segment `i` of the trace belongs to task `ti + i` and is a sub-sequence of its victim list. -/
def SegsOK : Nat → List Task → List (List Ev) → Prop
  | _, [], [] => True
  | ti, t :: ts, s :: ss => (s.map (·.e)).Sublist t.pods ∧ (∀ ev ∈ s, ev.task = ti) ∧ SegsOK (ti + 1) ts ss
  | _, _, _ => False

theorem loopTasks_segments (agg : Entry → Rel) (isEv : Nat → Bool) (ts : List Task) :
    ∀ ti st, ∃ segs : List (List Ev),
      (loopTasks agg isEv ti st ts).logRev.reverse = st.logRev.reverse ++ segs.flatten ∧ SegsOK ti ts segs := by
  induction ts with
  | nil => intro ti st; exact ⟨[], by simp [loopTasks, SegsOK]⟩
  | cons t ts ih =>
    intro ti st
    unfold loopTasks
    split
    · obtain ⟨segs, h1, h2⟩ := ih (ti + 1) st
      exact ⟨[] :: segs, by simpa using h1, by simp [SegsOK, h2]⟩
    · obtain ⟨s, hs1, hs2, hs3⟩ := loopPods_segment agg isEv ti t t.pods st
      obtain ⟨segs, h1, h2⟩ := ih (ti + 1) (loopPods agg isEv ti t st t.pods)
      refine ⟨s :: segs, ?_, hs2, hs3, h2⟩
      rw [h1, hs1]; simp

end KoordVerif.C11
