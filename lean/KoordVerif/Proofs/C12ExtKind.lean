import KoordVerif.Model.C12Kind
import KoordVerif.Proofs.C12
import KoordVerif.Proofs.C12ExtEnv
/-
C12 — helper development for batches of updaters of mixed kinds (Model/C12Kind.lean): a batch whose updaters are ALL
mergeable is the batch of Model/C12.lean over the resource's domain with `mergeable := true`.
-/
namespace KoordVerif.C12

variable {α : Type}

/-- the updaters without their kind, level by level. -/
def eraseKinds (levels : List (List (UpdK α))) : List (List (Upd α)) := levels.map fun L => L.map UpdK.upd

def AllMergeable (levels : List (List (UpdK α))) : Prop := ∀ L ∈ levels, ∀ u ∈ L, u.mergeable = true

instance (levels : List (List (UpdK α))) : Decidable (AllMergeable levels) :=
  inferInstanceAs (Decidable (∀ L ∈ levels, ∀ u ∈ L, u.mergeable = true))

theorem domEq_withKind {D : Dom α} (h : DomEq D) (k : Bool) : DomEq (withKind D k) :=
  ⟨h.mergeSelf, h.same_eq, h.valEq_eq, h.after_eq, h.read_eq⟩

theorem domOrd_withKind {D : Dom α} {le : α → α → Prop} (h : DomOrd D le) (k : Bool) : DomOrd (withKind D k) le :=
  ⟨h.refl, h.trans, h.noMerge, h.mergeOld, h.mergeNew, h.mergeLub⟩

theorem runPassK_eq (stepK : St α → UpdK α → St α × List (Write α)) (step : St α → Upd α → St α × List (Write α)) :
    ∀ (l : List (UpdK α)) (s : St α), (∀ u ∈ l, ∀ s', stepK s' u = step s' u.upd) →
      runPassK stepK l s = runPass step (l.map UpdK.upd) s := by
  intro l
  induction l with
  | nil => intro s _; rfl
  | cons u l ih =>
    intro s h
    simp only [runPassK, runPass, List.map_cons]
    rw [h u (List.mem_cons_self ..) s, ih _ (fun v hv => h v (List.mem_cons_of_mem _ hv))]

theorem eraseKinds_flatten (levels : List (List (UpdK α))) :
    (eraseKinds levels).flatten = levels.flatten.map UpdK.upd := by
  simp [eraseKinds, List.map_flatten]

theorem eraseKinds_reverse_flatten (levels : List (List (UpdK α))) :
    sweep2 (eraseKinds levels) = (sweep2 levels).map UpdK.upd := by
  simp [sweep2_eq, eraseKinds, List.map_flatten, List.map_reverse]

/-- all updaters mergeable ⇒ the mixed-kind batch is the plain batch over `withKind D true`. -/
theorem runBatchK_all_mergeable (D : Dom α) (exp : Bool) (ex : Nat → Bool) (levels : List (List (UpdK α))) (s : St α)
    (h : AllMergeable levels) :
    runBatchK D exp ex levels s = runBatchE (withKind D true) exp ex (eraseKinds levels) s := by
  have h1 : ∀ u ∈ levels.flatten, u.mergeable = true := by
    intro u hu
    obtain ⟨L, hL, huL⟩ := List.mem_flatten.mp hu
    exact h L hL u huL
  have h2 : ∀ u ∈ sweep2 levels, u.mergeable = true := by
    intro u hu
    rw [sweep2_eq] at hu
    exact h1 u (List.mem_reverse.mp hu)
  simp only [runBatchK, runBatchE, eraseKinds_flatten, eraseKinds_reverse_flatten]
  rw [runPassK_eq (stepK1 D exp ex) (stepE ex (step1 (withKind D true) exp)) _ _
        (fun u hu s' => by simp [stepK1, h1 u hu])]
  rw [runPassK_eq (stepK2 D exp ex) (stepE ex (step2 (withKind D true) exp)) _ _
        (fun u hu s' => by simp [stepK2, h2 u hu])]

/-- LeveledUpdateBatch as it was BEFORE fix 4d8d1bf: the bottom-up sweep walked every level FORWARDS
    (`for _, updater := range updaters[i]`).  Kept only to state what the old order did. -/
def runBatchKOld (D : Dom α) (expired : Bool) (ex : Nat → Bool) (levels : List (List (UpdK α))) (s : St α) :
    St α × List (Write α) :=
  let r1 := runPassK (stepK1 D expired ex) levels.flatten { s with skip := [] }
  let r2 := runPassK (stepK2 D expired ex) levels.reverse.flatten r1.1
  (r2.1, r1.2 ++ r2.2)

end KoordVerif.C12
