import KoordVerif.Proofs.C01Move
/-
C01: MigratePod keeps the invariant.
-/
namespace KoordVerif.C01

theorem migrate_eq (s : State) (p : PodObj) (out inQ : Nat) :
    migratePod s p out inQ =
      (let asg := assignedIn s out p.id
       let s3 := removePodFrom s out p false
       if existsIn s3 inQ p.id then s3 else
       let s4 := cacheAdd s3 inQ p
       let s5 := setAssigned s4 inQ p.id asg
       let s6 := updPodReq s5 inQ none (some p)
       if asg then updPodUsed s6 inQ p.id none (some p) else s6) := by
  simp [migratePod, removePodFrom]

theorem set_get_self : ∀ {s : State} {q : Quota}, get? s q.name = some q → set s q = s
  | [], _, h => by simp [get?] at h
  | x :: t, q, h => by
    simp only [get?] at h
    simp only [set]
    by_cases hx : x.name = q.name
    · simp only [hx, if_true, Option.some.injEq] at h
      simp [hx, h]
    · simp only [hx, if_false] at h
      simp only [hx, if_false]
      rw [set_get_self h]

/-- flagging a fresh (unassigned) entry as unassigned changes nothing -/
theorem setAssigned_false_fresh {s : State} {n : Nat} {p : PodObj} {q : Quota} (hq : get? s n = some q)
    (hne : getPod q.pods p.id = none) : setAssigned (cacheAdd s n p) n p.id false = cacheAdd s n p := by
  have hex : podExists q p.id = false := by rw [podExists_eq, hne]; rfl
  have heq : cacheAdd s n p = set s { q with pods := newEntry p :: q.pods } := by
    simp [cacheAdd, hq, hex, newEntry]
  have hq4 : get? (cacheAdd s n p) n = some { q with pods := newEntry p :: q.pods } := by
    rw [heq]; exact get?_setq hq rfl
  rw [setAssigned_eq hq4]
  have hpods : updPods (gAsg false) p.id (newEntry p :: q.pods) = newEntry p :: q.pods := by
    have := updPods_none (g := gAsg false) hne
    simp only [updPods] at this
    simp only [updPods, List.map_cons, this]
    simp [newEntry, gAsg]
  simp only [hpods]
  apply set_get_self
  have hqn := get?_name hq
  simpa [hqn] using hq4

theorem migrateIn_good {s : State} {n : Nat} {p : PodObj} {q : Quota} (h : Good s) (hp : 0 ≤ p.req)
    (hq : get? s n = some q) (hmax : q.max.isSome = true) (hne : getPod q.pods p.id = none) (asg : Bool) :
    Good (let s4 := cacheAdd s n p
          let s5 := setAssigned s4 n p.id asg
          let s6 := updPodReq s5 n none (some p)
          if asg then updPodUsed s6 n p.id none (some p) else s6) := by
  cases asg with
  | false =>
    simp only [setAssigned_false_fresh hq hne]
    simpa using (addReq_good h hp hq hmax hne).1
  | true =>
    simp only [if_true]
    have hm : Mid s n 0 0 0 0 := mid_switch h
    obtain ⟨heq, h4⟩ := cacheAdd_mid p hm hq hne hp
    have hq4 : get? (cacheAdd s n p) n = some { q with pods := newEntry p :: q.pods } := by
      rw [heq]; exact get?_setq hq rfl
    have he4 : getPod ({ q with pods := newEntry p :: q.pods } : Quota).pods p.id = some (newEntry p) := by
      simp [getPod, newEntry]
    rw [setAssigned_eq hq4]
    have hg : ∀ x, (gAsg true x).id = x.id := fun _ => rfl
    have h5 := updEntry_mid (gAsg true) hg (by simpa [gAsg, newEntry] using hp) h4 hq4 he4
    have hq5 := get?_setq (q1 := { ({ q with pods := newEntry p :: q.pods } : Quota) with
      pods := updPods (gAsg true) p.id ({ q with pods := newEntry p :: q.pods } : Quota).pods }) hq4 rfl
    obtain ⟨_, _, sr1, sr2⟩ := self_nonneg_req hm hq
    obtain ⟨_, _, su1, su2⟩ := self_nonneg_used hm hq
    have hnpnn : 0 ≤ npOf (some p) := by simp only [npOf]; split <;> omega
    have R1 : reqOf (some p) = p.req := rfl
    have R0 : reqOf none = 0 := rfl
    have N0 : npOf none = 0 := rfl
    have h6 := updPodReq_mid none (some p) h5 hq5 (by simpa using hmax) (by
      show 0 ≤ q.selfRequest + _ ∧ 0 ≤ q.selfNpRequest + _
      rw [R1, R0, N0]; constructor <;> omega)
    obtain ⟨q6, hq6, hpods6, hmax6, hsu6, hsnu6⟩ := updPodReq_view n none (some p) hq5
    have he5 : getPod (updPods (gAsg true) p.id ({ q with pods := newEntry p :: q.pods } : Quota).pods) p.id
        = some (gAsg true (newEntry p)) := getPod_updPods hg he4
    have hnd6 := h6.pods q6 (get?_mem hq6)
    have hpa6 : podAssigned q6 p.id = true := by
      rw [podAssigned_eq _ _ hnd6, hpods6]
      simp only [he5]; rfl
    have h7 := updPodUsed_mid (id := p.id) none (some p) h6 hq6 (by rw [hmax6]; simpa using hmax) (by simp [hpa6]) (by
      rw [hsu6, hsnu6]
      show 0 ≤ q.selfUsed + _ ∧ 0 ≤ q.selfNpUsed + _
      rw [R1, R0, N0]; constructor <;> omega)
    have W2 : w (fun x => x.np) (newEntry p) = npOf (some p) := w_np rfl rfl
    have W2' : w (fun x => x.np) (gAsg true (newEntry p)) = npOf (some p) := w_np rfl rfl
    have W3 : w (fun x => x.assigned) (newEntry p) = 0 := by simp [w, newEntry]
    have W3' : w (fun x => x.assigned) (gAsg true (newEntry p)) = p.req := by simp [w, newEntry, gAsg]
    have W4 : w (fun x => x.assigned && x.np) (newEntry p) = 0 := by simp [w, newEntry]
    have W4' : w (fun x => x.assigned && x.np) (gAsg true (newEntry p)) = npOf (some p) := by
      simp [w, newEntry, gAsg, npOf]
    have E1 : (newEntry p).req = p.req := rfl
    have E2 : (gAsg true (newEntry p)).req = p.req := rfl
    rw [W2, W2', W3, W3', W4, W4', E1, E2, R1, R0, N0] at h7
    apply mid_switch (n := n)
    exact mid_cast h7 (by omega) (by omega) (by omega) (by omega)

structure MigPre (s : State) (p : PodObj) (out inQ : Nat) : Prop where
  nonneg : 0 ≤ p.req
  src : ∃ qo e, get? s out = some qo ∧ qo.max.isSome = true ∧ getPod qo.pods p.id = some e ∧ e.req = p.req ∧ e.np = p.np
  dst : ∃ qi, get? s inQ = some qi ∧ qi.max.isSome = true

theorem migratePod_good {s : State} {p : PodObj} {out inQ : Nat} (h : Good s) (hpre : MigPre s p out inQ) :
    Good (migratePod s p out inQ) := by
  rw [migrate_eq]
  obtain ⟨qo, e, hqo, hmaxo, he, hreq, hnp⟩ := hpre.src
  obtain ⟨qi, hqi, hmaxi⟩ := hpre.dst
  have h3 := removePodFrom_good h hpre.nonneg hqo hmaxo he hreq hnp false
  obtain ⟨q3, hq3, hmax3, hpods3⟩ := (removePodFrom_view (s := s) out p false inQ).2 qi hqi
  simp only
  by_cases hex : existsIn (removePodFrom s out p false) inQ p.id = true
  · rw [if_pos hex]; exact h3
  · rw [if_neg hex]
    have hne3 : getPod q3.pods p.id = none := by
      simp only [existsIn, hq3, podExists_eq] at hex
      cases hg : getPod q3.pods p.id with
      | none => rfl
      | some e => simp [hg] at hex
    exact migrateIn_good h3 hpre.nonneg hq3 (by rw [hmax3]; exact hmaxi) hne3 _

end KoordVerif.C01
