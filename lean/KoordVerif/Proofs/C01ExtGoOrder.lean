import KoordVerif.Proofs.C01ExtMixed
/-
C01 extension (schedules quantifier), part 10: position of the cache refresh in OnPodUpdate.
Go (repair 7265fb2) calls QuotaInfo.refreshPodIfPresent AFTER the used / assigned handling of the same-quota branch;
the atomic model (and `planSameV`) applies `setGhost` right after the request section.  `planSameGoV` is the Go
order.  It is safe under the same precondition and leaves the pod's local view exactly as `planSameV` does, so by
the generic pool theorems (which hold for ANY safe plan) nothing changes when a handler uses the Go order.
-/
namespace KoordVerif.C01

def planSameGoV (e : Option Pod) (n : Nat) (np op : PodObj) : List Micro :=
  [.req n np.id (some op) (some np)] ++
  (if asgOf e then [.used n np.id (some op) (some np)]
   else if np.hasNode && !np.term then [.setAsg n np.id true, .used n np.id none (some np)] else []) ++
  [.ghost n np]

theorem planSameGoV_grp (e : Option Pod) (n : Nat) (np op : PodObj) : ∀ m ∈ planSameGoV e n np op, m.grp = n := by
  intro m hm
  unfold planSameGoV at hm
  cases h : asgOf e <;> cases hb : (np.hasNode && !np.term) <;>
    simp only [h, hb, if_true, Bool.false_eq_true, if_false, List.cons_append, List.nil_append, List.append_nil,
      List.mem_cons, List.not_mem_nil, or_false] at hm <;>
    (rcases hm with rfl | rfl | rfl | rfl <;> rfl)

theorem safe_planSameGoV {s : State} {n : Nat} {np op : PodObj} {e : Pod}
    (hst : stat s n = some true) (hnnN : 0 ≤ np.req) (hnnO : 0 ≤ op.req) (he : entry s n np.id = some e)
    (hreq : e.req = op.req) (hnp : e.np = op.np) :
    FSafeRun (stat s n) np.id (focus (localOf s (cntOf s) np.id) n) (planSameGoV (some e) n np op) ∧
    FSettled (frun (stat s n) (focus (localOf s (cntOf s) np.id) n) (planSameGoV (some e) n np op)) ∧
    frun (stat s n) (focus (localOf s (cntOf s) np.id) n) (planSameGoV (some e) n np op) =
      frun (stat s n) (focus (localOf s (cntOf s) np.id) n) (planSameV (some e) n np op) := by
  rw [focus_present he, hst]
  cases hasg : e.assigned <;> cases hb : (np.hasNode && !np.term) <;>
    simp [planSameGoV, planSameV, asgOf, hasg, hb, FSafeRun, frun, fok, fstep, FSettled, dR, dN, reqOf, npOf, w, gGhost,
      gAsg, hreq, hnp, hnnN, hnnO] <;>
    (have h1 : 0 ≤ (if np.np = true then np.req else 0) := by split <;> omega
     generalize (if np.np = true then np.req else 0) = x at *
     generalize (if op.np = true then op.req else 0) = y at *
     omega)

end KoordVerif.C01
