import KoordVerif.Proofs.C01ExtSeq
/-
C01 extension: a concrete, non-sequential interleaving of two OnPodAdd handlers (non-vacuity of the hypotheses of
`handlers_serializable`).
-/
namespace KoordVerif.C01

/-- quota 2 (max 10, lending) under the root -/
def cxS : State := step init (.quota ⟨2, 1, false, true, 10, 0⟩)

/-- pod 1: 30, bound (4 sections); pod 2: 5, non-preemptible, pending (2 sections) -/
def cxP1 : PodObj := ⟨1, 30, false, true, false, false⟩
def cxP2 : PodObj := ⟨2, 5, true, false, false, false⟩
def cxEvs : List PodEv := [.add 2 cxP1, .add 2 cxP2]

theorem cxS_eq : cxS = [ { emptyQuota 2 1 false true with max := some 10 }, emptyQuota 1 0 true false ] := by decide

theorem cx_pool : cxEvs.map (thr cxS) =
    [ (1, [.cacheAdd 2 cxP1, .req 2 1 none (some cxP1), .setAsg 2 1 true, .used 2 1 none (some cxP1)]),
      (2, [.cacheAdd 2 cxP2, .req 2 2 none (some cxP2)]) ] := by
  rw [cxS_eq]; rfl

theorem pstep_at {s : State} {pool pool' : Pool} (pre post : Pool) (i : Nat) (m : Micro) (k : List Micro)
    (h1 : pool = pre ++ (i, m :: k) :: post) (h2 : pool' = pre ++ (i, k) :: post) :
    PStep (s, pool) (mstep s m, pool') := by
  subst h1 h2; exact PStep.mk s pre post i m k

/-- schedule: 2.cacheAdd, 1.cacheAdd, 1.req, 2.req, 1.setAsg, 1.used -/
def cxFinal : State :=
  mstep (mstep (mstep (mstep (mstep (mstep cxS (.cacheAdd 2 cxP2)) (.cacheAdd 2 cxP1)) (.req 2 1 none (some cxP1)))
    (.req 2 2 none (some cxP2))) (.setAsg 2 1 true)) (.used 2 1 none (some cxP1))

theorem PSteps.head {x y z : State × Pool} (h : PStep x y) (h2 : PSteps y z) : PSteps x z :=
  (PSteps.tail (PSteps.refl x) h).trans h2

theorem cx_steps : PSteps (cxS, cxEvs.map (thr cxS)) (cxFinal, [(1, []), (2, [])]) := by
  rw [cx_pool]
  apply PSteps.head (pstep_at [(1, [.cacheAdd 2 cxP1, .req 2 1 none (some cxP1), .setAsg 2 1 true, .used 2 1 none (some cxP1)])] [] 2 _ _ rfl rfl)
  apply PSteps.head (pstep_at [] [(2, [.req 2 2 none (some cxP2)])] 1 _ _ rfl rfl)
  apply PSteps.head (pstep_at [] [(2, [.req 2 2 none (some cxP2)])] 1 _ _ rfl rfl)
  apply PSteps.head (pstep_at [(1, [.setAsg 2 1 true, .used 2 1 none (some cxP1)])] [] 2 _ _ rfl rfl)
  apply PSteps.head (pstep_at [] [(2, [])] 1 _ _ rfl rfl)
  apply PSteps.head (pstep_at [] [(2, [])] 1 _ _ rfl rfl)
  exact PSteps.refl _

/-- the interleaved run ends with the figures of the sequential one: request 35 (30 + 5, of which min(35, 10)
reaches the root), used 30, non-preemptible request 5; only the ORDER of the cache list differs -/
example : (cxFinal.map fun q => (q.name, q.request, q.used, q.npRequest, q.pods.map (·.id))) =
    [(2, 35, 30, 5, [1, 2]), (1, 10, 30, 5, [])] := by decide

example : ((run cxS (cxEvs.map PodEv.op)).map fun q => (q.name, q.request, q.used, q.npRequest, q.pods.map (·.id))) =
    [(2, 35, 30, 5, [2, 1]), (1, 10, 30, 5, [])] := by decide

end KoordVerif.C01
