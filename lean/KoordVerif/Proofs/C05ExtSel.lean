import KoordVerif.Model.C05
import KoordVerif.Model.C05Sel
/-
C05 round 6: the owner label selector is read in full - all of matchLabels AND all of matchExpressions - and an
invalid expression makes the owner spec unparsable, also when it stands next to matchLabels.
-/
namespace KoordVerif.C05

/-- the reading of a label selector the property speaks about: every matchLabels pair is carried and every
    expression holds -/
def selectorSatisfied (s : LabelSel) (pod : Labels) : Prop :=
  (∀ p ∈ s.labels, labelHolds p pod = true) ∧ (∀ e ∈ s.exprs, exprHolds e pod = true)

theorem parsed_matches_iff (p : ParsedSel) (pod : Labels) :
    p.matchesPod pod = true ↔ (∀ q ∈ p.labels, labelHolds q pod = true) ∧ (∀ e ∈ p.exprs, exprHolds e pod = true) := by
  simp [ParsedSel.matchesPod, List.all_eq_true]

/-- whatever GetFastLabelSelector returns evaluates the WHOLE selector -/
theorem fast_selector_exact (s : LabelSel) (p : ParsedSel) (pod : Labels) (h : getFastLabelSelector s = some p) :
    p.matchesPod pod = true ↔ selectorSatisfied s pod := by
  unfold getFastLabelSelector at h
  split at h
  · next hc =>
    have he : s.exprs = [] := by
      have := hc
      simp at this
      exact this.1
    cases h
    simp [parsed_matches_iff, selectorSatisfied, he]
  · unfold labelSelectorAsSelector at h
    split at h
    · cases h
      simp [parsed_matches_iff, selectorSatisfied]
    · cases h

/-- an invalid expression is an error, with or without matchLabels next to it -/
theorem fast_selector_rejects_invalid (s : LabelSel) (e : SelExpr) (he : e ∈ s.exprs) (hv : exprValid e = false) :
    getFastLabelSelector s = none := by
  unfold getFastLabelSelector
  have hne : s.exprs.isEmpty = false := by
    cases hs : s.exprs with
    | nil => rw [hs] at he; cases he
    | cons a t => rfl
  simp only [hne, Bool.false_and, Bool.false_eq_true, if_false]
  unfold labelSelectorAsSelector
  have : s.exprs.all exprValid = false := by
    apply Bool.eq_false_iff.mpr
    intro hall
    have := List.all_eq_true.mp hall e he
    rw [hv] at this
    cases this
  simp [this]

theorem parse_owner_selectors_length : ∀ (ss : List (Option LabelSel)) (ps : List (Option ParsedSel)),
    parseOwnerSelectors ss = some ps → ps.length = ss.length := by
  intro ss
  induction ss with
  | nil => intro ps h; simp [parseOwnerSelectors] at h; subst h; rfl
  | cons a t ih =>
    intro ps h
    cases a with
    | none =>
      simp only [parseOwnerSelectors, Option.map_eq_some_iff] at h
      obtain ⟨t', ht', rfl⟩ := h
      simp [ih t' ht']
    | some s =>
      simp only [parseOwnerSelectors] at h
      split at h
      · next p t' hp ht' => cases h; simp [ih t' ht']
      · cases h

/-- entry-wise: a parsed owner spec evaluates every entry's selector in full -/
theorem parse_owner_selectors_exact : ∀ (ss : List (Option LabelSel)) (ps : List (Option ParsedSel)),
    parseOwnerSelectors ss = some ps →
    ∀ (i : Nat) (s : LabelSel), ss[i]? = some (some s) →
      ∃ p, ps[i]? = some (some p) ∧ ∀ pod, (p.matchesPod pod = true ↔ selectorSatisfied s pod) := by
  intro ss
  induction ss with
  | nil => intro ps _ i s hi; simp at hi
  | cons a t ih =>
    intro ps h i s hi
    cases a with
    | none =>
      simp only [parseOwnerSelectors, Option.map_eq_some_iff] at h
      obtain ⟨t', ht', rfl⟩ := h
      cases i with
      | zero => simp at hi
      | succ j =>
        simp only [List.getElem?_cons_succ] at hi ⊢
        exact ih t' ht' j s hi
    | some s0 =>
      simp only [parseOwnerSelectors] at h
      split at h
      · next p t' hp ht' =>
        cases h
        cases i with
        | zero =>
          simp only [List.getElem?_cons_zero, Option.some.injEq] at hi
          subst hi
          exact ⟨p, by simp, fun pod => fast_selector_exact s0 p pod hp⟩
        | succ j =>
          simp only [List.getElem?_cons_succ] at hi ⊢
          exact ih t' ht' j s hi
      · cases h

/-- one invalid expression anywhere in the spec: the spec does not parse (ParseError; MatchOwners answers false) -/
theorem parse_owner_selectors_rejects_invalid : ∀ (ss : List (Option LabelSel)) (s : LabelSel) (e : SelExpr),
    some s ∈ ss → e ∈ s.exprs → exprValid e = false → parseOwnerSelectors ss = none := by
  intro ss
  induction ss with
  | nil => intro s e hs; cases hs
  | cons a t ih =>
    intro s e hs he hv
    cases a with
    | none =>
      have : some s ∈ t := by
        cases hs with
        | tail _ h => exact h
      simp [parseOwnerSelectors, ih s e this he hv]
    | some s0 =>
      simp only [parseOwnerSelectors]
      cases hs with
      | head =>
        rw [fast_selector_rejects_invalid s e he hv]
      | tail _ h =>
        rw [ih s e h he hv]
        split <;> simp_all

/-- one entry of Spec.Owners as the owner test sees it: the outcome of MatchObjectRef and
    MatchReservationControllerReference on the pod (computed by the real helpers, as before) and the entry's label
    selector ITSELF (`none` = the entry has none) -/
structure OwnerEntry where
  obj  : Bool
  ctrl : Bool
  sel  : Option LabelSel

/-- ReservationOwnerMatcher.Match per entry, given the parsed selectors -/
def ownerEvalsOf (pod : Labels) : List OwnerEntry → List (Option ParsedSel) → List OwnerEval
  | e :: es, p :: ps => { obj := e.obj, ctrl := e.ctrl, lbl := ownerLabelsMatch p pod } :: ownerEvalsOf pod es ps
  | _, _ => []

/-- NewReservationInfo / UpdateReservation + MatchOwners: parse the spec (an error is ReservationInfo.ParseError),
    then the DNF over the entries -/
def matchOwnersSpec (es : List OwnerEntry) (pod : Labels) : Bool :=
  match parseOwnerSelectors (es.map (·.sel)) with
  | none => matchOwners true []
  | some ps => matchOwners false (ownerEvalsOf pod es ps)

theorem owner_evals_satisfied (pod : Labels) : ∀ (es : List OwnerEntry) (ps : List (Option ParsedSel)),
    parseOwnerSelectors (es.map (·.sel)) = some ps →
    ∀ m ∈ ownerEvalsOf pod es ps, m.obj = true → m.ctrl = true → m.lbl = true →
      ∃ e ∈ es, e.obj = true ∧ e.ctrl = true ∧ ∀ s, e.sel = some s → selectorSatisfied s pod := by
  intro es
  induction es with
  | nil => intro ps _ m hm; simp [ownerEvalsOf] at hm
  | cons e t ih =>
    intro ps h m hm ho hc hl
    cases hsel : e.sel with
    | none =>
      simp only [List.map_cons, hsel, parseOwnerSelectors, Option.map_eq_some_iff] at h
      obtain ⟨t', ht', rfl⟩ := h
      simp only [ownerEvalsOf, List.mem_cons] at hm
      rcases hm with rfl | hm
      · exact ⟨e, by simp, ho, hc, fun s hs => by rw [hsel] at hs; cases hs⟩
      · obtain ⟨e', he', h'⟩ := ih t' ht' m hm ho hc hl
        exact ⟨e', by simp [he'], h'⟩
    | some s0 =>
      simp only [List.map_cons, hsel, parseOwnerSelectors] at h
      split at h
      · next p t' hp ht' =>
        cases h
        simp only [ownerEvalsOf, List.mem_cons] at hm
        rcases hm with rfl | hm
        · refine ⟨e, by simp, ho, hc, fun s hs => ?_⟩
          rw [hsel] at hs
          cases hs
          exact (fast_selector_exact s0 p pod hp).mp hl
        · obtain ⟨e', he', h'⟩ := ih t' ht' m hm ho hc hl
          exact ⟨e', by simp [he'], h'⟩
      · cases h

/-- MatchOwners says yes ⇒ the spec parsed (no selector of ANY entry carries an invalid expression) and one entry is
    satisfied in all three parts, its label selector in full: all of matchLabels AND all of matchExpressions -/
theorem match_owners_spec_sound (es : List OwnerEntry) (pod : Labels) (h : matchOwnersSpec es pod = true) :
    (∀ e ∈ es, ∀ s, e.sel = some s → ∀ x ∈ s.exprs, exprValid x = true) ∧
    ∃ e ∈ es, e.obj = true ∧ e.ctrl = true ∧ ∀ s, e.sel = some s → selectorSatisfied s pod := by
  unfold matchOwnersSpec at h
  split at h
  · simp [matchOwners] at h
  · next ps hps =>
    constructor
    · intro e he s hs x hx
      cases hv : exprValid x with
      | true => rfl
      | false =>
        have hm : some s ∈ es.map (·.sel) := List.mem_map.mpr ⟨e, he, hs⟩
        rw [parse_owner_selectors_rejects_invalid _ s x hm hx hv] at hps
        cases hps
    · simp only [matchOwners, matchOwnersList, Bool.not_false, Bool.true_and, List.any_eq_true, Bool.and_eq_true] at h
      obtain ⟨m, hm, ⟨ho, hc⟩, hl⟩ := h
      exact owner_evals_satisfied pod es ps hps m hm ho hc hl

/-- the seeded round-5 shape: the fast path fires whenever matchLabels is non-empty -/
def getFastLabelSelectorLabelsOnlyGuard (s : LabelSel) : Option ParsedSel :=
  if !s.labels.isEmpty then some { labels := s.labels, exprs := [] } else labelSelectorAsSelector s

end KoordVerif.C05
