import KoordVerif.Proofs.C17Evict
import KoordVerif.Proofs.C17Node
/-
C17: the gates doMigrate has passed whenever it reaches the `Evict` call (reservation-first mode).
-/
namespace KoordVerif.C17

/-- the reservation-first gates, as known in the state `m1` in which `evictPod` is entered -/
def GatesM (m1 : M) : Prop :=
  RR m1 true ∧ ∃ r, m1.env.resv = some r ∧ resvPending r = false ∧ resvExpired r = false ∧
    (resvScheduled r = true ∨ (r.needPreempt = true ∧ m1.env.preempt = 2)) ∧ r.pendingMode = false

/-- the reservation's node, if it has one, is not the pod's node -/
def NodeOK (m1 : M) : Prop := ∀ r p, m1.env.resv = some r → m1.env.pod = some p → r.node ≠ 0 → r.node ≠ p.node

/-- `nc` = "at the start of this reconcile the job had not yet recorded a target node" -/
def Q (nc : Prop) (m1 : M) : Prop := m1.mem.spec.direct = false → GatesM m1 ∧ (nc → NodeOK m1)

theorem preemptGate_cont {m m' : M} {r : Resv} (h : preemptGate m r = .cont m') :
    resvScheduled r = true ∨ (r.needPreempt = true ∧ m.env.preempt = 2) := by
  unfold preemptGate at h
  split at h
  · rename_i hs; exact Or.inl hs
  · split at h
    · cases h
    · rename_i hn
      split at h
      · rename_i h2
        simp only [Bool.or_eq_true, Bool.not_eq_true', beq_iff_eq, not_or] at hn
        exact Or.inr ⟨by simpa using hn.1, h2⟩
      · cases h

theorem withReservation_goal (nc : Prop) (m : M) (r : Resv) (hr : m.env.resv = some r) (hrr : RR m true)
    (hnc : nc → NC m) : Goal m (Q nc) (withReservation m r).m := by
  unfold withReservation
  refine Goal.bind (spec_syncScheduleFailed m r) ?_
  intro m1 hc1 f1
  split
  · exact Goal.of_keep (Keep.refl _)
  · rename_i hpend
    split
    · exact Goal.of_keep (frame_abortWith _ _).toKeep
    · rename_i hexp
      refine Goal.bind (spec_preemptGate m1 r) ?_
      intro m2 hc2 f2
      have hpre := preemptGate_cont hc2
      refine Goal.bind (spec_prepareScheduleSuccess m2 r) ?_
      intro m3 hc3 f3
      split
      · exact Goal.of_keep (keep_waitPendingPod _)
      · rename_i hpm
        have fr : Frame m m3 := (f1.trans f2).trans f3
        have f23 : Frame m1 m3 := f2.trans f3
        refine Goal.bindEv (evictPod_spec m3) ?_ ?_
        · intro _
          refine ⟨⟨fr.rr true hrr, r, by rw [fr.env]; exact hr, by simpa using hpend, by simpa using hexp, ?_, by simpa using hpm⟩, ?_⟩
          · rcases hpre with h | ⟨h1, h2⟩
            · exact Or.inl h
            · exact Or.inr ⟨h1, by rw [f23.env]; exact h2⟩
          · intro hn r' p hr' hp hnode
            have hnc2 : NC m2 := nc_preemptGate (nc_syncScheduleFailed (hnc hn) hc1) hc2
            rw [fr.env, hr] at hr'
            cases hr'
            rw [f3.env] at hp
            exact prepareScheduleSuccess_node hnc2 hc3 p hp hnode
        · intro m4 _
          exact Res.Spec.bind (spec_waitBind m4 r) fun m5 _ =>
            Res.Spec.bind (spec_boundSuccess m5) fun m6 _ =>
              Res.Spec.bind (spec_waitReady m6) fun m7 _ => spec_finish m7

theorem reservationFirst_goal (nc : Prop) (m : M) (b : Bool) (h : RR m b) (hnc : nc → NC m) :
    Goal m (Q nc) (reservationFirst m).m := by
  unfold reservationFirst
  split
  · exact Goal.of_keep (keep_createReservation m)
  · rename_i href
    have hb : b = true := by rw [← h.1]; simpa using href
    subst hb
    have hs := setReservationOrder_spec m
    cases hso : setReservationOrder m with
    | stop m' =>
      rw [hso] at hs
      exact Goal.of_keep hs
    | cont m1 =>
      rw [hso] at hs
      have hs' : FrameR m m1 := hs
      simp only [Res.bind]
      refine Goal.pull hs'.toKeep ?_
      refine Goal.bind (spec_okOr _ (frame_updateCondition m1 _ ok1)) ?_
      intro m2 hc2 f2
      split
      · exact Goal.of_keep (frame_abortWith _ _).toKeep
      · rename_i r hres
        refine withReservation_goal nc m2 r hres (f2.rr true (hs'.rr true h)) ?_
        intro hn
        have := okOr_cont hc2
        subst this
        exact nc_updateCondition (nc_setReservationOrder (hnc hn) hso) (Or.inl (by decide))

theorem doMigrate_goal (nc : Prop) (m : M) (b : Bool) (h : RR m b) (hnc : nc → NC m) :
    Goal m (Q nc) (doMigrate m) := by
  unfold doMigrate
  split
  · exact Goal.of_keep (Keep.refl m)
  · split
    · exact Goal.of_keep (Keep.refl m)
    · refine Goal.bind (spec_abortIfTimeout m) ?_
      intro m1 hc1 f1
      refine Goal.bind (spec_preparePending m1) ?_
      intro m2 hc2 f2
      split
      · exact Goal.of_keep (Keep.refl _)
      · split
        · rename_i hd
          unfold evictDirect
          refine Goal.bindEv (evictPod_spec m2) (fun hd' => by rw [hd'] at hd; cases hd) ?_
          intro m3 _
          exact ((frame_setStatus_noconds m3 (fun s => { s with phase := Ph.succeeded, status := CT.complete, reason := Rs.none }) (fun _ => rfl)).trans
            (frame_statusUpdate _)).toKeep
        · refine reservationFirst_goal nc m2 b ((f1.trans f2).rr b h) ?_
          intro hn
          have := abortIfTimeout_cont hc1
          subst this
          exact nc_preparePending (hnc hn) hc2

end KoordVerif.C17
