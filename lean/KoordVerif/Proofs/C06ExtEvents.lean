import KoordVerif.Model.C06Events
import KoordVerif.Proofs.C06Ledger
/-
C06 extension (round 3) — the informer glue keeps the ledger equal to the live pods.

The WORLD is what the API server / informer delivered: per pod UID the latest object, whether a delete was delivered,
and two ghost flags: `fresh` (the latest event carried a well-formed allocation and reached the manager while the pod's
node had a valid topology) and `everOK` (some event of the pod carried a well-formed allocation).  The world never looks
at the ledger.  `EInv` relates the manager to the world; it is kept by every event of a well-formed history.
-/
namespace KoordVerif.C06

/-! ### the pod table under release / update -/

theorem findPod_filter_ne (pods : List PodAlloc) (u u' : Nat) :
    findPod (pods.filter (fun q => q.uid != u)) u' = if u' = u then none else findPod pods u' := by
  induction pods with
  | nil => simp [findPod]
  | cons q qs ih =>
    by_cases hq : q.uid = u
    · have : (q.uid != u) = false := by simp [hq]
      simp only [List.filter_cons, this, Bool.false_eq_true, ↓reduceIte, ih, findPod]
      by_cases hu : u' = u
      · simp [hu]
      · have : ¬ q.uid = u' := fun h => hu (h ▸ hq)
        simp [hu, this]
    · have : (q.uid != u) = true := by simp [hq]
      simp only [List.filter_cons, this, ↓reduceIte, findPod, ih]
      by_cases hu : u' = u
      · subst hu; simp [hq]
      · simp [hu]

theorem findPod_releasePod (L : Ledger) (u u' : Nat) :
    findPod (releasePod L u).pods u' = if u' = u then none else findPod L.pods u' := by
  unfold releasePod
  cases hf : findPod L.pods u with
  | none =>
    by_cases hu : u' = u
    · simp [hu, hf]
    · simp [hu]
  | some p => exact findPod_filter_ne _ _ _

theorem hasPod_eq_false_of_findPod {pods : List PodAlloc} {u : Nat} (h : findPod pods u = none) :
    hasPod pods u = false := by
  have := (findPod_none pods u).mp h
  cases hh : hasPod pods u with
  | false => rfl
  | true => exact absurd ((hasPod_iff pods u).mp hh) this

theorem findPod_updatePod (L : Ledger) (p : PodAlloc) (u' : Nat) :
    findPod (updatePod L p).pods u' = if u' = p.uid then some p else findPod L.pods u' := by
  have hnone : findPod (releasePod L p.uid).pods p.uid = none := by rw [findPod_releasePod]; simp
  unfold updatePod addPod
  rw [hasPod_eq_false_of_findPod hnone]
  simp only [Bool.false_eq_true, ↓reduceIte, findPod, findPod_releasePod]
  by_cases hu : u' = p.uid
  · simp [hu]
  · have : ¬ p.uid = u' := fun h => hu h.symm
    simp [hu, this]

theorem findPod_of_mem {pods : List PodAlloc} (hnd : (pods.map (·.uid)).Nodup) {p : PodAlloc} (hp : p ∈ pods) :
    findPod pods p.uid = some p := by
  induction pods with
  | nil => cases hp
  | cons q qs ih =>
    simp only [List.map_cons, List.nodup_cons] at hnd
    simp only [findPod]
    rcases List.mem_cons.mp hp with rfl | hq
    · simp
    · have : ¬ q.uid = p.uid := fun h => hnd.1 (h ▸ List.mem_map.mpr ⟨p, hq, rfl⟩)
      rw [if_neg this]; exact ih hnd.2 hq

/-! ### the world -/

structure PodW where
  obj     : PodObj
  deleted : Bool
  fresh   : Bool
  everOK  : Bool

abbrev World := Nat → Option PodW

/-- the pod (latest delivered object) is live on cluster node `n`. -/
def PodW.liveOn (w : PodW) (n : Nat) : Prop :=
  w.deleted = false ∧ w.obj.term = false ∧ w.obj.node = n ∧ n ≠ 0

def prevEver (W : World) (u : Nat) : Bool :=
  match W u with
  | some w => w.everOK
  | none => false

def delivered (valid : Nat → Bool) (W : World) (new : PodObj) : PodW :=
  { obj := new, deleted := false,
    fresh := !new.term && decide (new.node ≠ 0) && new.annOK && valid new.node,
    everOK := prevEver W new.uid || new.annOK }

/-- an add / update event delivers `new`; `valid` is the manager's topology table at that moment. -/
def deliver (valid : Nat → Bool) (W : World) (new : PodObj) : World := fun u =>
  if u = new.uid then some (delivered valid W new) else W u

/-- a delete event (or the replacement of the object by one with another UID) for `o`. -/
def markDeleted (W : World) (o : PodObj) : World := fun u =>
  if u = o.uid then some { obj := o, deleted := true, fresh := false, everOK := prevEver W o.uid } else W u

def track (valid : Nat → Bool) (W : World) : Event → World
  | .podAdd n => deliver valid W n
  | .podUpdate o n => if o.uid ≠ n.uid then deliver valid (markDeleted W o) n else deliver valid W n
  | .podDelete o => markDeleted W o
  | .topo _ _ => W
  | .other => W

/-- what an informer guarantees about the events of one pod (UIDs are never reused; `old` of an update and the object
    of a delete agree with the latest delivered object on spec.nodeName; a bound pod's nodeName can only be cleared),
    plus non-negative NUMA amounts in the annotation. -/
def EventWF (W : World) : Event → Prop
  | .podAdd n => PodOK n.alloc ∧
      ∀ w, W n.uid = some w → w.deleted = false → (w.obj.node = 0 ∨ w.obj.node = n.node)
  | .podUpdate o n => PodOK n.alloc ∧
      (o.uid = n.uid → (o.node ≠ 0 → n.node = o.node ∨ n.node = 0) ∧
        ∀ w, W n.uid = some w → w.deleted = false → w.obj.node = o.node) ∧
      -- the object was replaced by one with another UID (deleted and re-created under the same name while the watch
      -- was down): a delete of `o` followed by an add of `n`
      (o.uid ≠ n.uid → (∀ w, W o.uid = some w → w.deleted = false → (w.obj.node = 0 ∨ o.node = w.obj.node)) ∧
        ∀ w, markDeleted W o n.uid = some w → w.deleted = false → (w.obj.node = 0 ∨ w.obj.node = n.node))
  | .podDelete o => ∀ w, W o.uid = some w → w.deleted = false → (w.obj.node = 0 ∨ o.node = w.obj.node)
  | .topo _ _ => True
  | .other => True

def estep (s : Mgr × World) (e : Event) : Mgr × World := (handle s.1 e, track s.1.valid s.2 e)

def HistoryWF : Mgr × World → List Event → Prop
  | _, [] => True
  | s, e :: es => EventWF s.2 e ∧ HistoryWF (estep s e) es

def erun (evs : List Event) : Mgr × World := evs.foldl estep (Mgr.empty, fun _ => none)

theorem erun_fst (evs : List Event) : (erun evs).1 = runEvents evs := by
  unfold erun runEvents
  suffices ∀ (s : Mgr × World), (evs.foldl estep s).1 = evs.foldl handle s.1 from this _
  induction evs with
  | nil => intro s; rfl
  | cons e es ih => intro s; simp only [List.foldl_cons]; rw [ih]; rfl

/-! ### the invariant -/

structure EInv (M : Mgr) (W : World) : Prop where
  inv  : ∀ n, Inv (M.L n)
  recL : ∀ n u p, findPod (M.L n).pods u = some p → ∃ w, W u = some w ∧ w.liveOn n ∧ w.everOK = true
  frsh : ∀ u w, W u = some w → w.fresh = true →
           w.liveOn w.obj.node ∧ findPod (M.L w.obj.node).pods u = some w.obj.alloc
  uidk : ∀ u w, W u = some w → w.obj.uid = u

theorem einv_empty : EInv Mgr.empty (fun _ => none) where
  inv := fun _ => inv_empty
  recL := by intro n u p h; simp [Mgr.empty, Ledger.empty, findPod] at h
  frsh := by intro u w h; cases h
  uidk := by intro u w h; cases h

/-- the frame: an event about pod `u` that leaves every other pod's records and world entry alone. -/
theorem einv_of {M M' : Mgr} {W W' : World} (u : Nat) (h : EInv M W)
    (hinv : ∀ n, Inv (M'.L n))
    (hfind : ∀ m u', u' ≠ u → findPod (M'.L m).pods u' = findPod (M.L m).pods u')
    (hW : ∀ u', u' ≠ u → W' u' = W u')
    (hrec : ∀ m p, findPod (M'.L m).pods u = some p → ∃ w, W' u = some w ∧ w.liveOn m ∧ w.everOK = true)
    (hfr : ∀ w, W' u = some w → w.fresh = true →
             w.liveOn w.obj.node ∧ findPod (M'.L w.obj.node).pods u = some w.obj.alloc)
    (huid : ∀ w, W' u = some w → w.obj.uid = u) : EInv M' W' where
  inv := hinv
  recL := by
    intro n u' p hp
    by_cases hu : u' = u
    · subst hu; exact hrec n p hp
    · rw [hfind n u' hu] at hp; rw [hW u' hu]; exact h.recL n u' p hp
  frsh := by
    intro u' w hw hf
    by_cases hu : u' = u
    · subst hu; exact hfr w hw hf
    · rw [hW u' hu] at hw
      have := h.frsh u' w hw hf
      exact ⟨this.1, by rw [hfind _ u' hu]; exact this.2⟩
  uidk := by
    intro u' w hw
    by_cases hu : u' = u
    · subst hu; exact huid w hw
    · rw [hW u' hu] at hw; exact h.uidk u' w hw

theorem setL_L (M : Mgr) (n m : Nat) (l : Ledger) : (M.setL n l).L m = if m = n then l else M.L m := rfl

/-- where pod `u` can be recorded, given the world knows it on node `k` at most. -/
theorem rec_node {M : Mgr} {W : World} (h : EInv M W) {u m : Nat} {p : PodAlloc}
    (hp : findPod (M.L m).pods u = some p) :
    ∃ w, W u = some w ∧ w.deleted = false ∧ w.obj.node = m ∧ m ≠ 0 ∧ w.everOK = true := by
  obtain ⟨w, hw, hl, he⟩ := h.recL m u p hp
  exact ⟨w, hw, hl.1, hl.2.2.1, hl.2.2.2, he⟩

/-- after `Release(k, u)`: pod `u` is recorded nowhere, provided it could only be recorded on `k`. -/
theorem einv_release {M : Mgr} {W W' : World} (u k : Nat) (h : EInv M W)
    (honly : ∀ m p, findPod (M.L m).pods u = some p → m = k)
    (hW : ∀ u', u' ≠ u → W' u' = W u')
    (hfr : ∀ w, W' u = some w → w.fresh = false)
    (huid : ∀ w, W' u = some w → w.obj.uid = u) :
    EInv (M.apply (.release k u)) W' := by
  refine einv_of u h ?_ ?_ hW ?_ ?_ huid
  · intro n
    simp only [Mgr.apply, setL_L]
    split
    · exact inv_releasePod (h.inv k) u
    · exact h.inv n
  · intro m u' hu
    simp only [Mgr.apply, setL_L]
    split
    · rename_i hm; subst hm; rw [findPod_releasePod, if_neg hu]
    · rfl
  · intro m p hp
    simp only [Mgr.apply, setL_L] at hp
    split at hp
    · rw [findPod_releasePod] at hp; simp at hp
    · rename_i hm; exact absurd (honly m p hp) hm
  · intro w hw hf; rw [hfr w hw] at hf; cases hf

/-- no manager call: pod `u` stays where it was. -/
theorem einv_noop {M : Mgr} {W W' : World} (u : Nat) (h : EInv M W)
    (hW : ∀ u', u' ≠ u → W' u' = W u')
    (hrec : ∀ m p, findPod (M.L m).pods u = some p → ∃ w, W' u = some w ∧ w.liveOn m ∧ w.everOK = true)
    (hfr : ∀ w, W' u = some w → w.fresh = false)
    (huid : ∀ w, W' u = some w → w.obj.uid = u) : EInv M W' :=
  einv_of u h h.inv (fun _ _ _ => rfl) hW hrec (fun w hw hf => by rw [hfr w hw] at hf; cases hf) huid

theorem deliver_self (valid : Nat → Bool) (W : World) (new : PodObj) :
    deliver valid W new new.uid = some (delivered valid W new) := by
  simp [deliver]

theorem deliver_other (valid : Nat → Bool) (W : World) (new : PodObj) (u' : Nat) (h : u' ≠ new.uid) :
    deliver valid W new u' = W u' := by
  simp [deliver, h]

/-- OnAdd / OnUpdate keep the invariant. -/
theorem einv_deliver {M : Mgr} {W : World} (h : EInv M W) (old : Option PodObj) (new : PodObj)
    (hok : PodOK new.alloc)
    (hold : ∀ o, old = some o → o.uid = new.uid ∧ (o.node ≠ 0 → new.node = o.node ∨ new.node = 0) ∧
              ∀ w, W new.uid = some w → w.deleted = false → w.obj.node = o.node)
    (hadd : old = none → ∀ w, W new.uid = some w → w.deleted = false → (w.obj.node = 0 ∨ w.obj.node = new.node)) :
    EInv ((decodeUpdate old new).foldl Mgr.apply M) (deliver M.valid W new) := by
  have hWo := deliver_other M.valid W new
  have hself := deliver_self M.valid W new
  have huid : ∀ w, deliver M.valid W new new.uid = some w → w.obj.uid = new.uid := by
    intro w hw; rw [hself] at hw; cases hw; rfl
  -- a record of the pod on node m, with new.node ≠ 0, can only be on new.node
  have honly : new.node ≠ 0 → ∀ m p, findPod (M.L m).pods new.uid = some p → m = new.node := by
    intro hn m p hp
    obtain ⟨w, hw, hd, hnode, hm0, _⟩ := rec_node h hp
    cases hold' : old with
    | none =>
      rcases hadd hold' w hw hd with h0 | h1
      · exact absurd (hnode ▸ h0) hm0
      · rw [← hnode]; exact h1
    | some o =>
      obtain ⟨_, hmove, hsame⟩ := hold o hold'
      have hon : o.node = m := by rw [← hsame w hw hd]; exact hnode
      rcases hmove (by rw [hon]; exact hm0) with h1 | h1
      · rw [h1, hon]
      · exact absurd h1 hn
  -- the pod stays recorded where it was (no manager call), new object live on new.node
  have keep : new.node ≠ 0 → new.term = false →
      ∀ m p, findPod (M.L m).pods new.uid = some p →
        ∃ w, deliver M.valid W new new.uid = some w ∧ w.liveOn m ∧ w.everOK = true := by
    intro hn ht m p hp
    have hm := honly hn m p hp
    obtain ⟨w, hw, _, _, _, he⟩ := rec_node h hp
    refine ⟨_, hself, ⟨rfl, ht, hm.symm, by rw [hm]; exact hn⟩, ?_⟩
    simp [delivered, prevEver, hw, he]
  unfold decodeUpdate
  by_cases hn : new.node = 0
  · -- unassigned: release on the old node, if any
    rw [if_pos hn]
    have hfr : ∀ w, deliver M.valid W new new.uid = some w → w.fresh = false := by
      intro w hw; rw [hself] at hw; cases hw; simp [delivered, hn]
    cases hold' : old with
    | none =>
      simp only [List.foldl_nil]
      refine einv_noop new.uid h hWo ?_ hfr huid
      intro m p hp
      obtain ⟨w, hw, hd, hnode, hm0, _⟩ := rec_node h hp
      rcases hadd hold' w hw hd with h0 | h1
      · exact absurd (hnode ▸ h0) hm0
      · exact absurd (hnode ▸ (h1.trans hn)) hm0
    | some o =>
      obtain ⟨ho, _, hsame⟩ := hold o hold'
      simp only
      by_cases hon : o.node = 0
      · simp only [hon, ne_eq, not_true_eq_false, ↓reduceIte, List.foldl_nil]
        refine einv_noop new.uid h hWo ?_ hfr huid
        intro m p hp
        obtain ⟨w, hw, hd, hnode, hm0, _⟩ := rec_node h hp
        exact absurd (hnode ▸ (hsame w hw hd).trans hon) hm0
      · simp only [ne_eq, hon, not_false_eq_true, ↓reduceIte, List.foldl_cons, List.foldl_nil]
        rw [ho]
        refine einv_release new.uid o.node h ?_ hWo hfr huid
        intro m p hp
        obtain ⟨w, hw, hd, hnode, _, _⟩ := rec_node h hp
        rw [← hnode]; exact hsame w hw hd
  · rw [if_neg hn]
    by_cases ht : new.term = true
    · -- terminated: release
      rw [if_pos ht]
      simp only [decodeDelete, if_neg hn, List.foldl_cons, List.foldl_nil]
      refine einv_release new.uid new.node h (honly hn) hWo ?_ huid
      intro w hw; rw [hself] at hw; cases hw; simp [delivered, ht]
    · rw [if_neg ht]
      have ht' : new.term = false := by simpa using ht
      have noop : new.annOK = false →
          EInv M (deliver M.valid W new) := by
        intro ha
        refine einv_noop new.uid h hWo (keep hn ht') ?_ huid
        intro w hw; rw [hself] at hw; cases hw; simp [delivered, ha]
      by_cases h1 : new.st = 1
      · rw [if_pos h1]; exact noop (by simp [PodObj.annOK, h1])
      rw [if_neg h1]
      by_cases h2 : new.sp = 1
      · rw [if_pos h2]; exact noop (by simp [PodObj.annOK, h2])
      rw [if_neg h2]
      by_cases h3 : (new.st = 2 && new.cs ≠ 0) = true
      · rw [if_pos h3]
        simp only [Bool.and_eq_true, decide_eq_true_eq, ne_eq, decide_not, Bool.not_eq_eq_eq_not, Bool.not_true,
          decide_eq_false_iff_not] at h3
        exact noop (by simp [PodObj.annOK, h3.1, h3.2])
      rw [if_neg h3]
      by_cases h4 : (new.statusNuma.isEmpty && new.statusCpus.isEmpty) = true
      · rw [if_pos h4]; exact noop (by simp [PodObj.annOK, h4])
      rw [if_neg h4]
      have hann : new.annOK = true := by
        simp only [Bool.and_eq_true, decide_eq_true_eq, ne_eq, decide_not, Bool.not_eq_eq_eq_not, Bool.not_true,
          decide_eq_false_iff_not, not_and, Decidable.not_not] at h3
        simp only [PodObj.annOK, Bool.and_eq_true, bne_iff_ne, ne_eq, h1, not_false_eq_true, h2, Bool.or_eq_true,
          beq_iff_eq, true_and, Bool.not_eq_eq_eq_not, Bool.not_true]
        refine ⟨?_, by simpa using h4⟩
        by_cases hs : new.st = 2
        · exact Or.inr (h3 hs)
        · exact Or.inl hs
      simp only [List.foldl_cons, List.foldl_nil, Mgr.apply]
      by_cases hv : M.valid new.node = true
      · rw [if_pos hv]
        have halloc : new.alloc.uid = new.uid := rfl
        refine einv_of new.uid h ?_ ?_ hWo ?_ ?_ huid
        · intro n
          simp only [setL_L]
          split
          · exact inv_updatePod (h.inv _) _ hok
          · exact h.inv n
        · intro m u' hu
          simp only [setL_L]
          split
          · rename_i hm; subst hm; rw [findPod_updatePod, halloc, if_neg hu]
          · rfl
        · intro m p hp
          simp only [setL_L] at hp
          split at hp
          · rename_i hm
            refine ⟨_, hself, ⟨rfl, ht', hm.symm, by rw [hm]; exact hn⟩, ?_⟩
            simp [delivered, hann]
          · rename_i hm; exact absurd (honly hn m p hp) hm
        · intro w hw _
          rw [hself] at hw; cases hw
          refine ⟨⟨rfl, ht', rfl, hn⟩, ?_⟩
          simp only [delivered, setL_L, ↓reduceIte, findPod_updatePod, halloc]
      · rw [if_neg hv]
        refine einv_noop new.uid h hWo (keep hn ht') ?_ huid
        intro w hw; rw [hself] at hw; cases hw
        have : M.valid new.node = false := by simpa using hv
        simp [delivered, this]

/-- OnDelete keeps the invariant. -/
theorem einv_delete {M : Mgr} {W : World} (h : EInv M W) (o : PodObj)
    (hwf : ∀ w, W o.uid = some w → w.deleted = false → (w.obj.node = 0 ∨ o.node = w.obj.node)) :
    EInv ((decodeDelete o).foldl Mgr.apply M) (markDeleted W o) := by
  have hWo : ∀ u', u' ≠ o.uid → markDeleted W o u' = W u' := by
    intro u' hu; simp [markDeleted, hu]
  have hself : markDeleted W o o.uid =
      some { obj := o, deleted := true, fresh := false, everOK := prevEver W o.uid } := by simp [markDeleted]
  have hfr : ∀ w, markDeleted W o o.uid = some w → w.fresh = false := by
    intro w hw; rw [hself] at hw; cases hw; rfl
  have huid : ∀ w, markDeleted W o o.uid = some w → w.obj.uid = o.uid := by
    intro w hw; rw [hself] at hw; cases hw; rfl
  have honly : ∀ m p, findPod (M.L m).pods o.uid = some p → m = o.node := by
    intro m p hp
    obtain ⟨w, hw, hd, hnode, hm0, _⟩ := rec_node h hp
    rcases hwf w hw hd with h0 | h1
    · exact absurd (hnode ▸ h0) hm0
    · rw [h1, hnode]
  unfold decodeDelete
  by_cases hn : o.node = 0
  · rw [if_pos hn]
    simp only [List.foldl_nil]
    refine einv_noop o.uid h hWo ?_ hfr huid
    intro m p hp
    obtain ⟨w, hw, hd, hnode, hm0, _⟩ := rec_node h hp
    exact absurd ((honly m p hp).trans hn) hm0
  · rw [if_neg hn]
    simp only [List.foldl_cons, List.foldl_nil]
    exact einv_release o.uid o.node h honly hWo hfr huid

theorem apply_valid (M : Mgr) (op : MOp) : (M.apply op).valid = M.valid := by
  cases op with
  | update n p => simp only [Mgr.apply]; split <;> rfl
  | release n u => rfl

theorem foldl_apply_valid (ops : List MOp) : ∀ M : Mgr, (ops.foldl Mgr.apply M).valid = M.valid := by
  induction ops with
  | nil => intro M; rfl
  | cons op ops ih => intro M; simp only [List.foldl_cons]; rw [ih, apply_valid]

theorem einv_estep {s : Mgr × World} (h : EInv s.1 s.2) (e : Event) (hwf : EventWF s.2 e) :
    EInv (estep s e).1 (estep s e).2 := by
  cases e with
  | podAdd n =>
    exact einv_deliver h none n hwf.1 (by intro o ho; cases ho) (fun _ => hwf.2)
  | podUpdate o n =>
    by_cases hu : o.uid = n.uid
    · have hd : decode (.podUpdate o n) = decodeUpdate (some o) n := by
        simp only [decode, ne_eq, hu, not_true_eq_false, ↓reduceIte]
      have ht : track s.1.valid s.2 (.podUpdate o n) = deliver s.1.valid s.2 n := by
        simp only [track, ne_eq, hu, not_true_eq_false, ↓reduceIte]
      show EInv ((decode (.podUpdate o n)).foldl Mgr.apply s.1) (track s.1.valid s.2 (.podUpdate o n))
      rw [hd, ht]
      refine einv_deliver h (some o) n hwf.1 ?_ (by intro ho; cases ho)
      intro o' ho'; cases ho'
      exact ⟨hu, (hwf.2.1 hu).1, (hwf.2.1 hu).2⟩
    · have hd : decode (.podUpdate o n) = decodeDelete o ++ decodeUpdate none n := by
        simp only [decode, ne_eq, hu, not_false_eq_true, ↓reduceIte]
      have ht : track s.1.valid s.2 (.podUpdate o n) = deliver s.1.valid (markDeleted s.2 o) n := by
        simp only [track, ne_eq, hu, not_false_eq_true, ↓reduceIte]
      show EInv ((decode (.podUpdate o n)).foldl Mgr.apply s.1) (track s.1.valid s.2 (.podUpdate o n))
      rw [hd, ht, List.foldl_append, ← foldl_apply_valid (decodeDelete o) s.1]
      exact einv_deliver (einv_delete h o (hwf.2.2 hu).1) none n hwf.1 (by intro o' ho'; cases ho')
        (fun _ => (hwf.2.2 hu).2)
  | podDelete o => exact einv_delete h o hwf
  | topo n v => exact ⟨h.inv, h.recL, h.frsh, h.uidk⟩
  | other => exact h

theorem einv_foldl (evs : List Event) :
    ∀ s : Mgr × World, EInv s.1 s.2 → HistoryWF s evs → EInv (evs.foldl estep s).1 (evs.foldl estep s).2 := by
  induction evs with
  | nil => intro s h _; exact h
  | cons e es ih =>
    intro s h hw
    exact ih _ (einv_estep h e hw.1) hw.2

theorem einv_erun (evs : List Event) (hwf : HistoryWF (Mgr.empty, fun _ => none) evs) :
    EInv (erun evs).1 (erun evs).2 :=
  einv_foldl evs _ einv_empty hwf

/-- every live pod that ever carried a well-formed allocation is fresh (its latest event reached the manager while its
    node's topology was valid and carried a well-formed allocation). -/
def Settled (W : World) : Prop :=
  ∀ u w, W u = some w → w.deleted = false → w.obj.term = false → w.obj.node ≠ 0 → w.everOK = true → w.fresh = true

theorem cnt_le_holdCount {pods : List PodAlloc} {p : PodAlloc} (hp : p ∈ pods) (c : Nat) :
    cnt p.cpus c ≤ holdCount pods c := by
  unfold holdCount
  induction pods with
  | nil => cases hp
  | cons q qs ih =>
    simp only [List.map_cons, isum_cons]
    have hrest : 0 ≤ isum (qs.map (fun p => cnt p.cpus c)) :=
      isum_map_nonneg _ _ (fun x _ => cnt_nonneg x.cpus c)
    rcases List.mem_cons.mp hp with rfl | hq
    · omega
    · have := ih hq; have := cnt_nonneg q.cpus c; omega

end KoordVerif.C06
