import KoordVerif.Model.C15
import KoordVerif.Model.C15Inf
/-
C15, round 7 — the min-sum clause as a TRANSITION clause (what checkMinQuotaValidate exempts, and nothing more).
The state invariant MinSum (Props/C15.lean) exempts a record carrying allow-force-update / is-root as a PARENT too,
because such a quota may lower its own min unchecked.  A request that does not itself carry one of the two labels is
exempt from nothing: when it is admitted through the checks (a create, or an update that is not taken by the
unchanged-fields shortcut), its min plus the mins of ALL recorded brothers (bypass-labelled or not) is at most the
recorded min of its parent, WHATEVER labels the parent carries, and the mins of all its recorded children sum to at
most its own new min.  (The harness oracle c15StepMinSum demands the same on the admitted objects.)
-/
namespace KoordVerif.C15

theorem allD_true {d : Nat} {p : Nat → Bool} (h : allD d p = true) : ∀ k, k < d → p k = true := by
  intro k hk
  unfold allD at h
  exact (List.all_eq_true.mp h) k (List.mem_range.mpr hk)

/-- checkMinQuotaValidate, first check: only the two labels ON THE REQUEST skip it. -/
theorem minCheck_brothers_bound (d : Nat) (s : Topo) (q : QI)
    (h : minCheck d s q = true) (hf : q.force = false) (hr : q.treeRoot = false) (hp : q.parent ≠ 0) :
    ∃ p, find s.info q.parent = some p ∧
      ∀ k, k < d → minSum s q.parent (some q.name) k + q.mn.val k ≤ p.mn.val k := by
  unfold minCheck at h
  simp only [hf, hr, hp, Bool.false_eq_true, if_false, Bool.and_eq_true] at h
  obtain ⟨⟨_, h2⟩, _⟩ := h
  cases hfp : find s.info q.parent with
  | none => simp [hfp] at h2
  | some p =>
    refine ⟨p, rfl, ?_⟩
    simp only [hfp] at h2
    intro k hk
    exact of_decide_eq_true (allD_true h2 k hk)

/-- checkMinQuotaValidate, second check. -/
theorem minCheck_children_bound (d : Nat) (s : Topo) (q : QI)
    (h : minCheck d s q = true) (hf : q.force = false) (hr : q.treeRoot = false) (hk : hasKids s q.name = true) :
    ∀ k, k < d → minSum s q.name none k ≤ q.mn.val k := by
  unfold minCheck at h
  simp only [hf, hr, hk, Bool.false_eq_true, if_false, Bool.and_eq_true, Bool.not_true] at h
  obtain ⟨_, _, h2⟩ := h
  intro k hk'
  exact of_decide_eq_true (allD_true h2 k hk')

/-- validateQuotaTopology reaches checkMinQuotaValidate for every quota that is not named root and hangs below
    another quota. -/
theorem topoCheck_minCheck (d : Nat) (s : Topo) (old : Option QI) (q : QI) (hasPods : Bool)
    (h : topoCheck d s old q hasPods = true) (hn : q.name ≠ 0) (hp : q.parent ≠ 0) : minCheck d s q = true := by
  unfold topoCheck at h
  simp only [hn, if_false] at h
  split at h
  · simp at h
  · split at h
    · simp at h
    · split at h
      · rename_i h3
        simp [hp] at h3
      · split at h
        · simp at h
        · split at h
          · simp at h
          · exact h

/-- an admitted CREATE without a bypass label, below a quota: brothers' mins + its min ≤ the parent's recorded min —
    also when the parent carries is-root=true / allow-force-update. -/
theorem add_checked_brothers_bound (d : Nat) (s : Topo) (q : QI) (sw : Bool)
    (h : (validAdd d s q sw).2 = true) (hn : q.name ≠ 0) (hf : q.force = false) (hr : q.treeRoot = false)
    (hp : q.parent ≠ 0) :
    ∃ p, find s.info q.parent = some p ∧
      ∀ k, k < d → minSum s q.parent (some q.name) k + q.mn.val k ≤ p.mn.val k := by
  unfold validAdd at h
  split at h
  · simp at h
  · split at h
    · simp at h
    · split at h
      · simp at h
      · split at h
        · simp at h
        · rename_i ht
          simp only [Bool.not_eq_true, Bool.not_eq_false'] at ht
          have ht' : topoCheck d s none q false = true := by
            cases hc : topoCheck d s none q false <;> simp_all
          exact minCheck_brothers_bound d s q (topoCheck_minCheck d s none q false ht' hn hp) hf hr hp

/-- an admitted UPDATE without a bypass label that is really checked (not taken by the unchanged-fields shortcut),
    below a quota: the same bound. -/
theorem upd_checked_brothers_bound (d : Nat) (s : Topo) (q : QI) (sw hpods : Bool)
    (h : (validUpdate d s q sw hpods).2 = true)
    (hs : ∀ o, find s.info q.name = some o → sameFields o q = false)
    (hn : q.name ≠ 0) (hf : q.force = false) (hr : q.treeRoot = false) (hp : q.parent ≠ 0) :
    ∃ p, find s.info q.parent = some p ∧
      ∀ k, k < d → minSum s q.parent (some q.name) k + q.mn.val k ≤ p.mn.val k := by
  unfold validUpdate at h
  cases ho : find s.info q.name with
  | none => simp [ho] at h
  | some o =>
    have hso := hs o ho
    simp only [ho, hso, Bool.false_eq_true, if_false] at h
    split at h
    · simp at h
    · split at h
      · simp at h
      · split at h
        · simp at h
        · split at h
          · simp at h
          · rename_i ht
            have ht' : topoCheck d s (some o) q hpods = true := by
              cases hc : topoCheck d s (some o) q hpods <;> simp_all
            exact minCheck_brothers_bound d s q (topoCheck_minCheck d s (some o) q hpods ht' hn hp) hf hr hp

/-! witness (one dimension): tree root T = 3 (is-root=true, is-parent, min 10) with child 4 (min 6).  A second child
    with min 6 is rejected and one with min 4 admitted; raising 4's min to 11 is rejected; T itself is not checked
    against ITS parent P = 6 (min 1): the is-root label exempts the quota that carries it, not its children. -/
def stepT : QI := { name := 3, parent := 0, isParent := true, tree := 0, force := false, treeRoot := true,
                    mn := [some 10], mx := [some 20], ns := [] }
def stepC (n : Nat) (m : Int) : QI :=
  { stepT with name := n, parent := 3, isParent := false, treeRoot := false, mn := [some m] }
def stepS : Topo := (validAdd 1 (validAdd 1 init stepT false).1 (stepC 4 6) false).1

theorem is_root_parent_checks_children :
    (validAdd 1 init stepT false).2 = true ∧ (validAdd 1 (validAdd 1 init stepT false).1 (stepC 4 6) false).2 = true ∧
    (validAdd 1 stepS (stepC 5 6) false).2 = false ∧ (validAdd 1 stepS (stepC 5 4) false).2 = true ∧
    (validUpdate 1 stepS (stepC 4 11) false false).2 = false ∧ (validUpdate 1 stepS (stepC 4 10) false false).2 = true := by
  decide

/-- the label on the REQUEST is what is exempt: the same over-sized child is admitted once it carries is-root itself
    (reading note (ii): the bypass works anywhere in the tree). -/
theorem is_root_request_not_checked :
    (validAdd 1 stepS { stepC 5 6 with treeRoot := true } false).2 = true := by decide

/-! ### a STALE OldObject (round 7): the recorded info wins
`validUpdateO` keeps the two "old" sources of ValidUpdateQuota apart: the request's OldObject `a` (unchanged-fields
shortcut, old namespaces) and the recorded info (every check, the old parent of the re-parent bookkeeping).  After an
update that was admitted but never persisted the two differ.  When the stale object declares the same namespaces as the
recorded one and takes the same way through the shortcut (the harness checks both on every generated stale request),
the request is decided and recorded exactly as if the OldObject were the recorded object — in particular the old parent,
is-parent flag and tree id are the RECORDED ones, so every theorem about `validUpdate` (accept_preserves_WF …) applies. -/
theorem stale_old_object_recorded_wins (d : Nat) (s : Topo) (a o q : QI) (sw hpods : Bool)
    (ho : find s.info q.name = some o) (hns : a.ns = o.ns) (hsf : sameFields a q = sameFields o q) :
    validUpdateO d s (some a) q sw hpods = validUpdate d s q sw hpods := by
  unfold validUpdateO validUpdate
  simp only [ho, hsf, hns]

/-- witness that the hypothesis matters for the bookkeeping source: T/4 as above, 4 was moved under a second tree root
    6 (admitted, not persisted); the stale OldObject still says parent 3.  An update back to parent 3 with another min
    unlinks 4 from its RECORDED parent 6 — rebuilding the old side from the OldObject would leave it linked there. -/
def stepT2 : QI := { stepT with name := 6 }
def stepS2 : Topo :=
  (validUpdate 1 (validAdd 1 stepS stepT2 false).1 { stepC 4 6 with parent := 6 } false false).1

theorem stale_reparent_unlinks_recorded_parent :
    isKid stepS2 6 4 = true ∧ isKid stepS2 3 4 = false ∧
    (validUpdateO 1 stepS2 (some (stepC 4 6)) (stepC 4 5) false false).2 = true ∧
    isKid (validUpdateO 1 stepS2 (some (stepC 4 6)) (stepC 4 5) false false).1 6 4 = false ∧
    isKid (validUpdateO 1 stepS2 (some (stepC 4 6)) (stepC 4 5) false false).1 3 4 = true := by decide

end KoordVerif.C15
