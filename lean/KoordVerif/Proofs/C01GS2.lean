import KoordVerif.Proofs.C01GS
/-
C01: min / max update on a `GS` state; propagation does not touch the children sums of groups off the chain.
-/
namespace KoordVerif.C01

theorem gs_congr' {st : State} {a b k kn a' b' k' kn' : Nat → Int} {R R' : Nat → Prop} {c e ku knu c' e' ku' knu' : Nat → Int}
    (h : GS st a b k kn R c e ku knu)
    (hreq : ∀ m, (get? st m).isSome → a' m = a m ∧ b' m = b m ∧ k' m = k m ∧ kn' m = kn m ∧ (R' m → R m))
    (hused : ∀ m, (get? st m).isSome → c' m = c m ∧ e' m = e m ∧ ku' m = ku m ∧ knu' m = knu m) :
    GS st a' b' k' kn' R' c' e' ku' knu' := by
  refine ⟨h.topo, h.params, h.pods, ?_, ?_, h.rnn, h.unn⟩
  · intro m q hq
    obtain ⟨x1, x2, x3, x4, x5⟩ := h.req m q hq
    obtain ⟨y1, y2, y3, y4, y5⟩ := hreq m (by simp [hq])
    exact ⟨by rw [y1]; exact x1, by rw [y2]; exact x2, by rw [y3]; exact x3, by rw [y4]; exact x4,
      fun hr hR' => x5 hr (y5 hR')⟩
  · intro m q hq
    obtain ⟨x1, x2, x3, x4⟩ := h.used m q hq
    obtain ⟨y1, y2, y3, y4⟩ := hused m (by simp [hq])
    exact ⟨by rw [y1]; exact x1, by rw [y2]; exact x2, by rw [y3]; exact x3, by rw [y4]; exact x4⟩

/-- tail of a min / max update on a GS state: the +δ put on the parent by `gs_set` is taken away again -/
theorem gs_finish {st s1 : State} {x : Nat} {q : Quota} {rest : List Nat} {d : Int}
    {a b k kn : Nat → Int} {R : Nat → Prop} {c e ku knu : Nat → Int}
    (hq : get? st x = some q) (hc : Chain st (x :: rest)) (hnd : (x :: rest).Nodup)
    (h1 : GS s1 a b (fun m => k m + (if m = q.parent then d else 0)) kn R c e ku knu) (htree : tree s1 = tree st)
    (hk0 : ∀ m, m ≠ x → (get? st m).isSome → k m = 0 ∧ kn m = 0) :
    GS (finishS s1 rest d) a b k kn R c e ku knu ∧ tree (finishS s1 rest d) = tree st := by
  obtain ⟨_, hnil, hcons⟩ := chain_parent hq hc hnd
  unfold finishS
  cases rest with
  | nil =>
    have hnone : get? s1 q.parent = none := by
      have := isSome_of_tree htree q.parent
      rw [hnil rfl] at this
      cases hg : get? s1 q.parent with
      | none => rfl
      | some y => simp [hg] at this
    refine ⟨gs_congr' h1 (fun m hm => ?_) (fun m _ => ⟨rfl, rfl, rfl, rfl⟩), htree⟩
    have hmp : m ≠ q.parent := by intro e1; rw [e1, hnone] at hm; simp at hm
    simp [hmp]
  | cons p r =>
    obtain ⟨hqp, hcr, hndr⟩ := hcons p r rfl
    have hc1 : Chain s1 (p :: r) := Chain_congr (par_of_tree htree) _ hcr
    have hxr : x ∉ (p :: r) := (List.nodup_cons.mp hnd).1
    have hknown : ∀ m ∈ (p :: r), (get? st m).isSome := by
      intro m hm
      -- every element of a chain is a known group
      have : ∀ (l : List Nat), Chain st l → ∀ m ∈ l, (get? st m).isSome := by
        intro l
        induction l with
        | nil => intro _ m hm; simp at hm
        | cons g t ih =>
          intro hcl m hm
          rcases List.mem_cons.mp hm with e1 | e1
          · subst e1; obtain ⟨y, hy⟩ := Chain_head hcl; simp [hy]
          · cases t with
            | nil => simp at e1
            | cons g2 t2 => exact ih hcl.2.2 m e1
      exact this _ hcr m hm
    have hkz : ∀ m ∈ (p :: r), k m = 0 ∧ kn m = 0 := fun m hm =>
      hk0 m (fun e1 => hxr (e1 ▸ hm)) (hknown m hm)
    have hp0 := hkz p (by simp)
    have hres := gs_propReq (n := p) (self := false) (d := d) (dnp := 0) h1 hc1 hndr rfl
      (fun y hy => by
        have := h1.rnn p y hy
        simp only [Bool.false_eq_true, if_false, Int.add_zero]; exact ⟨this.selfRequest, this.selfNpRequest⟩)
      (fun m hm hmp => by
        have := hkz m hm
        have hmq : ¬ m = q.parent := by rw [hqp]; exact hmp
        simp [hmq, this.1, this.2])
      (Or.inl (by simp [hqp, hp0.1, hp0.2]))
    have hskel : (propReq s1 (p :: r) false d 0).map skelF = s1.map skelF :=
      propReqW_map skelF (fun q q' h => by simp [skelF, h.name, h.parent, h.max, h.pods]) clamp0 _ s1 false _ _
    refine ⟨gs_congr hres (fun m => by simp) (fun m => by simp) (fun m => ?_) (fun m => by simp)
      (fun m hm => Or.inl hm) (fun _ => rfl) (fun _ => rfl) (fun _ => rfl) (fun _ => rfl),
      by rw [tree_of_skel hskel, htree]⟩
    by_cases hm : m = p
    · subst hm; simp [hqp]
    · have : ¬ m = q.parent := by rw [hqp]; exact hm
      simp [hm, this]

theorem gs_updateMax {st : State} {x : Nat} {q : Quota} {newMax : Option Int}
    {a b k kn : Nat → Int} {R : Nat → Prop} {c e ku knu : Nat → Int} (h : GS st a b k kn R c e ku knu)
    (hq : get? st x = some q) (hmx : ∀ m, newMax = some m → 0 ≤ m)
    (hk0 : ∀ m, m ≠ x → (get? st m).isSome → k m = 0 ∧ kn m = 0) :
    GS (doUpdateMax st x newMax) a b k kn R c e ku knu ∧ tree (doUpdateMax st x newMax) = tree st := by
  obtain ⟨rest, hpath⟩ := path_cons h.topo (n := x) (by simp [hq])
  obtain ⟨hc, hnd, _⟩ := h.topo.paths x (by simp [hq])
  rw [hpath] at hc hnd
  have hqn := get?_name hq
  obtain ⟨hpn, _, _⟩ := chain_parent hq hc hnd
  have hres : doUpdateMax st x newMax = finishS (set st { q with max := newMax }) rest
      (({ q with max := newMax } : Quota).limited - q.limited) := by
    simp only [doUpdateMax, hpath, hq, finishS]; cases rest <;> rfl
  rw [hres]
  obtain ⟨g1, t1⟩ := gs_set (q' := { q with max := newMax }) (R' := R) h hq rfl rfl rfl rfl rfl rfl (by simp [crOf])
    (h.rnn x q hq).request rfl rfl rfl rfl
    (fun hr hR => by have := (h.req x q hq).2.2.2.2 hr hR; simpa [lendRule] using this)
    (fun m _ hm => hm) hmx hpn
  exact gs_finish hq hc hnd g1 t1 hk0

theorem gs_updateMin {st : State} {x : Nat} {q : Quota} {newMin : Int}
    {a b k kn : Nat → Int} {R : Nat → Prop} {c e ku knu : Nat → Int} (h : GS st a b k kn R c e ku knu)
    (hq : get? st x = some q) (hroot : x ≠ rootName)
    (hk0 : ∀ m, m ≠ x → (get? st m).isSome → k m = 0 ∧ kn m = 0) :
    GS (doUpdateMin st x newMin) a b k kn (fun m => R m ∨ m = x) c e ku knu ∧
    tree (doUpdateMin st x newMin) = tree st := by
  obtain ⟨rest, hpath⟩ := path_cons h.topo (n := x) (by simp [hq])
  obtain ⟨hc, hnd, _⟩ := h.topo.paths x (by simp [hq])
  rw [hpath] at hc hnd
  have hqn := get?_name hq
  obtain ⟨hpn, _, _⟩ := chain_parent hq hc hnd
  have hres : doUpdateMin st x newMin = finishS
      (set st { ({ q with min := newMin } : Quota) with request := lendRule { q with min := newMin } q.childRequest }) rest
      (({ ({ q with min := newMin } : Quota) with request := lendRule { q with min := newMin } q.childRequest } : Quota).limited
        - q.limited) := by
    simp only [doUpdateMin, hpath, hq, finishS]; cases rest <;> rfl
  rw [hres]
  have hnnq := h.rnn x q hq
  have hcrq : crOf q = q.childRequest := by simp [crOf, hqn, hroot]
  obtain ⟨g1, t1⟩ := gs_set
    (q' := { ({ q with min := newMin } : Quota) with request := lendRule { q with min := newMin } q.childRequest })
    (R' := fun m => R m ∨ m = x) h hq rfl rfl rfl rfl rfl rfl
    (by simp [crOf, hqn, hroot])
    (by
      have := lendRule_ge ({ q with min := newMin } : Quota) q.childRequest
      have h2 := hnnq.cr
      rw [hcrq] at h2
      show 0 ≤ lendRule { q with min := newMin } q.childRequest
      omega)
    rfl rfl rfl rfl
    (fun _ _ => by simp [lendRule])
    (fun m hm hR => by rcases hR with hR | hR; exact hR; exact absurd hR hm)
    (fun m hm => (h.params q (get?_mem hq)).1 m hm) hpn
  exact gs_finish hq hc hnd g1 t1 hk0

/-- a propagation does not change the children sum of a group that is not the parent of a chain element -/
theorem sumKids_propReq_other (v : Quota → Int) (g : Nat) (cl : Int → Int) :
    ∀ (pth : List Nat) (st : State) (self : Bool) (d dnp : Int),
    (∀ m ∈ pth, par st m ≠ some g) → sumKids v g (propReqW cl st pth self d dnp) = sumKids v g st
  | [], _, _, _, _, _ => rfl
  | m :: rest, st, self, d, dnp, hp => by
    simp only [propReqW]
    cases hq : get? st m with
    | none => rfl
    | some q =>
      have hqn := get?_name hq
      have hpar : q.parent ≠ g := by
        have := hp m (by simp); simp only [par, hq, Option.map_some] at this
        exact fun e1 => this (by rw [e1])
      simp only
      split
      · have hs := addReq_same q d dnp self cl
        have hq' : get? st (addReq cl q d dnp self).name = some q := by rw [hs.name, hqn]; exact hq
        rw [sumKids_set v g hq' hs.parent]; simp [hpar]
      · have hs := reqNode_same q d dnp self cl
        have hq' : get? st (reqNode cl q d dnp self).name = some q := by rw [hs.name, hqn]; exact hq
        rw [sumKids_propReq_other v g cl rest _ false _ dnp
          (fun m' hm' => by rw [par_set hq' hs.parent]; exact hp m' (List.mem_cons_of_mem _ hm'))]
        rw [sumKids_set v g hq' hs.parent]; simp [hpar]

theorem sumKids_propUsed_other (v : Quota → Int) (g : Nat) (cl : Int → Int) :
    ∀ (pth : List Nat) (st : State) (self : Bool) (d dnp : Int),
    (∀ m ∈ pth, par st m ≠ some g) → sumKids v g (propUsedW cl st pth self d dnp) = sumKids v g st
  | [], _, _, _, _, _ => rfl
  | m :: rest, st, self, d, dnp, hp => by
    simp only [propUsedW]
    cases hq : get? st m with
    | none => rfl
    | some q =>
      have hqn := get?_name hq
      have hpar : q.parent ≠ g := by
        have := hp m (by simp); simp only [par, hq, Option.map_some] at this
        exact fun e1 => this (by rw [e1])
      simp only
      have hs := addUsed_same q d dnp self cl
      have hq' : get? st (addUsed cl q d dnp self).name = some q := by rw [hs.name, hqn]; exact hq
      rw [sumKids_propUsed_other v g cl rest _ false d dnp
        (fun m' hm' => by rw [par_set hq' hs.parent]; exact hp m' (List.mem_cons_of_mem _ hm'))]
      rw [sumKids_set v g hq' hs.parent]; simp [hpar]

end KoordVerif.C01
