import KoordVerif.Proofs.C08ExtConc
/-
C08 — the concurrency theorems over the small-step model of Proofs/C08ExtConc.lean.
Every `decide` below is a kernel evaluation of an exhaustive exploration (≤ 140 states per scenario);
`scenario_sound` turns a successful exploration into a statement about EVERY interleaving (`Reach`).
-/
namespace KoordVerif.C08.Conc

set_option maxRecDepth 100000 in
theorem allOK_asWritten : allOK asWritten = true := by decide

set_option maxRecDepth 100000 in
theorem allOK_preRepairSections : allOK preRepairSections = true := by decide

/-- **no event is lost, and the outcome is a linearization.**  Source as written (repair b9ed11f), every
observable access its own step: for every state a map entry can be in between events, every race of
one add-type event (pod assign, NodeMetric add/update) with one other event (NodeMetric delete, pod
delete, NodeMetric add) and EVERY interleaving, when both goroutines have returned the cache shows the
result of running the two events one after the other in some order, and neither gave up. -/
theorem no_event_lost (init : Option (Bool × Bool × Bool)) (hi : init ∈ inits) (pa pb : List Op) (hr : (pa, pb) ∈ races)
    (s : St) (h : Reach asWritten (start init pa pb) s) (hq : s.quiescent = true) :
    s.view ∈ seqResults (pa.length + pb.length) (viewOf init) pa pb ∧ ∀ t ∈ s.ts, t.dropped = 0 := by
  have h1 := allOK_asWritten
  simp only [allOK, List.all_eq_true] at h1
  exact scenario_sound _ _ _ _ (h1 init hi (pa, pb) hr) s h hq

/-- the instance the property is about: a pod assigned while the node's report is deleted is in the
cache afterwards, under every interleaving, whatever the node's entry looked like before. -/
theorem assign_vs_node_delete_keeps_pod (init : Option (Bool × Bool × Bool)) (hi : init ∈ inits)
    (s : St) (h : Reach asWritten (start init [.assign] [.delMetric]) s) (hq : s.quiescent = true) :
    s.view.2.2 = true := by
  have h1 := (no_event_lost init hi [.assign] [.delMetric] (by decide) s h hq).1
  revert h1
  generalize s.view = v
  have : ∀ init ∈ inits, ∀ v ∈ seqResults 2 (viewOf init) [Op.assign] [Op.delMetric], v.2.2 = true := by decide
  exact this init hi v

/-- … and a report added while the node's last pod is deleted is in force afterwards. -/
theorem metric_vs_pod_delete_keeps_metric (init : Option (Bool × Bool × Bool)) (hi : init ∈ inits) (pb : List Op)
    (hb : pb = [.delOther] ∨ pb = [.delU])
    (s : St) (h : Reach asWritten (start init [.setMetric] pb) s) (hq : s.quiescent = true) :
    s.view.1 = true := by
  have hr : ([Op.setMetric], pb) ∈ races := by rcases hb with rfl | rfl <;> decide
  have h1 := (no_event_lost init hi [.setMetric] pb hr s h hq).1
  revert h1
  generalize s.view = v
  have : ∀ init ∈ inits, ∀ pb ∈ [[Op.delOther], [Op.delU]], ∀ v ∈ seqResults ([Op.setMetric].length + pb.length) (viewOf init) [Op.setMetric] pb, v.1 = true := by decide
  exact this init hi pb (by rcases hb with rfl | rfl <;> decide) v

/-- the order before the repair (`deleted = true`, then CompareAndDelete), read at critical-section
granularity, passes the same exploration — the argument of the design comment in the source … -/
theorem pre_repair_sections_no_event_lost (init : Option (Bool × Bool × Bool)) (hi : init ∈ inits) (pa pb : List Op)
    (hr : (pa, pb) ∈ races) (s : St) (h : Reach preRepairSections (start init pa pb) s) (hq : s.quiescent = true) :
    s.view ∈ seqResults (pa.length + pb.length) (viewOf init) pa pb ∧ ∀ t ∈ s.ts, t.dropped = 0 := by
  have h1 := allOK_preRepairSections
  simp only [allOK, List.all_eq_true] at h1
  exact scenario_sound _ _ _ _ (h1 init hi (pa, pb) hr) s h hq

/-- … but the flag is read WITHOUT the lock, so the section is not indivisible: node with a report and no
pods; B = DeleteNodeMetric locks, sets `deleted`; A = assign loads the entry, sees the flag, retries, loads
the SAME entry (B has not reached CompareAndDelete), sees the flag again and gives up.  The pod is in no
nodeInfo (finding C08:conc:event-lost-in-cleanup-race, repaired by b9ed11f). -/
theorem pre_repair_counterexample :
    ¬ (∀ s, Reach preRepair (start (some (true, false, false)) [.assign] [.delMetric]) s → s.quiescent = true →
        s.view.2.2 = true) := by
  intro h
  have := h _ (reach_runSched preRepair _ _ Reach.refl [1, 1, 1, 0, 0, 0, 1, 1, 0]) (by decide)
  revert this; decide

/-- the same interleaving drops a NodeMetric that races with the deletion of the node's last pod. -/
theorem pre_repair_counterexample_metric :
    ¬ (∀ s, Reach preRepair (start (some (false, true, false)) [.setMetric] [.delOther]) s → s.quiescent = true →
        s.view.1 = true) := by
  intro h
  have := h _ (reach_runSched preRepair _ _ Reach.refl [1, 1, 1, 0, 0, 0, 1, 1, 0]) (by decide)
  revert this; decide

/-- without the retry loop (one attempt) the pod is lost even in the repaired order. -/
theorem no_retry_counterexample :
    ¬ (∀ s, Reach noRetry (start (some (true, false, false)) [.assign] [.delMetric]) s → s.quiescent = true →
        s.view.2.2 = true) := by
  intro h
  have := h _ (reach_runSched noRetry _ _ Reach.refl [1, 1, 0, 1, 1, 1, 0]) (by decide)
  revert this; decide

/-- without the second look at the flag under the lock the pod is inserted into a nodeInfo that has left
the map. -/
theorem no_recheck_counterexample :
    ¬ (∀ s, Reach noRecheck (start (some (true, false, false)) [.assign] [.delMetric]) s → s.quiescent = true →
        s.view.2.2 = true) := by
  intro h
  have := h _ (reach_runSched noRecheck _ _ Reach.refl [1, 1, 0, 1, 0, 1, 1, 0]) (by decide)
  revert this; decide

/-- the limit of "we only try 2 times": TWO cleanups of the node's entry during one assign (report deleted,
added again, deleted again) defeat both attempts … -/
theorem two_cleanups_counterexample :
    ¬ (∀ s, Reach asWritten (start (some (true, false, false)) [.assign] [.delMetric, .setMetric, .delMetric]) s →
        s.quiescent = true → s.view.2.2 = true) := by
  intro h
  have := h _ (reach_runSched asWritten _ _ Reach.refl [1, 1, 0, 1, 1, 1, 1, 1, 1, 1, 1, 0, 0, 1, 1, 1, 0]) (by decide)
  revert this; decide

set_option maxRecDepth 100000 in
/-- … and three attempts survive them (k cleanups need k+1 attempts). -/
theorem two_cleanups_three_attempts_ok (s : St)
    (h : Reach { asWritten with bound := 3 } (start (some (true, false, false)) [.assign] [.delMetric, .setMetric, .delMetric]) s)
    (hq : s.quiescent = true) : s.view.2.2 = true := by
  have hok : scenarioOK { asWritten with bound := 3 } (some (true, false, false)) [.assign] [.delMetric, .setMetric, .delMetric] = true := by
    decide
  have h1 := (scenario_sound _ _ _ _ hok s h hq).1
  revert h1
  generalize s.view = v
  have : ∀ v ∈ seqResults 4 (viewOf (some (true, false, false))) [Op.assign] [Op.delMetric, .setMetric, .delMetric], v.2.2 = true := by
    decide
  exact this v

end KoordVerif.C08.Conc
