import KoordVerif.Proofs.C01Quota
/-
C01: quota creation, deletion, same-meta update at the level of `Good`; the initial state.
-/
namespace KoordVerif.C01

theorem sumKids_none (v : Quota → Int) (g : Nat) (s : State) (h : ∀ c ∈ s, c.parent ≠ g) : sumKids v g s = 0 := by
  induction s with
  | nil => rfl
  | cons x t ih =>
    have hx : ¬ x.parent = g := h x (by simp)
    simp only [sumKids, hx, if_false, ih (fun c hc => h c (List.mem_cons_of_mem _ hc))]; rfl

theorem cons_empty_good {s : State} {name parent : Nat} {isParent lend : Bool} (h : Good s)
    (hnew : get? s name = none) (hkids : ∀ c ∈ s, c.parent ≠ name)
    (htopo : Topo (emptyQuota name parent isParent lend :: s)) :
    Good (emptyQuota name parent isParent lend :: s) := by
  have hl := good_localInv h
  have hsum : ∀ (v : Quota → Int), v (emptyQuota name parent isParent lend) = 0 → ∀ m,
      sumKids v m (emptyQuota name parent isParent lend :: s) = sumKids v m s := by
    intro v hv m; simp only [sumKids, hv]; split <;> omega
  have e1 := hsum Quota.limited (by simp [Quota.limited, emptyQuota, limit])
  have e2 := hsum (·.npRequest) rfl
  have e3 := hsum (·.used) rfl
  have e4 := hsum (·.npUsed) rfl
  have hget : ∀ m, get? (emptyQuota name parent isParent lend :: s) m =
      if name = m then some (emptyQuota name parent isParent lend) else get? s m := by
    intro m; rfl
  refine ⟨htopo, ?_, ?_, reqPend_zero.mpr ?_, usedPend_zero.mpr ?_⟩
  · intro x hx
    rcases List.mem_cons.mp hx with e | e
    · subst e; exact ⟨fun m hm => by simp [emptyQuota] at hm, fun p hp => by simp [emptyQuota] at hp⟩
    · exact h.params x e
  · intro x hx
    rcases List.mem_cons.mp hx with e | e
    · subst e; simp [emptyQuota]
    · exact h.pods x e
  · intro m q0 h0
    rw [hget m] at h0
    by_cases hm : name = m
    · simp only [hm, if_true, Option.some.injEq] at h0
      subst h0; subst hm
      have z1 := sumKids_none Quota.limited name s hkids
      have z2 := sumKids_none (·.npRequest) name s hkids
      refine ⟨rfl, rfl, ?_, ?_, fun _ => ?_⟩
      · simp only [dCR, e1, z1]; by_cases hx : name = rootName <;> simp [crOf, emptyQuota, hx]
      · simp only [dNpReq, e2, z2]; simp [emptyQuota]
      · simp [emptyQuota, lendRule]
    · simp only [hm, if_false] at h0
      have hi := hl.1 m q0 h0
      refine ⟨hi.selfReq, hi.selfNpReq, ?_, ?_, hi.rule⟩
      · have := hi.cr; simp only [dCR, e1] at this ⊢; exact this
      · have := hi.npReq; simp only [dNpReq, e2] at this ⊢; exact this
  · intro m q0 h0
    rw [hget m] at h0
    by_cases hm : name = m
    · simp only [hm, if_true, Option.some.injEq] at h0
      subst h0; subst hm
      have z3 := sumKids_none (·.used) name s hkids
      have z4 := sumKids_none (·.npUsed) name s hkids
      refine ⟨rfl, rfl, ?_, ?_⟩
      · simp only [dUsed, e3, z3]; simp [emptyQuota]
      · simp only [dNpUsed, e4, z4]; simp [emptyQuota]
    · simp only [hm, if_false] at h0
      have hi := hl.2 m q0 h0
      refine ⟨hi.selfUsed, hi.selfNpUsed, ?_, ?_⟩
      · have := hi.used; simp only [dUsed, e3] at this ⊢; exact this
      · have := hi.npUsed; simp only [dNpUsed, e4] at this ⊢; exact this

theorem createQuota_good {s : State} {sp : QSpec} (h : Good s) (hmax : 0 ≤ sp.max) (hroot : sp.name ≠ rootName)
    (hnew : get? s sp.name = none) (hkids : ∀ c ∈ s, c.parent ≠ sp.name)
    (htopo : Topo (emptyQuota sp.name sp.parent sp.isParent sp.lend :: s)) : Good (createQuota s sp) := by
  unfold createQuota
  exact doUpdateMin_good (doUpdateMax_good (cons_empty_good h hnew hkids htopo)
    (fun m hm => by cases hm; exact hmax)) hroot

theorem deleteQuota_map {α} (f : Quota → α) (hr : ∀ q q', SameButReq q q' → f q' = f q)
    (hu : ∀ q q', SameButUsed q q' → f q' = f q) {s : State} {n : Nat} {q : Quota} (hq : get? s n = some q) :
    (deleteQuota s n).map f = (erase s n).map f := by
  simp only [deleteQuota, hq]
  apply map_ite
  · rw [show ∀ x d dnp, (deltaUsed x q.parent d dnp false).map f = x.map f from
      fun x d dnp => propUsedW_map f hu clamp0 _ x false d dnp]
    exact map_ite _ _ _ _ _ (propReqW_map f hr clamp0 _ _ false _ _) rfl
  · exact map_ite _ _ _ _ _ (propReqW_map f hr clamp0 _ _ false _ _) rfl

theorem deleteQuota_good {s : State} {n : Nat} {q : Quota} (h : Good s) (hq : get? s n = some q)
    (htopo : Topo (erase s n)) (hpar : (get? (erase s n) q.parent).isSome) : Good (deleteQuota s n) := by
  obtain ⟨hc, hnd, hh⟩ := htopo.paths q.parent hpar
  obtain ⟨hl, _, hp⟩ := deleteQuota_preserves hq h.topo.tree h.params (good_localInv h) hc hnd hh
  have htree : tree (deleteQuota s n) = tree (erase s n) :=
    deleteQuota_map _ (fun q q' h => by simp [h.name, h.parent]) (fun q q' h => by simp [h.name, h.parent]) hq
  have hpods : (deleteQuota s n).map (·.pods) = (erase s n).map (·.pods) :=
    deleteQuota_map _ (fun q q' h => h.pods) (fun q q' h => h.pods) hq
  exact ⟨topo_congr htree htopo, hp, podsOK_of_map hpods (fun x hx => h.pods x (mem_erase hx)),
    reqPend_zero.mpr hl.1, usedPend_zero.mpr hl.2⟩

theorem updateQuota_same_good {s : State} {sp : QSpec} {q : Quota} (h : Good s) (hq : get? s sp.name = some q)
    (hmeta : q.lend = sp.lend ∧ q.isParent = sp.isParent ∧ q.parent = sp.parent)
    (hmax : 0 ≤ sp.max) (hroot : sp.name ≠ rootName) : Good (updateQuota s sp) := by
  simp only [updateQuota, hq, hmeta, and_self, if_true]
  have h1 : Good (if q.max ≠ some sp.max then doUpdateMax s sp.name (some sp.max) else s) := by
    split
    · exact doUpdateMax_good h (fun m hm => by cases hm; exact hmax)
    · exact h
  split
  · exact doUpdateMin_good h1 hroot
  · exact h1

theorem init_good : Good init := by
  have hget : ∀ m, get? init m = if rootName = m then some (emptyQuota rootName 0 true false) else none := by
    intro m; rfl
  refine ⟨⟨⟨by simp [init, tree], ⟨fun _ => 0, ?_⟩, ?_⟩, ?_⟩, ?_, ?_, reqPend_zero.mpr ?_, usedPend_zero.mpr ?_⟩
  · intro e he hne; simp [init, tree, emptyQuota] at he; subst he; exact absurd rfl hne
  · intro e he _ e' he'; simp [init, tree, emptyQuota] at he he'; subst he; subst he'; decide
  · intro n hn
    rw [hget n] at hn
    by_cases hm : rootName = n
    · subst hm
      refine ⟨?_, by decide, by decide⟩
      exact ⟨0, by decide, by decide⟩
    · simp [hm] at hn
  · intro x hx; simp [init] at hx; subst hx
    exact ⟨fun m hm => by simp [emptyQuota] at hm, fun p hp => by simp [emptyQuota] at hp⟩
  · intro x hx; simp [init] at hx; subst hx; simp [emptyQuota]
  · intro m q0 h0
    rw [hget m] at h0
    by_cases hm : rootName = m
    · simp only [hm, if_true, Option.some.injEq] at h0
      subst h0
      refine ⟨rfl, rfl, ?_, ?_, fun _ => by simp [emptyQuota, lendRule]⟩
      · simp [dCR, crOf, emptyQuota, init, sumKids, Quota.limited, limit, hm.symm]
      · simp [dNpReq, emptyQuota, init, sumKids]
    · simp [hm] at h0
  · intro m q0 h0
    rw [hget m] at h0
    by_cases hm : rootName = m
    · simp only [hm, if_true, Option.some.injEq] at h0
      subst h0
      refine ⟨rfl, rfl, ?_, ?_⟩
      · simp [dUsed, emptyQuota, init, sumKids]
      · simp [dNpUsed, emptyQuota, init, sumKids]
    · simp [hm] at h0

end KoordVerif.C01
