import KoordVerif.Proofs.C01ExtGoOrder
/-
C01, min-quota scaling (ElasticQuotaArgs.EnableMinQuotaScale, the plugin's default).

With scaling on, RefreshRuntime lowers CalculateInfo.AutoScaleMin of a group below its declared min when the
summed min of the siblings exceeds what their parent can hand out (ScaleMinQuotaManager.getScaledMinQuota; the
arithmetic — floats, the parent's runtime quota — belongs to C02 and is NOT modelled here: a refresh may install
ANY values).  The property's request floor of a group that does not lend is its DECLARED min:
`Quota.min` (= CalculateInfo.Min) in `lendRule`, in all three places the Go code computes a request
(delta path `reqNode`, min-update path `doUpdateMin`, rebuild `resetAll` which re-adds through the delta path) —
tied to the source by Ties/C01.lean `tie_request_floor_operand`.

`XOp` = the accounting operations of Model/C01.lean plus the operations that only move the cluster total / the
scaled min.  `xstep` keeps the scaled-min table as a component of the state that no accounting step reads.
-/
namespace KoordVerif.C01

inductive XOp where
  /-- any operation of Model/C01.lean -/
  | acct (op : Op)
  /-- setScaleMinQuotaEnabled -/
  | scale (on : Bool)
  /-- UpdateClusterTotalResource / SetTotalResourceForTree / node add, update, delete -/
  | total (d : Int)
  /-- RefreshRuntime n: AutoScaleMin of the groups on n's path becomes `vals` (arbitrary values) -/
  | refresh (n : Nat) (vals : List (Nat × Int))
deriving Repr

structure XState where
  s       : State
  scaleOn : Bool
  total   : Int
  /-- CalculateInfo.AutoScaleMin where a refresh has set it (latest entry first) -/
  scaled  : List (Nat × Int)
deriving Repr

def xinit : XState := ⟨init, false, 0, []⟩

def xstep (x : XState) : XOp → XState
  | .acct op => { x with s := step x.s op }
  | .scale on => { x with scaleOn := on }
  | .total d => { x with total := x.total + d }
  | .refresh _ vals => { x with scaled := vals ++ x.scaled }

def xrun (x : XState) (ops : List XOp) : XState := ops.foldl xstep x

/-- the accounting operations of a history (what the driver applies; `scale` / `total` / `refresh` lines are skipped) -/
def XOp.acct? : XOp → Option Op
  | .acct op => some op
  | _ => none

/-- the figures after a history are those of the same history with every scale / total / refresh operation erased:
they cannot depend on whether a pod event came before or after a refresh -/
theorem xrun_state (ops : List XOp) (x : XState) :
    (xrun x ops).s = run x.s (ops.filterMap XOp.acct?) := by
  induction ops generalizing x with
  | nil => rfl
  | cons o t ih =>
    show (xrun (xstep x o) t).s = _
    rw [ih]
    cases o <;> simp [xstep, XOp.acct?, List.filterMap_cons, run, List.foldl_cons]

theorem lendRule_eq_max (q : Quota) (cr : Int) :
    lendRule q cr = if q.lend then cr else max cr q.min := by
  unfold lendRule
  split
  · rfl
  · split <;> omega

/-- Whatever total changes and refreshes are interleaved with an admissible history, and whatever scaled mins the
refreshes install, every non-root group ends with request = childRequest (lends) resp.
max(childRequest, DECLARED min) (does not lend). -/
theorem request_floor_declared (ops : List XOp) (hp : PreAllF init (ops.filterMap XOp.acct?)) :
    ∀ m q, get? (xrun xinit ops).s m = some q → m ≠ rootName →
      q.request = if q.lend then q.childRequest else max q.childRequest q.min := by
  intro m q hq hm
  rw [xrun_state] at hq
  have hl := good_localInv (run_good_full _ init init_good hp)
  rw [← lendRule_eq_max]
  exact (hl.1 m q hq).rule hm

/-! ### the floor operand as a parameter: only the declared min keeps the equation -/

/-- the min-raise with an arbitrary floor `f` in place of the declared min -/
def lendRuleF (f : Int) (q : Quota) (cr : Int) : Int :=
  if q.lend then cr else if f > cr then f else cr

/-- one iteration of recursiveUpdateGroupTreeWithDeltaRequest whose floor operand is `f`
(Go: the ResourceList ranged over inside `if !curQuotaInfo.AllowLentResource`) -/
def reqNodeF (f : Int) (cl : Int → Int) (q : Quota) (d dnp : Int) (self : Bool) : Quota :=
  let q1 := addReq cl q d dnp self
  let cr := cl (q1.childRequest + d)
  { q1 with childRequest := cr, request := lendRuleF f q1 cr }

theorem addReq_static (cl : Int → Int) (q : Quota) (d dnp : Int) (self : Bool) :
    (addReq cl q d dnp self).min = q.min ∧ (addReq cl q d dnp self).lend = q.lend ∧
    (addReq cl q d dnp self).childRequest = q.childRequest := by
  unfold addReq
  cases self <;> simp

/-- the model's iteration is the instance "operand = declared min" -/
theorem reqNodeF_declared (cl : Int → Int) (q : Quota) (d dnp : Int) (self : Bool) :
    reqNodeF q.min cl q d dnp self = reqNode cl q d dnp self := by
  unfold reqNodeF reqNode lendRuleF lendRule
  simp only [(addReq_static cl q d dnp self).1]

/-- For a group that does not lend, the floor-`f` iteration re-establishes the request equation of the property
(request = max(childRequest, declared min)) exactly when `f` raises as the declared min does. -/
theorem reqNodeF_rule_iff (f : Int) (cl : Int → Int) (q : Quota) (d dnp : Int) (self : Bool) (hl : q.lend = false) :
    (reqNodeF f cl q d dnp self).request =
        lendRule (reqNodeF f cl q d dnp self) (reqNodeF f cl q d dnp self).childRequest ↔
      max f (cl (q.childRequest + d)) = max q.min (cl (q.childRequest + d)) := by
  obtain ⟨hmin, hlend, hcr⟩ := addReq_static cl q d dnp self
  have e1 : (reqNodeF f cl q d dnp self).request = lendRuleF f (addReq cl q d dnp self) (cl (q.childRequest + d)) := by
    simp only [reqNodeF, hcr]
  have e2 : (reqNodeF f cl q d dnp self).childRequest = cl (q.childRequest + d) := by
    simp only [reqNodeF, hcr]
  have e3 : (reqNodeF f cl q d dnp self).lend = false := by simp only [reqNodeF, hlend, hl]
  have e4 : (reqNodeF f cl q d dnp self).min = q.min := by simp only [reqNodeF, hmin]
  rw [e1, e2]
  unfold lendRuleF lendRule
  rw [e3, e4, hlend, hl]
  simp only [Bool.false_eq_true, if_false]
  constructor
  · intro h; split at h <;> split at h <;> omega
  · intro h; split <;> split <;> omega

/-- the scenario of the seeded change: a group that does not lend, declared min 40, nothing requested yet (request =
its min), scaled min 25; a pod of 5 arrives -/
def scWitness : Quota := { emptyQuota 2 1 false false with max := some 100, min := 40, request := 40 }

/-- …with the SCALED min (25) as the operand the request becomes 25 although the declared min is 40: the equation the
property demands is broken, so the operand must be the declared min. -/
theorem scaled_floor_counterexample :
    ¬ (∀ f : Int, (reqNodeF f clamp0 scWitness 5 0 true).request =
        lendRule (reqNodeF f clamp0 scWitness 5 0 true) (reqNodeF f clamp0 scWitness 5 0 true).childRequest) := by
  intro h
  exact absurd (h 25) (by decide)

/-- history level (the numbers of the seeded change): two groups that do not lend, min 40 each; nodes 50 + 50; one node
goes; the refreshes scale both mins to 25; the next pod add (5) leaves group request 40 and root 80 — as without any
total / refresh operation. -/
def scOps : List XOp :=
  [ .scale true,
    .acct (.quota ⟨2, 1, false, false, 100, 40⟩), .acct (.quota ⟨3, 1, false, false, 100, 40⟩),
    .total 50, .total 50, .total (-50), .refresh 2 [(2, 25)], .refresh 3 [(3, 25)],
    .acct (.podAdd 2 ⟨1, 5, false, false, false, false⟩) ]

example : ((xrun xinit scOps).s.map fun q => (q.name, q.request, q.childRequest)) = [(3, 40, 0), (2, 40, 5), (1, 80, 0)] ∧
    (xrun xinit scOps).scaled = [(3, 25), (2, 25)] ∧ (xrun xinit scOps).total = 50 := by decide

/-! ### non-vacuity of the history-level hypothesis -/

def scS1 : State := step init (.quota ⟨2, 1, false, false, 100, 40⟩)

theorem scS1_eq : scS1 = [ { emptyQuota 2 1 false false with max := some 100, min := 40, request := 40 },
    { emptyQuota 1 0 true false with request := 40 } ] := by decide

theorem sc_topo : Topo (emptyQuota 2 1 false false :: init) := by
  refine ⟨⟨by decide, ⟨fun n => if n = 1 then 1 else 0, by decide⟩, by decide⟩, ?_⟩
  intro n hn
  have hcases : n = 2 ∨ n = 1 := by
    simp only [init, get?, emptyQuota] at hn
    by_cases h2 : 2 = n
    · left; exact h2.symm
    · by_cases h1 : rootName = n
      · right; rw [← h1]; rfl
      · simp [h2, h1] at hn
  rcases hcases with rfl | rfl
  · exact ⟨⟨by decide, by decide, 0, by decide, by decide⟩, by decide, by decide⟩
  · exact ⟨⟨0, by decide, by decide⟩, by decide, by decide⟩

/-- the hypothesis of `request_floor_ignores_scaled_min` holds for the history of the seeded change restricted to one
group (scale on, a group that does not lend with min 40, total 100 -> 50, refresh installs 25, pod of 5) -/
def scOps1 : List XOp :=
  [ .scale true, .acct (.quota ⟨2, 1, false, false, 100, 40⟩), .total 100, .total (-50), .refresh 2 [(2, 25)],
    .acct (.podAdd 2 ⟨1, 5, false, false, false, false⟩) ]

theorem scOps1_pre : PreAllF init (scOps1.filterMap XOp.acct?) := by
  show PreAllF init [.quota ⟨2, 1, false, false, 100, 40⟩, .podAdd 2 ⟨1, 5, false, false, false, false⟩]
  refine ⟨⟨by decide, by decide, ?_⟩, ?_, trivial⟩
  · show (∀ c ∈ init, c.parent ≠ 2) ∧ Topo (emptyQuota 2 1 false false :: init)
    exact ⟨by decide, sc_topo⟩
  · show PodPre scS1 2 ⟨1, 5, false, false, false, false⟩
    rw [scS1_eq]
    refine ⟨by decide, fun q hq => ?_⟩
    simp only [get?, emptyQuota, if_true, Option.some.injEq] at hq
    subst hq
    exact ⟨rfl, fun e he => by simp [getPod] at he⟩

end KoordVerif.C01
