import KoordVerif.Proofs.C17Base
/-
C17: the same-node check.  `NC m` = "the job has not yet recorded a target node": as long as it holds,
`prepareJobWithReservationScheduleSuccess` still performs `abortJobIfReserveOnSameNode`.
-/
namespace KoordVerif.C17

def NCs (s : Status) : Prop := s.node = 0 ∧ condTrue s.conds CT.resvScheduled = false

def NC (m : M) : Prop := NCs m.mem.status ∧ NCs m.api.status

theorem condTrue_setCond {cs : List Cond} {c : Cond} {ty : Nat} (h : condTrue cs ty = false)
    (hc : c.ty ≠ ty ∨ c.st = false) : condTrue (setCond cs c).1 ty = false := by
  by_cases hty : c.ty = ty
  · rcases hc with hc | hc
    · exact absurd hty hc
    · have := getCond_setCond_same cs c
      rw [hty] at this
      simp [condTrue, this, hc]
  · have := getCond_setCond_ne cs c ty hty
    simp only [condTrue, this]
    exact h

theorem nc_logw {m : M} (h : NC m) (k : ActK) (a : Nat) : NC (m.logw k a) := h

theorem nc_statusUpdate {m : M} (h : NC m) : NC m.statusUpdate.2 := by
  unfold M.statusUpdate
  split
  · exact ⟨h.1, h.1⟩
  · exact h

theorem nc_jobUpdate {m : M} (h : NC m) : NC m.jobUpdate.2 := by
  unfold M.jobUpdate
  split
  · exact ⟨h.2, h.2⟩
  · exact h

theorem nc_updateCondition {m : M} {c : Cond} (h : NC m) (hc : c.ty ≠ CT.resvScheduled ∨ c.st = false) :
    NC (updateCondition m c).2 := by
  have h1 : NC (m.setStatus fun s => { s with conds := (setCond m.mem.status.conds c).1 }) :=
    ⟨⟨h.1.1, condTrue_setCond h.1.2 hc⟩, h.2⟩
  unfold updateCondition
  split
  · exact nc_statusUpdate (m := (m.setStatus _).setStatus _) ⟨⟨h1.1.1, h1.1.2⟩, h1.2⟩
  · exact h1

theorem okOr_cont {r : Bool × M} {m' : M} (h : okOr r = .cont m') : m' = r.2 := by
  unfold okOr at h
  split at h
  · cases h; rfl
  · cases h

theorem nc_preparePending {m m' : M} (h : NC m) (hc : preparePending m = .cont m') : NC m' := by
  unfold preparePending at hc
  split at hc
  · cases hc; exact h
  · split at hc
    · cases hc
    · split at hc
      · cases hc
      · rename_i p _
        have h1 : NC (m.setSpec fun s => { s with podUID := p.uid }) := h
        have h2 := nc_jobUpdate h1
        split at hc
        · cases hc
        · rename_i m2 heq
          rw [heq] at h2
          have := okOr_cont hc
          subst this
          exact nc_statusUpdate (m := m2.setStatus _) ⟨⟨h2.1.1, h2.1.2⟩, h2.2⟩

theorem nc_setReservationOrder {m m' : M} (h : NC m) (hc : setReservationOrder m = .cont m') : NC m' := by
  unfold setReservationOrder at hc
  split at hc
  · cases hc
  · split at hc
    · cases hc; exact h
    · split at hc
      · cases hc; exact h
      · cases hc

theorem nc_syncScheduleFailed {m m' : M} {r : Resv} (h : NC m) (hc : syncScheduleFailed m r = .cont m') : NC m' := by
  unfold syncScheduleFailed at hc
  split at hc
  · split at hc
    · have := okOr_cont hc
      subst this
      exact nc_updateCondition h (Or.inr rfl)
    · cases hc; exact h
  · cases hc; exact h

theorem nc_preemptGate {m m' : M} {r : Resv} (h : NC m) (hc : preemptGate m r = .cont m') : NC m' := by
  unfold preemptGate at hc
  split at hc
  · cases hc; exact h
  · split at hc
    · cases hc
    · split at hc
      · cases hc; exact h
      · cases hc

/-- with the node check still due, falling through `prepareJobWithReservationScheduleSuccess` means the
    reservation's node (if any) is not the node of the pod (if it exists) -/
theorem prepareScheduleSuccess_node {m m' : M} {r : Resv} (h : NC m) (hc : prepareScheduleSuccess m r = .cont m') :
    ∀ p, m.env.pod = some p → r.node ≠ 0 → r.node ≠ p.node := by
  intro p hp hn
  unfold prepareScheduleSuccess at hc
  split at hc
  · rename_i h0
    rcases h0 with h0 | h0
    · exact absurd h0 hn
    · exact absurd h.1.1 h0
  · split at hc
    · rename_i hct
      rw [h.1.2] at hct; cases hct
    · split at hc
      · cases hc
      · rename_i hs
        simp only [sameNode, hp, beq_iff_eq] at hs
        exact hs

end KoordVerif.C17
