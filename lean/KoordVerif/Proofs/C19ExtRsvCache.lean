import KoordVerif.Model.C19Rsv
import KoordVerif.Proofs.C19Rsv
/-
C19 extension, reservation part, WHOLE-CACHE statement.

Proofs/C19Rsv.lean proves "live = rebuilt" for ONE ReservationInfo.  Here the statement is about the whole
`Cache` of Model/C19Rsv.lean (the map of ReservationInfo, reservationsOnNode, allocatedOnNode): for EVERY
history of cache-level events (Reservation add/update, pod add / update (same assignment, changed
requests, assignment change, un-assignment, termination), pod delete) on several reservations and nodes,
the live cache is observationally equal (`CacheEq`) to the cache a fresh scheduler rebuilds from the
surviving objects, PROVIDED every Reservation is delivered before the pods assigned to it (the opposite
order is the recorded open finding C19:rsv-early-pod-lost, see Props/C19.lean).

The model has no Reservation delete (cache.go DeleteReservation is not modelled), so every reservation
that was ever delivered survives; `updateInfo` keeps the AssignedPods of an updated reservation, so the
pods of an updated reservation survive too.
-/
namespace KoordVerif.C19.Rsv

/-! ### events, API-server objects, live run, survivors, rebuild -/

/-- a cache-level event.  `resv`: Reservation add/update event (eventhandler.go → cache.updateReservation);
`pod p`: the pod object `p` is written to the API server — the informer delivers an add event when the
uid is new and an update event `(old version in the store, p)` otherwise (pod_eventhandler.go updatePod);
`del pid`: the pod is deleted — delete event carrying the last stored version (deletePod). -/
inductive Ev where
  | resv (o : RObj)
  | pod (p : Pod)
  | del (pid : Nat)

/-- the objects the API server holds: last version of every Reservation, last version of every
existing pod. -/
structure Objs where
  resvs : List RObj := []
  pods : List Pod := []

def upsertR (R : List RObj) (o : RObj) : List RObj := o :: R.filter (fun x => x.rid != o.rid)
def upsertP (S : List Pod) (p : Pod) : List Pod := p :: S.filter (fun x => x.pid != p.pid)
def removeP (S : List Pod) (pid : Nat) : List Pod := S.filter (fun x => x.pid != pid)
def oldOf (S : List Pod) (pid : Nat) : Option Pod := S.find? (fun x => x.pid == pid)

/-- effect of an event on the API-server objects (no reference to the cache). -/
def Objs.step (s : Objs) : Ev → Objs
  | .resv o => { s with resvs := upsertR s.resvs o }
  | .pod p => { s with pods := upsertP s.pods p }
  | .del pid => { s with pods := removeP s.pods pid }

def objsOf (h : List Ev) : Objs := h.foldl Objs.step {}

/-- effect of an event on the scheduler's cache; `s` = the API-server objects BEFORE the event (the
informer's old object). -/
def Cache.step (c : Cache) (s : Objs) : Ev → Cache
  | .resv o => c.updateReservation o.rid o.node o.once o.decl
  | .pod p => handlerUpdate c (oldOf s.pods p.pid) p
  | .del pid => match oldOf s.pods pid with
    | some o => handlerDelete c o
    | none => c

def runFrom (c : Cache) (s : Objs) : List Ev → Cache × Objs
  | [] => (c, s)
  | e :: t => runFrom (c.step s e) (s.step e) t

/-- the live scheduler's cache after history `h`, starting from the empty cache. -/
def live (h : List Ev) : Cache := (runFrom {} {} h).1

/-- a surviving pod assignment: the pod exists, is not terminated and carries the annotation. -/
def assignedAlive (p : Pod) : Bool := !p.term && p.rid.isSome

/-- **survivors** of a history, computed WITHOUT the cache: the last version of every Reservation (no
Reservation delete in the model) and the last version of every pod that was not deleted afterwards, is
not terminated and is assigned to a reservation. -/
def survivors (h : List Ev) : List RObj × List Pod :=
  ((objsOf h).resvs, (objsOf h).pods.filter assignedAlive)

/-- decidable well-formedness of one event w.r.t. the objects before it.
* `resv`: a Reservation update keeps node / allocate-once / allocatable (model: UpdateReservation "same
  spec"; the live ReservationInfo keeps the FIRST spec, a fresh scheduler sees the LAST one);
* `pod`, not terminated and annotated: the Reservation named by the annotation has been delivered before
  (the live scheduler assigns pods only to reservations it knows; otherwise the pod is dropped as in
  C19:rsv-early-pod-lost);
* `pod`, terminated: the annotation is the one of the previous (live, annotated) version — updatePod calls
  deletePod(newPod), which looks at the NEW pod's annotation only. -/
def okEv (s : Objs) : Ev → Bool
  | .resv o => s.resvs.all (fun x => x.rid != o.rid || (x.node == o.node && x.once == o.once && x.decl == o.decl))
  | .pod p =>
    (p.term || match p.rid with
      | some r => s.resvs.any (fun x => x.rid == r)
      | none => true) &&
    (!p.term || match oldOf s.pods p.pid with
      | some o => o.term || o.rid.isNone || o.rid == p.rid
      | none => true)
  | .del _ => true

def wfFrom (s : Objs) : List Ev → Bool
  | [] => true
  | e :: t => okEv s e && wfFrom (s.step e) t

/-- **wfHist** — the decidable well-formedness hypothesis on a history. -/
def wfHist (h : List Ev) : Bool := wfFrom {} h

/-- the cache a fresh scheduler builds: every Reservation first (list order), then an add event
(`handlerUpdate none`) per pod (list order). -/
def rebuild (R : List RObj) (P : List Pod) : Cache :=
  P.foldl (fun c p => handlerUpdate c none p)
    (R.foldl (fun c o => c.updateReservation o.rid o.node o.once o.decl) {})

/-! ### observational equality of caches -/

structure InfoEq (a b : Info) : Prop where
  rid : a.rid = b.rid
  node : a.node = b.node
  once : a.once = b.once
  decl : a.decl = b.decl
  alloc : ∀ d, a.allocated d = b.allocated d
  pods : a.pods.Perm b.pods

def OptInfoEq : Option Info → Option Info → Prop
  | none, none => True
  | some a, some b => InfoEq a b
  | _, _ => False

/-- **CacheEq** — same reservation UIDs, per UID the same node / allocate-once / allocatable, the same
Allocated at every dimension, the same AssignedPods entries (up to order), and the per-node indexes
(reservationsOnNode, allocatedOnNode) equal as sets. -/
structure CacheEq (c₁ c₂ : Cache) : Prop where
  infos : ∀ r, OptInfoEq (c₁.get r) (c₂.get r)
  onNode : ∀ x, x ∈ c₁.onNode ↔ x ∈ c₂.onNode
  allocOn : ∀ x, x ∈ c₁.allocOn ↔ x ∈ c₂.allocOn

/-! ### basic facts about the cache primitives -/

theorem mem_setIns (s : List (Nat × Nat)) (x y : Nat × Nat) : y ∈ setIns s x ↔ y = x ∨ y ∈ s := by
  unfold setIns; split <;> simp_all

theorem mem_setDel (s : List (Nat × Nat)) (x y : Nat × Nat) : y ∈ setDel s x ↔ y ∈ s ∧ y ≠ x := by
  unfold setDel; simp

theorem find_replace (l : List Info) (ri : Info) (r : Nat) :
    (l.map (fun i => if i.rid == ri.rid then ri else i)).find? (fun i => i.rid == r) =
      if ri.rid = r then (if (l.find? (fun i => i.rid == ri.rid)).isSome then some ri else none)
      else l.find? (fun i => i.rid == r) := by
  induction l with
  | nil => simp
  | cons a t ih =>
    simp only [List.map_cons]
    grind

theorem get_put (c : Cache) (ri : Info) (r : Nat) :
    (c.put ri).get r = if ri.rid = r then some ri else c.get r := by
  unfold Cache.put
  split
  · rename_i h
    simp only [Cache.get] at h ⊢
    rw [find_replace]; simp [h]
  · simp only [Cache.get]
    grind

theorem get_rid {c : Cache} {r : Nat} {ri : Info} (h : c.get r = some ri) : ri.rid = r := by
  have := List.find?_some h
  simpa using this

@[simp] theorem put_onNode (c : Cache) (ri : Info) : (c.put ri).onNode = c.onNode := by
  unfold Cache.put; split <;> rfl
@[simp] theorem put_allocOn (c : Cache) (ri : Info) : (c.put ri).allocOn = c.allocOn := by
  unfold Cache.put; split <;> rfl

@[simp] theorem addAssigned_rid (ri : Info) (pid : Nat) (q : Req) : (addAssigned ri pid q).rid = ri.rid := by
  unfold addAssigned; split <;> rfl
@[simp] theorem addAssigned_node (ri : Info) (pid : Nat) (q : Req) : (addAssigned ri pid q).node = ri.node := by
  unfold addAssigned; split <;> rfl
@[simp] theorem addAssigned_once (ri : Info) (pid : Nat) (q : Req) : (addAssigned ri pid q).once = ri.once := by
  unfold addAssigned; split <;> rfl
@[simp] theorem removeAssigned_rid (ri : Info) (pid : Nat) : (removeAssigned ri pid).rid = ri.rid := by
  unfold removeAssigned; split <;> rfl
@[simp] theorem removeAssigned_node (ri : Info) (pid : Nat) : (removeAssigned ri pid).node = ri.node := by
  unfold removeAssigned; split <;> rfl
@[simp] theorem removeAssigned_once (ri : Info) (pid : Nat) : (removeAssigned ri pid).once = ri.once := by
  unfold removeAssigned; split <;> rfl


theorem matchable_and (ri : Info) :
    (matchable ri && decide (ri.pods.length > 0)) = true ↔ ri.once = false ∧ ri.pods ≠ [] := by
  unfold matchable
  cases ri.once <;> cases ri.pods <;> simp

theorem addAssigned_of_mem {ri : Info} {pid : Nat} (q : Req) (h : pid ∈ keys ri) : addAssigned ri pid q = ri := by
  unfold addAssigned; simp [h]

theorem mem_addAssigned {ri : Info} {pid : Nat} (q : Req) (h : pid ∉ keys ri) (x : Nat × Req) :
    x ∈ (addAssigned ri pid q).pods ↔ x = (pid, q) ∨ x ∈ ri.pods := by
  unfold addAssigned; simp [h]

theorem mem_removeAssigned (ri : Info) (pid : Nat) (x : Nat × Req) :
    x ∈ (removeAssigned ri pid).pods ↔ x ∈ ri.pods ∧ x.1 ≠ pid := by
  unfold removeAssigned
  cases hl : ri.pods.lookup pid with
  | none =>
    simp only
    rw [List.lookup_eq_none_iff] at hl
    constructor
    · intro hx; exact ⟨hx, fun e => by have := hl x hx; simp [e] at this⟩
    · intro hx; exact hx.1
  | some q => simp

/-- cache.updateReservation after the ReservationInfo `ri` has been created / updated. -/
def updCore (c : Cache) (ri : Info) (node rid : Nat) : Cache :=
  let c := c.put ri
  let c := { c with onNode := setIns c.onNode (node, rid) }
  if matchable ri && decide (ri.pods.length > 0) then { c with allocOn := setIns c.allocOn (node, rid) }
  else { c with allocOn := setDel c.allocOn (node, rid) }

theorem updateReservation_none {c : Cache} {rid : Nat} (node : Nat) (once : Bool) (decl : Req) (h : c.get rid = none) :
    c.updateReservation rid node once decl = updCore c (newInfo rid node once decl) node rid := by
  unfold Cache.updateReservation updCore; rw [h]

theorem updateReservation_some {c : Cache} {rid : Nat} {ri : Info} (node : Nat) (once : Bool) (decl : Req)
    (h : c.get rid = some ri) :
    c.updateReservation rid node once decl = updCore c (updateInfo ri) node rid := by
  unfold Cache.updateReservation updCore; rw [h]

theorem updCore_spec (c : Cache) (ri' : Info) (node rid : Nat) (hrid : ri'.rid = rid) :
    (∀ r, (updCore c ri' node rid).get r = if rid = r then some ri' else c.get r) ∧
    (∀ x, x ∈ (updCore c ri' node rid).onNode ↔ x = (node, rid) ∨ x ∈ c.onNode) ∧
    (∀ x, x ∈ (updCore c ri' node rid).allocOn ↔
      if ri'.once = false ∧ ri'.pods ≠ [] then x = (node, rid) ∨ x ∈ c.allocOn
      else x ∈ c.allocOn ∧ x ≠ (node, rid)) := by
  unfold updCore
  simp only
  have hm := matchable_and ri'
  by_cases hc : (matchable ri' && decide (ri'.pods.length > 0)) = true
  · have hc' := hm.mp hc
    simp only [hc, if_true]
    refine ⟨fun r => ?_, fun x => ?_, fun x => ?_⟩
    · simp only [Cache.get]; have := get_put c ri' r; simp only [Cache.get] at this; rw [this, hrid]
    · simp [mem_setIns]
    · simp [mem_setIns, hc']
  · have hc' : ¬(ri'.once = false ∧ ri'.pods ≠ []) := fun h => hc (hm.mpr h)
    simp only [hc]
    refine ⟨fun r => ?_, fun x => ?_, fun x => ?_⟩
    · simp only [Cache.get]; have := get_put c ri' r; simp only [Cache.get] at this; simp [this, hrid]
    · simp [mem_setIns]
    · rw [if_neg hc']; simp [mem_setDel]


/-- spec of cache.addPods / the add half of cache.updatePod for a known reservation. -/
theorem addPod_spec {c : Cache} {r : Nat} {ri : Info} (pid : Nat) (q : Req) (h : c.get r = some ri) :
    ∃ c', c.addPod r pid q = some c' ∧
      (∀ r', c'.get r' = if r = r' then some (addAssigned ri pid q) else c.get r') ∧
      c'.onNode = c.onNode ∧
      (∀ x, x ∈ c'.allocOn ↔ x ∈ c.allocOn ∨
        (x = (ri.node, r) ∧ ri.once = false ∧ (addAssigned ri pid q).pods ≠ [])) := by
  have hrid : (addAssigned ri pid q).rid = r := by simpa using get_rid h
  unfold Cache.addPod
  rw [h]
  simp only
  have hm := matchable_and (addAssigned ri pid q)
  simp only [addAssigned_once, addAssigned_node] at hm ⊢
  by_cases hc : (matchable (addAssigned ri pid q) && decide ((addAssigned ri pid q).pods.length > 0)) = true
  · have hc' := hm.mp hc
    refine ⟨_, rfl, fun r' => ?_, ?_, fun x => ?_⟩
    · simp only [hc, if_true, Cache.get]
      have := get_put c (addAssigned ri pid q) r'; simp only [Cache.get] at this; rw [this, hrid]
    · simp [hc]
    · simp [hc, mem_setIns, hc']; grind
  · have hc' : ¬(ri.once = false ∧ (addAssigned ri pid q).pods ≠ []) := fun h => hc (hm.mpr h)
    refine ⟨_, rfl, fun r' => ?_, ?_, fun x => ?_⟩
    · simp only [hc, Cache.get]
      have := get_put c (addAssigned ri pid q) r'; simp only [Cache.get] at this; simp [this, get_rid h]
    · simp [hc]
    · simp [hc]; grind

/-- spec of cache.deletePods / the remove half of cache.updatePod for a known reservation. -/
theorem delPod_spec {c : Cache} {r : Nat} {ri : Info} (pid : Nat) (h : c.get r = some ri) :
    (∀ r', (c.delPod r pid).get r' = if r = r' then some (removeAssigned ri pid) else c.get r') ∧
    (c.delPod r pid).onNode = c.onNode ∧
    (∀ x, x ∈ (c.delPod r pid).allocOn ↔ x ∈ c.allocOn ∧
      ¬(x = (ri.node, r) ∧ (removeAssigned ri pid).pods = [])) := by
  have hrid : (removeAssigned ri pid).rid = r := by simpa using get_rid h
  unfold Cache.delPod
  rw [h]
  simp only [removeAssigned_node]
  by_cases hc : (removeAssigned ri pid).pods.length = 0
  · have hc' : (removeAssigned ri pid).pods = [] := List.eq_nil_of_length_eq_zero hc
    refine ⟨fun r' => ?_, ?_, fun x => ?_⟩
    · simp only [hc, if_true, Cache.get]
      have := get_put c (removeAssigned ri pid) r'; simp only [Cache.get] at this; rw [this, hrid]
    · simp [hc]
    · simp [mem_setDel, hc']
  · have hc' : (removeAssigned ri pid).pods ≠ [] := fun e => hc (by simp [e])
    refine ⟨fun r' => ?_, ?_, fun x => ?_⟩
    · simp only [hc, Cache.get]
      have := get_put c (removeAssigned ri pid) r'; simp only [Cache.get] at this; simp [this, get_rid h]
    · simp [hc]
    · simp [hc, hc']

theorem delPod_none {c : Cache} {r : Nat} (pid : Nat) (h : c.get r = none) : c.delPod r pid = c := by
  unfold Cache.delPod; rw [h]

theorem addPod_none {c : Cache} {r : Nat} (pid : Nat) (q : Req) (h : c.get r = none) : c.addPod r pid q = none := by
  unfold Cache.addPod; rw [h]


/-! ### the representation invariant: the cache is determined by the API-server objects -/

theorem mem_upsertR (R : List RObj) (o x : RObj) : x ∈ upsertR R o ↔ x = o ∨ (x ∈ R ∧ x.rid ≠ o.rid) := by
  unfold upsertR; simp

theorem mem_upsertP (S : List Pod) (p x : Pod) : x ∈ upsertP S p ↔ x = p ∨ (x ∈ S ∧ x.pid ≠ p.pid) := by
  unfold upsertP; simp

theorem mem_removeP (S : List Pod) (pid : Nat) (x : Pod) : x ∈ removeP S pid ↔ x ∈ S ∧ x.pid ≠ pid := by
  unfold removeP; simp

/-- `Repr c s`: cache `c` is what the objects `s` say — per Reservation object one ReservationInfo with the
object's spec, ledger-exact (`WF`), whose AssignedPods are exactly the live pods annotated with it; the
indexes are functions of that. -/
structure Repr (c : Cache) (s : Objs) : Prop where
  dom : ∀ r, c.get r = none ↔ ∀ o ∈ s.resvs, o.rid ≠ r
  wf : ∀ r ri, c.get r = some ri → WF ri
  spec : ∀ r ri, c.get r = some ri → ∃ o ∈ s.resvs, o.rid = r ∧ o.node = ri.node ∧ o.once = ri.once ∧ o.decl = ri.decl
  pods : ∀ r ri, c.get r = some ri → ∀ pid q, (pid, q) ∈ ri.pods ↔
      ∃ p ∈ s.pods, p.pid = pid ∧ p.q = q ∧ p.rid = some r ∧ p.term = false
  onNode : ∀ n r, (n, r) ∈ c.onNode ↔ ∃ o ∈ s.resvs, o.rid = r ∧ o.node = n
  allocOn : ∀ n r, (n, r) ∈ c.allocOn ↔ ∃ ri, c.get r = some ri ∧ ri.node = n ∧ ri.once = false ∧ ri.pods ≠ []
  podsPw : s.pods.Pairwise (fun a b => a.pid ≠ b.pid)
  resvPw : s.resvs.Pairwise (fun a b => a.rid ≠ b.rid)
  resvFn : ∀ o₁ ∈ s.resvs, ∀ o₂ ∈ s.resvs, o₁.rid = o₂.rid → o₁.node = o₂.node ∧ o₁.once = o₂.once ∧ o₁.decl = o₂.decl
  known : ∀ p ∈ s.pods, p.term = false → ∀ r, p.rid = some r → ∃ o ∈ s.resvs, o.rid = r

theorem repr_empty : Repr {} {} := by
  refine ⟨?_, ?_, ?_, ?_, ?_, ?_, ?_, ?_, ?_, ?_⟩ <;> simp [Cache.get]

theorem upsertR_pw {R : List RObj} (o : RObj) (h : R.Pairwise (fun a b => a.rid ≠ b.rid)) :
    (upsertR R o).Pairwise (fun a b => a.rid ≠ b.rid) := by
  unfold upsertR
  refine List.pairwise_cons.mpr ⟨?_, h.filter _⟩
  intro x hx; simp at hx; exact fun e => hx.2 e.symm

theorem removeP_pw {S : List Pod} (pid : Nat) (h : S.Pairwise (fun a b => a.pid ≠ b.pid)) :
    (removeP S pid).Pairwise (fun a b => a.pid ≠ b.pid) := h.filter _

theorem repr_resv {c : Cache} {s : Objs} (i : Repr c s) (o : RObj)
    (hok : ∀ x ∈ s.resvs, x.rid = o.rid → x.node = o.node ∧ x.once = o.once ∧ x.decl = o.decl) :
    Repr (c.updateReservation o.rid o.node o.once o.decl) { s with resvs := upsertR s.resvs o } := by
  have hpw := upsertR_pw o i.resvPw
  cases hg : c.get o.rid with
  | none =>
    rw [updateReservation_none _ _ _ hg]
    obtain ⟨sg, sn, sa⟩ := updCore_spec c (newInfo o.rid o.node o.once o.decl) o.node o.rid rfl
    have hnone := (i.dom o.rid).mp hg
    refine ⟨?_, ?_, ?_, ?_, ?_, ?_, i.podsPw, hpw, ?_, ?_⟩
    · intro r; rw [sg]; simp only [mem_upsertR]; have := i.dom r; grind
    · intro r ri; rw [sg]; have := i.wf r ri; have := wf_new o.rid o.node o.once o.decl; grind
    · intro r ri; rw [sg]; simp only [mem_upsertR]; have := i.spec r ri; grind [newInfo]
    · intro r ri; rw [sg]; have := i.pods r ri; have := i.known; grind [newInfo]
    · intro n r; rw [sn]; simp only [mem_upsertR]; have := i.onNode n r; grind
    · intro n r; rw [sa]; simp only [sg]; have := i.allocOn n r; grind [newInfo]
    · simp only [mem_upsertR]; have := i.resvFn; grind
    · simp only [mem_upsertR]; have := i.known; grind
  | some ri0 =>
    rw [updateReservation_some _ _ _ hg]
    have hr0 := get_rid hg
    obtain ⟨sg, sn, sa⟩ := updCore_spec c (updateInfo ri0) o.node o.rid (by simpa [updateInfo] using hr0)
    obtain ⟨o0, ho0, ho0r, ho0n, ho0o, ho0d⟩ := i.spec _ _ hg
    have hsame := hok o0 ho0 ho0r
    refine ⟨?_, ?_, ?_, ?_, ?_, ?_, i.podsPw, hpw, ?_, ?_⟩
    · intro r; rw [sg]; simp only [mem_upsertR]; have := i.dom r; grind
    · intro r ri; rw [sg]; have := i.wf r ri; have := wf_update (i.wf _ _ hg); grind
    · intro r ri; rw [sg]; simp only [mem_upsertR]; have := i.spec r ri; grind [updateInfo]
    · intro r ri; rw [sg]; have := i.pods r ri; have := i.pods _ _ hg; grind [updateInfo]
    · intro n r; rw [sn]; simp only [mem_upsertR]; have := i.onNode n r; grind
    · intro n r; rw [sa]; simp only [sg]; have := i.allocOn n r; have := i.allocOn n o.rid; grind [updateInfo]
    · simp only [mem_upsertR]; have := i.resvFn; grind
    · simp only [mem_upsertR]; have := i.known; grind


/-- removing from the store a pod that is not a live assignment changes nothing the cache depends on. -/
theorem repr_filter {c : Cache} {s : Objs} (i : Repr c s) (pid : Nat)
    (h : ∀ p ∈ s.pods, p.pid = pid → p.term = true ∨ p.rid = none) :
    Repr c { s with pods := removeP s.pods pid } := by
  refine ⟨i.dom, i.wf, i.spec, ?_, i.onNode, i.allocOn, removeP_pw pid i.podsPw, i.resvPw, i.resvFn, ?_⟩
  · intro r ri hg p q; rw [i.pods r ri hg]; simp only [mem_removeP]; grind
  · simp only [mem_removeP]; have := i.known; grind

/-- cache.deletePods of pod `pid` from reservation `r`, when the stored pod (if it is a live
assignment) is assigned to `r`: the cache represents the objects without that pod. -/
theorem repr_del {c : Cache} {s : Objs} (i : Repr c s) (r pid : Nat)
    (h : ∀ p ∈ s.pods, p.pid = pid → p.term = false → ∀ r', p.rid = some r' → r' = r) :
    Repr (c.delPod r pid) { s with pods := removeP s.pods pid } := by
  have hpw := removeP_pw pid i.podsPw
  cases hg : c.get r with
  | none =>
    rw [delPod_none _ hg]
    have hnone := (i.dom r).mp hg
    refine repr_filter i pid ?_
    intro p hp hpid
    by_cases ht : p.term = true
    · exact Or.inl ht
    · right
      have ht' : p.term = false := by simpa using ht
      cases hr : p.rid with
      | none => rfl
      | some r' =>
        obtain ⟨o, ho, hor⟩ := i.known p hp ht' r' hr
        exact absurd (hor.trans (h p hp hpid ht' r' hr)) (hnone o ho)
  | some ri0 =>
    obtain ⟨sg, sn, sa⟩ := delPod_spec pid hg
    have hr0 := get_rid hg
    have hmem := mem_removeAssigned ri0 pid
    have hwf := (wf_remove (i.wf _ _ hg) pid).1
    have hn := removeAssigned_node ri0 pid
    have ho := removeAssigned_once ri0 pid
    have hd := removeAssigned_decl ri0 pid
    refine ⟨?_, ?_, ?_, ?_, ?_, ?_, hpw, i.resvPw, i.resvFn, ?_⟩
    · intro r'; rw [sg]; have := i.dom r'; grind
    · intro r' ri; rw [sg]; have := i.wf r' ri; grind
    · intro r' ri; rw [sg]; have := i.spec r' ri; have := i.spec _ _ hg; grind
    · intro r' ri; rw [sg]; simp only [mem_removeP]; have := i.pods r' ri; have := i.pods _ _ hg; grind
    · intro n r'; rw [sn]; exact i.onNode n r'
    · intro n r'; rw [sa]; simp only [sg]; have := i.allocOn n r'
      have hne : (removeAssigned ri0 pid).pods ≠ [] → ri0.pods ≠ [] := by
        intro h1 e
        apply h1
        apply List.eq_nil_iff_forall_not_mem.mpr
        intro x hx; have := ((hmem x).mp hx).1; rw [e] at this; cases this
      grind
    · simp only [mem_removeP]; have := i.known; grind

/-- adding to the store a pod that is not a live assignment changes nothing the cache depends on. -/
theorem repr_inert {c : Cache} {s : Objs} (i : Repr c s) (p : Pod) (hnew : ∀ x ∈ s.pods, x.pid ≠ p.pid)
    (h : p.term = true ∨ p.rid = none) : Repr c { s with pods := p :: s.pods } := by
  refine ⟨i.dom, i.wf, i.spec, ?_, i.onNode, i.allocOn, ?_, i.resvPw, i.resvFn, ?_⟩
  · intro r ri hg p q; rw [i.pods r ri hg]; grind
  · exact List.pairwise_cons.mpr ⟨fun x hx e => hnew x hx e.symm, i.podsPw⟩
  · have := i.known; grind

/-- cache.addPods / add half of cache.updatePod for a new, live pod annotated with a delivered reservation. -/
theorem repr_add {c : Cache} {s : Objs} (i : Repr c s) (p : Pod) (r : Nat) (hnew : ∀ x ∈ s.pods, x.pid ≠ p.pid)
    (ht : p.term = false) (hr : p.rid = some r) (hk : ∃ o ∈ s.resvs, o.rid = r) :
    Repr ((c.addPod r p.pid p.q).getD c) { s with pods := p :: s.pods } := by
  have hpw : (p :: s.pods).Pairwise (fun a b => a.pid ≠ b.pid) :=
    List.pairwise_cons.mpr ⟨fun x hx e => hnew x hx e.symm, i.podsPw⟩
  cases hg : c.get r with
  | none => have := (i.dom r).mp hg; grind
  | some ri0 =>
    obtain ⟨c', hc', sg, sn, sa⟩ := addPod_spec p.pid p.q hg
    rw [hc']; simp only [Option.getD_some]
    have hr0 := get_rid hg
    have hnotin : p.pid ∉ keys ri0 := by
      intro hin
      obtain ⟨e, he, hep⟩ := List.mem_map.mp hin
      obtain ⟨x, hx, hxp, _⟩ := (i.pods _ _ hg e.1 e.2).mp he
      exact hnew x hx (hxp.trans hep)
    have hmem := mem_addAssigned p.q hnotin
    have hwf := wf_add (i.wf _ _ hg) p.pid p.q
    have hn := addAssigned_node ri0 p.pid p.q
    have ho := addAssigned_once ri0 p.pid p.q
    have hd := addAssigned_decl ri0 p.pid p.q
    have hne : (addAssigned ri0 p.pid p.q).pods ≠ [] := by
      intro e; have := (hmem (p.pid, p.q)).mpr (Or.inl rfl); rw [e] at this; cases this
    refine ⟨?_, ?_, ?_, ?_, ?_, ?_, hpw, i.resvPw, i.resvFn, ?_⟩
    · intro r'; rw [sg]; have := i.dom r'; grind
    · intro r' ri; rw [sg]; have := i.wf r' ri; grind
    · intro r' ri; rw [sg]; have := i.spec r' ri; have := i.spec _ _ hg; grind
    · intro r' ri; rw [sg]; have := i.pods r' ri; have := i.pods _ _ hg; grind
    · intro n r'; rw [sn]; exact i.onNode n r'
    · intro n r'; rw [sa]; simp only [sg]; have := i.allocOn n r'
      grind
    · have := i.known; grind


/-! ### the informer handlers preserve the invariant -/

theorem pw_unique {S : List Pod} (h : S.Pairwise (fun a b => a.pid ≠ b.pid)) {a b : Pod}
    (ha : a ∈ S) (hb : b ∈ S) (e : a.pid = b.pid) : a = b := by
  induction h with
  | nil => cases ha
  | cons hx _ ih =>
    rcases List.mem_cons.mp ha with ha1 | ha1 <;> rcases List.mem_cons.mp hb with hb1 | hb1
    · rw [ha1, hb1]
    · subst ha1; exact absurd e (hx b hb1)
    · subst hb1; exact absurd e.symm (hx a ha1)
    · exact ih ha1 hb1

theorem oldOf_some {S : List Pod} {pid : Nat} {o : Pod} (h : oldOf S pid = some o) : o ∈ S ∧ o.pid = pid := by
  unfold oldOf at h
  exact ⟨List.mem_of_find?_eq_some h, by simpa using List.find?_some h⟩

theorem oldOf_none {S : List Pod} {pid : Nat} (h : oldOf S pid = none) : ∀ x ∈ S, x.pid ≠ pid := by
  unfold oldOf at h
  intro x hx
  have := List.find?_eq_none.mp h x hx
  simpa using this

theorem removeP_ne (S : List Pod) (pid : Nat) : ∀ x ∈ removeP S pid, x.pid ≠ pid := by
  intro x hx; exact ((mem_removeP S pid x).mp hx).2

/-- pod_eventhandler.go deletePod for a pod of the store. -/
theorem repr_handlerDelete {c : Cache} {s : Objs} (i : Repr c s) {o : Pod} (ho : o ∈ s.pods) :
    Repr (handlerDelete c o) { s with pods := removeP s.pods o.pid } := by
  unfold handlerDelete
  cases hr : o.rid with
  | none =>
    refine repr_filter i o.pid ?_
    intro x hx e
    have := pw_unique i.podsPw hx ho e
    subst this; exact Or.inr hr
  | some r =>
    refine repr_del i r o.pid ?_
    intro x hx e _ r' hr'
    have := pw_unique i.podsPw hx ho e
    subst this; rw [hr] at hr'; cases hr'; rfl

/-- the add half of updatePod, after the old version has been removed from cache and store. -/
theorem repr_addPhase {c : Cache} {s : Objs} (i : Repr c s) (p : Pod) (hnew : ∀ x ∈ s.pods, x.pid ≠ p.pid)
    (ht : p.term = false) (hk : ∀ r, p.rid = some r → ∃ o ∈ s.resvs, o.rid = r) :
    Repr (match p.rid with
      | some r => (c.addPod r p.pid p.q).getD c
      | none => c) { s with pods := p :: s.pods } := by
  cases hr : p.rid with
  | none => exact repr_inert i p hnew (Or.inr hr)
  | some r => exact repr_add i p r hnew ht hr (hk r hr)

/-- pod_eventhandler.go updatePod with the informer's old object = the stored version. -/
theorem repr_handlerUpdate {c : Cache} {s : Objs} (i : Repr c s) (p : Pod) (hok : okEv s (.pod p) = true) :
    Repr (handlerUpdate c (oldOf s.pods p.pid) p) { s with pods := upsertP s.pods p } := by
  have hup : upsertP s.pods p = p :: removeP s.pods p.pid := rfl
  rw [hup]
  have hnew := removeP_ne s.pods p.pid
  simp only [okEv, Bool.and_eq_true, Bool.or_eq_true] at hok
  obtain ⟨hA, hB⟩ := hok
  unfold handlerUpdate
  by_cases ht : p.term = true
  · -- terminated: deletePod(newPod)
    simp only [ht, if_true]
    have hB' := hB.resolve_left (by simp [ht])
    cases ho : oldOf s.pods p.pid with
    | none =>
      have hno := oldOf_none ho
      have i1 : Repr (handlerDelete c p) { s with pods := removeP s.pods p.pid } := by
        unfold handlerDelete
        cases hr : p.rid with
        | none => exact repr_filter i p.pid (fun x hx e => absurd e (hno x hx))
        | some r => exact repr_del i r p.pid (fun x hx e => absurd e (hno x hx))
      exact repr_inert i1 p hnew (Or.inl ht)
    | some o =>
      obtain ⟨hoS, hop⟩ := oldOf_some ho
      rw [ho] at hB'
      simp only [Bool.or_eq_true, Option.isNone_iff_eq_none, beq_iff_eq] at hB'
      have i1 : Repr (handlerDelete c p) { s with pods := removeP s.pods p.pid } := by
        unfold handlerDelete
        cases hr : p.rid with
        | none =>
          refine repr_filter i p.pid ?_
          intro x hx e
          have := pw_unique i.podsPw hx hoS (e.trans hop.symm)
          subst this
          rw [hr] at hB'
          rcases hB' with (h1 | h1) | h1
          · exact Or.inl h1
          · exact Or.inr h1
          · exact Or.inr h1
        | some r =>
          refine repr_del i r p.pid ?_
          intro x hx e hxt r' hr'
          have := pw_unique i.podsPw hx hoS (e.trans hop.symm)
          subst this
          rw [hr] at hB'
          rcases hB' with (h1 | h1) | h1
          · rw [hxt] at h1; cases h1
          · rw [hr'] at h1; cases h1
          · rw [hr'] at h1; cases h1; rfl
      exact repr_inert i1 p hnew (Or.inl ht)
  · have ht' : p.term = false := by simpa using ht
    simp only [ht', Bool.false_eq_true, if_false]
    have hk : ∀ r, p.rid = some r → ∃ o ∈ s.resvs, o.rid = r := by
      intro r hr
      have hA' := hA.resolve_left (by simp [ht'])
      rw [hr] at hA'
      simpa using hA'
    cases ho : oldOf s.pods p.pid with
    | none =>
      have hno := oldOf_none ho
      have i1 : Repr c { s with pods := removeP s.pods p.pid } :=
        repr_filter i p.pid (fun x hx e => absurd e (hno x hx))
      have i2 := repr_addPhase i1 p hnew ht' hk
      cases hr : p.rid with
      | none => simpa [hr] using i2
      | some r => simpa [hr] using i2
    | some o =>
      obtain ⟨hoS, hop⟩ := oldOf_some ho
      cases hor : o.rid with
      | none =>
        have i1 : Repr c { s with pods := removeP s.pods p.pid } := by
          refine repr_filter i p.pid ?_
          intro x hx e
          have := pw_unique i.podsPw hx hoS (e.trans hop.symm)
          subst this; exact Or.inr hor
        have i2 := repr_addPhase i1 p hnew ht' hk
        cases hr : p.rid with
        | none => simpa [hr, hor] using i2
        | some r => simpa [hr, hor] using i2
      | some r1 =>
        have i1 : Repr (c.delPod r1 o.pid) { s with pods := removeP s.pods p.pid } := by
          rw [hop]
          refine repr_del i r1 p.pid ?_
          intro x hx e _ r' hr'
          have := pw_unique i.podsPw hx hoS (e.trans hop.symm)
          subst this; rw [hor] at hr'; cases hr'; rfl
        have i2 := repr_addPhase i1 p hnew ht' hk
        cases hr : p.rid with
        | none => simpa [hr, hor] using i2
        | some r => simpa [hr, hor] using i2


/-! ### every well-formed history keeps the invariant -/

theorem repr_step {c : Cache} {s : Objs} (i : Repr c s) (e : Ev) (hok : okEv s e = true) :
    Repr (c.step s e) (s.step e) := by
  cases e with
  | resv o =>
    simp only [Cache.step, Objs.step]
    refine repr_resv i o ?_
    intro x hx hr
    simp only [okEv, List.all_eq_true] at hok
    have := hok x hx
    simp [hr] at this
    exact ⟨this.1.1, this.1.2, this.2⟩
  | pod p => exact repr_handlerUpdate i p hok
  | del pid =>
    simp only [Cache.step, Objs.step]
    cases ho : oldOf s.pods pid with
    | none =>
      have hno := oldOf_none ho
      exact repr_filter i pid (fun x hx e => absurd e (hno x hx))
    | some o =>
      obtain ⟨hoS, hop⟩ := oldOf_some ho
      have := repr_handlerDelete i hoS
      rw [hop] at this; exact this

theorem repr_runFrom (h : List Ev) : ∀ {c : Cache} {s : Objs}, Repr c s → wfFrom s h = true →
    Repr (runFrom c s h).1 (runFrom c s h).2 := by
  induction h with
  | nil => intro c s i _; exact i
  | cons e t ih =>
    intro c s i hw
    simp only [wfFrom, Bool.and_eq_true] at hw
    exact ih (repr_step i e hw.1) hw.2

theorem runFrom_objs (h : List Ev) : ∀ (c : Cache) (s : Objs), (runFrom c s h).2 = h.foldl Objs.step s := by
  induction h with
  | nil => intro c s; rfl
  | cons e t ih => intro c s; exact ih _ _

/-- the live cache after a well-formed history represents the objects of the history. -/
theorem repr_live (h : List Ev) (wf : wfHist h = true) : Repr (live h) (objsOf h) := by
  have := repr_runFrom h repr_empty wf
  rw [runFrom_objs] at this
  exact this

/-! ### the rebuilt cache represents the delivered objects -/

theorem handlerUpdate_add (c : Cache) {p : Pod} {r : Nat} (ht : p.term = false) (hr : p.rid = some r) :
    handlerUpdate c none p = (c.addPod r p.pid p.q).getD c := by
  simp [handlerUpdate, ht, hr]

theorem rebuildR_repr (l : List RObj) : ∀ {c : Cache} {s : Objs}, Repr c s →
    l.Pairwise (fun a b => a.rid ≠ b.rid) → (∀ o ∈ l, ∀ x ∈ s.resvs, x.rid ≠ o.rid) →
    Repr (l.foldl (fun c o => c.updateReservation o.rid o.node o.once o.decl) c)
      { s with resvs := l.reverse ++ s.resvs } := by
  induction l with
  | nil => intro c s i _ _; simpa using i
  | cons o t ih =>
    intro c s i hpw hne
    obtain ⟨ho, ht⟩ := List.pairwise_cons.mp hpw
    have i1 := repr_resv i o (fun x hx e => absurd e (hne o (by simp) x hx))
    have hup : upsertR s.resvs o = o :: s.resvs := by
      unfold upsertR
      rw [List.filter_eq_self.mpr]
      intro x hx; simpa using hne o (by simp) x hx
    rw [hup] at i1
    have i2 := ih i1 ht (by
      intro o' ho' x hx
      rcases List.mem_cons.mp hx with hx | hx
      · subst hx; exact ho o' ho'
      · exact hne o' (List.mem_cons_of_mem _ ho') x hx)
    simpa using i2

theorem rebuildP_repr (l : List Pod) : ∀ {c : Cache} {s : Objs}, Repr c s →
    l.Pairwise (fun a b => a.pid ≠ b.pid) → (∀ p ∈ l, ∀ x ∈ s.pods, x.pid ≠ p.pid) →
    (∀ p ∈ l, p.term = false ∧ ∃ r, p.rid = some r ∧ ∃ o ∈ s.resvs, o.rid = r) →
    Repr (l.foldl (fun c p => handlerUpdate c none p) c) { s with pods := l.reverse ++ s.pods } := by
  induction l with
  | nil => intro c s i _ _ _; simpa using i
  | cons p t ih =>
    intro c s i hpw hne hal
    obtain ⟨hp, ht⟩ := List.pairwise_cons.mp hpw
    obtain ⟨hterm, r, hr, hk⟩ := hal p (by simp)
    have i1 := repr_add i p r (hne p (by simp)) hterm hr hk
    rw [← handlerUpdate_add c hterm hr] at i1
    have i2 := ih i1 ht (by
      intro p' hp' x hx
      rcases List.mem_cons.mp hx with hx | hx
      · subst hx; exact hp p' hp'
      · exact hne p' (List.mem_cons_of_mem _ hp') x hx)
      (fun p' hp' => hal p' (List.mem_cons_of_mem _ hp'))
    simpa using i2

/-- well-formedness of the delivered objects: distinct Reservation UIDs, distinct pod UIDs, every pod
live and annotated with a delivered Reservation. -/
structure Deliverable (R : List RObj) (P : List Pod) : Prop where
  resvPw : R.Pairwise (fun a b => a.rid ≠ b.rid)
  podsPw : P.Pairwise (fun a b => a.pid ≠ b.pid)
  alive : ∀ p ∈ P, p.term = false ∧ ∃ r, p.rid = some r ∧ ∃ o ∈ R, o.rid = r

theorem repr_rebuild {R : List RObj} {P : List Pod} (dl : Deliverable R P) :
    Repr (rebuild R P) { resvs := R.reverse, pods := P.reverse } := by
  have i1 := rebuildR_repr R repr_empty dl.resvPw (by intro o _ x hx; cases hx)
  have i2 := rebuildP_repr P i1 dl.podsPw (by intro p _ x hx; cases hx) (by
    intro p hp
    obtain ⟨ht, r, hr, o, ho, hor⟩ := dl.alive p hp
    exact ⟨ht, r, hr, o, by simpa using ho, hor⟩)
  simpa [rebuild] using i2


/-! ### two caches representing the same surviving objects are observationally equal -/

theorem InfoEq.symm {a b : Info} (h : InfoEq a b) : InfoEq b a :=
  ⟨h.rid.symm, h.node.symm, h.once.symm, h.decl.symm, fun d => (h.alloc d).symm, h.pods.symm⟩

theorem InfoEq.trans {a b c : Info} (h : InfoEq a b) (g : InfoEq b c) : InfoEq a c :=
  ⟨h.rid.trans g.rid, h.node.trans g.node, h.once.trans g.once, h.decl.trans g.decl,
    fun d => (h.alloc d).trans (g.alloc d), h.pods.trans g.pods⟩

theorem OptInfoEq.symm {a b : Option Info} (h : OptInfoEq a b) : OptInfoEq b a := by
  cases a <;> cases b <;> simp_all [OptInfoEq]
  exact InfoEq.symm h

theorem OptInfoEq.trans {a b c : Option Info} (h : OptInfoEq a b) (g : OptInfoEq b c) : OptInfoEq a c := by
  cases a <;> cases b <;> cases c <;> simp_all [OptInfoEq]
  exact InfoEq.trans h g

theorem CacheEq.symm {c₁ c₂ : Cache} (h : CacheEq c₁ c₂) : CacheEq c₂ c₁ :=
  ⟨fun r => (h.infos r).symm, fun x => (h.onNode x).symm, fun x => (h.allocOn x).symm⟩

theorem CacheEq.trans {c₁ c₂ c₃ : Cache} (h : CacheEq c₁ c₂) (g : CacheEq c₂ c₃) : CacheEq c₁ c₃ :=
  ⟨fun r => (h.infos r).trans (g.infos r), fun x => (h.onNode x).trans (g.onNode x),
    fun x => (h.allocOn x).trans (g.allocOn x)⟩

theorem nodup_of_keys {l : List (Nat × Req)} (h : (l.map Prod.fst).Nodup) : l.Nodup :=
  List.Pairwise.of_map Prod.fst (fun _ _ hne e => hne (e ▸ rfl)) h

theorem repr_pods_perm {c₁ c₂ : Cache} {s₁ s₂ : Objs} (i₁ : Repr c₁ s₁) (i₂ : Repr c₂ s₂)
    (hS : ∀ p, assignedAlive p = true → (p ∈ s₁.pods ↔ p ∈ s₂.pods))
    {r : Nat} {a b : Info} (ha : c₁.get r = some a) (hb : c₂.get r = some b) : a.pods.Perm b.pods := by
  refine (List.perm_ext_iff_of_nodup (nodup_of_keys (i₁.wf r a ha).nodup) (nodup_of_keys (i₂.wf r b hb).nodup)).mpr ?_
  intro x
  obtain ⟨pid, q⟩ := x
  rw [i₁.pods r a ha pid q, i₂.pods r b hb pid q]
  have hal : ∀ p : Pod, p.rid = some r → p.term = false → assignedAlive p = true := by
    intro p h1 h2; simp [assignedAlive, h1, h2]
  constructor
  · rintro ⟨p, hp, h1, h2, h3, h4⟩; exact ⟨p, (hS p (hal p h3 h4)).mp hp, h1, h2, h3, h4⟩
  · rintro ⟨p, hp, h1, h2, h3, h4⟩; exact ⟨p, (hS p (hal p h3 h4)).mpr hp, h1, h2, h3, h4⟩

theorem repr_infoEq {c₁ c₂ : Cache} {s₁ s₂ : Objs} (i₁ : Repr c₁ s₁) (i₂ : Repr c₂ s₂)
    (hR : ∀ o, o ∈ s₁.resvs ↔ o ∈ s₂.resvs)
    (hS : ∀ p, assignedAlive p = true → (p ∈ s₁.pods ↔ p ∈ s₂.pods)) (r : Nat) :
    OptInfoEq (c₁.get r) (c₂.get r) := by
  cases ha : c₁.get r with
  | none =>
    cases hb : c₂.get r with
    | none => trivial
    | some b =>
      obtain ⟨o, ho, hor, _⟩ := i₂.spec r b hb
      exact absurd hor ((i₁.dom r).mp ha o ((hR o).mpr ho))
  | some a =>
    cases hb : c₂.get r with
    | none =>
      obtain ⟨o, ho, hor, _⟩ := i₁.spec r a ha
      exact absurd hor ((i₂.dom r).mp hb o ((hR o).mp ho))
    | some b =>
      obtain ⟨o1, ho1, hr1, hn1, hc1, hd1⟩ := i₁.spec r a ha
      obtain ⟨o2, ho2, hr2, hn2, hc2, hd2⟩ := i₂.spec r b hb
      obtain ⟨e1, e2, e3⟩ := i₂.resvFn o1 ((hR o1).mp ho1) o2 ho2 (hr1.trans hr2.symm)
      have hperm := repr_pods_perm i₁ i₂ hS ha hb
      have hdecl : a.decl = b.decl := hd1.symm.trans (e3.trans hd2)
      refine ⟨(get_rid ha).trans (get_rid hb).symm, hn1.symm.trans (e1.trans hn2), hc1.symm.trans (e2.trans hc2),
        hdecl, fun d => ?_, hperm⟩
      rw [(i₁.wf r a ha).exact d, (i₂.wf r b hb).exact d, hdecl, sumMasked_perm hperm]

theorem allocOn_half {c₁ c₂ : Cache} {s₁ s₂ : Objs} (i₁ : Repr c₁ s₁) (i₂ : Repr c₂ s₂) {n r : Nat}
    (he : OptInfoEq (c₁.get r) (c₂.get r)) (h : (n, r) ∈ c₁.allocOn) : (n, r) ∈ c₂.allocOn := by
  obtain ⟨a, ha, hn, ho, hp⟩ := (i₁.allocOn n r).mp h
  rw [ha] at he
  cases hb : c₂.get r with
  | none => rw [hb] at he; exact he.elim
  | some b =>
    rw [hb] at he
    have he : InfoEq a b := he
    refine (i₂.allocOn n r).mpr ⟨b, hb, he.node.symm.trans hn, he.once.symm.trans ho, ?_⟩
    intro e; have hpp := he.pods; rw [e] at hpp; exact hp hpp.eq_nil

theorem repr_cacheEq {c₁ c₂ : Cache} {s₁ s₂ : Objs} (i₁ : Repr c₁ s₁) (i₂ : Repr c₂ s₂)
    (hR : ∀ o, o ∈ s₁.resvs ↔ o ∈ s₂.resvs)
    (hS : ∀ p, assignedAlive p = true → (p ∈ s₁.pods ↔ p ∈ s₂.pods)) : CacheEq c₁ c₂ := by
  have hinfo := repr_infoEq i₁ i₂ hR hS
  refine ⟨hinfo, ?_, ?_⟩
  · rintro ⟨n, r⟩
    rw [i₁.onNode n r, i₂.onNode n r]
    constructor
    · rintro ⟨o, ho, h⟩; exact ⟨o, (hR o).mp ho, h⟩
    · rintro ⟨o, ho, h⟩; exact ⟨o, (hR o).mpr ho, h⟩
  · rintro ⟨n, r⟩
    exact ⟨allocOn_half i₁ i₂ (hinfo r), allocOn_half i₂ i₁ (hinfo r).symm⟩

/-! ### the theorems -/

/-- the survivors of a well-formed history can be delivered to a fresh scheduler. -/
theorem survivors_deliverable (h : List Ev) (wf : wfHist h = true) {R : List RObj} {P : List Pod}
    (hR : R.Perm (survivors h).1) (hP : P.Perm (survivors h).2) : Deliverable R P := by
  have i := repr_live h wf
  refine ⟨?_, ?_, ?_⟩
  · exact (hR.pairwise_iff (fun hab => fun e => hab e.symm)).mpr i.resvPw
  · exact (hP.pairwise_iff (fun hab => fun e => hab e.symm)).mpr (i.podsPw.filter _)
  · intro p hp
    have hp' := hP.mem_iff.mp hp
    simp only [survivors, List.mem_filter, assignedAlive, Bool.and_eq_true, Bool.not_eq_true',
      Option.isSome_iff_exists] at hp'
    obtain ⟨hps, ht, r, hr⟩ := hp'
    obtain ⟨o, ho, hor⟩ := i.known p hps ht r hr
    exact ⟨ht, r, hr, o, hR.mem_iff.mpr ho, hor⟩

/-- **cache_rebuilt_eq_live** — for EVERY well-formed history `h` of cache-level events on the live
scheduler (several reservations on several nodes, pods added / updated / re-assigned / un-assigned /
terminated / deleted), the live cache is observationally equal to the cache a fresh scheduler rebuilds
from the survivors: all surviving Reservations first (ANY order `R`), then one add event per surviving
pod assignment (ANY order `P`).  Order hypothesis: every Reservation is delivered before the pods
assigned to it (`rebuild` delivers all Reservations first). -/
theorem cache_rebuilt_eq_live (h : List Ev) (wf : wfHist h = true) (R : List RObj) (P : List Pod)
    (hR : R.Perm (survivors h).1) (hP : P.Perm (survivors h).2) :
    CacheEq (live h) (rebuild R P) := by
  have i₁ := repr_live h wf
  have i₂ := repr_rebuild (survivors_deliverable h wf hR hP)
  refine repr_cacheEq i₁ i₂ ?_ ?_
  · intro o
    simp only [List.mem_reverse]
    exact hR.mem_iff.symm
  · intro p hp
    simp only [List.mem_reverse]
    rw [hP.mem_iff]
    simp [survivors, hp]


theorem Deliverable.perm {R₁ R₂ : List RObj} {P₁ P₂ : List Pod} (dl : Deliverable R₁ P₁)
    (hR : R₁.Perm R₂) (hP : P₁.Perm P₂) : Deliverable R₂ P₂ := by
  refine ⟨?_, ?_, ?_⟩
  · exact (hR.pairwise_iff (fun hab => fun e => hab e.symm)).mp dl.resvPw
  · exact (hP.pairwise_iff (fun hab => fun e => hab e.symm)).mp dl.podsPw
  · intro p hp
    obtain ⟨ht, r, hr, o, ho, hor⟩ := dl.alive p (hP.mem_iff.mpr hp)
    exact ⟨ht, r, hr, o, hR.mem_iff.mp ho, hor⟩

/-- **cache_rebuild_order_independent** — the whole rebuilt cache does not depend on the order in which
the informers deliver the Reservations among themselves and the pods among themselves (distinct UIDs,
every pod live and annotated with a delivered Reservation). -/
theorem cache_rebuild_order_independent {R₁ R₂ : List RObj} {P₁ P₂ : List Pod} (dl : Deliverable R₁ P₁)
    (hR : R₁.Perm R₂) (hP : P₁.Perm P₂) : CacheEq (rebuild R₁ P₁) (rebuild R₂ P₂) := by
  refine repr_cacheEq (repr_rebuild dl) (repr_rebuild (dl.perm hR hP)) ?_ ?_
  · intro o; simp only [List.mem_reverse]; exact hR.mem_iff
  · intro p _; simp only [List.mem_reverse]; exact hP.mem_iff

/-- the same for the survivors of a well-formed history. -/
theorem cache_rebuild_order_independent_hist (h : List Ev) (wf : wfHist h = true) {R₁ R₂ : List RObj}
    {P₁ P₂ : List Pod} (hR₁ : R₁.Perm (survivors h).1) (hP₁ : P₁.Perm (survivors h).2)
    (hR₂ : R₂.Perm (survivors h).1) (hP₂ : P₂.Perm (survivors h).2) :
    CacheEq (rebuild R₁ P₁) (rebuild R₂ P₂) :=
  cache_rebuild_order_independent (survivors_deliverable h wf hR₁ hP₁) (hR₁.trans hR₂.symm) (hP₁.trans hP₂.symm)

/-- the (uid, requests) entries of the live pods of `P` annotated with reservation `rid`. -/
def assignedTo (P : List Pod) (rid : Nat) : List (Nat × Req) :=
  (P.filter (fun p => !p.term && p.rid == some rid)).map (fun p => (p.pid, p.q))

theorem assignedTo_perm {P₁ P₂ : List Pod} (h : P₁.Perm P₂) (rid : Nat) : (assignedTo P₁ rid).Perm (assignedTo P₂ rid) :=
  (h.filter _).map _

theorem repr_pods_assignedTo {c : Cache} {s : Objs} (i : Repr c s) {rid : Nat} {ri : Info} (hg : c.get rid = some ri) :
    ri.pods.Perm (assignedTo s.pods rid) := by
  have nd2 : (assignedTo s.pods rid).Nodup := by
    unfold assignedTo
    refine List.Pairwise.map _ ?_ (i.podsPw.filter _)
    intro a b hab e
    exact hab (congrArg Prod.fst e)
  refine (List.perm_ext_iff_of_nodup (nodup_of_keys (i.wf rid ri hg).nodup) nd2).mpr ?_
  rintro ⟨pid, q⟩
  rw [i.pods rid ri hg pid q]
  simp only [assignedTo, List.mem_map, List.mem_filter, Bool.and_eq_true, Bool.not_eq_true', beq_iff_eq,
    Prod.mk.injEq]
  constructor
  · rintro ⟨p, hp, h1, h2, h3, h4⟩; exact ⟨p, ⟨hp, h4, h3⟩, h1, h2⟩
  · rintro ⟨p, ⟨hp, h4, h3⟩, h1, h2⟩; exact ⟨p, hp, h1, h2, h3, h4⟩

/-- in a cache that represents the objects, Allocated of every ReservationInfo is the sum of the masked
requests of the live pods annotated with it. -/
theorem repr_allocated_eq_sum {c : Cache} {s : Objs} (i : Repr c s) {o : RObj} (ho : o ∈ s.resvs) :
    ∃ ri, c.get o.rid = some ri ∧ ri.node = o.node ∧ ri.once = o.once ∧ ri.decl = o.decl ∧
      ∀ d, ri.allocated d = sumMasked o.decl d (assignedTo s.pods o.rid) := by
  cases hg : c.get o.rid with
  | none => exact absurd rfl ((i.dom o.rid).mp hg o ho)
  | some ri =>
    obtain ⟨o', ho', hr', hn', hc', hd'⟩ := i.spec _ _ hg
    obtain ⟨e1, e2, e3⟩ := i.resvFn o' ho' o ho hr'
    have hdecl : ri.decl = o.decl := hd'.symm.trans e3
    refine ⟨ri, rfl, hn'.symm.trans e1, hc'.symm.trans e2, hdecl, fun d => ?_⟩
    rw [(i.wf _ _ hg).exact d, hdecl, sumMasked_perm (repr_pods_assignedTo i hg)]

/-- **cache_allocated_eq_sum** — nothing reserved-and-taken is free after the restart: for every surviving
Reservation the rebuilt cache holds a ReservationInfo with the Reservation's spec whose Allocated is, at
every dimension, the sum of the masked requests of the surviving pods assigned to it. -/
theorem cache_allocated_eq_sum (h : List Ev) (wf : wfHist h = true) (R : List RObj) (P : List Pod)
    (hR : R.Perm (survivors h).1) (hP : P.Perm (survivors h).2) :
    ∀ o ∈ (survivors h).1, ∃ ri, (rebuild R P).get o.rid = some ri ∧ ri.node = o.node ∧ ri.once = o.once ∧
      ri.decl = o.decl ∧ ∀ d, ri.allocated d = sumMasked o.decl d (assignedTo (survivors h).2 o.rid) := by
  intro o ho
  have i := repr_rebuild (survivors_deliverable h wf hR hP)
  obtain ⟨ri, hg, hn, hc, hd, ha⟩ := repr_allocated_eq_sum i (o := o) (by simpa using hR.mem_iff.mpr ho)
  refine ⟨ri, hg, hn, hc, hd, fun d => ?_⟩
  rw [ha d]
  exact sumMasked_perm (assignedTo_perm ((List.reverse_perm P).trans hP) o.rid)

/-- the same ledger equation on the LIVE cache (before the restart). -/
theorem live_allocated_eq_sum (h : List Ev) (wf : wfHist h = true) :
    ∀ o ∈ (survivors h).1, ∃ ri, (live h).get o.rid = some ri ∧ ri.node = o.node ∧ ri.once = o.once ∧
      ri.decl = o.decl ∧ ∀ d, ri.allocated d = sumMasked o.decl d (assignedTo (survivors h).2 o.rid) := by
  intro o ho
  obtain ⟨ri, hg, hn, hc, hd, ha⟩ := repr_allocated_eq_sum (repr_live h wf) (o := o) ho
  refine ⟨ri, hg, hn, hc, hd, fun d => ?_⟩
  rw [ha d]
  have : assignedTo (objsOf h).pods o.rid = assignedTo (survivors h).2 o.rid := by
    simp only [assignedTo, survivors, List.filter_filter]
    congr 1
    apply List.filter_congr
    intro p _
    cases ht : p.term <;> cases hr : p.rid <;> simp [assignedAlive, hr, ht]
  rw [this]


/-! ### interleaved delivery: the exact order hypothesis -/

/-- one delivery to the fresh scheduler: a Reservation add event or a pod add event. -/
inductive Dlv where
  | resv (o : RObj)
  | pod (p : Pod)

def deliver (c : Cache) : Dlv → Cache
  | .resv o => c.updateReservation o.rid o.node o.once o.decl
  | .pod p => handlerUpdate c none p

/-- the cache a fresh scheduler builds from an arbitrary interleaving of Reservation and pod add events. -/
def rebuildSeq (l : List Dlv) : Cache := l.foldl deliver {}

def resvsOf : List Dlv → List RObj
  | [] => []
  | .resv o :: t => o :: resvsOf t
  | .pod _ :: t => resvsOf t

def podsOf : List Dlv → List Pod
  | [] => []
  | .resv _ :: t => podsOf t
  | .pod p :: t => p :: podsOf t

/-- **the order hypothesis** (decidable): every Reservation is delivered before the pods assigned to it —
when a pod annotated with reservation `r` is delivered, `r` has already been delivered. -/
def resvFirstFrom (seen : List Nat) : List Dlv → Bool
  | [] => true
  | .resv o :: t => resvFirstFrom (o.rid :: seen) t
  | .pod p :: t => (match p.rid with
      | some r => seen.contains r
      | none => true) && resvFirstFrom seen t

def resvFirst (l : List Dlv) : Bool := resvFirstFrom [] l

theorem deliverSeq_repr (l : List Dlv) : ∀ {c : Cache} {s : Objs} (seen : List Nat), Repr c s →
    (resvsOf l).Pairwise (fun a b => a.rid ≠ b.rid) → (∀ o ∈ resvsOf l, ∀ x ∈ s.resvs, x.rid ≠ o.rid) →
    (podsOf l).Pairwise (fun a b => a.pid ≠ b.pid) → (∀ p ∈ podsOf l, ∀ x ∈ s.pods, x.pid ≠ p.pid) →
    (∀ p ∈ podsOf l, p.term = false ∧ ∃ r, p.rid = some r) →
    resvFirstFrom seen l = true → (∀ r ∈ seen, ∃ o ∈ s.resvs, o.rid = r) →
    Repr (l.foldl deliver c) { resvs := (resvsOf l).reverse ++ s.resvs, pods := (podsOf l).reverse ++ s.pods } := by
  induction l with
  | nil => intro c s seen i _ _ _ _ _ _ _; simpa [resvsOf, podsOf] using i
  | cons e t ih =>
    intro c s seen i hRpw hRne hPpw hPne hal hord hseen
    cases e with
    | resv o =>
      simp only [resvsOf, podsOf] at hRpw hRne hPpw hPne hal ⊢
      simp only [resvFirstFrom] at hord
      obtain ⟨ho, ht⟩ := List.pairwise_cons.mp hRpw
      have i1 := repr_resv i o (fun x hx e => absurd e (hRne o (by simp) x hx))
      have hup : upsertR s.resvs o = o :: s.resvs := by
        unfold upsertR
        rw [List.filter_eq_self.mpr]
        intro x hx; simpa using hRne o (by simp) x hx
      rw [hup] at i1
      have i2 := ih (o.rid :: seen) i1 ht (by
        intro o' ho' x hx
        rcases List.mem_cons.mp hx with hx | hx
        · subst hx; exact ho o' ho'
        · exact hRne o' (List.mem_cons_of_mem _ ho') x hx) hPpw hPne hal hord (by
        intro r hr
        rcases List.mem_cons.mp hr with hr | hr
        · exact ⟨o, by simp, hr.symm⟩
        · obtain ⟨x, hx, hxr⟩ := hseen r hr
          exact ⟨x, List.mem_cons_of_mem _ hx, hxr⟩)
      simpa [deliver] using i2
    | pod p =>
      simp only [resvsOf, podsOf] at hRpw hRne hPpw hPne hal ⊢
      simp only [resvFirstFrom, Bool.and_eq_true] at hord
      obtain ⟨hp, ht⟩ := List.pairwise_cons.mp hPpw
      obtain ⟨hterm, r, hr⟩ := hal p (by simp)
      have hk : ∃ o ∈ s.resvs, o.rid = r := by
        have := hord.1; rw [hr] at this
        exact hseen r (by simpa using this)
      have i1 := repr_add i p r (hPne p (by simp)) hterm hr hk
      rw [← handlerUpdate_add c hterm hr] at i1
      have i2 := ih seen i1 hRpw hRne ht (by
        intro p' hp' x hx
        rcases List.mem_cons.mp hx with hx | hx
        · subst hx; exact hp p' hp'
        · exact hPne p' (List.mem_cons_of_mem _ hp') x hx)
        (fun p' hp' => hal p' (List.mem_cons_of_mem _ hp')) hord.2 hseen
      simpa [deliver] using i2

/-- **cache_rebuilt_eq_live_interleaved** — `cache_rebuilt_eq_live` for ANY interleaving `l` of the add
events of the surviving Reservations and the surviving pod assignments that satisfies the order
hypothesis `resvFirst l` (every Reservation delivered before the pods assigned to it).
Without `resvFirst` the statement is false: Props/C19.lean `rsv_early_pod_lost_counterexample`. -/
theorem cache_rebuilt_eq_live_interleaved (h : List Ev) (wf : wfHist h = true) (l : List Dlv)
    (hR : (resvsOf l).Perm (survivors h).1) (hP : (podsOf l).Perm (survivors h).2)
    (ord : resvFirst l = true) : CacheEq (live h) (rebuildSeq l) := by
  have i₁ := repr_live h wf
  have dl := survivors_deliverable h wf hR hP
  have i₂ := deliverSeq_repr l (c := {}) (s := {}) [] repr_empty dl.resvPw (by intro o _ x hx; cases hx)
    dl.podsPw (by intro p _ x hx; cases hx)
    (fun p hp => by obtain ⟨ht, r, hr, _⟩ := dl.alive p hp; exact ⟨ht, r, hr⟩) ord (by intro r hr; cases hr)
  refine repr_cacheEq i₁ i₂ ?_ ?_
  · intro o
    simp only [List.append_nil, List.mem_reverse]
    exact hR.mem_iff.symm
  · intro p hp
    simp only [List.append_nil, List.mem_reverse]
    rw [hP.mem_iff]
    simp [survivors, hp]


/-! ### the list model of the ReservationInfo map never holds two entries for one UID
(so `Cache.get` observes every entry and `CacheEq` is about the whole map) -/

def NodupRids (c : Cache) : Prop := (c.infos.map (·.rid)).Nodup

theorem put_nodupRids {c : Cache} (ri : Info) (h : NodupRids c) : NodupRids (c.put ri) := by
  unfold NodupRids Cache.put at *
  split
  · have : (c.infos.map (fun i => if i.rid == ri.rid then ri else i)).map (·.rid) = c.infos.map (·.rid) := by
      rw [List.map_map]
      apply List.map_congr_left
      intro i _
      by_cases e : i.rid = ri.rid <;> simp [e]
    simp only [this]; exact h
  · rename_i hn
    simp only [List.map_cons]
    refine List.nodup_cons.mpr ⟨?_, h⟩
    intro hin
    obtain ⟨x, hx, hxr⟩ := List.mem_map.mp hin
    have hnone : c.get ri.rid = none := by simpa using hn
    have := List.find?_eq_none.mp hnone x hx
    simp [hxr] at this

theorem updCore_nodupRids {c : Cache} (ri : Info) (node rid : Nat) (h : NodupRids c) :
    NodupRids (updCore c ri node rid) := by
  have : (updCore c ri node rid).infos = (c.put ri).infos := by unfold updCore; simp only; split <;> rfl
  unfold NodupRids; rw [this]; exact put_nodupRids ri h

theorem updateReservation_nodupRids {c : Cache} (rid node : Nat) (once : Bool) (decl : Req) (h : NodupRids c) :
    NodupRids (c.updateReservation rid node once decl) := by
  cases hg : c.get rid with
  | none => rw [updateReservation_none _ _ _ hg]; exact updCore_nodupRids _ _ _ h
  | some ri => rw [updateReservation_some _ _ _ hg]; exact updCore_nodupRids _ _ _ h

theorem addPod_nodupRids {c : Cache} (r pid : Nat) (q : Req) (h : NodupRids c) :
    NodupRids ((c.addPod r pid q).getD c) := by
  unfold Cache.addPod
  cases hg : c.get r with
  | none => simpa using h
  | some ri =>
    simp only [Option.getD_some]
    have := put_nodupRids (addAssigned ri pid q) h
    split <;> exact this

theorem delPod_nodupRids {c : Cache} (r pid : Nat) (h : NodupRids c) : NodupRids (c.delPod r pid) := by
  unfold Cache.delPod
  cases hg : c.get r with
  | none => simpa using h
  | some ri =>
    simp only
    have := put_nodupRids (removeAssigned ri pid) h
    split <;> exact this

theorem handlerDelete_nodupRids {c : Cache} (p : Pod) (h : NodupRids c) : NodupRids (handlerDelete c p) := by
  unfold handlerDelete
  split
  · exact delPod_nodupRids _ _ h
  · exact h

theorem handlerUpdate_nodupRids {c : Cache} (old : Option Pod) (new : Pod) (h : NodupRids c) :
    NodupRids (handlerUpdate c old new) := by
  rcases old with _ | o
  · cases hterm : new.term <;> cases hr : new.rid <;> simp [handlerUpdate, handlerDelete, hterm, hr] <;>
      first
      | exact h
      | exact addPod_nodupRids _ _ _ h
      | exact delPod_nodupRids _ _ h
  · cases hterm : new.term <;> cases hr : new.rid <;> cases hor : o.rid <;>
      simp [handlerUpdate, handlerDelete, hterm, hr, hor] <;>
      first
      | exact h
      | exact addPod_nodupRids _ _ _ (delPod_nodupRids _ _ h)
      | exact addPod_nodupRids _ _ _ h
      | exact delPod_nodupRids _ _ h

theorem runFrom_nodupRids (h : List Ev) : ∀ {c : Cache} (s : Objs), NodupRids c → NodupRids (runFrom c s h).1 := by
  induction h with
  | nil => intro c s hc; exact hc
  | cons e t ih =>
    intro c s hc
    refine ih _ ?_
    cases e with
    | resv o => exact updateReservation_nodupRids _ _ _ _ hc
    | pod p => exact handlerUpdate_nodupRids _ _ hc
    | del pid =>
      simp only [Cache.step]
      split
      · exact handlerDelete_nodupRids _ hc
      · exact hc

theorem nodupRids_empty : NodupRids {} := by simp [NodupRids]

/-- for every history (no hypothesis) the live map has one entry per Reservation UID. -/
theorem live_nodupRids (h : List Ev) : NodupRids (live h) := runFrom_nodupRids h _ nodupRids_empty

theorem rebuildSeq_nodupRids (l : List Dlv) : NodupRids (rebuildSeq l) := by
  unfold rebuildSeq
  suffices ∀ c, NodupRids c → NodupRids (l.foldl deliver c) from this _ nodupRids_empty
  induction l with
  | nil => intro c hc; exact hc
  | cons e t ih =>
    intro c hc
    refine ih _ ?_
    cases e with
    | resv o => exact updateReservation_nodupRids _ _ _ _ hc
    | pod p => exact handlerUpdate_nodupRids _ _ hc

theorem rebuild_eq_rebuildSeq (R : List RObj) (P : List Pod) :
    rebuild R P = rebuildSeq (R.map Dlv.resv ++ P.map Dlv.pod) := by
  simp [rebuild, rebuildSeq, List.foldl_append, List.foldl_map, deliver]

theorem rebuild_nodupRids (R : List RObj) (P : List Pod) : NodupRids (rebuild R P) := by
  rw [rebuild_eq_rebuildSeq]; exact rebuildSeq_nodupRids _

/-! ### the scheduler's own assume (plugin.go Reserve → cache.assumePods) -/

theorem OptInfoEq.refl (a : Option Info) : OptInfoEq a a := by
  cases a with
  | none => trivial
  | some i => exact ⟨rfl, rfl, rfl, rfl, fun _ => rfl, List.Perm.refl _⟩

/-- In a history the cache effect of an assignment happens at the event `.pod p` whose stored old version
is unannotated (the informer's "bound" event): `handlerUpdate c (some unannotated) p = addPod`.  The real
scheduler performs exactly this `addPod` earlier, in Reserve (assumePods), and then receives the bound
event; that event is then a no-op on the whole cache (AddAssignedPod's guard), so histories with
Reserve + bound event and histories with the bound event alone reach `CacheEq` caches. -/
theorem assume_then_bound_noop (c c' : Cache) (p : Pod) (r : Nat) (ht : p.term = false) (hr : p.rid = some r)
    (hc' : c.addPod r p.pid p.q = some c') :
    handlerUpdate c (some { p with rid := none }) p = c' ∧
    CacheEq (handlerUpdate c' (some { p with rid := none }) p) c' := by
  have e1 : ∀ c0 : Cache, handlerUpdate c0 (some { p with rid := none }) p = (c0.addPod r p.pid p.q).getD c0 := by
    intro c0; simp [handlerUpdate, ht, hr]
  refine ⟨by rw [e1, hc']; rfl, ?_⟩
  rw [e1]
  cases hg : c.get r with
  | none => rw [addPod_none _ _ hg] at hc'; cases hc'
  | some ri =>
    obtain ⟨c1, h1, sg1, sn1, sa1⟩ := addPod_spec p.pid p.q hg
    rw [hc'] at h1; cases h1
    have hg' : c'.get r = some (addAssigned ri p.pid p.q) := by rw [sg1]; simp
    obtain ⟨c2, h2, sg2, sn2, sa2⟩ := addPod_spec p.pid p.q hg'
    rw [h2]; simp only [Option.getD_some]
    have hdup := dup_add_noop ri p.pid p.q p.q
    refine ⟨fun r' => ?_, fun x => ?_, fun x => ?_⟩
    · rw [sg2, hdup]
      by_cases e : r = r'
      · subst e; rw [if_pos rfl, hg']; exact OptInfoEq.refl _
      · rw [if_neg e]; exact OptInfoEq.refl _
    · rw [sn2]
    · rw [sa2, hdup]
      simp only [addAssigned_node, addAssigned_once]
      have := sa1 x
      grind

/-! ### the hypotheses are satisfiable on a non-trivial history; each clause of `wfHist` is needed -/

deriving instance DecidableEq for RObj
deriving instance DecidableEq for Pod

def exR1 : RObj := { rid := 1, node := 1, once := false, decl := [8000, 64, -1] }
def exR2 : RObj := { rid := 2, node := 2, once := true, decl := [4000, -1, 8] }
def mkPod (pid : Nat) (rid : Option Nat) (q : Req) (term : Bool := false) : Pod := { pid, rid, q, term }

/-- 2 reservations on 2 nodes, 4 pods: pod 1 assigned to r1 and later re-assigned to r2; pod 2 created
unannotated, bound to r1, updated with the same assignment, finally deleted; pod 3 on the allocate-once
r2, terminated and deleted; a Reservation update in between; pod 4 assigned to r1 and surviving. -/
def exHistC : List Ev :=
  [.resv exR1, .pod (mkPod 1 (some 1) [1000, 5, 1]), .resv exR2, .pod (mkPod 2 none [500, 1, 1]),
   .pod (mkPod 2 (some 1) [500, 1, 1]), .pod (mkPod 3 (some 2) [250, 7, 2]), .resv exR1,
   .pod (mkPod 2 (some 1) [500, 1, 1]), .pod (mkPod 3 (some 2) [250, 7, 2] true), .del 3,
   .pod (mkPod 1 (some 2) [1000, 5, 1]), .pod (mkPod 4 (some 1) [100, 0, 3]), .del 2]

example : wfHist exHistC = true := by decide

example : survivors exHistC = ([exR1, exR2], [mkPod 4 (some 1) [100, 0, 3], mkPod 1 (some 2) [1000, 5, 1]]) := by
  decide

example : resvFirst [.resv exR2, .pod (mkPod 1 (some 2) [1000, 5, 1]), .resv exR1, .pod (mkPod 4 (some 1) [100, 0, 3])]
    = true := by decide

-- the live cache and the rebuilt cache of the example, observed: Allocated per reservation and the indexes
example : ((live exHistC).get 1).map (fun i => ((List.range 3).map i.allocated, keys i)) = some ([100, 0, 0], [4]) ∧
    ((live exHistC).get 2).map (fun i => ((List.range 3).map i.allocated, keys i)) = some ([1000, 0, 1], [1]) ∧
    (live exHistC).allocOn = [(1, 1)] ∧ (live exHistC).onNode = [(2, 2), (1, 1)] := by decide

example : ((rebuild [exR2, exR1] [mkPod 1 (some 2) [1000, 5, 1], mkPod 4 (some 1) [100, 0, 3]]).get 1).map
      (fun i => ((List.range 3).map i.allocated, keys i)) = some ([100, 0, 0], [4]) ∧
    ((rebuild [exR2, exR1] [mkPod 1 (some 2) [1000, 5, 1], mkPod 4 (some 1) [100, 0, 3]]).get 2).map
      (fun i => ((List.range 3).map i.allocated, keys i)) = some ([1000, 0, 1], [1]) ∧
    (rebuild [exR2, exR1] [mkPod 1 (some 2) [1000, 5, 1], mkPod 4 (some 1) [100, 0, 3]]).allocOn = [(1, 1)] := by
  decide

/-- clause 1 of `okEv` is needed (model limitation, `updateInfo` is "same spec"): a Reservation update
that changes the node leaves the live ReservationInfo / reservationsOnNode with the first node. -/
theorem cache_rebuilt_eq_live_needs_same_spec_counterexample :
    let h : List Ev := [.resv exR1, .resv { exR1 with node := 2 }]
    wfHist h = false ∧ ¬ CacheEq (live h) (rebuild (survivors h).1 (survivors h).2) := by
  refine ⟨by decide, fun e => ?_⟩
  have := e.onNode (1, 1)
  revert this; decide

/-- clause 2 of `okEv` is needed: a pod annotated with a Reservation the LIVE cache has not seen yet is
dropped by the live cache as well (the live face of C19:rsv-early-pod-lost); the rebuild, which delivers
Reservations first, accounts it. -/
theorem cache_rebuilt_eq_live_needs_known_resv_counterexample :
    let h : List Ev := [.pod (mkPod 1 (some 1) [1000, 5, 1]), .resv exR1]
    wfHist h = false ∧ ¬ CacheEq (live h) (rebuild (survivors h).1 (survivors h).2) := by
  refine ⟨by decide, fun e => ?_⟩
  have := e.allocOn (1, 1)
  revert this; decide

/-- clause 3 of `okEv` is needed: updatePod handles a terminated pod by deletePod(newPod), i.e. by the NEW
annotation; a terminating update that also changes the annotation leaves the pod accounted in the old
reservation of the live cache although no surviving object justifies it. -/
theorem cache_rebuilt_eq_live_needs_term_same_annotation_counterexample :
    let h : List Ev := [.resv exR1, .resv exR2, .pod (mkPod 1 (some 1) [1000, 5, 1]),
      .pod (mkPod 1 (some 2) [1000, 5, 1] true)]
    wfHist h = false ∧ ¬ CacheEq (live h) (rebuild (survivors h).1 (survivors h).2) := by
  refine ⟨by decide, fun e => ?_⟩
  have := e.allocOn (1, 1)
  revert this; decide

end KoordVerif.C19.Rsv
