import KoordVerif.Props.C09
/- development file (moved into Props/C09.lean once it builds) -/
namespace KoordVerif.C09

/-! ### histories of threaded reconciles: the statement-level corollaries -/

/-- the `Round` a threaded round amounts to. -/
def RoundNR.once (F : FloatOps) (r : RoundNR) : Round :=
  { thr := r.thr, interval := r.interval, now := r.now, computed := (prepareAll F r.nr).1 }

/-- after EVERY round of ANY history of threaded reconciles (each preparing 1–3 times): the node carries the amounts of
    ONE prepare of that round's NodeResource, or amounts within the round's threshold of them written at most
    `interval` seconds before. -/
theorem histNR_close_after_every_round (F : FloatOps) (D : DiffOps) (hD : DiffOK D) (st : NState) (pre : List RoundNR) (r : RoundNR) :
    let st' := runHistNR F D st (pre ++ [r])
    st'.r.pub = (prepareAll F r.nr).1 ∨
      (ClosePub r.thr st'.r.pub (prepareAll F r.nr).1 ∧ ∃ t, st'.r.lastSync = some t ∧ r.now - t ≤ r.interval) := by
  have h := hist_close_after_every_round D hD st.r (pre.map (RoundNR.once F)) (r.once F)
  simp only [runHistNR_eq_runHist, List.map_append, List.map_cons, List.map_nil]
  exact h

/-- the node never carries an amount that is not the ONCE-prepared amount of some round (no r², no accumulation across
    the prepares of a round or across rounds). -/
theorem histNR_pub_from_rounds (F : FloatOps) (D : DiffOps) (st : NState) (rs : List RoundNR) :
    (runHistNR F D st rs).r.pub = st.r.pub ∨ ∃ r ∈ rs, (runHistNR F D st rs).r.pub = (prepareAll F r.nr).1 := by
  rw [runHistNR_eq_runHist]
  rcases hist_pub_from_rounds D st.r (rs.map (fun r => ({ thr := r.thr, interval := r.interval, now := r.now, computed := (prepareAll F r.nr).1 } : Round))) with h | ⟨r', hr', h⟩
  · left; exact h
  · right
    obtain ⟨r, hr, rfl⟩ := List.mem_map.mp hr'
    exact ⟨r, hr, h⟩

/-- a round whose NodeResource is all Reset / nil (stale or missing NodeMetric, disabled config) withdraws everything,
    whatever the ratio annotation says and however often it prepares. -/
theorem histNR_degrade (F : FloatOps) (D : DiffOps) (st : NState) (pre : List RoundNR) (r : RoundNR)
    (h : (prepareAll F r.nr).1 = Pub.empty) :
    (runHistNR F D st (pre ++ [r])).r.pub = Pub.empty := by
  have := hist_degrade D st.r (pre.map (RoundNR.once F)) (r.once F) h
  simp only [runHistNR_eq_runHist, List.map_append, List.map_cons, List.map_nil]
  exact this

end KoordVerif.C09
