import KoordVerif.Proofs.C04ExtGroup
/-
C04 — which match policy and which mode are in force for a gang: the glue of tryInitByPodConfig / tryInitByPodGroup
around apis/extension GetGangMatchPolicy and CoschedulingArgs.DefaultMatchPolicy brought into the model
(`getMatchPolicy`, `resolvePolicy`, `normStrict`, `State.dflt`), and the invariants over ALL histories:
  * the configured default never changes and every initialised gang's policy is a legal declared one or the
    configured default;
  * in a history in which no object declares a legal policy every initialised gang has the CONFIGURED default.
-/
namespace KoordVerif.C04

/-! ### the pure resolution functions -/

theorem resolvePolicy_legal (d t : Nat) (h : t ≤ 2) : resolvePolicy d t = t := by
  unfold resolvePolicy polEmpty
  have h3 : (t == 3) = false := by simp; omega
  have h5 : (t == 5) = false := by simp; omega
  simp [h3, h5, h]

theorem resolvePolicy_not_legal (d t : Nat) (h : 2 < t) : resolvePolicy d t = d := by
  unfold resolvePolicy
  by_cases he : polEmpty t = true
  · simp [he]
  · have he' : polEmpty t = false := by simpa using he
    simp only [he', Bool.false_eq_true, if_false]
    have : ¬ t ≤ 2 := by omega
    simp [this]

theorem resolvePolicy_dom (d t : Nat) : resolvePolicy d t ≤ 2 ∨ resolvePolicy d t = d := by
  by_cases h : t ≤ 2
  · left; rw [resolvePolicy_legal d t h]; exact h
  · right; exact resolvePolicy_not_legal d t (by omega)

theorem polEmpty_iff (t : Nat) : polEmpty t = true ↔ t = 3 ∨ t = 5 := by
  unfold polEmpty
  simp

theorem normStrict_iff (m : Nat) : normStrict m = false ↔ m = 0 := by
  unfold normStrict
  by_cases h0 : m = 0
  · subst h0; simp
  · by_cases h1 : m = 1
    · subst h1; simp
    · by_cases h2 : m = 2
      · subst h2; simp
      · by_cases h4 : m = 4
        · subst h4; simp
        · simp [h0, h1, h2, h4]

/-! ### the configuration is fixed at construction -/

theorem ensureGang_dflt (s : State) (id : GangId) : (ensureGang s id).dflt = s.dflt := by
  unfold ensureGang
  split <;> rfl

theorem ensureInfo_dflt (s : State) (key : List GangId) : (ensureInfo s key).1.dflt = s.dflt := by
  unfold ensureInfo
  split <;> rfl

theorem attachInfo_dflt (s : State) (id : GangId) : (attachInfo s id).dflt = s.dflt := by
  unfold attachInfo
  split
  · rfl
  · simp only
    exact ensureInfo_dflt s _

theorem satGang_dflt (s : State) (id : GangId) : (satGang s id).dflt = s.dflt := by
  unfold satGang
  split <;> rfl

theorem removeGang_dflt (s : State) (g : Gang) : (removeGang s g).dflt = s.dflt := rfl

theorem pgApply_dflt (s : State) (id : GangId) (c : Cfg) : (pgApply s id c).dflt = s.dflt := by
  unfold pgApply
  rw [attachInfo_dflt]

theorem podEvt_dflt (s : State) (p : Pod) (id : GangId) (n : Bool) (anno : Option (Bool × Cfg)) :
    (podEvt s p id n anno).dflt = s.dflt := by
  unfold podEvt
  cases anno with
  | none =>
    simp only
    split
    · rw [satGang_dflt]; exact ensureGang_dflt s id
    · exact ensureGang_dflt s id
  | some a =>
    obtain ⟨minOK, c⟩ := a
    simp only
    split
    · rw [satGang_dflt]
      simp only
      rw [attachInfo_dflt]
      exact ensureGang_dflt s id
    · simp only
      rw [attachInfo_dflt]
      exact ensureGang_dflt s id

theorem rejectGroup_dflt (s : State) (id : GangId) : (rejectGroup s id).1.dflt = s.dflt := by
  unfold rejectGroup
  split <;> rfl

theorem step_dflt (s : State) (op : Op) : (step s op).1.dflt = s.dflt := by
  cases op with
  | pgAdd g c =>
    simp only [step, pgAdd]
    rw [pgApply_dflt, ensureGang_dflt]
  | pgUpd g c =>
    simp only [step]
    unfold pgUpd
    split
    · rfl
    · exact pgApply_dflt s g c
  | pgDel g =>
    simp only [step]
    unfold pgDel
    split <;> rfl
  | podEvt p g n a => exact podEvt_dflt s p g n a
  | podDel p g =>
    simp only [step]
    unfold podDel
    split
    · rfl
    · simp only
      split <;> rfl
  | permit p g =>
    simp only [step]
    unfold permit
    split
    · rfl
    · simp only
      split <;> rfl
  | unreserve p g =>
    simp only [step]
    unfold unreserve
    simp only
    split
    · rfl
    · split
      · simp only
        rw [rejectGroup_dflt]
        rfl
      · rfl
  | postBind p g =>
    simp only [step]
    unfold postBind
    simp only
    split
    · rfl
    · rw [satGang_dflt]
      rfl
  | postFilter p g =>
    simp only [step]
    unfold postFilter
    split
    · rfl
    · split
      · rfl
      · split
        · simp only
          rw [rejectGroup_dflt]
        · rfl
  | nop => rfl

theorem run_dflt (s : State) (ops : List Op) : (run s ops).dflt = s.dflt := by
  induction ops generalizing s with
  | nil => rfl
  | cons o os ih =>
    show (run (step s o).1 os).dflt = s.dflt
    rw [ih, step_dflt]

/-! ### what the policies of the cached gangs can be -/

/-- the configurations (PodGroup objects, annotated pods) an entry-point call carries -/
def Op.cfgs : Op → List Cfg
  | .pgAdd _ c => [c]
  | .pgUpd _ c => [c]
  | .podEvt _ _ _ (some (_, c)) => [c]
  | _ => []

/-- an initialised gang's policy satisfies `Q` -/
def PolQ (Q : Nat → Prop) (g : Gang) : Prop := g.init = true → Q g.policy

theorem polQ_updGang_keep {Q : Nat → Prop} {gs : List Gang} {id : GangId} {f : Gang → Gang}
    (h : AllGang (PolQ Q) gs) (hf : ∀ g, (f g).init = g.init ∧ (f g).policy = g.policy) :
    AllGang (PolQ Q) (updGang gs id f) :=
  allGang_updGang h (fun g hg => by
    unfold PolQ
    rw [(hf g).1, (hf g).2]
    exact h g hg)

theorem polQ_ensureGang {Q : Nat → Prop} (s : State) (id : GangId) (h : AllGang (PolQ Q) s.gangs) :
    AllGang (PolQ Q) (ensureGang s id).gangs := by
  unfold ensureGang
  split
  · exact h
  · intro g hg
    simp only [List.mem_append, List.mem_singleton] at hg
    rcases hg with hg | rfl
    · exact h g hg
    · intro hi
      simp [newGang] at hi

theorem polQ_attachInfo {Q : Nat → Prop} (s : State) (id : GangId) (h : AllGang (PolQ Q) s.gangs) :
    AllGang (PolQ Q) (attachInfo s id).gangs := by
  unfold attachInfo
  split
  · exact h
  · simp only
    rw [ensureInfo_gangs]
    exact polQ_updGang_keep h (fun _ => ⟨rfl, rfl⟩)

theorem polQ_removeGang {Q : Nat → Prop} (s : State) (g : Gang) (h : AllGang (PolQ Q) s.gangs) :
    AllGang (PolQ Q) (removeGang s g).gangs := by
  unfold removeGang
  intro x hx
  exact h x (List.mem_filter.mp hx).1

theorem applyCfg_polQ {Q : Nat → Prop} (d : Nat) (g : Gang) (c : Cfg) (b : Bool)
    (hc : Q (resolvePolicy d (getMatchPolicy c.policy c.palias))) : PolQ Q (applyCfg d g c b) := by
  intro _
  exact hc

theorem polQ_pgApply {Q : Nat → Prop} (s : State) (id : GangId) (c : Cfg)
    (hc : Q (resolvePolicy s.dflt (getMatchPolicy c.policy c.palias))) (h : AllGang (PolQ Q) s.gangs) :
    AllGang (PolQ Q) (pgApply s id c).gangs := by
  unfold pgApply
  apply polQ_attachInfo
  exact allGang_updGang h (fun g _ => applyCfg_polQ s.dflt g c false hc)

theorem polQ_podEvt {Q : Nat → Prop} (s : State) (p : Pod) (id : GangId) (n : Bool) (anno : Option (Bool × Cfg))
    (hc : ∀ c ∈ Op.cfgs (.podEvt p id n anno), Q (resolvePolicy s.dflt (getMatchPolicy c.policy c.palias)))
    (h : AllGang (PolQ Q) s.gangs) : AllGang (PolQ Q) (podEvt s p id n anno).gangs := by
  have h0 := polQ_ensureGang s id h
  have h1 : AllGang (PolQ Q)
      (match anno with
        | none => ensureGang s id
        | some (minOK, c) =>
          attachInfo { ensureGang s id with gangs := updGang (ensureGang s id).gangs id (fun g =>
            if g.init = false ∧ minOK = true then applyCfg s.dflt g c true else g) } id).gangs := by
    cases anno with
    | none => exact h0
    | some a =>
      obtain ⟨minOK, c⟩ := a
      apply polQ_attachInfo
      apply allGang_updGang h0
      intro g hg
      split
      · exact applyCfg_polQ s.dflt g c true (hc c (by simp [Op.cfgs]))
      · exact h0 g hg
  unfold podEvt
  simp only
  cases n with
  | false =>
    simp only [Bool.false_eq_true, if_false]
    exact polQ_updGang_keep h1 (fun _ => ⟨rfl, rfl⟩)
  | true =>
    simp only [if_true]
    rw [satGang_gangs]
    simp only
    exact polQ_updGang_keep (polQ_updGang_keep h1 (fun _ => ⟨rfl, rfl⟩)) (fun _ => ⟨rfl, rfl⟩)

theorem polQ_step {Q : Nat → Prop} (s : State) (op : Op)
    (hc : ∀ c ∈ op.cfgs, Q (resolvePolicy s.dflt (getMatchPolicy c.policy c.palias)))
    (h : AllGang (PolQ Q) s.gangs) : AllGang (PolQ Q) (step s op).1.gangs := by
  cases op with
  | pgAdd g c =>
    have hq : Q (resolvePolicy (ensureGang s g).dflt (getMatchPolicy c.policy c.palias)) := by
      rw [ensureGang_dflt]; exact hc c (by simp [Op.cfgs])
    exact polQ_pgApply _ g c hq (polQ_ensureGang s g h)
  | pgUpd g c =>
    simp only [step]
    unfold pgUpd
    split
    · exact h
    · exact polQ_pgApply s g c (hc c (by simp [Op.cfgs])) h
  | pgDel g =>
    simp only [step]
    unfold pgDel
    split
    · exact h
    · exact polQ_removeGang s _ h
  | podEvt p g n a => exact polQ_podEvt s p g n a hc h
  | podDel p g =>
    simp only [step]
    unfold podDel
    split
    · exact h
    · simp only
      have h1 : AllGang (PolQ Q) (updGang s.gangs g (fun x => x.deletePod p)) :=
        polQ_updGang_keep h (fun _ => ⟨rfl, rfl⟩)
      split
      · exact polQ_removeGang _ _ h1
      · exact h1
  | permit p g =>
    simp only [step]
    unfold permit
    split
    · exact h
    · simp only
      have h1 : AllGang (PolQ Q) (updGang s.gangs g (fun x => x.addAssumed p)) :=
        polQ_updGang_keep h (fun _ => ⟨rfl, rfl⟩)
      split
      · exact h1
      · exact h1
  | unreserve p g =>
    simp only [step]
    unfold unreserve
    simp only
    split
    · exact h
    · have h1 : AllGang (PolQ Q) (updGang (fwRemove s p).gangs g (fun x => x.delAssumed p)) :=
        polQ_updGang_keep h (fun _ => ⟨rfl, rfl⟩)
      split
      · simp only
        rw [rejectGroup_gangs]
        exact h1
      · exact h1
  | postBind p g =>
    simp only [step]
    unfold postBind
    simp only
    split
    · exact h
    · rw [satGang_gangs]
      exact polQ_updGang_keep h (fun _ => ⟨rfl, rfl⟩)
  | postFilter p g =>
    simp only [step]
    rw [postFilter_gangs]
    exact h
  | nop => exact h

theorem polQ_run {Q : Nat → Prop} (s : State) (ops : List Op)
    (hc : ∀ op ∈ ops, ∀ c ∈ op.cfgs, Q (resolvePolicy s.dflt (getMatchPolicy c.policy c.palias)))
    (h : AllGang (PolQ Q) s.gangs) : AllGang (PolQ Q) (run s ops).gangs := by
  induction ops generalizing s with
  | nil => exact h
  | cons o os ih =>
    show AllGang (PolQ Q) (run (step s o).1 os).gangs
    apply ih
    · intro op hop c hcc
      rw [step_dflt]
      exact hc op (List.mem_cons_of_mem _ hop) c hcc
    · exact polQ_step s o (hc o (List.mem_cons_self ..)) h

/-- no object of the history declares a legal match policy (annotation and alias absent, empty or illegal) -/
def Undeclared (ops : List Op) : Prop := ∀ op ∈ ops, ∀ c ∈ op.cfgs, 2 < getMatchPolicy c.policy c.palias

theorem initWith_gangs (d : Nat) : (initWith d).gangs = [] := rfl
theorem initWith_dflt (d : Nat) : (initWith d).dflt = d := rfl

end KoordVerif.C04
