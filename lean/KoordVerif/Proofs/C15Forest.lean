import KoordVerif.Proofs.C15Inv
/- C15: the structural invariant (forest hanging off the root + children map) and its preservation. -/
namespace KoordVerif.C15

def RankedBy (r : Nat → Nat) (info : List QI) : Prop := r 0 = 0 ∧ ∀ q ∈ info, r q.parent < r q.name
/-- acyclic and rooted: a rank that strictly decreases along every parent link, 0 at the root. -/
def Ranked (info : List QI) : Prop := ∃ r, RankedBy r info

structure Forest (s : Topo) : Prop where
  nodup    : (s.info.map (·.name)).Nodup
  nonzero  : ∀ q ∈ s.info, q.name ≠ 0
  parentOK : ∀ q ∈ s.info, q.parent = 0 ∨ ∃ p ∈ s.info, p.name = q.parent ∧ p.isParent = true
  ranked   : Ranked s.info
  kidsOK   : ∀ p c, (p, c) ∈ s.kids ↔ ∃ q ∈ s.info, q.name = c ∧ q.parent = p

theorem mem_replace {info : List QI} {q c : QI} (h : c ∈ replace info q) :
    (c = q ∧ ∃ o ∈ info, o.name = q.name) ∨ (c ∈ info ∧ c.name ≠ q.name) := by
  unfold replace at h
  obtain ⟨o, ho, rfl⟩ := List.mem_map.mp h
  by_cases hn : o.name = q.name
  · left; simp [hn]; exact ⟨o, ho, hn⟩
  · right; simp [hn]; exact ho

theorem mem_replace_of_ne {info : List QI} {q c : QI} (h : c ∈ info) (hn : c.name ≠ q.name) : c ∈ replace info q := by
  unfold replace
  exact List.mem_map.mpr ⟨c, h, by simp [hn]⟩

theorem mem_replace_self {info : List QI} {q o : QI} (h : o ∈ info) (hn : o.name = q.name) : q ∈ replace info q := by
  unfold replace
  exact List.mem_map.mpr ⟨o, h, by simp [hn]⟩

theorem replace_names (info : List QI) (q : QI) : (replace info q).map (·.name) = info.map (·.name) := by
  unfold replace
  rw [List.map_map]
  apply List.map_congr_left
  intro c _
  by_cases hn : c.name = q.name <;> simp [hn]

theorem parentInfoOK_true {s : Topo} {name parent : Nat} (hp : parent ≠ 0) (h : parentInfoOK s name parent = true) :
    ∃ p, find s.info parent = some p ∧ p.isParent = true ∧ hitsUp s.info name (s.info.length + 1) parent = false := by
  unfold parentInfoOK at h
  simp only [hp, if_false] at h
  cases hf : find s.info parent with
  | none => simp [hf] at h
  | some p => simp [hf] at h; exact ⟨p, rfl, h.1.2, h.2⟩

theorem hasKids_false {s : Topo} {n : Nat} (h : hasKids s n = false) : ∀ c, (n, c) ∉ s.kids := by
  intro c hc
  unfold hasKids at h
  have := List.any_eq_false.mp h (n, c) hc
  simp at this

/-! ### acyclicity -/

theorem ranked_add {info : List QI} {q : QI} (hr : Ranked info) (hq0 : q.name ≠ 0)
    (hfresh : ∀ c ∈ info, c.name ≠ q.name) (hpar : ∀ c ∈ info, c.parent ≠ q.name) (hself : q.parent ≠ q.name) :
    Ranked (q :: info) := by
  obtain ⟨r, r0, hr⟩ := hr
  refine ⟨fun n => if n = q.name then r q.parent + 1 else r n, ?_, ?_⟩
  · simp [Ne.symm hq0, r0]
  · intro c hc
    simp only [List.mem_cons] at hc
    rcases hc with rfl | hc
    · simp [hself]
    · simp [hfresh c hc, hpar c hc]; exact hr c hc

theorem ranked_sub {info info' : List QI} (hr : Ranked info) (hs : ∀ c ∈ info', c ∈ info) : Ranked info' := by
  obtain ⟨r, r0, hr⟩ := hr
  exact ⟨r, r0, fun c hc => hr c (hs c hc)⟩

/-- re-parenting `q.name` under a node from which the upward walk does not meet `q.name` keeps the
    tree ranked (DESIGN Appendix A.7): shift the ranks of the moved subtree above the new parent. -/
theorem ranked_replace {info : List QI} {q o : QI} (hu : Uniq info) (hnz : ∀ c ∈ info, c.name ≠ 0)
    (hr : Ranked info) (ho : o ∈ info) (hon : o.name = q.name)
    (hp : q.parent = 0 ∨ hitsUp info q.name (info.length + 1) q.parent = false) : Ranked (replace info q) := by
  obtain ⟨r, r0, hr⟩ := hr
  have hx0 : q.name ≠ 0 := hon ▸ hnz o ho
  rcases hp with hp | hp
  · refine ⟨r, r0, ?_⟩
    intro c hc
    rcases mem_replace hc with ⟨rfl, _⟩ | ⟨hc, _⟩
    · have := hr o ho; rw [hp, r0]; rw [hon] at this; omega
    · exact hr c hc
  · have hnot : ¬ Anc info q.name q.parent := by
      intro ha
      have := (hitsUp_iff_anc r hx0 hnz hr (info.length + 1) q.parent [] (by simp) (by simp) (by simp) (by simp)).mpr ha
      rw [hp] at this; cases this
    have hnot0 : ∀ z, z = 0 → ¬ Anc info q.name z := by
      intro z hz ha
      cases ha with
      | self => exact hx0 hz
      | up hf _ => exact hnz _ (find_some hf).1 ((find_some hf).2.trans hz)
    have hnot0 := hnot0 0 rfl
    refine ⟨fun y => open Classical in if Anc info q.name y then r y + r q.parent + 1 else r y, ?_, ?_⟩
    · simp [hnot0, r0]
    · intro c hc
      rcases mem_replace hc with ⟨rfl, _⟩ | ⟨hc, hcn⟩
      · simp [hnot, Anc.self]; omega
      · have hf := find_mem hu hc
        have hiff := Anc.step_iff hcn hf
        have hlt := hr c hc
        by_cases ha : Anc info q.name c.name
        · have ha' := hiff.mp ha
          simp [ha, ha']; omega
        · have ha' : ¬ Anc info q.name c.parent := fun h => ha (hiff.mpr h)
          simp [ha, ha']; exact hlt

end KoordVerif.C15
