import KoordVerif.Proofs.C15Inv
/- C15: the structural invariant (forest hanging off the root + children map) and its preservation. -/
namespace KoordVerif.C15

def RankedBy (r : Nat → Nat) (info : List QI) : Prop := r 0 = 0 ∧ ∀ q ∈ info, r q.parent < r q.name
/-- acyclic and rooted: a rank that strictly decreases along every parent link, 0 at the root. -/
def Ranked (info : List QI) : Prop := ∃ r, RankedBy r info

structure Forest (s : Topo) : Prop where
  nodup    : (s.info.map (·.name)).Nodup
  nonzero  : ∀ q ∈ s.info, q.name ≠ 0
  parentOK : ∀ q ∈ s.info, q.parent = 0 ∨ ∃ p ∈ s.info, p.name = q.parent ∧ p.isParent = true
  ranked   : Ranked s.info
  kidsOK   : ∀ p c, (p, c) ∈ s.kids ↔ ∃ q ∈ s.info, q.name = c ∧ q.parent = p

theorem mem_replace {info : List QI} {q c : QI} (h : c ∈ replace info q) :
    (c = q ∧ ∃ o ∈ info, o.name = q.name) ∨ (c ∈ info ∧ c.name ≠ q.name) := by
  unfold replace at h
  obtain ⟨o, ho, rfl⟩ := List.mem_map.mp h
  by_cases hn : o.name = q.name
  · left; simp [hn]; exact ⟨o, ho, hn⟩
  · right; simp [hn]; exact ho

theorem mem_replace_of_ne {info : List QI} {q c : QI} (h : c ∈ info) (hn : c.name ≠ q.name) : c ∈ replace info q := by
  unfold replace
  exact List.mem_map.mpr ⟨c, h, by simp [hn]⟩

theorem mem_replace_self {info : List QI} {q o : QI} (h : o ∈ info) (hn : o.name = q.name) : q ∈ replace info q := by
  unfold replace
  exact List.mem_map.mpr ⟨o, h, by simp [hn]⟩

theorem replace_names (info : List QI) (q : QI) : (replace info q).map (·.name) = info.map (·.name) := by
  unfold replace
  rw [List.map_map]
  apply List.map_congr_left
  intro c _
  by_cases hn : c.name = q.name <;> simp [hn]

theorem parentInfoOK_true {s : Topo} {name parent : Nat} (hp : parent ≠ 0) (h : parentInfoOK s name parent = true) :
    ∃ p, find s.info parent = some p ∧ p.isParent = true ∧ hitsUp s.info name (s.info.length + 1) parent = false := by
  unfold parentInfoOK at h
  simp only [hp, if_false] at h
  cases hf : find s.info parent with
  | none => simp [hf] at h
  | some p => simp [hf] at h; exact ⟨p, rfl, h.1.2, h.2⟩

theorem hasKids_false {s : Topo} {n : Nat} (h : hasKids s n = false) : ∀ c, (n, c) ∉ s.kids := by
  intro c hc
  unfold hasKids at h
  have := List.any_eq_false.mp h (n, c) hc
  simp at this

/-! ### acyclicity -/

theorem ranked_add {info : List QI} {q : QI} (hr : Ranked info) (hq0 : q.name ≠ 0)
    (hfresh : ∀ c ∈ info, c.name ≠ q.name) (hpar : ∀ c ∈ info, c.parent ≠ q.name) (hself : q.parent ≠ q.name) :
    Ranked (q :: info) := by
  obtain ⟨r, r0, hr⟩ := hr
  refine ⟨fun n => if n = q.name then r q.parent + 1 else r n, ?_, ?_⟩
  · simp [Ne.symm hq0, r0]
  · intro c hc
    simp only [List.mem_cons] at hc
    rcases hc with rfl | hc
    · simp [hself]
    · simp [hfresh c hc, hpar c hc]; exact hr c hc

theorem ranked_sub {info info' : List QI} (hr : Ranked info) (hs : ∀ c ∈ info', c ∈ info) : Ranked info' := by
  obtain ⟨r, r0, hr⟩ := hr
  exact ⟨r, r0, fun c hc => hr c (hs c hc)⟩

/-- re-parenting `q.name` under a node from which the upward walk does not meet `q.name` keeps the
    tree ranked (DESIGN Appendix A.7): shift the ranks of the moved subtree above the new parent. -/
theorem ranked_replace {info : List QI} {q o : QI} (hu : Uniq info) (hnz : ∀ c ∈ info, c.name ≠ 0)
    (hr : Ranked info) (ho : o ∈ info) (hon : o.name = q.name)
    (hp : q.parent = 0 ∨ hitsUp info q.name (info.length + 1) q.parent = false) : Ranked (replace info q) := by
  obtain ⟨r, r0, hr⟩ := hr
  have hx0 : q.name ≠ 0 := hon ▸ hnz o ho
  rcases hp with hp | hp
  · refine ⟨r, r0, ?_⟩
    intro c hc
    rcases mem_replace hc with ⟨rfl, _⟩ | ⟨hc, _⟩
    · have := hr o ho; rw [hp, r0]; rw [hon] at this; omega
    · exact hr c hc
  · have hnot : ¬ Anc info q.name q.parent := by
      intro ha
      have := (hitsUp_iff_anc r hx0 hnz hr (info.length + 1) q.parent [] (by simp) (by simp) (by simp) (by simp)).mpr ha
      rw [hp] at this; cases this
    have hnot0 : ∀ z, z = 0 → ¬ Anc info q.name z := by
      intro z hz ha
      cases ha with
      | self => exact hx0 hz
      | up hf _ => exact hnz _ (find_some hf).1 ((find_some hf).2.trans hz)
    have hnot0 := hnot0 0 rfl
    refine ⟨fun y => open Classical in if Anc info q.name y then r y + r q.parent + 1 else r y, ?_, ?_⟩
    · simp [hnot0, r0]
    · intro c hc
      rcases mem_replace hc with ⟨rfl, _⟩ | ⟨hc, hcn⟩
      · simp [hnot, Anc.self]; omega
      · have hf := find_mem hu hc
        have hiff := Anc.step_iff hcn hf
        have hlt := hr c hc
        by_cases ha : Anc info q.name c.name
        · have ha' := hiff.mp ha
          simp [ha, ha']; omega
        · have ha' : ¬ Anc info q.name c.parent := fun h => ha (hiff.mpr h)
          simp [ha, ha']; exact hlt


/-! ### preservation of the structural invariant -/

theorem forest_init : Forest init := by
  refine ⟨by simp [init], by simp [init], by simp [init], ⟨fun _ => 0, rfl, by simp [init]⟩, by simp [init]⟩

theorem forest_add {d : Nat} {s : Topo} {q : QI} {sw : Bool} (hF : Forest s) (hq0 : q.name ≠ 0)
    (h : (validAdd d s q sw).2 = true) : Forest (validAdd d s q sw).1 := by
  obtain ⟨hfresh, _, _, htopo, hst⟩ := validAdd_true h
  rw [hst]
  have hfresh := find_isSome_false hfresh
  obtain ⟨_, _, hcase⟩ := topoCheck_true hq0 htopo
  -- the new quota's parent: root, or a recorded quota marked is-parent
  have hpar : q.parent = 0 ∨ ∃ p ∈ s.info, p.name = q.parent ∧ p.isParent = true := by
    rcases hcase with ⟨h0, _⟩ | ⟨hpi, _, _⟩
    · exact Or.inl h0
    · by_cases h0 : q.parent = 0
      · exact Or.inl h0
      · obtain ⟨p, hf, hip, _⟩ := parentInfoOK_true h0 hpi
        exact Or.inr ⟨p, (find_some hf).1, (find_some hf).2, hip⟩
  have hself : q.parent ≠ q.name := by
    rcases hpar with h0 | ⟨p, hp, hpn, _⟩
    · rw [h0]; exact Ne.symm hq0
    · intro e; exact hfresh p hp (hpn.trans e)
  -- nobody recorded points at the fresh name
  have hnopar : ∀ c ∈ s.info, c.parent ≠ q.name := by
    intro c hc e
    rcases hF.parentOK c hc with h0 | ⟨p, hp, hpn, _⟩
    · exact hq0 (e ▸ h0)
    · exact hfresh p hp (hpn.trans e)
  refine ⟨?_, ?_, ?_, ?_, ?_⟩
  · simp only [addState, List.map_cons, List.nodup_cons]
    refine ⟨?_, hF.nodup⟩
    intro hm
    obtain ⟨c, hc, hcn⟩ := List.mem_map.mp hm
    exact hfresh c hc hcn
  · intro c hc
    simp only [addState, List.mem_cons] at hc
    rcases hc with rfl | hc
    · exact hq0
    · exact hF.nonzero c hc
  · intro c hc
    simp only [addState, List.mem_cons] at hc ⊢
    rcases hc with rfl | hc
    · rcases hpar with h0 | ⟨p, hp, hpn, hip⟩
      · exact Or.inl h0
      · exact Or.inr ⟨p, Or.inr hp, hpn, hip⟩
    · rcases hF.parentOK c hc with h0 | ⟨p, hp, hpn, hip⟩
      · exact Or.inl h0
      · exact Or.inr ⟨p, Or.inr hp, hpn, hip⟩
  · exact ranked_add hF.ranked hq0 hfresh hnopar hself
  · intro p c
    simp only [addState, List.mem_cons, Prod.mk.injEq]
    constructor
    · rintro (⟨rfl, rfl⟩ | hk)
      · exact ⟨q, Or.inl rfl, rfl, rfl⟩
      · obtain ⟨c', hc', h1, h2⟩ := (hF.kidsOK p c).mp hk
        exact ⟨c', Or.inr hc', h1, h2⟩
    · rintro ⟨c', (rfl | hc'), h1, h2⟩
      · exact Or.inl ⟨h2.symm, h1.symm⟩
      · exact Or.inr ((hF.kidsOK p c).mpr ⟨c', hc', h1, h2⟩)

theorem forest_upd {d : Nat} {s : Topo} {q : QI} {sw hp : Bool} (hF : Forest s)
    (h : (validUpdate d s q sw hp).2 = true) : Forest (validUpdate d s q sw hp).1 := by
  rcases validUpdate_true h with hst | ⟨o, hfo, hq0, _, _, htopo, hst⟩
  · rw [hst]; exact hF
  rw [hst]
  have hu := uniq_of_nodup hF.nodup
  obtain ⟨ho, hon⟩ := find_some hfo
  obtain ⟨hipc, _, hcase⟩ := topoCheck_true hq0 htopo
  -- facts about the requested parent
  have hpar : q.parent = 0 ∨ ∃ p, find s.info q.parent = some p ∧ p.isParent = true ∧
      hitsUp s.info q.name (s.info.length + 1) q.parent = false := by
    rcases hcase with ⟨h0, _⟩ | ⟨hpi, _, _⟩
    · exact Or.inl h0
    · by_cases h0 : q.parent = 0
      · exact Or.inl h0
      · exact Or.inr (parentInfoOK_true h0 hpi)
  have hself : q.parent ≠ q.name := by
    rcases hpar with h0 | ⟨p, _, _, hw⟩
    · rw [h0]; exact Ne.symm hq0
    · intro e
      rw [e] at hw
      unfold hitsUp at hw
      simp [hq0] at hw
  -- a quota that keeps children stays marked is-parent
  have hkeep : ∀ c ∈ s.info, c.parent = q.name → q.isParent = true := by
    intro c hc hcp
    have hk : (q.name, c.name) ∈ s.kids := (hF.kidsOK _ _).mpr ⟨c, hc, rfl, hcp⟩
    have hhk : hasKids s o.name = true := by
      unfold hasKids
      exact List.any_eq_true.mpr ⟨(q.name, c.name), hk, by simp [hon]⟩
    have hoip : o.isParent = true := by
      rcases hF.parentOK c hc with h0 | ⟨p, hp', hpn, hip⟩
      · exact absurd (hcp ▸ h0) hq0
      · have : p = o := hu p hp' o ho (by rw [hpn, hcp, hon])
        exact this ▸ hip
    cases hqi : q.isParent with
    | true => rfl
    | false =>
      unfold isParentChangeOK at hipc
      simp [hoip, hqi, hhk] at hipc
  refine ⟨?_, ?_, ?_, ?_, ?_⟩
  · simp only [updState]; rw [replace_names]; exact hF.nodup
  · intro c hc
    rcases mem_replace hc with ⟨rfl, _⟩ | ⟨hc, _⟩
    · exact hq0
    · exact hF.nonzero c hc
  · -- parents exist and are marked
    intro c hc
    rcases mem_replace hc with ⟨hcq, _⟩ | ⟨hc, hcn⟩
    · subst hcq
      rcases hpar with h0 | ⟨p, hf, hip, _⟩
      · exact Or.inl h0
      · right
        obtain ⟨hp', hpn⟩ := find_some hf
        exact ⟨p, mem_replace_of_ne hp' (by rw [hpn]; exact hself), hpn, hip⟩
    · rcases hF.parentOK c hc with h0 | ⟨p, hp', hpn, hip⟩
      · exact Or.inl h0
      · right
        by_cases hpq : p.name = q.name
        · exact ⟨q, mem_replace_self ho hon, by rw [← hpq, hpn], hkeep c hc (by rw [← hpn, hpq])⟩
        · exact ⟨p, mem_replace_of_ne hp' hpq, hpn, hip⟩
  · exact ranked_replace hu hF.nonzero hF.ranked ho hon (by
      rcases hpar with h0 | ⟨_, _, _, hw⟩
      · exact Or.inl h0
      · exact Or.inr hw)
  · intro p c
    have hbase := hF.kidsOK p c
    simp only [updState]
    by_cases hpp : o.parent = q.parent
    · simp only [hpp, bne_self_eq_false, Bool.false_eq_true, if_false]
      rw [hbase]
      constructor
      · rintro ⟨c', hc', h1, h2⟩
        by_cases hcn : c'.name = q.name
        · have : c' = o := hu c' hc' o ho (hcn.trans hon.symm)
          exact ⟨q, mem_replace_self ho hon, by rw [← h1, hcn], by rw [← h2, this, hpp]⟩
        · exact ⟨c', mem_replace_of_ne hc' hcn, h1, h2⟩
      · rintro ⟨c', hc', h1, h2⟩
        rcases mem_replace hc' with ⟨hcq, _⟩ | ⟨hc'', _⟩
        · subst hcq; exact ⟨o, ho, hon.trans h1, hpp.trans h2⟩
        · exact ⟨c', hc'', h1, h2⟩
    · have hb : (o.parent != q.parent) = true := by simpa using hpp
      simp only [hb, if_true, List.mem_cons, List.mem_filter, Prod.mk.injEq, bne_iff_ne, ne_eq]
      constructor
      · rintro (⟨rfl, rfl⟩ | ⟨hk, hne⟩)
        · exact ⟨q, mem_replace_self ho hon, rfl, rfl⟩
        · obtain ⟨c', hc', h1, h2⟩ := hbase.mp hk
          have hcn : c'.name ≠ q.name := by
            intro e
            have : c' = o := hu c' hc' o ho (e.trans hon.symm)
            apply hne; subst this; exact ⟨h2.symm, h1.symm.trans e⟩
          exact ⟨c', mem_replace_of_ne hc' hcn, h1, h2⟩
      · rintro ⟨c', hc', h1, h2⟩
        rcases mem_replace hc' with ⟨hcq, _⟩ | ⟨hc'', hcn⟩
        · left; subst hcq; exact ⟨h2.symm, h1.symm⟩
        · right; refine ⟨hbase.mpr ⟨c', hc'', h1, h2⟩, ?_⟩
          rintro ⟨_, e⟩; exact hcn (h1.trans e)

theorem forest_del {s : Topo} {name : Nat} {lp : Bool} (hF : Forest s)
    (h : (validDelete s name lp).2 = true) : Forest (validDelete s name lp).1 := by
  obtain ⟨o, hfo, hnk, _, hst⟩ := validDelete_true h
  rw [hst]
  have hu := uniq_of_nodup hF.nodup
  obtain ⟨ho, hon⟩ := find_some hfo
  have hnokid := hasKids_false hnk
  have hnochild : ∀ c ∈ s.info, c.parent ≠ name := by
    intro c hc e
    exact hnokid c.name ((hF.kidsOK _ _).mpr ⟨c, hc, rfl, e⟩)
  have hmem : ∀ c, c ∈ (delState s o name).info ↔ c ∈ s.info ∧ c.name ≠ name := by
    intro c; simp [delState, List.mem_filter]
  refine ⟨?_, ?_, ?_, ?_, ?_⟩
  · simp only [delState]
    exact List.Nodup.sublist ((List.filter_sublist).map _) hF.nodup
  · intro c hc; exact hF.nonzero c ((hmem c).mp hc).1
  · intro c hc
    obtain ⟨hc, hcn⟩ := (hmem c).mp hc
    rcases hF.parentOK c hc with h0 | ⟨p, hp', hpn, hip⟩
    · exact Or.inl h0
    · exact Or.inr ⟨p, (hmem p).mpr ⟨hp', by rw [hpn]; exact hnochild c hc⟩, hpn, hip⟩
  · exact ranked_sub hF.ranked (fun c hc => ((hmem c).mp hc).1)
  · intro p c
    simp only [delState, List.mem_filter, Bool.and_eq_true, bne_iff_ne, ne_eq, Prod.mk.injEq]
    constructor
    · rintro ⟨hk, hne, hpne⟩
      obtain ⟨c', hc', h1, h2⟩ := (hF.kidsOK p c).mp hk
      refine ⟨c', ⟨hc', ?_⟩, h1, h2⟩
      intro e
      have : c' = o := hu c' hc' o ho (e.trans hon.symm)
      apply hne; subst this; exact ⟨h2.symm, h1.symm.trans e⟩
    · rintro ⟨c', ⟨hc', hcn⟩, h1, h2⟩
      refine ⟨(hF.kidsOK p c).mpr ⟨c', hc', h1, h2⟩, ?_, ?_⟩
      · rintro ⟨_, e⟩; exact hcn (h1.trans e)
      · intro e; exact hnochild c' hc' (h2.trans e)

end KoordVerif.C15
