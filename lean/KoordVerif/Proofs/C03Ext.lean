import KoordVerif.Proofs.C03Base
/-
C03 — helper development for the quota-update events that change meta: lookups / parent chains under a
group-wise rewrite, the tree reset (`resetAll`) in closed form and its invariant preservation under C01's
accounting consistency (`TreeConsistent`), `updateQuotaInfoFromRemote`, and re-parenting (`reparent`) under `ReparentOK`.  Property theorems: `Props/C03.lean`.
-/
namespace KoordVerif.C03

/-- "max (min) is not lowered": every dimension declared afterwards was declared before, with no
    greater value. -/
def NotLowered (old new : RL) : Prop := ∀ d m', new d = some m' → ∃ m, old d = some m ∧ m ≤ m'

theorem notLowered_refl (a : RL) : NotLowered a a := fun _ m h => ⟨m, h, Int.le_refl _⟩

/-! ### lookups and parent chains under a group-wise rewrite -/

theorem findQ_map {qs : List Quota} (f : Quota → Quota) (hname : ∀ q, (f q).name = q.name) (n : Nat) :
    findQ (qs.map f) n = (findQ qs n).map f := by
  unfold findQ
  induction qs with
  | nil => rfl
  | cons x xs ih =>
    simp only [List.map_cons, List.find?_cons, hname]
    cases h : (x.name == n)
    · simpa using ih
    · simp

theorem chain_map {qs : List Quota} (f : Quota → Quota) (hname : ∀ q, (f q).name = q.name)
    (hpar : ∀ q, (f q).parent = q.parent) : ∀ fuel n, chain (qs.map f) fuel n = (chain qs fuel n).map f := by
  intro fuel
  induction fuel with
  | zero => intro n; rfl
  | succ k ih =>
    intro n
    unfold chain
    rw [findQ_map f hname]
    cases h : findQ qs n with
    | none => rfl
    | some q =>
      by_cases hr : n = rootName
      · simp [hr]
      · simp [hr, hpar, ih]

theorem pathNames_map (s : State) (f : Quota → Quota) (pods' : List Pod) (hname : ∀ q, (f q).name = q.name)
    (hpar : ∀ q, (f q).parent = q.parent) (n : Nat) :
    pathNames { s with quotas := s.quotas.map f, pods := pods' } n = pathNames s n := by
  unfold pathNames fuelOf
  simp only [List.length_map]
  rw [chain_map f hname hpar, List.map_map]
  apply List.map_congr_left
  intro q _
  exact hname q

/-! ### tree reset (allow-lent / is-parent flip) -/

/-- what the reset re-adds on the group named `gn`: the own amounts of the saved groups whose path passes `gn`. -/
def sumOn (P : Nat → List Nat) (own : Quota → Int) (L : List Quota) (gn : Nat) : Int :=
  ((L.filter fun q => decide (gn ∈ P q.name)).map own).sum

theorem sumOn_cons (P : Nat → List Nat) (own : Quota → Int) (q : Quota) (L : List Quota) (gn : Nat) :
    sumOn P own (q :: L) gn = (if gn ∈ P q.name then own q else 0) + sumOn P own L gn := by
  unfold sumOn
  by_cases h : gn ∈ P q.name <;> simp [List.filter_cons, h]

theorem sumOn_nonneg (P : Nat → List Nat) (own : Quota → Int) (L : List Quota) (gn : Nat)
    (h : ∀ q ∈ L, 0 ≤ own q) : 0 ≤ sumOn P own L gn := by
  induction L with
  | nil => simp [sumOn]
  | cons q L ih =>
    rw [sumOn_cons]
    have h1 := h q List.mem_cons_self
    have h2 := ih (fun x hx => h x (List.mem_cons_of_mem _ hx))
    split <;> omega

/-- the saved groups of a reset. -/
def savedOf (s : State) : List Quota := s.quotas.filter fun q => q.name != rootName

/-- C01's accounting consistency, as far as the reset needs it (decidable; tested by the harness on the
    implementation's own report before every generated reset): the own amounts are non-negative, and what the
    groups of a subtree own does not exceed what the subtree's top shows. -/
structure TreeConsistent (s : State) : Prop where
  ownNN : ∀ q ∈ s.quotas, ∀ d, 0 ≤ (ownUsed q).1 d ∧ 0 ≤ (ownUsed q).2 d
  le : ∀ g ∈ s.quotas, ∀ d, d < s.dims →
        sumOn (pathNames s) (fun q => (ownUsed q).1 d) (savedOf s) g.name ≤ g.used d ∧
        sumOn (pathNames s) (fun q => (ownUsed q).2 d) (savedOf s) g.name ≤ g.npUsed d

/-- what one pass of the re-adding loop does to a group, as a function of the group alone. -/
structure Good (P : Nat → List Nat) (L : List Quota) (F : Quota → Quota) (g : Quota) : Prop where
  name : (F g).name = g.name
  parent : (F g).parent = g.parent
  max : (F g).max = g.max
  min : (F g).min = g.min
  used : (∀ d, 0 ≤ g.used d) → ∀ d, (F g).used d = g.used d + sumOn P (fun q => (ownUsed q).1 d) L g.name
  np : (∀ d, 0 ≤ g.npUsed d) → ∀ d, (F g).npUsed d = g.npUsed d + sumOn P (fun q => (ownUsed q).2 d) L g.name

theorem clamp0_of_nonneg {x : Int} (h : 0 ≤ x) : clamp0 x = x := by
  unfold clamp0; split <;> omega

/-- the loop `for … updateGroupDeltaUsedNoLock(name, saved…, 0)` of `rebuildAllGroupQuotaNoLock`, in closed form. -/
theorem foldl_reAdd (P : Nat → List Nat) : ∀ (L : List Quota) (st : State),
    (∀ n, pathNames st n = P n) → (∀ q ∈ L, ∀ d, 0 ≤ (ownUsed q).1 d ∧ 0 ≤ (ownUsed q).2 d) →
    ∃ F : Quota → Quota, L.foldl reAdd st = { st with quotas := st.quotas.map F } ∧ ∀ g, Good P L F g := by
  intro L
  induction L with
  | nil =>
    intro st _ _
    refine ⟨id, by simp, ?_⟩
    intro g
    exact ⟨rfl, rfl, rfl, rfl, fun _ d => by simp [sumOn], fun _ d => by simp [sumOn]⟩
  | cons q L ih =>
    intro st hP hnn
    let f1 : Quota → Quota := fun g =>
      if g.name ∈ pathNames st q.name then addUsed g (ownUsed q).1 (ownUsed q).2 (some q.name == some g.name) else g
    have hf1n : ∀ g, (f1 g).name = g.name := by
      intro g; by_cases h : g.name ∈ pathNames st q.name <;> simp [f1, h, addUsed]
    have hf1p : ∀ g, (f1 g).parent = g.parent := by
      intro g; by_cases h : g.name ∈ pathNames st q.name <;> simp [f1, h, addUsed]
    have hst1 : reAdd st q = { st with quotas := st.quotas.map f1 } := rfl
    have hP1 : ∀ n, pathNames (reAdd st q) n = P n := by
      intro n
      rw [hst1]
      have := pathNames_map st f1 st.pods hf1n hf1p n
      rw [← hP n, ← this]
    rcases ih (reAdd st q) hP1 (fun x hx => hnn x (List.mem_cons_of_mem _ hx)) with ⟨F', hF', hG'⟩
    refine ⟨F' ∘ f1, ?_, ?_⟩
    · rw [List.foldl_cons, hF', hst1]
      simp [List.map_map]
    · intro g
      have hq := hnn q List.mem_cons_self
      have hg1 := hG' (f1 g)
      have hmem : (g.name ∈ pathNames st q.name) ↔ (g.name ∈ P q.name) := by rw [hP]
      refine ⟨?_, ?_, ?_, ?_, ?_, ?_⟩
      · show (F' (f1 g)).name = g.name
        rw [hg1.name, hf1n]
      · show (F' (f1 g)).parent = g.parent
        rw [hg1.parent, hf1p]
      · show (F' (f1 g)).max = g.max
        rw [hg1.max]; by_cases h : g.name ∈ pathNames st q.name <;> simp [f1, h, addUsed]
      · show (F' (f1 g)).min = g.min
        rw [hg1.min]; by_cases h : g.name ∈ pathNames st q.name <;> simp [f1, h, addUsed]
      · intro hg d
        show (F' (f1 g)).used d = _
        have h1 : ∀ d, (f1 g).used d = g.used d + (if g.name ∈ P q.name then (ownUsed q).1 d else 0) := by
          intro d
          by_cases h : g.name ∈ pathNames st q.name
          · have h' := hmem.mp h
            simp only [f1, h, h', if_true, addUsed]
            exact clamp0_of_nonneg (by have := hg d; have := (hq d).1; omega)
          · have h' : ¬ g.name ∈ P q.name := fun x => h (hmem.mpr x)
            simp [f1, h, h']
        have hnn1 : ∀ d, 0 ≤ (f1 g).used d := by
          intro d; rw [h1]; have := hg d; have := (hq d).1; split <;> omega
        rw [hg1.used hnn1 d, h1 d, sumOn_cons, hf1n]
        omega
      · intro hg d
        show (F' (f1 g)).npUsed d = _
        have h1 : ∀ d, (f1 g).npUsed d = g.npUsed d + (if g.name ∈ P q.name then (ownUsed q).2 d else 0) := by
          intro d
          by_cases h : g.name ∈ pathNames st q.name
          · have h' := hmem.mp h
            simp only [f1, h, h', if_true, addUsed]
            exact clamp0_of_nonneg (by have := hg d; have := (hq d).2; omega)
          · have h' : ¬ g.name ∈ P q.name := fun x => h (hmem.mpr x)
            simp [f1, h, h']
        have hnn1 : ∀ d, 0 ≤ (f1 g).npUsed d := by
          intro d; rw [h1]; have := hg d; have := (hq d).2; split <;> omega
        rw [hg1.np hnn1 d, h1 d, sumOn_cons, hf1n]
        omega

theorem clearQ_name (q : Quota) : (clearQ q).name = q.name := by unfold clearQ; split <;> rfl
theorem clearQ_parent (q : Quota) : (clearQ q).parent = q.parent := by unfold clearQ; split <;> rfl
theorem clearQ_max (q : Quota) : (clearQ q).max = q.max := by unfold clearQ; split <;> rfl
theorem clearQ_min (q : Quota) : (clearQ q).min = q.min := by unfold clearQ; split <;> rfl
theorem clearQ_used (q : Quota) (d : Nat) : (clearQ q).used d = 0 ∧ (clearQ q).npUsed d = 0 := by
  unfold clearQ; split <;> exact ⟨rfl, rfl⟩

/-- the reset in closed form: every group ends with exactly the own amounts of the groups below (and including)
    it; names, parents, max and min are untouched. -/
theorem resetAll_closed (s : State) (hnn : ∀ q ∈ s.quotas, ∀ d, 0 ≤ (ownUsed q).1 d ∧ 0 ≤ (ownUsed q).2 d) :
    ∃ F : Quota → Quota, resetAll s = { s with quotas := s.quotas.map F } ∧
      ∀ g, (F g).name = g.name ∧ (F g).parent = g.parent ∧ (F g).max = g.max ∧ (F g).min = g.min ∧
        (∀ d, (F g).used d = sumOn (pathNames s) (fun q => (ownUsed q).1 d) (savedOf s) g.name) ∧
        (∀ d, (F g).npUsed d = sumOn (pathNames s) (fun q => (ownUsed q).2 d) (savedOf s) g.name) := by
  have hP : ∀ n, pathNames ({ s with quotas := s.quotas.map clearQ } : State) n = pathNames s n :=
    fun n => pathNames_map s clearQ s.pods clearQ_name clearQ_parent n
  have hsv : ∀ q ∈ savedOf s, ∀ d, 0 ≤ (ownUsed q).1 d ∧ 0 ≤ (ownUsed q).2 d :=
    fun q hq => hnn q (List.mem_filter.mp hq).1
  rcases foldl_reAdd (pathNames s) (savedOf s) { s with quotas := s.quotas.map clearQ } hP hsv with ⟨F, hF, hG⟩
  refine ⟨F ∘ clearQ, ?_, ?_⟩
  · show (savedOf s).foldl reAdd { s with quotas := s.quotas.map clearQ } = _
    rw [hF]; simp [List.map_map]
  · intro g
    have h := hG (clearQ g)
    refine ⟨by show (F (clearQ g)).name = _; rw [h.name, clearQ_name],
            by show (F (clearQ g)).parent = _; rw [h.parent, clearQ_parent],
            by show (F (clearQ g)).max = _; rw [h.max, clearQ_max],
            by show (F (clearQ g)).min = _; rw [h.min, clearQ_min], ?_, ?_⟩
    · intro d
      show (F (clearQ g)).used d = _
      rw [h.used (fun d => by rw [(clearQ_used g d).1]; exact Int.le_refl _) d, (clearQ_used g d).1, clearQ_name]
      omega
    · intro d
      show (F (clearQ g)).npUsed d = _
      rw [h.np (fun d => by rw [(clearQ_used g d).2]; exact Int.le_refl _) d, (clearQ_used g d).2, clearQ_name]
      omega

/-- a tree reset of an accounting-consistent state keeps the invariant. -/
theorem resetAll_inv (cp : Bool) (s : State) (hT : TreeConsistent s) (hI : Inv cp s) : Inv cp (resetAll s) := by
  rcases resetAll_closed s hT.ownNN with ⟨F, hF, hG⟩
  rw [hF]
  have hsv : ∀ d, ∀ q ∈ savedOf s, 0 ≤ (ownUsed q).1 d ∧ 0 ≤ (ownUsed q).2 d :=
    fun d q hq => hT.ownNN q (List.mem_filter.mp hq).1 d
  apply inv_map cp s F s.pods (fun q => (hG q).1) (fun q => (hG q).2.1) _ _ hI.reqNonneg _ _ hI
  · intro g hg hr d
    rw [(hG g).2.2.1]; exact hI.rootMax g hg hr d
  · intro g _ d
    rw [(hG g).2.2.2.2.1 d, (hG g).2.2.2.2.2 d]
    exact ⟨sumOn_nonneg _ _ _ _ (fun q hq => (hsv d q hq).1), sumOn_nonneg _ _ _ _ (fun q hq => (hsv d q hq).2)⟩
  · intro g hg hc d hd m hm
    rw [(hG g).2.2.1] at hm
    rw [(hG g).2.2.2.2.1 d]
    have := (hT.le g hg d hd).1
    have := hI.usedLeMax g hg hc d hd m hm
    omega
  · intro g hg hc d hd m hm
    rw [(hG g).2.2.2.1] at hm
    rw [(hG g).2.2.2.2.2 d]
    have := (hT.le g hg d hd).2
    have := hI.npLeMin g hg hc d hd m hm
    omega

/-- `updateQuotaInfoFromRemote` with max / min not lowered keeps the invariant. -/
theorem quotaMeta_inv (cp : Bool) (s : State) (n : Nat) (ip l : Bool) (mx mn : RL) (hn : n ≠ rootName)
    (hnl : ∀ q, findQ s.quotas n = some q → NotLowered q.max mx ∧ NotLowered q.min mn)
    (hI : Inv cp s) : Inv cp (quotaMeta s n ip l mx mn) := by
  unfold quotaMeta
  have isq0 : ∀ g ∈ s.quotas, g.name = n → NotLowered g.max mx ∧ NotLowered g.min mn := by
    intro g hg hgn
    have := findQ_of_mem hI.nodup hg
    rw [hgn] at this
    exact hnl g this
  apply inv_map cp s _ s.pods _ _ _ _ hI.reqNonneg _ _ hI
  · intro q; by_cases h : q.name = n <;> simp [h]
  · intro q; by_cases h : q.name = n <;> simp [h]
  · intro g hg hr d
    have : g.name ≠ n := by rw [hr]; exact fun e => hn e.symm
    simp only [this, if_false]; exact hI.rootMax g hg hr d
  · intro g hg d; by_cases h : g.name = n <;> simp [h] <;> exact hI.nonneg g hg d
  · intro g hg hc d hd m hm
    by_cases h : g.name = n
    · simp only [h, if_true] at hm ⊢
      rcases (isq0 g hg h).1 d m hm with ⟨m0, hm0, hle⟩
      have := hI.usedLeMax g hg hc d hd m0 hm0
      omega
    · simp only [h, if_false] at hm ⊢; exact hI.usedLeMax g hg hc d hd m hm
  · intro g hg hc d hd m hm
    by_cases h : g.name = n
    · simp only [h, if_true] at hm ⊢
      rcases (isq0 g hg h).2 d m hm with ⟨m0, hm0, hle⟩
      have := hI.npLeMin g hg hc d hd m0 hm0
      omega
    · simp only [h, if_false] at hm ⊢; exact hI.npLeMin g hg hc d hd m hm

/-! ### re-parenting (`updateQuotaNoLockWhenParentChange`) -/

/-- the groups `deleteQuotaNoLock` takes the moved usage from: the old parent's path, looked up after the moved
    group has left `quotaInfoMap`. -/
def oldChain (s : State) (old : Quota) : List Nat :=
  pathNames ({ s with quotas := s.quotas.filter fun g => g.name != old.name } : State) old.parent

/-- the moved group's path in the rebuilt tree (itself, the new parent, …). -/
def newChain (s : State) (old : Quota) (parent : Nat) (ip l : Bool) (mx mn : RL) : List Nat :=
  pathNames (quotaAdd (deleteQuota s old.name) old.name parent ip l mx mn) old.name

/-- what an old ancestor shows once the moved usage has been taken out. -/
def afterDelete (s : State) (old : Quota) (g : Quota) (d : Nat) : Int × Int :=
  if g.name ∈ oldChain s old then (clamp0 (g.used d - old.used d), clamp0 (g.npUsed d - old.npUsed d))
  else (g.used d, g.npUsed d)

/-- a group-wise rewrite that is, on the declared dimensions, "add (δ, nδ) on the groups named in `C`". -/
structure DeltaOn (D : Nat) (C : List Nat) (δ nδ : Nat → Int) (f : Quota → Quota) : Prop where
  name : ∀ g, (f g).name = g.name
  parent : ∀ g, (f g).parent = g.parent
  max : ∀ g, (f g).max = g.max
  min : ∀ g, (f g).min = g.min
  nn : ∀ g, (∀ d, 0 ≤ g.used d ∧ 0 ≤ g.npUsed d) → ∀ d, 0 ≤ (f g).used d ∧ 0 ≤ (f g).npUsed d
  used : ∀ g d, d < D → 0 ≤ g.used d → (f g).used d = if g.name ∈ C then clamp0 (g.used d + δ d) else g.used d
  np : ∀ g d, d < D → 0 ≤ g.npUsed d → (f g).npUsed d = if g.name ∈ C then clamp0 (g.npUsed d + nδ d) else g.npUsed d

theorem allZero_iff (D : Nat) (a : Nat → Int) : allZero D a = true ↔ ∀ d, d < D → a d = 0 := by
  unfold allZero
  rw [List.all_eq_true]
  constructor
  · intro h d hd; simpa using h d (List.mem_range.mpr hd)
  · intro h d hd; simpa using h d (List.mem_range.mp hd)

/-- "`updateGroupDeltaUsedNoLock` unless both lists are zero", as a `DeltaOn`. -/
theorem optDelta (st : State) (C : List Nat) (self : Option Nat) (δ nδ : Nat → Int) (skip : Bool)
    (hskip : skip = true → ∀ d, d < st.dims → δ d = 0 ∧ nδ d = 0) :
    ∃ f, (if skip then st else { st with quotas := applyDelta st C self δ nδ }) = { st with quotas := st.quotas.map f } ∧
      DeltaOn st.dims C δ nδ f := by
  cases hs : skip with
  | true =>
    refine ⟨id, by simp, ⟨fun _ => rfl, fun _ => rfl, fun _ => rfl, fun _ => rfl, fun _ h => h, ?_, ?_⟩⟩
    · intro g d hd hg
      have := (hskip hs d hd).1
      simp only [id, this, Int.add_zero, clamp0_of_nonneg hg, ite_self]
    · intro g d hd hg
      have := (hskip hs d hd).2
      simp only [id, this, Int.add_zero, clamp0_of_nonneg hg, ite_self]
  | false =>
    refine ⟨fun g => if g.name ∈ C then addUsed g δ nδ (self == some g.name) else g, by simp [applyDelta], ?_⟩
    refine ⟨?_, ?_, ?_, ?_, ?_, ?_, ?_⟩
    · intro g; by_cases h : g.name ∈ C <;> simp [h, addUsed]
    · intro g; by_cases h : g.name ∈ C <;> simp [h, addUsed]
    · intro g; by_cases h : g.name ∈ C <;> simp [h, addUsed]
    · intro g; by_cases h : g.name ∈ C <;> simp [h, addUsed]
    · intro g hg d
      by_cases h : g.name ∈ C
      · simp only [h, if_true, addUsed]; exact ⟨clamp0_nonneg _, clamp0_nonneg _⟩
      · simp only [h, if_false]; exact hg d
    · intro g d _ _; by_cases h : g.name ∈ C <;> simp [h, addUsed]
    · intro g d _ _; by_cases h : g.name ∈ C <;> simp [h, addUsed]

/-- what the closed loop needs from a re-parenting (moving a subtree is not an admission).  All clauses are decidable
    statements about the state before the move; the harness generates, in the closed-loop streams, only moves for
    which its own books say so.  `self` and `below` are C01's accounting consistency for the moved group. -/
structure ReparentOK (cp : Bool) (s : State) (old : Quota) (parent : Nat) (ip l : Bool) (mx mn : RL) : Prop where
  /-- the moved group's own part is within its total -/
  self : ∀ d, 0 ≤ old.selfUsed d ∧ old.selfUsed d ≤ old.used d ∧ 0 ≤ old.selfNp d ∧ old.selfNp d ≤ old.npUsed d
  /-- its usage is contained in every old ancestor's -/
  below : ∀ g ∈ s.quotas, g.name ∈ oldChain s old → ∀ d, d < s.dims →
            old.used d ≤ g.used d ∧ old.npUsed d ≤ g.npUsed d
  /-- parent checking on: the moved usage fits under every ancestor that is new -/
  fits : cp = true → ∀ g ∈ s.quotas, g.name ≠ old.name → g.name ∈ newChain s old parent ip l mx mn →
            g.name ∉ oldChain s old → ∀ d, d < s.dims → ∀ m, g.max d = some m → g.used d + old.used d ≤ m
  /-- a group left without child groups shows, after the subtraction, usage within max and min -/
  exLeaf : ∀ g ∈ s.quotas, g.name ≠ old.name → ¬ IsLeafL s.quotas g.name →
            IsLeafL (reparent s old parent ip l mx mn).quotas g.name → ∀ d, d < s.dims →
              (∀ m, g.max d = some m → (afterDelete s old g d).1 ≤ m) ∧
              (∀ m, g.min d = some m → (afterDelete s old g d).2 ≤ m)

theorem two_adds (v1 su ou : Int) (b : Bool) (h1 : 0 ≤ v1) (h2 : 0 ≤ su) (h3 : su ≤ ou) :
    clamp0 (clamp0 (v1 + su) + (if b then ou - su else 0)) ≤ v1 + ou := by
  have e1 : clamp0 (v1 + su) = v1 + su := clamp0_of_nonneg (by omega)
  rw [e1]
  cases b with
  | false =>
    simp only [Bool.false_eq_true, if_false, Int.add_zero]
    rw [clamp0_of_nonneg (by omega)]; omega
  | true =>
    simp only [if_true]
    rw [clamp0_of_nonneg (by omega)]; omega

theorem clamp0_sub_le (u x : Int) (hu : 0 ≤ u) (hx : 0 ≤ x) : clamp0 (u - x) ≤ u := by
  unfold clamp0; split <;> omega

theorem reparent_inv (cp : Bool) (s : State) (old : Quota) (parent : Nat) (ip l : Bool) (mx mn : RL)
    (hq : findQ s.quotas old.name = some old) (hn : old.name ≠ rootName)
    (hnl : NotLowered old.max mx ∧ NotLowered old.min mn)
    (hR : ReparentOK cp s old parent ip l mx mn) (hI : Inv cp s) :
    Inv cp (reparent s old parent ip l mx mn) := by
  have hexLeaf := hR.exLeaf
  -- step 1: delete
  let s1a : State := { s with quotas := s.quotas.filter fun g => g.name != old.name }
  have hold := findQ_some hq
  have hou : ∀ d, 0 ≤ old.used d ∧ 0 ≤ old.npUsed d := hI.nonneg old hold.1
  rcases optDelta s1a (oldChain s old) none (fun d => -(old.used d)) (fun d => -(old.npUsed d))
      (allZero s.dims old.used && allZero s.dims old.npUsed)
      (by
        intro h d hd
        simp only [Bool.and_eq_true, allZero_iff] at h
        exact ⟨by rw [h.1 d hd]; rfl, by rw [h.2 d hd]; rfl⟩) with ⟨fd, hfd, hDd⟩
  have hdel : deleteQuota s old.name = { s1a with quotas := s1a.quotas.map fd } := by
    unfold deleteQuota
    simp only [hq]
    exact hfd
  -- step 2: re-create
  let nq : Quota := { name := old.name, parent := parent, isParent := ip, lent := l, max := mx, min := mn,
                      runtime := RL.empty, used := fun _ => 0, npUsed := fun _ => 0,
                      selfUsed := fun _ => 0, selfNp := fun _ => 0 }
  let s2 : State := { s1a with quotas := s1a.quotas.map fd ++ [nq] }
  have hs2 : quotaAdd (deleteQuota s old.name) old.name parent ip l mx mn = s2 := by
    rw [hdel]; rfl
  have hNC : newChain s old parent ip l mx mn = pathNames s2 old.name := by
    unfold newChain; rw [hs2]
  -- step 3: own part, self index
  rcases optDelta s2 (pathNames s2 old.name) (some old.name) old.selfUsed old.selfNp
      (allZero s.dims old.selfUsed && allZero s.dims old.selfNp)
      (by
        intro h d hd
        simp only [Bool.and_eq_true, allZero_iff] at h
        exact ⟨h.1 d hd, h.2 d hd⟩) with ⟨f3, hf3, hD3⟩
  let s3 : State := { s2 with quotas := s2.quotas.map f3 }
  have hP3 : pathNames s3 old.name = pathNames s2 old.name := pathNames_map s2 f3 s2.pods hD3.name hD3.parent _
  -- step 4: children's part
  let δ4 : Nat → Int := fun d => if old.isParent then old.used d - old.selfUsed d else 0
  let n4 : Nat → Int := fun d => if old.isParent then old.npUsed d - old.selfNp d else 0
  rcases optDelta s3 (pathNames s2 old.name) none δ4 n4
      (!(old.isParent && !(allZero s.dims (fun d => old.used d - old.selfUsed d) &&
          allZero s.dims (fun d => old.npUsed d - old.selfNp d))))
      (by
        intro h d hd
        cases hp : old.isParent with
        | false => simp [δ4, n4, hp]
        | true =>
          simp only [hp, Bool.true_and, Bool.not_not, Bool.and_eq_true, allZero_iff] at h
          simp only [δ4, n4, hp, if_true]
          exact ⟨h.1 d hd, h.2 d hd⟩) with ⟨f4, hf4, hD4⟩
  have hfinal : reparent s old parent ip l mx mn = { s3 with quotas := s3.quotas.map f4 } := by
    unfold reparent
    simp only [hs2]
    have e3 : (if (allZero s.dims old.selfUsed && allZero s.dims old.selfNp) = true then s2
        else { s2 with quotas := applyDelta s2 (pathNames s2 old.name) (some old.name) old.selfUsed old.selfNp }) = s3 := hf3
    rw [e3, hP3]
    rw [← hf4]
    cases hp : old.isParent with
    | false => simp
    | true =>
      have e1 : δ4 = fun d => old.used d - old.selfUsed d := by funext d; simp [δ4, hp]
      have e2 : n4 = fun d => old.npUsed d - old.selfNp d := by funext d; simp [n4, hp]
      rw [e1, e2]
      cases (allZero s.dims (fun d => old.used d - old.selfUsed d) &&
          allZero s.dims (fun d => old.npUsed d - old.selfNp d)) <;> simp
  -- the composed rewrite
  have hQ : (reparent s old parent ip l mx mn).quotas = (s1a.quotas.map fd ++ [nq]).map (f4 ∘ f3) := by
    rw [hfinal]; simp [s3, s2, List.map_map]
  have hname : ∀ x, ((f4 ∘ f3) x).name = x.name := fun x => by show (f4 (f3 x)).name = _; rw [hD4.name, hD3.name]
  have hpar : ∀ x, ((f4 ∘ f3) x).parent = x.parent := fun x => by show (f4 (f3 x)).parent = _; rw [hD4.parent, hD3.parent]
  have hmaxh : ∀ x, ((f4 ∘ f3) x).max = x.max := fun x => by show (f4 (f3 x)).max = _; rw [hD4.max, hD3.max]
  have hminh : ∀ x, ((f4 ∘ f3) x).min = x.min := fun x => by show (f4 (f3 x)).min = _; rw [hD4.min, hD3.min]
  have hdims : (reparent s old parent ip l mx mn).dims = s.dims := by rw [hfinal]
  have hpods : (reparent s old parent ip l mx mn).pods = s.pods := by rw [hfinal]
  -- members of the rebuilt list
  have hmemQ : ∀ g' ∈ (reparent s old parent ip l mx mn).quotas,
      (∃ g ∈ s.quotas, g.name ≠ old.name ∧ g' = f4 (f3 (fd g))) ∨ g' = f4 (f3 nq) := by
    intro g' hg'
    rw [hQ] at hg'
    rcases List.mem_map.mp hg' with ⟨x, hx, rfl⟩
    rcases List.mem_append.mp hx with h | h
    · rcases List.mem_map.mp h with ⟨g, hg, rfl⟩
      have := List.mem_filter.mp hg
      exact Or.inl ⟨g, this.1, by simpa using this.2, rfl⟩
    · rw [List.mem_singleton.mp h]; exact Or.inr rfl
  -- non-negativity through the three rewrites
  have hnnd : ∀ g ∈ s.quotas, ∀ d, 0 ≤ (fd g).used d ∧ 0 ≤ (fd g).npUsed d :=
    fun g hg => hDd.nn g (hI.nonneg g hg)
  have hnnq : ∀ d, 0 ≤ nq.used d ∧ 0 ≤ nq.npUsed d := fun _ => ⟨Int.le_refl _, Int.le_refl _⟩
  have hnn34 : ∀ x, (∀ d, 0 ≤ x.used d ∧ 0 ≤ x.npUsed d) → ∀ d, 0 ≤ (f4 (f3 x)).used d ∧ 0 ≤ (f4 (f3 x)).npUsed d :=
    fun x hx => hD4.nn _ (hD3.nn x hx)
  -- leaf-ness in the rebuilt tree
  have hleafQ : ∀ k, IsLeafL (reparent s old parent ip l mx mn).quotas k ↔ IsLeafL s2.quotas k := by
    intro k; rw [hQ]; exact isLeafL_map _ _ hname hpar k
  -- a leaf of the rebuilt tree other than the moved group is not on the moved group's new path
  have hleafNC : ∀ k, k ≠ old.name → IsLeafL s2.quotas k → k ∉ pathNames s2 old.name := by
    intro k hk hleaf hmem
    unfold pathNames at hmem
    rcases List.mem_map.mp hmem with ⟨x, hx, hxn⟩
    exact hk (chain_leaf k hleaf _ _ x hx hxn).symm
  -- the moved group is a leaf afterwards only if it was one before
  have hleafN : IsLeafL s2.quotas old.name → IsLeafL s.quotas old.name := by
    intro hleaf h hh hp
    by_cases hhn : h.name = old.name
    · exact hhn
    · have hm : fd h ∈ s2.quotas := by
        apply List.mem_append_left
        apply List.mem_map_of_mem
        exact List.mem_filter.mpr ⟨hh, by simpa using hhn⟩
      have := hleaf (fd h) hm (by rw [hDd.parent]; exact hp)
      rw [hDd.name] at this; exact this
  -- values on the declared dimensions
  have hval : ∀ g ∈ s.quotas, ∀ d, d < s.dims →
      (fd g).used d = (afterDelete s old g d).1 ∧ (fd g).npUsed d = (afterDelete s old g d).2 := by
    intro g hg d hd
    have h1 := hDd.used g d hd (hI.nonneg g hg d).1
    have h2 := hDd.np g d hd (hI.nonneg g hg d).2
    unfold afterDelete
    by_cases hc : g.name ∈ oldChain s old
    · simp only [hc, if_true] at h1 h2 ⊢
      exact ⟨by rw [h1, Int.sub_eq_add_neg], by rw [h2, Int.sub_eq_add_neg]⟩
    · simp only [hc, if_false] at h1 h2 ⊢
      exact ⟨h1, h2⟩
  have hadLe : ∀ g ∈ s.quotas, ∀ d, (afterDelete s old g d).1 ≤ g.used d ∧ (afterDelete s old g d).2 ≤ g.npUsed d := by
    intro g hg d
    unfold afterDelete
    have := hI.nonneg g hg d
    have := hou d
    split
    · exact ⟨clamp0_sub_le _ _ (by omega) (by omega), clamp0_sub_le _ _ (by omega) (by omega)⟩
    · exact ⟨Int.le_refl _, Int.le_refl _⟩
  -- a group off the new path keeps what the deletion left
  have hoff : ∀ x, x.name ∉ pathNames s2 old.name → (∀ d, 0 ≤ x.used d ∧ 0 ≤ x.npUsed d) → ∀ d, d < s.dims →
      (f4 (f3 x)).used d = x.used d ∧ (f4 (f3 x)).npUsed d = x.npUsed d := by
    intro x hx hxnn d hd
    have a1 := hD3.used x d hd (hxnn d).1
    have a2 := hD3.np x d hd (hxnn d).2
    simp only [hx, if_false] at a1 a2
    have hx' : (f3 x).name ∉ pathNames s2 old.name := by rw [hD3.name]; exact hx
    have b1 := hD4.used (f3 x) d hd (by rw [a1]; exact (hxnn d).1)
    have b2 := hD4.np (f3 x) d hd (by rw [a2]; exact (hxnn d).2)
    simp only [hx', if_false] at b1 b2
    exact ⟨by rw [b1, a1], by rw [b2, a2]⟩
  -- a group on the new path gains at most the moved usage
  have hon : ∀ x, (∀ d, 0 ≤ x.used d ∧ 0 ≤ x.npUsed d) → ∀ d, d < s.dims →
      (f4 (f3 x)).used d ≤ x.used d + old.used d ∧ (f4 (f3 x)).npUsed d ≤ x.npUsed d + old.npUsed d := by
    intro x hxnn d hd
    have hs := hR.self d
    by_cases hx : x.name ∈ pathNames s2 old.name
    · have a1 := hD3.used x d hd (hxnn d).1
      have a2 := hD3.np x d hd (hxnn d).2
      simp only [hx, if_true] at a1 a2
      have hx' : (f3 x).name ∈ pathNames s2 old.name := by rw [hD3.name]; exact hx
      have b1 := hD4.used (f3 x) d hd (by rw [a1]; exact clamp0_nonneg _)
      have b2 := hD4.np (f3 x) d hd (by rw [a2]; exact clamp0_nonneg _)
      simp only [hx', if_true] at b1 b2
      rw [b1, b2, a1, a2]
      exact ⟨two_adds _ _ _ old.isParent (hxnn d).1 hs.1 hs.2.1, two_adds _ _ _ old.isParent (hxnn d).2 hs.2.2.1 hs.2.2.2⟩
    · have := hoff x hx hxnn d hd
      have := hou d
      omega
  refine ⟨?_, ?_, ?_, ?_, ?_, ?_⟩
  · -- names stay unique
    show ((reparent s old parent ip l mx mn).quotas.map (·.name)).Nodup
    rw [hQ, List.map_map]
    have e : ((s1a.quotas.map fd ++ [nq]).map ((·.name) ∘ (f4 ∘ f3))) = (s1a.quotas.map (·.name)) ++ [old.name] := by
      rw [List.map_append, List.map_map]
      congr 1
      · apply List.map_congr_left; intro g _; show (f4 (f3 (fd g))).name = g.name; rw [hD4.name, hD3.name, hDd.name]
      · show [(f4 (f3 nq)).name] = [old.name]; rw [hD4.name, hD3.name]
    rw [e, List.nodup_append]
    refine ⟨(List.filter_sublist.map _).nodup hI.nodup, by simp, ?_⟩
    intro a ha b hb
    rw [List.mem_singleton.mp hb]
    rcases List.mem_map.mp ha with ⟨g, hg, rfl⟩
    have := (List.mem_filter.mp hg).2
    simpa using this
  · intro g' hg' hr d
    rcases hmemQ g' hg' with ⟨g, hg, hgn, rfl⟩ | rfl
    · rw [hD4.name, hD3.name, hDd.name] at hr
      rw [hD4.max, hD3.max, hDd.max]; exact hI.rootMax g hg hr d
    · rw [hD4.name, hD3.name] at hr; exact absurd hr hn
  · intro g' hg' d
    rcases hmemQ g' hg' with ⟨g, hg, hgn, rfl⟩ | rfl
    · exact hnn34 _ (hnnd g hg) d
    · exact hnn34 _ hnnq d
  · rw [hpods]; exact hI.reqNonneg
  · -- used ≤ max
    intro g' hg' hc d hd m hm
    rw [hdims] at hd
    rcases hmemQ g' hg' with ⟨g, hg, hgn, rfl⟩ | rfl
    · rw [hD4.max, hD3.max, hDd.max] at hm
      rw [hD4.name, hD3.name, hDd.name] at hc
      have hv := (hval g hg d hd).1
      have hle := (hadLe g hg d).1
      rcases hc with hcp | hleaf
      · have hu := hI.usedLeMax g hg (Or.inl hcp) d hd m hm
        by_cases hx : g.name ∈ pathNames s2 old.name
        · have h1 := (hon (fd g) (hnnd g hg) d hd).1
          by_cases ho : g.name ∈ oldChain s old
          · have hb := (hR.below g hg ho d hd).1
            have : (afterDelete s old g d).1 = g.used d - old.used d := by
              unfold afterDelete; simp only [ho, if_true]; exact clamp0_of_nonneg (by omega)
            omega
          · have hf := hR.fits hcp g hg hgn (by rw [hNC]; exact hx) ho d hd m hm
            have : (afterDelete s old g d).1 = g.used d := by unfold afterDelete; simp only [ho, if_false]
            omega
        · have h1 := (hoff (fd g) (by rw [hDd.name]; exact hx) (hnnd g hg) d hd).1
          omega
      · have hleaf2 := (hleafQ g.name).mp hleaf
        have hx := hleafNC g.name hgn hleaf2
        have h1 := (hoff (fd g) (by rw [hDd.name]; exact hx) (hnnd g hg) d hd).1
        by_cases hb : IsLeafL s.quotas g.name
        · have hu := hI.usedLeMax g hg (Or.inr hb) d hd m hm
          omega
        · have := (hexLeaf g hg hgn hb hleaf d hd).1 m hm
          omega
    · rw [hD4.max, hD3.max] at hm
      rw [hD4.name, hD3.name] at hc
      have hc' : cp = true ∨ IsLeafL s.quotas old.name := by
        rcases hc with h | h
        · exact Or.inl h
        · exact Or.inr (hleafN ((hleafQ old.name).mp h))
      rcases hnl.1 d m hm with ⟨m0, hm0, hle⟩
      have hu := hI.usedLeMax old hold.1 hc' d hd m0 hm0
      have h1 := (hon nq hnnq d hd).1
      have : nq.used d = 0 := rfl
      omega
  · -- non-preemptible used ≤ min
    intro g' hg' hleaf d hd m hm
    rw [hdims] at hd
    rcases hmemQ g' hg' with ⟨g, hg, hgn, rfl⟩ | rfl
    · rw [hD4.min, hD3.min, hDd.min] at hm
      rw [hD4.name, hD3.name, hDd.name] at hleaf
      have hv := (hval g hg d hd).2
      have hle := (hadLe g hg d).2
      have hleaf2 := (hleafQ g.name).mp hleaf
      have hx := hleafNC g.name hgn hleaf2
      have h1 := (hoff (fd g) (by rw [hDd.name]; exact hx) (hnnd g hg) d hd).2
      by_cases hb : IsLeafL s.quotas g.name
      · have hu := hI.npLeMin g hg hb d hd m hm
        omega
      · have := (hexLeaf g hg hgn hb hleaf d hd).2 m hm
        omega
    · rw [hD4.min, hD3.min] at hm
      rw [hD4.name, hD3.name] at hleaf
      have hb := hleafN ((hleafQ old.name).mp hleaf)
      rcases hnl.2 d m hm with ⟨m0, hm0, hle⟩
      have hu := hI.npLeMin old hold.1 hb d hd m0 hm0
      have h1 := (hon nq hnnq d hd).2
      have : nq.npUsed d = 0 := rfl
      omega

end KoordVerif.C03
