import KoordVerif.Proofs.C03Base
/-
C03 — helper development for the quota-update events that change meta: lookups / parent chains under a
group-wise rewrite, the tree reset (`resetAll`) in closed form and its invariant preservation under C01's
accounting consistency (`TreeConsistent`), `updateQuotaInfoFromRemote`.  Property theorems: `Props/C03.lean`.
-/
namespace KoordVerif.C03

/-- "max (min) is not lowered": every dimension declared afterwards was declared before, with no
    greater value. -/
def NotLowered (old new : RL) : Prop := ∀ d m', new d = some m' → ∃ m, old d = some m ∧ m ≤ m'

theorem notLowered_refl (a : RL) : NotLowered a a := fun _ m h => ⟨m, h, Int.le_refl _⟩

/-! ### lookups and parent chains under a group-wise rewrite -/

theorem findQ_map {qs : List Quota} (f : Quota → Quota) (hname : ∀ q, (f q).name = q.name) (n : Nat) :
    findQ (qs.map f) n = (findQ qs n).map f := by
  unfold findQ
  induction qs with
  | nil => rfl
  | cons x xs ih =>
    simp only [List.map_cons, List.find?_cons, hname]
    cases h : (x.name == n)
    · simpa using ih
    · simp

theorem chain_map {qs : List Quota} (f : Quota → Quota) (hname : ∀ q, (f q).name = q.name)
    (hpar : ∀ q, (f q).parent = q.parent) : ∀ fuel n, chain (qs.map f) fuel n = (chain qs fuel n).map f := by
  intro fuel
  induction fuel with
  | zero => intro n; rfl
  | succ k ih =>
    intro n
    unfold chain
    rw [findQ_map f hname]
    cases h : findQ qs n with
    | none => rfl
    | some q =>
      by_cases hr : n = rootName
      · simp [hr]
      · simp [hr, hpar, ih]

theorem pathNames_map (s : State) (f : Quota → Quota) (pods' : List Pod) (hname : ∀ q, (f q).name = q.name)
    (hpar : ∀ q, (f q).parent = q.parent) (n : Nat) :
    pathNames { s with quotas := s.quotas.map f, pods := pods' } n = pathNames s n := by
  unfold pathNames fuelOf
  simp only [List.length_map]
  rw [chain_map f hname hpar, List.map_map]
  apply List.map_congr_left
  intro q _
  exact hname q

/-! ### tree reset (allow-lent / is-parent flip) -/

/-- what the reset re-adds on the group named `gn`: the own amounts of the saved groups whose path passes `gn`. -/
def sumOn (P : Nat → List Nat) (own : Quota → Int) (L : List Quota) (gn : Nat) : Int :=
  ((L.filter fun q => decide (gn ∈ P q.name)).map own).sum

theorem sumOn_cons (P : Nat → List Nat) (own : Quota → Int) (q : Quota) (L : List Quota) (gn : Nat) :
    sumOn P own (q :: L) gn = (if gn ∈ P q.name then own q else 0) + sumOn P own L gn := by
  unfold sumOn
  by_cases h : gn ∈ P q.name <;> simp [List.filter_cons, h]

theorem sumOn_nonneg (P : Nat → List Nat) (own : Quota → Int) (L : List Quota) (gn : Nat)
    (h : ∀ q ∈ L, 0 ≤ own q) : 0 ≤ sumOn P own L gn := by
  induction L with
  | nil => simp [sumOn]
  | cons q L ih =>
    rw [sumOn_cons]
    have h1 := h q List.mem_cons_self
    have h2 := ih (fun x hx => h x (List.mem_cons_of_mem _ hx))
    split <;> omega

/-- the saved groups of a reset. -/
def savedOf (s : State) : List Quota := s.quotas.filter fun q => q.name != rootName

/-- C01's accounting consistency, as far as the reset needs it (decidable; tested by the harness on the
    implementation's own report before every generated reset): the own amounts are non-negative, and what the
    groups of a subtree own does not exceed what the subtree's top shows. -/
structure TreeConsistent (s : State) : Prop where
  ownNN : ∀ q ∈ s.quotas, ∀ d, 0 ≤ (ownUsed q).1 d ∧ 0 ≤ (ownUsed q).2 d
  le : ∀ g ∈ s.quotas, ∀ d, d < s.dims →
        sumOn (pathNames s) (fun q => (ownUsed q).1 d) (savedOf s) g.name ≤ g.used d ∧
        sumOn (pathNames s) (fun q => (ownUsed q).2 d) (savedOf s) g.name ≤ g.npUsed d

/-- what one pass of the re-adding loop does to a group, as a function of the group alone. -/
structure Good (P : Nat → List Nat) (L : List Quota) (F : Quota → Quota) (g : Quota) : Prop where
  name : (F g).name = g.name
  parent : (F g).parent = g.parent
  max : (F g).max = g.max
  min : (F g).min = g.min
  used : (∀ d, 0 ≤ g.used d) → ∀ d, (F g).used d = g.used d + sumOn P (fun q => (ownUsed q).1 d) L g.name
  np : (∀ d, 0 ≤ g.npUsed d) → ∀ d, (F g).npUsed d = g.npUsed d + sumOn P (fun q => (ownUsed q).2 d) L g.name

theorem clamp0_of_nonneg {x : Int} (h : 0 ≤ x) : clamp0 x = x := by
  unfold clamp0; split <;> omega

/-- the loop `for … updateGroupDeltaUsedNoLock(name, saved…, 0)` of `rebuildAllGroupQuotaNoLock`, in closed form. -/
theorem foldl_reAdd (P : Nat → List Nat) : ∀ (L : List Quota) (st : State),
    (∀ n, pathNames st n = P n) → (∀ q ∈ L, ∀ d, 0 ≤ (ownUsed q).1 d ∧ 0 ≤ (ownUsed q).2 d) →
    ∃ F : Quota → Quota, L.foldl reAdd st = { st with quotas := st.quotas.map F } ∧ ∀ g, Good P L F g := by
  intro L
  induction L with
  | nil =>
    intro st _ _
    refine ⟨id, by simp, ?_⟩
    intro g
    exact ⟨rfl, rfl, rfl, rfl, fun _ d => by simp [sumOn], fun _ d => by simp [sumOn]⟩
  | cons q L ih =>
    intro st hP hnn
    let f1 : Quota → Quota := fun g =>
      if g.name ∈ pathNames st q.name then addUsed g (ownUsed q).1 (ownUsed q).2 (some q.name == some g.name) else g
    have hf1n : ∀ g, (f1 g).name = g.name := by
      intro g; by_cases h : g.name ∈ pathNames st q.name <;> simp [f1, h, addUsed]
    have hf1p : ∀ g, (f1 g).parent = g.parent := by
      intro g; by_cases h : g.name ∈ pathNames st q.name <;> simp [f1, h, addUsed]
    have hst1 : reAdd st q = { st with quotas := st.quotas.map f1 } := rfl
    have hP1 : ∀ n, pathNames (reAdd st q) n = P n := by
      intro n
      rw [hst1]
      have := pathNames_map st f1 st.pods hf1n hf1p n
      rw [← hP n, ← this]
    rcases ih (reAdd st q) hP1 (fun x hx => hnn x (List.mem_cons_of_mem _ hx)) with ⟨F', hF', hG'⟩
    refine ⟨F' ∘ f1, ?_, ?_⟩
    · rw [List.foldl_cons, hF', hst1]
      simp [List.map_map]
    · intro g
      have hq := hnn q List.mem_cons_self
      have hg1 := hG' (f1 g)
      have hmem : (g.name ∈ pathNames st q.name) ↔ (g.name ∈ P q.name) := by rw [hP]
      refine ⟨?_, ?_, ?_, ?_, ?_, ?_⟩
      · show (F' (f1 g)).name = g.name
        rw [hg1.name, hf1n]
      · show (F' (f1 g)).parent = g.parent
        rw [hg1.parent, hf1p]
      · show (F' (f1 g)).max = g.max
        rw [hg1.max]; by_cases h : g.name ∈ pathNames st q.name <;> simp [f1, h, addUsed]
      · show (F' (f1 g)).min = g.min
        rw [hg1.min]; by_cases h : g.name ∈ pathNames st q.name <;> simp [f1, h, addUsed]
      · intro hg d
        show (F' (f1 g)).used d = _
        have h1 : ∀ d, (f1 g).used d = g.used d + (if g.name ∈ P q.name then (ownUsed q).1 d else 0) := by
          intro d
          by_cases h : g.name ∈ pathNames st q.name
          · have h' := hmem.mp h
            simp only [f1, h, h', if_true, addUsed]
            exact clamp0_of_nonneg (by have := hg d; have := (hq d).1; omega)
          · have h' : ¬ g.name ∈ P q.name := fun x => h (hmem.mpr x)
            simp [f1, h, h']
        have hnn1 : ∀ d, 0 ≤ (f1 g).used d := by
          intro d; rw [h1]; have := hg d; have := (hq d).1; split <;> omega
        rw [hg1.used hnn1 d, h1 d, sumOn_cons, hf1n]
        omega
      · intro hg d
        show (F' (f1 g)).npUsed d = _
        have h1 : ∀ d, (f1 g).npUsed d = g.npUsed d + (if g.name ∈ P q.name then (ownUsed q).2 d else 0) := by
          intro d
          by_cases h : g.name ∈ pathNames st q.name
          · have h' := hmem.mp h
            simp only [f1, h, h', if_true, addUsed]
            exact clamp0_of_nonneg (by have := hg d; have := (hq d).2; omega)
          · have h' : ¬ g.name ∈ P q.name := fun x => h (hmem.mpr x)
            simp [f1, h, h']
        have hnn1 : ∀ d, 0 ≤ (f1 g).npUsed d := by
          intro d; rw [h1]; have := hg d; have := (hq d).2; split <;> omega
        rw [hg1.np hnn1 d, h1 d, sumOn_cons, hf1n]
        omega

theorem clearQ_name (q : Quota) : (clearQ q).name = q.name := by unfold clearQ; split <;> rfl
theorem clearQ_parent (q : Quota) : (clearQ q).parent = q.parent := by unfold clearQ; split <;> rfl
theorem clearQ_max (q : Quota) : (clearQ q).max = q.max := by unfold clearQ; split <;> rfl
theorem clearQ_min (q : Quota) : (clearQ q).min = q.min := by unfold clearQ; split <;> rfl
theorem clearQ_used (q : Quota) (d : Nat) : (clearQ q).used d = 0 ∧ (clearQ q).npUsed d = 0 := by
  unfold clearQ; split <;> exact ⟨rfl, rfl⟩

/-- the reset in closed form: every group ends with exactly the own amounts of the groups below (and including)
    it; names, parents, max and min are untouched. -/
theorem resetAll_closed (s : State) (hnn : ∀ q ∈ s.quotas, ∀ d, 0 ≤ (ownUsed q).1 d ∧ 0 ≤ (ownUsed q).2 d) :
    ∃ F : Quota → Quota, resetAll s = { s with quotas := s.quotas.map F } ∧
      ∀ g, (F g).name = g.name ∧ (F g).parent = g.parent ∧ (F g).max = g.max ∧ (F g).min = g.min ∧
        (∀ d, (F g).used d = sumOn (pathNames s) (fun q => (ownUsed q).1 d) (savedOf s) g.name) ∧
        (∀ d, (F g).npUsed d = sumOn (pathNames s) (fun q => (ownUsed q).2 d) (savedOf s) g.name) := by
  have hP : ∀ n, pathNames ({ s with quotas := s.quotas.map clearQ } : State) n = pathNames s n :=
    fun n => pathNames_map s clearQ s.pods clearQ_name clearQ_parent n
  have hsv : ∀ q ∈ savedOf s, ∀ d, 0 ≤ (ownUsed q).1 d ∧ 0 ≤ (ownUsed q).2 d :=
    fun q hq => hnn q (List.mem_filter.mp hq).1
  rcases foldl_reAdd (pathNames s) (savedOf s) { s with quotas := s.quotas.map clearQ } hP hsv with ⟨F, hF, hG⟩
  refine ⟨F ∘ clearQ, ?_, ?_⟩
  · show (savedOf s).foldl reAdd { s with quotas := s.quotas.map clearQ } = _
    rw [hF]; simp [List.map_map]
  · intro g
    have h := hG (clearQ g)
    refine ⟨by show (F (clearQ g)).name = _; rw [h.name, clearQ_name],
            by show (F (clearQ g)).parent = _; rw [h.parent, clearQ_parent],
            by show (F (clearQ g)).max = _; rw [h.max, clearQ_max],
            by show (F (clearQ g)).min = _; rw [h.min, clearQ_min], ?_, ?_⟩
    · intro d
      show (F (clearQ g)).used d = _
      rw [h.used (fun d => by rw [(clearQ_used g d).1]; exact Int.le_refl _) d, (clearQ_used g d).1, clearQ_name]
      omega
    · intro d
      show (F (clearQ g)).npUsed d = _
      rw [h.np (fun d => by rw [(clearQ_used g d).2]; exact Int.le_refl _) d, (clearQ_used g d).2, clearQ_name]
      omega

/-- a tree reset of an accounting-consistent state keeps the invariant. -/
theorem resetAll_inv (cp : Bool) (s : State) (hT : TreeConsistent s) (hI : Inv cp s) : Inv cp (resetAll s) := by
  rcases resetAll_closed s hT.ownNN with ⟨F, hF, hG⟩
  rw [hF]
  have hsv : ∀ d, ∀ q ∈ savedOf s, 0 ≤ (ownUsed q).1 d ∧ 0 ≤ (ownUsed q).2 d :=
    fun d q hq => hT.ownNN q (List.mem_filter.mp hq).1 d
  apply inv_map cp s F s.pods (fun q => (hG q).1) (fun q => (hG q).2.1) _ _ hI.reqNonneg _ _ hI
  · intro g hg hr d
    rw [(hG g).2.2.1]; exact hI.rootMax g hg hr d
  · intro g _ d
    rw [(hG g).2.2.2.2.1 d, (hG g).2.2.2.2.2 d]
    exact ⟨sumOn_nonneg _ _ _ _ (fun q hq => (hsv d q hq).1), sumOn_nonneg _ _ _ _ (fun q hq => (hsv d q hq).2)⟩
  · intro g hg hc d hd m hm
    rw [(hG g).2.2.1] at hm
    rw [(hG g).2.2.2.2.1 d]
    have := (hT.le g hg d hd).1
    have := hI.usedLeMax g hg hc d hd m hm
    omega
  · intro g hg hc d hd m hm
    rw [(hG g).2.2.2.1] at hm
    rw [(hG g).2.2.2.2.2 d]
    have := (hT.le g hg d hd).2
    have := hI.npLeMin g hg hc d hd m hm
    omega

/-- `updateQuotaInfoFromRemote` with max / min not lowered keeps the invariant. -/
theorem quotaMeta_inv (cp : Bool) (s : State) (n : Nat) (ip l : Bool) (mx mn : RL) (hn : n ≠ rootName)
    (hnl : ∀ q, findQ s.quotas n = some q → NotLowered q.max mx ∧ NotLowered q.min mn)
    (hI : Inv cp s) : Inv cp (quotaMeta s n ip l mx mn) := by
  unfold quotaMeta
  have isq0 : ∀ g ∈ s.quotas, g.name = n → NotLowered g.max mx ∧ NotLowered g.min mn := by
    intro g hg hgn
    have := findQ_of_mem hI.nodup hg
    rw [hgn] at this
    exact hnl g this
  apply inv_map cp s _ s.pods _ _ _ _ hI.reqNonneg _ _ hI
  · intro q; by_cases h : q.name = n <;> simp [h]
  · intro q; by_cases h : q.name = n <;> simp [h]
  · intro g hg hr d
    have : g.name ≠ n := by rw [hr]; exact fun e => hn e.symm
    simp only [this, if_false]; exact hI.rootMax g hg hr d
  · intro g hg d; by_cases h : g.name = n <;> simp [h] <;> exact hI.nonneg g hg d
  · intro g hg hc d hd m hm
    by_cases h : g.name = n
    · simp only [h, if_true] at hm ⊢
      rcases (isq0 g hg h).1 d m hm with ⟨m0, hm0, hle⟩
      have := hI.usedLeMax g hg hc d hd m0 hm0
      omega
    · simp only [h, if_false] at hm ⊢; exact hI.usedLeMax g hg hc d hd m hm
  · intro g hg hc d hd m hm
    by_cases h : g.name = n
    · simp only [h, if_true] at hm ⊢
      rcases (isq0 g hg h).2 d m hm with ⟨m0, hm0, hle⟩
      have := hI.npLeMin g hg hc d hd m0 hm0
      omega
    · simp only [h, if_false] at hm ⊢; exact hI.npLeMin g hg hc d hd m hm

end KoordVerif.C03
