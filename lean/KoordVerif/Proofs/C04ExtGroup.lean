import KoordVerif.Proofs.C04Permit
/-
C04 — the groups annotation, from its shapes to the gang's GangGroup (glue of tryInitByPodConfig /
tryInitByPodGroup brought into the model: `parseGroups`, `groupOrSelf`), and the invariant the
"for every gang of the group" loops rely on: a cached gang's GangGroup is never empty.
-/
namespace KoordVerif.C04

theorem groupOrSelf_ne_nil (self : GangId) (o : Option (List GangId)) : groupOrSelf self o ≠ [] := by
  cases o with
  | none => simp [groupOrSelf]
  | some l => cases l <;> simp [groupOrSelf]

theorem insSorted_ne_nil (x : Nat) (l : List Nat) : insSorted x l ≠ [] := by
  cases l with
  | nil => simp [insSorted]
  | cons y ys =>
    unfold insSorted
    split <;> simp

theorem sortNat_ne_nil {l : List Nat} (h : l ≠ []) : sortNat l ≠ [] := by
  cases l with
  | nil => exact absurd rfl h
  | cons x xs =>
    unfold sortNat
    simp only [List.foldr_cons]
    exact insSorted_ne_nil _ _

/-- a property of single gangs, on all cached gangs -/
def AllGang (P : Gang → Prop) (gs : List Gang) : Prop := ∀ g ∈ gs, P g

def GroupNE (g : Gang) : Prop := g.group ≠ []

theorem allGang_updGang {P : Gang → Prop} {gs : List Gang} {id : GangId} {f : Gang → Gang}
    (h : AllGang P gs) (hf : ∀ g ∈ gs, P (f g)) : AllGang P (updGang gs id f) := by
  intro g' hg'
  rcases mem_updGang hg' with ⟨g, hg, rfl⟩
  split
  · exact hf g hg
  · exact h g hg

theorem groupNE_updGang_keep {gs : List Gang} {id : GangId} {f : Gang → Gang}
    (h : AllGang GroupNE gs) (hf : ∀ g, (f g).group = g.group) : AllGang GroupNE (updGang gs id f) :=
  allGang_updGang h (fun g hg => by unfold GroupNE; rw [hf g]; exact h g hg)

theorem applyCfg_groupNE (d : Nat) (g : Gang) (c : Cfg) (b : Bool) : GroupNE (applyCfg d g c b) := by
  unfold GroupNE applyCfg
  exact sortNat_ne_nil (groupOrSelf_ne_nil _ _)

theorem groupNE_ensureGang (s : State) (id : GangId) (h : AllGang GroupNE s.gangs) :
    AllGang GroupNE (ensureGang s id).gangs := by
  unfold ensureGang
  split
  · exact h
  · intro g hg
    simp only [List.mem_append, List.mem_singleton] at hg
    rcases hg with hg | rfl
    · exact h g hg
    · simp [GroupNE, newGang]

theorem groupNE_attachInfo (s : State) (id : GangId) (h : AllGang GroupNE s.gangs) :
    AllGang GroupNE (attachInfo s id).gangs := by
  unfold attachInfo
  split
  · exact h
  next g0 hg0 =>
    simp only
    rw [ensureInfo_gangs]
    apply allGang_updGang h
    intro g _
    exact sortNat_ne_nil (h g0 (mem_of_findGang hg0).1)

theorem groupNE_pgApply (s : State) (id : GangId) (c : Cfg) (h : AllGang GroupNE s.gangs) :
    AllGang GroupNE (pgApply s id c).gangs := by
  unfold pgApply
  apply groupNE_attachInfo
  exact allGang_updGang h (fun g _ => applyCfg_groupNE s.dflt g c false)

theorem groupNE_removeGang (s : State) (g : Gang) (h : AllGang GroupNE s.gangs) :
    AllGang GroupNE (removeGang s g).gangs := by
  unfold removeGang
  intro x hx
  exact h x (List.mem_filter.mp hx).1

theorem groupNE_podEvt (s : State) (p : Pod) (id : GangId) (n : Bool) (anno : Option (Bool × Cfg))
    (h : AllGang GroupNE s.gangs) : AllGang GroupNE (podEvt s p id n anno).gangs := by
  have h0 := groupNE_ensureGang s id h
  have h1 : AllGang GroupNE
      (match anno with
        | none => ensureGang s id
        | some (minOK, c) =>
          attachInfo { ensureGang s id with gangs := updGang (ensureGang s id).gangs id (fun g =>
            if g.init = false ∧ minOK = true then applyCfg s.dflt g c true else g) } id).gangs := by
    cases anno with
    | none => exact h0
    | some a =>
      obtain ⟨minOK, c⟩ := a
      apply groupNE_attachInfo
      apply allGang_updGang h0
      intro g hg
      split
      · exact applyCfg_groupNE s.dflt g c true
      · exact h0 g hg
  unfold podEvt
  simp only
  cases n with
  | false =>
    simp only [Bool.false_eq_true, if_false]
    exact groupNE_updGang_keep h1 (fun _ => rfl)
  | true =>
    simp only [if_true]
    rw [satGang_gangs]
    simp only
    exact groupNE_updGang_keep (groupNE_updGang_keep h1 (fun _ => rfl)) (fun _ => rfl)

theorem groupNE_step (s : State) (op : Op) (h : AllGang GroupNE s.gangs) :
    AllGang GroupNE (step s op).1.gangs := by
  cases op with
  | pgAdd g c => exact groupNE_pgApply _ g c (groupNE_ensureGang s g h)
  | pgUpd g c =>
    simp only [step]
    unfold pgUpd
    split
    · exact h
    · exact groupNE_pgApply s g c h
  | pgDel g =>
    simp only [step]
    unfold pgDel
    split
    · exact h
    · exact groupNE_removeGang s _ h
  | podEvt p g n a => exact groupNE_podEvt s p g n a h
  | podDel p g =>
    simp only [step]
    unfold podDel
    split
    · exact h
    · simp only
      have h1 : AllGang GroupNE (updGang s.gangs g (fun x => x.deletePod p)) :=
        groupNE_updGang_keep h (fun _ => rfl)
      split
      · exact groupNE_removeGang _ _ h1
      · exact h1
  | permit p g =>
    simp only [step]
    unfold permit
    split
    · exact h
    · simp only
      have h1 : AllGang GroupNE (updGang s.gangs g (fun x => x.addAssumed p)) :=
        groupNE_updGang_keep h (fun _ => rfl)
      split
      · exact h1
      · exact h1
  | unreserve p g =>
    simp only [step]
    unfold unreserve
    simp only
    split
    · exact h
    · have h1 : AllGang GroupNE (updGang (fwRemove s p).gangs g (fun x => x.delAssumed p)) :=
        groupNE_updGang_keep h (fun _ => rfl)
      split
      · simp only
        rw [rejectGroup_gangs]
        exact h1
      · exact h1
  | postBind p g =>
    simp only [step]
    unfold postBind
    simp only
    split
    · exact h
    · rw [satGang_gangs]
      exact groupNE_updGang_keep h (fun _ => rfl)
  | postFilter p g =>
    simp only [step]
    rw [postFilter_gangs]
    exact h
  | nop => exact h

theorem groupNE_run (s : State) (ops : List Op) (h : AllGang GroupNE s.gangs) :
    AllGang GroupNE (run s ops).gangs := by
  induction ops generalizing s with
  | nil => exact h
  | cons o os ih => exact ih _ (groupNE_step s o h)

end KoordVerif.C04
