import KoordVerif.Proofs.C01Step
/-
C01: propagation with self index −1 (used by delete / re-parent / min,max update): it repairs a childRequest
(resp. used) equation of the head group that is off by exactly the propagated delta.
-/
namespace KoordVerif.C01

/-- request side: everything holds except that the children sum of `g` changed by (`d`, `dnp`) -/
def ReqOff (s : State) (g : Nat) (d dnp : Int) : Prop :=
  ∀ m q, get? s m = some q →
    q.selfRequest = podSum (fun _ => true) q.pods ∧
    q.selfNpRequest = podSum (fun p => p.np) q.pods ∧
    dCR s m q + (if m = g then d else 0) = 0 ∧ dNpReq s m q + (if m = g then dnp else 0) = 0 ∧
    (m ≠ rootName → q.request = lendRule q q.childRequest)

def UsedOff (s : State) (g : Nat) (d dnp : Int) : Prop :=
  ∀ m q, get? s m = some q →
    q.selfUsed = podSum (fun p => p.assigned) q.pods ∧
    q.selfNpUsed = podSum (fun p => p.assigned && p.np) q.pods ∧
    dUsed s m q + (if m = g then d else 0) = 0 ∧ dNpUsed s m q + (if m = g then dnp else 0) = 0

theorem reqOff_zero {s : State} {g : Nat} : ReqOff s g 0 0 ↔ ReqInv s := by
  constructor
  · intro h m q hq
    obtain ⟨a, b, c, d, e⟩ := h m q hq
    exact ⟨a, b, by simpa using c, by simpa using d, e⟩
  · intro h m q hq
    have := h m q hq
    exact ⟨this.selfReq, this.selfNpReq, by simpa using this.cr, by simpa using this.npReq, this.rule⟩

theorem usedOff_zero {s : State} {g : Nat} : UsedOff s g 0 0 ↔ UsedInv s := by
  constructor
  · intro h m q hq
    obtain ⟨a, b, c, d⟩ := h m q hq
    exact ⟨a, b, by simpa using c, by simpa using d⟩
  · intro h m q hq
    have := h m q hq
    exact ⟨this.selfUsed, this.selfNpUsed, by simpa using this.used, by simpa using this.npUsed⟩

private theorem ite_swap (n m : Nat) (x : Int) : (if n = m then x else 0) = (if m = n then x else 0) := by
  by_cases hmn : m = n
  · subst hmn; simp
  · have : ¬ n = m := fun e => hmn e.symm
    simp [hmn, this]

theorem propReq_top {s : State} {pth : List Nat} {g : Nat} {d dnp : Int}
    (hc : Chain s pth) (hnd : pth.Nodup) (hh : pth.head? = some g)
    (ht : TreeOK (tree s)) (hpar : ParamsOK s) (hoff : ReqOff s g d dnp) :
    propReq s pth false d dnp = propReqW id s pth false d dnp ∧
    ReqInv (propReq s pth false d dnp) ∧
    (∀ u a b, UsedOff s u a b → UsedOff (propReq s pth false d dnp) u a b) ∧
    tree (propReq s pth false d dnp) = tree s ∧ ParamsOK (propReq s pth false d dnp) := by
  have hfr := propReq_frame pth s false d dnp hc hnd
  have htree : tree (propReqW id s pth false d dnp) = tree s :=
    propReqW_map _ (fun q q' h => by simp [h.name, h.parent]) id pth s false d dnp
  have hpar' : ParamsOK (propReqW id s pth false d dnp) :=
    paramsOK_of_map (propReqW_map _ (fun q q' h => by simp [h.max, h.pods]) id pth s false d dnp) hpar
  have hinv : ReqInv (propReqW id s pth false d dnp) := by
    intro m q' hq'
    cases hq : get? s m with
    | none => rw [(hfr m).1 hq] at hq'; cases hq'
    | some q =>
      obtain ⟨q'', h1, h2, h3, h4, h5, h6, h7, _⟩ := (hfr m).2 q hq
      rw [h1] at hq'; cases hq'
      obtain ⟨a, b, c, e, f⟩ := hoff m q hq
      simp [hh] at h3 h4 h5 h6
      rw [ite_swap] at h5 h6
      refine ⟨by rw [h3, h2.pods, a], by rw [h4, h2.pods, b], by omega, by omega, fun hr => h7 hr (Or.inr (f hr))⟩
  have hnn := reqInv_nonneg (htree ▸ ht) hpar' hinv
  have heq : propReq s pth false d dnp = propReqW id s pth false d dnp :=
    propReq_noclamp pth s false d dnp hnd (fun m _ q' hq' =>
      ⟨(hnn m q' hq').cr, (hnn m q' hq').npRequest, (hnn m q' hq').selfRequest, (hnn m q' hq').selfNpRequest⟩)
  rw [heq]
  refine ⟨rfl, hinv, ?_, htree, hpar'⟩
  intro u a0 b0 hu m q' hq'
  cases hq : get? s m with
  | none => rw [(hfr m).1 hq] at hq'; cases hq'
  | some q =>
    obtain ⟨q'', h1, h2, _⟩ := (hfr m).2 q hq
    rw [h1] at hq'; cases hq'
    obtain ⟨a, b, c, e⟩ := hu m q hq
    have k1 := sumKids_eq_of_map (·.used) m s _ (propReqW_map (fun q => (q.parent, q.used))
      (fun q q' h => by simp [h.parent, h.used]) id pth s false d dnp)
    have k2 := sumKids_eq_of_map (·.npUsed) m s _ (propReqW_map (fun q => (q.parent, q.npUsed))
      (fun q q' h => by simp [h.parent, h.npUsed]) id pth s false d dnp)
    refine ⟨by rw [h2.selfUsed, h2.pods]; exact a, by rw [h2.selfNpUsed, h2.pods]; exact b, ?_, ?_⟩
    · simp only [dUsed, k1, h2.used, h2.selfUsed] at c ⊢; exact c
    · simp only [dNpUsed, k2, h2.npUsed, h2.selfNpUsed] at e ⊢; exact e

theorem propUsed_top {s : State} {pth : List Nat} {g : Nat} {d dnp : Int}
    (hc : Chain s pth) (hnd : pth.Nodup) (hh : pth.head? = some g)
    (ht : TreeOK (tree s)) (hpar : ParamsOK s) (hoff : UsedOff s g d dnp) :
    propUsed s pth false d dnp = propUsedW id s pth false d dnp ∧
    UsedInv (propUsed s pth false d dnp) ∧
    (∀ u a b, ReqOff s u a b → ReqOff (propUsed s pth false d dnp) u a b) ∧
    tree (propUsed s pth false d dnp) = tree s ∧ ParamsOK (propUsed s pth false d dnp) := by
  have hfr := propUsed_frame pth s false d dnp hc hnd
  have htree : tree (propUsedW id s pth false d dnp) = tree s :=
    propUsedW_map _ (fun q q' h => by simp [h.name, h.parent]) id pth s false d dnp
  have hpar' : ParamsOK (propUsedW id s pth false d dnp) :=
    paramsOK_of_map (propUsedW_map _ (fun q q' h => by simp [h.max, h.pods]) id pth s false d dnp) hpar
  have hinv : UsedInv (propUsedW id s pth false d dnp) := by
    intro m q' hq'
    cases hq : get? s m with
    | none => rw [(hfr m).1 hq] at hq'; cases hq'
    | some q =>
      obtain ⟨q'', h1, h2, h3, h4, h5, h6⟩ := (hfr m).2 q hq
      rw [h1] at hq'; cases hq'
      obtain ⟨a, b, c, e⟩ := hoff m q hq
      simp [hh] at h3 h4 h5 h6
      rw [ite_swap] at h5 h6
      exact ⟨by rw [h3, h2.pods, a], by rw [h4, h2.pods, b], by omega, by omega⟩
  have hnn := usedInv_nonneg (htree ▸ ht) hpar' hinv
  have heq : propUsed s pth false d dnp = propUsedW id s pth false d dnp :=
    propUsed_noclamp pth s false d dnp hnd (fun m _ q' hq' =>
      ⟨(hnn m q' hq').used, (hnn m q' hq').npUsed, (hnn m q' hq').selfUsed, (hnn m q' hq').selfNpUsed⟩)
  rw [heq]
  refine ⟨rfl, hinv, ?_, htree, hpar'⟩
  intro u a0 b0 hu m q' hq'
  cases hq : get? s m with
  | none => rw [(hfr m).1 hq] at hq'; cases hq'
  | some q =>
    obtain ⟨q'', h1, h2, _⟩ := (hfr m).2 q hq
    rw [h1] at hq'; cases hq'
    obtain ⟨a, b, c, e, f⟩ := hu m q hq
    have k1 := sumKids_eq_of_map Quota.limited m s _ (propUsedW_map (fun q => (q.parent, q.limited))
      (fun q q' h => by simp [Quota.limited, h.parent, h.max, h.request]) id pth s false d dnp)
    have k2 := sumKids_eq_of_map (·.npRequest) m s _ (propUsedW_map (fun q => (q.parent, q.npRequest))
      (fun q q' h => by simp [h.parent, h.npRequest]) id pth s false d dnp)
    have hcr : crOf q' = crOf q := by simp [crOf, h2.name, h2.request, h2.childRequest]
    refine ⟨by rw [h2.selfRequest, h2.pods]; exact a, by rw [h2.selfNpRequest, h2.pods]; exact b, ?_, ?_, ?_⟩
    · simp only [dCR, k1, hcr, h2.selfRequest] at c ⊢; exact c
    · simp only [dNpReq, k2, h2.npRequest, h2.selfNpRequest] at e ⊢; exact e
    · intro hr; rw [h2.request, h2.childRequest, lendRule_congr h2.lend h2.min]; exact f hr

end KoordVerif.C01
