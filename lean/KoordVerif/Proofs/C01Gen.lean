import KoordVerif.Proofs.C01History
/-
C01: the propagation lemmas in full generality — per-group pending pod-sum differences (a, b), per-group
children-sum differences (k, kn) and a set R of groups whose request already follows the lend/min rule.
Needed for re-parenting and the rebuild, where several equations are off at the same time.
-/
namespace KoordVerif.C01

def RNN (s : State) : Prop := ∀ m q, get? s m = some q → RNonneg q
def UNN (s : State) : Prop := ∀ m q, get? s m = some q → UNonneg q

theorem reqNonneg_gen {s : State} (ht : TreeOK (tree s)) (hmax : ∀ q ∈ s, ∀ m, q.max = some m → 0 ≤ m)
    (hl : ∀ m q, get? s m = some q → 0 ≤ q.selfRequest ∧ 0 ≤ q.selfNpRequest ∧
      ((dCR s m q = 0 ∧ dNpReq s m q = 0 ∧ (m ≠ rootName → q.request = lendRule q q.childRequest)) ∨
       (0 ≤ crOf q ∧ 0 ≤ q.npRequest ∧ 0 ≤ q.request))) : RNN s := by
  obtain ⟨h, hrank⟩ := ht.ranked
  suffices H : ∀ n, ∀ m q, h m < n → get? s m = some q → RNonneg q from
    fun m q hq => H (h m + 1) m q (by omega) hq
  intro n
  induction n with
  | zero => intro m q hlt; omega
  | succ n ih =>
    intro m q hlt hq
    have hqn := get?_name hq
    have hkid : ∀ c ∈ s, c.parent = m → RNonneg c := by
      intro c hc hcp
      have := kid_rank ht hrank hq hc hcp
      exact ih c.name c (by omega) this.2
    obtain ⟨s1, s2, hor⟩ := hl m q hq
    rcases hor with ⟨e1, e2, hrule⟩ | ⟨d1, d2, d3⟩
    · have k1 : 0 ≤ sumKids Quota.limited m s := sumKids_nonneg _ _ _ (fun c hc hcp =>
        limit_nonneg (hkid c hc hcp).request (hmax c hc))
      have k2 : 0 ≤ sumKids (·.npRequest) m s := sumKids_nonneg _ _ _ (fun c hc hcp => (hkid c hc hcp).npRequest)
      simp only [dCR, dNpReq] at e1 e2
      have hcr : 0 ≤ crOf q := by omega
      have hreq : 0 ≤ q.request := by
        by_cases hr : m = rootName
        · simp only [crOf, hqn, hr, if_true] at hcr; exact hcr
        · have := hrule hr
          have h2 := lendRule_ge q q.childRequest
          simp only [crOf, hqn, hr, if_false] at hcr
          omega
      exact ⟨hcr, hreq, by omega, s1, s2⟩
    · exact ⟨d1, d3, d2, s1, s2⟩

theorem usedNonneg_gen {s : State} (ht : TreeOK (tree s))
    (hl : ∀ m q, get? s m = some q → 0 ≤ q.selfUsed ∧ 0 ≤ q.selfNpUsed ∧
      ((dUsed s m q = 0 ∧ dNpUsed s m q = 0) ∨ (0 ≤ q.used ∧ 0 ≤ q.npUsed))) : UNN s := by
  obtain ⟨h, hrank⟩ := ht.ranked
  suffices H : ∀ n, ∀ m q, h m < n → get? s m = some q → UNonneg q from
    fun m q hq => H (h m + 1) m q (by omega) hq
  intro n
  induction n with
  | zero => intro m q hlt; omega
  | succ n ih =>
    intro m q hlt hq
    have hkid : ∀ c ∈ s, c.parent = m → UNonneg c := by
      intro c hc hcp
      have := kid_rank ht hrank hq hc hcp
      exact ih c.name c (by omega) this.2
    obtain ⟨s3, s4, hor⟩ := hl m q hq
    rcases hor with ⟨e3, e4⟩ | ⟨d1, d2⟩
    · have k3 : 0 ≤ sumKids (·.used) m s := sumKids_nonneg _ _ _ (fun c hc hcp => (hkid c hc hcp).used)
      have k4 : 0 ≤ sumKids (·.npUsed) m s := sumKids_nonneg _ _ _ (fun c hc hcp => (hkid c hc hcp).npUsed)
      simp only [dUsed, dNpUsed] at e3 e4
      exact ⟨by omega, by omega, s3, s4⟩
    · exact ⟨d1, d2, s3, s4⟩

theorem propReqW_head (cl : Int → Int) {s : State} {g : Nat} {rest : List Nat} {self : Bool} {d dnp : Int} {q : Quota}
    (hq : get? s g = some q) (hg : g ∉ rest) :
    get? (propReqW cl s (g :: rest) self d dnp) g =
      some (if g = rootName then addReq cl q d dnp self else reqNode cl q d dnp self) := by
  have hqn := get?_name hq
  simp only [propReqW, hq]
  split
  · have hs := addReq_same q d dnp self cl
    exact get?_setq hq hs.name
  · have hs := reqNode_same q d dnp self cl
    rw [propReqW_get_notin cl rest _ false _ dnp g hg]
    exact get?_setq hq hs.name

theorem propUsedW_head (cl : Int → Int) {s : State} {g : Nat} {rest : List Nat} {self : Bool} {d dnp : Int} {q : Quota}
    (hq : get? s g = some q) (hg : g ∉ rest) :
    get? (propUsedW cl s (g :: rest) self d dnp) g = some (addUsed cl q d dnp self) := by
  simp only [propUsedW, hq]
  have hs := addUsed_same q d dnp self cl
  rw [propUsedW_get_notin cl rest _ false d dnp g hg]
  exact get?_setq hq hs.name

def ReqG (s : State) (a b k kn : Nat → Int) (R : Nat → Prop) : Prop :=
  ∀ m q, get? s m = some q →
    q.selfRequest + a m = podSum (fun _ => true) q.pods ∧
    q.selfNpRequest + b m = podSum (fun p => p.np) q.pods ∧
    dCR s m q + k m = 0 ∧ dNpReq s m q + kn m = 0 ∧
    (m ≠ rootName → R m → q.request = lendRule q q.childRequest)

def UsedG (s : State) (c d ku knu : Nat → Int) : Prop :=
  ∀ m q, get? s m = some q →
    q.selfUsed + c m = podSum (fun p => p.assigned) q.pods ∧
    q.selfNpUsed + d m = podSum (fun p => p.assigned && p.np) q.pods ∧
    dUsed s m q + ku m = 0 ∧ dNpUsed s m q + knu m = 0

theorem propReq_gen {s : State} {pth : List Nat} {n : Nat} {self : Bool} {d dnp : Int}
    {a b k kn : Nat → Int} {R : Nat → Prop}
    (hc : Chain s pth) (hnd : pth.Nodup) (hh : pth.head? = some n) (ht : TreeOK (tree s))
    (hmaxs : ∀ q ∈ s, ∀ m, q.max = some m → 0 ≤ m)
    (hg : ReqG s a b k kn R) (hnn : RNN s)
    (hself : ∀ q, get? s n = some q →
      0 ≤ q.selfRequest + (if self = true then d else 0) ∧ 0 ≤ q.selfNpRequest + (if self = true then dnp else 0))
    (hpathk : ∀ m ∈ pth, m ≠ n → k m = 0 ∧ kn m = 0)
    (hhead : (k n = (if self = true then 0 else d) ∧ kn n = (if self = true then 0 else dnp)) ∨
      (∀ q, get? s n = some q → 0 ≤ crOf q + d ∧ 0 ≤ q.npRequest + dnp)) :
    propReq s pth self d dnp = propReqW id s pth self d dnp ∧
    ReqG (propReq s pth self d dnp)
      (fun m => a m - (if m = n ∧ self = true then d else 0)) (fun m => b m - (if m = n ∧ self = true then dnp else 0))
      (fun m => k m - (if m = n ∧ self = false then d else 0)) (fun m => kn m - (if m = n ∧ self = false then dnp else 0))
      (fun m => R m ∨ m ∈ pth) ∧
    RNN (propReq s pth self d dnp) := by
  have hfr := propReq_frame pth s self d dnp hc hnd
  have htree : tree (propReqW id s pth self d dnp) = tree s :=
    propReqW_map _ (fun q q' h => by simp [h.name, h.parent]) id pth s self d dnp
  have hmaxs' : ∀ q ∈ propReqW id s pth self d dnp, ∀ m, q.max = some m → 0 ≤ m := by
    intro q' hq' m hm
    have hmap := propReqW_map (·.max) (fun q q' h => h.max) id pth s self d dnp
    have : q'.max ∈ s.map (·.max) := by rw [← hmap]; exact List.mem_map.mpr ⟨q', hq', rfl⟩
    obtain ⟨q, hq, he⟩ := List.mem_map.mp this
    exact hmaxs q hq m (by rw [he]; exact hm)
  have hsw : ∀ (x : Int) (m : Nat) (c : Prop) [Decidable c],
      (if some n = some m ∧ c then x else 0) = (if m = n ∧ c then x else 0) := by
    intro x m c _
    by_cases hmn : m = n
    · subst hmn; simp
    · have : ¬ n = m := fun e => hmn e.symm
      simp [hmn, this]
  have hall : ∀ m q', get? (propReqW id s pth self d dnp) m = some q' → ∃ q, get? s m = some q ∧ SameButReq q q' ∧
      q'.selfRequest = q.selfRequest + (if m = n ∧ self = true then d else 0) ∧
      q'.selfNpRequest = q.selfNpRequest + (if m = n ∧ self = true then dnp else 0) ∧
      dCR (propReqW id s pth self d dnp) m q' = dCR s m q + (if m = n ∧ self = false then d else 0) ∧
      dNpReq (propReqW id s pth self d dnp) m q' = dNpReq s m q + (if m = n ∧ self = false then dnp else 0) ∧
      (m ≠ rootName → (m ∈ pth ∨ q.request = lendRule q q.childRequest) → q'.request = lendRule q' q'.childRequest) ∧
      (m ∉ pth → q' = q) := by
    intro m q' hq'
    cases hq : get? s m with
    | none => rw [(hfr m).1 hq] at hq'; cases hq'
    | some q =>
      obtain ⟨q'', h1, h2, h3, h4, h5, h6, h7, h8⟩ := (hfr m).2 q hq
      rw [h1] at hq'; cases hq'
      rw [hh, hsw] at h3 h4 h5 h6
      exact ⟨q, rfl, h2, h3, h4, h5, h6, h7, h8⟩
  -- the head group after the run
  have hheadv : ∀ q, get? s n = some q → ∀ q', get? (propReqW id s pth self d dnp) n = some q' →
      crOf q' = crOf q + d ∧ q'.npRequest = q.npRequest + dnp := by
    intro q hq q' hq'
    cases pth with
    | nil => simp at hh
    | cons g rest =>
      simp at hh; subst hh
      have hgr : g ∉ rest := (List.nodup_cons.mp hnd).1
      rw [propReqW_head id hq hgr] at hq'
      have hqn := get?_name hq
      cases hq'
      by_cases hroot : g = rootName
      · simp only [hroot, if_true]
        have hs := addReq_same q d dnp self id
        constructor
        · simp only [crOf, hs.name, hqn, hroot, if_true]; cases self <;> simp [addReq]
        · cases self <;> simp [addReq]
      · simp only [hroot, if_false]
        have hs := reqNode_same q d dnp self id
        constructor
        · simp only [crOf, hs.name, hqn, hroot, if_false]; cases self <;> simp [reqNode, addReq]
        · cases self <;> simp [reqNode, addReq]
  have hnn' : RNN (propReqW id s pth self d dnp) := by
    apply reqNonneg_gen (htree ▸ ht) hmaxs'
    intro m q' hq'
    obtain ⟨q, hq, h2, h3, h4, h5, h6, h7, h8⟩ := hall m q' hq'
    obtain ⟨_, _, c1, c2, f⟩ := hg m q hq
    have hq_nn := hnn m q hq
    by_cases hmp : m ∈ pth
    · by_cases hmn : m = n
      · subst hmn
        obtain ⟨hs1, hs2⟩ := hself q hq
        refine ⟨by rw [h3]; simpa using hs1, by rw [h4]; simpa using hs2, ?_⟩
        rcases hhead with ⟨k1, k2⟩ | hdir
        · left
          refine ⟨?_, ?_, fun hr => h7 hr (Or.inl hmp)⟩
          · rw [h5]; cases self <;> simp_all <;> omega
          · rw [h6]; cases self <;> simp_all <;> omega
        · right
          obtain ⟨v1, v2⟩ := hheadv q hq q' hq'
          obtain ⟨w1, w2⟩ := hdir q hq
          refine ⟨by omega, by omega, ?_⟩
          by_cases hr : m = rootName
          · have : q'.request = crOf q' := by simp [crOf, h2.name, get?_name hq, hr]
            omega
          · have := h7 hr (Or.inl hmp)
            have h9 := lendRule_ge q' q'.childRequest
            have : crOf q' = q'.childRequest := by simp [crOf, h2.name, get?_name hq, hr]
            omega
      · obtain ⟨k1, k2⟩ := hpathk m hmp hmn
        simp only [hmn, false_and, if_false, Int.add_zero] at h3 h4 h5 h6
        refine ⟨by rw [h3]; exact hq_nn.selfRequest, by rw [h4]; exact hq_nn.selfNpRequest, Or.inl ⟨?_, ?_, fun hr => h7 hr (Or.inl hmp)⟩⟩
        · omega
        · omega
    · have := h8 hmp; subst this
      exact ⟨hq_nn.selfRequest, hq_nn.selfNpRequest, Or.inr ⟨hq_nn.cr, hq_nn.npRequest, hq_nn.request⟩⟩
  have heq : propReq s pth self d dnp = propReqW id s pth self d dnp :=
    propReq_noclamp pth s self d dnp hnd (fun m _ q' hq' =>
      ⟨(hnn' m q' hq').cr, (hnn' m q' hq').npRequest, (hnn' m q' hq').selfRequest, (hnn' m q' hq').selfNpRequest⟩)
  rw [heq]
  refine ⟨rfl, ?_, hnn'⟩
  intro m q' hq'
  obtain ⟨q, hq, h2, h3, h4, h5, h6, h7, h8⟩ := hall m q' hq'
  obtain ⟨a1, b1, c1, c2, f⟩ := hg m q hq
  dsimp only
  refine ⟨by rw [h2.pods, ← a1, h3]; omega, by rw [h2.pods, ← b1, h4]; omega, by rw [h5]; omega, by rw [h6]; omega, ?_⟩
  intro hr hR
  rcases hR with hR | hR
  · exact h7 hr (Or.inr (f hr hR))
  · exact h7 hr (Or.inl hR)

end KoordVerif.C01
