import KoordVerif.Proofs.C06ExtPreempt
import KoordVerif.Proofs.C06Ledger
/-
C06 extension round 6 — the dry-run view of the available CPUs: what GetAvailableCPUs(node, ∅, preemptible) returns
for a preemptor never contains a CPU of a pod that stays on the node.
-/
namespace KoordVerif.C06

/-- the CPUs the ledger records for pod `u` (preempt.go getPodAllocated). -/
def ledgerCpusOf (L : Ledger) (u : Nat) : List Nat :=
  match findPod L.pods u with
  | some p => p.cpus
  | none => []

theorem podAllocatedCPUs_eq (M : Mgr) (node uid : Nat) : podAllocatedCPUs M node uid = ledgerCpusOf (M.L node) uid := rfl

theorem findPod_of_mem_nodup : ∀ (pods : List PodAlloc) (v : PodAlloc), (pods.map (·.uid)).Nodup → v ∈ pods →
    findPod pods v.uid = some v
  | [], _, _, h => by simp at h
  | p :: ps, v, hnd, hv => by
    simp only [List.map_cons, List.nodup_cons] at hnd
    simp only [findPod]
    by_cases hp : p.uid = v.uid
    · rcases List.mem_cons.1 hv with h | h
      · subst h; simp
      · exfalso; apply hnd.1; rw [hp]; exact List.mem_map.2 ⟨v, h, rfl⟩
    · rcases List.mem_cons.1 hv with h | h
      · subst h; exact absurd rfl hp
      · simp only [hp, ↓reduceIte]; exact findPod_of_mem_nodup ps v hnd.2 h

/-- releasing a list of CPUs never lowers a ref-count by more than the CPU's multiplicity in the list. -/
theorem foldl_relCPU_ge (l : List Nat) :
    ∀ m, PosRefs m → ∀ c, refOf m c - cnt l c ≤ refOf (l.foldl relCPU m) c := by
  induction l with
  | nil => intro m _ c; simp [cnt]
  | cons x xs ih =>
    intro m h c
    have h1 := ih (relCPU m x) (posRefs_relCPU m x h) c
    have h2 := refOf_relCPU m x c h
    simp only [List.foldl_cons]
    rw [cnt_cons]
    split at h2 <;> rename_i hx
    · have : x = c := hx.1
      simp [this] at *; omega
    · by_cases hxc : x = c
      · simp [hxc] at *; omega
      · simp [hxc] at *; omega

theorem cnt_pos_of_mem {l : List Nat} {c : Nat} (h : c ∈ l) : 1 ≤ cnt l c := by
  unfold cnt
  have : 0 < l.count c := List.count_pos_iff.mpr h
  omega

theorem cnt_zero_of_not_mem {l : List Nat} {c : Nat} (h : c ∉ l) : cnt l c = 0 := by
  unfold cnt
  have : l.count c = 0 := List.count_eq_zero.mpr h
  omega

theorem holdCount_pos : ∀ (pods : List PodAlloc) (v : PodAlloc) (c : Nat), v ∈ pods → c ∈ v.cpus →
    1 ≤ holdCount pods c
  | [], _, _, h, _ => by simp at h
  | p :: ps, v, c, hv, hc => by
    unfold holdCount
    simp only [List.map_cons, isum_cons]
    have hrest : 0 ≤ isum (ps.map (fun p => cnt p.cpus c)) :=
      isum_map_nonneg _ _ (fun x _ => cnt_nonneg x.cpus c)
    rcases List.mem_cons.1 hv with h | h
    · subst h
      have := cnt_pos_of_mem hc
      omega
    · have := holdCount_pos ps v c h hc
      unfold holdCount at this
      have := cnt_nonneg p.cpus c
      omega

/-- **the dry-run view is safe**: with sharing limit one, a ledger that is the sum of its pods (`Inv`), no CPU recorded
    for two pods, and the preemptible state of a well-formed dry run (`DryInv`: exactly the CPUs of the pods removed and
    not reprieved), a CPU that GetAvailableCPUs(node, ∅, preemptible) reports is held by NO pod that stays. -/
theorem dry_available_not_held_core (topo : List Nat) (L : Ledger) (hinv : Inv L)
    (hd : CpusDisjoint (ledgerCpusOf L)) (a : PreAlloc) (s : List Nat) (hdry : DryInv (ledgerCpusOf L) a s)
    (c : Nat) (hc : c ∈ dryAvailable topo 1 L a) (v : PodAlloc) (hv : v ∈ L.pods) (hstay : v.uid ∉ s) :
    c ∉ v.cpus := by
  intro hcv
  have hfind : ledgerCpusOf L v.uid = v.cpus := by
    unfold ledgerCpusOf; rw [findPod_of_mem_nodup L.pods v hinv.uids hv]
  -- the ref-count after the preemptible CPUs are given back is below the limit
  have hav : refOf (a.preemptible.foldl relCPU L.cpus) c < 1 := by
    unfold dryAvailable availableCPUs at hc
    simp only [List.foldl_cons, List.foldl_nil, List.mem_filter, Bool.and_eq_true, Bool.not_eq_eq_eq_not,
      Bool.not_true] at hc
    have h1 := hc.2.1
    unfold refOf
    cases hg : cpuGet (a.preemptible.foldl relCPU L.cpus) c with
    | none => simp
    | some r => simp [hg] at h1; simpa using h1
  have hge := foldl_relCPU_ge a.preemptible L.cpus hinv.pos c
  have hheld : 1 ≤ refOf L.cpus c := by rw [hinv.refs c]; exact holdCount_pos L.pods v c hv hcv
  by_cases hp : c ∈ a.preemptible
  · -- a removed pod holds c too: two pods on one CPU
    have hadd := ((mem_preemptible a c).1 hp).1
    obtain ⟨u, hu, hcu⟩ := (hdry.2 c).1 hadd
    have : u = v.uid := hd u v.uid c hcu (by rw [hfind]; exact hcv)
    exact hstay (this ▸ hu)
  · have := cnt_zero_of_not_mem hp
    omega

end KoordVerif.C06
