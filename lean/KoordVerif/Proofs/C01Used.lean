import KoordVerif.Proofs.C01Base
/-
C01: exact effect ("frame") of the used-propagation `propUsedW id` along a parent chain.
-/
namespace KoordVerif.C01

/-- everything but the four used figures is the same -/
structure SameButUsed (q q' : Quota) : Prop where
  name : q'.name = q.name
  parent : q'.parent = q.parent
  isParent : q'.isParent = q.isParent
  lend : q'.lend = q.lend
  max : q'.max = q.max
  min : q'.min = q.min
  pods : q'.pods = q.pods
  request : q'.request = q.request
  npRequest : q'.npRequest = q.npRequest
  childRequest : q'.childRequest = q.childRequest
  selfRequest : q'.selfRequest = q.selfRequest
  selfNpRequest : q'.selfNpRequest = q.selfNpRequest

theorem SameButUsed.rfl' (q : Quota) : SameButUsed q q := by constructor <;> rfl

theorem SameButUsed.trans {a b c : Quota} (h1 : SameButUsed a b) (h2 : SameButUsed b c) : SameButUsed a c := by
  cases h1; cases h2; constructor <;> simp_all

theorem addUsed_same (q : Quota) (d dnp : Int) (self : Bool) (cl : Int → Int) : SameButUsed q (addUsed cl q d dnp self) := by
  cases self <;> constructor <;> simp [addUsed]

/-- defect of the local used equation of group `m` -/
def dUsed (s : State) (m : Nat) (q : Quota) : Int := q.used - q.selfUsed - sumKids (·.used) m s
def dNpUsed (s : State) (m : Nat) (q : Quota) : Int := q.npUsed - q.selfNpUsed - sumKids (·.npUsed) m s

/-- relation between the state before and after a used-propagation that starts at `g0` -/
def UsedRel (s s' : State) (g0 : Option Nat) (self : Bool) (d dnp : Int) : Prop :=
  ∀ m, (get? s m = none → get? s' m = none) ∧
    ∀ q, get? s m = some q → ∃ q', get? s' m = some q' ∧ SameButUsed q q' ∧
      q'.selfUsed = q.selfUsed + (if g0 = some m ∧ self = true then d else 0) ∧
      q'.selfNpUsed = q.selfNpUsed + (if g0 = some m ∧ self = true then dnp else 0) ∧
      dUsed s' m q' = dUsed s m q + (if g0 = some m ∧ self = false then d else 0) ∧
      dNpUsed s' m q' = dNpUsed s m q + (if g0 = some m ∧ self = false then dnp else 0)

theorem propUsed_frame : ∀ (path : List Nat) (s : State) (self : Bool) (d dnp : Int),
    Chain s path → path.Nodup →
    UsedRel s (propUsedW id s path self d dnp) path.head? self d dnp
  | [], s, self, d, dnp, _, _ => by
    intro m
    refine ⟨fun h => by simpa [propUsedW] using h, fun q hq => ⟨q, by simpa [propUsedW] using hq, SameButUsed.rfl' q, ?_⟩⟩
    simp [propUsedW]
  | g :: rest, s, self, d, dnp, hc, hnd => by
    obtain ⟨q, hq⟩ := Chain_head hc
    have hqn := get?_name hq
    have hsame := addUsed_same q d dnp self id
    have hq' : get? s (addUsed id q d dnp self).name = some q := by rw [hsame.name, hqn]; exact hq
    have hget := get?_set hq'
    have hsU := fun m => sumKids_set (·.used) m hq' hsame.parent
    have hsN := fun m => sumKids_set (·.npUsed) m hq' hsame.parent
    rw [hsame.name, hqn] at hget
    have f1 : (addUsed id q d dnp self).used = q.used + d := by cases self <;> simp [addUsed]
    have f2 : (addUsed id q d dnp self).npUsed = q.npUsed + dnp := by cases self <;> simp [addUsed]
    have f3 : (addUsed id q d dnp self).selfUsed = q.selfUsed + (if self = true then d else 0) := by
      cases self <;> simp [addUsed]
    have f4 : (addUsed id q d dnp self).selfNpUsed = q.selfNpUsed + (if self = true then dnp else 0) := by
      cases self <;> simp [addUsed]
    simp only [propUsedW, hq, List.head?_cons]
    cases rest with
    | nil =>
      obtain ⟨p, hp1, hp2⟩ := hc
      have hqp : q.parent = p := by simpa [par, hq] using hp1
      intro m
      simp only [propUsedW]
      rw [hget m]
      by_cases hm : m = g
      · subst hm
        refine ⟨fun h => by simp [hq] at h, fun q0 hq0 => ?_⟩
        rw [hq] at hq0; cases hq0
        refine ⟨_, by simp, hsame, ?_⟩
        have hne : q.parent ≠ m := by
          intro e; rw [hqp] at e; subst e; simp [par, hq] at hp2
        simp only [dUsed, dNpUsed, hsU, hsN, hne, if_false, f1, f2, f3, f4]
        cases self <;> simp <;> omega
      · have hgm : ¬ (some g = some m) := by simpa using fun e => hm e.symm
        refine ⟨fun h => by simpa [hm] using h, fun q0 hq0 => ⟨q0, by simpa [hm] using hq0, SameButUsed.rfl' q0, ?_⟩⟩
        have hne : q.parent ≠ m := by
          intro e; rw [hqp] at e; subst e; simp [par, hq0] at hp2
        simp [dUsed, dNpUsed, hsU, hsN, hne, hgm]
    | cons p rest' =>
      obtain ⟨_, hp1, hc'⟩ := hc
      have hqp : q.parent = p := by simpa [par, hq] using hp1
      have hgp : g ≠ p := by
        intro e; subst e; simp at hnd
      have hnd' : (p :: rest').Nodup := (List.nodup_cons.mp hnd).2
      have hc1 : Chain (set s (addUsed id q d dnp self)) (p :: rest') :=
        Chain_congr (par_set hq' hsame.parent) _ hc'
      have ih := propUsed_frame (p :: rest') (set s (addUsed id q d dnp self)) false d dnp hc1 hnd'
      intro m
      obtain ⟨ihn, ihs⟩ := ih m
      rw [hget m] at ihn ihs
      simp only [List.head?_cons] at ihs
      by_cases hm : m = g
      · subst hm
        refine ⟨fun h => by simp [hq] at h, fun q0 hq0 => ?_⟩
        rw [hq] at hq0; cases hq0
        obtain ⟨q', h1, h2, h3, h4, h5, h6⟩ := ihs (addUsed id q d dnp self) (by simp)
        refine ⟨q', h1, hsame.trans h2, ?_⟩
        have hne : q.parent ≠ m := by rw [hqp]; exact fun e => hgp e.symm
        have hpm : ¬ (some p = some m) := by simpa using fun e => hgp e.symm
        simp only [dUsed, dNpUsed, hsU, hsN, hne, if_false, f1, f2, f3, f4, hpm, false_and] at h3 h4 h5 h6
        simp only [dUsed, dNpUsed]
        cases self <;> simp at * <;> omega
      · have hgm : ¬ (some g = some m) := by simpa using fun e => hm e.symm
        simp only [hm, if_false] at ihn ihs
        refine ⟨ihn, fun q0 hq0 => ?_⟩
        obtain ⟨q', h1, h2, h3, h4, h5, h6⟩ := ihs q0 hq0
        refine ⟨q', h1, h2, ?_⟩
        simp only [hgm, false_and, if_false, Int.add_zero]
        simp only [Bool.false_eq_true, and_false, if_false, Int.add_zero] at h3 h4
        refine ⟨h3, h4, ?_⟩
        simp only [dUsed, dNpUsed, hsU, hsN, hqp, f1, f2] at h5 h6
        simp only [dUsed, dNpUsed]
        by_cases hpm : p = m
        · subst hpm; simp at h5 h6; omega
        · have : ¬ (some p = some m) := by simpa using hpm
          simp [hpm, this] at h5 h6; omega

end KoordVerif.C01
