import KoordVerif.Proofs.C01Clamp
/-
C01: a propagation that starts at the group whose pod set just changed re-establishes the local equations
(request side and used side are independent).
-/
namespace KoordVerif.C01

theorem set_map {α} (f : Quota → α) {s : State} {q q' : Quota} (h : get? s q'.name = some q) (hf : f q' = f q) :
    (set s q').map f = s.map f := by
  induction s with
  | nil => simp [get?] at h
  | cons x t ih =>
    simp only [get?] at h
    by_cases hx : x.name = q'.name
    · simp only [hx, if_true, Option.some.injEq] at h
      subst h
      simp [set, hx, hf]
    · simp only [hx, if_false] at h
      simp [set, hx, ih h]

theorem propReqW_map {α} (f : Quota → α) (hf : ∀ q q', SameButReq q q' → f q' = f q) (cl : Int → Int) :
    ∀ (path : List Nat) (s : State) (self : Bool) (d dnp : Int), (propReqW cl s path self d dnp).map f = s.map f
  | [], s, _, _, _ => by simp [propReqW]
  | g :: rest, s, self, d, dnp => by
    simp only [propReqW]
    cases hq : get? s g with
    | none => rfl
    | some q =>
      simp only
      have hqn := get?_name hq
      split
      · have hs := addReq_same q d dnp self cl
        exact set_map f (by rw [hs.name, hqn]; exact hq) (hf _ _ hs)
      · have hs := reqNode_same q d dnp self cl
        rw [propReqW_map f hf cl rest]
        exact set_map f (by rw [hs.name, hqn]; exact hq) (hf _ _ hs)

theorem propUsedW_map {α} (f : Quota → α) (hf : ∀ q q', SameButUsed q q' → f q' = f q) (cl : Int → Int) :
    ∀ (path : List Nat) (s : State) (self : Bool) (d dnp : Int), (propUsedW cl s path self d dnp).map f = s.map f
  | [], s, _, _, _ => by simp [propUsedW]
  | g :: rest, s, self, d, dnp => by
    simp only [propUsedW]
    cases hq : get? s g with
    | none => rfl
    | some q =>
      simp only
      have hqn := get?_name hq
      have hs := addUsed_same q d dnp self cl
      rw [propUsedW_map f hf cl rest]
      exact set_map f (by rw [hs.name, hqn]; exact hq) (hf _ _ hs)

theorem sumKids_eq_of_map (v : Quota → Int) (g : Nat) : ∀ (s s' : State),
    s'.map (fun q => (q.parent, v q)) = s.map (fun q => (q.parent, v q)) → sumKids v g s' = sumKids v g s
  | [], [], _ => rfl
  | [], _ :: _, h => by simp at h
  | _ :: _, [], h => by simp at h
  | x :: t, y :: t', h => by
    simp only [List.map_cons, List.cons.injEq, Prod.mk.injEq] at h
    simp only [sumKids, h.1.1, h.1.2, sumKids_eq_of_map v g t t' h.2]

theorem paramsOK_of_map {s s' : State} (h : s'.map (fun q => (q.max, q.pods)) = s.map (fun q => (q.max, q.pods)))
    (hp : ParamsOK s) : ParamsOK s' := by
  intro q' hq'
  have : (q'.max, q'.pods) ∈ s.map (fun q => (q.max, q.pods)) := by
    rw [← h]; exact List.mem_map.mpr ⟨q', hq', rfl⟩
  obtain ⟨q, hq, he⟩ := List.mem_map.mp this
  simp only [Prod.mk.injEq] at he
  rw [← he.1, ← he.2]
  exact hp q hq

/-- request side: all equations hold, except that the cached pods of `n` changed by (`d`, `dnp`) -/
def ReqPend (s : State) (n : Nat) (d dnp : Int) : Prop :=
  ∀ m q, get? s m = some q →
    q.selfRequest + (if m = n then d else 0) = podSum (fun _ => true) q.pods ∧
    q.selfNpRequest + (if m = n then dnp else 0) = podSum (fun p => p.np) q.pods ∧
    dCR s m q = 0 ∧ dNpReq s m q = 0 ∧ (m ≠ rootName → q.request = lendRule q q.childRequest)

/-- used side, same shape -/
def UsedPend (s : State) (n : Nat) (d dnp : Int) : Prop :=
  ∀ m q, get? s m = some q →
    q.selfUsed + (if m = n then d else 0) = podSum (fun p => p.assigned) q.pods ∧
    q.selfNpUsed + (if m = n then dnp else 0) = podSum (fun p => p.assigned && p.np) q.pods ∧
    dUsed s m q = 0 ∧ dNpUsed s m q = 0

theorem reqPend_zero {s : State} {n : Nat} : ReqPend s n 0 0 ↔ ReqInv s := by
  constructor
  · intro h m q hq
    obtain ⟨a, b, c, d, e⟩ := h m q hq
    exact ⟨by simpa using a, by simpa using b, c, d, e⟩
  · intro h m q hq
    have := h m q hq
    exact ⟨by simpa using this.selfReq, by simpa using this.selfNpReq, this.cr, this.npReq, this.rule⟩

theorem usedPend_zero {s : State} {n : Nat} : UsedPend s n 0 0 ↔ UsedInv s := by
  constructor
  · intro h m q hq
    obtain ⟨a, b, c, d⟩ := h m q hq
    exact ⟨by simpa using a, by simpa using b, c, d⟩
  · intro h m q hq
    have := h m q hq
    exact ⟨by simpa using this.selfUsed, by simpa using this.selfNpUsed, this.used, this.npUsed⟩

/-- what a propagation never touches -/
structure Kept (s s' : State) : Prop where
  tree : tree s' = tree s
  params : ParamsOK s → ParamsOK s'
  names : ∀ m, (get? s' m).isSome = (get? s m).isSome

/-- Request propagation from the group whose pod set changed (self index 0): re-establishes every request
equation, fires no clamp (the clamped run IS the exact run), leaves the used side alone. -/
theorem propReq_self {s : State} {pth : List Nat} {n : Nat} {d dnp : Int}
    (hc : Chain s pth) (hnd : pth.Nodup) (hh : pth.head? = some n)
    (ht : TreeOK (tree s)) (hpar : ParamsOK s) (hpend : ReqPend s n d dnp) :
    propReq s pth true d dnp = propReqW id s pth true d dnp ∧
    ReqInv (propReq s pth true d dnp) ∧
    (∀ u a b, UsedPend s u a b → UsedPend (propReq s pth true d dnp) u a b) ∧
    tree (propReq s pth true d dnp) = tree s ∧ ParamsOK (propReq s pth true d dnp) := by
  have hfr := propReq_frame pth s true d dnp hc hnd
  have htree : tree (propReqW id s pth true d dnp) = tree s :=
    propReqW_map _ (fun q q' h => by simp [h.name, h.parent]) id pth s true d dnp
  have hpar' : ParamsOK (propReqW id s pth true d dnp) :=
    paramsOK_of_map (propReqW_map _ (fun q q' h => by simp [h.max, h.pods]) id pth s true d dnp) hpar
  have hinv : ReqInv (propReqW id s pth true d dnp) := by
    intro m q' hq'
    cases hq : get? s m with
    | none => rw [(hfr m).1 hq] at hq'; cases hq'
    | some q =>
      obtain ⟨q'', h1, h2, h3, h4, h5, h6, h7, _⟩ := (hfr m).2 q hq
      rw [h1] at hq'; cases hq'
      obtain ⟨a, b, c, e, f⟩ := hpend m q hq
      simp [hh] at h3 h4
      have hsw : ∀ x : Int, (if n = m then x else 0) = (if m = n then x else 0) := by
        intro x; by_cases hmn : m = n
        · subst hmn; simp
        · have : ¬ n = m := fun e => hmn e.symm
          simp [hmn, this]
      refine ⟨?_, ?_, ?_, ?_, fun hr => h7 hr (Or.inr (f hr))⟩
      · rw [h3, h2.pods, ← a, hsw]
      · rw [h4, h2.pods, ← b, hsw]
      · rw [h5, c]; simp
      · rw [h6, e]; simp
  have hnn := reqInv_nonneg (htree ▸ ht) hpar' hinv
  have heq : propReq s pth true d dnp = propReqW id s pth true d dnp :=
    propReq_noclamp pth s true d dnp hnd (fun m _ q' hq' =>
      ⟨(hnn m q' hq').cr, (hnn m q' hq').npRequest, (hnn m q' hq').selfRequest, (hnn m q' hq').selfNpRequest⟩)
  rw [heq]
  refine ⟨rfl, hinv, ?_, htree, hpar'⟩
  intro u a0 b0 hu m q' hq'
  cases hq : get? s m with
  | none => rw [(hfr m).1 hq] at hq'; cases hq'
  | some q =>
    obtain ⟨q'', h1, h2, _⟩ := (hfr m).2 q hq
    rw [h1] at hq'; cases hq'
    obtain ⟨a, b, c, e⟩ := hu m q hq
    have k1 := sumKids_eq_of_map (·.used) m s _ (propReqW_map (fun q => (q.parent, q.used))
      (fun q q' h => by simp [h.parent, h.used]) id pth s true d dnp)
    have k2 := sumKids_eq_of_map (·.npUsed) m s _ (propReqW_map (fun q => (q.parent, q.npUsed))
      (fun q q' h => by simp [h.parent, h.npUsed]) id pth s true d dnp)
    refine ⟨by rw [h2.selfUsed, h2.pods]; exact a, by rw [h2.selfNpUsed, h2.pods]; exact b, ?_, ?_⟩
    · simp only [dUsed, k1, h2.used, h2.selfUsed] at c ⊢; exact c
    · simp only [dNpUsed, k2, h2.npUsed, h2.selfNpUsed] at e ⊢; exact e

/-- Used propagation from the group whose assigned pod set changed. -/
theorem propUsed_self {s : State} {pth : List Nat} {n : Nat} {d dnp : Int}
    (hc : Chain s pth) (hnd : pth.Nodup) (hh : pth.head? = some n)
    (ht : TreeOK (tree s)) (hpar : ParamsOK s) (hpend : UsedPend s n d dnp) :
    propUsed s pth true d dnp = propUsedW id s pth true d dnp ∧
    UsedInv (propUsed s pth true d dnp) ∧
    (∀ u a b, ReqPend s u a b → ReqPend (propUsed s pth true d dnp) u a b) ∧
    tree (propUsed s pth true d dnp) = tree s ∧ ParamsOK (propUsed s pth true d dnp) := by
  have hfr := propUsed_frame pth s true d dnp hc hnd
  have htree : tree (propUsedW id s pth true d dnp) = tree s :=
    propUsedW_map _ (fun q q' h => by simp [h.name, h.parent]) id pth s true d dnp
  have hpar' : ParamsOK (propUsedW id s pth true d dnp) :=
    paramsOK_of_map (propUsedW_map _ (fun q q' h => by simp [h.max, h.pods]) id pth s true d dnp) hpar
  have hinv : UsedInv (propUsedW id s pth true d dnp) := by
    intro m q' hq'
    cases hq : get? s m with
    | none => rw [(hfr m).1 hq] at hq'; cases hq'
    | some q =>
      obtain ⟨q'', h1, h2, h3, h4, h5, h6⟩ := (hfr m).2 q hq
      rw [h1] at hq'; cases hq'
      obtain ⟨a, b, c, e⟩ := hpend m q hq
      simp [hh] at h3 h4
      have hsw : ∀ x : Int, (if n = m then x else 0) = (if m = n then x else 0) := by
        intro x; by_cases hmn : m = n
        · subst hmn; simp
        · have : ¬ n = m := fun e => hmn e.symm
          simp [hmn, this]
      refine ⟨?_, ?_, ?_, ?_⟩
      · rw [h3, h2.pods, ← a, hsw]
      · rw [h4, h2.pods, ← b, hsw]
      · rw [h5, c]; simp
      · rw [h6, e]; simp
  have hnn := usedInv_nonneg (htree ▸ ht) hpar' hinv
  have heq : propUsed s pth true d dnp = propUsedW id s pth true d dnp :=
    propUsed_noclamp pth s true d dnp hnd (fun m _ q' hq' =>
      ⟨(hnn m q' hq').used, (hnn m q' hq').npUsed, (hnn m q' hq').selfUsed, (hnn m q' hq').selfNpUsed⟩)
  rw [heq]
  refine ⟨rfl, hinv, ?_, htree, hpar'⟩
  intro u a0 b0 hu m q' hq'
  cases hq : get? s m with
  | none => rw [(hfr m).1 hq] at hq'; cases hq'
  | some q =>
    obtain ⟨q'', h1, h2, _⟩ := (hfr m).2 q hq
    rw [h1] at hq'; cases hq'
    obtain ⟨a, b, c, e, f⟩ := hu m q hq
    have k1 := sumKids_eq_of_map Quota.limited m s _ (propUsedW_map (fun q => (q.parent, q.limited))
      (fun q q' h => by simp [Quota.limited, h.parent, h.max, h.request]) id pth s true d dnp)
    have k2 := sumKids_eq_of_map (·.npRequest) m s _ (propUsedW_map (fun q => (q.parent, q.npRequest))
      (fun q q' h => by simp [h.parent, h.npRequest]) id pth s true d dnp)
    have hcr : crOf q' = crOf q := by simp [crOf, h2.name, h2.request, h2.childRequest]
    refine ⟨by rw [h2.selfRequest, h2.pods]; exact a, by rw [h2.selfNpRequest, h2.pods]; exact b, ?_, ?_, ?_⟩
    · simp only [dCR, k1, hcr, h2.selfRequest] at c ⊢; exact c
    · simp only [dNpReq, k2, h2.npRequest, h2.selfNpRequest] at e ⊢; exact e
    · intro hr; rw [h2.request, h2.childRequest, lendRule_congr h2.lend h2.min]; exact f hr

end KoordVerif.C01
