import KoordVerif.Proofs.C15ExtEdge
/- C15 (extension): the children's mins sum to at most the parent's min, with the code's two
   documented bypasses (labels allow-force-update / is-root) as explicit parts of the statement. -/
namespace KoordVerif.C15

/-! ### filtered sums over the record list -/

def sumF (f : QI → Int) (P : QI → Bool) (l : List QI) : Int := ((l.filter P).map f).sum

theorem sumF_nil (f : QI → Int) (P : QI → Bool) : sumF f P [] = 0 := rfl

theorem sumF_cons (f : QI → Int) (P : QI → Bool) (x : QI) (l : List QI) :
    sumF f P (x :: l) = (if P x = true then f x else 0) + sumF f P l := by
  unfold sumF
  by_cases h : P x = true
  · simp [h]
  · simp [h]

theorem sumF_mono {f : QI → Int} {P Q : QI → Bool} : ∀ {l : List QI}, (∀ x ∈ l, 0 ≤ f x) →
    (∀ x ∈ l, P x = true → Q x = true) → sumF f P l ≤ sumF f Q l
  | [], _, _ => by simp [sumF_nil]
  | x :: l, hnn, himp => by
    rw [sumF_cons, sumF_cons]
    have ih := sumF_mono (l := l) (fun y hy => hnn y (List.mem_cons_of_mem _ hy))
      (fun y hy => himp y (List.mem_cons_of_mem _ hy))
    have hx := hnn x (List.mem_cons_self ..)
    by_cases hp : P x = true
    · have hq := himp x (List.mem_cons_self ..) hp
      simp only [hp, hq, if_true]; omega
    · by_cases hq : Q x = true
      · simp only [hp, hq, if_true]; omega
      · simp only [hp, hq]; omega

theorem sumF_congr {f : QI → Int} {P Q : QI → Bool} {l : List QI} (h : ∀ x ∈ l, P x = Q x) :
    sumF f P l = sumF f Q l := by
  unfold sumF
  rw [List.filter_congr h]

theorem sumF_zero {f : QI → Int} {P : QI → Bool} {l : List QI} (h : ∀ x ∈ l, P x = false) : sumF f P l = 0 := by
  unfold sumF
  have : l.filter P = [] := List.filter_eq_nil_iff.mpr (fun x hx => by simp [h x hx])
  rw [this]; rfl

theorem sumF_filter (f : QI → Int) (P R : QI → Bool) (l : List QI) :
    sumF f P (l.filter R) = sumF f (fun c => P c && R c) l := by
  unfold sumF
  rw [List.filter_filter]

/-- replacing the single record named `q.name` by `q`. -/
theorem sumF_replace {f : QI → Int} {P : QI → Bool} {q : QI} : ∀ {l : List QI}, (l.map (·.name)).Nodup →
    (∃ o ∈ l, o.name = q.name) →
    sumF f P (replace l q) = sumF f (fun c => P c && c.name != q.name) l + (if P q = true then f q else 0)
  | [], _, h => by obtain ⟨o, ho, _⟩ := h; cases ho
  | x :: l, hnd, h => by
    simp only [List.map_cons, List.nodup_cons, List.mem_map, not_exists, not_and] at hnd
    by_cases hx : x.name = q.name
    · -- the tail has no record of that name: replace is the identity on it
      have hl : ∀ c ∈ l, c.name ≠ q.name := fun c hc e => hnd.1 c hc (e.trans hx.symm)
      have hrep : replace (x :: l) q = q :: l := by
        unfold replace
        simp only [List.map_cons, hx, if_true]
        congr 1
        calc l.map (fun c => if c.name = q.name then q else c) = l.map id :=
              List.map_congr_left (fun c hc => by simp [hl c hc])
          _ = l := List.map_id l
      rw [hrep, sumF_cons, sumF_cons]
      have h1 : sumF f (fun c => P c && c.name != q.name) l = sumF f P l :=
        sumF_congr (fun c hc => by simp [hl c hc])
      simp only [hx, bne_self_eq_false, Bool.and_false, Bool.false_eq_true, if_false, h1]
      omega
    · have hrep : replace (x :: l) q = x :: replace l q := by
        unfold replace; simp [hx]
      obtain ⟨o, ho, hon⟩ := h
      have ho' : o ∈ l := by
        simp only [List.mem_cons] at ho
        rcases ho with rfl | ho
        · exact absurd hon hx
        · exact ho
      rw [hrep, sumF_cons, sumF_cons, sumF_replace hnd.2 ⟨o, ho', hon⟩]
      have : (x.name != q.name) = true := by simpa using hx
      simp only [this, Bool.and_true]
      omega

/-! ### the invariant -/

/-- the request carried one of the two labels that make checkMinQuotaValidate return at once. -/
def byp (q : QI) : Bool := q.force || q.treeRoot

/-- sum over the recorded, non-bypassing children of `p` (dimension `k`). -/
def kidSum (info : List QI) (p k : Nat) : Int :=
  sumF (fun c => c.mn.val k) (fun c => c.parent == p && !byp c) info

/-- every recorded quota that did not bypass the check covers the mins of its non-bypassing children. -/
def MinSum (d : Nat) (s : Topo) : Prop :=
  ∀ p ∈ s.info, byp p = false → ∀ k, k < d → kidSum s.info p.name k ≤ p.mn.val k

def MinNonneg (d : Nat) (info : List QI) : Prop := ∀ c ∈ info, ∀ k, k < d → 0 ≤ c.mn.val k

theorem minSum_eq (s : Topo) (p : Nat) (skip : Option Nat) (k : Nat) :
    minSum s p skip k =
      sumF (fun c => c.mn.val k) (fun c => isKid s p c.name && !(some c.name == skip)) s.info := rfl

/-- the code's sum over all children except `x` dominates the sum over the non-bypassing ones. -/
theorem kidSum_le_minSum {s : Topo} (hF : Forest s) {p k : Nat} (x : Nat)
    (hnn : ∀ c ∈ s.info, 0 ≤ c.mn.val k) :
    sumF (fun c => c.mn.val k) (fun c => (c.parent == p && !byp c) && c.name != x) s.info ≤ minSum s p (some x) k := by
  rw [minSum_eq]
  apply sumF_mono hnn
  intro c hc h
  simp only [Bool.and_eq_true, beq_iff_eq, bne_iff_ne, ne_eq, Bool.not_eq_true'] at h
  have hk : isKid s p c.name = true := (isKid_iff hF hc).mpr h.1.1
  simp [hk, h.2]

theorem kidSum_le_minSum_none {s : Topo} (hF : Forest s) {p k : Nat}
    (hnn : ∀ c ∈ s.info, 0 ≤ c.mn.val k) : kidSum s.info p k ≤ minSum s p none k := by
  rw [minSum_eq]
  apply sumF_mono hnn
  intro c hc h
  simp only [Bool.and_eq_true, beq_iff_eq] at h
  have hk : isKid s p c.name = true := (isKid_iff hF hc).mpr h.1
  simp [hk]

theorem minCheck_up {d : Nat} {s : Topo} {q : QI} (hF : Forest s) (hb : byp q = false)
    (h : minCheck d s q = true) :
    ∀ p ∈ s.info, p.name = q.parent → ∀ k, k < d → minSum s q.parent (some q.name) k + q.mn.val k ≤ p.mn.val k := by
  intro p hp hpn k hk
  have hu := uniq_of_nodup hF.nodup
  unfold byp at hb
  simp only [Bool.or_eq_false_iff] at hb
  unfold minCheck at h
  simp only [hb.1, hb.2, Bool.false_eq_true, if_false, Bool.and_eq_true] at h
  have h1 := h.1
  have hp0 : q.parent ≠ 0 := by rw [← hpn]; exact hF.nonzero p hp
  have hf : find s.info q.parent = some p := by rw [← hpn]; exact find_mem hu hp
  simp only [hp0, if_false, hf, Bool.and_eq_true, allD_iff] at h1
  simpa using h1.2 k hk

theorem minCheck_down {d : Nat} {s : Topo} {q : QI} (hF : Forest s) (hb : byp q = false)
    (hnn : MinNonneg d s.info) (h : minCheck d s q = true) :
    ∀ k, k < d → kidSum s.info q.name k ≤ minSum s q.name none k ∧
      (hasKids s q.name = true → minSum s q.name none k ≤ q.mn.val k) := by
  intro k hk
  refine ⟨kidSum_le_minSum_none hF (fun c hc => hnn c hc k hk), ?_⟩
  intro hhk
  unfold byp at hb
  simp only [Bool.or_eq_false_iff] at hb
  unfold minCheck at h
  simp only [hb.1, hb.2, Bool.false_eq_true, if_false, Bool.and_eq_true] at h
  have h2 := h.2
  simp only [hhk, Bool.not_true, Bool.false_eq_true, if_false, Bool.and_eq_true, allD_iff] at h2
  simpa using h2.2 k hk

/-- no recorded child ⇒ the sum is empty. -/
theorem kidSum_nokids {info : List QI} {p k : Nat} (h : ∀ c ∈ info, c.parent ≠ p) : kidSum info p k = 0 := by
  unfold kidSum
  apply sumF_zero
  intro c hc
  simp [h c hc]

/-! ### preservation -/

theorem minsum_init (d : Nat) : MinSum d init := by
  intro p hp; simp [init] at hp

theorem minsum_add {d : Nat} {s : Topo} {q : QI} (hF : Forest s) (hM : MinSum d s)
    (hnn : MinNonneg d s.info) (hqn : ∀ k, k < d → 0 ≤ q.mn.val k) (hA : AddFacts d s q) :
    MinSum d (addState s q) := by
  intro p hp hb k hk
  simp only [addState, List.mem_cons] at hp ⊢
  unfold kidSum
  rw [sumF_cons]
  have hqself : (q.parent == p.name && !byp q) = true → q.parent = p.name ∧ byp q = false := by
    intro h; simpa using h
  rcases hp with rfl | hp
  · -- the new quota has no recorded children
    have h0 : kidSum s.info p.name k = 0 := kidSum_nokids hA.nopar
    unfold kidSum at h0
    have hs : (p.parent == p.name) = false := by simpa using hA.self
    simp only [hs, Bool.false_and, Bool.false_eq_true, if_false, h0]
    have := hqn k hk; omega
  · have ih := hM p hp hb k hk
    unfold kidSum at ih
    by_cases hc : (q.parent == p.name && !byp q) = true
    · obtain ⟨hqp, hqb⟩ := hqself hc
      rw [if_pos hc]
      have hp0 : q.parent ≠ 0 := by rw [hqp]; exact hF.nonzero p hp
      rcases hA.deep with ⟨h0, _⟩ | ⟨_, _, hmin⟩
      · exact absurd h0 hp0
      · have hup := minCheck_up hF hqb hmin p hp hqp.symm k hk
        -- all recorded children of p differ from the fresh name
        have hle : sumF (fun c => c.mn.val k) (fun c => c.parent == p.name && !byp c) s.info ≤
            minSum s q.parent (some q.name) k := by
          have := kidSum_le_minSum (p := p.name) hF q.name (fun c hc => hnn c hc k hk)
          rw [hqp]
          refine Int.le_trans (Int.le_of_eq ?_) this
          exact sumF_congr (fun c hc => by simp [hA.fresh c hc])
        omega
    · rw [if_neg hc]; omega

theorem minsum_upd {d : Nat} {s : Topo} {o q : QI} {hp : Bool} (hF : Forest s) (hM : MinSum d s)
    (hnn : MinNonneg d s.info) (hqn : ∀ k, k < d → 0 ≤ q.mn.val k) (hU : UpdFacts d s o q hp) :
    MinSum d (updState s o q) := by
  intro p hp hb k hk
  simp only [updState] at hp ⊢
  have hnnk : ∀ c ∈ s.info, 0 ≤ c.mn.val k := fun c hc => hnn c hc k hk
  unfold kidSum
  rw [sumF_replace hF.nodup ⟨o, hU.mem, hU.name⟩]
  rcases mem_replace hp with ⟨hpq, _⟩ | ⟨hp', hpn⟩
  · -- p = q : its recorded children
    subst hpq
    have hs : (p.parent == p.name) = false := by simpa using hU.self
    simp only [hs, Bool.false_and, Bool.false_eq_true, if_false, Int.add_zero]
    have hle : sumF (fun c => c.mn.val k) (fun c => (c.parent == p.name && !byp c) && c.name != p.name) s.info ≤
        kidSum s.info p.name k := by
      unfold kidSum
      exact sumF_mono hnnk (fun c _ h => by simp only [Bool.and_eq_true] at h; simpa using h.1)
    by_cases hhk : hasKids s p.name = true
    · rcases hU.deep with ⟨_, hip⟩ | ⟨_, _, hmin⟩
      · obtain ⟨c, hc, hcp⟩ := (hasKids_iff hF).mp hhk
        have := hU.keep c hc hcp
        rw [hip] at this; cases this
      · obtain ⟨h1, h2⟩ := minCheck_down hF hb hnn hmin k hk
        have := h2 hhk
        omega
    · have hnok : ∀ c ∈ s.info, c.parent ≠ p.name := by
        intro c hc e
        exact hhk ((hasKids_iff hF).mpr ⟨c, hc, e⟩)
      have h0 := kidSum_nokids (k := k) hnok
      have := hqn k hk
      omega
  · -- p is another record
    have ih := hM p hp' hb k hk
    have hle : sumF (fun c => c.mn.val k) (fun c => (c.parent == p.name && !byp c) && c.name != q.name) s.info ≤
        kidSum s.info p.name k := by
      unfold kidSum
      exact sumF_mono hnnk (fun c _ h => by simp only [Bool.and_eq_true] at h; simpa using h.1)
    by_cases hc : (q.parent == p.name && !byp q) = true
    · have ⟨hqp, hqb⟩ : q.parent = p.name ∧ byp q = false := by simpa using hc
      rw [if_pos hc]
      have hp0 : q.parent ≠ 0 := by rw [hqp]; exact hF.nonzero p hp'
      rcases hU.deep with ⟨h0, _⟩ | ⟨_, _, hmin⟩
      · exact absurd h0 hp0
      · have hup := minCheck_up hF hqb hmin p hp' hqp.symm k hk
        have := kidSum_le_minSum (p := p.name) hF q.name hnnk
        rw [hqp] at hup
        omega
    · rw [if_neg hc]; omega

theorem minsum_del {d : Nat} {s : Topo} {o : QI} {name : Nat} (hM : MinSum d s) (hnn : MinNonneg d s.info) :
    MinSum d (delState s o name) := by
  intro p hp hb k hk
  simp only [delState, List.mem_filter] at hp ⊢
  have ih := hM p hp.1 hb k hk
  unfold kidSum at ih ⊢
  rw [sumF_filter]
  refine Int.le_trans (sumF_mono (fun c hc => hnn c hc k hk) ?_) ih
  intro c _ h
  rw [Bool.and_eq_true] at h
  exact h.1

/-! ### reading: with no bypassing record, the plain statement -/

/-- sum of the mins of ALL recorded children of `p`. -/
def childMinSum (info : List QI) (p k : Nat) : Int := sumF (fun c => c.mn.val k) (fun c => c.parent == p) info

theorem minsum_plain {d : Nat} {s : Topo} (hM : MinSum d s) (hnb : ∀ c ∈ s.info, byp c = false) :
    ∀ p ∈ s.info, ∀ k, k < d → childMinSum s.info p.name k ≤ p.mn.val k := by
  intro p hp k hk
  have := hM p hp (hnb p hp) k hk
  unfold kidSum at this
  unfold childMinSum
  rw [sumF_congr (Q := fun c => c.parent == p.name && !byp c) (fun c hc => by simp [hnb c hc])]
  exact this

end KoordVerif.C15
