import KoordVerif.Props.C11
namespace KoordVerif.C11

/-! ### A.9 EvictTaskCheck — the per-task verdict reported after the run says "finished" exactly when the
    task's target is covered by what the whole trace credits. -/
theorem evict_task_check_iff_met (isEv : Nat → Bool) (script : List Bool) (tasks : List Task) (t : Task) :
    taskDone t (killAndEvict isEv script tasks).released = true ↔
      Met (aggOf tasks) t (killAndEvict isEv script tasks).logRev := by
  rw [← met_iff (kill_inv isEv script tasks) t]
  unfold taskDone
  constructor
  · intro h
    rcases Bool.or_eq_true_iff.mp h with h1 | h1
    · unfold remaining
      have : t.toRelease = [] := by simpa using h1
      simp [this]
    · exact h1
  · intro h; simp [h]

/-! ### E.4 no early stop, end to end (the Lean side of the oracle clause `C11:stops-before-target-covered`):
    for every task memoryEvict / cpuEvict runs, when its turn is over its target is covered by the credited
    releases, or every pod of its list has been credited or has had a failed eviction call of this task. -/
theorem mem_e2e_no_early_stop (allocF : Int → Int → Int → Int → Option Int) (c : MemCfg) (pods : List RawPod)
    (isEv : Nat → Bool) (script : List Bool) (st : St) (h : memoryEvict allocF c pods isEv script = some st)
    (f : MemFeature) (t : Task) (hft : (f, t) ∈ memTasks allocF c pods) :
    ∃ ti newer older, st.logRev = newer ++ older ∧
      (Met (aggOf ((memTasks allocF c pods).map (·.2))) t older ∨
        ∀ e ∈ t.pods, e.pod ∈ creditedPods older ∨ (⟨ti, e, .fail⟩ : Ev) ∈ older) := by
  unfold memoryEvict at h
  by_cases hemp : (memTasks allocF c pods).isEmpty = true <;> simp [hemp] at h
  subst h
  have hmem : t ∈ (memTasks allocF c pods).map (·.2) := List.mem_map.mpr ⟨(f, t), hft, rfl⟩
  obtain ⟨ti, hti⟩ := List.getElem?_of_mem hmem
  obtain ⟨newer, older, h1, h2⟩ := no_candidate_skipped isEv script _ ti t hti
  exact ⟨ti, newer, older, h1, h2⟩

theorem cpu_e2e_no_early_stop (usage : Int → Int → Int) (allocF : Int → Int → Int → Int → Option Int) (c : CpuCfg)
    (pods : List RawPod) (isEv : Nat → Bool) (script : List Bool) (st : St)
    (h : cpuEvict usage allocF c pods isEv script = some st)
    (f : CpuFeature) (t : Task) (hft : (f, t) ∈ cpuTasks usage allocF c pods) :
    ∃ ti newer older, st.logRev = newer ++ older ∧
      (Met (aggOf ((cpuTasks usage allocF c pods).map (·.2))) t older ∨
        ∀ e ∈ t.pods, e.pod ∈ creditedPods older ∨ (⟨ti, e, .fail⟩ : Ev) ∈ older) := by
  unfold cpuEvict at h
  by_cases hemp : (cpuTasks usage allocF c pods).isEmpty = true <;> simp [hemp] at h
  subst h
  have hmem : t ∈ (cpuTasks usage allocF c pods).map (·.2) := List.mem_map.mpr ⟨(f, t), hft, rfl⟩
  obtain ⟨ti, hti⟩ := List.getElem?_of_mem hmem
  obtain ⟨newer, older, h1, h2⟩ := no_candidate_skipped isEv script _ ti t hti
  exact ⟨ti, newer, older, h1, h2⟩

/-- the usage a victim of a usage-based memory task is credited with is the `MemoryUsed` of its list entry,
    i.e. `int64(metric)` bytes on BOTH paths after the repair (was ×1000 on the priority path): the entry
    built for a listed info carries `i.used`, and the task's function reads exactly that field. -/
theorem mem_usage_credit_is_used (pods : List RawPod) (midIn batchIn : Bool) (i : Info) (to : List (Nat × Int))
    (es : List Entry) :
    fnOut { target := 0, toRelease := to, fn := [(1, 0)], pods := es } (memEntry pods midIn batchIn i)
      = [((0, 1), i.used)] := by
  simp [fnOut, memEntry]

/-- non-vacuity of Part E and the repaired conversion: node at 90 % of 200 bytes, threshold 80 / lower 70
    ⇒ target 40 bytes; MemoryEvict on; three eligible koord-batch pods using 30, 20, 10 bytes (metrics
    30000, 20000, 10000 = ×1000).  Two victims (30 + 20 ≥ 40) — with the ×1000 credit one would have sufficed. -/
example :
    let mk (id : Nat) (m : Int) : RawPod :=
      { id := id, name := id, qosLabel := 0, kubeQoS := 1, phase := 1, specPrio := some 5500, clsLabel := 0,
        evictLabel := 1, evictPrio := .absent, prioLabel := .absent, policyTop := 0, policyElems := [],
        hasMetric := true, used := m, reqNative := 1, reqMid := 0, reqBatch := 0, batchReq := 0 }
    let c : MemCfg := { beOn := false, allocOn := false, memOn := true, thr := some 80, lower := some 70,
                        prioThr := some 5999, aThr := none, aLower := none, aPrioThr := none, capacity := 200,
                        nodeUsed := some 180, allocMem := none, allocBatch := none, allocMid := none }
    ((memoryEvict (fun _ _ _ _ => none) c [mk 0 10000, mk 1 30000, mk 2 20000] (fun _ => false) []).map
      fun st => st.logRev.reverse.map (fun ev => (ev.e.pod, ev.kind))) = some [(1, .ok), (2, .ok)] := by decide

end KoordVerif.C11
