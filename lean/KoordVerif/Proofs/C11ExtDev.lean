import KoordVerif.Props.C11
import KoordVerif.Model.C11Decode
namespace KoordVerif.C11

/-! ## Part D — decoding of labels / annotations (Model/C11Decode.lean) -/

/-! ### D.1 eviction priority: `strconv.ParseInt(value, 10, 32)` — a decimal literal inside the int32 range
    reads as itself, everything else (missing, malformed, OUT OF RANGE) as the implicit priority 0; it never
    wraps around. -/
theorem eviction_priority_decoding (t : NumText) :
    evictionPriority t =
      match t with
      | .literal v => if -2147483648 ≤ v ∧ v ≤ 2147483647 then v else 0
      | _ => 0 := by
  cases t with
  | absent => rfl
  | malformed => rfl
  | literal v =>
    simp only [evictionPriority, parseBits]
    have : ((2 : Int) ^ (32 - 1)) = 2147483648 := by decide
    rw [this]
    by_cases h : -2147483648 ≤ v ∧ v < 2147483648
    · have h' : -2147483648 ≤ v ∧ v ≤ 2147483647 := ⟨h.1, by omega⟩
      simp [h, h']
    · have h' : ¬ (-2147483648 ≤ v ∧ v ≤ 2147483647) := fun hh => h ⟨hh.1, by omega⟩
      simp [h, h']

theorem eviction_priority_out_of_range_is_zero (v : Int) (h : v < -2147483648 ∨ 2147483647 < v) :
    evictionPriority (.literal v) = 0 := by
  rw [eviction_priority_decoding]
  have : ¬ (-2147483648 ≤ v ∧ v ≤ 2147483647) := by omega
  simp [this]

/-! ### D.2 priority with default: a non-zero spec.priority is used as is; nil AND the explicit 0 read as the
    default of the pod's koordinator priority class (label, else priority range, else QoS). -/
theorem priority_default_by_class (spec : Option Int) (cls : PCls) :
    priorityWithDefault spec cls =
      match spec with
      | some p => if p = 0 then defaultPrio cls else p
      | none => defaultPrio cls := by
  cases spec with
  | none => rfl
  | some p => by_cases h : p = 0 <;> simp [priorityWithDefault, h]

theorem explicit_zero_priority_reads_as_class_default (cls : PCls) :
    priorityWithDefault (some 0) cls = defaultPrio cls ∧ priorityWithDefault none cls = defaultPrio cls := by
  constructor <;> rfl

/-- a priority-class label that is present decides alone; without it the priority range, then the QoS
    (label, else the Kubernetes QoS) decides. -/
theorem class_resolution (clsLabel : Nat) (spec : Option Int) (qosLabel kubeQoS : Nat) :
    clsWithDefault clsLabel spec qosLabel kubeQoS =
      (let raw := if clsLabel ≠ 0 then clsByName clsLabel else (spec.map clsByPriority).getD .none
       if raw ≠ .none then raw
       else clsByQoS (if qosByLabel qosLabel ≠ .none then qosByLabel qosLabel else qosByKube kubeQoS)) := by
  unfold clsWithDefault clsRaw qosWithDefault
  cases spec <;> simp

/-! ### D.3 policy opt-out: the pod stays evictable by the evaluated policy iff the annotation is absent, or
    it is a JSON array of strings (nulls allowed) that names the policy.  `null`, `[]`, an array with any
    non-string element (even if it also names the policy), any other JSON value and any non-JSON text all
    opt the pod OUT. -/
theorem policy_allowed_iff_shape (top : Nat) (elems : List Nat) :
    policyAllowed (policyOf top elems) = true ↔
      (top = 0 ∨ (top = 3 ∧ (∀ x ∈ elems, x < 3) ∧ 0 ∈ elems)) := by
  unfold policyOf
  match top with
  | 0 => simp [policyAllowed]
  | 1 => simp [policyAllowed]
  | 2 => simp [policyAllowed]
  | 3 =>
    by_cases h1 : elems.any (fun x => decide (x ≥ 3)) = true
    · simp only [h1, if_true, policyAllowed]
      simp at h1
      obtain ⟨x, hx, hx3⟩ := h1
      constructor
      · intro h; cases h
      · rintro (h | ⟨_, h, _⟩)
        · cases h
        · have := h x hx; omega
    · have h1' : ∀ x ∈ elems, x < 3 := by
        intro x hx
        simp at h1
        exact h1 x hx
      by_cases h2 : elems.contains 0 = true
      · simp only [h1, h2, if_true, policyAllowed]
        simp at h2
        simp [h2]
        exact h1'
      · simp only [h1, h2, policyAllowed]
        simp at h2
        simp [h2]
  | n + 4 => simp [policyAllowed]

/-! ### D.4 victims_eligible on the raw pod: a pod is put on a priority-based victim list iff it is Pending or
    Running, has not opted out (D.3), its defaulted priority (D.2) is not above the threshold, its
    eviction-enabled label is exactly "true", and it has a usage metric. -/
theorem raw_prio_victim_iff (threshold : Int) (rp : RawPod) :
    (prioInfo? threshold (decodePod rp)).isSome = true ↔
      (rp.phase ≤ 1 ∧ (rp.policyTop = 0 ∨ (rp.policyTop = 3 ∧ (∀ x ∈ rp.policyElems, x < 3) ∧ 0 ∈ rp.policyElems)) ∧
       priorityWithDefault rp.specPrio rp.cls ≤ threshold ∧ rp.evictLabel = 1 ∧ rp.hasMetric = true) := by
  rw [← policy_allowed_iff_shape]
  unfold prioInfo? decodePod
  by_cases h1 : rp.phase ≤ 1 <;> by_cases h2 : policyAllowed (policyOf rp.policyTop rp.policyElems) = true <;>
    by_cases h3 : priorityWithDefault rp.specPrio rp.cls > threshold <;> by_cases h4 : rp.evictLabel = 1 <;>
    by_cases h5 : rp.hasMetric = true <;> simp [h1, h2, h3, h4, h5] <;> omega

/-- the sort keys of a listed raw pod are the decoded ones (D.1, D.2; label priority falls back to the
    defaulted priority when missing, malformed or outside int64). -/
theorem raw_prio_victim_keys (threshold : Int) (rp : RawPod) (i : Info)
    (h : prioInfo? threshold (decodePod rp) = some i) :
    i.evictPrio = evictionPriority rp.evictPrio ∧ i.prio = priorityWithDefault rp.specPrio rp.cls ∧
    i.labelPrio = (priorityLabel rp.prioLabel).getD (priorityWithDefault rp.specPrio rp.cls) := by
  obtain ⟨pr, ⟨he, _⟩, hi⟩ := (prioInfo_some_iff threshold (decodePod rp) i).mp h
  have : pr = priorityWithDefault rp.specPrio rp.cls := by
    simp [decodePod] at he; exact he.symm
  subst hi
  simp [decodePod, this]

/-- non-vacuity of Part D: the seeded shapes.  Pod 0: eviction priority "3000000000" (out of int32) ranks as 0,
    not as a wrapped negative; pod 1: explicit spec.priority 0 with class label koord-prod is 9500 > threshold
    and is NOT listed; pod 2: `["CPUEvict",1]` names the policy but is not a string list: opted out. -/
example :
    let mk (id : Nat) (spec : Option Int) (cls : Nat) (ep : NumText) (top : Nat) (el : List Nat) : RawPod :=
      { id := id, name := id, qosLabel := 0, kubeQoS := 1, phase := 1, specPrio := spec, clsLabel := cls,
        evictLabel := 1, evictPrio := ep, prioLabel := .absent, policyTop := top, policyElems := el,
        hasMetric := true, used := 1000, reqNative := 1, reqMid := 0, reqBatch := 0, batchReq := 0 }
    (selectPrio 5999 false ([mk 0 (some 5500) 0 (.literal 3000000000) 0 [], mk 1 (some 0) 1 .absent 0 [],
        mk 2 (some 5500) 0 .absent 3 [0, 3], mk 3 (some 5500) 0 (.literal (-1)) 3 [2, 0]].map decodePod)).map
      (fun i => (i.pod.id, i.evictPrio)) = [(3, -1), (0, 0)] := by decide

end KoordVerif.C11
