import KoordVerif.Proofs.C01GS3
/-
C01 re-parent, part 1: deleting `x` does not touch the children sums OF `x` (its children are not ancestors).
-/
namespace KoordVerif.C01

theorem chain_rank_lt {E : State} {h : Nat → Nat}
    (hrank : ∀ g y, get? E g = some y → g ≠ rootName → h g < h y.parent) (b : Nat) :
    ∀ (l : List Nat), Chain E l → (∀ g0, l.head? = some g0 → b < h g0) → ∀ m ∈ l, b < h m
  | [], _, _, m, hm => by simp at hm
  | [g], _, hb, m, hm => by
    simp at hm; subst hm; exact hb m rfl
  | g :: g2 :: t, hc, hb, m, hm => by
    rcases List.mem_cons.mp hm with e | e
    · subst e; exact hb m rfl
    · obtain ⟨hroot, hpar, hc'⟩ := hc
      have hg := hb g rfl
      obtain ⟨y, hy⟩ : ∃ y, get? E g = some y := by
        cases hy : get? E g with
        | none => simp [par, hy] at hpar
        | some y => exact ⟨y, rfl⟩
      have hyp : y.parent = g2 := by simpa [par, hy] using hpar
      have := hrank g y hy hroot
      rw [hyp] at this
      exact chain_rank_lt hrank b (g2 :: t) hc' (fun g0 h0 => by simp at h0; subst h0; omega) m e

/-- no element of the chain that starts at the parent of `x` (in the state without `x`) has `x` as parent -/
theorem no_parent_x {s : State} {x : Nat} {q : Quota} (ht : TreeOK (tree s)) (hq : get? s x = some q)
    (hxr : x ≠ rootName) (hc : Chain (erase s x) (path (erase s x) q.parent))
    (hh : (path (erase s x) q.parent).head? = some q.parent) :
    ∀ m ∈ path (erase s x) q.parent, par (erase s x) m ≠ some x := by
  obtain ⟨h, hrank⟩ := ht.ranked
  have hqs := get?_mem hq
  have hqn := get?_name hq
  have hmemT : ∀ y, y ∈ s → (y.name, y.parent) ∈ tree s := fun y hy => List.mem_map.mpr ⟨y, hy, rfl⟩
  have hrankE : ∀ g y, get? (erase s x) g = some y → g ≠ rootName → h g < h y.parent := by
    intro g y hy hg
    have hys := mem_erase (get?_mem hy)
    have := hrank (y.name, y.parent) (hmemT y hys) (by rw [get?_name hy]; exact hg)
    rw [get?_name hy] at this; exact this
  have hxp : h x < h q.parent := by
    have := hrank (q.name, q.parent) (hmemT q hqs) (by rw [hqn]; exact hxr)
    rw [hqn] at this; exact this
  have hlt := chain_rank_lt hrankE (h x) _ hc (fun g0 h0 => by rw [hh] at h0; cases h0; exact hxp)
  intro m hm hpar
  obtain ⟨y, hy⟩ : ∃ y, get? (erase s x) m = some y := by
    cases hy : get? (erase s x) m with
    | none => simp [par, hy] at hpar
    | some y => exact ⟨y, rfl⟩
  have hyp : y.parent = x := by simpa [par, hy] using hpar
  have hys := mem_erase (get?_mem hy)
  by_cases hmr : m = rootName
  · have := ht.rootTop (y.name, y.parent) (hmemT y hys) (by rw [get?_name hy]; exact hmr) (q.name, q.parent) (hmemT q hqs)
    simp [hyp, hqn] at this
  · have h1 := hrankE m y hy hmr
    have h2 := hlt m hm
    rw [hyp] at h1; omega

/-- children sums of `x` survive `deleteQuota s x` -/
theorem deleteQuota_kids {s : State} {x : Nat} {q : Quota} (v : Quota → Int) (ht : TreeOK (tree s)) (hq : get? s x = some q)
    (hxr : x ≠ rootName) (hpx : q.parent ≠ x) (hc : Chain (erase s x) (path (erase s x) q.parent))
    (hh : (path (erase s x) q.parent).head? = some q.parent) :
    sumKids v x (deleteQuota s x) = sumKids v x s := by
  have hno := no_parent_x ht hq hxr hc hh
  have he : sumKids v x (erase s x) = sumKids v x s := by
    rw [sumKids_erase v x hq]; simp [hpx]
  have hR : ∀ d dnp, sumKids v x (deltaReq (erase s x) q.parent d dnp false) = sumKids v x (erase s x) := fun d dnp =>
    sumKids_propReq_other v x clamp0 _ _ false d dnp hno
  have hU : ∀ (st : State), tree st = tree (erase s x) → ∀ d dnp,
      sumKids v x (deltaUsed st q.parent d dnp false) = sumKids v x st := by
    intro st hts d dnp
    unfold deltaUsed
    rw [path_congr hts]
    exact sumKids_propUsed_other v x clamp0 _ _ false d dnp (fun m hm => by rw [par_of_tree hts]; exact hno m hm)
  have htR : ∀ d dnp, tree (deltaReq (erase s x) q.parent d dnp false) = tree (erase s x) := fun d dnp =>
    propReqW_map _ (fun q q' h => by simp [h.name, h.parent]) clamp0 _ _ false d dnp
  simp only [deleteQuota, hq]
  split
  · split
    · rw [hU _ (htR _ _), hR, he]
    · rw [hU _ rfl, he]
  · split
    · rw [hR, he]
    · exact he

end KoordVerif.C01
