import KoordVerif.Model.C07Fill
/-
C07 extension 6 — fillGPUTotalMem over a multi-GPU allocation on a node whose GPUs differ in memory size.
-/
namespace KoordVerif.C07

theorem drVal_of_get (total : DevRes) (m k : Nat) (t : RL) (h : drGet total m = some t) :
    drVal total m k = rlVal t k := by
  simp [drVal, drGetD, h]

end KoordVerif.C07
