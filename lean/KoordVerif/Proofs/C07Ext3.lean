import KoordVerif.Model.C07Glue
/-
C07 extension 3 — lemmas for the transformer and the cycle-state handling (Model/C07Glue.lean).
-/
namespace KoordVerif.C07

/-! ### (a) rename -/

theorem renameQ_cur (x : NQ) : (renameQ x).2 = semQ x := by
  obtain ⟨l, c⟩ := x
  cases c <;> simp [renameQ, semQ]

theorem renameQ_idem (x : NQ) : renameQ (renameQ x) = renameQ x := by
  obtain ⟨l, c⟩ := x
  cases c <;> cases l <;> simp [renameQ]

theorem renameQ_unchanged (x : NQ) (h : renameChanged x = false) : renameQ x = x := by
  obtain ⟨l, c⟩ := x
  cases c <;> cases l <;> simp_all [renameQ, renameChanged]

theorem renameQ_not_changed (x : NQ) : renameChanged (renameQ x) = false := by
  obtain ⟨l, c⟩ := x
  cases c <;> cases l <;> simp [renameQ, renameChanged]

theorem renameQ_legacy_none (x : NQ) (h : (x.1.isNone || x.2.isNone) = true) : (renameQ x).1 = none := by
  obtain ⟨l, c⟩ := x
  cases c <;> cases l <;> simp_all [renameQ]

theorem curRL_renameRL (r : NRL) : curRL (renameRL r) = semRL r := by
  simp [curRL, renameRL, semRL, List.map_map, Function.comp_def, renameQ_cur]

theorem renameRL_idem (r : NRL) : renameRL (renameRL r) = renameRL r := by
  simp [renameRL, List.map_map, Function.comp_def, renameQ_idem]

theorem annCur_transformAnn (a : NAnn) : annCur (transformAnn a) = annSem a := by
  simp [annCur, transformAnn, annSem, List.map_map, Function.comp_def, curRL_renameRL]

theorem transformAnn_idem (a : NAnn) : transformAnn (transformAnn a) = transformAnn a := by
  simp [transformAnn, List.map_map, Function.comp_def, renameRL_idem]

theorem renameRL_unchanged (r : NRL) (h : r.any renameChanged = false) : renameRL r = r := by
  induction r with
  | nil => rfl
  | cons x xs ih =>
    simp only [List.any_cons, Bool.or_eq_false_iff] at h
    simp only [renameRL, List.map_cons] at ih ⊢
    rw [renameQ_unchanged x h.1, ih h.2]

theorem transformAnn_unchanged (a : NAnn) (h : annChanged a = false) : transformAnn a = a := by
  unfold annChanged at h
  unfold transformAnn
  induction a with
  | nil => rfl
  | cons g gs ih =>
    simp only [List.any_cons, Bool.or_eq_false_iff] at h
    simp only [List.map_cons]
    rw [ih h.2]
    congr 1
    obtain ⟨t, es⟩ := g
    simp only [Prod.mk.injEq, true_and]
    have h1 := h.1
    simp only at h1
    clear h ih
    induction es with
    | nil => rfl
    | cons e es ih2 =>
      simp only [List.any_cons, Bool.or_eq_false_iff] at h1
      simp only [List.map_cons]
      rw [ih2 h1.2, renameRL_unchanged e.2 h1.1]

theorem annChanged_transformAnn (a : NAnn) : annChanged (transformAnn a) = false := by
  unfold annChanged transformAnn
  induction a with
  | nil => rfl
  | cons g gs ih =>
    simp only [List.map_cons, List.any_cons, ih, Bool.or_false]
    obtain ⟨t, es⟩ := g
    simp only
    induction es with
    | nil => rfl
    | cons e es ih2 =>
      simp only [List.map_cons, List.any_cons, ih2, Bool.or_false]
      simp only [renameRL]
      induction e.2 with
      | nil => rfl
      | cons x xs ih3 => simp [List.any_cons, renameQ_not_changed, ih3]

/-- whether or not the write-back happens, the pod leaves the transformer with the renamed annotation -/
theorem transformPodAnn_eq (a : NAnn) : transformPodAnn a = transformAnn a := by
  unfold transformPodAnn
  cases h : annChanged a
  · simp [transformAnn_unchanged a h]
  · simp

theorem invCur_transformInv (inv : List NEntry) : invCur (transformInv inv) = invSem inv := by
  simp [invCur, transformInv, invSem, List.map_map, Function.comp_def, curRL_renameRL]

/-! ### (b) cycle state -/

theorem cycFilter_result (s : TState) (minors : List Nat) (a : AllocReq) (c : PState) (h : c.result = none) :
    (cycFilter s minors a c).1.result = none := by
  unfold cycFilter
  cases hd : c.designated with
  | none => simpa using h
  | some des =>
    simp only [h]
    cases hal : cycAllocate s minors a c with
    | none => simpa using h
    | some c1 => simp

theorem cycFilter_designated (s : TState) (minors : List Nat) (a : AllocReq) (c : PState) :
    (cycFilter s minors a c).1.designated = c.designated := by
  unfold cycFilter
  cases hd : c.designated with
  | none => simp [hd]
  | some des =>
    cases hr : c.result with
    | some r => simp [hd]
    | none =>
      simp only
      cases hal : cycAllocate s minors a c with
      | none => simp [hd]
      | some c1 =>
        simp only
        unfold cycAllocate at hal
        cases hx : allocate (cycView s minors c) a with
        | none => simp [hx] at hal
        | some ms =>
          simp [hx] at hal
          subst hal
          simp [hd]

theorem cycStep_inv (wc : World × PState) (st : CStep) (h : wc.2.result = none) :
    (cycStep wc st).2.result = none ∧ (cycStep wc st).2.designated = wc.2.designated := by
  cases st with
  | filter n ms a => exact ⟨cycFilter_result _ _ _ _ h, cycFilter_designated _ _ _ _⟩
  | event n op => exact ⟨h, rfl⟩

theorem cycRun_inv (steps : List CStep) : ∀ (w : World) (c : PState), c.result = none →
    (cycRun w c steps).2.result = none ∧ (cycRun w c steps).2.designated = c.designated := by
  induction steps with
  | nil => intro w c h; exact ⟨h, rfl⟩
  | cons st rest ih =>
    intro w c h
    have h1 := cycStep_inv (w, c) st h
    have h2 := ih (cycStep (w, c) st).1 (cycStep (w, c) st).2 h1.1
    simp only [cycRun, List.foldl_cons] at h2 ⊢
    exact ⟨h2.1, h2.2.trans h1.2⟩

/-- the chosen minors of a successful allocation are entries of the free map of the state the allocator ran on,
    each passing the three guards (permitted, non-zero, LessThanOrEqual(request, free)) -/
theorem allocate_mem_free (s : TState) (a : AllocReq) (ms : List Nat) (h : allocate s a = some ms) :
    ∀ m ∈ ms, ∃ f, (m, f) ∈ s.free ∧ qualifies a (m, f) = true := by
  unfold allocate allocateFrom at h
  simp only [] at h
  split at h
  · exact absurd h (by simp)
  · injection h with h
    subst h
    intro m hm
    have hm' := List.mem_of_mem_take hm
    obtain ⟨⟨m', f⟩, hmem, rfl⟩ := List.mem_map.mp hm'
    obtain ⟨hin, hq⟩ := List.mem_filter.mp hmem
    refine ⟨f, ?_, hq⟩
    -- sortCands is a permutation of free
    have : ∀ (l : DevRes) (x : Nat × RL), x ∈ sortCands l a.preferred → x ∈ l := by
      intro l
      induction l with
      | nil => intro x hx; simp [sortCands] at hx
      | cons y ys ih =>
        intro x hx
        simp only [sortCands, List.foldr_cons] at hx
        have hins : ∀ (z : Nat × RL) (l2 : DevRes) (x : Nat × RL), x ∈ insCand (candLe a.preferred) z l2 → x = z ∨ x ∈ l2 := by
          intro z l2
          induction l2 with
          | nil => intro x hx; simpa [insCand] using hx
          | cons w ws ih2 =>
            intro x hx
            simp only [insCand] at hx
            split at hx
            · simpa using hx
            · rcases List.mem_cons.mp hx with h1 | h1
              · exact Or.inr (by simp [h1])
              · rcases ih2 x h1 with h2 | h2
                · exact Or.inl h2
                · exact Or.inr (List.mem_cons_of_mem _ h2)
        rcases hins y _ x hx with h1 | h1
        · simp [h1]
        · exact List.mem_cons_of_mem _ (ih x h1)
    exact this s.free (m', f) hin

/-- every entry of the free map of a filtered view sits on a minor the view admits and calcFreeWithPreemptible has an entry for -/
theorem filterT_free_keys (s : TState) (ms : List Nat) (pre req : DevRes) (m : Nat) (f : RL)
    (h : (m, f) ∈ (filterT s (some ms) pre req).free) :
    ms.contains m = true ∧ ∃ e, (m, e) ∈ calcFree s pre req := by
  unfold filterT at h
  simp only [] at h
  split at h
  · simp [TState.empty] at h
  · simp only [resetFree, addPhantoms, List.map_append, List.mem_append, List.mem_map, List.mem_filter] at h
    rcases h with ⟨⟨m', x⟩, hmem, heq⟩ | ⟨⟨m', x⟩, hmem, heq⟩
    · simp only [Prod.mk.injEq] at heq
      obtain ⟨rfl, _⟩ := heq
      obtain ⟨⟨k, e⟩, ⟨hk1, hk2⟩, hk3⟩ := hmem
      simp only [Prod.mk.injEq] at hk3
      obtain ⟨rfl, _⟩ := hk3
      exact ⟨hk2, e, hk1⟩
    · simp only [Prod.mk.injEq] at heq
      obtain ⟨rfl, _⟩ := heq
      obtain ⟨⟨k, e⟩, ⟨⟨hk1, _⟩, _⟩, hk3⟩ := hmem
      obtain ⟨⟨k2, e2⟩, ⟨hk4, hk5⟩, hk6⟩ := hk1
      simp only [Prod.mk.injEq] at hk6 hk3
      obtain ⟨rfl, _⟩ := hk6
      obtain ⟨rfl, _⟩ := hk3
      exact ⟨hk5, e2, hk4⟩

/-- with required amounts and nothing preemptible, calcFreeWithPreemptible only has entries for required minors -/
theorem calcFree_required_keys (s : TState) (req : DevRes) (hr : req ≠ []) (m : Nat) (e : RL)
    (h : (m, e) ∈ calcFree s [] req) : drHas req m = true := by
  have hne : req.isEmpty = false := by cases req <;> simp_all
  simp only [calcFree, List.isEmpty_nil, if_true, hne, Bool.false_eq_true, if_false, List.mem_map, List.mem_filter] at h
  obtain ⟨⟨k, v⟩, ⟨_, hk⟩, heq⟩ := h
  simp only [Prod.mk.injEq] at heq
  obtain ⟨rfl, _⟩ := heq
  exact hk

end KoordVerif.C07
