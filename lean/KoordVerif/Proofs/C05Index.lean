import KoordVerif.Proofs.C05Base
/-
Index invariant: reservationsOnNode = {live reservations by node}, matchableOnNode / allocatedOnNode only
reference live reservations under their node.  Preserved by every cache operation provided a reservation's
node name, once set, is the same in every event (and raw updates carry a node).
-/
namespace KoordVerif.C05

def LiveL (infos : List RInfo) (n u : Nat) : Prop := ∃ r ∈ infos, r.uid = u ∧ r.node = n

structure IndexInv (c : Cache) : Prop where
  node_ne   : ∀ r ∈ c.infos, r.node ≠ 0
  coherent  : ∀ x ∈ c.infos, ∀ y ∈ c.infos, x.uid = y.uid → x.node = y.node
  on_iff    : ∀ n u, (n, u) ∈ c.onNode ↔ LiveL c.infos n u
  mt_live   : ∀ n u, (n, u) ∈ c.matchable → LiveL c.infos n u
  al_live   : ∀ n u, (n, u) ∈ c.allocIdx → LiveL c.infos n u

theorem self_mem_setInfo (infos : List RInfo) (r : RInfo) : r ∈ setInfo infos r := by
  by_cases h : ∃ x ∈ infos, x.uid = r.uid
  · obtain ⟨x, hx, hu⟩ := h
    exact self_mem_setInfo_of_mem infos r x hx hu
  · exact self_mem_setInfo_of_not_mem infos r (fun x hx hu => h ⟨x, hx, hu⟩)

theorem live_setInfo (infos : List RInfo) (r : RInfo) (n u : Nat)
    (hst : ∀ x ∈ infos, x.uid = r.uid → x.node = r.node) :
    LiveL (setInfo infos r) n u ↔ LiveL infos n u ∨ (u = r.uid ∧ n = r.node) := by
  constructor
  · rintro ⟨x, hx, hxu, hxn⟩
    rcases mem_setInfo infos r x hx with h | h
    · exact Or.inl ⟨x, h.1, hxu, hxn⟩
    · subst h; exact Or.inr ⟨hxu.symm, hxn.symm⟩
  · rintro (⟨x, hx, hxu, hxn⟩ | ⟨hu, hn⟩)
    · by_cases hur : x.uid = r.uid
      · exact ⟨r, self_mem_setInfo infos r, by omega, by rw [← hst x hx hur]; exact hxn⟩
      · exact ⟨x, old_mem_setInfo infos r x hx hur, hxu, hxn⟩
    · exact ⟨r, self_mem_setInfo infos r, hu.symm, hn.symm⟩

/-- replacing (or inserting) the info `r`, adding at most `(r.node, r.uid)` to the indexes -/
theorem inv_replace (c : Cache) (r : RInfo) (on' mt' al' : Idx) (h : IndexInv c)
    (hn : r.node ≠ 0) (hst : ∀ x ∈ c.infos, x.uid = r.uid → x.node = r.node)
    (hon : ∀ p, p ∈ on' ↔ (p ∈ c.onNode ∨ p = (r.node, r.uid)))
    (hmt : ∀ p, p ∈ mt' → (p ∈ c.matchable ∨ p = (r.node, r.uid)))
    (hal : ∀ p, p ∈ al' → (p ∈ c.allocIdx ∨ p = (r.node, r.uid))) :
    IndexInv { infos := setInfo c.infos r, onNode := on', matchable := mt', allocIdx := al' } := by
  have hlive := fun n u => live_setInfo c.infos r n u hst
  refine ⟨?_, ?_, ?_, ?_, ?_⟩
  · intro x hx
    rcases mem_setInfo _ _ _ hx with hx | hx
    · exact h.node_ne x hx.1
    · subst hx; exact hn
  · intro x hx y hy hxy
    rcases mem_setInfo _ _ _ hx with hx | hx <;> rcases mem_setInfo _ _ _ hy with hy | hy
    · exact h.coherent x hx.1 y hy.1 hxy
    · subst hy; exact absurd hxy hx.2
    · subst hx; exact absurd hxy.symm hy.2
    · subst hx; subst hy; rfl
  · intro n u
    show (n, u) ∈ on' ↔ _
    rw [hon, hlive, h.on_iff]
    constructor
    · rintro (h1 | h1)
      · exact Or.inl h1
      · right; simp at h1; exact ⟨h1.2, h1.1⟩
    · rintro (h1 | h1)
      · exact Or.inl h1
      · right; simp [h1.1, h1.2]
  · intro n u hp
    show LiveL (setInfo c.infos r) n u
    rw [hlive]
    rcases hmt _ hp with h1 | h1
    · exact Or.inl (h.mt_live n u h1)
    · right; simp at h1; exact ⟨h1.2, h1.1⟩
  · intro n u hp
    show LiveL (setInfo c.infos r) n u
    rw [hlive]
    rcases hal _ hp with h1 | h1
    · exact Or.inl (h.al_live n u h1)
    · right; simp at h1; exact ⟨h1.2, h1.1⟩

/-- when `r` replaces a live `r0` with the same uid and node, its pair is already listed -/
theorem pair_listed (c : Cache) (h : IndexInv c) (r0 : RInfo) (h0 : r0 ∈ c.infos) : (r0.node, r0.uid) ∈ c.onNode :=
  (h.on_iff _ _).mpr ⟨r0, h0, rfl, rfl⟩

theorem refreshIdx_shape (c : Cache) (r : RInfo) (n u : Nat) :
    (refreshIdx c r n u).infos = c.infos ∧ (refreshIdx c r n u).onNode = c.onNode ∧
    (∀ p, p ∈ (refreshIdx c r n u).matchable → p ∈ c.matchable ∨ p = (n, u)) ∧
    (∀ p, p ∈ (refreshIdx c r n u).allocIdx → p ∈ c.allocIdx ∨ p = (n, u)) := by
  unfold refreshIdx
  split
  · refine ⟨rfl, rfl, ?_, ?_⟩
    · intro p hp; simp only [] at hp; rw [mem_idxAdd] at hp; rcases hp with hp | hp
      · exact Or.inr hp
      · exact Or.inl hp
    · intro p hp; simp only [] at hp
      split at hp
      · rw [mem_idxAdd] at hp; rcases hp with hp | hp
        · exact Or.inr hp
        · exact Or.inl hp
      · rw [mem_idxDel] at hp; exact Or.inl hp.1
  · refine ⟨rfl, rfl, ?_, ?_⟩
    · intro p hp; simp only [] at hp; rw [mem_idxDel] at hp; exact Or.inl hp.1
    · intro p hp; simp only [] at hp; rw [mem_idxDel] at hp; exact Or.inl hp.1

/-- node-stability precondition of a reservation event -/
def NodeStable (c : Cache) (u n : Nat) : Prop := ∀ x ∈ c.infos, x.uid = u → x.node = n

theorem newInfo_uid_node (o : RObj) : (newInfo o).uid = o.uid ∧ (newInfo o).node = o.node := ⟨rfl, rfl⟩
theorem updInfo_uid_node (r : RInfo) (o : RObj) : (updInfo r o).uid = r.uid ∧ (updInfo r o).node = o.node := ⟨rfl, rfl⟩

theorem cache_eta (c : Cache) :
    c = { infos := c.infos, onNode := c.onNode, matchable := c.matchable, allocIdx := c.allocIdx } := by
  cases c; rfl

theorem index_refresh (c c0 : Cache) (r : RInfo) (n u : Nat) (h : IndexInv c)
    (hu : r.uid = u) (hnode : r.node = n) (hn : n ≠ 0) (hst : NodeStable c u n)
    (hinfos : c0.infos = setInfo c.infos r)
    (hon : ∀ p, p ∈ c0.onNode ↔ (p ∈ c.onNode ∨ p = (n, u)))
    (hmt : c0.matchable = c.matchable) (hal : c0.allocIdx = c.allocIdx) :
    IndexInv (refreshIdx c0 r n u) := by
  have sh := refreshIdx_shape c0 r n u
  generalize refreshIdx c0 r n u = c1 at sh ⊢
  cases c1 with
  | mk i o m a =>
    simp only at sh
    obtain ⟨s1, s2, s3, s4⟩ := sh
    subst s1; subst s2
    rw [hinfos]
    subst hu; subst hnode
    refine inv_replace c r _ _ _ h hn (fun x hx hxu => hst x hx hxu) hon ?_ ?_
    · intro p hp; rw [← hmt]; exact s3 p hp
    · intro p hp; rw [← hal]; exact s4 p hp

theorem index_updateReservation (c : Cache) (o : RObj) (h : IndexInv c) (hn : o.node ≠ 0)
    (hst : NodeStable c o.uid o.node) : IndexInv (updateReservation c o) := by
  unfold updateReservation
  have hn' : (o.node != 0) = true := by simpa using hn
  cases hf : findInfo c o.uid with
  | none =>
    simp only [hn', if_true]
    exact index_refresh c _ _ _ _ h rfl rfl hn hst rfl (by intro p; rw [mem_idxAdd]; exact Or.comm) rfl rfl
  | some r0 =>
    have hm := findInfo_mem c o.uid r0 hf
    simp only [hn', if_true]
    exact index_refresh c _ _ _ _ h hm.2 rfl hn hst rfl (by intro p; rw [mem_idxAdd]; exact Or.comm) rfl rfl

theorem index_updateIfExists (c : Cache) (o : RObj) (h : IndexInv c)
    (hst : NodeStable c o.uid o.node) : IndexInv (updateReservationIfExists c o) := by
  unfold updateReservationIfExists
  cases hf : findInfo c o.uid with
  | none => exact h
  | some r0 =>
    have hm := findInfo_mem c o.uid r0 hf
    have hnode : r0.node = o.node := hst r0 hm.1 hm.2
    have hn : o.node ≠ 0 := by rw [← hnode]; exact h.node_ne r0 hm.1
    have hn' : (o.node != 0) = true := by simpa using hn
    have hl := pair_listed c h r0 hm.1
    simp only [hn', if_true]
    refine index_refresh c _ _ _ _ h hm.2 rfl hn hst rfl ?_ rfl rfl
    intro p; constructor
    · intro hp; exact Or.inl hp
    · rintro (hp | hp)
      · exact hp
      · rw [hp, ← hnode, ← hm.2]; exact hl

theorem index_delete (c : Cache) (u n : Nat) (h : IndexInv c) (hst : NodeStable c u n) :
    IndexInv (deleteReservation c u n) := by
  have hsub : ∀ x, x ∈ c.infos.filter (fun r => r.uid != u) ↔ x ∈ c.infos ∧ x.uid ≠ u := by
    intro x; simp
  -- a listed pair that survives the deletion of (n,u) belongs to another uid
  have surv : ∀ n' u', LiveL c.infos n' u' → (n', u') ≠ (n, u) → LiveL (c.infos.filter (fun r => r.uid != u)) n' u' := by
    rintro n' u' ⟨x, hx, hxu, hxn⟩ hne
    refine ⟨x, (hsub x).mpr ⟨hx, ?_⟩, hxu, hxn⟩
    intro hu
    apply hne
    have := hst x hx hu
    simp; constructor <;> omega
  refine ⟨?_, ?_, ?_, ?_, ?_⟩
  · intro x hx; exact h.node_ne x ((hsub x).mp hx).1
  · intro x hx y hy; exact h.coherent x ((hsub x).mp hx).1 y ((hsub y).mp hy).1
  · intro n' u'
    show (n', u') ∈ (if (n != 0) = true then idxDel c.onNode n u else c.onNode) ↔ _
    constructor
    · intro hp
      split at hp
      · rw [mem_idxDel] at hp
        exact surv n' u' ((h.on_iff _ _).mp hp.1) hp.2
      · rename_i hn0
        have hn0' : n = 0 := by simpa using hn0
        have hl := (h.on_iff _ _).mp hp
        apply surv n' u' hl
        intro heq
        obtain ⟨x, hx, hxu, hxn⟩ := hl
        have : n' = n := by simp at heq; exact heq.1
        exact h.node_ne x hx (by omega)
    · rintro ⟨x, hx, hxu, hxn⟩
      have hx' := (hsub x).mp hx
      have hin : (n', u') ∈ c.onNode := (h.on_iff _ _).mpr ⟨x, hx'.1, hxu, hxn⟩
      split
      · rw [mem_idxDel]; refine ⟨hin, ?_⟩
        intro heq; simp at heq; exact hx'.2 (by omega)
      · exact hin
  · intro n' u' hp
    have hp' : (n', u') ∈ idxDel c.matchable n u := hp
    rw [mem_idxDel] at hp'
    exact surv n' u' (h.mt_live _ _ hp'.1) hp'.2
  · intro n' u' hp
    have hp' : (n', u') ∈ idxDel c.allocIdx n u := hp
    rw [mem_idxDel] at hp'
    exact surv n' u' (h.al_live _ _ hp'.1) hp'.2

/-- replacing a live info by one with the same uid and node, indexes growing by at most its own pair -/
theorem inv_modify (c : Cache) (r0 r : RInfo) (al' : Idx) (h : IndexInv c) (h0 : r0 ∈ c.infos)
    (hu : r.uid = r0.uid) (hn : r.node = r0.node)
    (hal : ∀ p, p ∈ al' → (p ∈ c.allocIdx ∨ p = (r.node, r.uid))) :
    IndexInv { infos := setInfo c.infos r, onNode := c.onNode, matchable := c.matchable, allocIdx := al' } := by
  refine inv_replace c r c.onNode c.matchable al' h (by rw [hn]; exact h.node_ne r0 h0)
    (by intro x hx hxu; rw [hn]; exact h.coherent x hx r0 h0 (by omega)) ?_ (fun p hp => Or.inl hp) hal
  intro p; constructor
  · intro hp; exact Or.inl hp
  · rintro (hp | hp)
    · exact hp
    · rw [hp, hu, hn]; exact pair_listed c h r0 h0

theorem addAssigned_uid_node (r : RInfo) (p : Pod) : (addAssigned r p).uid = r.uid ∧ (addAssigned r p).node = r.node := by
  unfold addAssigned; split <;> exact ⟨rfl, rfl⟩

theorem removeAssigned_uid_node (r : RInfo) (u : Nat) : (removeAssigned r u).uid = r.uid ∧ (removeAssigned r u).node = r.node := by
  unfold removeAssigned; split <;> exact ⟨rfl, rfl⟩

theorem foldl_add_uid_node (ps : List Pod) (r : RInfo) :
    (ps.foldl addAssigned r).uid = r.uid ∧ (ps.foldl addAssigned r).node = r.node := by
  induction ps generalizing r with
  | nil => exact ⟨rfl, rfl⟩
  | cons p t ih =>
    have a := addAssigned_uid_node r p
    have b := ih (addAssigned r p)
    exact ⟨by rw [List.foldl_cons, b.1, a.1], by rw [List.foldl_cons, b.2, a.2]⟩

theorem foldl_remove_uid_node (us : List Nat) (r : RInfo) :
    (us.foldl removeAssigned r).uid = r.uid ∧ (us.foldl removeAssigned r).node = r.node := by
  induction us generalizing r with
  | nil => exact ⟨rfl, rfl⟩
  | cons p t ih =>
    have a := removeAssigned_uid_node r p
    have b := ih (removeAssigned r p)
    exact ⟨by rw [List.foldl_cons, b.1, a.1], by rw [List.foldl_cons, b.2, a.2]⟩

theorem index_addPods (c : Cache) (ru : Nat) (ps : List Pod) (h : IndexInv c) : IndexInv (addPods c ru ps).1 := by
  unfold addPods
  cases hf : findInfo c ru with
  | none => exact h
  | some r0 =>
    have hm := findInfo_mem c ru r0 hf
    have hun := foldl_add_uid_node ps r0
    simp only []
    split
    · exact h
    · split
      · refine inv_modify c r0 _ _ h hm.1 hun.1 hun.2 ?_
        intro p hp; rw [mem_idxAdd] at hp
        rcases hp with hp | hp
        · right; rw [hp, hun.1, hm.2]
        · exact Or.inl hp
      · exact inv_modify c r0 _ _ h hm.1 hun.1 hun.2 (fun p hp => Or.inl hp)

theorem index_dropAlloc (c : Cache) (r : RInfo) (u : Nat) (h : IndexInv c) : IndexInv (dropAllocIfEmpty c r u) := by
  unfold dropAllocIfEmpty
  split
  · exact ⟨h.node_ne, h.coherent, h.on_iff, h.mt_live, fun n' u' hp => h.al_live n' u' ((mem_idxDel _ _ _ _).mp hp).1⟩
  · exact h

theorem index_deletePods (c : Cache) (ru : Nat) (us : List Nat) (h : IndexInv c) : IndexInv (deletePods c ru us) := by
  unfold deletePods
  cases hf : findInfo c ru with
  | none => exact h
  | some r0 =>
    have hm := findInfo_mem c ru r0 hf
    have hun := foldl_remove_uid_node us r0
    simp only []
    exact index_dropAlloc _ _ _ (inv_modify c r0 _ _ h hm.1 hun.1 hun.2 (fun p hp => Or.inl hp))

theorem index_updatePodOld (c : Cache) (ou : Nat) (po : Option Pod) (h : IndexInv c) :
    IndexInv (updatePodOld c ou po) := by
  unfold updatePodOld
  cases po with
  | none => exact h
  | some p =>
    cases hf : findInfo c ou with
    | none => exact h
    | some r0 =>
      have hm := findInfo_mem c ou r0 hf
      have hun := removeAssigned_uid_node r0 p.uid
      simp only []
      exact index_dropAlloc _ _ _ (inv_modify c r0 _ _ h hm.1 hun.1 hun.2 (fun p hp => Or.inl hp))

theorem index_updatePodNew (c : Cache) (nu : Nat) (pn : Option Pod) (h : IndexInv c) :
    IndexInv (updatePodNew c nu pn) := by
  unfold updatePodNew
  cases pn with
  | none => exact h
  | some p =>
    cases hf : findInfo c nu with
    | none => exact h
    | some r0 =>
      have hm := findInfo_mem c nu r0 hf
      have hun := addAssigned_uid_node r0 p
      simp only []
      split
      · refine inv_modify c r0 _ _ h hm.1 hun.1 hun.2 ?_
        intro q hq; rw [mem_idxAdd] at hq
        rcases hq with hq | hq
        · right; rw [hq, hun.1, hm.2]
        · exact Or.inl hq
      · exact inv_modify c r0 _ _ h hm.1 hun.1 hun.2 (fun p hp => Or.inl hp)

theorem index_updatePod (c : Cache) (ou nu : Nat) (po pn : Option Pod) (h : IndexInv c) :
    IndexInv (updatePod c ou nu po pn) :=
  index_updatePodNew _ nu pn (index_updatePodOld c ou po h)

theorem index_podDelete (c : Cache) (p : HPod) (h : IndexInv c) : IndexInv (podDelete c p) := by
  unfold podDelete; split
  · exact index_deletePods c _ _ h
  · exact h

theorem index_podUpdate (c : Cache) (old : Option HPod) (new : HPod) (h : IndexInv c) :
    IndexInv (podUpdate c old new) := by
  unfold podUpdate
  split
  · exact index_podDelete c new h
  · split
    · cases old with
      | none => exact h
      | some o =>
        simp only []
        split
        · exact index_podDelete c _ h
        · exact h
    · cases old with
      | none =>
        simp only []
        split
        · exact index_updatePod c _ _ _ _ h
        · exact h
      | some o =>
        simp only []
        split
        · exact index_updatePod c _ _ _ _ h
        · exact h

/-- what the callers guarantee about reservation events: the node name of a reservation, once it is in the
    cache, is the one carried by every later event for it; the raw `updateReservation` is only called for a
    scheduled reservation (the handlers check `IsReservationActive`). -/
def IndexPre (c : Cache) : Op → Prop
  | .rupd o => o.node ≠ 0 ∧ NodeStable c o.uid o.node
  | .rupdx o | .eadd o | .eupd o | .edel o => NodeStable c o.uid o.node
  | .rdel u n => NodeStable c u n
  | _ => True

instance (c : Cache) (u n : Nat) : Decidable (NodeStable c u n) := by
  unfold NodeStable; exact inferInstance

instance (c : Cache) (op : Op) : Decidable (IndexPre c op) := by
  cases op <;> simp only [IndexPre] <;> exact inferInstance

theorem active_node (o : RObj) (h : o.active = true) : o.node ≠ 0 := by
  simp [RObj.active] at h; exact h.1

theorem delObj_uid_node (o : RObj) : (delObj o).uid = o.uid ∧ (delObj o).node = o.node := by
  unfold delObj; split <;> exact ⟨rfl, rfl⟩

theorem index_step (c : Cache) (op : Op) (h : IndexInv c) (hp : IndexPre c op) : IndexInv (step c op) := by
  cases op with
  | rupd o => exact index_updateReservation c o h hp.1 hp.2
  | rupdx o => exact index_updateIfExists c o h hp
  | rdel u n => exact index_delete c u n h hp
  | eadd o =>
    simp only [step, onAdd]; split
    · rename_i ha; exact index_updateReservation c o h (active_node o ha) hp
    · exact h
  | eupd o =>
    simp only [step, onUpdate]; split
    · rename_i ha; exact index_updateReservation c o h (active_node o ha) hp
    · split
      · exact index_updateIfExists c o h hp
      · exact h
  | edel o =>
    have hd := delObj_uid_node o
    have : NodeStable c (delObj o).uid (delObj o).node := by rw [hd.1, hd.2]; exact hp
    exact index_updateIfExists c (delObj o) h this
  | padd ru ps => exact index_addPods c ru ps h
  | pdel ru us => exact index_deletePods c ru us h
  | pupd ou nu po pn => exact index_updatePod c ou nu po pn h
  | hadd p => exact index_podUpdate c none p h
  | hupd po pn => exact index_podUpdate c (some po) pn h
  | hdel p => exact index_podDelete c p h

theorem index_empty : IndexInv Cache.empty :=
  ⟨by simp [Cache.empty], by simp [Cache.empty], by simp [Cache.empty, LiveL], by simp [Cache.empty], by simp [Cache.empty]⟩

end KoordVerif.C05
