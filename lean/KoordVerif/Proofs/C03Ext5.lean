import KoordVerif.Model.C03
/-!
C03, fifth extension round: the alpha feature gate `ElasticQuotaGuaranteeUsage`.

The gate reaches the model at ONE point: `core.NewQuotaInfoFromQuota` reads every quota object with
allow-lent = false (`declaredLent`).  `PreFilter` does not consult it: the bound of the non-preemptible check is the
declared min whatever the gate says (`attempt` has no gate parameter; Ties: `tie_guarantee_gate`).
-/
namespace KoordVerif.C03

/-- gate on: the object is read with allow-lent = false, whatever its label says. -/
theorem quotaUpdateGated_on (s : State) (n p : Nat) (ip l : Bool) (mx mn : RL) :
    quotaUpdateGated true s n p ip l mx mn = quotaUpdate s n p ip false mx mn := rfl

/-- gate off: the object is read as labelled. -/
theorem quotaUpdateGated_off (s : State) (n p : Nat) (ip l : Bool) (mx mn : RL) :
    quotaUpdateGated false s n p ip l mx mn = quotaUpdate s n p ip l mx mn := rfl

theorem rlEq_self (D : Nat) (a : RL) : rlEq D a a = true := by
  simp [rlEq]

/-! #### the scenario of the gate: preemptible pods use more than min -/

def cpuOnly (v : Int) : RL := fun d => if d = 0 then some v else none

/-- gate on; group 1 under the root: max cpu 12, min cpu 2 (label allow-lent = true, read as false); pods 1-3
    (preemptible, cpu 2 each) and pod 4 (non-preemptible, cpu 2) admitted and reserved; pod 5 = a second
    non-preemptible pod of cpu 2, pod 6 = a preemptible pod of cpu 2, both waiting. -/
def guState : State :=
  let s := quotaUpdateGated true (init 1) 1 rootName false true (cpuOnly 12) (cpuOnly 2)
  let s := [1, 2, 3].foldl (fun s i => reserve (podAdd (podDef s i 1 false (cpuOnly 2)) i) i) s
  let s := reserve (podAdd (podDef s 4 1 true (cpuOnly 2)) 4) 4
  let s := podAdd (podDef s 5 1 true (cpuOnly 2)) 5
  podAdd (podDef s 6 1 false (cpuOnly 2)) 6

end KoordVerif.C03
