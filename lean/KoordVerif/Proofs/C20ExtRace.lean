import KoordVerif.Model.C20Race
import KoordVerif.Proofs.C20ExtHistQ
/-
C20 extension (round 3) — lazy initialisation of the cache vs. ConfigMap events.
  (a) the delivery invariants of Proofs/C20ExtHistQ.lean also hold when a restart's initial ConfigMap event is handled late;
  (b) `RInv`: for the `atomic` and the `recheck` shape of IsCfgAvailable the cache, whenever it is available and no event is
      pending, tracks the LATEST ConfigMap — under every schedule of writes, deletions, handler runs and lazy-init sections.
-/
namespace KoordVerif.C20

/-! ### (a) late initial ConfigMap event -/

theorem qrestartLate_inv (d : Defaults) (x : QWorld) : InvQ (qrestartLate d x) := by
  intro m hm
  simp only [qrestartLate, List.mem_append, not_or] at hm
  have hn := lookupA_none_of_not_mem x.w.nodes m hm.1
  have hs := lookupA_none_of_not_mem x.w.slos m hm.2
  unfold Correct
  simp only [qrestartLate]
  rw [hn, hs]; exact ⟨rfl, fun _ => rfl⟩

theorem qcmEv_inv (d : Defaults) (parse : Ident → CM) (x : QWorld) (h : InvQ x) : InvQ (qcmEv d parse x) := by
  unfold qcmEv
  split
  · exact qcmSync_inv d parse x _ h
  · exact h

theorem rstep_inv (d : Defaults) (parse : Ident → CM) (x : QWorld) (s : RStep) (h : InvQ x) :
    InvQ (rstep d parse x s) := by
  cases s with
  | q s => exact qstep_inv d parse x s h
  | restartLate => exact qrestartLate_inv d x
  | cmLate => exact qcmEv_inv d parse x h

theorem rrun_inv (d : Defaults) (parse : Ident → CM) (ss : List RStep) : ∀ (x : QWorld), InvQ x → InvQ (rrun d parse x ss) := by
  induction ss with
  | nil => intro x h; exact h
  | cons s ss ih => intro x h; exact ih _ (rstep_inv d parse x s h)

theorem rstep_cinv (d : Defaults) (parse : Ident → CM) (x : QWorld) (s : RStep) (h : CInv d parse x.w) :
    CInv d parse (rstep d parse x s).w := by
  cases s with
  | q s => exact qstep_cinv d parse x s h
  | restartLate => intro ha; simp [rstep, qrestartLate] at ha
  | cmLate => exact qcmEv_cinv d parse x h

theorem rrun_cinv (d : Defaults) (parse : Ident → CM) (ss : List RStep) : ∀ (x : QWorld),
    CInv d parse x.w → CInv d parse (rrun d parse x ss).w := by
  induction ss with
  | nil => intro x h; exact h
  | cons s ss ih => intro x h; exact ih _ (rstep_cinv d parse x s h)

/-! ### (b) the race invariant -/

/-- (1) available and nothing pending ⇒ the cache tracks the latest ConfigMap;
    (2) the newest pending event carries the latest ConfigMap;
    (3) a lazy init that has read the ConfigMap while the cache is still unavailable and nothing is pending has read the latest. -/
def RInv (d : Defaults) (parse : Ident → CM) (s : RaceSt) : Prop :=
  (s.avail = true → s.pending = [] → ∀ i, s.cm = some i → Tracks d s.cfg (parse i)) ∧
  (s.pending ≠ [] → ∀ i, s.cm = some i → s.pending.getLast? = some i) ∧
  (∀ r, s.pc = .read r → s.avail = false → s.pending = [] → ∀ i, s.cm = some i → r = some i)

theorem start_rinv (d : Defaults) (parse : Ident → CM) (cm0 : Option Ident) : RInv d parse (RaceSt.start d cm0) := by
  refine ⟨?_, ?_, ?_⟩
  · intro ha; simp [RaceSt.start] at ha
  · intro _ i hi
    simp only [RaceSt.start] at hi
    simp [RaceSt.start, hi]
  · intro r hr; simp [RaceSt.start] at hr

theorem getLast?_cons_of_ne_nil {α} (a : α) (l : List α) (h : l ≠ []) : (a :: l).getLast? = l.getLast? := by
  cases l with
  | nil => exact absurd rfl h
  | cons b l => simp [List.getLast?_cons_cons]

theorem write_rinv (sh : LazyShape) (d : Defaults) (parse : Ident → CM) (s : RaceSt) (i : Ident) (h : RInv d parse s) :
    RInv d parse (raceStep sh d parse s (.write i)) := by
  simp only [raceStep]
  split
  · exact h
  · refine ⟨?_, ?_, ?_⟩
    · intro _ hp; simp at hp
    · intro _ j hj
      simp only [Option.some.injEq] at hj
      simp [hj]
    · intro r _ _ hp; simp at hp

theorem del_rinv (sh : LazyShape) (d : Defaults) (parse : Ident → CM) (s : RaceSt) (_h : RInv d parse s) :
    RInv d parse (raceStep sh d parse s .del) := by
  simp only [raceStep]
  refine ⟨?_, ?_, ?_⟩
  · intro _ _ i hi; simp at hi
  · intro _ i hi; simp at hi
  · intro r _ _ _ i hi; simp at hi

theorem handle_rinv (sh : LazyShape) (d : Defaults) (parse : Ident → CM) (s : RaceSt) (h : RInv d parse s) :
    RInv d parse (raceStep sh d parse s .handle) := by
  simp only [raceStep]
  split
  · exact h
  · next i rest hp =>
    have h2 := h.2.1 (by simp [hp])
    refine ⟨?_, ?_, ?_⟩
    · intro _ hr j hj
      simp only at hr hj
      have := h2 j hj
      rw [hp, hr] at this
      simp only [List.getLast?_singleton, Option.some.injEq] at this
      subst this
      exact sync_tracks d s.cfg (parse i)
    · intro hr j hj
      simp only at hr hj
      have := h2 j hj
      rw [hp, getLast?_cons_of_ne_nil i rest hr] at this
      exact this
    · intro r _ ha; simp at ha

theorem lazySync_rinv (d : Defaults) (parse : Ident → CM) (s : RaceSt) (r : Option Ident) (h : RInv d parse s)
    (hr : s.pending = [] → ∀ i, s.cm = some i → r = some i) : RInv d parse (lazySync d parse s r) := by
  refine ⟨?_, ?_, ?_⟩
  · intro _ hp i hi
    simp only [lazySync] at hp hi
    have := hr hp i hi
    subst this
    exact sync_tracks d s.cfg (parse i)
  · exact h.2.1
  · intro r' hpc; simp [lazySync] at hpc

theorem lazy_rinv (sh : LazyShape) (hsafe : sh.safe = true) (d : Defaults) (parse : Ident → CM) (s : RaceSt)
    (h : RInv d parse s) : RInv d parse (raceStep sh d parse s .lazy) := by
  have keep : ∀ pc', (∀ r, pc' = LPc.read r → r = s.cm) → RInv d parse { s with pc := pc' } := by
    intro pc' hpc
    refine ⟨h.1, h.2.1, ?_⟩
    intro r hr _ _ i hi
    simp only at hr hi
    rw [hpc r hr]; exact hi
  cases sh with
  | split => simp [LazyShape.safe] at hsafe
  | atomic =>
    simp only [raceStep]
    split
    · exact h
    · exact lazySync_rinv d parse s s.cm h (fun _ i hi => hi)
  | recheck =>
    cases hpc : s.pc with
    | idle =>
      simp only [raceStep, hpc]
      split
      · exact h
      · exact keep .checked (by intro r hr; cases hr)
    | checked =>
      simp only [raceStep, hpc]
      exact keep (.read s.cm) (by intro r hr; cases hr; rfl)
    | read r =>
      simp only [raceStep, hpc]
      split
      · exact keep .idle (by intro r hr; cases hr)
      · next ha =>
        exact lazySync_rinv d parse s r h (fun hp i hi => h.2.2 r hpc (by simpa using ha) hp i hi)

theorem raceStep_rinv (sh : LazyShape) (hsafe : sh.safe = true) (d : Defaults) (parse : Ident → CM) (s : RaceSt) (a : RAct)
    (h : RInv d parse s) : RInv d parse (raceStep sh d parse s a) := by
  cases a with
  | write i => exact write_rinv sh d parse s i h
  | del => exact del_rinv sh d parse s h
  | handle => exact handle_rinv sh d parse s h
  | lazy => exact lazy_rinv sh hsafe d parse s h

theorem raceRun_rinv (sh : LazyShape) (hsafe : sh.safe = true) (d : Defaults) (parse : Ident → CM) (as : List RAct) :
    ∀ (s : RaceSt), RInv d parse s → RInv d parse (raceRun sh d parse s as) := by
  induction as with
  | nil => intro s h; exact h
  | cons a as ih => intro s h; exact ih _ (raceStep_rinv sh hsafe d parse s a h)

end KoordVerif.C20
