import KoordVerif.Model.C19QuotaSpec
/-
C19 (elasticquota part), helper lemmas 1: the effect of the ledger primitives on the observations
`hasE` / `isAssigned` / `getC`, permutation-invariant sums, order independence of GetQuotaName,
and `Canon s w -> Canon t w' -> LedgerEq s t`.
-/
namespace KoordVerif.C19.Quota

/-! ### self figures -/

theorem getC_filter_ne (t : List (Nat × Int)) (q q' : Nat) :
    getC (t.filter (fun e => e.1 != q)) q' = if q' = q then 0 else getC t q' := by
  induction t with
  | nil => simp [getC]
  | cons a t ih =>
    unfold getC at ih ⊢
    by_cases ha : a.1 = q
    · simp only [List.filter_cons, ha, bne_self_eq_false, Bool.false_eq_true, if_false]
      rw [ih]
      by_cases hq : q' = q
      · simp [hq]
      · have : (q == q') = false := by simp; exact fun h => hq h.symm
        simp [hq, List.find?_cons, ha, this]
    · have h1 : (a.1 != q) = true := by simp [ha]
      simp only [List.filter_cons, h1, if_true, List.find?_cons]
      by_cases hq : q' = q
      · have : (a.1 == q') = false := by simp [hq, ha]
        simp only [this]
        rw [ih]
      · by_cases h2 : a.1 = q'
        · simp [h2, hq]
        · have : (a.1 == q') = false := by simp [h2]
          simp only [this]
          rw [ih]

theorem getC_bumpC (t : List (Nat × Int)) (q q' : Nat) (d : Int) :
    getC (bumpC t q d) q' = if q' = q then max 0 (getC t q + d) else getC t q' := by
  by_cases hq : q' = q
  · subst hq
    simp [bumpC, getC, List.find?_cons]
  · have h := getC_filter_ne t q q'
    simp only [hq, if_false] at h
    have : (q == q') = false := by simp; exact fun h => hq h.symm
    simp only [hq, if_false, ← h]
    simp [bumpC, getC, List.find?_cons, this]

@[simp] theorem reqD_cache (s : St) (q : Nat) (d : Int) : (reqD s q d).cache = s.cache := by
  unfold reqD; split <;> rfl
@[simp] theorem reqD_known (s : St) (q : Nat) (d : Int) : (reqD s q d).known = s.known := by
  unfold reqD; split <;> rfl
@[simp] theorem reqD_store (s : St) (q : Nat) (d : Int) : (reqD s q d).store = s.store := by
  unfold reqD; split <;> rfl
@[simp] theorem reqD_used (s : St) (q : Nat) (d : Int) : (reqD s q d).used = s.used := by
  unfold reqD; split <;> rfl
@[simp] theorem usedD_cache (s : St) (q : Nat) (d : Int) : (usedD s q d).cache = s.cache := by
  unfold usedD; split <;> rfl
@[simp] theorem usedD_known (s : St) (q : Nat) (d : Int) : (usedD s q d).known = s.known := by
  unfold usedD; split <;> rfl
@[simp] theorem usedD_store (s : St) (q : Nat) (d : Int) : (usedD s q d).store = s.store := by
  unfold usedD; split <;> rfl
@[simp] theorem usedD_req (s : St) (q : Nat) (d : Int) : (usedD s q d).req = s.req := by
  unfold usedD; split <;> rfl

theorem reqD_req (s : St) (q q' : Nat) (d : Int) (h : 0 ≤ getC s.req q + d) :
    getC (reqD s q d).req q' = getC s.req q' + (if q' = q then d else 0) := by
  unfold reqD
  by_cases hd : d = 0
  · simp [hd]
  · simp only [hd, if_false, getC_bumpC]
    by_cases hq : q' = q
    · subst hq; simp only [if_true]; omega
    · simp [hq]

theorem usedD_used (s : St) (q q' : Nat) (d : Int) (h : 0 ≤ getC s.used q + d) :
    getC (usedD s q d).used q' = getC s.used q' + (if q' = q then d else 0) := by
  unfold usedD
  by_cases hd : d = 0
  · simp [hd]
  · simp only [hd, if_false, getC_bumpC]
    by_cases hq : q' = q
    · subst hq; simp only [if_true]; omega
    · simp [hq]

@[simp] theorem addE_known (s : St) (q : Nat) (p : PodObj) : (addE s q p).known = s.known := by
  unfold addE; split <;> rfl
@[simp] theorem addE_store (s : St) (q : Nat) (p : PodObj) : (addE s q p).store = s.store := by
  unfold addE; split <;> rfl
@[simp] theorem addE_req (s : St) (q : Nat) (p : PodObj) : (addE s q p).req = s.req := by
  unfold addE; split <;> rfl
@[simp] theorem addE_used (s : St) (q : Nat) (p : PodObj) : (addE s q p).used = s.used := by
  unfold addE; split <;> rfl
@[simp] theorem delE_known (s : St) (q pid : Nat) : (delE s q pid).known = s.known := rfl
@[simp] theorem delE_store (s : St) (q pid : Nat) : (delE s q pid).store = s.store := rfl
@[simp] theorem delE_req (s : St) (q pid : Nat) : (delE s q pid).req = s.req := rfl
@[simp] theorem delE_used (s : St) (q pid : Nat) : (delE s q pid).used = s.used := rfl
@[simp] theorem setAsg_known (s : St) (q pid : Nat) (b : Bool) : (setAsg s q pid b).known = s.known := rfl
@[simp] theorem setAsg_store (s : St) (q pid : Nat) (b : Bool) : (setAsg s q pid b).store = s.store := rfl
@[simp] theorem setAsg_req (s : St) (q pid : Nat) (b : Bool) : (setAsg s q pid b).req = s.req := rfl
@[simp] theorem setAsg_used (s : St) (q pid : Nat) (b : Bool) : (setAsg s q pid b).used = s.used := rfl

theorem resolve_congr {s t : St} (hk : s.known = t.known) (hs : s.store = t.store) (p : PodObj) :
    resolve s p = resolve t p := by
  simp [resolve, hk, hs]

/-! ### cache observations -/

theorem hasE_congr {s t : St} (h : s.cache = t.cache) (q pid : Nat) : hasE s q pid = hasE t q pid := by
  simp [hasE, h]
theorem isAssigned_congr {s t : St} (h : s.cache = t.cache) (q pid : Nat) :
    isAssigned s q pid = isAssigned t q pid := by
  simp [isAssigned, h]

@[simp] theorem hasE_reqD (s : St) (q : Nat) (d : Int) (a b : Nat) : hasE (reqD s q d) a b = hasE s a b :=
  hasE_congr (by simp) _ _
@[simp] theorem hasE_usedD (s : St) (q : Nat) (d : Int) (a b : Nat) : hasE (usedD s q d) a b = hasE s a b :=
  hasE_congr (by simp) _ _
@[simp] theorem isAssigned_reqD (s : St) (q : Nat) (d : Int) (a b : Nat) :
    isAssigned (reqD s q d) a b = isAssigned s a b := isAssigned_congr (by simp) _ _
@[simp] theorem isAssigned_usedD (s : St) (q : Nat) (d : Int) (a b : Nat) :
    isAssigned (usedD s q d) a b = isAssigned s a b := isAssigned_congr (by simp) _ _

theorem isAssigned_le_hasE (s : St) (q pid : Nat) (h : isAssigned s q pid = true) : hasE s q pid = true := by
  simp only [isAssigned, hasE, List.any_eq_true] at h ⊢
  obtain ⟨e, he, h⟩ := h
  exact ⟨e, he, by simp at h ⊢; exact ⟨h.1.1, h.1.2⟩⟩

theorem isAssigned_of_not_hasE (s : St) (q pid : Nat) (h : hasE s q pid = false) : isAssigned s q pid = false := by
  cases h' : isAssigned s q pid
  · rfl
  · rw [isAssigned_le_hasE s q pid h'] at h; cases h

theorem hasE_addE (s : St) (q : Nat) (p : PodObj) (q' pid : Nat) :
    hasE (addE s q p) q' pid = (hasE s q' pid || (q' == q && pid == p.id)) := by
  unfold addE
  by_cases h : hasE s q p.id = true
  · simp only [h, if_true]
    by_cases hq : q' = q ∧ pid = p.id
    · obtain ⟨rfl, rfl⟩ := hq; simp [h]
    · have : (q' == q && pid == p.id) = false := by
        simp only [Bool.and_eq_false_iff, beq_eq_false_iff_ne]
        by_cases h1 : q' = q
        · exact Or.inr (fun h2 => hq ⟨h1, h2⟩)
        · exact Or.inl h1
      simp [this]
  · simp only [h, if_false, Bool.false_eq_true]
    simp only [hasE, List.any_cons]
    have : (q == q' && p.id == pid) = (q' == q && pid == p.id) := by
      rw [Bool.eq_iff_iff]; simp only [Bool.and_eq_true, beq_iff_eq]
      constructor <;> (rintro ⟨a, b⟩; exact ⟨a.symm, b.symm⟩)
    rw [this, Bool.or_comm]

theorem isAssigned_addE (s : St) (q : Nat) (p : PodObj) (q' pid : Nat) :
    isAssigned (addE s q p) q' pid = isAssigned s q' pid := by
  unfold addE
  by_cases h : hasE s q p.id = true
  · simp [h]
  · simp only [h, if_false, Bool.false_eq_true]
    simp [isAssigned, List.any_cons]

theorem hasE_delE (s : St) (q pid q' pid' : Nat) :
    hasE (delE s q pid) q' pid' = (hasE s q' pid' && !(q' == q && pid' == pid)) := by
  simp only [hasE, delE]
  induction s.cache with
  | nil => simp
  | cons e l ih =>
    simp only [List.filter_cons]
    by_cases h1 : e.q = q ∧ e.pid = pid
    · obtain ⟨h1, h2⟩ := h1
      simp only [h1, h2, beq_self_eq_true, Bool.and_self, Bool.not_true, Bool.false_eq_true, if_false, ih,
        List.any_cons]
      by_cases h3 : q' = q ∧ pid' = pid
      · obtain ⟨rfl, rfl⟩ := h3; simp
      · have : (q == q' && pid == pid') = false := by
          simp only [Bool.and_eq_false_iff, beq_eq_false_iff_ne]
          by_cases h4 : q = q'
          · exact Or.inr (fun h5 => h3 ⟨h4.symm, h5.symm⟩)
          · exact Or.inl h4
        simp [this]
    · have : (e.q == q && e.pid == pid) = false := by
        simp only [Bool.and_eq_false_iff, beq_eq_false_iff_ne]
        by_cases h4 : e.q = q
        · exact Or.inr (fun h5 => h1 ⟨h4, h5⟩)
        · exact Or.inl h4
      simp only [this, Bool.not_false, if_true, List.any_cons, ih]
      by_cases h3 : e.q = q' ∧ e.pid = pid'
      · obtain ⟨rfl, rfl⟩ := h3
        simp [this]
      · have h5 : (e.q == q' && e.pid == pid') = false := by
          simp only [Bool.and_eq_false_iff, beq_eq_false_iff_ne]
          by_cases h4 : e.q = q'
          · exact Or.inr (fun h5 => h3 ⟨h4, h5⟩)
          · exact Or.inl h4
        simp [h5]

theorem isAssigned_delE (s : St) (q pid q' pid' : Nat) :
    isAssigned (delE s q pid) q' pid' = (isAssigned s q' pid' && !(q' == q && pid' == pid)) := by
  simp only [isAssigned, delE]
  induction s.cache with
  | nil => simp
  | cons e l ih =>
    simp only [List.filter_cons]
    by_cases h1 : e.q = q ∧ e.pid = pid
    · obtain ⟨h1, h2⟩ := h1
      simp only [h1, h2, beq_self_eq_true, Bool.and_self, Bool.not_true, Bool.false_eq_true, if_false, ih,
        List.any_cons]
      by_cases h3 : q' = q ∧ pid' = pid
      · obtain ⟨rfl, rfl⟩ := h3; simp
      · have : (q == q' && pid == pid') = false := by
          simp only [Bool.and_eq_false_iff, beq_eq_false_iff_ne]
          by_cases h4 : q = q'
          · exact Or.inr (fun h5 => h3 ⟨h4.symm, h5.symm⟩)
          · exact Or.inl h4
        simp [this]
    · have : (e.q == q && e.pid == pid) = false := by
        simp only [Bool.and_eq_false_iff, beq_eq_false_iff_ne]
        by_cases h4 : e.q = q
        · exact Or.inr (fun h5 => h1 ⟨h4, h5⟩)
        · exact Or.inl h4
      simp only [this, Bool.not_false, if_true, List.any_cons, ih]
      by_cases h3 : e.q = q' ∧ e.pid = pid'
      · obtain ⟨rfl, rfl⟩ := h3
        simp [this]
      · have h5 : (e.q == q' && e.pid == pid') = false := by
          simp only [Bool.and_eq_false_iff, beq_eq_false_iff_ne]
          by_cases h4 : e.q = q'
          · exact Or.inr (fun h5 => h3 ⟨h4, h5⟩)
          · exact Or.inl h4
        simp [h5]

theorem hasE_setAsg (s : St) (q pid : Nat) (b : Bool) (q' pid' : Nat) :
    hasE (setAsg s q pid b) q' pid' = hasE s q' pid' := by
  simp only [hasE, setAsg, List.any_map]
  congr 1
  funext e
  simp only [Function.comp]
  split <;> rfl

theorem isAssigned_setAsg (s : St) (q pid : Nat) (b : Bool) (q' pid' : Nat) :
    isAssigned (setAsg s q pid b) q' pid' =
      if q' = q ∧ pid' = pid then (b && hasE s q pid) else isAssigned s q' pid' := by
  simp only [isAssigned, hasE, setAsg, List.any_map]
  induction s.cache with
  | nil => simp
  | cons e l ih =>
    simp only [List.any_cons, ih, Function.comp]
    by_cases h3 : q' = q ∧ pid' = pid
    · obtain ⟨rfl, rfl⟩ := h3
      simp only [and_self, if_true]
      by_cases h1 : (e.q == q' && e.pid == pid') = true
      · simp [h1]
        intro hb _ _ _ _; exact hb
      · simp only [Bool.not_eq_true] at h1
        simp [h1]
    · simp only [h3, if_false]
      congr 1
      by_cases h1 : (e.q == q && e.pid == pid) = true
      · simp only [h1, if_true]
        have : (e.q == q' && e.pid == pid') = false := by
          simp only [Bool.and_eq_true, beq_iff_eq] at h1
          simp only [Bool.and_eq_false_iff, beq_eq_false_iff_ne]
          by_cases h4 : e.q = q'
          · exact Or.inr (fun h5 => h3 ⟨h4 ▸ h1.1.symm ▸ rfl, h5 ▸ h1.2.symm ▸ rfl⟩)
          · exact Or.inl h4
        simp [this]
      · simp [h1]

/-! ### refreshPodIfPresent / getCachedPod (fix 7265fb2) -/

@[simp] theorem refreshE_known (s : St) (q : Nat) (p : PodObj) : (refreshE s q p).known = s.known := rfl
@[simp] theorem refreshE_store (s : St) (q : Nat) (p : PodObj) : (refreshE s q p).store = s.store := rfl
@[simp] theorem refreshE_req (s : St) (q : Nat) (p : PodObj) : (refreshE s q p).req = s.req := rfl
@[simp] theorem refreshE_used (s : St) (q : Nat) (p : PodObj) : (refreshE s q p).used = s.used := rfl

theorem hasE_refreshE (s : St) (q : Nat) (p : PodObj) (q' pid' : Nat) :
    hasE (refreshE s q p) q' pid' = hasE s q' pid' := by
  simp only [hasE, refreshE, List.any_map]
  congr 1
  funext e
  simp only [Function.comp]
  split <;> rfl

theorem isAssigned_refreshE (s : St) (q : Nat) (p : PodObj) (q' pid' : Nat) :
    isAssigned (refreshE s q p) q' pid' = isAssigned s q' pid' := by
  simp only [isAssigned, refreshE, List.any_map]
  congr 1
  funext e
  simp only [Function.comp]
  split <;> rfl

theorem cachedObj_of_hasE (s : St) (q pid : Nat) (h : hasE s q pid = true) :
    ∃ e ∈ s.cache, e.q = q ∧ e.pid = pid ∧ cachedObj s q pid = some e.obj := by
  unfold cachedObj
  cases hf : s.cache.find? (fun e => e.q == q && e.pid == pid) with
  | none =>
    rw [hasE, List.any_eq_true] at h
    obtain ⟨e, he, hp⟩ := h
    exact absurd hp (List.find?_eq_none.1 hf e he)
  | some e =>
    have hp := List.find?_some hf
    simp only [Bool.and_eq_true, beq_iff_eq] at hp
    exact ⟨e, List.mem_of_find?_eq_some hf, hp.1, hp.2, rfl⟩

/-! ### sums -/

def sumBy (l : List PodObj) (f : PodObj → Bool) : Int :=
  match l with
  | [] => 0
  | o :: l => (if f o then o.req else 0) + sumBy l f

theorem foldl_add (l : List Int) (a : Int) : l.foldl (· + ·) a = a + l.foldl (· + ·) 0 := by
  induction l generalizing a with
  | nil => simp
  | cons x l ih => simp only [List.foldl_cons]; rw [ih, ih (0 + x)]; omega

theorem sumReq_cons (o : PodObj) (l : List PodObj) : sumReq (o :: l) = o.req + sumReq l := by
  unfold sumReq; simp only [List.map_cons, List.foldl_cons]; rw [foldl_add]; omega

theorem sumReq_perm {l l' : List PodObj} (h : l.Perm l') : sumReq l = sumReq l' := by
  induction h with
  | nil => rfl
  | cons x _ ih => simp only [sumReq_cons, ih]
  | swap x y l => simp only [sumReq_cons]; omega
  | trans _ _ ih1 ih2 => rw [ih1, ih2]

theorem sumReq_filter (l : List PodObj) (f : PodObj → Bool) : sumReq (l.filter f) = sumBy l f := by
  induction l with
  | nil => simp [sumReq, sumBy]
  | cons o l ih =>
    unfold sumReq at ih ⊢
    simp only [List.filter_cons, sumBy]
    split
    · simp only [List.map_cons, List.foldl_cons]; rw [foldl_add, ih]; omega
    · rw [ih]; omega

theorem sumBy_congr {l : List PodObj} {f g : PodObj → Bool} (h : ∀ o ∈ l, f o = g o) : sumBy l f = sumBy l g := by
  induction l with
  | nil => rfl
  | cons o l ih =>
    simp only [sumBy]
    rw [h o (by simp), ih (fun x hx => h x (by simp [hx]))]

theorem sumBy_false {l : List PodObj} {f : PodObj → Bool} (h : ∀ o ∈ l, f o = false) : sumBy l f = 0 := by
  induction l with
  | nil => rfl
  | cons o l ih =>
    simp only [sumBy]
    rw [h o (by simp), ih (fun x hx => h x (by simp [hx]))]; simp

theorem sumBy_nonneg {l : List PodObj} (f : PodObj → Bool) (h : ∀ o ∈ l, 0 ≤ o.req) : 0 ≤ sumBy l f := by
  induction l with
  | nil => simp [sumBy]
  | cons o l ih =>
    simp only [sumBy]
    have := h o (by simp)
    have := ih (fun x hx => h x (by simp [hx]))
    split <;> omega

theorem sumBy_perm {l l' : List PodObj} (f : PodObj → Bool) (h : l.Perm l') : sumBy l f = sumBy l' f := by
  induction h with
  | nil => rfl
  | cons x _ ih => simp only [sumBy, ih]
  | swap x y l => simp only [sumBy]; omega
  | trans _ _ ih1 ih2 => rw [ih1, ih2]

def NodupIds (l : List PodObj) : Prop := l.Pairwise (fun a b => a.id ≠ b.id)

theorem NodupIds.eq_of_id {l : List PodObj} (h : NodupIds l) {a b : PodObj} (ha : a ∈ l) (hb : b ∈ l)
    (hab : a.id = b.id) : a = b := by
  induction l with
  | nil => cases ha
  | cons x l ih =>
    have hp := List.pairwise_cons.1 h
    rcases List.mem_cons.1 ha with rfl | ha' <;> rcases List.mem_cons.1 hb with rfl | hb'
    · rfl
    · exact absurd hab (hp.1 b hb')
    · exact absurd hab.symm (hp.1 a ha')
    · exact ih hp.2 ha' hb'

theorem NodupIds.nodup {l : List PodObj} (h : NodupIds l) : l.Nodup := by
  unfold NodupIds at h
  exact List.Pairwise.imp (fun hab he => hab (by rw [he])) h

/-- changing the predicate at one pod -/
theorem sumBy_point {l : List PodObj} (hnd : NodupIds l) {o : PodObj} (ho : o ∈ l) (f g : PodObj → Bool)
    (hfg : ∀ x ∈ l, x.id ≠ o.id → f x = g x) :
    sumBy l f - (if f o then o.req else 0) = sumBy l g - (if g o then o.req else 0) := by
  induction l with
  | nil => cases ho
  | cons x l ih =>
    have hp := List.pairwise_cons.1 hnd
    simp only [sumBy]
    rcases List.mem_cons.1 ho with rfl | ho'
    · have : sumBy l f = sumBy l g :=
        sumBy_congr (fun y hy => hfg y (by simp [hy]) (fun h => hp.1 y hy h.symm))
      omega
    · have h1 : f x = g x := hfg x (by simp) (hp.1 o ho')
      have := ih hp.2 ho' (fun y hy => hfg y (by simp [hy]))
      rw [h1]; omega

/-- the predicate changes nowhere on the list -/
theorem sumBy_point_absent {l : List PodObj} (f g : PodObj → Bool) (pid : Nat)
    (hfg : ∀ x ∈ l, x.id ≠ pid → f x = g x) (hab : ∀ x ∈ l, x.id ≠ pid) : sumBy l f = sumBy l g :=
  sumBy_congr (fun x hx => hfg x hx (hab x hx))

/-! ### GetQuotaName does not depend on the order of the store -/

def NssUnique (S : List QObj) : Prop :=
  ∀ q ∈ S, ∀ q' ∈ S, ∀ n, n ∈ q.nss → n ∈ q'.nss → q'.name = q.name

theorem storeUnique_nss {S : List QObj} (h : storeUnique S = true) : NssUnique S := by
  intro q hq q' hq' n hn hn'
  simp only [storeUnique, Bool.and_eq_true, List.all_eq_true, Bool.or_eq_true, beq_iff_eq,
    Bool.not_eq_true', List.contains_eq_mem, decide_eq_false_iff_not] at h
  rcases h.2 q hq n hn q' hq' with h1 | h1
  · exact h1
  · exact absurd hn' (by simpa using h1)

theorem storeUnique_names {S : List QObj} (h : storeUnique S = true) : (S.map (·.name)).Nodup := by
  simp only [storeUnique, Bool.and_eq_true, decide_eq_true_eq] at h
  exact h.1

theorem quotaNameOf_congr {S T : List QObj} (h : ∀ q, q ∈ S ↔ q ∈ T) (hu : NssUnique S) (p : PodObj) :
    quotaNameOf S p = quotaNameOf T p := by
  unfold quotaNameOf
  split
  · rfl
  · cases hS : S.find? (fun q => q.name == p.ns && q.own) with
    | some a =>
      have ha := List.find?_some hS
      have haS := List.mem_of_find?_eq_some hS
      cases hT : T.find? (fun q => q.name == p.ns && q.own) with
      | some b =>
        have hb := List.find?_some hT
        simp only [Bool.and_eq_true, beq_iff_eq] at ha hb
        simp only [ha.1, hb.1]
      | none =>
        have := List.find?_eq_none.1 hT a ((h a).1 haS)
        exact absurd ha this
    | none =>
      cases hT : T.find? (fun q => q.name == p.ns && q.own) with
      | some b =>
        have hb := List.find?_some hT
        have hbT := List.mem_of_find?_eq_some hT
        have := List.find?_eq_none.1 hS b ((h b).2 hbT)
        exact absurd hb this
      | none =>
        simp only
        cases hS2 : S.find? (fun q => q.nss.contains p.ns) with
        | some a =>
          have ha := List.find?_some hS2
          have haS := List.mem_of_find?_eq_some hS2
          cases hT2 : T.find? (fun q => q.nss.contains p.ns) with
          | some b =>
            have hb := List.find?_some hT2
            have hbT := List.mem_of_find?_eq_some hT2
            simp only [List.contains_eq_mem, decide_eq_true_eq] at ha hb
            simp only
            exact (hu a haS b ((h b).2 hbT) p.ns ha hb).symm
          | none =>
            have := List.find?_eq_none.1 hT2 a ((h a).1 haS)
            exact absurd ha this
        | none =>
          cases hT2 : T.find? (fun q => q.nss.contains p.ns) with
          | some b =>
            have hb := List.find?_some hT2
            have hbT := List.mem_of_find?_eq_some hT2
            have := List.find?_eq_none.1 hS2 b ((h b).2 hbT)
            exact absurd hb this
          | none => rfl

/-! ### two canonical ledgers over the same objects are equal -/

theorem chargedTo_sum (s : St) (w : World) (q : Nat) :
    sumReq (chargedTo s w q) = sumBy w.alive (fun o => resolve s o == q) := by
  unfold chargedTo; exact sumReq_filter _ _

theorem chargedTo_sum_asg (s : St) (w : World) (q : Nat) :
    sumReq ((chargedTo s w q).filter (fun o => bound o || w.resvd.contains o.id)) =
      sumBy w.alive (fun o => resolve s o == q && (bound o || w.resvd.contains o.id)) := by
  unfold chargedTo; rw [List.filter_filter, sumReq_filter]
  apply sumBy_congr; intro o _; rw [Bool.and_comm]

theorem LedgerEq_of_Canon {s t : St} {w w' : World} (cs : Canon s w) (ct : Canon t w')
    (hk : ∀ q, s.known.contains q = t.known.contains q)
    (hr : ∀ o ∈ w.alive, resolve s o = resolve t o)
    (hp : w.alive.Perm w'.alive) (hrv : w.resvd = []) (hrv' : w'.resvd = []) : LedgerEq s t := by
  have hf : ∀ q, (chargedTo s w q).Perm (chargedTo t w' q) := by
    intro q
    unfold chargedTo
    have : w.alive.filter (fun o => resolve s o == q) = w.alive.filter (fun o => resolve t o == q) :=
      List.filter_congr (fun o ho => by rw [hr o ho])
    rw [this]
    exact hp.filter _
  refine ⟨hk, ?_, ?_, ?_, ?_⟩
  · intro q pid; rw [cs.has, ct.has]; exact (hf q).any_eq
  · intro q pid; rw [cs.asg, ct.asg, hrv, hrv']; exact (hf q).any_eq
  · intro q; rw [cs.req, ct.req]; exact sumReq_perm (hf q)
  · intro q; rw [cs.used, ct.used, hrv, hrv']
    exact sumReq_perm ((hf q).filter _)

end KoordVerif.C19.Quota
