import KoordVerif.Model.C08
/-
C08 — which usage an aggregated profile (type, duration) reads, including the two fall-backs of
getTargetAggregatedUsage / GetNodeMetricAndEstimatedOfExisting.
-/
namespace KoordVerif.C08

/-- the cell (type, duration) is reported: usage of that cell + the usage-delta of the assigned pods -/
theorem agg_cell_used (cfg : Cfg) (n : Node) (m : Metric) (typ dur : Nat) (u : Vec) (hm : n.metric = some m)
    (ht : typ ≠ 0) (hi : m.hasInfo = true) (hu : aggLookup m typ dur = some u) :
    estimatedOfExisting cfg n false typ dur = some (m, vadd (vadd (vzero cfg.d) u) n.sums.nodeDelta) := by
  have ht' : (typ != 0) = true := by simpa using ht
  simp [estimatedOfExisting, hm, targetUsage, ht', hi, hu]

/-- duration 0 ("the longest reported period") and nothing reported for the type: the plain node usage is used -/
theorem agg_dur0_falls_back_to_node_usage (cfg : Cfg) (n : Node) (m : Metric) (typ : Nat) (hm : n.metric = some m)
    (ht : typ ≠ 0) (hi : m.hasInfo = true) (hu : aggLookup m typ 0 = none) :
    estimatedOfExisting cfg n false typ 0 = some (m, vadd (vadd (vzero cfg.d) m.nodeUsage) n.sums.nodeDelta) := by
  have ht' : (typ != 0) = true := by simpa using ht
  simp [estimatedOfExisting, hm, targetUsage, ht', hi, hu]

/-- an explicit duration whose cell is not reported: NO usage is read at all — the estimate is the sum of the full
estimates of the assigned pods (the fall-back the level note mentions; written as it is in the source) -/
theorem agg_missing_cell_full_estimates (cfg : Cfg) (n : Node) (m : Metric) (typ dur : Nat) (hm : n.metric = some m)
    (ht : typ ≠ 0) (hd : dur ≠ 0) (hu : aggLookup m typ dur = none) :
    estimatedOfExisting cfg n false typ dur = some (m, vadd (vzero cfg.d) n.sums.nodeEst) := by
  have ht' : (typ != 0) = true := by simpa using ht
  have hd' : (dur == 0) = false := by simpa using hd
  cases hi : m.hasInfo <;> simp [estimatedOfExisting, hm, targetUsage, ht', hi, hu, hd']

/-- the prod view never reads an aggregated usage -/
theorem prod_view_ignores_aggregation (cfg : Cfg) (n : Node) (t d t' d' : Nat) :
    estimatedOfExisting cfg n true t d = estimatedOfExisting cfg n true t' d' := by
  unfold estimatedOfExisting; cases n.metric <;> simp

end KoordVerif.C08
