import KoordVerif.Proofs.C04Inv
/-
C04 extension (round 6): Reservations that are gang members.

core.go NewPodGroupManager registers the pod handler literal once more on the Reservation informer, behind
reservationutil.NewReservationToPodEventHandler: every Reservation event reaches onPodAdd / onPodUpdate / onPodDelete as
an event of the RESERVE POD (reservationutil.NewReservePod).  The reserve pod's spec.nodeName is the Reservation's
status.nodeName (the scheduling result) and nothing else; the node the user REQUESTS in spec.template.spec.nodeName is
moved to the reservation-node annotation.  `deliverRsv rule upd r p g anno` (Model/C04.lean) is the pod event the
GangCache sees; rule 0 = the code, rule 1 = "already bound" also when only the annotation names a node.

(theorems in Props/C04.lean, section J; this file keeps the helper lemmas and the witness history)
-/
namespace KoordVerif.C04

/-- pod `q` is not in the bound set -/
def PodSets.Unbound (q : Pod) (g : PodSets) : Prop := q ∉ g.bound

theorem unbound_empty (q : Pod) : PodSets.Unbound q PodSets.empty := by
  simp [PodSets.Unbound, PodSets.empty]

/-- only `addBound q` itself brings `q` into the bound set -/
theorem unbound_setOps (q p : Pod) (g : PodSets) (h : g.Unbound q) :
    (g.setChild p false).Unbound q ∧ (g.delAssumed p).Unbound q ∧ (g.addAssumed p).Unbound q ∧
    (g.deletePod p).Unbound q ∧
    (p ≠ q → ((g.setChild p true).addBound p).Unbound q ∧ (g.addBound p).Unbound q) := by
  unfold PodSets.Unbound at *
  unfold PodSets.setChild PodSets.addBound PodSets.delAssumed PodSets.addAssumed PodSets.deletePod
  refine ⟨?_, ?_, ?_, ?_, ?_⟩
  · grind [mem_sIns, mem_sDel]
  · grind [mem_sIns, mem_sDel]
  · grind [mem_sIns, mem_sDel]
  · grind [mem_sIns, mem_sDel]
  · intro hne
    have hne' : q ≠ p := fun e => hne e.symm
    constructor <;> grind [mem_sIns, mem_sDel]

/-- the pod an entry point BINDS: onPodAdd / onPodUpdate of a pod that carries a node name, and PostBind -/
def Op.binds? : Op → Option Pod
  | .podEvt p _ true _ => some p
  | .postBind p _ => some p
  | _ => none

/-- every entry point that does not bind `q` keeps `q` out of the bound set of every cached gang -/
theorem step_keeps_unbound (q : Pod) (s : State) (op : Op) (hop : op.binds? ≠ some q)
    (h : AllG (PodSets.Unbound q) s.gangs) : AllG (PodSets.Unbound q) (step s op).1.gangs := by
  cases op with
  | pgAdd g c => exact ((sim_ensureGang s g).trans (sim_pgApply _ g c)).allG (unbound_empty q) h
  | pgUpd g c =>
    simp only [step]
    unfold pgUpd
    split
    · exact h
    · exact (sim_pgApply s g c).allG (unbound_empty q) h
  | pgDel g =>
    simp only [step]
    unfold pgDel
    split
    · exact h
    · exact (sim_removeGang s _).allG (unbound_empty q) h
  | podEvt p g n a =>
    simp only [step]
    have h1 := (podEvt_pre_sim s g a).allG (unbound_empty q) h
    unfold podEvt
    simp only
    cases n with
    | false =>
      simp only [Bool.false_eq_true, if_false]
      exact allG_updGang h1 (fun g hg _ => (unbound_setOps q p g.ps (h1 g hg)).1)
    | true =>
      have hne : p ≠ q := fun e => hop (by simp [Op.binds?, e])
      simp only [if_true]
      rw [satGang_gangs]
      simp only
      rw [updGang_updGang _ g (fun g => g.setChild p true) (fun g => g.addBound p) (fun g => rfl)]
      exact allG_updGang h1 (fun g hg _ => ((unbound_setOps q p g.ps (h1 g hg)).2.2.2.2 hne).1)
  | podDel p g =>
    simp only [step]
    unfold podDel
    split
    · exact h
    · simp only
      have h1 : AllG (PodSets.Unbound q) (updGang s.gangs g (fun g => g.deletePod p)) :=
        allG_updGang h (fun g hg _ => (unbound_setOps q p g.ps (h g hg)).2.2.2.1)
      split
      · exact (sim_removeGang _ _).allG (unbound_empty q) h1
      · exact h1
  | permit p g =>
    exact permit_allG (Q := fun _ _ => True) (fun g p' hg _ => (unbound_setOps q p' g hg).2.2.1) s p g h
      (fun _ _ _ => trivial)
  | unreserve p g =>
    simp only [step]
    unfold unreserve
    simp only
    split
    · exact h
    · have h1 : AllG (PodSets.Unbound q) (updGang (fwRemove s p).gangs g (fun g => g.delAssumed p)) :=
        allG_updGang h (fun g hg _ => (unbound_setOps q p g.ps (h g hg)).2.1)
      split
      · simp only
        rw [rejectGroup_gangs]
        exact h1
      · exact h1
  | postBind p g =>
    have hne : p ≠ q := fun e => hop (by simp [Op.binds?, e])
    simp only [step]
    unfold postBind
    simp only
    split
    · exact h
    · rw [satGang_gangs]
      exact allG_updGang h (fun g hg _ => ((unbound_setOps q p g.ps (h g hg)).2.2.2.2 hne).2)
  | postFilter p g =>
    simp only [step]
    rw [postFilter_gangs]
    exact h
  | nop => exact h

theorem run_keeps_unbound (q : Pod) (ops : List Op) (s : State) (hops : ∀ op ∈ ops, op.binds? ≠ some q)
    (h : AllG (PodSets.Unbound q) s.gangs) : AllG (PodSets.Unbound q) (run s ops).gangs := by
  induction ops generalizing s with
  | nil => exact h
  | cons o os ih =>
    exact ih _ (fun op hop => hops op (List.mem_cons_of_mem _ hop))
      (step_keeps_unbound q s o (hops o List.mem_cons_self) h)

/-- the delivery of an unscheduled Reservation (the code's rule) is not a binding event -/
theorem deliverRsv_unscheduled_binds_none (upd : Bool) (r : Rsv) (hr : r.sched = false) (p : Pod) (g : GangId)
    (anno : Option (Bool × Cfg)) : (deliverRsv 0 upd r p g anno).binds? = none := by
  unfold deliverRsv reservePodHasNode
  rw [hr]
  split <;> simp [Op.binds?]

/-- gang 0: a PodGroup of min 3 with match policy `pol` (a group of its own); member 1 is a Reservation that is still
    PENDING but whose template pins a node; members 2 and 3 are ordinary pods; member 2 comes to Permit first. -/
def pinnedReservationHistory (rule pol : Nat) : List Op :=
  [.pgAdd 0 { min := 3, policy := pol, mode := 1, group := [], gshape := 0 },
   deliverRsv rule false { req := true, sched := false, phase := 0 } 1 0 none,
   .podEvt 2 0 false none, .podEvt 3 0 false none]

end KoordVerif.C04
