import KoordVerif.Proofs.C05Base
/-
Ledger exactness: `Allocated = Σ assigned (masked requests)` is preserved by every cache operation,
including updates that change the reserved dimensions (UpdateReservation recomputes).
-/
namespace KoordVerif.C05

theorem newInfo_good (o : RObj) : RGood (newInfo o) := by
  refine ⟨fun d => by simp [newInfo, sumReq, vzero], ?_⟩
  simp [PodsOK, newInfo]

theorem addAssigned_good (r : RInfo) (p : Pod) (h : RGood r) (hp : PodPre p) : RGood (addAssigned r p) := by
  unfold addAssigned
  split
  · exact h
  · rename_i hn
    have hn' := (hasPod_false_iff _ _).mp (by simpa using hn)
    refine ⟨fun d => ?_, ?_, ?_⟩
    · have := h.1 d
      simp [vadd, vmask, sumReq_append, sumReq, this]
    · simp only [List.map_append, List.map_cons, List.map_nil]
      rw [List.nodup_append]
      refine ⟨h.2.1, by simp, ?_⟩
      intro a ha b hb
      simp only [List.mem_map] at ha
      obtain ⟨x, hx, rfl⟩ := ha
      simp at hb; subst hb
      exact hn' x hx
    · intro q hq
      simp at hq
      rcases hq with hq | hq
      · exact h.2.2 q hq
      · subst hq; exact hp

theorem removeAssigned_good (r : RInfo) (u : Nat) (h : RGood r) : RGood (removeAssigned r u) := by
  unfold removeAssigned
  split
  · exact h
  · rename_i p hf
    have hm := findPod_mem _ _ _ hf
    have hsub : ∀ q ∈ erasePod r.assigned u, PodPre q := fun q hq => h.2.2 q (erasePod_sub _ _ q hq)
    refine ⟨fun d => ?_, erasePod_nodup _ _ h.2.1, hsub⟩
    have hs := sumReq_erase r.names r.assigned u p d h.2.1 hf
    have hnn := sumReq_nonneg r.names (erasePod r.assigned u) d (fun q hq => (hsub q hq).1)
    have h1 := h.1 d
    have hp := h.2.2 p hm.1
    have hp0 := hp.1 d
    by_cases he : p.empty = true
    · have hz := hp.2 he d
      simp only [he, if_true]
      rw [h1, hs, hz]; split <;> omega
    · simp only [he]
      simp only [vsubClamp, vmask, Bool.false_eq_true, if_false]
      rw [h1, hs]
      split <;> split <;> omega

theorem updInfo_good (r : RInfo) (o : RObj) (h : RGood r) : RGood (updInfo r o) := by
  refine ⟨fun d => ?_, h.2⟩
  show (if r.assigned.isEmpty then vmask (namesOf o) r.allocated else sumReq (namesOf o) r.assigned) d
        = sumReq (namesOf o) r.assigned d
  cases hps : r.assigned with
  | nil =>
    have := h.1 d
    rw [hps] at this
    simp [vmask, sumReq] at this ⊢
    intro _; exact this
  | cons p t => simp

theorem foldl_add_good (ps : List Pod) (r : RInfo) (h : RGood r) (hp : ∀ p ∈ ps, PodPre p) :
    RGood (ps.foldl addAssigned r) := by
  induction ps generalizing r with
  | nil => exact h
  | cons p t ih =>
    exact ih (addAssigned r p) (addAssigned_good r p h (hp p (by simp))) (fun q hq => hp q (by simp [hq]))

theorem foldl_remove_good (us : List Nat) (r : RInfo) (h : RGood r) : RGood (us.foldl removeAssigned r) := by
  induction us generalizing r with
  | nil => exact h
  | cons u t ih => exact ih (removeAssigned r u) (removeAssigned_good r u h)

/-- every reservation's ledger is exact -/
def LedgerInv (c : Cache) : Prop := ∀ r ∈ c.infos, RGood r

/-- the only side condition: pods handed to the cache have well-formed (non-negative) requests -/
def LedgerPre (_c : Cache) : Op → Prop
  | .padd _ ps => ∀ p ∈ ps, PodPre p
  | .pupd _ _ _ pn => ∀ p, pn = some p → PodPre p
  | .hadd p => PodPre p.pod
  | .hupd _ pn => PodPre pn.pod
  | _ => True

theorem ledger_set (infos : List RInfo) (r : RInfo) (h : ∀ x ∈ infos, RGood x) (hr : RGood r) :
    ∀ x ∈ setInfo infos r, RGood x := by
  intro x hx
  rcases mem_setInfo infos r x hx with hx | hx
  · exact h x hx.1
  · subst hx; exact hr

theorem refreshIdx_infos (c : Cache) (r : RInfo) (n u : Nat) : (refreshIdx c r n u).infos = c.infos := by
  unfold refreshIdx; split <;> rfl

theorem dropAllocIfEmpty_infos (c : Cache) (r : RInfo) (u : Nat) : (dropAllocIfEmpty c r u).infos = c.infos := by
  unfold dropAllocIfEmpty; split <;> rfl

theorem ledger_updateReservation (c : Cache) (o : RObj) (h : LedgerInv c) :
    LedgerInv (updateReservation c o) := by
  unfold updateReservation
  cases hf : findInfo c o.uid with
  | none =>
    simp only []
    split
    · intro x hx; rw [refreshIdx_infos] at hx; exact ledger_set _ _ h (newInfo_good o) x hx
    · intro x hx; exact ledger_set _ _ h (newInfo_good o) x hx
  | some r0 =>
    have hm := findInfo_mem c o.uid r0 hf
    have hg := updInfo_good r0 o (h r0 hm.1)
    simp only []
    split
    · intro x hx; rw [refreshIdx_infos] at hx; exact ledger_set _ _ h hg x hx
    · intro x hx; exact ledger_set _ _ h hg x hx

theorem ledger_updateIfExists (c : Cache) (o : RObj) (h : LedgerInv c) :
    LedgerInv (updateReservationIfExists c o) := by
  unfold updateReservationIfExists
  cases hf : findInfo c o.uid with
  | none => exact h
  | some r0 =>
    have hm := findInfo_mem c o.uid r0 hf
    have hg := updInfo_good r0 o (h r0 hm.1)
    simp only []
    split
    · intro x hx; rw [refreshIdx_infos] at hx; exact ledger_set _ _ h hg x hx
    · intro x hx; exact ledger_set _ _ h hg x hx

theorem ledger_delete (c : Cache) (u n : Nat) (h : LedgerInv c) : LedgerInv (deleteReservation c u n) := by
  intro x hx
  simp [deleteReservation] at hx
  exact h x hx.1

theorem ledger_addPods (c : Cache) (ru : Nat) (ps : List Pod) (h : LedgerInv c) (hp : ∀ p ∈ ps, PodPre p) :
    LedgerInv (addPods c ru ps).1 := by
  unfold addPods
  cases hf : findInfo c ru with
  | none => exact h
  | some r0 =>
    have hm := findInfo_mem c ru r0 hf
    have hg := foldl_add_good ps r0 (h r0 hm.1) hp
    simp only []
    split
    · exact h
    · split
      · intro x hx; exact ledger_set _ _ h hg x hx
      · intro x hx; exact ledger_set _ _ h hg x hx

theorem ledger_deletePods (c : Cache) (ru : Nat) (us : List Nat) (h : LedgerInv c) :
    LedgerInv (deletePods c ru us) := by
  unfold deletePods
  cases hf : findInfo c ru with
  | none => exact h
  | some r0 =>
    have hm := findInfo_mem c ru r0 hf
    have hg := foldl_remove_good us r0 (h r0 hm.1)
    simp only []
    intro x hx; rw [dropAllocIfEmpty_infos] at hx; exact ledger_set _ _ h hg x hx

theorem ledger_updatePodOld (c : Cache) (ou : Nat) (po : Option Pod) (h : LedgerInv c) :
    LedgerInv (updatePodOld c ou po) := by
  unfold updatePodOld
  cases po with
  | none => exact h
  | some p =>
    cases hf : findInfo c ou with
    | none => exact h
    | some r0 =>
      have hm := findInfo_mem c ou r0 hf
      have hg := removeAssigned_good r0 p.uid (h r0 hm.1)
      simp only []
      intro x hx; rw [dropAllocIfEmpty_infos] at hx; exact ledger_set _ _ h hg x hx

theorem ledger_updatePodNew (c : Cache) (nu : Nat) (pn : Option Pod) (h : LedgerInv c)
    (hp : ∀ p, pn = some p → PodPre p) : LedgerInv (updatePodNew c nu pn) := by
  unfold updatePodNew
  cases pn with
  | none => exact h
  | some p =>
    cases hf : findInfo c nu with
    | none => exact h
    | some r0 =>
      have hm := findInfo_mem c nu r0 hf
      have hg := addAssigned_good r0 p (h r0 hm.1) (hp p rfl)
      simp only []
      split
      · intro x hx; exact ledger_set _ _ h hg x hx
      · intro x hx; exact ledger_set _ _ h hg x hx

theorem ledger_updatePod (c : Cache) (ou nu : Nat) (po pn : Option Pod) (h : LedgerInv c)
    (hp : ∀ p, pn = some p → PodPre p) : LedgerInv (updatePod c ou nu po pn) :=
  ledger_updatePodNew _ nu pn (ledger_updatePodOld c ou po h) hp

theorem ledger_podDelete (c : Cache) (p : HPod) (h : LedgerInv c) : LedgerInv (podDelete c p) := by
  unfold podDelete; split
  · exact ledger_deletePods c _ _ h
  · exact h

theorem ledger_podUpdate (c : Cache) (old : Option HPod) (new : HPod) (h : LedgerInv c) (hp : PodPre new.pod) :
    LedgerInv (podUpdate c old new) := by
  have hup : ∀ ou po, LedgerInv (updatePod c ou new.rAlloc po (some new.pod)) := fun ou po =>
    ledger_updatePod c ou _ po _ h (by intro p hpp; cases hpp; exact hp)
  unfold podUpdate
  split
  · exact ledger_podDelete c new h
  · split
    · cases old with
      | none => exact h
      | some o =>
        simp only []
        split
        · exact ledger_podDelete c _ h
        · exact h
    · cases old with
      | none =>
        simp only []
        split
        · exact hup _ _
        · exact h
      | some o =>
        simp only []
        split
        · exact hup _ _
        · exact h

theorem ledger_step (c : Cache) (op : Op) (h : LedgerInv c) (hp : LedgerPre c op) : LedgerInv (step c op) := by
  cases op with
  | rupd o => exact ledger_updateReservation c o h
  | rupdx o => exact ledger_updateIfExists c o h
  | rdel u n => exact ledger_delete c u n h
  | eadd o =>
    simp only [step, onAdd]; split
    · exact ledger_updateReservation c o h
    · exact h
  | eupd o =>
    simp only [step, onUpdate]; split
    · exact ledger_updateReservation c o h
    · split
      · exact ledger_updateIfExists c o h
      · exact h
  | edel o => exact ledger_updateIfExists c _ h
  | padd ru ps => exact ledger_addPods c ru ps h hp
  | pdel ru us => exact ledger_deletePods c ru us h
  | pupd ou nu po pn => exact ledger_updatePod c ou nu po pn h hp
  | hadd p => exact ledger_podUpdate c none p h hp
  | hupd po pn => exact ledger_podUpdate c (some po) pn h hp
  | hdel p => exact ledger_podDelete c p h

end KoordVerif.C05
