import KoordVerif.Model.C03
/-
C03 — helper lemmas: lookups, the parent chain, `LessThanOrEqual`, and the invariant `Inv` with its
generic preservation lemma.  The property theorems are in `Props/C03.lean`.
-/
namespace KoordVerif.C03

/-! ### lookups -/

theorem findQ_some {qs : List Quota} {n : Nat} {q : Quota} (h : findQ qs n = some q) : q ∈ qs ∧ q.name = n := by
  unfold findQ at h
  refine ⟨List.mem_of_find?_eq_some h, ?_⟩
  have := List.find?_some h
  simpa using this

theorem findQ_none {qs : List Quota} {n : Nat} (h : findQ qs n = none) : ∀ g ∈ qs, g.name ≠ n := by
  unfold findQ at h
  intro g hg
  have := List.find?_eq_none.mp h g hg
  simpa using this

theorem findQ_of_mem {qs : List Quota} (hn : (qs.map (·.name)).Nodup) {g : Quota} (hg : g ∈ qs) :
    findQ qs g.name = some g := by
  induction qs with
  | nil => cases hg
  | cons x xs ih =>
    simp only [List.map_cons, List.nodup_cons] at hn
    unfold findQ
    rw [List.find?_cons]
    rcases List.mem_cons.mp hg with rfl | h
    · simp
    · have hne : x.name ≠ g.name := by
        intro e
        apply hn.1
        rw [e]
        exact List.mem_map_of_mem h
      have : (x.name == g.name) = false := by simpa using hne
      rw [this]
      exact ih hn.2 h

/-! ### `quotav1.LessThanOrEqual` -/

theorem leqB_iff (D : Nat) (a : Nat → Int) (lim : RL) :
    leqB D a lim = true ↔ ∀ d, d < D → ∀ l, lim d = some l → a d ≤ l := by
  unfold leqB
  rw [List.all_eq_true]
  constructor
  · intro h d hd l hl
    have := h d (List.mem_range.mpr hd)
    rw [hl] at this
    simpa using this
  · intro h d hd
    have hd' := List.mem_range.mp hd
    cases hl : lim d with
    | none => rfl
    | some l => simpa using h d hd' l hl

theorem leqB_false_iff (D : Nat) (a : Nat → Int) (lim : RL) :
    leqB D a lim = false ↔ ∃ d, d < D ∧ ∃ l, lim d = some l ∧ l < a d := by
  constructor
  · intro h
    apply Classical.byContradiction
    intro hne
    have : leqB D a lim = true := by
      rw [leqB_iff]
      intro d hd l hl
      apply Classical.byContradiction
      intro hlt
      exact hne ⟨d, hd, l, hl, by omega⟩
    rw [h] at this
    cases this
  · rintro ⟨d, hd, l, hl, hlt⟩
    cases hb : leqB D a lim with
    | false => rfl
    | true =>
      have := (leqB_iff D a lim).mp hb d hd l hl
      omega

/-! ### the parent chain -/

theorem chain_mem {qs : List Quota} : ∀ (fuel n : Nat) (x : Quota), x ∈ chain qs fuel n → x ∈ qs := by
  intro fuel
  induction fuel with
  | zero => intro n x h; simp [chain] at h
  | succ f ih =>
    intro n x h
    unfold chain at h
    cases hq : findQ qs n with
    | none => simp [hq] at h
    | some q =>
      simp only [hq] at h
      rcases List.mem_cons.mp h with rfl | h'
      · exact (findQ_some hq).1
      · by_cases hr : n = rootName
        · simp [hr] at h'
        · simp only [hr, if_false] at h'
          exact ih _ _ h'

theorem chain_mono {qs : List Quota} : ∀ (fuel n : Nat) (x : Quota), x ∈ chain qs fuel n → x ∈ chain qs (fuel + 1) n := by
  intro fuel
  induction fuel with
  | zero => intro n x h; simp [chain] at h
  | succ f ih =>
    intro n x h
    unfold chain at h ⊢
    cases hq : findQ qs n with
    | none => simp [hq] at h
    | some q =>
      simp only [hq] at h ⊢
      rcases List.mem_cons.mp h with rfl | h'
      · exact List.mem_cons_self
      · by_cases hr : n = rootName
        · simp [hr] at h'
        · simp only [hr, if_false] at h' ⊢
          exact List.mem_cons_of_mem _ (ih _ _ h')

/-- a group without child groups appears on the path of a pod's group only as that group itself. -/
theorem chain_leaf {qs : List Quota} (gname : Nat) (hleaf : ∀ h ∈ qs, h.parent = gname → h.name = gname) :
    ∀ (fuel n : Nat) (x : Quota), x ∈ chain qs fuel n → x.name = gname → n = gname := by
  intro fuel
  induction fuel with
  | zero => intro n x h; simp [chain] at h
  | succ f ih =>
    intro n x h hx
    unfold chain at h
    cases hq : findQ qs n with
    | none => simp [hq] at h
    | some q =>
      simp only [hq] at h
      have hqn := findQ_some hq
      rcases List.mem_cons.mp h with rfl | h'
      · rw [← hqn.2]; exact hx
      · by_cases hr : n = rootName
        · simp [hr] at h'
        · simp only [hr, if_false] at h'
          have := ih _ _ h' hx
          have := hleaf q hqn.1 this
          rw [← hqn.2]; exact this

/-! ### the invariant -/

/-- no registered group has `gname` as its parent (the root is its own parent). -/
def IsLeafL (qs : List Quota) (gname : Nat) : Prop := ∀ h ∈ qs, h.parent = gname → h.name = gname

/-- closed-loop invariant.  `cp` = parent checking switched on for the whole history. -/
structure Inv (cp : Bool) (s : State) : Prop where
  nodup    : (s.quotas.map (·.name)).Nodup
  rootMax  : ∀ g ∈ s.quotas, g.name = rootName → ∀ d, g.max d = none
  nonneg   : ∀ g ∈ s.quotas, ∀ d, 0 ≤ g.used d ∧ 0 ≤ g.npUsed d
  reqNonneg : ∀ p ∈ s.pods, ∀ d, 0 ≤ val p.req d
  usedLeMax : ∀ g ∈ s.quotas, (cp = true ∨ IsLeafL s.quotas g.name) →
                ∀ d, d < s.dims → ∀ m, g.max d = some m → g.used d ≤ m
  npLeMin  : ∀ g ∈ s.quotas, IsLeafL s.quotas g.name →
                ∀ d, d < s.dims → ∀ m, g.min d = some m → g.npUsed d ≤ m

theorem isLeafL_map (qs : List Quota) (f : Quota → Quota)
    (hname : ∀ q, (f q).name = q.name) (hpar : ∀ q, (f q).parent = q.parent) (n : Nat) :
    IsLeafL (qs.map f) n ↔ IsLeafL qs n := by
  unfold IsLeafL
  constructor
  · intro h g hg hp
    have := h (f g) (List.mem_map_of_mem hg) (by rw [hpar]; exact hp)
    rw [hname] at this; exact this
  · intro h g' hg' hp
    rcases List.mem_map.mp hg' with ⟨g, hg, rfl⟩
    rw [hpar] at hp; rw [hname]
    exact h g hg hp

/-- generic preservation: the groups are rewritten one by one by `f` (names and parents kept). -/
theorem inv_map (cp : Bool) (s : State) (f : Quota → Quota) (pods' : List Pod)
    (hname : ∀ q, (f q).name = q.name) (hpar : ∀ q, (f q).parent = q.parent)
    (hroot : ∀ g ∈ s.quotas, g.name = rootName → ∀ d, (f g).max d = none)
    (hnn : ∀ g ∈ s.quotas, ∀ d, 0 ≤ (f g).used d ∧ 0 ≤ (f g).npUsed d)
    (hpods : ∀ p ∈ pods', ∀ d, 0 ≤ val p.req d)
    (hU : ∀ g ∈ s.quotas, (cp = true ∨ IsLeafL s.quotas g.name) →
            ∀ d, d < s.dims → ∀ m, (f g).max d = some m → (f g).used d ≤ m)
    (hN : ∀ g ∈ s.quotas, IsLeafL s.quotas g.name →
            ∀ d, d < s.dims → ∀ m, (f g).min d = some m → (f g).npUsed d ≤ m)
    (h : Inv cp s) : Inv cp { s with quotas := s.quotas.map f, pods := pods' } := by
  have hnames : (s.quotas.map f).map (·.name) = s.quotas.map (·.name) := by
    rw [List.map_map]; apply List.map_congr_left; intro q _; exact hname q
  refine ⟨?_, ?_, ?_, hpods, ?_, ?_⟩
  · show ((s.quotas.map f).map (·.name)).Nodup
    rw [hnames]; exact h.nodup
  · intro g' hg' hr d
    rcases List.mem_map.mp hg' with ⟨g, hg, rfl⟩
    rw [hname] at hr
    exact hroot g hg hr d
  · intro g' hg' d
    rcases List.mem_map.mp hg' with ⟨g, hg, rfl⟩
    exact hnn g hg d
  · intro g' hg' hc d hd m hm
    rcases List.mem_map.mp hg' with ⟨g, hg, rfl⟩
    refine hU g hg ?_ d hd m hm
    rcases hc with hc | hc
    · exact Or.inl hc
    · right
      have := (isLeafL_map s.quotas f hname hpar (f g).name).mp hc
      rw [hname] at this; exact this
  · intro g' hg' hc d hd m hm
    rcases List.mem_map.mp hg' with ⟨g, hg, rfl⟩
    refine hN g hg ?_ d hd m hm
    have := (isLeafL_map s.quotas f hname hpar (f g).name).mp hc
    rw [hname] at this; exact this

theorem clamp0_nonneg (x : Int) : 0 ≤ clamp0 x := by
  unfold clamp0; split <;> omega

theorem clamp0_le {x m : Int} (hx : x ≤ m) (hm : 0 ≤ m) : clamp0 x ≤ m := by
  unfold clamp0; split <;> omega

/-- `updateGroupDeltaUsedNoLock` keeps the invariant when the delta fits on every group of the path
    that the invariant speaks about. -/
theorem inv_applyDelta (cp : Bool) (s : State) (names : List Nat) (self : Option Nat) (δ nδ : Nat → Int) (pods' : List Pod)
    (hpods : ∀ p ∈ pods', ∀ d, 0 ≤ val p.req d)
    (hU : ∀ g ∈ s.quotas, g.name ∈ names → (cp = true ∨ IsLeafL s.quotas g.name) →
            ∀ d, d < s.dims → ∀ m, g.max d = some m → g.used d + δ d ≤ m)
    (hN : ∀ g ∈ s.quotas, g.name ∈ names → IsLeafL s.quotas g.name →
            ∀ d, d < s.dims → ∀ m, g.min d = some m → g.npUsed d + nδ d ≤ m)
    (h : Inv cp s) : Inv cp { s with quotas := applyDelta s names self δ nδ, pods := pods' } := by
  unfold applyDelta
  apply inv_map cp s _ pods' _ _ _ _ hpods _ _ h
  · intro q; by_cases hq : q.name ∈ names <;> simp [hq, addUsed]
  · intro q; by_cases hq : q.name ∈ names <;> simp [hq, addUsed]
  · intro g hg hr d
    by_cases hq : g.name ∈ names <;> simp [hq, addUsed] <;> exact h.rootMax g hg hr d
  · intro g hg d
    by_cases hq : g.name ∈ names
    · simp only [hq, if_true, addUsed]
      exact ⟨clamp0_nonneg _, clamp0_nonneg _⟩
    · simp only [hq, if_false]
      exact h.nonneg g hg d
  · intro g hg hc d hd m hm
    by_cases hq : g.name ∈ names
    · simp only [hq, if_true, addUsed] at hm ⊢
      have h1 := hU g hg hq hc d hd m hm
      have h2 := h.usedLeMax g hg hc d hd m hm
      have h3 := (h.nonneg g hg d).1
      exact clamp0_le h1 (by omega)
    · simp only [hq, if_false] at hm ⊢
      exact h.usedLeMax g hg hc d hd m hm
  · intro g hg hc d hd m hm
    by_cases hq : g.name ∈ names
    · simp only [hq, if_true, addUsed] at hm ⊢
      have h1 := hN g hg hq hc d hd m hm
      have h2 := h.npLeMin g hg hc d hd m hm
      have h3 := (h.nonneg g hg d).2
      exact clamp0_le h1 (by omega)
    · simp only [hq, if_false] at hm ⊢
      exact h.npLeMin g hg hc d hd m hm

/-- only the pod table changed. -/
theorem inv_pods (cp : Bool) (s : State) (pods' : List Pod) (hpods : ∀ p ∈ pods', ∀ d, 0 ≤ val p.req d)
    (h : Inv cp s) : Inv cp { s with pods := pods' } :=
  ⟨h.nodup, h.rootMax, h.nonneg, hpods, h.usedLeMax, h.npLeMin⟩

theorem setPod_req (ps : List Pod) (id : Nat) (f : Pod → Pod) (hf : ∀ x, (f x).req = x.req)
    (h : ∀ p ∈ ps, ∀ d, 0 ≤ val p.req d) : ∀ p ∈ setPod ps id f, ∀ d, 0 ≤ val p.req d := by
  intro p hp d
  unfold setPod at hp
  rcases List.mem_map.mp hp with ⟨x, hx, rfl⟩
  by_cases hi : x.id = id
  · simp only [hi, if_true]; rw [hf]; exact h x hx d
  · simp only [hi, if_false]; exact h x hx d

end KoordVerif.C03
