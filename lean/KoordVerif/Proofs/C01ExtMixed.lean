import KoordVerif.Proofs.C01ExtOrder
/-
C01 extension (schedules quantifier), part 9: whole executions.
The pod handlers hold hierarchyUpdateLock.RLock() from their first to their last section; ReservePod /
UnreservePod / MigratePod / UpdateQuota / DeleteQuota / ResetQuota take the WRITE side (Ties/C01.lean
`tie_hierarchy_lock`).  Hence every execution is a sequence of PHASES: an atomic operation (no handler in flight),
or a pool of pod handlers on distinct pods whose sections interleave arbitrarily and which all finish before the
next write-locked operation starts.
-/
namespace KoordVerif.C01

inductive Phase where
  | atomic (op : Op)
  | pool (evs : List PodEv)

/-- `MExec s phases s'`: some execution of the phases leads from `s` to `s'` (every atomic operation meets `PreF`,
every pool consists of events on distinct pods that meet their precondition when the pool starts, and runs under
SOME complete interleaving of its sections) -/
inductive MExec : State → List Phase → State → Prop
  | nil (s : State) : MExec s [] s
  | atomic {s s' : State} {op : Op} {rest : List Phase} :
      PreF s op → MExec (step s op) rest s' → MExec s (.atomic op :: rest) s'
  | pool {s s1 s' : State} {evs : List PodEv} {pl : Pool} {rest : List Phase} :
      (evs.map PodEv.id).Nodup → (∀ ev ∈ evs, ev.Pre s) →
      PSteps (s, evs.map (thr s)) (s1, pl) → Quiescent pl → MExec s1 rest s' → MExec s (.pool evs :: rest) s'

/-- every quiescent point of every execution satisfies the invariant -/
theorem mexec_good {s s' : State} {phases : List Phase} (hg : Good s) (h : MExec s phases s') : Good s' := by
  induction h with
  | nil => exact hg
  | atomic hpre _ ih => exact ih (step_good_full hg hpre)
  | pool hn hpre hs hq _ ih => exact ih (handlers_serializable hg hn hpre hs hq).1

/-- the figures of a quiescent state are a function of its static data and its cache ENTRIES (not of the order
inside the cache lists): two states satisfying the invariant that agree on these report the same figures -/
theorem figures_determined {A B : State} (hA : Good A) (hB : Good B) (hs : A.map statN = B.map statN)
    (he : ∀ m j, entry A m j = entry B m j) :
    ∀ m qa qb, get? A m = some qa → get? B m = some qb → aggs qa = aggs qb := by
  apply aggs_eq_of_locals hs (CI_of_good hA) (CI_of_good hB)
  intro j
  apply Loc.ext <;> funext m <;> simp [localOf, cntOf, he]

end KoordVerif.C01
