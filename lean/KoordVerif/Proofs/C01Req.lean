import KoordVerif.Proofs.C01Base
/-
C01: exact effect ("frame") of the request propagation `propReqW id` along a parent chain.
-/
namespace KoordVerif.C01

/-- everything but the five request figures is the same -/
structure SameButReq (q q' : Quota) : Prop where
  name : q'.name = q.name
  parent : q'.parent = q.parent
  isParent : q'.isParent = q.isParent
  lend : q'.lend = q.lend
  max : q'.max = q.max
  min : q'.min = q.min
  pods : q'.pods = q.pods
  used : q'.used = q.used
  npUsed : q'.npUsed = q.npUsed
  selfUsed : q'.selfUsed = q.selfUsed
  selfNpUsed : q'.selfNpUsed = q.selfNpUsed

theorem SameButReq.rfl' (q : Quota) : SameButReq q q := by constructor <;> rfl

theorem SameButReq.trans {a b c : Quota} (h1 : SameButReq a b) (h2 : SameButReq b c) : SameButReq a c := by
  cases h1; cases h2; constructor <;> simp_all

theorem addReq_same (q : Quota) (d dnp : Int) (self : Bool) (cl : Int → Int) : SameButReq q (addReq cl q d dnp self) := by
  cases self <;> constructor <;> simp [addReq]

theorem reqNode_same (q : Quota) (d dnp : Int) (self : Bool) (cl : Int → Int) : SameButReq q (reqNode cl q d dnp self) := by
  cases self <;> constructor <;> simp [reqNode, addReq]

theorem lendRule_congr {q q' : Quota} (hl : q'.lend = q.lend) (hm : q'.min = q.min) (x : Int) :
    lendRule q' x = lendRule q x := by
  simp [lendRule, hl, hm]

/-- the figure that plays the role of childRequest: the root only has `request` -/
def crOf (q : Quota) : Int := if q.name = rootName then q.request else q.childRequest

def dCR (s : State) (m : Nat) (q : Quota) : Int := crOf q - q.selfRequest - sumKids Quota.limited m s
def dNpReq (s : State) (m : Nat) (q : Quota) : Int := q.npRequest - q.selfNpRequest - sumKids (·.npRequest) m s

/-- relation between the state before and after a request propagation along `path` -/
def ReqRel (s s' : State) (path : List Nat) (self : Bool) (d dnp : Int) : Prop :=
  ∀ m, (get? s m = none → get? s' m = none) ∧
    ∀ q, get? s m = some q → ∃ q', get? s' m = some q' ∧ SameButReq q q' ∧
      q'.selfRequest = q.selfRequest + (if path.head? = some m ∧ self = true then d else 0) ∧
      q'.selfNpRequest = q.selfNpRequest + (if path.head? = some m ∧ self = true then dnp else 0) ∧
      dCR s' m q' = dCR s m q + (if path.head? = some m ∧ self = false then d else 0) ∧
      dNpReq s' m q' = dNpReq s m q + (if path.head? = some m ∧ self = false then dnp else 0) ∧
      (m ≠ rootName → (m ∈ path ∨ q.request = lendRule q q.childRequest) → q'.request = lendRule q' q'.childRequest) ∧
      (m ∉ path → q' = q)

theorem propReq_frame : ∀ (path : List Nat) (s : State) (self : Bool) (d dnp : Int),
    Chain s path → path.Nodup →
    ReqRel s (propReqW id s path self d dnp) path self d dnp
  | [], s, self, d, dnp, _, _ => by
    intro m
    refine ⟨fun h => by simpa [propReqW] using h, fun q hq => ⟨q, by simpa [propReqW] using hq, SameButReq.rfl' q, ?_⟩⟩
    simp [propReqW]
  | g :: rest, s, self, d, dnp, hc, hnd => by
    obtain ⟨q, hq⟩ := Chain_head hc
    have hqn := get?_name hq
    by_cases hroot : g = rootName
    · -- the root: only addRequestNonNegativeNoLock, then return
      cases rest with
      | cons p rest' => exact absurd hroot hc.1
      | nil =>
        obtain ⟨p, hp1, hp2⟩ := hc
        have hqp : q.parent = p := by simpa [par, hq] using hp1
        have hsame := addReq_same q d dnp self id
        have hq' : get? s (addReq id q d dnp self).name = some q := by rw [hsame.name, hqn]; exact hq
        have hget := get?_set hq'
        have hsL := fun m => sumKids_set Quota.limited m hq' hsame.parent
        have hsN := fun m => sumKids_set (·.npRequest) m hq' hsame.parent
        rw [hsame.name, hqn] at hget
        have f1 : (addReq id q d dnp self).request = q.request + d := by cases self <;> simp [addReq]
        have f2 : (addReq id q d dnp self).npRequest = q.npRequest + dnp := by cases self <;> simp [addReq]
        have f3 : (addReq id q d dnp self).selfRequest = q.selfRequest + (if self = true then d else 0) := by
          cases self <;> simp [addReq]
        have f4 : (addReq id q d dnp self).selfNpRequest = q.selfNpRequest + (if self = true then dnp else 0) := by
          cases self <;> simp [addReq]
        simp only [propReqW, hq]
        rw [if_pos hroot]
        intro m
        simp only [List.head?_cons]
        rw [hget m]
        by_cases hm : m = g
        · subst hm
          refine ⟨fun h => by simp [hq] at h, fun q0 hq0 => ?_⟩
          rw [hq] at hq0; cases hq0
          refine ⟨_, by simp, hsame, ?_⟩
          have hne : q.parent ≠ m := by
            intro e; rw [hqp] at e; subst e; simp [par, hq] at hp2
          have c1 : crOf (addReq id q d dnp self) = q.request + d := by simp [crOf, hsame.name, hqn, hroot, f1]
          have c2 : crOf q = q.request := by simp [crOf, hqn, hroot]
          refine ⟨?_, ?_, ?_, ?_, fun h => absurd hroot h, fun h => absurd (List.mem_cons_self) h⟩
          · simp [f3]
          · simp [f4]
          · simp only [dCR, c1, c2, hsL, hne, if_false, f3]; cases self <;> simp <;> omega
          · simp only [dNpReq, hsN, hne, if_false, f2, f4]; cases self <;> simp <;> omega
        · have hgm : ¬ (some g = some m) := by simpa using fun e => hm e.symm
          refine ⟨fun h => by simpa [hm] using h, fun q0 hq0 => ⟨q0, by simpa [hm] using hq0, SameButReq.rfl' q0, ?_⟩⟩
          have hne : q.parent ≠ m := by
            intro e; rw [hqp] at e; subst e; simp [par, hq0] at hp2
          simp [dCR, dNpReq, hsL, hsN, hne, hgm, hm]
    · -- an ordinary quota
      have hsame := reqNode_same q d dnp self id
      have hq' : get? s (reqNode id q d dnp self).name = some q := by rw [hsame.name, hqn]; exact hq
      have hget := get?_set hq'
      have hsL := fun m => sumKids_set Quota.limited m hq' hsame.parent
      have hsN := fun m => sumKids_set (·.npRequest) m hq' hsame.parent
      rw [hsame.name, hqn] at hget
      have f0 : (reqNode id q d dnp self).childRequest = q.childRequest + d := by cases self <;> simp [reqNode, addReq]
      have f1 : (reqNode id q d dnp self).request = lendRule q (q.childRequest + d) := by
        cases self <;> simp [reqNode, addReq, lendRule]
      have f2 : (reqNode id q d dnp self).npRequest = q.npRequest + dnp := by cases self <;> simp [reqNode, addReq]
      have f3 : (reqNode id q d dnp self).selfRequest = q.selfRequest + (if self = true then d else 0) := by
        cases self <;> simp [reqNode, addReq]
      have f4 : (reqNode id q d dnp self).selfNpRequest = q.selfNpRequest + (if self = true then dnp else 0) := by
        cases self <;> simp [reqNode, addReq]
      have c1 : crOf (reqNode id q d dnp self) = q.childRequest + d := by simp [crOf, hsame.name, hqn, hroot, f0]
      have c2 : crOf q = q.childRequest := by simp [crOf, hqn, hroot]
      have hrule : (reqNode id q d dnp self).request
          = lendRule (reqNode id q d dnp self) (reqNode id q d dnp self).childRequest := by
        rw [lendRule_congr hsame.lend hsame.min, f1, f0]
      simp only [propReqW, hq, hroot, if_false]
      cases rest with
      | nil =>
        obtain ⟨p, hp1, hp2⟩ := hc
        have hqp : q.parent = p := by simpa [par, hq] using hp1
        intro m
        simp only [propReqW, List.head?_cons]
        rw [hget m]
        by_cases hm : m = g
        · subst hm
          refine ⟨fun h => by simp [hq] at h, fun q0 hq0 => ?_⟩
          rw [hq] at hq0; cases hq0
          refine ⟨_, by simp, hsame, ?_⟩
          have hne : q.parent ≠ m := by
            intro e; rw [hqp] at e; subst e; simp [par, hq] at hp2
          refine ⟨?_, ?_, ?_, ?_, fun _ _ => hrule, fun h => absurd (List.mem_cons_self) h⟩
          · simp [f3]
          · simp [f4]
          · simp only [dCR, c1, c2, hsL, hne, if_false, f3]; cases self <;> simp <;> omega
          · simp only [dNpReq, hsN, hne, if_false, f2, f4]; cases self <;> simp <;> omega
        · have hgm : ¬ (some g = some m) := by simpa using fun e => hm e.symm
          refine ⟨fun h => by simpa [hm] using h, fun q0 hq0 => ⟨q0, by simpa [hm] using hq0, SameButReq.rfl' q0, ?_⟩⟩
          have hne : q.parent ≠ m := by
            intro e; rw [hqp] at e; subst e; simp [par, hq0] at hp2
          simp [dCR, dNpReq, hsL, hsN, hne, hgm, hm]
      | cons p rest' =>
        obtain ⟨_, hp1, hc'⟩ := hc
        have hqp : q.parent = p := by simpa [par, hq] using hp1
        have hgp : g ≠ p := by
          intro e; subst e; simp at hnd
        have hgr : g ∉ (p :: rest') := (List.nodup_cons.mp hnd).1
        have hnd' : (p :: rest').Nodup := (List.nodup_cons.mp hnd).2
        have hc1 : Chain (set s (reqNode id q d dnp self)) (p :: rest') :=
          Chain_congr (par_set hq' hsame.parent) _ hc'
        have ih := propReq_frame (p :: rest') (set s (reqNode id q d dnp self)) false
          ((reqNode id q d dnp self).limited - q.limited) dnp hc1 hnd'
        intro m
        obtain ⟨ihn, ihs⟩ := ih m
        rw [hget m] at ihn ihs
        simp only [List.head?_cons] at ihs ⊢
        by_cases hm : m = g
        · subst hm
          refine ⟨fun h => by simp [hq] at h, fun q0 hq0 => ?_⟩
          rw [hq] at hq0; cases hq0
          obtain ⟨q', h1, h2, h3, h4, h5, h6, _, h8⟩ := ihs (reqNode id q d dnp self) (by simp)
          have hq'eq : q' = reqNode id q d dnp self := h8 hgr
          subst hq'eq
          refine ⟨_, h1, hsame, ?_⟩
          have hne : q.parent ≠ m := by rw [hqp]; exact fun e => hgp e.symm
          have hpm : ¬ (some p = some m) := by simpa using fun e => hgp e.symm
          simp only [dCR, dNpReq, hsL, hsN, hne, if_false, hpm, false_and, Int.add_zero] at h5 h6
          refine ⟨?_, ?_, ?_, ?_, fun _ _ => hrule, fun h => absurd (List.mem_cons_self) h⟩
          · simp [f3]
          · simp [f4]
          · simp only [dCR] at h5 ⊢; rw [h5, c1, c2, f3]; cases self <;> simp <;> omega
          · simp only [dNpReq] at h6 ⊢; rw [h6, f2, f4]; cases self <;> simp <;> omega
        · have hgm : ¬ (some g = some m) := by simpa using fun e => hm e.symm
          simp only [hm, if_false] at ihn ihs
          refine ⟨ihn, fun q0 hq0 => ?_⟩
          obtain ⟨q', h1, h2, h3, h4, h5, h6, h7, h8⟩ := ihs q0 hq0
          refine ⟨q', h1, h2, ?_⟩
          simp only [hgm, false_and, if_false, Int.add_zero]
          simp only [Bool.false_eq_true, and_false, if_false, Int.add_zero] at h3 h4
          refine ⟨h3, h4, ?_, ?_, ?_, ?_⟩
          · simp only [dCR, hsL, hqp] at h5 ⊢
            by_cases hpm : p = m
            · subst hpm; simp at h5; omega
            · have : ¬ (some p = some m) := by simpa using hpm
              simp [hpm, this] at h5; omega
          · simp only [dNpReq, hsN, hqp, f2] at h6 ⊢
            by_cases hpm : p = m
            · subst hpm; simp at h6; omega
            · have : ¬ (some p = some m) := by simpa using hpm
              simp [hpm, this] at h6; omega
          · intro hr hor
            refine h7 hr ?_
            rcases hor with hmem | heq
            · left
              rcases List.mem_cons.mp hmem with e | e
              · exact absurd e hm
              · exact e
            · right; exact heq
          · intro hnot
            exact h8 (fun h => hnot (List.mem_cons_of_mem _ h))

end KoordVerif.C01
