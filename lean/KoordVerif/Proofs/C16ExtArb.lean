import KoordVerif.Proofs.C16ExtList
/-
C16 extension — the counting half of `round_inv` for the arbitration model (Model/C16Arb.lean).

Counters of the property (what an observer of the API + the filter's map counts), the well-formedness of an
API state, one-step lemmas for `processJob`, and the induction over a round.
-/
namespace KoordVerif.C16

/-- running, or pending and marked as passed: what every check of a running round counts -/
def liveR (st : ArbSt) (j : JobA) : Bool := live st.arbitrated true j

/-- pod `q` has a live job whose PodRef lies in namespace `k` -/
def hasJobNs (st : ArbSt) (k : Nat) (q : PodA) : Bool :=
  st.jobs.any fun j => liveR st j && j.ns == k && j.pod != 0 && j.pod == q.id

/-- live jobs with a PodRef -/
def cntGlobal (st : ArbSt) : Nat := st.jobs.countP fun j => liveR st j && j.pod != 0
/-- … whose PodRef lies in namespace `k` -/
def cntNs (st : ArbSt) (k : Nat) : Nat := st.jobs.countP fun j => liveR st j && j.pod != 0 && j.ns == k
/-- pods on node `n` that have a live job -/
def cntNode (st : ArbSt) (n : Nat) : Nat := st.pods.countP fun v => v.node == n && hasJob st true v
/-- pods of workload `w` that have a live job in namespace `k` -/
def cntMigr (st : ArbSt) (w k : Nat) : Nat := st.pods.countP fun q => q.wl == w && hasJobNs st k q
/-- pods of workload `w` that are unavailable (namespace `k`) or have a live job in namespace `k` -/
def cntUnav (st : ArbSt) (w k : Nat) : Nat :=
  st.pods.countP fun q => q.wl == w && ((q.ns == k && !podAvail q) || hasJobNs st k q)

/-- API invariants (names are unique, a PodRef resolves to a pod of its own namespace) and the generator
    invariant that `arbitrator.Filter` maintains (`no_second_job`): no pod has two open jobs. -/
structure WF (st : ArbSt) : Prop where
  jobIds : (st.jobs.map (·.id)).Nodup
  podIds : (st.pods.map (·.id)).Nodup
  refNs : ∀ j ∈ st.jobs, ∀ p ∈ st.pods, p.id = j.pod → p.ns = j.ns
  uniqueOpen : ∀ j1 ∈ st.jobs, ∀ j2 ∈ st.jobs, j1.phase ≤ 2 → j2.phase ≤ 2 → j1.pod ≠ 0 → j1.pod = j2.pod → j1 = j2

instance (st : ArbSt) : Decidable (WF st) :=
  if h : (st.jobs.map (·.id)).Nodup ∧ (st.pods.map (·.id)).Nodup ∧
      (∀ j ∈ st.jobs, ∀ p ∈ st.pods, p.id = j.pod → p.ns = j.ns) ∧
      (∀ j1 ∈ st.jobs, ∀ j2 ∈ st.jobs, j1.phase ≤ 2 → j2.phase ≤ 2 → j1.pod ≠ 0 → j1.pod = j2.pod → j1 = j2)
  then isTrue ⟨h.1, h.2.1, h.2.2.1, h.2.2.2⟩
  else isFalse fun w => h ⟨w.jobIds, w.podIds, w.refNs, w.uniqueOpen⟩

/-- how one loop iteration changes the state, as far as the counters are concerned -/
structure StepRel (st st' : ArbSt) (f : JobA → JobA) (adm : Option JobA) : Prop where
  pods : st'.pods = st.pods
  jobs : st'.jobs = st.jobs.map f
  keep : ∀ j, (f j).id = j.id ∧ (f j).pod = j.pod ∧ (f j).ns = j.ns ∧ ((f j).phase = j.phase ∨ (f j).phase = 4)
  live : ∀ j ∈ st.jobs, liveR st' (f j) = true → liveR st j = true ∨ adm = some j
  admOpen : ∀ jj, adm = some jj → jj ∈ st.jobs ∧ jj.phase ≤ 1

theorem findJob_unique (st : ArbSt) (h : (st.jobs.map (·.id)).Nodup) (jid : Nat) (jj j : JobA)
    (hf : findJob st jid = some jj) (hj : j ∈ st.jobs) (hid : j.id = jid) : j = jj :=
  eq_of_find_key (fun e : JobA => e.id) jid st.jobs jj j h hf hj hid

theorem findPod_unique (st : ArbSt) (h : (st.pods.map (·.id)).Nodup) (pid : Nat) (p q : PodA)
    (hf : findPod st pid = some p) (hq : q ∈ st.pods) (hid : q.id = pid) : q = p :=
  eq_of_find_key (fun e : PodA => e.id) pid st.pods p q h hf hq hid

theorem stepRel_refl (st : ArbSt) : StepRel st st id none :=
  ⟨rfl, by simp, fun j => ⟨rfl, rfl, rfl, Or.inl rfl⟩, fun j _ h => Or.inl h, fun jj h => by simp at h⟩

/-- the successful `markPassed` of the job `jj` found under `jid` -/
theorem stepRel_markPassed (st : ArbSt) (h1 : (st.jobs.map (·.id)).Nodup) (jid : Nat) (jj : JobA)
    (hf : findJob st jid = some jj) :
    StepRel st (markPassed st false jid).1 (fun j => if j.id == jid then { j with passedAnn := true } else j)
      (if jj.phase ≤ 1 then some jj else none) := by
  have hmem : jj ∈ st.jobs := List.mem_of_find?_eq_some hf
  refine ⟨by simp [markPassed], by simp [markPassed, setJob], ?_, ?_, ?_⟩
  · intro j; by_cases h : j.id == jid <;> simp [h]
  · intro j hj hl
    have hkeep : (if j.id == jid then { j with passedAnn := true } else j).phase = j.phase ∧
        (if j.id == jid then { j with passedAnn := true } else j).id = j.id := by
      by_cases h : j.id == jid <;> simp [h]
    simp only [liveR, live, markPassed, hkeep.1, hkeep.2, Bool.true_and, Bool.not_true, Bool.false_or,
      if_false, Bool.false_eq_true] at hl ⊢
    by_cases hid : j.id = jid
    · have hj' : j = jj := findJob_unique st h1 jid jj j hf hj hid
      subst hj'
      by_cases hp : j.phase ≤ 1
      · right; simp [hp]
      · left
        have h0 : ¬ j.phase = 0 := by omega
        have h1' : ¬ j.phase = 1 := by omega
        simp [h0, h1'] at hl ⊢
        exact hl
    · left
      simp [hid] at hl ⊢
      exact hl
  · intro x hx
    by_cases hp : jj.phase ≤ 1
    · simp [hp] at hx; subst hx; exact ⟨hmem, hp⟩
    · simp [hp] at hx

/-- updateFailedJob: the job is not live afterwards -/
theorem stepRel_failed (st : ArbSt) (jid : Nat) :
    StepRel st { st with jobs := setJob st.jobs jid (fun j => { j with phase := 4 }), waiting := st.waiting.erase jid }
      (fun j => if j.id == jid then { j with phase := 4 } else j) none := by
  refine ⟨rfl, by simp [setJob], ?_, ?_, fun jj h => by simp at h⟩
  · intro j; by_cases h : j.id == jid <;> simp [h]
  · intro j _ hl
    left
    by_cases hid : j.id == jid
    · simp [liveR, live, hid] at hl
    · simpa [liveR, live, hid] using hl

/-- what the admission of a job needs to know about the iteration that produced it -/
structure StepInfo (cfg : ArbCfg) (uf : List Nat) (st : ArbSt) (jid : Nat) (adm : Option JobA) : Prop where
  found : ∀ jj, adm = some jj → findJob st jid = some jj ∧ (processJob cfg uf st jid).2 = .passed
  checked : ∀ jj p, adm = some jj → jj.pod ≠ 0 → findPod st jj.pod = some p → p.ann = false →
    retryableChecks cfg st true p = true

theorem processJob_rel (cfg : ArbCfg) (uf : List Nat) (st : ArbSt) (jid : Nat) (h1 : (st.jobs.map (·.id)).Nodup) :
    ∃ f adm, StepRel st (processJob cfg uf st jid).1 f adm ∧ StepInfo cfg uf st jid adm := by
  have hnone : StepInfo cfg uf st jid none := ⟨fun jj h => by simp at h, fun jj p h => by simp at h⟩
  unfold processJob
  cases hj : findJob st jid with
  | none => exact ⟨id, none, stepRel_refl st, by simpa [processJob, hj] using hnone⟩
  | some j =>
    have hpass : ∀ (hv : ∀ p, (if j.pod = 0 then none else findPod st j.pod) = some p → p.ann = false →
          retryableChecks cfg st true p = true)
        (hproc : processJob cfg uf st jid = markPassed st (uf.contains jid) jid),
        ∃ f adm, StepRel st (markPassed st (uf.contains jid) jid).1 f adm ∧ StepInfo cfg uf st jid adm := by
      intro hv hproc
      by_cases hu : uf.contains jid = true
      · refine ⟨id, none, ?_, hnone⟩
        simp only [hu, markPassed, if_true]
        exact stepRel_refl st
      · have hu' : uf.contains jid = false := by simpa using hu
        rw [hu']
        refine ⟨_, _, stepRel_markPassed st h1 jid j hj, ?_, ?_⟩
        · intro jj hjj
          by_cases hp : j.phase ≤ 1
          · simp [hp] at hjj; subst hjj
            exact ⟨hj, by rw [hproc, hu']; simp [markPassed]⟩
          · simp [hp] at hjj
        · intro jj p hjj hpod hfp hann
          by_cases hp : j.phase ≤ 1
          · simp [hp] at hjj; subst hjj
            exact hv p (by simp [hpod, hfp]) hann
          · simp [hp] at hjj
    simp only []
    cases hp : (if j.pod = 0 then none else findPod st j.pod) with
    | none =>
      simp only []
      exact hpass (fun p h => by simp [hp] at h) (by simp [processJob, hj, hp])
    | some p =>
      simp only []
      by_cases hn : nonRetryable cfg p = true
      · by_cases hr : retryable cfg st true p = true
        · simp only [hn, hr, Bool.not_true, Bool.false_eq_true, if_false]
          refine hpass ?_ (by simp [processJob, hj, hp, hn, hr])
          intro p' hp' hann
          rw [hp] at hp'
          have : p = p' := by simpa using hp'
          subst this
          simpa [retryable, hann] using hr
        · have hr' : retryable cfg st true p = false := by simpa using hr
          simp only [hn, hr', Bool.not_true, Bool.not_false, Bool.false_eq_true, if_false, if_true]
          exact ⟨id, none, stepRel_refl st, by simpa [processJob, hj, hp, hn, hr'] using hnone⟩
      · have hn' : nonRetryable cfg p = false := by simpa using hn
        simp only [hn', Bool.not_false, if_true]
        exact ⟨_, none, stepRel_failed st jid, by simpa [processJob, hj, hp, hn'] using hnone⟩
