import KoordVerif.Proofs.C16ExtList
/-
C16 extension — the counting half of `round_inv` for the arbitration model (Model/C16Arb.lean).

Counters of the property (what an observer of the API + the filter's map counts), the well-formedness of an
API state, one-step lemmas for `processJob`, and the induction over a round.
-/
namespace KoordVerif.C16

/-- running, or pending and marked as passed: what every check of a running round counts -/
def liveR (st : ArbSt) (j : JobA) : Bool := live st.arbitrated true j

/-- pod `q` has a live job whose PodRef lies in namespace `k` -/
def hasJobNs (st : ArbSt) (k : Nat) (q : PodA) : Bool :=
  st.jobs.any fun j => liveR st j && j.ns == k && j.pod != 0 && j.pod == q.id

/-- live jobs with a PodRef -/
def cntGlobal (st : ArbSt) : Nat := st.jobs.countP fun j => liveR st j && j.pod != 0
/-- … whose PodRef lies in namespace `k` -/
def cntNs (st : ArbSt) (k : Nat) : Nat := st.jobs.countP fun j => liveR st j && j.pod != 0 && j.ns == k
/-- pods on node `n` that have a live job -/
def cntNode (st : ArbSt) (n : Nat) : Nat := st.pods.countP fun v => v.node == n && hasJob st true v
/-- pods of workload `w` that have a live job in namespace `k` -/
def cntMigr (st : ArbSt) (w k : Nat) : Nat := st.pods.countP fun q => q.wl == w && hasJobNs st k q
/-- pods of workload `w` that are unavailable (namespace `k`) or have a live job in namespace `k` -/
def cntUnav (st : ArbSt) (w k : Nat) : Nat :=
  st.pods.countP fun q => q.wl == w && ((q.ns == k && !podAvail q) || hasJobNs st k q)

/-- job `j` is about pod `p` by the documented rule of existingPodMigrationJob: its PodRef carries the pod's UID,
    or the pod's namespace/name -/
def jmatch (j : JobA) (p : PodA) : Bool := (j.pod != 0 && j.uid == p.id) || j.pod == p.id

/-- API invariants (names are unique, a PodRef resolves to a pod of its own namespace; a PodRef whose UID is that of
    an existing pod does not name a DIFFERENT existing pod: its namespace/name is that pod's or resolves to nothing)
    and the generator invariant that `arbitrator.Filter` maintains (`no_second_job`): no pod has two open jobs,
    whether they refer to it by UID or by namespace/name. -/
structure WF (st : ArbSt) : Prop where
  jobIds : (st.jobs.map (·.id)).Nodup
  podIds : (st.pods.map (·.id)).Nodup
  refNs : ∀ j ∈ st.jobs, ∀ p ∈ st.pods, p.id = j.pod → p.ns = j.ns
  uidRef : ∀ j ∈ st.jobs, ∀ p ∈ st.pods, j.pod ≠ 0 → j.uid = p.id → (j.pod = p.id ∨ ∀ q ∈ st.pods, q.id ≠ j.pod)
  uniqueOpen : ∀ j1 ∈ st.jobs, ∀ j2 ∈ st.jobs, j1.phase ≤ 2 → j2.phase ≤ 2 →
    ∀ p ∈ st.pods, jmatch j1 p = true → jmatch j2 p = true → j1 = j2

instance (st : ArbSt) : Decidable (WF st) :=
  if h : (st.jobs.map (·.id)).Nodup ∧ (st.pods.map (·.id)).Nodup ∧
      (∀ j ∈ st.jobs, ∀ p ∈ st.pods, p.id = j.pod → p.ns = j.ns) ∧
      (∀ j ∈ st.jobs, ∀ p ∈ st.pods, j.pod ≠ 0 → j.uid = p.id → (j.pod = p.id ∨ ∀ q ∈ st.pods, q.id ≠ j.pod)) ∧
      (∀ j1 ∈ st.jobs, ∀ j2 ∈ st.jobs, j1.phase ≤ 2 → j2.phase ≤ 2 →
        ∀ p ∈ st.pods, jmatch j1 p = true → jmatch j2 p = true → j1 = j2)
  then isTrue ⟨h.1, h.2.1, h.2.2.1, h.2.2.2.1, h.2.2.2.2⟩
  else isFalse fun w => h ⟨w.jobIds, w.podIds, w.refNs, w.uidRef, w.uniqueOpen⟩

/-- executable form of `WF` (printed by the driver before every round, compared with the harness' own evaluation) -/
def wfB (st : ArbSt) : Bool := decide (WF st)

theorem wfB_iff (st : ArbSt) : wfB st = true ↔ WF st := by simp [wfB]

/-- how one loop iteration changes the state, as far as the counters are concerned -/
structure StepRel (st st' : ArbSt) (f : JobA → JobA) (adm : Option JobA) : Prop where
  pods : st'.pods = st.pods
  jobs : st'.jobs = st.jobs.map f
  keep : ∀ j, (f j).id = j.id ∧ (f j).pod = j.pod ∧ (f j).ns = j.ns ∧ ((f j).phase = j.phase ∨ (f j).phase = 4)
  keepUid : ∀ j, (f j).uid = j.uid
  live : ∀ j ∈ st.jobs, liveR st' (f j) = true → liveR st j = true ∨ adm = some j
  admOpen : ∀ jj, adm = some jj → jj ∈ st.jobs ∧ jj.phase ≤ 1

theorem findJob_unique (st : ArbSt) (h : (st.jobs.map (·.id)).Nodup) (jid : Nat) (jj j : JobA)
    (hf : findJob st jid = some jj) (hj : j ∈ st.jobs) (hid : j.id = jid) : j = jj :=
  eq_of_find_key (fun e : JobA => e.id) jid st.jobs jj j h hf hj hid

theorem findPod_unique (st : ArbSt) (h : (st.pods.map (·.id)).Nodup) (pid : Nat) (p q : PodA)
    (hf : findPod st pid = some p) (hq : q ∈ st.pods) (hid : q.id = pid) : q = p :=
  eq_of_find_key (fun e : PodA => e.id) pid st.pods p q h hf hq hid

theorem stepRel_refl (st : ArbSt) : StepRel st st id none :=
  ⟨rfl, by simp, fun j => ⟨rfl, rfl, rfl, Or.inl rfl⟩, fun _ => rfl, fun j _ h => Or.inl h, fun jj h => by simp at h⟩

/-- the successful `markPassed` of the job `jj` found under `jid` -/
theorem stepRel_markPassed (st : ArbSt) (h1 : (st.jobs.map (·.id)).Nodup) (jid : Nat) (jj : JobA)
    (hf : findJob st jid = some jj) :
    StepRel st (markPassed st false jid).1 (fun j => if j.id == jid then { j with passedAnn := true } else j)
      (if jj.phase ≤ 1 then some jj else none) := by
  have hmem : jj ∈ st.jobs := List.mem_of_find?_eq_some hf
  refine ⟨by simp [markPassed], by simp [markPassed, setJob], ?_, ?_, ?_, ?_⟩
  · intro j; by_cases h : j.id == jid <;> simp [h]
  · intro j; by_cases h : j.id == jid <;> simp [h]
  · intro j hj hl
    have hkeep : (if j.id == jid then { j with passedAnn := true } else j).phase = j.phase ∧
        (if j.id == jid then { j with passedAnn := true } else j).id = j.id := by
      by_cases h : j.id == jid <;> simp [h]
    simp only [liveR, live, markPassed, hkeep.1, hkeep.2, Bool.true_and, Bool.not_true, Bool.false_or,
      if_false, Bool.false_eq_true] at hl ⊢
    by_cases hid : j.id = jid
    · have hj' : j = jj := findJob_unique st h1 jid jj j hf hj hid
      subst hj'
      by_cases hp : j.phase ≤ 1
      · right; simp [hp]
      · left
        have h0 : ¬ j.phase = 0 := by omega
        have h1' : ¬ j.phase = 1 := by omega
        simp [h0, h1'] at hl ⊢
        exact hl
    · left
      simp [hid] at hl ⊢
      exact hl
  · intro x hx
    by_cases hp : jj.phase ≤ 1
    · simp [hp] at hx; subst hx; exact ⟨hmem, hp⟩
    · simp [hp] at hx

/-- updateFailedJob: the job is not live afterwards -/
theorem stepRel_failed (st : ArbSt) (jid : Nat) :
    StepRel st { st with jobs := setJob st.jobs jid (fun j => { j with phase := 4 }), waiting := st.waiting.erase jid }
      (fun j => if j.id == jid then { j with phase := 4 } else j) none := by
  refine ⟨rfl, by simp [setJob], ?_, ?_, ?_, fun jj h => by simp at h⟩
  · intro j; by_cases h : j.id == jid <;> simp [h]
  · intro j; by_cases h : j.id == jid <;> simp [h]
  · intro j _ hl
    left
    by_cases hid : j.id == jid
    · simp [liveR, live, hid] at hl
    · simpa [liveR, live, hid] using hl

/-- what the admission of a job needs to know about the iteration that produced it -/
structure StepInfo (cfg : ArbCfg) (uf : List Nat) (st : ArbSt) (jid : Nat) (adm : Option JobA) : Prop where
  found : ∀ jj, adm = some jj → findJob st jid = some jj ∧ (processJob cfg uf st jid).2 = .passed
  checked : ∀ jj p, adm = some jj → jj.pod ≠ 0 → findPod st jj.pod = some p → p.ann = false →
    retryableChecks cfg st true p = true

theorem processJob_rel (cfg : ArbCfg) (uf : List Nat) (st : ArbSt) (jid : Nat) (h1 : (st.jobs.map (·.id)).Nodup) :
    ∃ f adm, StepRel st (processJob cfg uf st jid).1 f adm ∧ StepInfo cfg uf st jid adm := by
  have hnone : StepInfo cfg uf st jid none := ⟨fun jj h => by simp at h, fun jj p h => by simp at h⟩
  unfold processJob
  cases hj : findJob st jid with
  | none => exact ⟨id, none, stepRel_refl st, by simpa [processJob, hj] using hnone⟩
  | some j =>
    have hpass : ∀ (hv : ∀ p, (if j.pod = 0 then none else findPod st j.pod) = some p → p.ann = false →
          retryableChecks cfg st true p = true)
        (hproc : processJob cfg uf st jid = markPassed st (uf.contains jid) jid),
        ∃ f adm, StepRel st (markPassed st (uf.contains jid) jid).1 f adm ∧ StepInfo cfg uf st jid adm := by
      intro hv hproc
      by_cases hu : uf.contains jid = true
      · refine ⟨id, none, ?_, hnone⟩
        simp only [hu, markPassed, if_true]
        exact stepRel_refl st
      · have hu' : uf.contains jid = false := by simpa using hu
        rw [hu']
        refine ⟨_, _, stepRel_markPassed st h1 jid j hj, ?_, ?_⟩
        · intro jj hjj
          by_cases hp : j.phase ≤ 1
          · simp [hp] at hjj; subst hjj
            exact ⟨hj, by rw [hproc, hu']; simp [markPassed]⟩
          · simp [hp] at hjj
        · intro jj p hjj hpod hfp hann
          by_cases hp : j.phase ≤ 1
          · simp [hp] at hjj; subst hjj
            exact hv p (by simp [hpod, hfp]) hann
          · simp [hp] at hjj
    simp only []
    cases hp : (if j.pod = 0 then none else findPod st j.pod) with
    | none =>
      simp only []
      exact hpass (fun p h => by simp [hp] at h) (by simp [processJob, hj, hp])
    | some p =>
      simp only []
      by_cases hn : nonRetryable cfg p = true
      · by_cases hr : retryable cfg st true p = true
        · simp only [hn, hr, Bool.not_true, Bool.false_eq_true, if_false]
          refine hpass ?_ (by simp [processJob, hj, hp, hn, hr])
          intro p' hp' hann
          rw [hp] at hp'
          have : p = p' := by simpa using hp'
          subst this
          simpa [retryable, hann] using hr
        · have hr' : retryable cfg st true p = false := by simpa using hr
          simp only [hn, hr', Bool.not_true, Bool.not_false, Bool.false_eq_true, if_false, if_true]
          exact ⟨id, none, stepRel_refl st, by simpa [processJob, hj, hp, hn, hr'] using hnone⟩
      · have hn' : nonRetryable cfg p = false := by simpa using hn
        simp only [hn', Bool.not_false, if_true]
        exact ⟨_, none, stepRel_failed st jid, by simpa [processJob, hj, hp, hn'] using hnone⟩

theorem StepRel.wf {st st' : ArbSt} {f : JobA → JobA} {adm : Option JobA} (R : StepRel st st' f adm) (w : WF st) :
    WF st' := by
  have hopen : ∀ j, (f j).phase ≤ 2 → j.phase ≤ 2 := by
    intro j h; rcases (R.keep j).2.2.2 with e | e <;> omega
  have hm : ∀ j p, jmatch (f j) p = jmatch j p := by
    intro j p; simp only [jmatch, (R.keep j).2.1, R.keepUid j]
  refine ⟨?_, by rw [R.pods]; exact w.podIds, ?_, ?_, ?_⟩
  · rw [R.jobs, List.map_map]
    have : ((fun x : JobA => x.id) ∘ f) = fun x => x.id := by funext j; exact (R.keep j).1
    rw [this]; exact w.jobIds
  · intro j' hj' p hp hid
    rw [R.jobs] at hj'; rw [R.pods] at hp
    obtain ⟨j, hj, rfl⟩ := List.mem_map.mp hj'
    rw [(R.keep j).2.1] at hid; rw [(R.keep j).2.2.1]
    exact w.refNs j hj p hp hid
  · intro j' hj' p hp h0 hu
    rw [R.jobs] at hj'; rw [R.pods] at hp ⊢
    obtain ⟨j, hj, rfl⟩ := List.mem_map.mp hj'
    rw [(R.keep j).2.1] at h0 ⊢; rw [R.keepUid j] at hu
    exact w.uidRef j hj p hp h0 hu
  · intro a ha b hb pa pb p hp m1 m2
    rw [R.jobs] at ha hb; rw [R.pods] at hp
    obtain ⟨j1, hj1, rfl⟩ := List.mem_map.mp ha
    obtain ⟨j2, hj2, rfl⟩ := List.mem_map.mp hb
    rw [hm] at m1 m2
    rw [w.uniqueOpen j1 hj1 j2 hj2 (hopen j1 pa) (hopen j2 pb) p hp m1 m2]

theorem liveR_open {st : ArbSt} {j : JobA} (h : liveR st j = true) : j.phase ≤ 2 := by
  simp only [liveR, live, Bool.or_eq_true, Bool.and_eq_true, beq_iff_eq] at h
  omega

/-- job counters: at most one more than `r` counts, and not more when nothing was admitted -/
theorem jobCount_step {st st' : ArbSt} {f : JobA → JobA} {adm : Option JobA} (R : StepRel st st' f adm)
    (h1 : (st.jobs.map (·.id)).Nodup) (q' sel r : JobA → Bool) (hq : ∀ j, q' j = (liveR st' j && sel j))
    (hsel : ∀ j, sel (f j) = sel j)
    (hr : ∀ j ∈ st.jobs, liveR st j = true → sel j = true → adm ≠ some j → r j = true) :
    st'.jobs.countP q' ≤ st.jobs.countP r + (if adm.isSome then 1 else 0) := by
  rw [R.jobs, List.countP_map]
  have key : ∀ j ∈ st.jobs, (q' ∘ f) j = true → r j = true ∨ adm = some j := by
    intro j hj h
    simp only [Function.comp, hq, hsel, Bool.and_eq_true] at h
    by_cases ha : adm = some j
    · exact Or.inr ha
    · rcases R.live j hj h.1 with hl | hl
      · exact Or.inl (hr j hj hl h.2 ha)
      · exact absurd hl ha
  cases adm with
  | none =>
    simp only [Option.isSome_none, Bool.false_eq_true, if_false, Nat.add_zero]
    exact List.countP_mono_left fun j hj h => (key j hj h).resolve_right (by simp)
  | some jj =>
    simp only [Option.isSome_some, if_true]
    apply countP_le_add_one (fun e : JobA => e.id) _ _ jj.id st.jobs h1
    intro j hj h
    rcases key j hj h with h' | h'
    · exact Or.inl h'
    · right; simp at h'; rw [h']

/-- the two-step lookup of existingPodMigrationJob (by UID, then — only if nothing was found — by namespace/name)
    finds a job exactly when SOME available job refers to the pod by UID or by namespace/name -/
theorem hasJob_eq_any (st : ArbSt) (ca : Bool) (v : PodA) :
    hasJob st ca v = st.jobs.any fun j => live st.arbitrated ca j && jmatch j v := by
  have key : ∀ l : List JobA,
      ((l.any fun j => live st.arbitrated ca j && j.pod != 0 && j.uid == v.id) ||
        (l.any fun j => live st.arbitrated ca j && j.pod == v.id)) =
      l.any fun j => live st.arbitrated ca j && ((j.pod != 0 && j.uid == v.id) || j.pod == v.id) := by
    intro l
    induction l with
    | nil => rfl
    | cons j r ih =>
      simp only [List.any_cons, ← ih]
      generalize live st.arbitrated ca j = a
      generalize (j.pod != 0) = b
      generalize (j.uid == v.id) = c
      generalize (j.pod == v.id) = d
      generalize (r.any fun j => live st.arbitrated ca j && j.pod != 0 && j.uid == v.id) = e
      generalize (r.any fun j => live st.arbitrated ca j && j.pod == v.id) = g
      cases a <;> cases b <;> cases c <;> cases d <;> cases e <;> cases g <;> rfl
  unfold hasJob hasJobByUID hasJobByName jmatch
  rw [← key]
  cases (st.jobs.any fun j => live st.arbitrated ca j && j.pod != 0 && j.uid == v.id) <;> simp

/-- under `WF` a job is about at most one existing pod -/
theorem jmatch_unique {st : ArbSt} (w : WF st) {jj : JobA} (hj : jj ∈ st.jobs) {v v' : PodA} (hv : v ∈ st.pods)
    (hv' : v' ∈ st.pods) (m : jmatch jj v = true) (m' : jmatch jj v' = true) : v.id = v'.id := by
  simp only [jmatch, Bool.or_eq_true, Bool.and_eq_true, bne_iff_ne, ne_eq, beq_iff_eq] at m m'
  rcases m with ⟨h0, hu⟩ | hn <;> rcases m' with ⟨h0', hu'⟩ | hn'
  · omega
  · rcases w.uidRef jj hj v hv h0 hu with e | e
    · omega
    · exact absurd hn'.symm (e v' hv')
  · rcases w.uidRef jj hj v' hv' h0' hu' with e | e
    · omega
    · exact absurd hn.symm (e v hv)
  · omega

theorem hasJob_step {st st' : ArbSt} {f : JobA → JobA} {adm : Option JobA} (R : StepRel st st' f adm) (v : PodA)
    (h : hasJob st' true v = true) : hasJob st true v = true ∨ ∃ jj, adm = some jj ∧ jmatch jj v = true := by
  rw [hasJob_eq_any] at h ⊢
  simp only [R.jobs, List.any_map, List.any_eq_true, Function.comp, Bool.and_eq_true] at h ⊢
  obtain ⟨j, hj, hl, hp⟩ := h
  have hm : jmatch (f j) v = jmatch j v := by simp only [jmatch, (R.keep j).2.1, R.keepUid j]
  rw [hm] at hp
  rcases R.live j hj hl with h' | h'
  · exact Or.inl ⟨j, hj, h', hp⟩
  · exact Or.inr ⟨j, h', hp⟩

theorem hasJobNs_step {st st' : ArbSt} {f : JobA → JobA} {adm : Option JobA} (R : StepRel st st' f adm) (k : Nat) (v : PodA)
    (h : hasJobNs st' k v = true) :
    hasJobNs st k v = true ∨ ∃ jj, adm = some jj ∧ jj.pod = v.id ∧ jj.ns = k ∧ jj.pod ≠ 0 := by
  simp only [hasJobNs, R.jobs, List.any_map, List.any_eq_true, Function.comp, Bool.and_eq_true, beq_iff_eq,
    bne_iff_ne, ne_eq] at h ⊢
  obtain ⟨j, hj, ⟨⟨hl, hn⟩, h0⟩, hp⟩ := h
  rw [(R.keep j).2.1] at hp h0; rw [(R.keep j).2.2.1] at hn
  rcases R.live j hj hl with h' | h'
  · exact Or.inl ⟨j, hj, ⟨⟨h', hn⟩, h0⟩, hp⟩
  · exact Or.inr ⟨j, h', hp, hn, h0⟩

/-- the admission of `jid` on `st` is one the code exempts from every limit: the job becomes live although its
    pod is gone / its PodRef is nil (`filtering(nil)` passes), or its pod carries the evict annotation
    (`retryablePodFilter = HaveEvictAnnotation ∨ …`). -/
def exemptAdm (cfg : ArbCfg) (uf : List Nat) (st : ArbSt) (jid : Nat) : Bool :=
  match findJob st jid with
  | none => false
  | some j => (processJob cfg uf st jid).2 == .passed && decide (j.phase ≤ 1) &&
      (match (if j.pod = 0 then none else findPod st j.pod) with
       | none => true
       | some p => p.ann)

/-- number of exempt admissions of a round -/
def roundExempt (cfg : ArbCfg) (uf : List Nat) : ArbSt → List Nat → Nat
  | _, [] => 0
  | st, jid :: r => (if exemptAdm cfg uf st jid then 1 else 0) + roundExempt cfg uf (processJob cfg uf st jid).1 r

theorem findPod_mem {st : ArbSt} {pid : Nat} {p : PodA} (h : findPod st pid = some p) : p ∈ st.pods ∧ p.id = pid := by
  refine ⟨List.mem_of_find?_eq_some h, ?_⟩
  have := List.find?_some h
  simpa using this

theorem findPod_of_mem {st : ArbSt} (h3 : (st.pods.map (·.id)).Nodup) {v : PodA} (hv : v ∈ st.pods) :
    findPod st v.id = some v := by
  cases h : findPod st v.id with
  | none =>
    have := List.find?_eq_none.mp h v hv
    simp at this
  | some p => rw [findPod_unique st h3 v.id p v h hv rfl]

/-- nothing admitted · an exempt admission · a checked admission of job `jj` for pod `p` -/
theorem adm_cases {cfg : ArbCfg} {uf : List Nat} {st : ArbSt} {jid : Nat} {f : JobA → JobA} {adm : Option JobA}
    (R : StepRel st (processJob cfg uf st jid).1 f adm) (I : StepInfo cfg uf st jid adm) (w : WF st) :
    adm = none ∨ (adm.isSome = true ∧ exemptAdm cfg uf st jid = true) ∨
    (∃ jj p, adm = some jj ∧ jj ∈ st.jobs ∧ jj.phase ≤ 1 ∧ jj.pod ≠ 0 ∧ p ∈ st.pods ∧ p.id = jj.pod ∧ p.ns = jj.ns ∧
      retryableChecks cfg st true p = true) := by
  cases hadm : adm with
  | none => exact Or.inl rfl
  | some jj =>
    right
    obtain ⟨hf, hv⟩ := I.found jj hadm
    obtain ⟨hmem, hph⟩ := R.admOpen jj hadm
    by_cases h0 : jj.pod = 0
    · left; simp [exemptAdm, hf, hv, hph, h0]
    · cases hp : findPod st jj.pod with
      | none => left; simp [exemptAdm, hf, hv, hph, h0, hp]
      | some p =>
        by_cases ha : p.ann = true
        · left; simp [exemptAdm, hf, hv, hph, h0, hp, ha]
        · right
          have ha' : p.ann = false := by simpa using ha
          obtain ⟨hpm, hid⟩ := findPod_mem hp
          exact ⟨jj, p, rfl, hmem, hph, h0, hpm, hid, w.refNs jj hmem p hpm hid, I.checked jj p hadm h0 hp ha'⟩

/-! ### global -/

theorem step_global (cfg : ArbCfg) (uf : List Nat) (st : ArbSt) (jid : Nat) (w : WF st)
    (hs : gateSkipped cfg 5 = false) (hl : 0 < cfg.maxGlobal) :
    cntGlobal (processJob cfg uf st jid).1 ≤ cntGlobal st + (if exemptAdm cfg uf st jid then 1 else 0) ∨
      cntGlobal (processJob cfg uf st jid).1 ≤ cfg.maxGlobal.toNat := by
  obtain ⟨f, adm, R, I⟩ := processJob_rel cfg uf st jid w.jobIds
  have hgen := jobCount_step R w.jobIds (fun j => liveR (processJob cfg uf st jid).1 j && j.pod != 0)
    (fun j => j.pod != 0) (fun j => liveR st j && j.pod != 0) (fun _ => rfl)
    (fun j => by rw [(R.keep j).2.1]) (fun j _ h1 h2 _ => by simp [h1, h2])
  rcases adm_cases R I w with h | ⟨h, he⟩ | ⟨jj, p, hadm, hjm, hph, h0, hpm, hid, _, hck⟩
  · left; subst h
    simp only [Option.isSome_none, Bool.false_eq_true, if_false, Nat.add_zero] at hgen
    simp only [cntGlobal]; split <;> omega
  · left; simp only [h, he, if_true] at hgen ⊢; exact hgen
  · right
    have hK := jobCount_step R w.jobIds (fun j => liveR (processJob cfg uf st jid).1 j && j.pod != 0)
      (fun j => j.pod != 0) (fun j => live st.arbitrated true j && j.pod != 0 && j.uid != p.id) (fun _ => rfl)
      (fun j => by rw [(R.keep j).2.1]) (by
        intro j hj h1 h2 hne
        have h1' : live st.arbitrated true j = true := h1
        have : j.uid ≠ p.id := by
          intro e
          have := w.uniqueOpen j hj jj hjm (liveR_open h1) (by omega) p hpm
            (by simp only [jmatch, h2, e]; simp) (by simp [jmatch, hid])
          exact hne (by rw [hadm, this])
        simp [h1', h2, this])
    have hpass : passGlobal cfg st true p = true := by
      simp only [retryableChecks, Bool.and_eq_true] at hck; exact hck.1.1.1
    have hoff : limitOff cfg.maxGlobal = false := by simp [limitOff]; omega
    simp only [passGlobal, hs, hoff, Bool.false_or, decide_eq_true_eq, globalJobs,
      ← List.countP_eq_length_filter] at hpass
    simp only [hadm, Option.isSome_some, if_true] at hK
    simp only [cntGlobal]
    omega

/-! ### per namespace -/

theorem step_ns (cfg : ArbCfg) (uf : List Nat) (st : ArbSt) (jid : Nat) (w : WF st) (k : Nat)
    (hs : gateSkipped cfg 4 = false) (hl : 0 < cfg.maxNs) :
    cntNs (processJob cfg uf st jid).1 k ≤ cntNs st k + (if exemptAdm cfg uf st jid then 1 else 0) ∨
      cntNs (processJob cfg uf st jid).1 k ≤ cfg.maxNs.toNat := by
  obtain ⟨f, adm, R, I⟩ := processJob_rel cfg uf st jid w.jobIds
  have hselk : ∀ j : JobA, (fun j : JobA => j.pod != 0 && j.ns == k) (f j) = (fun j : JobA => j.pod != 0 && j.ns == k) j := by
    intro j; simp only [(R.keep j).2.1, (R.keep j).2.2.1]
  have hgen := jobCount_step R w.jobIds (fun j => liveR (processJob cfg uf st jid).1 j && j.pod != 0 && j.ns == k)
    (fun j => j.pod != 0 && j.ns == k) (fun j => liveR st j && j.pod != 0 && j.ns == k) (fun _ => by simp [Bool.and_assoc])
    hselk (fun j _ h1 h2 _ => by simp only [Bool.and_eq_true] at h2; simp [h1, h2.1, h2.2])
  rcases adm_cases R I w with h | ⟨h, he⟩ | ⟨jj, p, hadm, hjm, hph, h0, hpm, hid, hns, hck⟩
  · left; subst h
    simp only [Option.isSome_none, Bool.false_eq_true, if_false, Nat.add_zero] at hgen
    simp only [cntNs]; split <;> omega
  · left; simp only [h, he, if_true] at hgen ⊢; exact hgen
  · by_cases hk : jj.ns = k
    · right
      have hK := jobCount_step R w.jobIds (fun j => liveR (processJob cfg uf st jid).1 j && j.pod != 0 && j.ns == k)
        (fun j => j.pod != 0 && j.ns == k)
        (fun j => live st.arbitrated true j && j.pod != 0 && j.uid != p.id && j.ns == p.ns) (fun _ => by simp [Bool.and_assoc])
        hselk (by
          intro j hj h1 h2 hne
          have h1' : live st.arbitrated true j = true := h1
          simp only [Bool.and_eq_true, bne_iff_ne, ne_eq, beq_iff_eq] at h2
          have : j.uid ≠ p.id := by
            intro e
            have := w.uniqueOpen j hj jj hjm (liveR_open h1) (by omega) p hpm
              (by simp [jmatch, h2.1, e]) (by simp [jmatch, hid])
            exact hne (by rw [hadm, this])
          simp [h1', h2.1, this, h2.2, hns, hk])
      have hpass : passNs cfg st true p = true := by
        simp only [retryableChecks, Bool.and_eq_true] at hck; exact hck.1.2
      have hoff : limitOff cfg.maxNs = false := by simp [limitOff]; omega
      simp only [passNs, hs, hoff, Bool.false_or, decide_eq_true_eq, nsJobs,
        ← List.countP_eq_length_filter] at hpass
      simp only [hadm, Option.isSome_some, if_true] at hK
      simp only [cntNs]
      omega
    · left
      -- the admitted job lies in another namespace: this counter does not move
      have : cntNs (processJob cfg uf st jid).1 k ≤ cntNs st k := by
        simp only [cntNs, R.jobs, List.countP_map]
        apply List.countP_mono_left
        intro j hj h
        simp only [Function.comp, Bool.and_eq_true, (R.keep j).2.1, (R.keep j).2.2.1] at h
        rcases R.live j hj h.1.1 with hl' | hl'
        · simp [hl', h.1.2, h.2]
        · rw [hadm] at hl'
          have : jj = j := by simpa using hl'
          subst this
          exact absurd (by simpa using h.2) hk
      omega

/-! ### pod counters -/

/-- pod counters: at most one more when a job was admitted, not more otherwise -/
theorem podCount_step {st st' : ArbSt} {f : JobA → JobA} {adm : Option JobA} (R : StepRel st st' f adm)
    (w : WF st) (q' q : PodA → Bool)
    (h : ∀ v ∈ st.pods, q' v = true → q v = true ∨ ∃ jj, adm = some jj ∧ jmatch jj v = true) :
    st'.pods.countP q' ≤ st.pods.countP q + (if adm.isSome then 1 else 0) := by
  rw [R.pods]
  cases hadm : adm with
  | none =>
    simp only [Option.isSome_none, Bool.false_eq_true, if_false, Nat.add_zero]
    exact List.countP_mono_left fun v hv hq => (h v hv hq).resolve_right (by simp [hadm])
  | some jj =>
    simp only [Option.isSome_some, if_true]
    -- the one pod the admitted job is about (if any)
    apply countP_le_add_one (fun e : PodA => e.id) _ _
      (((st.pods.find? fun v => jmatch jj v).map (·.id)).getD 0) st.pods w.podIds
    intro v hv hq
    rcases h v hv hq with h' | ⟨x, hx, hp⟩
    · exact Or.inl h'
    · right
      rw [hadm] at hx
      have hxe : jj = x := by simpa using hx
      subst hxe
      cases hf : st.pods.find? (fun v => jmatch jj v) with
      | none =>
        have := List.find?_eq_none.mp hf v hv
        simp [hp] at this
      | some v0 =>
        have hv0 : v0 ∈ st.pods := List.mem_of_find?_eq_some hf
        have hm0 : jmatch jj v0 = true := by simpa using List.find?_some hf
        simp only [Option.map_some, Option.getD_some]
        exact jmatch_unique w (R.admOpen jj hadm).1 hv hv0 hp hm0

theorem step_node (cfg : ArbCfg) (uf : List Nat) (st : ArbSt) (jid : Nat) (w : WF st) (n : Nat) (hn : n ≠ 0)
    (hs : gateSkipped cfg 3 = false) (hl : 0 < cfg.maxNode) :
    cntNode (processJob cfg uf st jid).1 n ≤ cntNode st n + (if exemptAdm cfg uf st jid then 1 else 0) ∨
      cntNode (processJob cfg uf st jid).1 n ≤ cfg.maxNode.toNat := by
  obtain ⟨f, adm, R, I⟩ := processJob_rel cfg uf st jid w.jobIds
  have hgen := podCount_step R w (fun v => v.node == n && hasJob (processJob cfg uf st jid).1 true v)
    (fun v => v.node == n && hasJob st true v) (by
      intro v _ hq
      simp only [Bool.and_eq_true] at hq
      rcases hasJob_step R v hq.2 with h' | h'
      · left; simp [hq.1, h']
      · exact Or.inr h')
  rcases adm_cases R I w with h | ⟨h, he⟩ | ⟨jj, p, hadm, hjm, hph, h0, hpm, hid, _, hck⟩
  · left; subst h
    simp only [Option.isSome_none, Bool.false_eq_true, if_false, Nat.add_zero] at hgen
    simp only [cntNode]; split <;> omega
  · left; simp only [h, he, if_true] at hgen ⊢; exact hgen
  · by_cases hk : p.node = n
    · right
      have hK : (processJob cfg uf st jid).1.pods.countP (fun v => v.node == n && hasJob (processJob cfg uf st jid).1 true v) ≤
          st.pods.countP (fun v => v.id != p.id && v.node == p.node && hasJob st true v) + 1 := by
        rw [R.pods]
        apply countP_le_add_one (fun e : PodA => e.id) _ _ p.id st.pods w.podIds
        intro v hvm hq
        simp only [Bool.and_eq_true, beq_iff_eq] at hq
        by_cases hv : v.id = p.id
        · exact Or.inr hv
        · left
          rcases hasJob_step R v hq.2 with h' | ⟨x, hx, hp⟩
          · simp [hv, hq.1, hk, h']
          · rw [hadm] at hx
            have : jj = x := by simpa using hx
            subst this
            exact absurd (jmatch_unique w hjm hvm hpm hp (by simp [jmatch, hid])) hv
      have hpass : passNode cfg st true p = true := by
        simp only [retryableChecks, Bool.and_eq_true] at hck; exact hck.1.1.2
      have hoff : limitOff cfg.maxNode = false := by simp [limitOff]; omega
      have hne : (st.pods.filter fun v => v.node == p.node).isEmpty = false := by
        cases he : (st.pods.filter fun v => v.node == p.node) with
        | nil =>
          have : p ∈ st.pods.filter fun v => v.node == p.node := List.mem_filter.mpr ⟨hpm, by simp⟩
          rw [he] at this; simp at this
        | cons a r => rfl
      have hpn : (p.node == 0) = false := by simp [hk, hn]
      simp only [passNode, hs, hoff, hne, hpn, Bool.false_or, decide_eq_true_eq, nodePods,
        ← List.countP_eq_length_filter] at hpass
      simp only [cntNode]
      omega
    · left
      have : cntNode (processJob cfg uf st jid).1 n ≤ cntNode st n := by
        simp only [cntNode, R.pods]
        apply List.countP_mono_left
        intro v hv hq
        simp only [Bool.and_eq_true, beq_iff_eq] at hq
        rcases hasJob_step R v hq.2 with h' | ⟨x, hx, hp⟩
        · simp [hq.1, h']
        · rw [hadm] at hx
          have : jj = x := by simpa using hx
          subst this
          have hvp : v = p := findPod_unique st w.podIds p.id p v (findPod_of_mem w.podIds hpm) hv
            (jmatch_unique w hjm hv hpm hp (by simp [jmatch, hid]))
          subst hvp
          exact absurd hq.1 hk
      omega

/-! ### per workload -/

/-- the configured per-workload maximum as a number (0 when it cannot be evaluated: nothing is admitted then) -/
def wlLimit (cfg : ArbCfg) (w : Nat) (kind : Nat) (arg : Int) : Nat :=
  (getMaxK (lookup cfg.replicas w) kind arg).getD 0

theorem foldl_addNew_pod (l : List JobA) (acc : List Nat) :
    l.foldl (fun acc j => addNew acc j.pod) acc = (l.map (·.pod)).foldl addNew acc := by
  rw [List.foldl_map]

/-- a pod of `p`'s workload, other than `p`, with a live job in `p`'s namespace is one of `migratingPods` -/
theorem mem_migrating {st : ArbSt} (w : WF st) {p v : PodA} (hv : v ∈ st.pods) (hpm : p ∈ st.pods)
    (hw : v.wl = p.wl) (hw0 : p.wl ≠ 0) (hne : v.id ≠ p.id) (hj : hasJobNs st p.ns v = true) :
    v.id ∈ migrating st true p := by
  unfold migrating
  rw [foldl_addNew_pod, mem_foldl_addNew]
  right
  simp only [hasJobNs, List.any_eq_true, Bool.and_eq_true, beq_iff_eq, bne_iff_ne, ne_eq, liveR] at hj
  obtain ⟨j, hjm, ⟨⟨hl, hn⟩, h0⟩, hp⟩ := hj
  refine List.mem_map.mpr ⟨j, List.mem_filter.mpr ⟨hjm, ?_⟩, hp⟩
  have hfp : findPod st v.id = some v := findPod_of_mem w.podIds hv
  have h0' : ¬ v.id = 0 := hp ▸ h0
  have hu : ¬ j.uid = p.id := by
    intro e
    rcases w.uidRef j hjm p hpm h0 e with e' | e'
    · exact hne (hp.symm.trans e')
    · exact e' v hv hp.symm
  simp [hl, hn, h0', hp, hu, hfp, hw, hw0]

theorem passWorkload_migr {cfg : ArbCfg} {st : ArbSt} {p : PodA} (h : passWorkload cfg st true p = true)
    (hs : gateSkipped cfg 2 = false) (hw : p.wl ≠ 0) :
    (migrating st true p).length + 1 ≤ max (wlLimit cfg p.wl cfg.mmKind cfg.maxMigr) 1 := by
  simp only [passWorkload, hs, Bool.false_and, Bool.false_eq_true, if_false, hw, wlLimit] at h ⊢
  cases hm : getMaxK (lookup cfg.replicas p.wl) cfg.mmKind cfg.maxMigr with
  | none => simp [hm] at h
  | some mm =>
    simp only [hm, Option.getD_some] at h ⊢
    cases hu : (if gateSkipped cfg 1 = true then some 0 else getMaxK (lookup cfg.replicas p.wl) cfg.muKind cfg.maxUnav) with
    | none => simp [hu] at h
    | some mu =>
      simp only [hu] at h
      by_cases hc : (migrating st true p).length > 0 ∧ (migrating st true p).length ≥ mm
      · simp [hc.1, hc.2] at h
      · omega

theorem passWorkload_unav {cfg : ArbCfg} {st : ArbSt} {p : PodA} (h : passWorkload cfg st true p = true)
    (hs : gateSkipped cfg 1 = false) (hw : p.wl ≠ 0) :
    ((migrating st true p).foldl addNew (unavailable st p)).length + 1 ≤ wlLimit cfg p.wl cfg.muKind cfg.maxUnav := by
  simp only [passWorkload, hs, Bool.and_false, Bool.false_eq_true, if_false, hw, wlLimit] at h ⊢
  cases hm : (if gateSkipped cfg 2 = true then some 0 else getMaxK (lookup cfg.replicas p.wl) cfg.mmKind cfg.maxMigr) with
  | none => simp [hm] at h
  | some mm =>
    simp only [hm] at h
    cases hu : getMaxK (lookup cfg.replicas p.wl) cfg.muKind cfg.maxUnav with
    | none => simp [hu] at h
    | some mu =>
      simp only [hu, Option.getD_some] at h ⊢
      split at h
      · simp at h
      · simp at h; omega

/-- ids of the pods counted by a pod counter: duplicate-free -/
theorem countP_eq_ids {st : ArbSt} (h3 : (st.pods.map (·.id)).Nodup) (q : PodA → Bool) :
    st.pods.countP q = ((st.pods.filter q).map (·.id)).length ∧ ((st.pods.filter q).map (·.id)).Nodup := by
  refine ⟨by simp [List.countP_eq_length_filter], ?_⟩
  exact List.Nodup.sublist (List.Sublist.map _ List.filter_sublist) h3

theorem step_migr (cfg : ArbCfg) (uf : List Nat) (st : ArbSt) (jid : Nat) (w : WF st) (wl k : Nat) (hw : wl ≠ 0)
    (hs : gateSkipped cfg 2 = false) :
    cntMigr (processJob cfg uf st jid).1 wl k ≤ cntMigr st wl k + (if exemptAdm cfg uf st jid then 1 else 0) ∨
      cntMigr (processJob cfg uf st jid).1 wl k ≤ max (wlLimit cfg wl cfg.mmKind cfg.maxMigr) 1 := by
  obtain ⟨f, adm, R, I⟩ := processJob_rel cfg uf st jid w.jobIds
  have hgen := podCount_step R w (fun q => q.wl == wl && hasJobNs (processJob cfg uf st jid).1 k q)
    (fun q => q.wl == wl && hasJobNs st k q) (by
      intro v _ hq
      simp only [Bool.and_eq_true] at hq
      rcases hasJobNs_step R k v hq.2 with h' | ⟨x, hx, hp, _⟩
      · left; simp [hq.1, h']
      · exact Or.inr ⟨x, hx, by simp [jmatch, hp]⟩)
  rcases adm_cases R I w with h | ⟨h, he⟩ | ⟨jj, p, hadm, hjm, hph, h0, hpm, hid, hns, hck⟩
  · left; subst h
    simp only [Option.isSome_none, Bool.false_eq_true, if_false, Nat.add_zero] at hgen
    simp only [cntMigr]; split <;> omega
  · left; simp only [h, he, if_true] at hgen ⊢; exact hgen
  · by_cases hk : p.wl = wl ∧ jj.ns = k
    · right
      obtain ⟨hk1, hk2⟩ := hk
      have hpass : passWorkload cfg st true p = true := by
        simp only [retryableChecks, Bool.and_eq_true] at hck; exact hck.2
      have hb := passWorkload_migr hpass hs (by rw [hk1]; exact hw)
      rw [hk1] at hb
      have hsub : cntMigr (processJob cfg uf st jid).1 wl k ≤ (p.id :: migrating st true p).length := by
        simp only [cntMigr, R.pods]
        obtain ⟨e1, e2⟩ := countP_eq_ids w.podIds (fun q => q.wl == wl && hasJobNs (processJob cfg uf st jid).1 k q)
        rw [e1]
        apply nodup_subset_length _ _ e2
        intro x hx
        obtain ⟨v, hvf, rfl⟩ := List.mem_map.mp hx
        obtain ⟨hv, hq⟩ := List.mem_filter.mp hvf
        simp only [Bool.and_eq_true, beq_iff_eq] at hq
        by_cases hvp : v.id = p.id
        · rw [hvp]; exact List.mem_cons_self ..
        · apply List.mem_cons_of_mem
          rcases hasJobNs_step R k v hq.2 with h' | ⟨x, hx, hp, _⟩
          · exact mem_migrating w hv hpm (hq.1.trans hk1.symm) (by rw [hk1]; exact hw) hvp (by rw [hns, hk2]; exact h')
          · rw [hadm] at hx
            have : jj = x := by simpa using hx
            subst this
            exact absurd (hp.symm.trans hid.symm) hvp
      simp only [List.length_cons] at hsub
      omega
    · left
      have : cntMigr (processJob cfg uf st jid).1 wl k ≤ cntMigr st wl k := by
        simp only [cntMigr, R.pods]
        apply List.countP_mono_left
        intro v hv hq
        simp only [Bool.and_eq_true, beq_iff_eq] at hq
        rcases hasJobNs_step R k v hq.2 with h' | ⟨x, hx, hp, hxk, _⟩
        · simp [hq.1, h']
        · rw [hadm] at hx
          have : jj = x := by simpa using hx
          subst this
          have hvp : v = p := findPod_unique st w.podIds p.id p v (findPod_of_mem w.podIds hpm) hv (hp.symm.trans hid.symm)
          subst hvp
          exact absurd ⟨hq.1, hxk⟩ hk
      omega

theorem step_unav (cfg : ArbCfg) (uf : List Nat) (st : ArbSt) (jid : Nat) (w : WF st) (wl k : Nat) (hw : wl ≠ 0)
    (hs : gateSkipped cfg 1 = false) :
    cntUnav (processJob cfg uf st jid).1 wl k ≤ cntUnav st wl k + (if exemptAdm cfg uf st jid then 1 else 0) ∨
      cntUnav (processJob cfg uf st jid).1 wl k ≤ wlLimit cfg wl cfg.muKind cfg.maxUnav := by
  obtain ⟨f, adm, R, I⟩ := processJob_rel cfg uf st jid w.jobIds
  have hgen := podCount_step R w
    (fun q => q.wl == wl && ((q.ns == k && !podAvail q) || hasJobNs (processJob cfg uf st jid).1 k q))
    (fun q => q.wl == wl && ((q.ns == k && !podAvail q) || hasJobNs st k q)) (by
      intro v _ hq
      simp only [Bool.and_eq_true, Bool.or_eq_true] at hq
      rcases hq.2 with hu | hj
      · left; simp only [Bool.and_eq_true, Bool.or_eq_true]; exact ⟨hq.1, Or.inl hu⟩
      · rcases hasJobNs_step R k v hj with h' | ⟨x, hx, hp, _⟩
        · left; simp only [Bool.and_eq_true, Bool.or_eq_true]; exact ⟨hq.1, Or.inr h'⟩
        · exact Or.inr ⟨x, hx, by simp [jmatch, hp]⟩)
  rcases adm_cases R I w with h | ⟨h, he⟩ | ⟨jj, p, hadm, hjm, hph, h0, hpm, hid, hns, hck⟩
  · left; subst h
    simp only [Option.isSome_none, Bool.false_eq_true, if_false, Nat.add_zero] at hgen
    simp only [cntUnav]; split <;> omega
  · left; simp only [h, he, if_true] at hgen ⊢; exact hgen
  · by_cases hk : p.wl = wl ∧ jj.ns = k
    · right
      obtain ⟨hk1, hk2⟩ := hk
      have hpass : passWorkload cfg st true p = true := by
        simp only [retryableChecks, Bool.and_eq_true] at hck; exact hck.2
      have hb := passWorkload_unav hpass hs (by rw [hk1]; exact hw)
      rw [hk1] at hb
      have hsub : cntUnav (processJob cfg uf st jid).1 wl k ≤
          (p.id :: (migrating st true p).foldl addNew (unavailable st p)).length := by
        simp only [cntUnav, R.pods]
        obtain ⟨e1, e2⟩ := countP_eq_ids w.podIds
          (fun q => q.wl == wl && ((q.ns == k && !podAvail q) || hasJobNs (processJob cfg uf st jid).1 k q))
        rw [e1]
        apply nodup_subset_length _ _ e2
        intro x hx
        obtain ⟨v, hvf, rfl⟩ := List.mem_map.mp hx
        obtain ⟨hv, hq⟩ := List.mem_filter.mp hvf
        simp only [Bool.and_eq_true, Bool.or_eq_true, beq_iff_eq] at hq
        by_cases hvp : v.id = p.id
        · rw [hvp]; exact List.mem_cons_self ..
        · apply List.mem_cons_of_mem
          rw [mem_foldl_addNew]
          rcases hq.2 with hu | hj
          · left
            simp only [unavailable]
            refine List.mem_map.mpr ⟨v, List.mem_filter.mpr ⟨hv, ?_⟩, rfl⟩
            simp only [Bool.and_eq_true, beq_iff_eq]
            exact ⟨⟨hq.1.trans hk1.symm, by rw [hns, hk2]; exact hu.1⟩, hu.2⟩
          · right
            rcases hasJobNs_step R k v hj with h' | ⟨x, hx, hp, _⟩
            · exact mem_migrating w hv hpm (hq.1.trans hk1.symm) (by rw [hk1]; exact hw) hvp (by rw [hns, hk2]; exact h')
            · rw [hadm] at hx
              have : jj = x := by simpa using hx
              subst this
              exact absurd (hp.symm.trans hid.symm) hvp
      simp only [List.length_cons] at hsub
      omega
    · left
      have : cntUnav (processJob cfg uf st jid).1 wl k ≤ cntUnav st wl k := by
        simp only [cntUnav, R.pods]
        apply List.countP_mono_left
        intro v hv hq
        simp only [Bool.and_eq_true, Bool.or_eq_true, beq_iff_eq] at hq ⊢
        refine ⟨hq.1, ?_⟩
        rcases hq.2 with hu | hj
        · exact Or.inl hu
        · rcases hasJobNs_step R k v hj with h' | ⟨x, hx, hp, hxk, _⟩
          · exact Or.inr h'
          · rw [hadm] at hx
            have : jj = x := by simpa using hx
            subst this
            have hvp : v = p := findPod_unique st w.podIds p.id p v (findPod_of_mem w.podIds hpm) hv (hp.symm.trans hid.symm)
            subst hvp
            exact absurd ⟨hq.1, hxk⟩ hk
      omega

/-! ### the whole round -/

theorem processJob_wf (cfg : ArbCfg) (uf : List Nat) (st : ArbSt) (jid : Nat) (w : WF st) :
    WF (processJob cfg uf st jid).1 := by
  obtain ⟨f, adm, R, _⟩ := processJob_rel cfg uf st jid w.jobIds
  exact R.wf w

theorem round_wf (cfg : ArbCfg) (uf : List Nat) (order : List Nat) : ∀ st, WF st → WF (round cfg uf st order) := by
  induction order with
  | nil => intro st w; exact w
  | cons jid r ih => intro st w; simpa [round] using ih _ (processJob_wf cfg uf st jid w)

/-- induction over the loop of doOnceArbitrate: a counter that per iteration either grows by at most the exempt
    admission or ends within the limit stays ≤ max(limit, before) + exempt admissions. -/
theorem fold_bound (cfg : ArbCfg) (uf : List Nat) (C : ArbSt → Nat) (L : Nat)
    (hstep : ∀ st jid, WF st →
      C (processJob cfg uf st jid).1 ≤ C st + (if exemptAdm cfg uf st jid then 1 else 0) ∨ C (processJob cfg uf st jid).1 ≤ L)
    (order : List Nat) : ∀ st, WF st → C (round cfg uf st order) ≤ max L (C st) + roundExempt cfg uf st order := by
  induction order with
  | nil => intro st _; simp only [round, List.foldl_nil, roundExempt]; omega
  | cons jid r ih =>
    intro st w
    have h := ih _ (processJob_wf cfg uf st jid w)
    have hs := hstep st jid w
    simp only [round, List.foldl_cons, roundExempt] at h ⊢
    rcases hs with hs | hs <;> omega
/-- the lookup written as an if/else on the pod's UID instead of a fall-back (NOT the code as it is; the shape refuted
    by `ifelse_lookup_counterexample`): a pod that has a UID (`v.id ≠ 0`) is looked up only under the UID index -/
def hasJobIfElse (st : ArbSt) (ca : Bool) (v : PodA) : Bool :=
  if v.id != 0 then hasJobByUID st ca v else hasJobByName st ca v

end KoordVerif.C16
