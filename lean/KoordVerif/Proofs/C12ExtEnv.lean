import KoordVerif.Model.C12Env
import KoordVerif.Proofs.C12
/-
C12 — helper development for batches on trees with missing directories: such a batch is the batch with
the updaters of the missing directories removed, and a step touches the cache only at its own directory.
-/
namespace KoordVerif.C12

variable {α : Type}

theorem runPass_stepE (ex : Nat → Bool) (step : St α → Upd α → St α × List (Write α)) :
    ∀ (l : List (Upd α)) (s : St α),
      runPass (stepE ex step) l s = runPass step (l.filter fun u => ex u.node) s := by
  intro l
  induction l with
  | nil => intro s; rfl
  | cons u l ih =>
    intro s
    by_cases h : ex u.node = true
    · simp only [runPass, stepE, h, if_true, List.filter_cons_of_pos, ih]
    · have h' : ex u.node = false := by simpa using h
      simp only [runPass, stepE, h', List.filter_cons, ih]
      simp

/-- the updaters of the existing directories, level by level. -/
def liveLevels (ex : Nat → Bool) (levels : List (List (Upd α))) : List (List (Upd α)) :=
  levels.map fun L => L.filter fun u => ex u.node

theorem filter_flatten' (p : Upd α → Bool) (L : List (List (Upd α))) :
    (L.flatten).filter p = (L.map fun l => l.filter p).flatten := by
  induction L with
  | nil => rfl
  | cons a L ih => simp [List.filter_append, ih]

theorem runBatchE_eq (D : Dom α) (exp : Bool) (ex : Nat → Bool) (levels : List (List (Upd α))) (s : St α) :
    runBatchE D exp ex levels s = runBatch D exp (liveLevels ex levels) s := by
  simp only [runBatchE, runBatch, pass1, pass2, runPass_stepE, sweep2_eq, List.filter_reverse, filter_flatten', liveLevels]

/-! ### cache frame: a sweep changes cache entries only of its own directories -/

theorem step1_cache_frame (D : Dom α) (exp : Bool) (s : St α) (u : Upd α) (m : Nat) (h : m ≠ u.node) :
    (step1 D exp s u).1.cache m = s.cache m := by
  unfold step1
  dsimp only
  repeat' split
  all_goals simp [setAt, h]

theorem step2_cache_frame (D : Dom α) (exp : Bool) (s : St α) (u : Upd α) (m : Nat) (h : m ≠ u.node) :
    (step2 D exp s u).1.cache m = s.cache m := by
  unfold step2
  dsimp only
  repeat' split
  all_goals simp [setAt, h]

theorem runPass_cache_frame (step : St α → Upd α → St α × List (Write α))
    (hstep : ∀ s u m, m ≠ u.node → (step s u).1.cache m = s.cache m) :
    ∀ (l : List (Upd α)) (s : St α) (m : Nat), m ∉ nodes l → (runPass step l s).1.cache m = s.cache m := by
  intro l
  induction l with
  | nil => intro s m _; rfl
  | cons u l ih =>
    intro s m hm
    simp only [nodes_cons, List.mem_cons, not_or] at hm
    simp only [runPass]
    rw [ih _ m hm.2, hstep s u m hm.1]

theorem nodes_filter_ex (ex : Nat → Bool) (l : List (Upd α)) (m : Nat) (h : ex m = false) :
    m ∉ nodes (l.filter fun u => ex u.node) := by
  intro hm
  simp only [nodes, List.mem_map, List.mem_filter] at hm
  obtain ⟨u, ⟨_, hu⟩, rfl⟩ := hm
  rw [h] at hu; exact absurd hu (by simp)

end KoordVerif.C12
