import KoordVerif.Model.C06Pick
/-
C06 — helper development for Layer C: the accumulator's `take` and the take-loops of `takeCPUs`
keep the result duplicate-free, inside the free set, and never let `numCPUsNeeded` go negative
(so "satisfied" means "exactly the requested number").
-/
namespace KoordVerif.C06

/-- accumulator invariant w.r.t. the free set `avail` and the requested number `n`. -/
structure Good (avail : List Nat) (n : Int) (a : Acc) : Prop where
  nodup  : a.result.Nodup
  within : ∀ c ∈ a.result, c ∈ avail
  count  : (a.result.length : Int) + a.need = n
  nonneg : 0 ≤ a.need

/-- a candidate list that may be handed to `take`: no duplicates, from the free set, nothing that
    is already in the result. -/
def ListOK (avail : List Nat) (a : Acc) (l : List Nat) : Prop :=
  l.Nodup ∧ ∀ c ∈ l, c ∈ avail ∧ c ∉ a.result

theorem dedupNat_of_nodup : ∀ (l : List Nat), l.Nodup → dedupNat l = l
  | [], _ => rfl
  | x :: xs, h => by
    rw [List.nodup_cons] at h
    simp only [dedupNat, dedupNat_of_nodup xs h.2]
    congr 1
    apply List.filter_eq_self.mpr
    intro y hy
    simp
    intro hxy; subst hxy; exact h.1 hy

theorem take_result (ctx : PickCtx) (avail : List Nat) (a : Acc) (l : List Nat) (hl : ListOK avail a l) :
    (a.take ctx l).result = a.result ++ l ∧ (a.take ctx l).need = a.need - l.length := by
  unfold Acc.take
  simp only [dedupNat_of_nodup l hl.1, and_true]
  congr 1
  apply List.filter_eq_self.mpr
  intro c hc
  simp
  exact (hl.2 c hc).2

theorem take_good (ctx : PickCtx) {avail : List Nat} {n : Int} {a : Acc} (h : Good avail n a)
    (l : List Nat) (hl : ListOK avail a l) (hfit : (l.length : Int) ≤ a.need) :
    Good avail n (a.take ctx l) := by
  obtain ⟨hr, hn⟩ := take_result ctx avail a l hl
  refine ⟨?_, ?_, ?_, ?_⟩
  · rw [hr, List.nodup_append]
    exact ⟨h.nodup, hl.1, fun x hx y hy hxy => (hl.2 y hy).2 (hxy ▸ hx)⟩
  · rw [hr]; intro c hc
    rcases List.mem_append.mp hc with h1 | h1
    · exact h.within c h1
    · exact (hl.2 c h1).1
  · rw [hr, hn, List.length_append]; have := h.count; push_cast; omega
  · rw [hn]; omega

theorem satisfied_zero {avail : List Nat} {n : Int} {a : Acc} (h : Good avail n a)
    (hs : a.isSatisfied = true) : a.need = 0 := by
  unfold Acc.isSatisfied at hs
  have := h.nonneg
  simp at hs; omega

/-- a `Good` accumulator that is satisfied holds exactly `n` CPUs of the free set. -/
theorem good_done {avail : List Nat} {n : Int} {a : Acc} (h : Good avail n a)
    (hs : a.isSatisfied = true) :
    (a.result.length : Int) = n ∧ a.result.Nodup ∧ ∀ c ∈ a.result, c ∈ avail := by
  have := satisfied_zero h hs
  have := h.count
  exact ⟨by omega, h.nodup, h.within⟩

/-- `take(cpus[:numCPUsNeeded])` on a list that fits: exactly satisfied. -/
theorem take_prefix_exact (ctx : PickCtx) {avail : List Nat} {n : Int} {a : Acc} (h : Good avail n a)
    (l : List Nat) (hl : ListOK avail a l) (hfit : (l.length : Int) ≥ a.need) :
    ((a.take ctx (l.take a.need.toNat)).result.length : Int) = n ∧
    (a.take ctx (l.take a.need.toNat)).result.Nodup ∧
    ∀ c ∈ (a.take ctx (l.take a.need.toNat)).result, c ∈ avail := by
  have hnn := h.nonneg
  have hlen : ((l.take a.need.toNat).length : Int) = a.need := by
    rw [List.length_take]; omega
  have hok : ListOK avail a (l.take a.need.toNat) :=
    ⟨(List.take_sublist _ _).nodup hl.1, fun c hc => hl.2 c (List.mem_of_mem_take hc)⟩
  have hg := take_good ctx h _ hok (by omega)
  have hneed := (take_result ctx avail a _ hok).2
  have := hg.count
  exact ⟨by omega, hg.nodup, hg.within⟩

/-- last phase (`for _, c := range cpus { if needs(1) { take(c) }; if isSatisfied() { return } }`). -/
theorem takeSingles_good (ctx : PickCtx) {avail : List Nat} {n : Int} :
    ∀ (cs : List Nat) (a : Acc), Good avail n a → ListOK avail a cs →
      Good avail n (takeSingles ctx a cs).2 ∧
      ((takeSingles ctx a cs).1 = true → (takeSingles ctx a cs).2.isSatisfied = true) := by
  intro cs
  induction cs with
  | nil => intro a h _; simp [takeSingles, h]
  | cons c cs ih =>
    intro a h hl
    have hc := hl.2 c (by simp)
    have hnd := List.nodup_cons.mp hl.1
    simp only [takeSingles]
    by_cases hneeds : a.needs 1 = true
    · have h1 : ListOK avail a [c] := ⟨by simp, fun x hx => by simp at hx; subst hx; exact hc⟩
      have hfit : (([c] : List Nat).length : Int) ≤ a.need := by
        unfold Acc.needs at hneeds; simp at hneeds ⊢; omega
      have hg := take_good ctx h [c] h1 hfit
      have hres := (take_result ctx avail a [c] h1).1
      simp only [hneeds, ↓reduceIte]
      split
      · rename_i hs; exact ⟨hg, fun _ => hs⟩
      · refine ih _ hg ⟨hnd.2, fun x hx => ⟨(hl.2 x (by simp [hx])).1, ?_⟩⟩
        rw [hres]; intro hmem
        rcases List.mem_append.mp hmem with h2 | h2
        · exact (hl.2 x (by simp [hx])).2 h2
        · simp at h2; subst h2; exact hnd.1 hx
    · simp only [hneeds, Bool.false_eq_true, ↓reduceIte]
      split
      · rename_i hs; exact ⟨h, fun _ => hs⟩
      · exact ih _ h ⟨hnd.2, fun x hx => hl.2 x (by simp [hx])⟩

/-- candidate lists computed once and consumed one after the other (phases 3 and 4): each is OK
    for the accumulator at the time of the computation and they are pairwise disjoint. -/
def ListsOK (avail : List Nat) (a : Acc) (ls : List (List Nat)) : Prop :=
  (∀ l ∈ ls, ListOK avail a l) ∧ ls.Pairwise (fun x y => ∀ c, c ∈ x → c ∉ y)

theorem listsOK_after_take (ctx : PickCtx) {avail : List Nat} {a : Acc} {l : List Nat} {ls : List (List Nat)}
    (h : ListsOK avail a (l :: ls)) : ListsOK avail (a.take ctx l) ls := by
  have hl := h.1 l (by simp)
  have hres := (take_result ctx avail a l hl).1
  have hp := List.pairwise_cons.mp h.2
  refine ⟨fun x hx => ⟨(h.1 x (by simp [hx])).1, fun c hc => ⟨((h.1 x (by simp [hx])).2 c hc).1, ?_⟩⟩, hp.2⟩
  rw [hres]; intro hmem
  rcases List.mem_append.mp hmem with h2 | h2
  · exact ((h.1 x (by simp [hx])).2 c hc).2 h2
  · exact hp.1 x hx c h2 hc

/-- phase 3 (`if !needs(len(cpus)) { unsatisfied = append(…) } else { take(cpus...); if isSatisfied … }`). -/
theorem takeWhole_good (ctx : PickCtx) {avail : List Nat} {n : Int} :
    ∀ (ls : List (List Nat)) (a : Acc) (uns : List (List Nat)), Good avail n a →
      ListsOK avail a (uns.reverse ++ ls) →
      Good avail n (takeWhole ctx a ls uns).2.1 ∧
      ((takeWhole ctx a ls uns).1 = true → (takeWhole ctx a ls uns).2.1.isSatisfied = true) ∧
      ListsOK avail (takeWhole ctx a ls uns).2.1 (takeWhole ctx a ls uns).2.2 := by
  intro ls
  induction ls with
  | nil => intro a uns h hl; simp [takeWhole, h]; simpa using hl
  | cons l ls ih =>
    intro a uns h hl
    simp only [takeWhole]
    by_cases hneeds : a.needs l.length = true
    · simp only [hneeds, Bool.not_true, Bool.false_eq_true, ↓reduceIte]
      have hlok : ListOK avail a l := hl.1 l (by simp)
      have hfit : (l.length : Int) ≤ a.need := by
        unfold Acc.needs at hneeds; simp at hneeds; omega
      have hg := take_good ctx h l hlok hfit
      -- move `l` to the front to use `listsOK_after_take`
      have hperm : (l :: (uns.reverse ++ ls)).Perm (uns.reverse ++ l :: ls) := List.perm_middle.symm
      have hl' : ListsOK avail a (l :: (uns.reverse ++ ls)) := by
        refine ⟨fun x hx => hl.1 x ((hperm.mem_iff).mp hx), ?_⟩
        refine (List.Perm.pairwise_iff ?_ hperm.symm).mp hl.2
        intro x y hxy c hc hcx; exact hxy c hcx hc
      have hafter := listsOK_after_take ctx hl'
      split
      · rename_i hs
        refine ⟨hg, fun _ => hs, ?_⟩
        refine ⟨fun x hx => hafter.1 x (by simp at hx ⊢; exact Or.inl hx), ?_⟩
        exact (List.pairwise_append.mp hafter.2).1
      · exact ih _ uns hg hafter
    · simp only [hneeds, Bool.not_false, ↓reduceIte]
      refine ih a (l :: uns) h ?_
      simpa using hl

theorem nodup_take_drop {l : List Nat} (h : l.Nodup) (k : Nat) : ∀ c, c ∈ l.take k → c ∉ l.drop k := by
  have h' : (l.take k ++ l.drop k).Nodup := by rw [List.take_append_drop]; exact h
  rw [List.nodup_append] at h'
  intro c hc hd
  exact h'.2.2 c hc c hd rfl

/-- inner loop of phase 4 (`take(cpus[i:i+cpusPerCore])` while a whole core still fits). -/
theorem takeCoresOf_good (ctx : PickCtx) {avail : List Nat} {n : Int} :
    ∀ (fuel : Nat) (a : Acc) (l : List Nat), Good avail n a → ListOK avail a l → a.needs ctx.cpc = true →
      Good avail n (takeCoresOf ctx fuel a l).2 ∧
      ((takeCoresOf ctx fuel a l).1 = true → (takeCoresOf ctx fuel a l).2.isSatisfied = true) ∧
      (∀ c ∈ (takeCoresOf ctx fuel a l).2.result, c ∈ a.result ∨ c ∈ l) := by
  intro fuel
  induction fuel with
  | zero => intro a l h _ _; simp [takeCoresOf, h]; exact fun c hc => Or.inl hc
  | succ fuel ih =>
    intro a l h hl hneeds
    simp only [takeCoresOf]
    split
    · simp [h]; exact fun c hc => Or.inl hc
    · have hchunk : ListOK avail a (l.take ctx.cpc) :=
        ⟨(List.take_sublist _ _).nodup hl.1, fun c hc => hl.2 c (List.mem_of_mem_take hc)⟩
      have hfit : ((l.take ctx.cpc).length : Int) ≤ a.need := by
        unfold Acc.needs at hneeds; simp at hneeds
        rw [List.length_take]; omega
      have hg := take_good ctx h _ hchunk hfit
      have hres := (take_result ctx avail a _ hchunk).1
      have hsub : ∀ c ∈ (a.take ctx (l.take ctx.cpc)).result, c ∈ a.result ∨ c ∈ l := by
        intro c hc; rw [hres] at hc
        rcases List.mem_append.mp hc with h1 | h1
        · exact Or.inl h1
        · exact Or.inr (List.mem_of_mem_take h1)
      split
      · rename_i hs; exact ⟨hg, fun _ => hs, hsub⟩
      · split
        · exact ⟨hg, by simp, hsub⟩
        · rename_i hn2
          have hn2' : (a.take ctx (l.take ctx.cpc)).needs ctx.cpc = true := by simpa using hn2
          have hrest : ListOK avail (a.take ctx (l.take ctx.cpc)) (l.drop ctx.cpc) := by
            refine ⟨(List.drop_sublist _ _).nodup hl.1, fun c hc => ⟨(hl.2 c (List.mem_of_mem_drop hc)).1, ?_⟩⟩
            rw [hres]; intro hmem
            rcases List.mem_append.mp hmem with h1 | h1
            · exact (hl.2 c (List.mem_of_mem_drop hc)).2 h1
            · exact nodup_take_drop hl.1 ctx.cpc c h1 hc
          have := ih _ _ hg hrest hn2'
          refine ⟨this.1, this.2.1, fun c hc => ?_⟩
          rcases this.2.2 c hc with h1 | h1
          · exact hsub c h1
          · exact Or.inr (List.mem_of_mem_drop h1)

/-- phase 4 with the guard at the head of the loop over the sockets: the request never goes
    negative, so a satisfied accumulator holds exactly the requested number. -/
theorem takeCores_good (ctx : PickCtx) {avail : List Nat} {n : Int} :
    ∀ (ls : List (List Nat)) (a : Acc), Good avail n a → ListsOK avail a ls →
      Good avail n (takeCores ctx a ls).2 ∧
      ((takeCores ctx a ls).1 = true → (takeCores ctx a ls).2.isSatisfied = true) := by
  intro ls
  induction ls with
  | nil => intro a h _; simp [takeCores, h]
  | cons l ls ih =>
    intro a h hl
    simp only [takeCores]
    by_cases hneeds : a.needs ctx.cpc = true
    · simp only [hneeds, Bool.not_true, Bool.false_eq_true, ↓reduceIte]
      have hlok := hl.1 l (by simp)
      have hp := List.pairwise_cons.mp hl.2
      have hr := takeCoresOf_good ctx l.length a l h hlok hneeds
      split
      · rename_i hd; exact ⟨hr.1, fun _ => hr.2.1 hd⟩
      · refine ih _ hr.1 ⟨fun x hx => ⟨(hl.1 x (by simp [hx])).1, fun c hc => ⟨((hl.1 x (by simp [hx])).2 c hc).1, ?_⟩⟩, hp.2⟩
        intro hmem
        rcases hr.2.2 c hmem with h1 | h1
        · exact ((hl.1 x (by simp [hx])).2 c hc).2 h1
        · exact hp.1 x hx c h1 hc
    · simp only [hneeds, Bool.not_false, ↓reduceIte]
      exact ⟨h, by simp⟩

end KoordVerif.C06
