import KoordVerif.Model.C06Nrt
import KoordVerif.Proofs.C06ExtTakeGen
/-
C06 extension round 4: NodeResourceTopology → TopologyOptions.  The cpu amount stored for a zone is the
reported amount minus the reserved CPUs whose NUMA id is the zone's id - for EVERY id, whether or not the
ids are 0..n-1.
-/
namespace KoordVerif.C06

theorem filter_len_split {α} (l : List α) (p q : α → Bool) :
    (l.filter p).length =
      (l.filter (fun i => p i && q i)).length + (l.filter (fun i => p i && !q i)).length := by
  induction l with
  | nil => simp
  | cons a l ih =>
    simp only [List.filter_cons]
    cases hp : p a <;> cases hq : q a <;> simp [ih] <;> omega

/-- a zone that reports all CPUs of its NUMA id ends up with exactly the not-reserved ones. -/
theorem zoneCap_all_reported (topo : List CpuI) (reserved : List Nat) (nd : Nat) :
    zoneCPUCapacity topo reserved nd (1000 * ((topo.filter (fun i => i.node == nd)).length : Int)) =
      1000 * ((topo.filter (fun i => i.node == nd && !reserved.contains i.cpu)).length : Int) := by
  have hs := filter_len_split topo (fun i => i.node == nd) (fun i => reserved.contains i.cpu)
  unfold zoneCPUCapacity reservedOnNode
  split
  · rename_i h0
    have : (topo.filter (fun i => i.node == nd)).length = 0 := by omega
    rw [this] at hs
    have h2 : (topo.filter (fun i => i.node == nd && !reserved.contains i.cpu)).length = 0 := by omega
    rw [this, h2]
  · rw [hs]; push_cast; omega

theorem mem_nrtReserved (static : List StaticPod) (kubelet nodeRsv sysq : List Nat) (sysqExcl : Bool) (c : Nat) :
    c ∈ nrtReserved static kubelet nodeRsv sysq sysqExcl ↔
      c ∈ podAllocsCPUs static ∨ c ∈ kubelet ∨ c ∈ nodeRsv ∨ (sysqExcl = true ∧ c ∈ sysq) := by
  unfold nrtReserved
  rw [mem_dedupNat]
  cases sysqExcl <;> simp [List.mem_append]

/-- the indexed counter and the per-zone rescan agree while every id is below `NumNodes` … -/
theorem indexed_eq_of_lt (topo : List CpuI) (reserved : List Nat) (numNodes nd : Nat) (raw : Int)
    (h : nd < numNodes) :
    zoneCPUCapacityIndexed topo reserved numNodes nd raw = zoneCPUCapacity topo reserved nd raw := by
  simp [zoneCPUCapacityIndexed, zoneCPUCapacity, reservedOnNodeIndexed, h]

end KoordVerif.C06
