import KoordVerif.Model.C05Ctl

/-
C05 round 8: the controller reference of an owner entry.  "An explicit `controller` flag in the owner spec is satisfied
only by a pod ownerReference whose flag is PRESENT and EQUAL"; the 3x3 table of (spec flag, pod flag); the seeded
round-6 shape (pod flag unset accepted) as a counterexample on the variant guard.
-/
namespace KoordVerif.C05

/-- the 3x3 table, spec flag x pod flag (0 nil, 1 true, 2 false), as the code is written -/
theorem ctl_flag_table :
    (ctlFlagOk 0 0, ctlFlagOk 0 1, ctlFlagOk 0 2) = (true, true, true) ∧
    (ctlFlagOk 1 0, ctlFlagOk 1 1, ctlFlagOk 1 2) = (false, true, false) ∧
    (ctlFlagOk 2 0, ctlFlagOk 2 1, ctlFlagOk 2 2) = (false, false, true) := by decide

theorem ctlFlagOk_explicit {s p : Int} (h : ctlFlagOk s p = true) (hs : s ≠ 0) : p ≠ 0 ∧ p = s := by
  simp [ctlFlagOk] at h
  rcases h with h | ⟨h1, h2⟩
  · exact absurd h hs
  · exact ⟨h1, h2.symm⟩

theorem ctlFieldOk_spec {s p : Int} (h : ctlFieldOk s p = true) : s = 0 ∨ s = p := by
  simpa [ctlFieldOk] using h

/-- whatever the pod's ownerReferences are: an accepted controller reference names the pod's namespace (when it names
    one) and ONE ownerReference of the pod that agrees with every non-empty field of the spec and - when the spec states
    the controller flag - carries the flag, with the same value -/
theorem controller_ref_satisfied (specNs podNs : Int) (s : CtlRef) (refs : List CtlRef)
    (h : matchControllerRef specNs podNs s refs = true) :
    (specNs = 0 ∨ specNs = podNs) ∧
    ∃ p ∈ refs, (s.flag ≠ 0 → p.flag ≠ 0 ∧ p.flag = s.flag) ∧ (s.uid = 0 ∨ s.uid = p.uid) ∧ (s.name = 0 ∨ s.name = p.name) ∧
      (s.kind = 0 ∨ s.kind = p.kind) ∧ (s.api = 0 ∨ s.api = p.api) := by
  unfold matchControllerRef at h
  split at h
  · exact absurd h (by simp)
  · rename_i hns
    refine ⟨?_, ?_⟩
    · simp at hns
      by_cases h0 : specNs = 0
      · exact Or.inl h0
      · exact Or.inr (hns h0)
    · rw [List.any_eq_true] at h
      obtain ⟨p, hp, hm⟩ := h
      simp only [ctlRefMatch, Bool.and_eq_true] at hm
      obtain ⟨⟨⟨⟨hf, hu⟩, hn⟩, hk⟩, ha⟩ := hm
      exact ⟨p, hp, fun hs => ctlFlagOk_explicit hf hs, ctlFieldOk_spec hu, ctlFieldOk_spec hn, ctlFieldOk_spec hk,
        ctlFieldOk_spec ha⟩

/-- an explicit flag is never satisfied by a pod none of whose ownerReferences sets the flag -/
theorem controller_flag_unset_never_matches (specNs podNs : Int) (s : CtlRef) (refs : List CtlRef)
    (hs : s.flag ≠ 0) (hp : ∀ p ∈ refs, p.flag = 0) : matchControllerRef specNs podNs s refs = false := by
  cases h : matchControllerRef specNs podNs s refs with
  | false => rfl
  | true =>
    obtain ⟨_, p, hmem, hf, _⟩ := controller_ref_satisfied specNs podNs s refs h
    exact absurd (hp p hmem) (hf hs).1

/-- the seeded round-6 variant of the flag guard: "pod's flag is UNSET or equal" -/
def ctlFlagOkUnsetOrEqual (s p : Int) : Bool := s == 0 || p == 0 || s == p

/-- ... accepts a pod ownerReference without the flag for a spec that says controller=true: same uid / name / kind /
    apiVersion, flag nil on the pod, true in the spec - the code as written rejects it -/
theorem controller_flag_unset_or_equal_counterexample :
    ¬ (∀ s p : Int, ctlFlagOkUnsetOrEqual s p = true → s ≠ 0 → p ≠ 0 ∧ p = s) ∧
    ctlFlagOkUnsetOrEqual 1 0 = true ∧
    matchControllerRef 0 1 ⟨1, 1, 1, 1, 1⟩ [⟨0, 1, 1, 1, 1⟩] = false := by
  refine ⟨fun h => ?_, by decide, by decide⟩
  exact absurd (h 1 0 (by decide) (by decide)).1 (by decide)

example : matchControllerRef 1 1 ⟨2, 1, 0, 1, 0⟩ [⟨1, 1, 1, 1, 1⟩, ⟨2, 1, 2, 1, 1⟩] = true := by decide

end KoordVerif.C05
