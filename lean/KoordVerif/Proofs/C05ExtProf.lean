import KoordVerif.Model.C05Prof
import KoordVerif.Proofs.C05Index
/-
C05 extension: several scheduler profiles, each with its own reservation cache (Model/C05Prof.lean).
The scheduler-wide handler's effect on one cache (DeleteReservation) commutes with that profile's plugin handler,
so after every informer event every profile's cache equals ONE reference cache, whatever the listener order.
-/
namespace KoordVerif.C05

/-! ### list / index bookkeeping -/

theorem filter_map_replace (r : RInfo) (u : Nat) (hu : r.uid = u) : ∀ l : List RInfo,
    (l.map (fun x => if x.uid == r.uid then r else x)).filter (fun x => x.uid != u) = l.filter (fun x => x.uid != u) := by
  subst hu
  intro l
  induction l with
  | nil => rfl
  | cons y t ih =>
    by_cases hy : y.uid = r.uid
    · have h1 : (y.uid == r.uid) = true := by simp [hy]
      have h2 : (y.uid != r.uid) = false := by simp [hy]
      have h3 : (r.uid != r.uid) = false := by simp
      simp only [List.map_cons, h1, if_true, List.filter_cons, h2, h3, Bool.false_eq_true, if_false]
      exact ih
    · have h1 : (y.uid == r.uid) = false := by simp [hy]
      have h2 : (y.uid != r.uid) = true := by simp [hy]
      simp only [List.map_cons, h1, Bool.false_eq_true, if_false, List.filter_cons, h2, if_true]
      rw [ih]

theorem filter_setInfo (l : List RInfo) (r : RInfo) (u : Nat) (hu : r.uid = u) :
    (setInfo l r).filter (fun x => x.uid != u) = l.filter (fun x => x.uid != u) := by
  unfold setInfo
  split
  · exact filter_map_replace r u hu l
  · simp [List.filter_append, hu]

theorem idxDel_idxAdd (ix : Idx) (n u : Nat) : idxDel (idxAdd ix n u) n u = idxDel ix n u := by
  unfold idxAdd
  split
  · rfl
  · simp [idxDel]

theorem idxDel_idxDel (ix : Idx) (n u : Nat) : idxDel (idxDel ix n u) n u = idxDel ix n u := by
  simp [idxDel, List.filter_filter]

theorem updInfo_uid (r : RInfo) (o : RObj) : (updInfo r o).uid = r.uid := rfl

/-- DeleteReservation after updateReservationIfExists of the same reservation (same node, or no node) is
    DeleteReservation alone -/
theorem delete_after_updIfExists (c : Cache) (o : RObj) (u n : Nat) (hu : o.uid = u) (hn : o.node = n ∨ o.node = 0) :
    deleteReservation (updateReservationIfExists c o) u n = deleteReservation c u n := by
  unfold updateReservationIfExists
  cases hf : findInfo c o.uid with
  | none => rfl
  | some r0 =>
    have hr0 : r0.uid = u := by have := (findInfo_mem c o.uid r0 hf).2; omega
    have hinf := filter_setInfo c.infos (updInfo r0 o) u (by rw [updInfo_uid]; exact hr0)
    by_cases h0 : o.node = 0
    · simp [h0, deleteReservation, hinf]
    · have hnn : o.node = n := by rcases hn with h | h; exact h; exact absurd h h0
      have hb : (o.node != 0) = true := by simp [h0]
      simp only [hb, if_true]
      unfold refreshIdx
      by_cases hm : isMatchable (updInfo r0 o) = true
      · by_cases hl : (updInfo r0 o).assigned.length > 0
        · simp [hm, hl, deleteReservation, hinf, hnn, hu, idxDel_idxAdd]
        · simp [hm, hl, deleteReservation, hinf, hnn, hu, idxDel_idxAdd, idxDel_idxDel]
      · simp [hm, deleteReservation, hinf, hnn, hu, idxDel_idxDel]

theorem findInfo_deleteReservation (c : Cache) (u n : Nat) : findInfo (deleteReservation c u n) u = none := by
  simp [findInfo, deleteReservation, List.find?_eq_none]

/-- after DeleteReservation the plugin's updateReservationIfExists for that reservation is a no-op -/
theorem updIfExists_after_delete (c : Cache) (o : RObj) (u n : Nat) (hu : o.uid = u) :
    updateReservationIfExists (deleteReservation c u n) o = deleteReservation c u n := by
  unfold updateReservationIfExists
  rw [hu, findInfo_deleteReservation]

/-! ### the two listeners commute on every cache -/

/-- what the informer guarantees about one event: an update carries the same uid in both objects, and the node
    name of the new object is the old one or empty (IndexPre's "the node never changes once set") -/
def EvOK : REv → Prop
  | .upd _ _ _ o n => n.uid = o.uid ∧ (n.node = o.node ∨ n.node = 0)
  | _ => True

instance (e : REv) : Decidable (EvOK e) := by
  cases e <;> simp only [EvOK] <;> exact inferInstance

theorem delObj_eq (o : RObj) : (if o.available then { o with phase := 4 } else o) = delObj o := rfl

/-- whenever the global handler deletes (u, n), the plugin handler's action for the same event is either nothing
    or updateReservationIfExists of an object of that very reservation on that node (or without node) -/
theorem plug_shape (e : REv) (u n : Nat) (hok : EvOK e) (ht : globTarget e = some (u, n)) :
    (∀ c, plugEv c e = c) ∨
    (∃ o', o'.uid = u ∧ (o'.node = n ∨ o'.node = 0) ∧ ∀ c, plugEv c e = updateReservationIfExists c o') := by
  cases e with
  | add kind valid o => simp [globTarget] at ht
  | bcast f => simp [globTarget] at ht
  | del kind o =>
    simp only [globTarget] at ht
    split at ht
    · rename_i hc
      simp only [Option.some.injEq, Prod.mk.injEq] at ht
      right
      refine ⟨delObj o, ?_, ?_, ?_⟩
      · rw [(delObj_uid_node o).1]; exact ht.1
      · left; rw [(delObj_uid_node o).2]; exact ht.2
      · intro c
        have hk : toRsv kind = true := by simp only [Bool.and_eq_true] at hc; exact hc.1
        simp [plugEv, hk, onDelete, delObj_eq]
    · cases ht
  | upd ko kn valid o nw =>
    simp only [globTarget] at ht
    split at ht
    · rename_i hc
      simp only [Option.some.injEq, Prod.mk.injEq] at ht
      simp only [Bool.and_eq_true] at hc
      obtain ⟨⟨⟨_, _⟩, hdel⟩, _⟩ := hc
      obtain ⟨huid, hnode⟩ := hok
      by_cases hk : (isRsvPtr ko && isRsvPtr kn) = true
      · -- the plugin handler reads the event: onUpdate c nw
        have hnact_or : nw.active = false := by
          -- a deleting transition ends terminated or unassigned (available -> available needs a uid/node change)
          unfold gUpdateDeletes at hdel
          simp only [Bool.and_eq_true] at hdel
          obtain ⟨_, hbr⟩ := hdel
          by_cases hoa : o.available = true
          · by_cases hna : nw.available = true
            · -- same uid, same node: no deletion
              exfalso
              have hnn : nw.node ≠ 0 := by simp [RObj.available] at hna; exact hna.1
              have : nw.node = o.node := by rcases hnode with h | h; exact h; exact absurd h hnn
              simp [hoa, hna, huid.symm, this] at hbr
            · by_cases hnt : nw.terminated = true
              · simp [RObj.terminated] at hnt
                simp [RObj.active]
                intro _
                rcases hnt with h | h <;> simp [h]
              · have hna' : nw.available = false := by simpa using hna
                have hnt' : nw.terminated = false := by simpa using hnt
                have hou : o.unassigned = false := by
                  simp [RObj.available] at hoa
                  simp [RObj.unassigned, hoa.1]
                simp [hoa, hna', hnt', hou] at hbr
                simp [RObj.unassigned] at hbr
                simp [RObj.active, hbr.1]
          · have hoa' : o.available = false := by simpa using hoa
            simp [hoa'] at hbr
        by_cases hnt : nw.terminated = true
        · right
          refine ⟨nw, by omega, ?_, ?_⟩
          · rcases hnode with h | h
            · left; omega
            · right; exact h
          · intro c
            have hph : (nw.phase == 4 || nw.phase == 3) = true := by
              simp [RObj.terminated] at hnt
              rcases hnt with h | h <;> simp [h]
            simp [plugEv, hk, onUpdate, hnact_or, hph]
        · left
          intro c
          have hph : (nw.phase == 4 || nw.phase == 3) = false := by
            simp [RObj.terminated] at hnt
            simp [hnt.1, hnt.2]
          simp [plugEv, hk, onUpdate, hnact_or, hph]
      · left
        intro c
        have hk' : (isRsvPtr ko && isRsvPtr kn) = false := by simpa using hk
        simp [plugEv, hk']
    · cases ht

/-- the order in which one profile's cache sees the scheduler-wide handler and its own plugin handler does not
    matter -/
theorem global_plugin_commute (c : Cache) (e : REv) (hok : EvOK e) : evStep true c e = evStep false c e := by
  unfold evStep globEv
  simp only [if_true, Bool.false_eq_true, if_false]
  cases ht : globTarget e with
  | none => rfl
  | some p =>
    obtain ⟨u, n⟩ := p
    simp only []
    rcases plug_shape e u n hok ht with h | ⟨o', hu, hn, h⟩
    · rw [h, h]
    · rw [h, h, updIfExists_after_delete c o' u n hu, delete_after_updIfExists c o' u n hu hn]

/-! ### all profiles stay in sync -/

theorem deliverFrom_replicate (e : REv) (gf : Nat → Bool) (hok : EvOK e) (c : Cache) :
    ∀ (k i : Nat), deliverFrom e gf i (List.replicate k c) = List.replicate k (evStep false c e) := by
  intro k
  induction k with
  | zero => intro i; rfl
  | succ k ih =>
    intro i
    simp only [List.replicate_succ, deliverFrom, ih (i + 1)]
    cases hg : gf i
    · rfl
    · rw [global_plugin_commute c e hok]

/-- the reference run of ONE cache: plugin handler, then the global handler's DeleteReservation -/
def runRef (c : Cache) (es : List REv) : Cache := es.foldl (evStep false) c

theorem runProfiles_replicate (k : Nat) :
    ∀ (es : List (REv × (Nat → Bool))) (c : Cache), (∀ x ∈ es, EvOK x.1) →
      runProfiles (List.replicate k c) es = List.replicate k (runRef c (es.map (·.1))) := by
  intro es
  induction es with
  | nil => intro c _; rfl
  | cons x t ih =>
    intro c hok
    simp only [runProfiles, List.foldl_cons, deliverAll, List.map_cons, runRef]
    rw [deliverFrom_replicate x.1 x.2 (hok x (by simp)) c k 0]
    exact ih (evStep false c x.1) (fun y hy => hok y (by simp [hy]))

/-! ### the reference run is a run of the single-cache model (so its theorems apply to every profile) -/

/-- the single-cache ops one event amounts to -/
def opsOfEv : REv → List Op
  | .add kind _ o => if isRsvPtr kind then [.eadd o] else []
  | .upd ko kn valid o n =>
    (if isRsvPtr ko && isRsvPtr kn then [Op.eupd n] else []) ++
    (if toRsv ko && toRsv kn && gUpdateDeletes valid o n && o.node != 0 then [Op.rdel o.uid o.node] else [])
  | .del kind o =>
    (if toRsv kind then [Op.edel o] else []) ++ (if toRsv kind && o.node != 0 then [Op.rdel o.uid o.node] else [])
  | .bcast _ => []

/-- a broadcast of a single-cache op (pod informer events) -/
def bcastOp (op : Op) : REv := .bcast (fun c => step c op)

def opsOf (e : REv) (bop : Option Op) : List Op :=
  match bop with
  | some op => [op]
  | none => opsOfEv e

theorem evStep_is_run (c : Cache) (e : REv) (hnb : ∀ f, e ≠ .bcast f) : evStep false c e = run c (opsOfEv e) := by
  cases e with
  | bcast f => exact absurd rfl (hnb f)
  | add kind valid o =>
    simp only [evStep, Bool.false_eq_true, if_false, globEv, globTarget, plugEv, opsOfEv]
    split <;> simp [run, step]
  | del kind o =>
    simp only [evStep, Bool.false_eq_true, if_false, globEv, globTarget, plugEv, opsOfEv]
    cases hk : toRsv kind <;> cases hn : (o.node != 0) <;> simp [run, step]
  | upd ko kn valid o n =>
    simp only [evStep, Bool.false_eq_true, if_false, globEv, globTarget, plugEv, opsOfEv]
    cases hk : (isRsvPtr ko && isRsvPtr kn) <;>
      cases hg : (toRsv ko && toRsv kn && gUpdateDeletes valid o n && o.node != 0) <;> simp [run, step]

theorem evStep_bcast (c : Cache) (op : Op) : evStep false c (bcastOp op) = run c [op] := by
  simp [evStep, globEv, globTarget, plugEv, bcastOp, run]

/-- an event of the multi-profile world: a reservation informer event, or a single-cache op every profile applies
    (pod informer events) -/
inductive MEv where
  | rsv (e : REv) (hnb : ∀ f, e ≠ .bcast f)
  | all (op : Op)

def MEv.ev : MEv → REv
  | .rsv e _ => e
  | .all op => bcastOp op

def MEv.ops : MEv → List Op
  | .rsv e _ => opsOfEv e
  | .all op => [op]

theorem run_append (c : Cache) (a b : List Op) : run c (a ++ b) = run (run c a) b := by
  simp [run, List.foldl_append]

theorem runRef_is_run (ms : List MEv) : ∀ c, runRef c (ms.map MEv.ev) = run c (ms.flatMap MEv.ops) := by
  induction ms with
  | nil => intro c; rfl
  | cons m t ih =>
    intro c
    simp only [List.map_cons, runRef, List.foldl_cons, List.flatMap_cons, run_append]
    have : evStep false c m.ev = run c m.ops := by
      cases m with
      | rsv e hnb => exact evStep_is_run c e hnb
      | all op => exact evStep_bcast c op
    rw [this]
    exact ih _

/-! ### what a delete event leaves behind, in every profile, in any listener order -/

theorem findInfo_plug_del (c : Cache) (kind : Nat) (o : RObj) (h : findInfo c o.uid = none) :
    findInfo (plugEv c (.del kind o)) o.uid = none := by
  simp only [plugEv]
  split
  · simp only [onDelete, delObj_eq]
    unfold updateReservationIfExists
    rw [(delObj_uid_node o).1, h]
    exact h
  · exact h

theorem evStep_del_absent (gf : Bool) (c : Cache) (kind : Nat) (o : RObj) (hk : toRsv kind = true) (hn : o.node ≠ 0) :
    findInfo (evStep gf c (.del kind o)) o.uid = none := by
  have ht : globTarget (.del kind o) = some (o.uid, o.node) := by simp [globTarget, hk, hn]
  cases gf
  · simp only [evStep, Bool.false_eq_true, if_false, globEv, ht]
    exact findInfo_deleteReservation _ _ _
  · simp only [evStep, if_true, globEv, ht]
    exact findInfo_plug_del _ kind o (findInfo_deleteReservation _ _ _)

theorem mem_deliverFrom (e : REv) (gf : Nat → Bool) :
    ∀ (cs : List Cache) (i : Nat) (c' : Cache), c' ∈ deliverFrom e gf i cs → ∃ c ∈ cs, ∃ b, c' = evStep b c e := by
  intro cs
  induction cs with
  | nil => intro i c' h; simp [deliverFrom] at h
  | cons c t ih =>
    intro i c' h
    simp only [deliverFrom, List.mem_cons] at h
    rcases h with h | h
    · exact ⟨c, by simp, gf i, h⟩
    · obtain ⟨c0, hc0, b, hb⟩ := ih (i + 1) c' h
      exact ⟨c0, by simp [hc0], b, hb⟩

/-- with the index invariant, a reservation that is not in the primary map is referenced by no per-node index -/
theorem absent_not_indexed (c : Cache) (h : IndexInv c) (u : Nat) (hf : findInfo c u = none) :
    ∀ n, (n, u) ∉ c.onNode ∧ (n, u) ∉ c.matchable ∧ (n, u) ∉ c.allocIdx := by
  intro n
  have hno : ¬ LiveL c.infos n u := by
    rintro ⟨r, hr, hu, _⟩
    exact findInfo_none c u hf r hr hu
  exact ⟨fun hm => hno ((h.on_iff n u).mp hm), fun hm => hno (h.mt_live n u hm), fun hm => hno (h.al_live n u hm)⟩

end KoordVerif.C05
