import KoordVerif.Model.C08Glue
/-
C08 — facts about the glue model (Model/C08Glue.lean): class resolution, PodRequests with init containers /
sidecars / overhead, annotation parsing.
-/
namespace KoordVerif.C08

/-- the class is always one of prod / mid / batch / free (kube QoS is one of its three values) -/
theorem resolveClass_range (s : ClassShape) (hk : s.kubeQos = 1 ∨ s.kubeQos = 2 ∨ s.kubeQos = 3) :
    1 ≤ resolveClass s ∧ resolveClass s ≤ 4 := by
  unfold resolveClass
  by_cases hc : classRaw s = 0
  · simp only [hc, bne_self_eq_false, Bool.false_eq_true, if_false]
    unfold classByQos qosOf
    rcases hk with h | h | h <;> simp only [h] <;> (repeat' split) <;> simp_all <;> omega
  · have hb : (classRaw s != 0) = true := by simpa using hc
    simp only [hb, if_true]
    refine ⟨by omega, ?_⟩
    unfold classRaw
    split
    · split <;> omega
    · split
      · omega
      · unfold classByPriority; repeat' split
        all_goals omega

/-- a known priority-class label decides, whatever Spec.Priority and the QoS say -/
theorem resolveClass_label (s : ClassShape) (h1 : 1 ≤ s.prioLabel) (h4 : s.prioLabel ≤ 4) : resolveClass s = s.prioLabel := by
  have hb : (s.prioLabel != 0) = true := by simp; omega
  have hc : classRaw s = s.prioLabel := by simp [classRaw, hb, h4]
  have hn : (s.prioLabel != 0) = true := hb
  simp [resolveClass, hc, hn]

/-- a priority-class label with an unknown text hides Spec.Priority: the class then comes from the QoS alone -/
theorem resolveClass_unknown_label (s : ClassShape) (h : 4 < s.prioLabel) : resolveClass s = classByQos (qosOf s) := by
  have hb : (s.prioLabel != 0) = true := by simp; omega
  have hc : classRaw s = 0 := by simp [classRaw, hb]; omega
  simp [resolveClass, hc]

/-- without a label an in-band Spec.Priority decides -/
theorem resolveClass_priority (s : ClassShape) (p : Int) (h0 : s.prioLabel = 0) (hp : s.prio = some p)
    (hb : classByPriority p ≠ 0) : resolveClass s = classByPriority p := by
  have hc : classRaw s = classByPriority p := by simp [classRaw, h0, hp]
  have hn : (classByPriority p != 0) = true := by simpa using hb
  simp [resolveClass, hc, hn]

/-! PodRequests -/

theorem aggInit_fold_mono (inits : List InitC) (acc : Int × Int × Int) (hv : ∀ c ∈ inits, 0 ≤ c.v) :
    acc.1 ≤ (inits.foldl aggInit acc).1 ∧ acc.2.2 ≤ (inits.foldl aggInit acc).2.2 ∧ acc.2.1 ≤ (inits.foldl aggInit acc).2.1 := by
  induction inits generalizing acc with
  | nil => simp
  | cons c cs ih =>
    have hc := hv c (by simp)
    have := ih (aggInit acc c) (fun x hx => hv x (by simp [hx]))
    simp only [List.foldl_cons]
    have h1 : acc.1 ≤ (aggInit acc c).1 ∧ acc.2.2 ≤ (aggInit acc c).2.2 ∧ acc.2.1 ≤ (aggInit acc c).2.1 := by
      unfold aggInit; split <;> (refine ⟨?_, ?_, ?_⟩ <;> simp only [] <;> (try split) <;> omega)
    omega

/-- every init container's own amount fits into the aggregate (amounts ≥ 0) -/
theorem aggInit_fold_ge (inits : List InitC) (acc : Int × Int × Int) (hv : ∀ c ∈ inits, 0 ≤ c.v) (hs : 0 ≤ acc.2.1)
    (c : InitC) (hc : c ∈ inits) : c.v ≤ (inits.foldl aggInit acc).2.2 := by
  induction inits generalizing acc with
  | nil => simp at hc
  | cons x xs ih =>
    simp only [List.foldl_cons]
    have hx := hv x (by simp)
    have hs' : 0 ≤ (aggInit acc x).2.1 := by unfold aggInit; split <;> simp only [] <;> omega
    rcases List.mem_cons.mp hc with rfl | hmem
    · have hm := (aggInit_fold_mono xs (aggInit acc c) (fun y hy => hv y (by simp [hy]))).2.1
      have : c.v ≤ (aggInit acc c).2.2 := by unfold aggInit; split <;> simp only [] <;> split <;> omega
      omega
    · exact ih (aggInit acc x) (fun y hy => hv y (by simp [hy])) hs' hmem

/-- the effective amount covers the sum of the containers … -/
theorem aggregate_ge_containers (cs : List Int) (inits : List InitC) (hv : ∀ c ∈ inits, 0 ≤ c.v) :
    cs.foldl (· + ·) 0 ≤ aggregate cs inits := by
  have := (aggInit_fold_mono inits (cs.foldl (· + ·) 0, 0, 0) hv).1
  unfold aggregate; simp only [] at this ⊢; split <;> omega

/-- … and every single init container -/
theorem aggregate_ge_init (cs : List Int) (inits : List InitC) (hv : ∀ c ∈ inits, 0 ≤ c.v) (c : InitC) (hc : c ∈ inits) :
    c.v ≤ aggregate cs inits := by
  have := aggInit_fold_ge inits (cs.foldl (· + ·) 0, 0, 0) hv (by simp) c hc
  unfold aggregate; simp only [] at this ⊢; split <;> omega

/-- without init containers it is the plain sum (amounts ≥ 0) -/
theorem aggregate_no_init (cs : List Int) (h : 0 ≤ cs.foldl (· + ·) 0) : aggregate cs [] = cs.foldl (· + ·) 0 := by
  have := aggregate_ge_containers cs [] (by simp)
  unfold aggregate at this ⊢
  simp only [List.foldl_nil] at this ⊢
  by_cases hgt : (0 : Int) > cs.foldl (· + ·) 0
  · omega
  · simp [hgt]

/-- overhead is never added to an absent (zero) limit, so "no limit" stays "no limit" -/
theorem podLimit_zero (inits : List InitC) (ov : Int) : podLimit [] [] none ov = 0 ∧ podLimit [0] inits (some 0) ov = 0 := by
  simp [podLimit, aggregate]

/-! annotations -/

/-- a scaling-factor annotation that encoding/json rejects (or none at all) leaves the configured factors in force -/
theorem malformed_factors_ignored (cfg : Cfg) (p : PodDesc) (kind : Nat) (fs : List (Option Int)) (hk : kind ≠ 1) :
    factorsFor cfg { p with customFactors := parseFactors kind fs } = cfg.factors := by
  have h : (parseFactors kind fs).any Option.isSome = false := by
    simp [parseFactors, hk]
  simp [factorsFor, h]

/-- an unparsable seconds annotation reads as "absent" (−1), which selects the configured value -/
theorem malformed_secs_absent (kind : Nat) (v : Int) (hk : kind ≠ 1) : parseSecs kind v = -1 := by
  simp [parseSecs, hk]

end KoordVerif.C08
