import KoordVerif.Model.C02Nodes
/-
C02 extension 4 — the cluster total as a fold over node events: lookup lemmas for the quotav1 list operations,
the pigeonhole behind `quotav1.Equals`, and the invariant "total = from-scratch sum over the current node set".
-/
namespace KoordVerif.C02

/-! ### lookups -/

theorem rlFind_cons (k : Nat) (v : Int) (l : RL) (d : Nat) :
    rlFind ((k, v) :: l) d = if k = d then some v else rlFind l d := by
  simp [rlFind]

theorem rlHas_cons (k : Nat) (v : Int) (l : RL) (d : Nat) :
    rlHas ((k, v) :: l) d = (decide (k = d) || rlHas l d) := by
  unfold rlHas
  rw [rlFind_cons]
  split <;> simp [*]

theorem rlFind_mapVal (g : Nat → Int → Int) (a : RL) (d : Nat) :
    rlFind (a.map (fun p => (p.1, g p.1 p.2))) d = (rlFind a d).map (g d) := by
  induction a with
  | nil => simp [rlFind]
  | cons p r ih =>
    obtain ⟨k, v⟩ := p
    simp only [List.map_cons, rlFind_cons]
    split
    · next h => subst h; simp
    · exact ih

theorem rlFind_append (x y : RL) (d : Nat) :
    rlFind (x ++ y) d = (rlFind x d).or (rlFind y d) := by
  induction x with
  | nil => simp [rlFind]
  | cons p r ih =>
    obtain ⟨k, v⟩ := p
    simp only [List.cons_append, rlFind_cons]
    split
    · simp
    · exact ih

theorem rlFind_filter_key (q : Nat → Bool) (l : RL) (d : Nat) :
    rlFind (l.filter (fun p => q p.1)) d = if q d then rlFind l d else none := by
  induction l with
  | nil => simp [rlFind]
  | cons p r ih =>
    obtain ⟨k, v⟩ := p
    simp only [List.filter_cons]
    by_cases hk : k = d
    · subst hk
      by_cases hq : q k
      · simp [hq, rlFind_cons]
      · simp [hq, ih]
    · by_cases hq : q k
      · simp [hq, rlFind_cons, hk, ih]
      · simp [hq, rlFind_cons, hk, ih]

theorem rlGet_add (a b : RL) (d : Nat) : rlGet (rlAdd a b) d = rlGet a d + rlGet b d := by
  unfold rlAdd rlGet
  rw [rlFind_append, rlFind_mapVal (fun k v => v + (rlFind b k).getD 0) a d,
    rlFind_filter_key (fun k => !rlHas a k) b d]
  unfold rlHas
  cases h : rlFind a d <;> simp

theorem rlGet_sub (a b : RL) (d : Nat) : rlGet (rlSub a b) d = rlGet a d - rlGet b d := by
  unfold rlSub rlGet
  rw [rlFind_append, rlFind_mapVal (fun k v => v - (rlFind b k).getD 0) a d,
    rlFind_mapVal (fun _ v => -v) (b.filter (fun p => !rlHas a p.1)) d,
    rlFind_filter_key (fun k => !rlHas a k) b d]
  unfold rlHas
  cases h : rlFind a d
  · cases h2 : rlFind b d <;> simp
  · simp

theorem rlGet_subNewKeysOnly (a b : RL) (d : Nat) :
    rlGet (rlSubNewKeysOnly a b) d = if rlHas a d then rlGet a d - rlGet b d else 0 := by
  unfold rlSubNewKeysOnly rlGet rlHas
  rw [rlFind_mapVal (fun k v => v - (rlFind b k).getD 0) a d]
  cases h : rlFind a d <;> simp

theorem rlGet_nil (d : Nat) : rlGet [] d = 0 := by simp [rlGet, rlFind]

theorem rlIsZero_get (l : RL) (h : rlIsZero l = true) (d : Nat) : rlGet l d = 0 := by
  induction l with
  | nil => exact rlGet_nil d
  | cons p r ih =>
    obtain ⟨k, v⟩ := p
    simp only [rlIsZero, List.all_cons, Bool.and_eq_true, beq_iff_eq] at h
    unfold rlGet
    rw [rlFind_cons]
    split
    · simp [h.1]
    · exact ih (by simpa [rlIsZero] using h.2)

/-! ### `quotav1.Equals` on Go maps: same keys, same amounts (pigeonhole on the key sets) -/

theorem rlHas_of_mem (a : RL) (p : Nat × Int) (h : p ∈ a) : rlHas a p.1 = true := by
  induction a with
  | nil => cases h
  | cons q r ih =>
    obtain ⟨k, v⟩ := q
    rw [rlHas_cons]
    rcases List.mem_cons.mp h with h | h
    · subst h; simp
    · simp [ih h]

theorem rlHas_filter_ne (l : RL) (k d : Nat) :
    rlHas (l.filter (fun p => p.1 != k)) d = (d != k && rlHas l d) := by
  unfold rlHas
  rw [rlFind_filter_key (fun x => x != k) l d]
  by_cases h : d = k <;> simp [h]

theorem filter_ne_of_not_has (l : RL) (k : Nat) (h : rlHas l k = false) :
    l.filter (fun p => p.1 != k) = l := by
  induction l with
  | nil => rfl
  | cons q r ih =>
    obtain ⟨k', v⟩ := q
    rw [rlHas_cons] at h
    simp only [Bool.or_eq_false_iff, decide_eq_false_iff_not] at h
    simp only [List.filter_cons]
    have : (k' != k) = true := by simpa using h.1
    simp [this, ih h.2]

theorem rlNodup_filter_ne (l : RL) (k : Nat) (h : rlNodup l = true) :
    rlNodup (l.filter (fun p => p.1 != k)) = true := by
  induction l with
  | nil => rfl
  | cons q r ih =>
    obtain ⟨k', v⟩ := q
    simp only [rlNodup, Bool.and_eq_true, Bool.not_eq_true'] at h
    simp only [List.filter_cons]
    by_cases hk : k' = k
    · subst hk; simpa using ih h.2
    · have : (k' != k) = true := by simpa using hk
      simp only [this, if_true, rlNodup, Bool.and_eq_true, Bool.not_eq_true']
      refine ⟨?_, ih h.2⟩
      rw [rlHas_filter_ne]
      simp [h.1]

theorem length_filter_ne (l : RL) (k : Nat) (hn : rlNodup l = true) (hh : rlHas l k = true) :
    (l.filter (fun p => p.1 != k)).length + 1 = l.length := by
  induction l with
  | nil => simp [rlHas, rlFind] at hh
  | cons q r ih =>
    obtain ⟨k', v⟩ := q
    simp only [rlNodup, Bool.and_eq_true, Bool.not_eq_true'] at hn
    simp only [List.filter_cons]
    by_cases hk : k' = k
    · subst hk
      simp [filter_ne_of_not_has r k' hn.1]
    · have hne : (k' != k) = true := by simpa using hk
      rw [rlHas_cons] at hh
      have hr : rlHas r k = true := by simpa [hk] using hh
      simp only [hne, if_true, List.length_cons]
      have := ih hn.2 hr
      omega

/-- pigeonhole: two Go maps with the same number of keys, every key of `a` named by `b` ⇒ every key of `b` is
    named by `a`. -/
theorem keys_back (a : RL) : ∀ b : RL, rlNodup a = true → rlNodup b = true → a.length = b.length →
    (∀ p ∈ a, rlHas b p.1 = true) → ∀ d, rlHas b d = true → rlHas a d = true := by
  induction a with
  | nil =>
    intro b _ _ hl _ d hd
    have : b = [] := List.eq_nil_of_length_eq_zero hl.symm
    subst this
    simp [rlHas, rlFind] at hd
  | cons q r ih =>
    obtain ⟨k, v⟩ := q
    intro b ha hb hl hsub d hd
    simp only [rlNodup, Bool.and_eq_true, Bool.not_eq_true'] at ha
    rw [rlHas_cons]
    by_cases hk : k = d
    · simp [hk]
    · have hbk : rlHas b k = true := hsub (k, v) (List.mem_cons_self ..)
      have hlen := length_filter_ne b k hb hbk
      have hsub' : ∀ p ∈ r, rlHas (b.filter (fun p => p.1 != k)) p.1 = true := by
        intro p hp
        rw [rlHas_filter_ne]
        have h1 : rlHas r p.1 = true := rlHas_of_mem r p hp
        have hne : p.1 ≠ k := by
          intro he; rw [he] at h1; rw [ha.1] at h1; cases h1
        have h2 := hsub p (List.mem_cons_of_mem _ hp)
        simp [hne, h2]
      have hd' : rlHas (b.filter (fun p => p.1 != k)) d = true := by
        rw [rlHas_filter_ne]
        have : d ≠ k := fun h => hk h.symm
        simp [this, hd]
      have := ih (b.filter (fun p => p.1 != k)) ha.2 (rlNodup_filter_ne b k hb)
        (by simp only [List.length_cons] at hl; omega) hsub' d hd'
      simp [this]

theorem rlFind_of_mem_nodup (a : RL) (p : Nat × Int) (hn : rlNodup a = true) (h : p ∈ a) :
    rlFind a p.1 = some p.2 := by
  induction a with
  | nil => cases h
  | cons q r ih =>
    obtain ⟨k, v⟩ := q
    simp only [rlNodup, Bool.and_eq_true, Bool.not_eq_true'] at hn
    rw [rlFind_cons]
    rcases List.mem_cons.mp h with h | h
    · subst h; simp
    · have : rlHas r p.1 = true := rlHas_of_mem r p h
      have hne : k ≠ p.1 := by
        intro he; rw [← he] at this; rw [hn.1] at this; cases this
      simp [hne, ih hn.2 h]

theorem mem_of_rlFind (a : RL) (d : Nat) (v : Int) (h : rlFind a d = some v) : (d, v) ∈ a := by
  induction a with
  | nil => simp [rlFind] at h
  | cons q r ih =>
    obtain ⟨k, w⟩ := q
    rw [rlFind_cons] at h
    split at h
    · next hk => subst hk; cases h; exact List.mem_cons_self ..
    · exact List.mem_cons_of_mem _ (ih h)

/-- `quotav1.Equals(a, b)` on Go maps ⇒ every resource name reads the same amount in both. -/
theorem rlEquals_get (a b : RL) (ha : rlNodup a = true) (hb : rlNodup b = true) (h : rlEquals a b = true) (d : Nat) :
    rlGet a d = rlGet b d := by
  simp only [rlEquals, Bool.and_eq_true, beq_iff_eq, List.all_eq_true] at h
  obtain ⟨hl, hall⟩ := h
  have hsub : ∀ p ∈ a, rlHas b p.1 = true := by
    intro p hp
    have := hall p hp
    simp [rlHas, this]
  unfold rlGet
  cases hfa : rlFind a d with
  | some v =>
    have := hall (d, v) (mem_of_rlFind a d v hfa)
    simp only at this
    rw [this]
  | none =>
    cases hfb : rlFind b d with
    | none => rfl
    | some w =>
      have := keys_back a b ha hb hl hsub d (by simp [rlHas, hfb])
      simp [rlHas, hfa] at this

/-! ### the node set -/

theorem contains_keys (st : Store) (n : Nat) : (st.map Prod.fst).contains n = (stFind st n).isSome := by
  induction st with
  | nil => simp [stFind]
  | cons q r ih =>
    obtain ⟨k, v⟩ := q
    simp only [List.map_cons, List.contains_cons, stFind]
    by_cases hk : k = n
    · subst hk; simp
    · have : (n == k) = false := by simpa using fun h => hk h.symm
      rw [this, if_neg hk, Bool.false_or]
      exact ih

theorem stSet_keys (st : Store) (n : Nat) (a : RL) (h : (stFind st n).isSome = true) :
    (stSet st n a).map Prod.fst = st.map Prod.fst := by
  induction st with
  | nil => simp [stFind] at h
  | cons q r ih =>
    obtain ⟨k, v⟩ := q
    simp only [stSet]
    by_cases hk : k = n
    · simp [hk]
    · simp only [stFind, hk, if_false] at h
      simp [hk, ih h]

theorem stSet_sum (st : Store) (n : Nat) (o a : RL) (h : stFind st n = some o) (d : Nat) :
    stSum (stSet st n a) d = stSum st d - rlGet o d + rlGet a d := by
  induction st with
  | nil => simp [stFind] at h
  | cons q r ih =>
    obtain ⟨k, v⟩ := q
    simp only [stSet]
    by_cases hk : k = n
    · simp only [stFind, hk, if_true, Option.some.injEq] at h
      subst h
      simp only [hk, if_true, stSum]
      omega
    · simp only [stFind, hk, if_false] at h
      simp only [hk, if_false, stSum, ih h]
      omega

theorem stErase_none (st : Store) (n : Nat) (h : stFind st n = none) : stErase st n = st := by
  induction st with
  | nil => rfl
  | cons q r ih =>
    obtain ⟨k, v⟩ := q
    by_cases hk : k = n
    · simp [stFind, hk] at h
    · simp only [stFind, hk, if_false] at h
      simp [stErase, hk, ih h]

theorem stErase_keys (st : Store) (n : Nat) : (stErase st n).map Prod.fst = (st.map Prod.fst).erase n := by
  induction st with
  | nil => rfl
  | cons q r ih =>
    obtain ⟨k, v⟩ := q
    simp only [stErase, List.map_cons, List.erase_cons]
    by_cases hk : k = n
    · simp [hk]
    · have : (k == n) = false := by simpa using hk
      simp [hk, this, ih]

theorem stErase_sum (st : Store) (n : Nat) (o : RL) (h : stFind st n = some o) (d : Nat) :
    stSum (stErase st n) d = stSum st d - rlGet o d := by
  induction st with
  | nil => simp [stFind] at h
  | cons q r ih =>
    obtain ⟨k, v⟩ := q
    simp only [stErase]
    by_cases hk : k = n
    · simp only [stFind, hk, if_true, Option.some.injEq] at h
      subst h
      simp only [hk, if_true, stSum]
      omega
    · simp only [stFind, hk, if_false] at h
      simp only [hk, if_false, stSum, ih h]
      omega

/-! ### the invariant -/

structure NInv (s : NS) (st : Store) : Prop where
  known  : s.known = st.map Prod.fst
  total  : ∀ d, rlGet s.total d = stSum st d
  pushed : ∀ d, rlGet s.pushed d = rlGet s.total d

theorem bump_total (s : NS) (delta : RL) (d : Nat) :
    rlGet (s.bump delta).total d = rlGet s.total d + rlGet delta d := by
  simp [NS.bump, rlGet_add]

theorem bump_known (s : NS) (delta : RL) : (s.bump delta).known = s.known := rfl

theorem bump_pushed (s : NS) (delta : RL) (d : Nat) :
    rlGet (s.bump delta).pushed d = rlGet (s.bump delta).total d := by
  simp only [NS.bump]
  split
  · next hz =>
    have := rlIsZero_get _ hz d
    rw [rlGet_sub] at this
    omega
  · rfl

/-- a delta function that reads, in every resource name, new minus old (a missing key reading 0). -/
def FullSub (sub : RL → RL → RL) : Prop := ∀ a o d, rlGet (sub a o) d = rlGet a d - rlGet o d

theorem ninv_step (sub : RL → RL → RL) (hsub : FullSub sub) (s : NS) (st : Store) (e : NEv)
    (hi : NInv s st) (hc : coherent st e = true) : NInv (s.step sub e) (stStep st e) := by
  have hcont : ∀ n, s.known.contains n = (stFind st n).isSome := by
    intro n; rw [hi.known]; exact contains_keys st n
  cases e with
  | add n a =>
    simp only [NS.step, stStep, hcont]
    by_cases hk : (stFind st n).isSome = true
    · simpa [hk] using hi
    · simp only [hk, if_false, Bool.false_eq_true]
      refine ⟨?_, ?_, ?_⟩
      · simp [bump_known, hi.known]
      · intro d; rw [bump_total]; simp only [stSum]; have := hi.total d; omega
      · intro d; exact bump_pushed _ _ d
  | update n o a =>
    simp only [coherent, Bool.and_eq_true] at hc
    obtain ⟨⟨hna, hno⟩, hst⟩ := hc
    simp only [NS.step, stStep, hcont]
    by_cases hk : (stFind st n).isSome = true
    · obtain ⟨o', ho'⟩ := Option.isSome_iff_exists.mp hk
      rw [ho'] at hst
      have hoo : o' = o := by simpa using hst
      subst hoo
      simp only [hk, Bool.not_true, Bool.false_eq_true, if_false, if_true]
      by_cases heq : rlEquals o' a = true
      · simp only [heq, if_true]
        refine ⟨?_, ?_, hi.pushed⟩
        · rw [stSet_keys st n a hk]; exact hi.known
        · intro d
          rw [stSet_sum st n o' a ho' d, hi.total d]
          have := rlEquals_get o' a hno hna heq d
          omega
      · simp only [heq, if_false, Bool.false_eq_true]
        refine ⟨?_, ?_, ?_⟩
        · rw [stSet_keys st n a hk, bump_known]; exact hi.known
        · intro d
          rw [bump_total, stSet_sum st n o' a ho' d, hi.total d, hsub a o' d]
          omega
        · intro d; exact bump_pushed _ _ d
    · simp only [hk, Bool.not_false, if_true, if_false, Bool.false_eq_true]
      refine ⟨?_, ?_, ?_⟩
      · simp [bump_known, hi.known]
      · intro d; rw [bump_total]; simp only [stSum]; have := hi.total d; omega
      · intro d; exact bump_pushed _ _ d
  | delete n o =>
    simp only [coherent, Bool.and_eq_true] at hc
    obtain ⟨_, hst⟩ := hc
    simp only [NS.step, stStep, hcont]
    by_cases hk : (stFind st n).isSome = true
    · obtain ⟨o', ho'⟩ := Option.isSome_iff_exists.mp hk
      rw [ho'] at hst
      have hoo : o' = o := by simpa using hst
      subst hoo
      simp only [hk, Bool.not_true, Bool.false_eq_true, if_false]
      refine ⟨?_, ?_, ?_⟩
      · simp only [stErase_keys, hi.known]
      · intro d
        show rlGet (s.bump (rlSub [] o')).total d = _
        rw [bump_total, stErase_sum st n o' ho' d, hi.total d, rlGet_sub, rlGet_nil]
        omega
      · intro d; exact bump_pushed s _ d
    · have hnone : stFind st n = none := by
        cases h : stFind st n with
        | none => rfl
        | some x => simp [h] at hk
      simp only [hk, Bool.not_false, if_true]
      rw [stErase_none st n hnone]
      exact hi

theorem ninv_run (sub : RL → RL → RL) (hsub : FullSub sub) (evs : List NEv) : ∀ (s : NS) (st : Store),
    NInv s st → coherentHist st evs = true → NInv (NS.run sub s evs) (evs.foldl stStep st) := by
  induction evs with
  | nil => intro s st hi _; exact hi
  | cons e rest ih =>
    intro s st hi hc
    simp only [coherentHist, Bool.and_eq_true] at hc
    simp only [NS.run, List.foldl_cons]
    exact ih _ _ (ninv_step sub hsub s st e hi hc.1) hc.2

theorem ninv_init : NInv {} [] := ⟨rfl, fun _ => rfl, fun _ => rfl⟩

theorem fullSub_rlSub : FullSub rlSub := rlGet_sub

end KoordVerif.C02
