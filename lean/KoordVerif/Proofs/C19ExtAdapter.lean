import KoordVerif.Model.C19Adapter
namespace KoordVerif.C19.Adapter

theorem foldl_updates (vs : List RV) : ∀ (v : RV) (b : Bool), b = passes v →
    (updates v vs).foldl applyCall b = passes (lastV v vs) := by
  induction vs with
  | nil => intro v b h; simpa [updates, lastV] using h
  | cons w rest ih =>
    intro v b h
    simp only [updates, lastV, List.foldl_append]
    apply ih
    unfold onUpdate
    cases hv : passes v <;> cases hw : passes w <;> simp [applyCall, h, hv]

/-- live: after add(v0) and any chain of updates the holder is present iff the LAST version passes the filter -/
theorem live_presence (v0 : RV) (vs : List RV) : presentAfter (calls v0 vs) = passes (lastV v0 vs) := by
  unfold presentAfter calls
  rw [List.foldl_append]
  apply foldl_updates
  unfold onAdd
  cases h : passes v0 <;> simp [applyCall]

/-- rebuilt: a fresh scheduler sees add(last version) only -/
theorem rebuilt_presence (v : RV) : presentAfter (onAdd v) = passes v := by
  unfold presentAfter onAdd
  cases h : passes v <;> simp [applyCall]

/-- a delete of the last version (plain or tombstone) leaves nothing behind -/
theorem delete_releases (v0 : RV) (vs : List RV) :
    presentAfter (calls v0 vs ++ onDelete (lastV v0 vs)) = false := by
  unfold presentAfter
  rw [List.foldl_append]
  have h := live_presence v0 vs
  unfold presentAfter at h
  rw [h]
  unfold onDelete
  cases hp : passes (lastV v0 vs) <;> simp [applyCall]

end KoordVerif.C19.Adapter
