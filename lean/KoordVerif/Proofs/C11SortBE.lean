import KoordVerif.Model.C11
import KoordVerif.Proofs.C11Sort
/-
C11 — the BE comparators are strict weak orders on pods that all carry a spec.priority
(on mixed nil / non-nil lists they are not transitive), hence the BE lists are sorted.
-/
namespace KoordVerif.C11

structure SWOOn (P : Info → Prop) (less : Info → Info → Bool) : Prop where
  asymm  : ∀ a b, P a → P b → less a b = true → less b a = false
  ntrans : ∀ a b c, P a → P b → P c → less a b = false → less b c = false → less a c = false

theorem insertBack_sorted_on {P : Info → Prop} {less : Info → Info → Bool} (h : SWOOn P less)
    (x : Info) (l : List Info) (hx : P x) (hP : ∀ y ∈ l, P y)
    (hl : l.Pairwise (fun a b => less a b = false)) :
    (insertBack less x l).Pairwise (fun a b => less a b = false) := by
  induction l with
  | nil => simp [insertBack]
  | cons y ys ih =>
    unfold insertBack
    rw [List.pairwise_cons] at hl
    have hy : P y := hP y (List.mem_cons_self ..)
    have hys : ∀ z ∈ ys, P z := fun z hz => hP z (List.mem_cons_of_mem _ hz)
    by_cases hxy : less x y = true
    · rw [if_pos hxy, List.pairwise_cons]
      refine ⟨?_, ih hys hl.2⟩
      intro z hz
      rcases (mem_insertBack less x z ys).mp hz with rfl | hz'
      · exact h.asymm _ _ hx hy hxy
      · exact hl.1 z hz'
    · rw [if_neg hxy]
      have hxy' : less x y = false := by simpa using hxy
      rw [List.pairwise_cons]
      refine ⟨?_, List.pairwise_cons.mpr hl⟩
      intro z hz
      rcases List.mem_cons.mp hz with rfl | hz'
      · exact hxy'
      · exact h.ntrans _ _ _ hx hy (hys z hz') hxy' (hl.1 z hz')

theorem isortRev_sorted_on {P : Info → Prop} {less : Info → Info → Bool} (h : SWOOn P less) (xs : List Info) :
    ∀ acc, (∀ y ∈ acc, P y) → (∀ y ∈ xs, P y) → acc.Pairwise (fun a b => less a b = false) →
      (isortRev less acc xs).Pairwise (fun a b => less a b = false) := by
  induction xs with
  | nil => intro acc _ _ hacc; simpa [isortRev] using hacc
  | cons x xs ih =>
    intro acc hPa hPx hacc
    have hx : P x := hPx x (List.mem_cons_self ..)
    refine ih _ ?_ (fun y hy => hPx y (List.mem_cons_of_mem _ hy)) (insertBack_sorted_on h x acc hx hPa hacc)
    intro y hy
    rcases (mem_insertBack less x y acc).mp hy with rfl | hy'
    · exact hx
    · exact hPa y hy'

theorem isort_sorted_on {P : Info → Prop} {less : Info → Info → Bool} (h : SWOOn P less) (xs : List Info)
    (hP : ∀ y ∈ xs, P y) : (isort less xs).Pairwise (fun a b => less b a = false) := by
  unfold isort
  rw [List.pairwise_reverse]
  exact isortRev_sorted_on h xs [] (by simp) hP List.Pairwise.nil

/-- the pod carries a spec.priority. -/
def HasPrio (i : Info) : Prop := ∃ v, i.pod.specPrio = some v

/-- usage part of the BE memory order: non-zero usage first, larger usage first, zero-usage pods by
    name descending. -/
def memBefore (a b : Info) : Prop :=
  (a.used ≠ 0 ∧ b.used ≠ 0 ∧ b.used < a.used) ∨ (a.used = 0 ∧ b.used = 0 ∧ b.pod.name < a.pod.name) ∨
  (a.used ≠ 0 ∧ b.used = 0)

theorem beMemLess_iff (a b : Info) (pa pb : Int) (ha : a.pod.specPrio = some pa) (hb : b.pod.specPrio = some pb) :
    beMemLess a b = true ↔ (pa < pb ∨ (pa = pb ∧ memBefore a b)) := by
  unfold beMemLess memBefore
  rw [ha, hb]
  by_cases h1 : pa = pb <;> by_cases h2 : a.used = 0 <;> by_cases h3 : b.used = 0 <;>
    simp [h1, h2, h3] <;> omega

theorem beCpuLess_iff (a b : Info) (pa pb : Int) (ha : a.pod.specPrio = some pa) (hb : b.pod.specPrio = some pb) :
    beCpuLess a b = true ↔ (pa < pb ∨ (pa = pb ∧ b.usageKey < a.usageKey)) := by
  unfold beCpuLess
  rw [ha, hb]
  by_cases h1 : pa = pb <;> simp [h1] <;> omega

theorem beCpuLess_swo : SWOOn HasPrio beCpuLess := by
  constructor
  · rintro a b ⟨pa, ha⟩ ⟨pb, hb⟩ h
    have h1 := (beCpuLess_iff a b pa pb ha hb).mp h
    cases hba : beCpuLess b a with
    | false => rfl
    | true => have h2 := (beCpuLess_iff b a pb pa hb ha).mp hba; omega
  · rintro a b c ⟨pa, ha⟩ ⟨pb, hb⟩ ⟨pc, hc⟩ hab hbc
    cases hac : beCpuLess a c with
    | false => rfl
    | true =>
      have h3 := (beCpuLess_iff a c pa pc ha hc).mp hac
      have h1 : ¬ _ := fun h => by rw [(beCpuLess_iff a b pa pb ha hb).mpr h] at hab; cases hab
      have h2 : ¬ _ := fun h => by rw [(beCpuLess_iff b c pb pc hb hc).mpr h] at hbc; cases hbc
      omega

theorem beMemLess_swo : SWOOn HasPrio beMemLess := by
  constructor
  · rintro a b ⟨pa, ha⟩ ⟨pb, hb⟩ h
    have h1 := (beMemLess_iff a b pa pb ha hb).mp h
    cases hba : beMemLess b a with
    | false => rfl
    | true =>
      have h2 := (beMemLess_iff b a pb pa hb ha).mp hba
      unfold memBefore at h1 h2; omega
  · rintro a b c ⟨pa, ha⟩ ⟨pb, hb⟩ ⟨pc, hc⟩ hab hbc
    cases hac : beMemLess a c with
    | false => rfl
    | true =>
      have h3 := (beMemLess_iff a c pa pc ha hc).mp hac
      have h1 : ¬ _ := fun h => by rw [(beMemLess_iff a b pa pb ha hb).mpr h] at hab; cases hab
      have h2 : ¬ _ := fun h => by rw [(beMemLess_iff b c pb pc hb hc).mpr h] at hbc; cases hbc
      unfold memBefore at h1 h2 h3; omega

theorem beInfo_pod (u : Int → Int → Int) (d : Int) (c : Bool) (p : Pod) (i : Info)
    (h : beInfo? u d c p = some i) : i.pod = p := by
  unfold beInfo? at h
  by_cases h1 : p.qosBE = true <;> by_cases h2 : policyAllowed p.policy = true <;> simp [h1, h2] at h
  subst h; rfl

end KoordVerif.C11
