import KoordVerif.Proofs.C01Reset2
/-
C01: ResetQuota and the lend / isParent flag change (updateQuotaInfoFromRemote + resetQuotaNoLock) from a Good state.
-/
namespace KoordVerif.C01

/-- a group that is not flagged as parent has no children (C15) -/
def LeafOK (s : State) : Prop := ∀ q ∈ s, q.isParent = false → ∀ c ∈ s, c.parent ≠ q.name
/-- no pods are cached directly in the root group -/
def RootEmpty (s : State) : Prop := ∀ r ∈ s, r.name = rootName → r.pods = []

theorem amounts_of {s : State} (hl : LocalInv s) {x : Quota} (hx : get? s x.name = some x) (hr : x.name ≠ rootName)
    (ip : Bool) (hk : ip = false → ∀ c ∈ s, c.parent ≠ x.name) :
    (if ip then x.selfRequest else x.childRequest) = podSum (fun _ => true) x.pods ∧
    (if ip then x.selfNpRequest else x.npRequest) = podSum (fun p => p.np) x.pods ∧
    (if ip then x.selfUsed else x.used) = podSum (fun p => p.assigned) x.pods ∧
    (if ip then x.selfNpUsed else x.npUsed) = podSum (fun p => p.assigned && p.np) x.pods := by
  have hr1 := hl.1 x.name x hx
  have hu1 := hl.2 x.name x hx
  cases ip with
  | true => exact ⟨hr1.selfReq, hr1.selfNpReq, hu1.selfUsed, hu1.selfNpUsed⟩
  | false =>
    have hk' := hk rfl
    have e1 := hr1.cr; have e2 := hr1.npReq; have e3 := hu1.used; have e4 := hu1.npUsed
    simp only [dCR, dNpReq, dUsed, dNpUsed, sumKids_none _ _ _ hk', crOf, hr, if_false] at e1 e2 e3 e4
    simp only [Bool.false_eq_true, if_false]
    exact ⟨by rw [← hr1.selfReq]; omega, by rw [← hr1.selfNpReq]; omega, by rw [← hu1.selfUsed]; omega,
      by rw [← hu1.selfNpUsed]; omega⟩

theorem root_self_zero {s : State} (hl : LocalInv s) {r : Quota} (hr : get? s r.name = some r) (hp : r.pods = []) :
    r.selfRequest = 0 ∧ r.selfNpRequest = 0 ∧ r.selfUsed = 0 ∧ r.selfNpUsed = 0 := by
  have h1 := hl.1 r.name r hr
  have h2 := hl.2 r.name r hr
  exact ⟨by rw [h1.selfReq, hp]; rfl, by rw [h1.selfNpReq, hp]; rfl, by rw [h2.selfUsed, hp]; rfl,
    by rw [h2.selfNpUsed, hp]; rfl⟩

theorem resetPre_of_good {s : State} (h : Good s) (hleaf : LeafOK s) (hroot : RootEmpty s) : ResetPre s := by
  have hl := good_localInv h
  refine ⟨h.topo, h.params, h.pods, ?_, ?_⟩
  · intro q hq hr
    have hx := mem_get? h.topo.tree.nodup hq
    have := amounts_of hl hx hr q.isParent (fun hip => hleaf q hq hip)
    simpa [rAddR, rAddNR, rAddU, rAddNU] using this
  · intro r hr hn
    have hx := mem_get? h.topo.tree.nodup hr
    have hp := hroot r hr hn
    exact ⟨hp, root_self_zero hl hx hp⟩

theorem resetQuota_good {s : State} (h : Good s) (hleaf : LeafOK s) (hroot : RootEmpty s) : Good (resetAll s) :=
  resetAll_good (resetPre_of_good h hleaf hroot)

theorem resetPre_of_meta {s : State} {n : Nat} {q : Quota} {mx mn : Int} {l ip : Bool} (h : Good s)
    (hq : get? s n = some q) (hleaf : LeafOK s) (hroot : RootEmpty s) (hn : n ≠ rootName) (hmx : 0 ≤ mx)
    (hkids : ip = false → ∀ c ∈ s, c.parent ≠ n) :
    ResetPre (set s { q with max := some mx, min := mn, lend := l, isParent := ip }) := by
  have hl := good_localInv h
  have hqn := get?_name hq
  have hq' : get? s ({ q with max := some mx, min := mn, lend := l, isParent := ip } : Quota).name = some q := by
    simpa [hqn] using hq
  have htree := tree_set hq' rfl
  refine ⟨topo_congr htree h.topo, ?_, ?_, ?_, ?_⟩
  · intro x hx
    rcases mem_set hx with e | e
    · subst e; exact ⟨fun m hm => by cases hm; exact hmx, (h.params q (get?_mem hq)).2⟩
    · exact h.params x e
  · intro x hx
    rcases mem_set hx with e | e
    · subst e; exact h.pods q (get?_mem hq)
    · exact h.pods x e
  · intro x hx hr
    rcases mem_set hx with e | e
    · subst e
      have := amounts_of hl (x := q) (by rw [hqn]; exact hq) (by rw [hqn]; exact hn) ip
        (fun hip => by rw [hqn]; exact hkids hip)
      simpa [rAddR, rAddNR, rAddU, rAddNU] using this
    · have hx' := mem_get? h.topo.tree.nodup e
      have := amounts_of hl hx' hr x.isParent (fun hip => hleaf x e hip)
      simpa [rAddR, rAddNR, rAddU, rAddNU] using this
  · intro r hr hrn
    rcases mem_set hr with e | e
    · subst e; exact absurd (hqn ▸ hrn) hn
    · have hx := mem_get? h.topo.tree.nodup e
      have hp := hroot r e hrn
      exact ⟨hp, root_self_zero hl hx hp⟩

/-- UpdateQuota with an unchanged parent but a changed lend / isParent flag -/
theorem updateQuota_meta_good {s : State} {sp : QSpec} {q : Quota} (h : Good s) (hq : get? s sp.name = some q)
    (hsame : q.parent = sp.parent) (hchg : ¬ (q.lend = sp.lend ∧ q.isParent = sp.isParent ∧ q.parent = sp.parent))
    (hleaf : LeafOK s) (hroot : RootEmpty s) (hn : sp.name ≠ rootName) (hmx : 0 ≤ sp.max)
    (hkids : sp.isParent = false → ∀ c ∈ s, c.parent ≠ sp.name) : Good (updateQuota s sp) := by
  unfold updateQuota
  rw [hq]
  simp only []
  rw [if_neg hchg, if_neg (fun hne => hne hsame)]
  exact resetAll_good (resetPre_of_meta h hq hleaf hroot hn hmx hkids)

end KoordVerif.C01
