import KoordVerif.Proofs.C01Rep1
/-
C01 re-parent, part 2: the re-inserted group, and the whole of updateQuotaNoLockWhenParentChange.
-/
namespace KoordVerif.C01

/-- the freshly inserted group with the old pod cache -/
def newQ (sp : QSpec) (old : Quota) : Quota :=
  { emptyQuota sp.name sp.parent sp.isParent sp.lend with pods := old.pods }

theorem gs_insert {s1 : State} {sp : QSpec} {old : Quota} (h : Good s1) (hnone : get? s1 sp.name = none)
    (htopo : Topo (newQ sp old :: s1)) (hpods : ∀ p ∈ old.pods, 0 ≤ p.req) (hnd : (old.pods.map (·.id)).Nodup) :
    GS (newQ sp old :: s1)
      (atX sp.name (podSum (fun _ => true) old.pods)) (atX sp.name (podSum (fun p => p.np) old.pods))
      (atX sp.name (sumKids Quota.limited sp.name s1)) (atX sp.name (sumKids (·.npRequest) sp.name s1))
      (fun _ => True)
      (atX sp.name (podSum (fun p => p.assigned) old.pods)) (atX sp.name (podSum (fun p => p.assigned && p.np) old.pods))
      (atX sp.name (sumKids (·.used) sp.name s1)) (atX sp.name (sumKids (·.npUsed) sp.name s1)) := by
  have g1 := gs_of_good h
  have hsum : ∀ (v : Quota → Int), v (newQ sp old) = 0 → ∀ m, sumKids v m (newQ sp old :: s1) = sumKids v m s1 := by
    intro v hv m; simp only [sumKids, hv]; split <;> omega
  have e1 := hsum Quota.limited (by simp [Quota.limited, newQ, emptyQuota, limit])
  have e2 := hsum (·.npRequest) rfl
  have e3 := hsum (·.used) rfl
  have e4 := hsum (·.npUsed) rfl
  have hget : ∀ m, get? (newQ sp old :: s1) m = if sp.name = m then some (newQ sp old) else get? s1 m := by
    intro m; rfl
  refine ⟨htopo, ?_, ?_, ?_, ?_, ?_, ?_⟩
  · intro y hy
    rcases List.mem_cons.mp hy with e | e
    · subst e; exact ⟨fun m hm => by simp [newQ, emptyQuota] at hm, hpods⟩
    · exact h.params y e
  · intro y hy
    rcases List.mem_cons.mp hy with e | e
    · subst e; exact hnd
    · exact h.pods y e
  · intro m q0 h0
    rw [hget m] at h0
    by_cases hm : sp.name = m
    · simp only [hm, if_true, Option.some.injEq] at h0
      subst h0; subst hm
      simp only [atX, if_true, dCR, dNpReq, e1, e2]
      refine ⟨by simp [newQ, emptyQuota], by simp [newQ, emptyQuota], ?_, ?_, fun _ _ => by simp [newQ, emptyQuota, lendRule]⟩
      · by_cases hx : sp.name = rootName <;> simp [crOf, newQ, emptyQuota, hx] <;> omega
      · simp [newQ, emptyQuota] <;> omega
    · simp only [hm, if_false] at h0
      have hm' : ¬ m = sp.name := fun e => hm e.symm
      obtain ⟨x1, x2, x3, x4, x5⟩ := g1.req m q0 h0
      simp only [zf, Int.add_zero] at x1 x2 x3 x4
      simp only [atX, hm', if_false, Int.add_zero, dCR, dNpReq, e1, e2]
      simp only [dCR, dNpReq] at x3 x4
      exact ⟨x1, x2, x3, x4, x5⟩
  · intro m q0 h0
    rw [hget m] at h0
    by_cases hm : sp.name = m
    · simp only [hm, if_true, Option.some.injEq] at h0
      subst h0; subst hm
      simp only [atX, if_true, dUsed, dNpUsed, e3, e4]
      exact ⟨by simp [newQ, emptyQuota], by simp [newQ, emptyQuota], by simp [newQ, emptyQuota] <;> omega, by simp [newQ, emptyQuota] <;> omega⟩
    · simp only [hm, if_false] at h0
      have hm' : ¬ m = sp.name := fun e => hm e.symm
      obtain ⟨x1, x2, x3, x4⟩ := g1.used m q0 h0
      simp only [zf, Int.add_zero] at x1 x2 x3 x4
      simp only [atX, hm', if_false, Int.add_zero, dUsed, dNpUsed, e3, e4]
      simp only [dUsed, dNpUsed] at x3 x4
      exact ⟨x1, x2, x3, x4⟩
  · intro m q0 h0
    rw [hget m] at h0
    by_cases hm : sp.name = m
    · simp only [hm, if_true, Option.some.injEq] at h0
      subst h0
      constructor <;> (try by_cases hx : sp.name = rootName) <;> simp [crOf, newQ, emptyQuota, *]
    · simp only [hm, if_false] at h0; exact g1.rnn m q0 h0
  · intro m q0 h0
    rw [hget m] at h0
    by_cases hm : sp.name = m
    · simp only [hm, if_true, Option.some.injEq] at h0
      subst h0
      constructor <;> simp [newQ, emptyQuota]
    · simp only [hm, if_false] at h0; exact g1.unn m q0 h0

/-- what a re-parent needs beyond `Good s` -/
structure RepPre (s : State) (q : Quota) (sp : QSpec) : Prop where
  root : sp.name ≠ rootName
  max : 0 ≤ sp.max
  topoErase : Topo (erase s sp.name)
  parentKnown : (get? (erase s sp.name) q.parent).isSome = true
  topoNew : Topo (emptyQuota sp.name sp.parent sp.isParent sp.lend :: erase s sp.name)
  leaf : q.isParent = false → ∀ c ∈ s, c.parent ≠ sp.name

theorem reparent_good {s : State} {q : Quota} {sp : QSpec} (h : Good s) (hq : get? s sp.name = some q)
    (hpre : RepPre s q sp) : Good (reparent s q sp) := by
  have hl := good_localInv h
  have hqn := get?_name hq
  have hqs := get?_mem hq
  obtain ⟨hcS, hndS, hhS⟩ := h.topo.paths sp.name (by simp [hq])
  obtain ⟨rest, hpathS⟩ := path_cons h.topo (n := sp.name) (by simp [hq])
  rw [hpathS] at hcS hndS
  obtain ⟨hpx, _, _⟩ := chain_parent hq hcS hndS
  obtain ⟨hcE, hndE, hhE⟩ := hpre.topoErase.paths q.parent hpre.parentKnown
  -- A: delete
  have g1 : Good (deleteQuota s sp.name) := deleteQuota_good h hq hpre.topoErase hpre.parentKnown
  have htree1 : tree (deleteQuota s sp.name) = tree (erase s sp.name) :=
    deleteQuota_map _ (fun q q' h => by simp [h.name, h.parent]) (fun q q' h => by simp [h.name, h.parent]) hq
  have hnone1 : get? (deleteQuota s sp.name) sp.name = none := by
    have := isSome_of_tree htree1 sp.name
    rw [get?_erase_self h.topo.tree.nodup] at this
    cases hg : get? (deleteQuota s sp.name) sp.name with
    | none => rfl
    | some y => simp [hg] at this
  have k1 := deleteQuota_kids Quota.limited h.topo.tree hq hpre.root hpx hcE hhE
  have k2 := deleteQuota_kids (·.npRequest) h.topo.tree hq hpre.root hpx hcE hhE
  have k3 := deleteQuota_kids (·.used) h.topo.tree hq hpre.root hpx hcE hhE
  have k4 := deleteQuota_kids (·.npUsed) h.topo.tree hq hpre.root hpx hcE hhE
  -- the old equations of x
  have hr := hl.1 sp.name q hq
  have hu := hl.2 sp.name q hq
  have o1 := hr.cr; have o2 := hr.npReq; have o3 := hu.used; have o4 := hu.npUsed
  simp only [dCR, dNpReq, dUsed, dNpUsed, crOf, hqn, hpre.root, if_false] at o1 o2 o3 o4
  have hpodsnn := (h.params q hqs).2
  have n1 := podSum_nonneg (fun _ => true) q.pods hpodsnn
  have n2 := podSum_nonneg (fun p => p.np) q.pods hpodsnn
  have n3 := podSum_nonneg (fun p => p.assigned) q.pods hpodsnn
  have n4 := podSum_nonneg (fun p => p.assigned && p.np) q.pods hpodsnn
  have hnnS := reqInv_nonneg h.topo.tree h.params hl.1
  have hnnU := usedInv_nonneg h.topo.tree h.params hl.2
  have kn1 : 0 ≤ sumKids Quota.limited sp.name s := sumKids_nonneg _ _ _ (fun c hc _ =>
    limit_nonneg (hnnS c.name c (mem_get? h.topo.tree.nodup hc)).request (h.params c hc).1)
  have kn2 : 0 ≤ sumKids (·.npRequest) sp.name s := sumKids_nonneg _ _ _ (fun c hc _ =>
    (hnnS c.name c (mem_get? h.topo.tree.nodup hc)).npRequest)
  have kn3 : 0 ≤ sumKids (·.used) sp.name s := sumKids_nonneg _ _ _ (fun c hc _ =>
    (hnnU c.name c (mem_get? h.topo.tree.nodup hc)).used)
  have kn4 : 0 ≤ sumKids (·.npUsed) sp.name s := sumKids_nonneg _ _ _ (fun c hc _ =>
    (hnnU c.name c (mem_get? h.topo.tree.nodup hc)).npUsed)
  -- B: insert
  have htopo2 : Topo (newQ sp q :: deleteQuota s sp.name) :=
    topo_congr (by simp only [tree, List.map_cons, newQ, emptyQuota] at htree1 ⊢; rw [htree1]) hpre.topoNew
  have g2 := gs_insert (sp := sp) (old := q) g1 hnone1 htopo2 hpodsnn (h.pods q hqs)
  rw [k1, k2, k3, k4] at g2
  have hx2 : get? (newQ sp q :: deleteQuota s sp.name) sp.name = some (newQ sp q) := by simp [get?, newQ, emptyQuota]
  have hk0 : ∀ (K Kn : Int) (st : State) (m : Nat), m ≠ sp.name → (get? st m).isSome →
      atX sp.name K m = 0 ∧ atX sp.name Kn m = 0 := fun K Kn st m hm _ => by simp [atX, hm]
  -- C: max
  obtain ⟨g3, t3⟩ := gs_updateMax (newMax := some sp.max) g2 hx2 (fun m hm => by cases hm; exact hpre.max) (hk0 _ _ _)
  have hx3 : (get? (doUpdateMax (newQ sp q :: deleteQuota s sp.name) sp.name (some sp.max)) sp.name).isSome := by
    rw [isSome_of_tree t3]; simp [hx2]
  obtain ⟨q3, hq3⟩ := Option.isSome_iff_exists.mp hx3
  -- D: min
  obtain ⟨g4, t4⟩ := gs_updateMin (newMin := sp.min) g3 hq3 hpre.root (hk0 _ _ _)
  have hx4 : (get? (doUpdateMin (doUpdateMax (newQ sp q :: deleteQuota s sp.name) sp.name (some sp.max)) sp.name sp.min) sp.name).isSome := by
    rw [isSome_of_tree t4]; exact hx3
  -- unfold the model
  have hmodel : reparent s q sp =
      (let s4 := doUpdateMin (doUpdateMax (newQ sp q :: deleteQuota s sp.name) sp.name (some sp.max)) sp.name sp.min
       let s5 := if q.selfRequest ≠ 0 ∨ q.selfNpRequest ≠ 0 then deltaReq s4 sp.name q.selfRequest q.selfNpRequest true else s4
       let s6 := if q.isParent ∧ (q.childRequest - q.selfRequest ≠ 0 ∨ q.npRequest - q.selfNpRequest ≠ 0)
                 then deltaReq s5 sp.name (q.childRequest - q.selfRequest) (q.npRequest - q.selfNpRequest) false else s5
       let s7 := if q.selfUsed ≠ 0 ∨ q.selfNpUsed ≠ 0 then deltaUsed s6 sp.name q.selfUsed q.selfNpUsed true else s6
       if q.isParent ∧ (q.used - q.selfUsed ≠ 0 ∨ q.npUsed - q.selfNpUsed ≠ 0)
       then deltaUsed s7 sp.name (q.used - q.selfUsed) (q.npUsed - q.selfNpUsed) false else s7) := rfl
  rw [hmodel]
  -- abbreviations
  generalize hs4 : doUpdateMin (doUpdateMax (newQ sp q :: deleteQuota s sp.name) sp.name (some sp.max)) sp.name sp.min = s4 at g4 hx4
  have hkids0 : q.isParent = false → sumKids Quota.limited sp.name s = 0 ∧ sumKids (·.npRequest) sp.name s = 0 ∧
      sumKids (·.used) sp.name s = 0 ∧ sumKids (·.npUsed) sp.name s = 0 := fun hip =>
    ⟨sumKids_none _ _ _ (hpre.leaf hip), sumKids_none _ _ _ (hpre.leaf hip), sumKids_none _ _ _ (hpre.leaf hip),
      sumKids_none _ _ _ (hpre.leaf hip)⟩
  -- E: self request
  have g5 : ∃ s5, s5 = (if q.selfRequest ≠ 0 ∨ q.selfNpRequest ≠ 0 then deltaReq s4 sp.name q.selfRequest q.selfNpRequest true else s4) ∧
      (get? s5 sp.name).isSome ∧
      GS s5 (atX sp.name 0) (atX sp.name 0) (atX sp.name (sumKids Quota.limited sp.name s)) (atX sp.name (sumKids (·.npRequest) sp.name s))
        (fun m => True ∨ m = sp.name)
        (atX sp.name (podSum (fun p => p.assigned) q.pods)) (atX sp.name (podSum (fun p => p.assigned && p.np) q.pods))
        (atX sp.name (sumKids (·.used) sp.name s)) (atX sp.name (sumKids (·.npUsed) sp.name s)) := by
    refine ⟨_, rfl, ?_⟩
    split
    · refine ⟨by rw [deltaReq_isSome]; exact hx4, ?_⟩
      have := gs_selfReq (d := q.selfRequest) (dnp := q.selfNpRequest) g4 hx4 (by rw [hr.selfReq]; exact n1) (by rw [hr.selfNpReq]; exact n2)
      rw [hr.selfReq, hr.selfNpReq] at this ⊢
      simpa using this
    · next hz =>
      have z1 : q.selfRequest = 0 := by omega
      have z2 : q.selfNpRequest = 0 := by omega
      refine ⟨hx4, ?_⟩
      rw [← hr.selfReq, ← hr.selfNpReq, z1, z2] at g4; exact g4
  obtain ⟨s5, hs5, hx5, g5⟩ := g5
  -- F: kids request
  have g6 : ∃ s6, s6 = (if q.isParent ∧ (q.childRequest - q.selfRequest ≠ 0 ∨ q.npRequest - q.selfNpRequest ≠ 0)
        then deltaReq s5 sp.name (q.childRequest - q.selfRequest) (q.npRequest - q.selfNpRequest) false else s5) ∧
      (get? s6 sp.name).isSome ∧
      GS s6 (atX sp.name 0) (atX sp.name 0) (atX sp.name 0) (atX sp.name 0) (fun m => True ∨ m = sp.name)
        (atX sp.name (podSum (fun p => p.assigned) q.pods)) (atX sp.name (podSum (fun p => p.assigned && p.np) q.pods))
        (atX sp.name (sumKids (·.used) sp.name s)) (atX sp.name (sumKids (·.npUsed) sp.name s)) := by
    refine ⟨_, rfl, ?_⟩
    split
    · refine ⟨by rw [deltaReq_isSome]; exact hx5, ?_⟩
      have := gs_kidsReq (d := q.childRequest - q.selfRequest) (dnp := q.npRequest - q.selfNpRequest) g5 hx5 (by omega) (by omega)
      have e1 : sumKids Quota.limited sp.name s - (q.childRequest - q.selfRequest) = 0 := by omega
      have e2 : sumKids (fun x => x.npRequest) sp.name s - (q.npRequest - q.selfNpRequest) = 0 := by omega
      rw [e1, e2] at this; exact this
    · next hz =>
      refine ⟨hx5, ?_⟩
      have : sumKids Quota.limited sp.name s = 0 ∧ sumKids (fun x => x.npRequest) sp.name s = 0 := by
        cases hip : q.isParent with
        | false => exact ⟨(hkids0 hip).1, (hkids0 hip).2.1⟩
        | true => simp only [hip, true_and, not_or, Decidable.not_not] at hz; constructor <;> omega
      rw [this.1, this.2] at g5; exact g5
  obtain ⟨s6, hs6, hx6, g6⟩ := g6
  -- G: self used
  have g7 : ∃ s7, s7 = (if q.selfUsed ≠ 0 ∨ q.selfNpUsed ≠ 0 then deltaUsed s6 sp.name q.selfUsed q.selfNpUsed true else s6) ∧
      (get? s7 sp.name).isSome ∧
      GS s7 (atX sp.name 0) (atX sp.name 0) (atX sp.name 0) (atX sp.name 0) (fun m => True ∨ m = sp.name)
        (atX sp.name 0) (atX sp.name 0)
        (atX sp.name (sumKids (·.used) sp.name s)) (atX sp.name (sumKids (·.npUsed) sp.name s)) := by
    refine ⟨_, rfl, ?_⟩
    split
    · refine ⟨by rw [deltaUsed_isSome]; exact hx6, ?_⟩
      have := gs_selfUsed (d := q.selfUsed) (dnp := q.selfNpUsed) g6 hx6 (by rw [hu.selfUsed]; exact n3) (by rw [hu.selfNpUsed]; exact n4)
      rw [hu.selfUsed, hu.selfNpUsed] at this ⊢
      simpa using this
    · next hz =>
      have z1 : q.selfUsed = 0 := by omega
      have z2 : q.selfNpUsed = 0 := by omega
      refine ⟨hx6, ?_⟩
      rw [← hu.selfUsed, ← hu.selfNpUsed, z1, z2] at g6; exact g6
  obtain ⟨s7, hs7, hx7, g7⟩ := g7
  -- H: kids used
  have g8 : GS (if q.isParent ∧ (q.used - q.selfUsed ≠ 0 ∨ q.npUsed - q.selfNpUsed ≠ 0)
        then deltaUsed s7 sp.name (q.used - q.selfUsed) (q.npUsed - q.selfNpUsed) false else s7)
      (atX sp.name 0) (atX sp.name 0) (atX sp.name 0) (atX sp.name 0) (fun m => True ∨ m = sp.name)
      (atX sp.name 0) (atX sp.name 0) (atX sp.name 0) (atX sp.name 0) := by
    split
    · have := gs_kidsUsed (d := q.used - q.selfUsed) (dnp := q.npUsed - q.selfNpUsed) g7 hx7 (by omega) (by omega)
      have e1 : sumKids (fun x => x.used) sp.name s - (q.used - q.selfUsed) = 0 := by omega
      have e2 : sumKids (fun x => x.npUsed) sp.name s - (q.npUsed - q.selfNpUsed) = 0 := by omega
      rw [e1, e2] at this; exact this
    · next hz =>
      have : sumKids (fun x => x.used) sp.name s = 0 ∧ sumKids (fun x => x.npUsed) sp.name s = 0 := by
        cases hip : q.isParent with
        | false => exact ⟨(hkids0 hip).2.2.1, (hkids0 hip).2.2.2⟩
        | true => simp only [hip, true_and, not_or, Decidable.not_not] at hz; constructor <;> omega
      rw [this.1, this.2] at g7; exact g7
  simp only []
  rw [← hs5, ← hs6, ← hs7]
  refine good_of_gs (R := fun m => True ∨ m = sp.name) (gs_congr g8 ?_ ?_ ?_ ?_ (fun m hm => hm) ?_ ?_ ?_ ?_) (fun m => Or.inl trivial)
    <;> intro m <;> simp [zf, atX]

end KoordVerif.C01
