/-
C08 — small-step model of the goroutines that share one entry of podAssignCache.items.

pkg/scheduler/plugins/loadaware/pod_assign_cache.go
  add-type entry points    assign (-> nodeInfo.AddOrUpdatePod), AddOrUpdateNodeMetric (-> nodeInfo.AddOrUpdateNodeMetric):
      for i := 0; i < bound; i++ {                       -- bound = 2 in the source
        n, created := getOrCreateNodeInfo(name)           -- ONE atomic sync.Map.LoadOrStore; a created nodeInfo is stored locked
        if n.deleted { if created { Unlock }; fail }      -- `fastCheck`: read WITHOUT the lock
        if !created { n.Lock() }
        if n.deleted { Unlock; fail }                     -- `recheck`: read under the lock
        <insert the pod / the report>; Unlock; return
      }                                                   -- all attempts failed: the event is dropped (klog.ErrorS)
  delete-type entry points DeleteNodeMetric, unAssign (-> nodeInfo.DeletePod):
      n := Load(name); if absent return
      if n.deleted return                                  -- read without the lock
      n.Lock(); if n.deleted { Unlock; return }
      <remove the report / the pod>
      tryCleanup: if nodeMetric == nil && len(podInfos) == 0 {
          items.CompareAndDelete(name, n)                  -- source order since repair b9ed11f;
          n.deleted = true                                 -- `flagFirst` = the opposite order (before the repair)
      }
      Unlock

Granularity: one step = one access to memory that another goroutine can observe without holding the
nodeInfo lock (the sync.Map entry, the `deleted` flag) or one lock-protected section up to the next
such access.  `atomicCleanup = true` is the coarser reading "a critical section is indivisible" that the
design comment in the source argues with.

The pod set of a nodeInfo is abstracted to two bits (`hasU`: the pod of the assign goroutine is in
podInfos, `others`: some other pod is) — the code reads it only through `len(podInfos) == 0`.
-/
namespace KoordVerif.C08.Conc

/-- one nodeInfo object on the heap -/
structure NI where
  deleted : Bool
  metric : Bool
  others : Bool
  hasU : Bool
  locked : Bool
deriving DecidableEq, Repr

/-- the shape of the protocol, read off the source by the facts extractor (Ties/C08.lean) -/
structure Shape where
  bound : Nat
  fastCheck : Bool
  recheck : Bool
  flagFirst : Bool
  atomicCleanup : Bool
deriving DecidableEq, Repr

inductive Op where
  | assign      -- podAssignCache.assign of pod U
  | setMetric   -- AddOrUpdateNodeMetric
  | delMetric   -- DeleteNodeMetric
  | delOther    -- unAssign of the other pod
  | delU        -- unAssign of pod U
deriving DecidableEq, Repr

def Op.isAdd : Op → Bool
  | .assign => true
  | .setMetric => true
  | _ => false

inductive PC where
  | done
  | addLoad (op : Op) (i : Nat)                               -- about to LoadOrStore, attempt i
  | addFast (op : Op) (i : Nat) (n : Nat) (created : Bool)    -- about to read n.deleted without the lock
  | addLock (op : Op) (i : Nat) (n : Nat) (created : Bool)    -- about to Lock and run the section
  | delLoad (op : Op)
  | delFast (op : Op) (n : Nat)
  | delLock (op : Op) (n : Nat)
  | delSecond (n : Nat)       -- holding the lock, the first statement of tryCleanup done, the second pending
  | delUnlock (n : Nat)
deriving DecidableEq, Repr

structure Thread where
  pc : PC
  todo : List Op
  dropped : Nat       -- add-type events this goroutine gave up on
deriving DecidableEq, Repr

structure St where
  objs : List NI
  item : Option Nat
  ts : List Thread
deriving DecidableEq, Repr

def freshNI : NI := { deleted := false, metric := false, others := false, hasU := false, locked := true }

def startPC (op : Op) : PC := if op.isAdd then .addLoad op 0 else .delLoad op

/-- the goroutine returns from the current entry point and enters the next one -/
def Thread.next (t : Thread) (dropped : Bool) : Thread :=
  let d := if dropped then t.dropped + 1 else t.dropped
  match t.todo with
  | [] => { pc := .done, todo := [], dropped := d }
  | op :: rest => { pc := startPC op, todo := rest, dropped := d }

/-- an attempt of an add-type entry point failed -/
def Thread.retry (sh : Shape) (t : Thread) (op : Op) (i : Nat) : Thread :=
  if i + 1 < sh.bound then { t with pc := .addLoad op (i + 1) } else t.next true

def setObj (objs : List NI) (n : Nat) (f : NI → NI) : List NI :=
  match objs[n]? with
  | some o => objs.set n (f o)
  | none => objs

def getObj (objs : List NI) (n : Nat) : NI := (objs[n]?).getD freshNI

def Op.apply (op : Op) (o : NI) : NI :=
  match op with
  | .assign => { o with hasU := true }
  | .setMetric => { o with metric := true }
  | .delMetric => { o with metric := false }
  | .delOther => { o with others := false }
  | .delU => { o with hasU := false }

def NI.empty (o : NI) : Bool := !o.metric && !o.others && !o.hasU

/-- goroutine `k` takes one step; `none` = it has returned from everything or waits for a lock -/
def stepThread (sh : Shape) (s : St) (k : Nat) : Option St :=
  match s.ts[k]? with
  | none => none
  | some t =>
    let put (objs : List NI) (item : Option Nat) (t' : Thread) : Option St :=
      some { objs := objs, item := item, ts := s.ts.set k t' }
    match t.pc with
    | .done => none
    | .addLoad op i =>
      (match s.item with
       | some n => put s.objs s.item { t with pc := if sh.fastCheck then .addFast op i n false else .addLock op i n false }
       | none =>
         let n := s.objs.length
         put (s.objs ++ [freshNI]) (some n) { t with pc := if sh.fastCheck then .addFast op i n true else .addLock op i n true })
    | .addFast op i n created =>
      if (getObj s.objs n).deleted then
        put (if created then setObj s.objs n (fun o => { o with locked := false }) else s.objs) s.item (t.retry sh op i)
      else put s.objs s.item { t with pc := .addLock op i n created }
    | .addLock op i n created =>
      let o := getObj s.objs n
      if !created && o.locked then none else
      if sh.recheck && o.deleted then
        put (setObj s.objs n (fun o => { o with locked := false })) s.item (t.retry sh op i)
      else
        put (setObj s.objs n (fun o => { op.apply o with locked := false })) s.item (t.next false)
    | .delLoad op =>
      (match s.item with
       | none => put s.objs s.item (t.next false)
       | some n => put s.objs s.item { t with pc := .delFast op n })
    | .delFast op n =>
      if (getObj s.objs n).deleted then put s.objs s.item (t.next false)
      else put s.objs s.item { t with pc := .delLock op n }
    | .delLock op n =>
      let o := getObj s.objs n
      if o.locked then none else
      if o.deleted then put s.objs s.item (t.next false) else
      let o1 := op.apply o
      if !o1.empty then put (setObj s.objs n (fun _ => o1)) s.item (t.next false) else
      if sh.atomicCleanup then
        put (setObj s.objs n (fun _ => { o1 with deleted := true }))
          (if s.item == some n then none else s.item) (t.next false)
      else if sh.flagFirst then
        put (setObj s.objs n (fun _ => { o1 with deleted := true, locked := true })) s.item { t with pc := .delSecond n }
      else
        put (setObj s.objs n (fun _ => { o1 with locked := true }))
          (if s.item == some n then none else s.item) { t with pc := .delSecond n }
    | .delSecond n =>
      if sh.flagFirst then
        put s.objs (if s.item == some n then none else s.item) { t with pc := .delUnlock n }
      else
        put (setObj s.objs n (fun o => { o with deleted := true })) s.item { t with pc := .delUnlock n }
    | .delUnlock n =>
      put (setObj s.objs n (fun o => { o with locked := false })) s.item (t.next false)

/-- all successors of a state (one per goroutine that can move) -/
def succs (sh : Shape) (s : St) : List St :=
  (List.range s.ts.length).filterMap (stepThread sh s)

/-- every interleaving: the reflexive-transitive closure of "some goroutine takes a step" -/
inductive Reach (sh : Shape) (s0 : St) : St → Prop where
  | refl : Reach sh s0 s0
  | step {s s' : St} : Reach sh s0 s → s' ∈ succs sh s → Reach sh s0 s'

/-- a schedule (which goroutine moves next); a goroutine that cannot move is skipped -/
def runSched (sh : Shape) (s : St) : List Nat → St
  | [] => s
  | k :: ks => runSched sh ((stepThread sh s k).getD s) ks

theorem reach_runSched (sh : Shape) (s0 s : St) (h : Reach sh s0 s) (ks : List Nat) :
    Reach sh s0 (runSched sh s ks) := by
  induction ks generalizing s with
  | nil => exact h
  | cons k ks ih =>
    simp only [runSched]
    cases hs : stepThread sh s k with
    | none => simpa using ih s h
    | some s' =>
      apply ih
      refine Reach.step h ?_
      unfold succs
      simp only [List.mem_filterMap, List.mem_range]
      refine ⟨k, ?_, hs⟩
      unfold stepThread at hs
      cases hk : s.ts[k]? with
      | none => simp [hk] at hs
      | some t =>
        have := List.getElem?_eq_some_iff.mp hk
        exact this.1

def St.quiescent (s : St) : Bool := s.ts.all (fun t => t.pc == .done)

/-- what the cache says about the node at the end: (report in force, other pod assigned, pod U assigned) -/
def St.view (s : St) : Bool × Bool × Bool :=
  match s.item with
  | none => (false, false, false)
  | some n => let o := getObj s.objs n; (o.metric, o.others, o.hasU)

/-- the sequential meaning of the entry points on the view -/
def Op.seq (v : Bool × Bool × Bool) : Op → Bool × Bool × Bool
  | .assign => (v.1, v.2.1, true)
  | .setMetric => (true, v.2.1, v.2.2)
  | .delMetric => (false, v.2.1, v.2.2)
  | .delOther => (v.1, false, v.2.2)
  | .delU => (v.1, v.2.1, false)

/-- all results of running two goroutines' entry points one at a time in some order that respects each
goroutine's own order -/
def seqResults : Nat → Bool × Bool × Bool → List Op → List Op → List (Bool × Bool × Bool)
  | 0, v, _, _ => [v]
  | _ + 1, v, [], [] => [v]
  | f + 1, v, a :: as, [] => seqResults f (a.seq v) as []
  | f + 1, v, [], b :: bs => seqResults f (b.seq v) [] bs
  | f + 1, v, a :: as, b :: bs => seqResults f (a.seq v) as (b :: bs) ++ seqResults f (b.seq v) (a :: as) bs

/-- the start: the entry of the map (absent, or one unlocked live nodeInfo) and two goroutines -/
def start (init : Option (Bool × Bool × Bool)) (pa pb : List Op) : St :=
  let th (p : List Op) : Thread := ({ pc := .done, todo := p, dropped := 0 } : Thread).next false
  match init with
  | none => { objs := [], item := none, ts := [th pa, th pb] }
  | some (m, o, u) =>
    { objs := [{ deleted := false, metric := m, others := o, hasU := u, locked := false }], item := some 0, ts := [th pa, th pb] }

/-- the nodeInfo states an entry of the map can be in between events: absent, or live and not empty
(an empty one has been cleaned up) -/
def inits : List (Option (Bool × Bool × Bool)) :=
  [none, some (true, false, false), some (false, true, false), some (false, false, true), some (true, true, false),
   some (true, false, true), some (false, true, true), some (true, true, true)]

/-! ### exhaustive exploration, checked by the kernel -/

def insertAll (acc : List St) : List St → List St × List St
  | [] => (acc, [])
  | s :: ss =>
    if acc.contains s then insertAll acc ss
    else
      let r := insertAll (s :: acc) ss
      (r.1, s :: r.2)

/-- breadth-first closure with fuel: (visited, frontier) -/
def explore (sh : Shape) : Nat → List St → List St → List St
  | 0, acc, _ => acc
  | _ + 1, acc, [] => acc
  | f + 1, acc, front =>
    let r := insertAll acc (front.flatMap (succs sh))
    explore sh f r.1 r.2

def closedB (sh : Shape) (R : List St) : Bool :=
  R.all (fun s => (succs sh s).all (fun s' => R.contains s'))

theorem reach_mem (sh : Shape) (R : List St) (s0 : St) (h0 : s0 ∈ R) (hc : closedB sh R = true) :
    ∀ s, Reach sh s0 s → s ∈ R := by
  intro s hr
  induction hr with
  | refl => exact h0
  | step _ hs ih =>
    simp only [closedB, List.all_eq_true] at hc
    have := hc _ ih _ hs
    simpa using this

/-- the reachable set of one scenario -/
def reachSet (sh : Shape) (s0 : St) : List St := explore sh 64 [s0] [s0]

/-- linearizable at quiescence: the final view is the result of SOME sequential order of the events, and
no event was dropped -/
def okFinal (v0 : Bool × Bool × Bool) (pa pb : List Op) (s : St) : Bool :=
  !s.quiescent || ((seqResults (pa.length + pb.length) v0 pa pb).contains s.view && s.ts.all (fun t => t.dropped == 0))

def viewOf (init : Option (Bool × Bool × Bool)) : Bool × Bool × Bool := init.getD (false, false, false)

/-- the scenario check: the explored set contains the start, is closed under steps, and every quiescent
state in it is a linearization without dropped events -/
def scenarioOK (sh : Shape) (init : Option (Bool × Bool × Bool)) (pa pb : List Op) : Bool :=
  let s0 := start init pa pb
  let R := reachSet sh s0
  R.contains s0 && closedB sh R && R.all (okFinal (viewOf init) pa pb)

theorem scenario_sound (sh : Shape) (init : Option (Bool × Bool × Bool)) (pa pb : List Op)
    (h : scenarioOK sh init pa pb = true) (s : St) (hr : Reach sh (start init pa pb) s) (hq : s.quiescent = true) :
    s.view ∈ seqResults (pa.length + pb.length) (viewOf init) pa pb ∧ ∀ t ∈ s.ts, t.dropped = 0 := by
  simp only [scenarioOK, Bool.and_eq_true] at h
  obtain ⟨⟨h0, hc⟩, hall⟩ := h
  have hmem := reach_mem sh _ _ (by simpa using h0) hc s hr
  have := (List.all_eq_true.mp hall) s hmem
  simp only [okFinal, hq, Bool.not_true, Bool.false_or, Bool.and_eq_true, List.all_eq_true] at this
  refine ⟨by simpa using this.1, ?_⟩
  intro t ht
  simpa using this.2 t ht

/-! ### the shapes -/

/-- the source as written (after repair b9ed11f: CompareAndDelete first, then `deleted = true`), every
observable access its own step -/
def asWritten : Shape := { bound := 2, fastCheck := true, recheck := true, flagFirst := false, atomicCleanup := false }

/-- the order before the repair: `n.deleted = true` first, then CompareAndDelete -/
def preRepair : Shape := { asWritten with flagFirst := true }

/-- the pre-repair order read at critical-section granularity (the reading of the design comment in the source) -/
def preRepairSections : Shape := { preRepair with atomicCleanup := true }

/-- a single attempt instead of the retry loop -/
def noRetry : Shape := { asWritten with bound := 1 }

/-- the flag is read before Lock only, not again under the lock -/
def noRecheck : Shape := { asWritten with recheck := false }

/-- the single-cleanup races: one add-type event against one delete-type event that can empty the nodeInfo -/
def races : List (List Op × List Op) :=
  [([.assign], [.delMetric]), ([.assign], [.delOther]), ([.setMetric], [.delOther]), ([.setMetric], [.delU]),
   ([.assign], [.delU]), ([.setMetric], [.delMetric]), ([.assign], [.setMetric])]

def allOK (sh : Shape) : Bool :=
  inits.all fun init => races.all fun r => scenarioOK sh init r.1 r.2

end KoordVerif.C08.Conc
