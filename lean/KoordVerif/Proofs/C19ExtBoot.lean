import KoordVerif.Model.C19Boot
import KoordVerif.Model.C19Dev
import KoordVerif.Proofs.C19Dev
/-
Proofs for Model/C19Boot.lean (C19 extension 2): the reserve-pod merge reads the object's own value for
every key, and the handlers-sync barrier covers the whole rebuild when every state-rebuilding registration
is collected.
-/
namespace KoordVerif.C19.Boot

/-! ### 1. merge -/

theorem getK_filter_ne (m : AMap) (k k' : Nat) (h : k' ≠ k) :
    getK (m.filter (fun e => e.1 ≠ k)) k' = getK m k' := by
  induction m with
  | nil => rfl
  | cons x xs ih =>
    obtain ⟨a, b⟩ := x
    by_cases hx : a = k
    · have hak : a ≠ k' := fun e => h (e ▸ hx)
      have e1 : List.filter (fun e : Nat × Nat => decide (e.1 ≠ k)) ((a, b) :: xs)
          = List.filter (fun e : Nat × Nat => decide (e.1 ≠ k)) xs := by
        rw [List.filter_cons]; simp [hx]
      rw [e1, ih]
      simp [getK, hak]
    · have e1 : List.filter (fun e : Nat × Nat => decide (e.1 ≠ k)) ((a, b) :: xs)
          = (a, b) :: List.filter (fun e : Nat × Nat => decide (e.1 ≠ k)) xs := by
        rw [List.filter_cons]; simp [hx]
      rw [e1]
      simp only [getK, ih]

theorem getK_setKV_same (m : AMap) (k v : Nat) : getK (setKV m k v) k = some v := by
  simp [setKV, getK]

theorem getK_setKV_ne (m : AMap) (k v k' : Nat) (h : k' ≠ k) : getK (setKV m k v) k' = getK m k' := by
  have hk : k ≠ k' := fun e => h e.symm
  have := getK_filter_ne m k k' h
  unfold setKV
  simp only [getK, hk, if_false]
  exact this

theorem getK_overwrite_notin (src : AMap) : ∀ (dst : AMap) (k : Nat), k ∉ src.map (·.1) →
    getK (overwrite dst src) k = getK dst k := by
  induction src with
  | nil => intro dst k _; rfl
  | cons e t ih =>
    intro dst k hk
    simp only [List.map_cons, List.mem_cons, not_or] at hk
    have : overwrite dst (e :: t) = overwrite (setKV dst e.1 e.2) t := rfl
    rw [this, ih _ _ hk.2, getK_setKV_ne _ _ _ _ hk.1]

theorem getK_overwrite_mem (src : AMap) : ∀ (dst : AMap) (k v : Nat), (src.map (·.1)).Nodup → (k, v) ∈ src →
    getK (overwrite dst src) k = some v := by
  induction src with
  | nil => intro _ _ _ _ h; cases h
  | cons e t ih =>
    intro dst k v hn hm
    have hov : overwrite dst (e :: t) = overwrite (setKV dst e.1 e.2) t := rfl
    simp only [List.map_cons, List.nodup_cons] at hn
    rw [hov]
    rcases List.mem_cons.mp hm with he | ht
    · subst he
      rw [getK_overwrite_notin _ _ _ hn.1, getK_setKV_same]
    · exact ih _ _ _ hn.2 ht

theorem getK_none_of_notin (m : AMap) (k : Nat) (h : k ∉ m.map (·.1)) : getK m k = none := by
  induction m with
  | nil => rfl
  | cons x xs ih =>
    obtain ⟨a, b⟩ := x
    simp only [List.map_cons, List.mem_cons, not_or] at h
    have : a ≠ k := fun e => h.1 e.symm
    simp [getK, this, ih h.2]

/-- every key outside the four the adapter writes itself keeps, through the tail of NewReservePod, the value
    it has after the merge loop -/
theorem reservePodAnnots_nonfixed (i : RIn) (k : Nat) (hk : k ∉ fixedKeys) :
    getK (reservePodAnnots i) k = getK (overwrite (overwrite [] i.tmpl) i.own) k := by
  simp only [fixedKeys, List.mem_cons, List.not_mem_nil, or_false, not_or] at hk
  obtain ⟨h1, h2, h3, h4⟩ := hk
  unfold reservePodAnnots
  simp only []
  split <;> split <;>
    simp [getK_setKV_ne, h1, h2, h3, h4]

theorem reserve_pod_reads_own (i : RIn) (k v : Nat) (hn : (i.own.map (·.1)).Nodup) (hk : k ∉ fixedKeys)
    (h : (k, v) ∈ i.own) : getK (reservePodAnnots i) k = some v := by
  rw [reservePodAnnots_nonfixed i k hk]
  exact getK_overwrite_mem _ _ _ _ hn h

theorem reserve_pod_template_fallback (i : RIn) (k v : Nat) (hn : (i.tmpl.map (·.1)).Nodup) (hk : k ∉ fixedKeys)
    (ho : k ∉ i.own.map (·.1)) (h : (k, v) ∈ i.tmpl) : getK (reservePodAnnots i) k = some v := by
  rw [reservePodAnnots_nonfixed i k hk, getK_overwrite_notin _ _ _ ho]
  exact getK_overwrite_mem _ _ _ _ hn h

theorem reserve_pod_absent (i : RIn) (k : Nat) (hk : k ∉ fixedKeys)
    (ho : k ∉ i.own.map (·.1)) (ht : k ∉ i.tmpl.map (·.1)) : getK (reservePodAnnots i) k = none := by
  rw [reservePodAnnots_nonfixed i k hk, getK_overwrite_notin _ _ _ ho, getK_overwrite_notin _ _ _ ht]
  rfl

/-! ### 2. start-up -/

theorem flatten_set_perm {ε : Type} : ∀ (qs : List (List ε)) (i : Nat) (e : ε) (q : List ε),
    qs.getD i [] = e :: q → (qs.flatten).Perm (e :: (qs.set i q).flatten) := by
  intro qs
  induction qs with
  | nil => intro i e q h; simp at h
  | cons x xs ih =>
    intro i e q h
    cases i with
    | zero =>
      simp only [List.getD_cons_zero] at h
      subst h
      simp [List.set_cons_zero]
    | succ j =>
      simp only [List.getD_cons_succ] at h
      have := ih j e q h
      simp only [List.set_cons_succ, List.flatten_cons]
      exact (List.Perm.append_left x this).trans (List.perm_middle)

/-- delivered ++ still queued is a permutation of the initial lists, whatever the schedule -/
def PInv {ε : Type} (init : List (List ε)) (c : Cfg ε) : Prop :=
  (c.log.map (·.2) ++ c.queues.flatten).Perm init.flatten ∧ c.queues.length = init.length

theorem step_inv {ε : Type} (regs : List RegInfo) (init : List (List ε)) (c : Cfg ε) (a : Act)
    (h : PInv init c) : PInv init (step regs c a) := by
  cases a with
  | openGate => exact h
  | deliver i =>
    cases hq : c.queues.getD i [] with
    | nil =>
      have : step regs c (.deliver i) = c := by simp only [step, hq]
      rw [this]; exact h
    | cons e q =>
      cases hg : ((infoAt regs i).gated && !c.gateOpen) with
      | true =>
        have : step regs c (.deliver i) = c := by simp only [step, hq, hg, if_true]
        rw [this]; exact h
      | false =>
        have : step regs c (.deliver i) = { c with queues := c.queues.set i q, log := c.log ++ [(i, e)] } := by
          simp only [step, hq, hg, Bool.false_eq_true, if_false]
        rw [this]
        refine ⟨?_, by simpa using h.2⟩
        have hp := flatten_set_perm c.queues i e q hq
        simp only [List.map_append, List.map_cons, List.map_nil, List.append_assoc, List.singleton_append]
        exact (List.Perm.append_left _ hp.symm).trans h.1

theorem run_inv {ε : Type} (regs : List RegInfo) (init : List (List ε)) (sched : List Act) :
    ∀ (c : Cfg ε), PInv init c → PInv init (run regs c sched) := by
  induction sched with
  | nil => intro c h; exact h
  | cons a t ih => intro c h; exact ih _ (step_inv regs init c a h)

theorem init_inv {ε : Type} (init : List (List ε)) : PInv init ({ queues := init } : Cfg ε) := by
  constructor
  · simp
  · rfl

theorem barrierOpenAux_all {ε : Type} : ∀ (regs : List RegInfo) (qs : List (List ε)),
    regs.length = qs.length → (∀ r ∈ regs, r.inBarrier = true) → barrierOpenAux regs qs = true →
    qs.flatten = [] := by
  intro regs
  induction regs with
  | nil => intro qs hl _ _; cases qs with
    | nil => rfl
    | cons _ _ => simp at hl
  | cons r rs ih =>
    intro qs hl hall hb
    cases qs with
    | nil => simp at hl
    | cons q qt =>
      simp only [barrierOpenAux, Bool.and_eq_true, Bool.or_eq_true, Bool.not_eq_true'] at hb
      have hr : r.inBarrier = true := hall r (List.mem_cons_self ..)
      have hq : q = [] := by
        rcases hb.1 with h | h
        · rw [hr] at h; cases h
        · exact List.isEmpty_iff.mp h
      have := ih qt (by simpa using hl) (fun x hx => hall x (List.mem_cons_of_mem _ hx)) hb.2
      simp [hq, this]

/-- S ⊇ R: when the barrier opens, every event of every initial list has been delivered -/
theorem barrier_covers (regs : List RegInfo) {ε : Type} (init : List (List ε)) (sched : List Act)
    (hl : regs.length = init.length) (hall : ∀ r ∈ regs, r.inBarrier = true)
    (hopen : barrierOpen regs (run regs ({ queues := init } : Cfg ε) sched) = true) :
    ((run regs ({ queues := init } : Cfg ε) sched).log.map (·.2)).Perm init.flatten := by
  have hi := run_inv regs init sched _ (init_inv init)
  have he := barrierOpenAux_all regs _ (by rw [hi.2]; exact hl) hall hopen
  have := hi.1
  rw [he, List.append_nil] at this
  exact this

theorem run_append {ε : Type} (regs : List RegInfo) (c : Cfg ε) (s1 s2 : List Act) :
    run regs (run regs c s1) s2 = run regs c (s1 ++ s2) := by
  simp [run, List.foldl_append]

/-- the order the harness drives (model function `bootSeen`) is one of the schedules: if it reports that the
    barrier opened, the events seen by the first cycle are all the initial events -/
theorem bootSeen_complete (regs : List RegInfo) {ε : Type} (init : List (List ε))
    (hl : regs.length = init.length) (hall : ∀ r ∈ regs, r.inBarrier = true)
    (hopened : (bootSeen regs init).2.1 = true) : (bootSeen regs init).2.2.Perm init.flatten := by
  unfold bootSeen at *
  simp only [] at *
  split at hopened
  · rename_i hb
    simp only [hb, if_true]
    unfold drainAll at hb ⊢
    exact barrier_covers regs init _ hl hall hb
  · rename_i hb
    simp only [hb] at hopened ⊢
    simp only [Bool.false_eq_true, if_false] at hopened ⊢
    unfold drainAll at hopened ⊢
    have e1 : ∀ (c : Cfg ε), step regs c .openGate = run regs c [.openGate] := fun _ => rfl
    simp only [e1, run_append] at hopened ⊢
    exact barrier_covers regs init _ hl hall hopened

/-! ### deviceshare instance: the ledger at the first cycle -/

open KoordVerif.C19 in
theorem dev_boot_complete (regs : List RegInfo) (total : Dev.Tab) (init : List (List Dev.Group)) (sched : List Act)
    (hl : regs.length = init.length) (hall : ∀ r ∈ regs, r.inBarrier = true)
    (hnd : (init.flatten.map Dev.Group.key).Nodup) (hnn : ∀ g ∈ init.flatten, g.Nonneg)
    (hopen : barrierOpen regs (run regs ({ queues := init } : Cfg Dev.Group) sched) = true) :
    let seen := (run regs ({ queues := init } : Cfg Dev.Group) sched).log.map (·.2)
    (∀ k, Dev.usedAt (Dev.build total seen) k = Dev.usedAt (Dev.build total init.flatten) k) ∧
    (∀ k, Dev.freeAt (Dev.build total seen) k = Dev.freeAt (Dev.build total init.flatten) k) ∧
    (∀ key, Dev.recorded (Dev.build total seen).aset key = Dev.recorded (Dev.build total init.flatten).aset key) := by
  intro seen
  have hp : seen.Perm init.flatten := barrier_covers regs init sched hl hall hopen
  have hp' := hp.symm
  have := Dev.build_perm total hp' hnd hnn
  exact ⟨fun k => (this.1 k).symm, fun k => (this.2.1 k).symm, fun key => (this.2.2 key).symm⟩

end KoordVerif.C19.Boot
