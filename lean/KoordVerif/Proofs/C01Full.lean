import KoordVerif.Proofs.C01Rep2
/-
C01: preconditions for EVERY operation kind, one step, and the induction over histories.
-/
namespace KoordVerif.C01

def SameMeta (q : Quota) (sp : QSpec) : Prop := q.lend = sp.lend ∧ q.isParent = sp.isParent ∧ q.parent = sp.parent

/-- Precondition of one operation in state `s`:
amounts >= 0; the quota object is not the root; topology of the new / intermediate trees admissible (acyclic, no
orphans on the touched paths: what the webhook of C15 guarantees); groups not flagged `isParent` have no children;
no pods cached directly in the root; the touched group declares the dimension; pod events informer-consistent;
MigratePod moves a cached pod into a group that does not hold it. -/
def PreF (s : State) : Op → Prop
  | .quota sp =>
    0 ≤ sp.max ∧ sp.name ≠ rootName ∧
    (match get? s sp.name with
     | none => (∀ c ∈ s, c.parent ≠ sp.name) ∧ Topo (emptyQuota sp.name sp.parent sp.isParent sp.lend :: s)
     | some q =>
       SameMeta q sp ∨ (q.parent ≠ sp.parent ∧ RepPre s q sp) ∨
       (q.parent = sp.parent ∧ ¬ SameMeta q sp ∧ LeafOK s ∧ RootEmpty s ∧
         (sp.isParent = false → ∀ c ∈ s, c.parent ≠ sp.name)))
  | .delQuota n => ∀ q, get? s n = some q → Topo (erase s n) ∧ (get? (erase s n) q.parent).isSome = true
  | .reset => LeafOK s ∧ RootEmpty s
  | .podAdd n p => PodPre s n p
  | .podUpdate a b np op => UpdPre s a b np op
  | .podDelete n p => PodPre s n p
  | .reserve n p => PodPre s n p
  | .unreserve n p => PodPre s n p
  | .migrate p a b => MigPre s p a b

theorem step_good_full {s : State} {op : Op} (h : Good s) (hpre : PreF s op) : Good (step s op) := by
  cases op with
  | quota sp =>
    obtain ⟨hmax, hroot, hrest⟩ := hpre
    simp only [step]
    cases hq : get? s sp.name with
    | none =>
      rw [hq] at hrest
      have : updateQuota s sp = createQuota s sp := by simp [updateQuota, hq]
      rw [this]
      exact createQuota_good h hmax hroot hq hrest.1 hrest.2
    | some q =>
      rw [hq] at hrest
      rcases hrest with hsame | ⟨hne, hrep⟩ | ⟨hpar, hns, hleaf, hre, hkids⟩
      · exact updateQuota_same_good h hq hsame hmax hroot
      · have : updateQuota s sp = reparent s q sp := by
          unfold updateQuota
          rw [hq]
          simp only []
          rw [if_neg (fun hs => hne hs.2.2), if_pos hne]
        rw [this]
        exact reparent_good h hq hrep
      · exact updateQuota_meta_good h hq hpar hns hleaf hre hroot hmax hkids
  | delQuota n =>
    simp only [step]
    cases hq : get? s n with
    | none => simpa [deleteQuota, hq] using h
    | some q =>
      obtain ⟨ht, hp⟩ := hpre q hq
      exact deleteQuota_good h hq ht hp
  | reset => exact resetQuota_good h hpre.1 hpre.2
  | podAdd n p => exact onPodAdd_good h hpre
  | podUpdate a b np op => exact onPodUpdate_good h hpre
  | podDelete n p => exact onPodDelete_good h hpre
  | reserve n p => exact reservePod_good h hpre.nonneg hpre.quota
  | unreserve n p => exact unreservePod_good h hpre.nonneg hpre.quota
  | migrate p a b => exact migratePod_good h hpre

/-- every operation of the history meets its precondition in the state it is applied to -/
def PreAllF : State → List Op → Prop
  | _, [] => True
  | s, op :: t => PreF s op ∧ PreAllF (step s op) t

theorem run_good_full : ∀ (ops : List Op) (s : State), Good s → PreAllF s ops → Good (run s ops)
  | [], _, h, _ => h
  | op :: t, s, h, hp => by
    simp only [run, List.foldl_cons]
    exact run_good_full t (step s op) (step_good_full h hp.1) hp.2

end KoordVerif.C01
