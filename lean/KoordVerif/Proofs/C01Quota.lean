import KoordVerif.Proofs.C01Migrate
/-
C01: min / max update, quota creation, deletion (Good-level).
-/
namespace KoordVerif.C01

/-- rewrite max / min / request of one group (nothing else): the used side is untouched and the request side
is off by the change of the limited request at the parent. -/
theorem setQ_effect {s : State} {n : Nat} {q q' : Quota} (h : Good s) (hq : get? s n = some q)
    (hname : q'.name = q.name) (hparent : q'.parent = q.parent) (hpods : q'.pods = q.pods)
    (hsr : q'.selfRequest = q.selfRequest) (hsnr : q'.selfNpRequest = q.selfNpRequest)
    (hnr : q'.npRequest = q.npRequest) (hcr : crOf q' = crOf q)
    (hu : q'.used = q.used) (hnu : q'.npUsed = q.npUsed) (hsu : q'.selfUsed = q.selfUsed) (hsnu : q'.selfNpUsed = q.selfNpUsed)
    (hrule : n ≠ rootName → q'.request = lendRule q' q'.childRequest)
    (hmax : ∀ m, q'.max = some m → 0 ≤ m) (hpn : q.parent ≠ n) :
    Topo (set s q') ∧ ParamsOK (set s q') ∧ PodsOK (set s q') ∧ UsedInv (set s q') ∧
    ReqOff (set s q') q.parent (q'.limited - q.limited) 0 ∧ tree (set s q') = tree s := by
  have hqn := get?_name hq
  have hq' : get? s q'.name = some q := by rw [hname, hqn]; exact hq
  have hget := get?_set hq'
  rw [hname, hqn] at hget
  have htree : tree (set s q') = tree s := tree_set hq' hparent
  have hl := good_localInv h
  have e1 := fun m => sumKids_set Quota.limited m hq' hparent
  have e2 : ∀ m, sumKids (·.npRequest) m (set s q') = sumKids (·.npRequest) m s := fun m =>
    sumKids_eq_of_map _ m s _ (set_map _ hq' (by simp [hparent, hnr]))
  have e3 : ∀ m, sumKids (·.used) m (set s q') = sumKids (·.used) m s := fun m =>
    sumKids_eq_of_map _ m s _ (set_map _ hq' (by simp [hparent, hu]))
  have e4 : ∀ m, sumKids (·.npUsed) m (set s q') = sumKids (·.npUsed) m s := fun m =>
    sumKids_eq_of_map _ m s _ (set_map _ hq' (by simp [hparent, hnu]))
  refine ⟨topo_congr htree h.topo, ?_, ?_, ?_, ?_, htree⟩
  · intro x hx
    rcases mem_set hx with e | e
    · subst e; exact ⟨hmax, by rw [hpods]; exact (h.params q (get?_mem hq)).2⟩
    · exact h.params x e
  · intro x hx
    rcases mem_set hx with e | e
    · subst e; rw [hpods]; exact h.pods q (get?_mem hq)
    · exact h.pods x e
  · intro m q0 h0
    rw [hget m] at h0
    by_cases hm : m = n
    · simp only [hm, if_true, Option.some.injEq] at h0
      subst h0; subst hm
      have hi := hl.2 m q hq
      refine ⟨by rw [hsu, hpods]; exact hi.selfUsed, by rw [hsnu, hpods]; exact hi.selfNpUsed, ?_, ?_⟩
      · have := hi.used; simp only [dUsed, e3, hu, hsu] at this ⊢; exact this
      · have := hi.npUsed; simp only [dNpUsed, e4, hnu, hsnu] at this ⊢; exact this
    · simp only [hm, if_false] at h0
      have hi := hl.2 m q0 h0
      refine ⟨hi.selfUsed, hi.selfNpUsed, ?_, ?_⟩
      · have := hi.used; simp only [dUsed, e3] at this ⊢; exact this
      · have := hi.npUsed; simp only [dNpUsed, e4] at this ⊢; exact this
  · intro m q0 h0
    rw [hget m] at h0
    by_cases hm : m = n
    · simp only [hm, if_true, Option.some.injEq] at h0
      subst h0; subst hm
      have hi := hl.1 m q hq
      have hne : ¬ m = q.parent := fun e => hpn e.symm
      refine ⟨by rw [hsr, hpods]; exact hi.selfReq, by rw [hsnr, hpods]; exact hi.selfNpReq, ?_, ?_, hrule⟩
      · have := hi.cr; simp only [dCR, e1, hcr, hsr, hpn, hne, if_false] at this ⊢; omega
      · have := hi.npReq; simp only [dNpReq, e2, hnr, hsnr, hne, if_false] at this ⊢; omega
    · simp only [hm, if_false] at h0
      have hi := hl.1 m q0 h0
      refine ⟨hi.selfReq, hi.selfNpReq, ?_, ?_, hi.rule⟩
      · have := hi.cr
        simp only [dCR, e1] at this ⊢
        by_cases hp : q.parent = m
        · subst hp; simp; omega
        · have : ¬ m = q.parent := fun e => hp e.symm
          simp [hp, this]; omega
      · have := hi.npReq
        simp only [dNpReq, e2] at this ⊢
        have hz : (if m = q.parent then (0:Int) else 0) = 0 := by split <;> rfl
        rw [hz]; omega

theorem path_cons {s : State} {n : Nat} (ht : Topo s) (hn : (get? s n).isSome) :
    ∃ rest, path s n = n :: rest := by
  obtain ⟨_, _, hh⟩ := ht.paths n hn
  cases hp : path s n with
  | nil => rw [hp] at hh; simp at hh
  | cons g rest => rw [hp] at hh; simp at hh; exact ⟨rest, by rw [hh]⟩

theorem chain_parent {s : State} {n : Nat} {rest : List Nat} {q : Quota} (hq : get? s n = some q)
    (hc : Chain s (n :: rest)) (hnd : (n :: rest).Nodup) :
    q.parent ≠ n ∧ (rest = [] → get? s q.parent = none) ∧
    (∀ p r, rest = p :: r → q.parent = p ∧ Chain s (p :: r) ∧ (p :: r).Nodup) := by
  cases rest with
  | nil =>
    obtain ⟨p, h1, h2⟩ := hc
    have hqp : q.parent = p := by simpa [par, hq] using h1
    have hnone : get? s p = none := by
      cases hg : get? s p with
      | none => rfl
      | some x => simp [par, hg] at h2
    refine ⟨?_, fun _ => hqp ▸ hnone, fun p r h => (by cases h)⟩
    intro e; rw [hqp] at e; rw [e, hq] at hnone; cases hnone
  | cons p r =>
    obtain ⟨_, h1, h2⟩ := hc
    have hqp : q.parent = p := by simpa [par, hq] using h1
    refine ⟨?_, fun h => (by cases h), fun p' r' h => (by cases h; exact ⟨hqp, h2, (List.nodup_cons.mp hnd).2⟩)⟩
    intro e; rw [hqp] at e; subst e; simp at hnd

/-- the tail of doUpdateOneGroupMax/MinQuotaNoLock -/
def finishS (s1 : State) (rest : List Nat) (d : Int) : State :=
  match rest with
  | [] => s1
  | _ :: _ => propReq s1 rest false d 0

/-- finish a min / max update: propagate the change of the limited request from the parent -/
theorem finish_top {s s1 : State} {n : Nat} {q : Quota} {rest : List Nat} {d : Int} (hq : get? s n = some q)
    (hc : Chain s (n :: rest)) (hnd : (n :: rest).Nodup)
    (ht1 : Topo s1) (hp1 : ParamsOK s1) (hpods1 : PodsOK s1) (hu1 : UsedInv s1)
    (hoff : ReqOff s1 q.parent d 0) (htree : tree s1 = tree s) :
    Good (finishS s1 rest d) := by
  obtain ⟨_, hnil, hcons⟩ := chain_parent hq hc hnd
  unfold finishS
  cases rest with
  | nil =>
    have hnone : get? s1 q.parent = none := by
      have := isSome_of_tree htree q.parent
      rw [hnil rfl] at this
      cases hg : get? s1 q.parent with
      | none => rfl
      | some x => simp [hg] at this
    refine ⟨ht1, hp1, hpods1, reqPend_zero.mpr ?_, usedPend_zero.mpr hu1⟩
    intro m q0 h0
    obtain ⟨a, b, c, e, f⟩ := hoff m q0 h0
    have hm : m ≠ q.parent := by intro e1; rw [e1, hnone] at h0; cases h0
    simp only [hm, if_false, Int.add_zero] at c e
    exact ⟨a, b, c, e, f⟩
  | cons p r =>
    obtain ⟨hqp, hcr, hndr⟩ := hcons p r rfl
    have hc1 : Chain s1 (p :: r) := Chain_congr (par_of_tree htree) _ hcr
    have hres := propReq_top hc1 hndr (by simp [hqp]) ht1.tree hp1 hoff
    refine ⟨topo_congr hres.2.2.2.1 ht1, hres.2.2.2.2,
      podsOK_of_map (propReqW_map (·.pods) (fun q q' h => h.pods) clamp0 _ s1 false _ _) hpods1,
      reqPend_zero.mpr hres.2.1, usedPend_zero.mpr (usedOff_zero.mp (hres.2.2.1 0 0 0 (usedOff_zero.mpr hu1)))⟩

theorem doUpdateMax_good {s : State} {n : Nat} {newMax : Option Int} (h : Good s)
    (hmx : ∀ m, newMax = some m → 0 ≤ m) : Good (doUpdateMax s n newMax) := by
  unfold doUpdateMax
  cases hq : get? s n with
  | none =>
    have : path s n = [] := by simp [path, pathOf, hq]
    simp [this]; exact h
  | some q =>
    obtain ⟨rest, hpath⟩ := path_cons h.topo (n := n) (by simp [hq])
    obtain ⟨hc, hnd, _⟩ := h.topo.paths n (by simp [hq])
    rw [hpath] at hc hnd
    simp only [hpath, hq]
    have hqn := get?_name hq
    obtain ⟨hpn, _, _⟩ := chain_parent hq hc hnd
    obtain ⟨t1, p1, pd1, u1, off1, tr1⟩ := setQ_effect (q' := { q with max := newMax }) h hq rfl rfl rfl rfl rfl rfl
      (by simp [crOf]) rfl rfl rfl rfl
      (fun hr => by have := (good_localInv h).1 n q hq; simpa [lendRule] using this.rule hr) hmx hpn
    have := finish_top hq hc hnd t1 p1 pd1 u1 off1 tr1
    unfold finishS at this
    cases rest <;> exact this

theorem doUpdateMin_good {s : State} {n : Nat} {newMin : Int} (h : Good s) (hroot : n ≠ rootName) :
    Good (doUpdateMin s n newMin) := by
  unfold doUpdateMin
  cases hq : get? s n with
  | none =>
    have : path s n = [] := by simp [path, pathOf, hq]
    simp [this]; exact h
  | some q =>
    obtain ⟨rest, hpath⟩ := path_cons h.topo (n := n) (by simp [hq])
    obtain ⟨hc, hnd, _⟩ := h.topo.paths n (by simp [hq])
    rw [hpath] at hc hnd
    simp only [hpath, hq]
    have hqn := get?_name hq
    obtain ⟨hpn, _, _⟩ := chain_parent hq hc hnd
    have hlim : ({ q with min := newMin } : Quota).limited = q.limited := rfl
    obtain ⟨t1, p1, pd1, u1, off1, tr1⟩ := setQ_effect
      (q' := { ({ q with min := newMin } : Quota) with request := lendRule { q with min := newMin } q.childRequest })
      h hq rfl rfl rfl rfl rfl rfl
      (by simp [crOf, hqn, hroot]) rfl rfl rfl rfl
      (fun _ => by simp [lendRule]) (fun m hm => (h.params q (get?_mem hq)).1 m hm) hpn
    rw [hlim]
    have := finish_top hq hc hnd t1 p1 pd1 u1 off1 tr1
    unfold finishS at this
    cases rest <;> exact this

end KoordVerif.C01
