import KoordVerif.Proofs.C19ExtQuota5
/-
C19 (elasticquota part): the ledger rebuilt by a restart equals the live ledger after its next migration tick.

  quota_rebuilt_eq_live            the full statement (every okHist history, every isDelivery delivery)
  quota_live_canon                 the live ledger after the tick is the from-scratch ledger `Canon`
  quota_rebuild_order_independent  two deliveries of the same objects give the same ledger
  …_counterexample                 one decided witness per hypothesis clause showing it cannot be dropped

Route: Proofs/C19ExtQuota1 (primitives, sums, GetQuotaName order independence, Canon × Canon → LedgerEq),
C19ExtQuota2 (delivery side: `DInv`, coverage, store/known, `okOrderM_of_okOrder`: a migration tick inside a
delivery finds nothing to move, `fresh_canon`), C19ExtQuota3 (`LiveInv`, MigratePod, `LiveInv_migrateAll`),
C19ExtQuota4 (quota handlers, ReplaceQuotas, pod add / delete, Reserve / Unreserve keep `LiveInv`),
C19ExtQuota5 (OnPodUpdate keeps `LiveInv`).
-/
namespace KoordVerif.C19.Quota

theorem resolve_eq_of {s t : St} (hq : ∀ p, quotaNameOf s.store p = quotaNameOf t.store p)
    (hk : ∀ n, s.known.contains n = t.known.contains n) (p : PodObj) : resolve s p = resolve t p := by
  simp only [resolve, hq, hk]

/-- **the rebuilt ledger does not depend on the order of the delivery** (nor on duplicates): two deliveries of
    the same final objects give the same ledger. -/
theorem quota_rebuild_order_independent (live : St) (w : World) (d1 d2 : List Op)
    (hsu : storeUnique live.store = true) (hnd : NodupIds w.alive) (hnn : ∀ o ∈ w.alive, 0 ≤ o.req)
    (h1 : isDelivery live w d1 = true) (h2 : isDelivery live w d2 = true) :
    LedgerEq (run {} (d1 ++ [.migrate])) (run {} (d2 ++ [.migrate])) := by
  obtain ⟨c1, e1⟩ := fresh_canon h1 hsu hnd hnn
  obtain ⟨c2, e2⟩ := fresh_canon h2 hsu hnd hnn
  obtain ⟨s1, k1⟩ := fresh_facts h1 hsu
  obtain ⟨s2, k2⟩ := fresh_facts h2 hsu
  rw [e1, e2]
  have hk : ∀ n, (run {} d1).known.contains n = (run {} d2).known.contains n := by
    intro n; rw [Bool.eq_iff_iff, k1, k2]
  refine LedgerEq_of_Canon c1 c2 hk (fun o _ => resolve_eq_of (fun p => ?_) hk o) (List.Perm.refl _) rfl rfl
  rw [← quotaNameOf_congr s1 (storeUnique_nss hsu) p, ← quotaNameOf_congr s2 (storeUnique_nss hsu) p]

theorem okHistFrom_end : ∀ (ops : List Op) (s : St) (w : World), okHistFrom s w ops = true →
    (ops.foldl World.apply w).resvd = [] ∧
    ∀ q ∈ (run s ops).store, (run s ops).known.contains q.name = true := by
  intro ops
  induction ops with
  | nil =>
    intro s w h
    simp only [okHistFrom, Bool.and_eq_true, List.isEmpty_iff, List.all_eq_true] at h
    exact ⟨h.1, h.2⟩
  | cons op ops ih =>
    intro s w h
    simp only [okHistFrom, Bool.and_eq_true] at h
    exact ih _ _ h.2

theorem LiveInv_run (hstep : ∀ op, LiveStepOK op) : ∀ (ops : List Op) (s : St) (w : World),
    LiveInv s w → okHistFrom s w ops = true → LiveInv (run s ops) (ops.foldl World.apply w) := by
  intro ops
  induction ops with
  | nil => intro s w h _; exact h
  | cons op ops ih =>
    intro s w h ho
    simp only [okHistFrom, Bool.and_eq_true] at ho
    exact ih _ _ (hstep op s w h ho.1) ho.2

/-- the main statement, given the live invariant at the cut -/
theorem quota_rebuilt_eq_live_of_inv (hist d : List Op) (h : okHist hist = true)
    (hd : isDelivery (run {} hist) (worldAfter hist) d = true)
    (hinv : LiveInv (run {} hist) (worldAfter hist)) :
    LedgerEq (run {} (hist ++ [.migrate])) (run {} (d ++ [.migrate])) := by
  obtain ⟨hrv, hcut⟩ := okHistFrom_end hist {} {} h
  obtain ⟨_, cL, kL, stL⟩ := LiveInv_migrateAll hinv
  obtain ⟨cF, eF⟩ := fresh_canon hd hinv.su hinv.nd hinv.nn
  obtain ⟨sF, kF⟩ := fresh_facts hd hinv.su
  rw [eF, run_append]
  show LedgerEq (migrateAll (run {} hist)) (run {} d)
  have hk : ∀ n, (migrateAll (run {} hist)).known.contains n = (run {} d).known.contains n := by
    intro n
    rw [kL, Bool.eq_iff_iff, kF]
    constructor
    · exact hinv.kinv.kn n
    · rintro (rfl | rfl | ⟨q, hq, rfl⟩)
      · exact hinv.kinv.k1
      · exact hinv.kinv.k2
      · exact hcut q hq
  refine LedgerEq_of_Canon cL cF hk (fun o _ => resolve_eq_of (fun p => ?_) hk o) (List.Perm.refl _) hrv rfl
  rw [stL]
  exact quotaNameOf_congr sF (storeUnique_nss hinv.su) p

/-- every guarded step keeps the live invariant (Proofs/C19ExtQuota4, C19ExtQuota5) -/
theorem liveStep_ok : ∀ op, LiveStepOK op
  | .qstore q => step_qstore_ok q
  | .qput q => step_qput_ok q
  | .qdel n => step_qdel_ok n
  | .replace => step_replace_ok
  | .padd p => step_padd_ok p
  | .pupd o n => step_pupd_ok o n
  | .pdel p => step_pdel_ok p
  | .resv p => step_resv_ok p
  | .unresv p => step_unresv_ok p
  | .migrate => step_migrate_ok

/-- the live invariant holds at every cut of a history that satisfies the step guards -/
theorem liveInv_of_okHist (hist : List Op) (h : okHist hist = true) :
    LiveInv (run {} hist) (worldAfter hist) :=
  LiveInv_run liveStep_ok hist {} {} LiveInv_init h

/-- the live ledger after its next migration tick is the canonical ledger of the objects -/
theorem quota_live_canon (hist : List Op) (h : okHist hist = true) :
    Canon (run {} (hist ++ [.migrate])) (worldAfter hist) := by
  rw [run_append]
  exact (LiveInv_migrateAll (liveInv_of_okHist hist h)).2.1

/-- **C19, elasticquota part**: for every live history satisfying the decidable hypotheses and every delivery of
    the final objects to a fresh scheduler (duplicates allowed, any order in which every pod's resolution is final
    when it is delivered), the rebuilt ledger equals the live ledger after its next migration tick. -/
theorem quota_rebuilt_eq_live (hist d : List Op) (h : okHist hist = true)
    (hd : isDelivery (run {} hist) (worldAfter hist) d = true) :
    LedgerEq (run {} (hist ++ [.migrate])) (run {} (d ++ [.migrate])) :=
  quota_rebuilt_eq_live_of_inv hist d h hd (liveInv_of_okHist hist h)

/-- corollary: two deliveries after the same live history give the same ledger -/
theorem quota_rebuild_order_independent' (hist d1 d2 : List Op) (h : okHist hist = true)
    (h1 : isDelivery (run {} hist) (worldAfter hist) d1 = true)
    (h2 : isDelivery (run {} hist) (worldAfter hist) d2 = true) :
    LedgerEq (run {} (d1 ++ [.migrate])) (run {} (d2 ++ [.migrate])) :=
  have hi := liveInv_of_okHist hist h
  quota_rebuild_order_independent _ _ d1 d2 hi.su hi.nd hi.nn h1 h2

/-! ### examples -/

namespace Ex
def qA : QObj := { name := 3, own := true, nss := [] }
def qB : QObj := { name := 4, own := false, nss := [7] }
def qC : QObj := { name := 5, own := false, nss := [] }
/-- labelled with quota 3, created BEFORE quota 3: parked in the default group until the migration tick -/
def p1 : PodObj := { id := 1, label := 3, ns := 9, req := 100, node := false, term := false, rv := 1 }
def p1b : PodObj := { p1 with node := true, rv := 2 }
/-- no label, namespace 7 is annotated on quota 4 -/
def p2 : PodObj := { id := 2, label := 0, ns := 7, req := 50, node := false, term := false, rv := 1 }
/-- no label, lives in the namespace named like quota 3 -/
def p3 : PodObj := { id := 3, label := 0, ns := 3, req := 10, node := true, term := false, rv := 1 }
def p4 : PodObj := { id := 4, label := 5, ns := 9, req := 7, node := false, term := false, rv := 1 }
/-- labelled with quota 5, deleted while still parked in the default group -/
def p5 : PodObj := { id := 5, label := 5, ns := 9, req := 3, node := true, term := false, rv := 1 }

def hist : List Op :=
  [.padd p1, .qput qA, .migrate, .qput qB, .padd p2, .resv p1, .pupd p1 p1b, .padd p3, .padd p4, .padd p5,
   .pdel p3, .qput qC, .pdel p5, .migrate, .pdel p4, .qdel 5]
/-- quotas through ReplaceQuotas, pod 2 twice, a tick in the middle -/
def deliv : List Op := [.qstore qB, .qstore qA, .replace, .padd p2, .migrate, .padd p1b, .padd p2]
def deliv2 : List Op := [.qput qA, .padd p1b, .qput qB, .padd p2]

example : okHist hist = true := by decide
example : isDelivery (run {} hist) (worldAfter hist) deliv = true := by decide
example : isDelivery (run {} hist) (worldAfter hist) deliv2 = true := by decide
example : dump (run {} (hist ++ [.migrate])) = dump (run {} (deliv ++ [.migrate])) := by decide

/-- after fix 7265fb2 a pod may change label and request while it stays in the default group: the refreshed cached
    object is what the later migration moves -/
def r1 : PodObj := { id := 9, label := 0, ns := 9, req := 10, node := true, term := false, rv := 1 }
def r2 : PodObj := { r1 with label := 6, req := 20, rv := 2 }
def qD : QObj := { name := 6, own := false, nss := [] }
def hist2 : List Op := [.padd r1, .pupd r1 r2, .qput qD]
example : okHist hist2 = true := by decide
example : isDelivery (run {} hist2) (worldAfter hist2) [.qput qD, .padd r2] = true := by decide
example : dump (run {} (hist2 ++ [.migrate])) = ["q 1 0 0 0", "q 2 0 0 0", "q 6 20 20 1 9 1"] := by decide
end Ex

/-! ### each hypothesis is needed -/

/-- a charged (bound) pod turns Succeeded: the live plugin keeps its used, the rebuilt one never charges it
    (`okStep` clause `!n.term || o.term || !isAssigned`) -/
theorem quota_terminated_keeps_used_counterexample :
    let pt : PodObj := { id := 1, label := 0, ns := 9, req := 100, node := true, term := false, rv := 1 }
    let pt2 : PodObj := { pt with term := true, rv := 2 }
    let hist : List Op := [.padd pt, .pupd pt pt2]
    let d : List Op := [.padd pt2]
    okHist hist = false ∧ isDelivery (run {} hist) (worldAfter hist) d = true ∧
    getC (run {} (hist ++ [.migrate])).used 1 = 100 ∧ getC (run {} (d ++ [.migrate])).used 1 = 0 := by decide

/-- the order hypothesis (`okOrderFrom`, pod clause): a pod delivered while it resolves to another quota than the
    final one stays charged there (the migration only empties the default group) -/
theorem quota_delivery_order_counterexample :
    let q7 : QObj := { name := 7, own := true, nss := [] }
    let q4 : QObj := { name := 4, own := false, nss := [7] }
    let p : PodObj := { id := 1, label := 0, ns := 7, req := 50, node := false, term := false, rv := 1 }
    let hist : List Op := [.qput q7, .qput q4, .padd p]
    let d : List Op := [.qput q4, .padd p, .qput q7]
    okHist hist = true ∧ d.all (isDeliveryOp (run {} hist).store (worldAfter hist).alive) = true ∧
    okOrderFrom {} (run {} d) false d = false ∧
    hasE (run {} (hist ++ [.migrate])) 7 1 = true ∧ hasE (run {} (d ++ [.migrate])) 7 1 = false ∧
    hasE (run {} (d ++ [.migrate])) 4 1 = true := by decide

/-- the `isDelivery` clause "no quota object is named like a built-in group": with a quota NAMED like the default
    group a pod's resolution can leave the default group and come back during the delivery, and a migration tick
    in between moves the pod away for good -/
theorem quota_builtin_name_counterexample :
    let q1 : QObj := { name := 1, own := true, nss := [] }
    let q4 : QObj := { name := 4, own := false, nss := [1] }
    let p : PodObj := { id := 1, label := 0, ns := 1, req := 50, node := false, term := false, rv := 1 }
    let hist : List Op := [.qput q1, .qput q4, .padd p]
    let d : List Op := [.padd p, .qput q4, .migrate, .qput q1]
    okHist hist = true ∧ isDelivery (run {} hist) (worldAfter hist) d = false ∧
    d.all (isDeliveryOp (run {} hist).store (worldAfter hist).alive) = true ∧
    okOrderFrom {} (run {} d) false d = true ∧
    hasE (run {} (hist ++ [.migrate])) 1 1 = true ∧ hasE (run {} (d ++ [.migrate])) 1 1 = false ∧
    hasE (run {} (d ++ [.migrate])) 4 1 = true := by decide

/-- the cut hypothesis added to `okHistFrom`: a quota whose handler is still pending (`qstore` only) is not known
    to the live plugin but is known to the rebuilt one -/
theorem quota_pending_handler_counterexample :
    let q5 : QObj := { name := 5, own := true, nss := [] }
    let hist : List Op := [.qstore q5]
    let d : List Op := [.qput q5]
    okHist hist = false ∧ d.all (isDeliveryOp (run {} hist).store (worldAfter hist).alive) = true ∧
    okOrderFrom {} (run {} d) false d = true ∧
    (run {} (hist ++ [.migrate])).known.contains 5 = false ∧ (run {} (d ++ [.migrate])).known.contains 5 = true := by
  decide

/-- the `isDelivery` clause "the quota is known at the end": ReplaceQuotas BEFORE the object reached the store
    does not register it -/
theorem quota_replace_before_store_counterexample :
    let q5 : QObj := { name := 5, own := true, nss := [] }
    let hist : List Op := [.qput q5]
    let d : List Op := [.replace, .qstore q5]
    okHist hist = true ∧ isDelivery (run {} hist) (worldAfter hist) d = false ∧
    d.all (isDeliveryOp (run {} hist).store (worldAfter hist).alive) = true ∧
    okOrderFrom {} (run {} d) false d = true ∧
    (run {} (hist ++ [.migrate])).known.contains 5 = true ∧ (run {} (d ++ [.migrate])).known.contains 5 = false := by
  decide

/-- `0 ≤ req` (added to `okStep`): the self request is clamped at 0, so a negative request is forgotten by the
    live plugin's delta bookkeeping -/
theorem quota_negative_request_counterexample :
    let p : PodObj := { id := 1, label := 0, ns := 9, req := -5, node := false, term := false, rv := 1 }
    let p' : PodObj := { p with req := 10, rv := 2 }
    let hist : List Op := [.padd p, .pupd p p']
    let d : List Op := [.padd p']
    okHist hist = false ∧ isDelivery (run {} hist) (worldAfter hist) d = true ∧
    getC (run {} (hist ++ [.migrate])).req 1 = 15 ∧ getC (run {} (d ++ [.migrate])).req 1 = 10 := by decide

/-- a Reserve in flight at the cut (`okHistFrom []`): the reservation is not persisted -/
theorem quota_reserve_in_flight_counterexample :
    let p : PodObj := { id := 1, label := 0, ns := 9, req := 10, node := false, term := false, rv := 1 }
    let hist : List Op := [.padd p, .resv p]
    let d : List Op := [.padd p]
    okHist hist = false ∧ isDelivery (run {} hist) (worldAfter hist) d = true ∧
    getC (run {} (hist ++ [.migrate])).used 1 = 10 ∧ getC (run {} (d ++ [.migrate])).used 1 = 0 := by decide

end KoordVerif.C19.Quota
