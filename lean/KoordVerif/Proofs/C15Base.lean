import KoordVerif.Model.C15
/- C15 helper lemmas: lists, lookup, the upward walk, pigeonhole. -/
namespace KoordVerif.C15

theorem allD_iff {d : Nat} {p : Nat → Bool} : allD d p = true ↔ ∀ k, k < d → p k = true := by
  simp [allD, List.all_eq_true, List.mem_range]

/-- one record per name -/
def Uniq (info : List QI) : Prop := ∀ a ∈ info, ∀ b ∈ info, a.name = b.name → a = b

theorem uniq_of_nodup : ∀ {info : List QI}, (info.map (·.name)).Nodup → Uniq info
  | [], _ => by intro a ha; cases ha
  | x :: xs, h => by
    simp only [List.map_cons, List.nodup_cons, List.mem_map, not_exists, not_and] at h
    have ih := uniq_of_nodup h.2
    intro a ha b hb hab
    simp only [List.mem_cons] at ha hb
    rcases ha with rfl | ha <;> rcases hb with rfl | hb
    · rfl
    · exact absurd hab.symm (h.1 b hb)
    · exact absurd hab (h.1 a ha)
    · exact ih a ha b hb hab

theorem find_some {info : List QI} {n : Nat} {p : QI} (h : find info n = some p) : p ∈ info ∧ p.name = n := by
  unfold find at h
  exact ⟨List.mem_of_find?_eq_some h, by simpa using List.find?_some h⟩

theorem find_none {info : List QI} {n : Nat} (h : find info n = none) : ∀ q ∈ info, q.name ≠ n := by
  unfold find at h
  intro q hq
  have := (List.find?_eq_none.mp h) q hq
  simpa using this

theorem find_mem {info : List QI} (hu : Uniq info) {p : QI} (hp : p ∈ info) : find info p.name = some p := by
  cases hf : find info p.name with
  | none => exact absurd rfl (find_none hf p hp)
  | some p' =>
    have := find_some hf
    rw [hu p' this.1 p hp this.2]

theorem find_isSome_false {info : List QI} {n : Nat} (h : (find info n).isSome = false) : ∀ q ∈ info, q.name ≠ n := by
  cases hf : find info n with
  | none => exact find_none hf
  | some p => simp [hf] at h

/-- pigeonhole: a duplicate-free list inside `names` is not longer than `names`. -/
theorem nodup_length_le : ∀ (l names : List Nat), l.Nodup → (∀ a ∈ l, a ∈ names) → l.length ≤ names.length
  | [], _, _, _ => by simp
  | a :: t, names, hn, hs => by
    simp only [List.nodup_cons] at hn
    have ha : a ∈ names := hs a (by simp)
    have ht : ∀ b ∈ t, b ∈ names.erase a := by
      intro b hb
      have hne : b ≠ a := fun e => hn.1 (e ▸ hb)
      exact (List.mem_erase_of_ne hne).mpr (hs b (by simp [hb]))
    have ih := nodup_length_le t (names.erase a) hn.2 ht
    have hl := List.length_erase_of_mem ha
    have hpos : 0 < names.length := List.length_pos_of_mem ha
    simp only [List.length_cons]
    omega

/-- `Anc info x y`: `x` is `y` or an ancestor of `y` along recorded parent links. -/
inductive Anc (info : List QI) (x : Nat) : Nat → Prop
  | self : Anc info x x
  | up {y : Nat} {a : QI} : find info y = some a → Anc info x a.parent → Anc info x y

theorem Anc.step_iff {info : List QI} {x y : Nat} {a : QI} (hne : y ≠ x) (hf : find info y = some a) :
    Anc info x y ↔ Anc info x a.parent := by
  constructor
  · intro h
    cases h with
    | self => exact absurd rfl hne
    | up hf' h' => rw [hf] at hf'; cases hf'; exact h'
  · exact Anc.up hf

/-- the walk of checkParentQuotaInfo decides `Anc` as soon as its fuel covers the names not yet visited. -/
theorem hitsUp_iff_anc {info : List QI} {x : Nat} (r : Nat → Nat) (hx : x ≠ 0)
    (hnz : ∀ q ∈ info, q.name ≠ 0) (hr : ∀ q ∈ info, r q.parent < r q.name) :
    ∀ (f cur : Nat) (visited : List Nat), visited.Nodup → (∀ v ∈ visited, v ∈ info.map (·.name)) →
      (∀ v ∈ visited, r cur < r v) → info.length + 1 ≤ f + visited.length →
      (hitsUp info x f cur = true ↔ Anc info x cur)
  | 0, cur, visited, hnd, hsub, _, hlen => by
    have := nodup_length_le visited (info.map (·.name)) hnd hsub
    simp at this; omega
  | f+1, cur, visited, hnd, hsub, hrk, hlen => by
    unfold hitsUp
    by_cases h0 : cur = 0
    · subst h0
      simp only [if_true]
      constructor
      · intro h; cases h
      · intro h
        cases h with
        | self => exact absurd rfl hx
        | up hf _ => exact absurd (find_some hf).2 (hnz _ (find_some hf).1)
    · simp only [h0, if_false]
      by_cases hcx : cur = x
      · subst hcx; simp; exact Anc.self
      · simp only [hcx, if_false]
        cases hf : find info cur with
        | none =>
          simp only
          constructor
          · intro h; cases h
          · intro h
            cases h with
            | self => exact absurd rfl hcx
            | up hf' _ => rw [hf] at hf'; cases hf'
        | some a =>
          simp only
          have ha := find_some hf
          have hlt : r a.parent < r cur := by have := hr a ha.1; rw [ha.2] at this; exact this
          rw [Anc.step_iff hcx hf]
          apply hitsUp_iff_anc r hx hnz hr f a.parent (cur :: visited)
          · simp only [List.nodup_cons]
            refine ⟨fun hm => ?_, hnd⟩
            have := hrk cur hm; omega
          · intro v hv
            simp only [List.mem_cons] at hv
            rcases hv with rfl | hv
            · exact List.mem_map.mpr ⟨a, ha.1, ha.2⟩
            · exact hsub v hv
          · intro v hv
            simp only [List.mem_cons] at hv
            rcases hv with rfl | hv
            · exact hlt
            · have := hrk v hv; omega
          · simp only [List.length_cons]; omega

end KoordVerif.C15
