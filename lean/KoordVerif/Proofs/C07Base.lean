import KoordVerif.Model.C07
/-
C07 — helper lemmas: values of the quota operations (missing key = 0), association-list lookups,
and the value-level specifications of resetFree / usedAdd / usedSub / recOf.
-/
namespace KoordVerif.C07

/-! ### quantities -/

theorem qVal_add (x y : Q) : qVal (qAdd x y) = qVal x + qVal y := by
  cases x <;> cases y <;> simp [qAdd, qVal]

theorem qVal_subNN (x y : Q) (hy : 0 ≤ qVal y) : qVal (qSubNN x y) = max 0 (qVal x - qVal y) := by
  cases x <;> cases y <;> simp [qSubNN, qVal] at * <;> (try split) <;> omega

theorem qVal_subNN_nonneg (x y : Q) : 0 ≤ qVal (qSubNN x y) := by
  cases x <;> cases y <;> simp [qSubNN, qVal] <;> (try split) <;> omega

theorem qVal_of_zero (x : Q) (h : qZero x = true) : qVal x = 0 := by
  cases x <;> simp [qZero, qVal] at * ; exact h

theorem rlAt_nil (k : Nat) : rlAt [] k = none := by
  cases k <;> rfl

theorem rlAt_map_none (f : Q → Q → Q) (hf : f none none = none) :
    ∀ (bs : RL) (k : Nat), rlAt (bs.map (fun b => f none b)) k = f none (rlAt bs k)
  | [], k => by simp [rlAt_nil, hf]
  | b :: bs, 0 => by simp [rlAt]
  | b :: bs, k+1 => by simp only [List.map_cons, rlAt]; exact rlAt_map_none f hf bs k

theorem rlAt_zipPad (f : Q → Q → Q) (hf : f none none = none) :
    ∀ (a b : RL) (k : Nat), rlAt (zipPad f a b) k = f (rlAt a k) (rlAt b k)
  | [], bs, k => by simp only [zipPad, rlAt_nil]; exact rlAt_map_none f hf bs k
  | a :: as, [], 0 => by simp [zipPad, rlAt]
  | a :: as, [], k+1 => by
      simp only [zipPad, rlAt]; rw [rlAt_zipPad f hf as [] k, rlAt_nil]
  | a :: as, b :: bs, 0 => by simp [zipPad, rlAt]
  | a :: as, b :: bs, k+1 => by
      simp only [zipPad, rlAt]; rw [rlAt_zipPad f hf as bs k]

theorem rlVal_nil (k : Nat) : rlVal [] k = 0 := by simp [rlVal, rlAt_nil, qVal]

theorem rlVal_add (a b : RL) (k : Nat) : rlVal (rlAdd a b) k = rlVal a k + rlVal b k := by
  simp [rlVal, rlAdd, rlAt_zipPad qAdd rfl, qVal_add]

theorem rlVal_subNN (a b : RL) (k : Nat) (hb : 0 ≤ rlVal b k) :
    rlVal (rlSubNN a b) k = max 0 (rlVal a k - rlVal b k) := by
  simp only [rlVal, rlSubNN, rlAt_zipPad qSubNN rfl]
  exact qVal_subNN _ _ hb

theorem rlVal_subNN_nonneg (a b : RL) (k : Nat) : 0 ≤ rlVal (rlSubNN a b) k := by
  simp only [rlVal, rlSubNN, rlAt_zipPad qSubNN rfl]
  exact qVal_subNN_nonneg _ _

theorem rlAt_zero_of_all : ∀ (a : RL) (k : Nat), a.all qZero = true → qZero (rlAt a k) = true
  | [], k, _ => by simp [rlAt_nil, qZero]
  | x :: xs, 0, h => by simp [List.all_cons] at h; simp [rlAt, h.1]
  | x :: xs, k+1, h => by
      simp [List.all_cons] at h
      simp only [rlAt]
      exact rlAt_zero_of_all xs k (by simpa using h.2)

theorem rlVal_of_isZero (a : RL) (k : Nat) (h : rlIsZero a = true) : rlVal a k = 0 :=
  qVal_of_zero _ (rlAt_zero_of_all a k h)

/-- `LessThanOrEqual(a, b)` compares only keys present in both -/
theorem rlLeq_at : ∀ (a b : RL) (k : Nat), rlLeq a b = true → qLeq (rlAt a k) (rlAt b k) = true
  | [], bs, k, _ => by simp [rlAt_nil, qLeq]
  | a :: as, [], 0, h => by simp [rlLeq] at h; simp [rlAt, h.1]
  | a :: as, [], k+1, h => by
      simp [rlLeq] at h; simp only [rlAt]; exact rlLeq_at as [] k (by simpa using h.2)
  | a :: as, b :: bs, 0, h => by simp [rlLeq] at h; simp [rlAt, h.1]
  | a :: as, b :: bs, k+1, h => by
      simp [rlLeq] at h; simp only [rlAt]; exact rlLeq_at as bs k h.2

/-- when the device exposes the key (or the request does not carry it) `LessThanOrEqual` is `≤` on values -/
theorem rlLeq_val (a b : RL) (k : Nat) (h : rlLeq a b = true)
    (hcov : (rlAt a k).isSome → (rlAt b k).isSome) (ha : 0 ≤ rlVal a k) (hb : 0 ≤ rlVal b k) :
    rlVal a k ≤ rlVal b k ∨ rlVal a k = 0 := by
  have := rlLeq_at a b k h
  unfold rlVal at *
  cases ha' : rlAt a k <;> cases hb' : rlAt b k <;> simp [ha', hb', qLeq, qVal] at * <;> omega

/-! ### association lists -/

theorem drGet_drSet (d : DevRes) (m m' : Nat) (v : RL) :
    drGet (drSet d m v) m' = if m = m' then some v else drGet d m' := by
  induction d with
  | nil => simp [drSet, drGet]
  | cons p r ih =>
    obtain ⟨k, w⟩ := p
    simp only [drSet]
    by_cases hk : k = m
    · subst hk; simp only [if_true, drGet]
      by_cases h2 : k = m' <;> simp [h2]
    · simp only [hk, if_false, drGet, ih]
      by_cases h2 : k = m'
      · subst h2; simp [Ne.symm hk]
      · simp [h2]

theorem drGet_drErase (d : DevRes) (m m' : Nat) :
    drGet (drErase d m) m' = if m = m' then none else drGet d m' := by
  induction d with
  | nil => simp [drErase, drGet]
  | cons p r ih =>
    obtain ⟨k, w⟩ := p
    unfold drErase at *
    by_cases hk : k = m
    · subst hk
      simp only [List.filter, bne_self_eq_false, ih, drGet]
      by_cases h2 : k = m' <;> simp [h2]
    · have : (k != m) = true := by simp [hk]
      simp only [List.filter, this, drGet, ih]
      by_cases h2 : k = m'
      · subst h2; simp [Ne.symm hk]
      · simp [h2]

theorem drGet_append (a b : DevRes) (m : Nat) :
    drGet (a ++ b) m = match drGet a m with
                       | some v => some v
                       | none => drGet b m := by
  induction a with
  | nil => simp [drGet]
  | cons p r ih =>
    obtain ⟨k, w⟩ := p
    simp only [List.cons_append, drGet]
    by_cases hk : k = m <;> simp [hk, ih]

theorem drGet_mapVal (d : DevRes) (g : Nat → RL → RL) (m : Nat) :
    drGet (d.map (fun p => (p.1, g p.1 p.2))) m = (drGet d m).map (g m) := by
  induction d with
  | nil => simp [drGet]
  | cons p r ih =>
    obtain ⟨k, w⟩ := p
    simp only [List.map, drGet]
    by_cases hk : k = m
    · subst hk; simp
    · simp [hk, ih]

theorem drHas_cons (k : Nat) (w : RL) (r : DevRes) (m : Nat) :
    drHas ((k, w) :: r) m = (decide (k = m) || drHas r m) := by
  by_cases h : k = m <;> simp [drHas, drGet, h]

theorem drGet_phantoms (total used : DevRes) (m : Nat) :
    drGet ((used.filter (fun p => !drHas total p.1)).map (fun p => (p.1, ([] : RL)))) m =
      if drHas used m && !drHas total m then some [] else none := by
  induction used with
  | nil => simp [drGet, drHas]
  | cons p r ih =>
    obtain ⟨k, w⟩ := p
    rw [List.filter_cons, drHas_cons]
    cases ht : drHas total k
    · simp only [Bool.not_false, if_true, List.map_cons, drGet]
      by_cases hk : k = m
      · subst hk; simp [ht]
      · simp [hk, ih]
    · simp only [Bool.not_true, Bool.false_eq_true, if_false]
      by_cases hk : k = m
      · subst hk; simp [ht, ih]
      · simp [hk, ih]

theorem drVal_none (d : DevRes) (m k : Nat) (h : drGet d m = none) : drVal d m k = 0 := by
  simp [drVal, drGetD, h, rlVal_nil]

/-! ### resetFree at the value level -/

theorem resetFree_used (s : TState) : (resetFree s).used = s.used := rfl
theorem resetFree_pods (s : TState) : (resetFree s).pods = s.pods := rfl

theorem resetFree_total_val (s : TState) (m k : Nat) :
    drVal (resetFree s).total m k = drVal s.total m k := by
  simp only [resetFree, addPhantoms, drVal, drGetD, drGet_append, drGet_phantoms]
  cases h : drGet s.total m with
  | some v => simp
  | none =>
    simp only []
    by_cases h2 : (drHas s.used m && !drHas s.total m) = true <;> simp [h2, rlVal_nil]

theorem resetFree_free_val (s : TState) (m k : Nat)
    (ht : 0 ≤ drVal s.total m k) (hu : 0 ≤ drVal s.used m k) :
    drVal (resetFree s).free m k = max 0 (drVal s.total m k - drVal s.used m k) := by
  have hget : drGet (resetFree s).free m =
      (drGet (addPhantoms s.total s.used) m).map (freeEntry s.used m) :=
    drGet_mapVal (addPhantoms s.total s.used) (freeEntry s.used) m
  have hph : drGet (addPhantoms s.total s.used) m =
      match drGet s.total m with
      | some v => some v
      | none => if drHas s.used m && !drHas s.total m then some [] else none := by
    simp only [addPhantoms, drGet_append, drGet_phantoms]
  unfold drVal drGetD at *
  rw [hget, hph]
  cases h : drGet s.total m with
  | some t =>
    cases hu' : drGet s.used m with
    | some u =>
      simp only [h, hu', Option.getD_some] at ht hu
      simp only [Option.map_some, Option.getD_some, freeEntry, hu']
      exact rlVal_subNN _ _ _ hu
    | none =>
      simp only [h, Option.getD_some] at ht
      simp only [Option.map_some, Option.getD_some, Option.getD_none, freeEntry, hu', rlVal_nil]
      omega
  | none =>
    cases hu' : drGet s.used m with
    | some u =>
      simp only [hu', Option.getD_some] at hu
      have h1 : drHas s.used m = true := by simp [drHas, hu']
      have h2 : drHas s.total m = false := by simp [drHas, h]
      simp only [h1, h2, Bool.not_false, Bool.and_self, if_true, Option.map_some, Option.getD_some,
        Option.getD_none, freeEntry, hu', rlVal_nil]
      rw [rlVal_subNN _ _ _ hu, rlVal_nil]
    | none =>
      have h1 : drHas s.used m = false := by simp [drHas, hu']
      simp [h1, rlVal_nil]

/-! ### updateDeviceUsed at the value level -/

/-- what an allocation list contributes to (minor, dimension) -/
def alSum : List (Nat × RL) → Nat → Nat → Int
  | [], _, _ => 0
  | (m', r) :: rest, m, k => (if m' = m then rlVal r k else 0) + alSum rest m k

def AlNonneg (al : List (Nat × RL)) : Prop := ∀ p ∈ al, ∀ k, 0 ≤ rlVal p.2 k

theorem alSum_nonneg (al : List (Nat × RL)) (h : AlNonneg al) (m k : Nat) : 0 ≤ alSum al m k := by
  induction al with
  | nil => simp [alSum]
  | cons p r ih =>
    obtain ⟨m', v⟩ := p
    have h1 : 0 ≤ rlVal v k := h (m', v) (by simp) k
    have h2 := ih (fun q hq => h q (by simp [hq]))
    simp only [alSum]
    split <;> omega

theorem alSum_not_mem (al : List (Nat × RL)) (m k : Nat) (h : m ∉ al.map (·.1)) : alSum al m k = 0 := by
  induction al with
  | nil => simp [alSum]
  | cons p r ih =>
    obtain ⟨m', v⟩ := p
    simp only [List.map, List.mem_cons, not_or] at h
    simp [alSum, Ne.symm h.1, ih h.2]

theorem usedAdd_val (al : List (Nat × RL)) : ∀ (u : DevRes) (m k : Nat),
    drVal (usedAdd u al) m k = drVal u m k + alSum al m k := by
  induction al with
  | nil => intro u m k; simp [usedAdd, alSum]
  | cons p r ih =>
    intro u m k
    obtain ⟨m', v⟩ := p
    simp only [usedAdd, alSum, ih]
    simp only [drVal, drGetD, drGet_drSet]
    by_cases h : m' = m
    · subst h; simp [rlVal_add, drGetD]; omega
    · simp [h]

theorem usedSub_val (al : List (Nat × RL)) (hal : AlNonneg al) : ∀ (u : DevRes) (m k : Nat),
    0 ≤ drVal u m k → drVal (usedSub u al) m k = max 0 (drVal u m k - alSum al m k) := by
  induction al with
  | nil => intro u m k h; simp [usedSub, alSum]; omega
  | cons p r ih =>
    intro u m k hu
    obtain ⟨m', v⟩ := p
    have hv : 0 ≤ rlVal v k := hal (m', v) (by simp) k
    have hr : AlNonneg r := fun q hq => hal q (by simp [hq])
    have hs := alSum_nonneg r hr m k
    simp only [usedSub, alSum]
    by_cases h : m' = m
    · subst h
      have key : drVal (if rlIsZero (rlSubNN (drGetD u m') v) = true then drErase u m'
          else drSet u m' (rlSubNN (drGetD u m') v)) m' k = max 0 (drVal u m' k - rlVal v k) := by
        split
        · rename_i hz
          have := rlVal_of_isZero _ k hz
          rw [rlVal_subNN _ _ _ hv] at this
          simp [drVal, drGetD, drGet_drErase, rlVal_nil] at *
          omega
        · simp [drVal, drGetD, drGet_drSet, rlVal_subNN _ _ _ hv]
      rw [ih hr _ _ _ (by rw [key]; omega), key]
      simp; omega
    · have key : drVal (if rlIsZero (rlSubNN (drGetD u m') v) = true then drErase u m'
          else drSet u m' (rlSubNN (drGetD u m') v)) m k = drVal u m k := by
        split <;> simp [drVal, drGetD, drGet_drErase, drGet_drSet, h]
      rw [ih hr _ _ _ (by rw [key]; exact hu), key]
      simp [h]

end KoordVerif.C07
