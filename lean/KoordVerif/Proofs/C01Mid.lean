import KoordVerif.Proofs.C01Pods
/-
C01: the invariant carried through the sub-steps of a pod handler (`Mid`): topology, parameters, unique
cache ids, and the local equations up to a pending pod-sum difference at one group.
-/
namespace KoordVerif.C01

/-- topology: well-formed tree, and the path computed for every known group is a proper chain
(= acyclic, no orphans; a property of `tree s` only, see `topo_congr`) -/
structure Topo (s : State) : Prop where
  tree : TreeOK (tree s)
  paths : ∀ n, (get? s n).isSome → Chain s (path s n) ∧ (path s n).Nodup ∧ (path s n).head? = some n

theorem isSome_of_tree {s s' : State} (h : tree s' = tree s) (m : Nat) : (get? s' m).isSome = (get? s m).isSome := by
  have := par_of_tree h m
  simp only [par] at this
  cases h1 : get? s m <;> cases h2 : get? s' m <;> simp [h1, h2] at this ⊢

theorem topo_congr {s s' : State} (h : tree s' = tree s) (ht : Topo s) : Topo s' := by
  refine ⟨h ▸ ht.tree, fun n hn => ?_⟩
  rw [isSome_of_tree h] at hn
  obtain ⟨a, b, c⟩ := ht.paths n hn
  rw [path_congr h]
  exact ⟨Chain_congr (par_of_tree h) _ a, b, c⟩

theorem podsOK_of_map {s s' : State} (h : s'.map (·.pods) = s.map (·.pods)) (hp : PodsOK s) : PodsOK s' := by
  intro q' hq'
  have : q'.pods ∈ s.map (·.pods) := by rw [← h]; exact List.mem_map.mpr ⟨q', hq', rfl⟩
  obtain ⟨q, hq, he⟩ := List.mem_map.mp this
  rw [← he]; exact hp q hq

structure Mid (s : State) (n : Nat) (a b c d : Int) : Prop where
  topo : Topo s
  params : ParamsOK s
  pods : PodsOK s
  req : ReqPend s n a b
  used : UsedPend s n c d

/-- the invariant of a quiescent state -/
def Good (s : State) : Prop := Mid s 0 0 0 0 0

theorem mid_switch {s : State} {n n' : Nat} (h : Mid s n 0 0 0 0) : Mid s n' 0 0 0 0 :=
  ⟨h.topo, h.params, h.pods, reqPend_zero.mpr (reqPend_zero.mp h.req), usedPend_zero.mpr (usedPend_zero.mp h.used)⟩

theorem good_localInv {s : State} (h : Good s) : LocalInv s :=
  ⟨reqPend_zero.mp h.req, usedPend_zero.mp h.used⟩

theorem mid_cast {s : State} {n : Nat} {a b c d a' b' c' d' : Int} (h : Mid s n a b c d)
    (ha : a = a') (hb : b = b') (hc : c = c') (hd : d = d') : Mid s n a' b' c' d' := by
  subst ha hb hc hd; exact h

/-- updatePodRequestNoLock on a quota that declares the dimension -/
theorem updPodReq_mid {s : State} {n : Nat} {a b c d : Int} {q : Quota} (old new : Option PodObj)
    (h : Mid s n a b c d) (hq : get? s n = some q) (hmax : q.max.isSome = true)
    (hself : 0 ≤ q.selfRequest + (reqOf new - reqOf old) ∧ 0 ≤ q.selfNpRequest + (npOf new - npOf old)) :
    Mid (updPodReq s n old new) n (a - (reqOf new - reqOf old)) (b - (npOf new - npOf old)) c d := by
  simp only [updPodReq, hq, hmax, if_true]
  split
  · next hz => exact mid_cast h (by omega) (by omega) rfl rfl
  · obtain ⟨p1, p2, p3⟩ := h.topo.paths n (by simp [hq])
    have hr := propReq_pend p1 p2 p3 h.topo.tree h.params h.req (fun q0 h0 => by rw [hq] at h0; cases h0; exact hself)
    exact ⟨topo_congr hr.2.2.2.1 h.topo, hr.2.2.2.2,
      podsOK_of_map (propReqW_map (·.pods) (fun q q' h => h.pods) clamp0 _ s true _ _) h.pods,
      hr.2.1, hr.2.2.1 _ _ _ h.used⟩

/-- updatePodUsedNoLock when the assigned check passes -/
theorem updPodUsed_mid {s : State} {n id : Nat} {a b c d : Int} {q : Quota} (old new : Option PodObj)
    (h : Mid s n a b c d) (hq : get? s n = some q) (hmax : q.max.isSome = true)
    (hasg : (!(new.isSome && podAssigned q id) && !(old.isSome && podAssigned q id)) = false)
    (hself : 0 ≤ q.selfUsed + (reqOf new - reqOf old) ∧ 0 ≤ q.selfNpUsed + (npOf new - npOf old)) :
    Mid (updPodUsed s n id old new) n a b (c - (reqOf new - reqOf old)) (d - (npOf new - npOf old)) := by
  simp only [updPodUsed, hq, hmax, if_true, hasg, Bool.false_eq_true, if_false]
  split
  · next hz => exact mid_cast h rfl rfl (by omega) (by omega)
  · obtain ⟨p1, p2, p3⟩ := h.topo.paths n (by simp [hq])
    have hr := propUsed_pend p1 p2 p3 h.topo.tree h.params h.used (fun q0 h0 => by rw [hq] at h0; cases h0; exact hself)
    exact ⟨topo_congr hr.2.2.2.1 h.topo, hr.2.2.2.2,
      podsOK_of_map (propUsedW_map (·.pods) (fun q q' h => h.pods) clamp0 _ s true _ _) h.pods,
      hr.2.2.1 _ _ _ h.req, hr.2.1⟩

/-- replace the cache of `n` -/
theorem setPods_mid {s : State} {n : Nat} {a b c d : Int} {q : Quota} (ps' : List Pod)
    (h : Mid s n a b c d) (hq : get? s n = some q)
    (hnn : ∀ p ∈ ps', 0 ≤ p.req) (hnd : (ps'.map (·.id)).Nodup) :
    Mid (set s { q with pods := ps' }) n
      (a + (podSum (fun _ => true) ps' - podSum (fun _ => true) q.pods))
      (b + (podSum (fun p => p.np) ps' - podSum (fun p => p.np) q.pods))
      (c + (podSum (fun p => p.assigned) ps' - podSum (fun p => p.assigned) q.pods))
      (d + (podSum (fun p => p.assigned && p.np) ps' - podSum (fun p => p.assigned && p.np) q.pods)) := by
  have hqn := get?_name hq
  have hq' : get? s ({ q with pods := ps' } : Quota).name = some q := by simpa [hqn] using hq
  have hget := get?_set hq'
  have htree : tree (set s { q with pods := ps' }) = tree s := tree_set hq' rfl
  have hsum : ∀ (v : Quota → Int), v { q with pods := ps' } = v q → ∀ m,
      sumKids v m (set s { q with pods := ps' }) = sumKids v m s := by
    intro v hv m
    exact sumKids_eq_of_map v m s _ (set_map _ hq' (by simp [hv]))
  have e1 := hsum Quota.limited (by simp [Quota.limited])
  have e2 := hsum (·.npRequest) rfl
  have e3 := hsum (·.used) rfl
  have e4 := hsum (·.npUsed) rfl
  refine ⟨topo_congr htree h.topo, ?_, ?_, ?_, ?_⟩
  · intro x hx
    rcases mem_set hx with e | e
    · subst e; exact ⟨(h.params q (get?_mem hq)).1, hnn⟩
    · exact h.params x e
  · intro x hx
    rcases mem_set hx with e | e
    · subst e; exact hnd
    · exact h.pods x e
  · intro m q0 h0
    rw [hget m] at h0
    by_cases hm : m = n
    · simp only [hm, hqn, if_true, Option.some.injEq] at h0
      subst h0
      obtain ⟨a1, b1, c1, d1, f1⟩ := h.req n q hq
      subst hm
      simp only [if_true] at a1 b1 ⊢
      refine ⟨by omega, by omega, ?_, ?_, ?_⟩
      · simp only [dCR, e1] at c1 ⊢; simp only [crOf, hqn] at c1 ⊢; exact c1
      · simp only [dNpReq, e2] at d1 ⊢; exact d1
      · intro hr; have := f1 hr; simpa [lendRule] using this
    · have hmn : ¬ m = ({ q with pods := ps' } : Quota).name := by simpa [hqn] using hm
      simp only [hmn, if_false] at h0
      obtain ⟨a1, b1, c1, d1, f1⟩ := h.req m q0 h0
      simp only [hm, if_false] at a1 b1 ⊢
      refine ⟨a1, b1, ?_, ?_, f1⟩
      · simp only [dCR, e1] at c1 ⊢; exact c1
      · simp only [dNpReq, e2] at d1 ⊢; exact d1
  · intro m q0 h0
    rw [hget m] at h0
    by_cases hm : m = n
    · simp only [hm, hqn, if_true, Option.some.injEq] at h0
      subst h0
      obtain ⟨a1, b1, c1, d1⟩ := h.used n q hq
      subst hm
      simp only [if_true] at a1 b1 ⊢
      refine ⟨by omega, by omega, ?_, ?_⟩
      · simp only [dUsed, e3] at c1 ⊢; exact c1
      · simp only [dNpUsed, e4] at d1 ⊢; exact d1
    · have hmn : ¬ m = ({ q with pods := ps' } : Quota).name := by simpa [hqn] using hm
      simp only [hmn, if_false] at h0
      obtain ⟨a1, b1, c1, d1⟩ := h.used m q0 h0
      simp only [hm, if_false] at a1 b1 ⊢
      refine ⟨a1, b1, ?_, ?_⟩
      · simp only [dUsed, e3] at c1 ⊢; exact c1
      · simp only [dNpUsed, e4] at d1 ⊢; exact d1

end KoordVerif.C01
