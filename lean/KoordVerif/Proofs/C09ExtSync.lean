import KoordVerif.Model.C09Plugin
import KoordVerif.Props.C09
import KoordVerif.Proofs.C09ExtMid
/-
C09 extension — Prepare / NeedSync / one reconcile / histories of reconciles.
-/
namespace KoordVerif.C09

/-- assumptions on the float64 comparison of IsQuantityDiff (`|new−old| > old·(k/1000)` on milli values):
    it agrees with the exact comparison except possibly on the exact boundary, and equal non-negative amounts
    never differ.  Checked by the harness on every generated (old, new, threshold). -/
structure DiffOK (D : DiffOps) : Prop where
  gt_sound    : ∀ o n k, 0 ≤ o → 0 ≤ k → D.diffGt o n k = true → o * k ≤ 1000 * ((n - o).natAbs : Int) ∧ n ≠ o
  gt_complete : ∀ o n k, D.diffGt o n k = false → 1000 * ((n - o).natAbs : Int) ≤ o * k

/-- the exact comparison satisfies them. -/
def exactDiff : DiffOps := { diffGt := fun o n k => decide (o * k < 1000 * ((n - o).natAbs : Int)) }

theorem exactDiff_ok : DiffOK exactDiff where
  gt_sound o n k ho hk h := by
    simp only [exactDiff, decide_eq_true_eq] at h
    refine ⟨by omega, ?_⟩
    intro hn; subst hn
    have : 0 ≤ n * k := Int.mul_nonneg ho hk
    simp at h; omega
  gt_complete o n k h := by
    simp only [exactDiff, decide_eq_false_iff_not] at h; omega

/-! ### NeedSync is exactly "presence differs, or the relative difference exceeds the threshold" -/

/-- two amounts of one extended resource are close: both absent, or both present and within the threshold
    (`|new − old| ≤ old · k/1000`). -/
def CloseRes (k : Int) (old new : Ext) : Prop :=
  match old, new with
  | none, none => True
  | some o, some n => 1000 * ((n - o).natAbs : Int) ≤ o * k
  | _, _ => False

/-- they are far: presence differs, or both present and at least the threshold apart and different. -/
def FarRes (k : Int) (old new : Ext) : Prop :=
  match old, new with
  | none, none => False
  | some o, some n => o * k ≤ 1000 * ((n - o).natAbs : Int) ∧ n ≠ o
  | _, _ => True

theorem milli_scale (o n k : Int) :
    ((1000 * n - 1000 * o).natAbs : Int) = 1000 * ((n - o).natAbs : Int) ∧ (1000 * o) * k = 1000 * (o * k) := by
  refine ⟨by omega, ?_⟩
  rw [Int.mul_assoc]

theorem resDiff_false_close (D : DiffOps) (hD : DiffOK D) (k : Int) (old new : Ext) (h : resDiff D k old new = false) :
    CloseRes k old new := by
  cases old <;> cases new <;> simp [resDiff] at h <;> simp [CloseRes]
  rename_i o n
  have := hD.gt_complete _ _ _ h
  obtain ⟨e1, e2⟩ := milli_scale o n k
  rw [e1, e2] at this
  omega

theorem resDiff_true_far (D : DiffOps) (hD : DiffOK D) (k : Int) (hk : 0 ≤ k) (old new : Ext)
    (hold : ∀ o, old = some o → 0 ≤ o) (h : resDiff D k old new = true) : FarRes k old new := by
  cases old <;> cases new <;> simp [resDiff] at h <;> simp [FarRes]
  rename_i o n
  have ho := hold o rfl
  have := hD.gt_sound _ _ _ (by omega) hk h
  obtain ⟨e1, e2⟩ := milli_scale o n k
  rw [e1, e2] at this
  omega

/-- an amount never differs from itself. -/
theorem resDiff_self (D : DiffOps) (hD : DiffOK D) (k : Int) (hk : 0 ≤ k) (e : Ext) (he : ∀ o, e = some o → 0 ≤ o) :
    resDiff D k e e = false := by
  cases e with
  | none => rfl
  | some o =>
    simp only [resDiff]
    cases h : D.diffGt (1000 * o) (1000 * o) k
    · rfl
    · exact absurd rfl (hD.gt_sound _ _ _ (by have := he o rfl; omega) hk h).2

def ClosePub (k : Int) (old new : Pub) : Prop :=
  CloseRes k old.bc new.bc ∧ CloseRes k old.bm new.bm ∧ CloseRes k old.mc new.mc ∧ CloseRes k old.mm new.mm

theorem CloseRes.refl (k : Int) (hk : 0 ≤ k) (e : Ext) (he : ∀ o, e = some o → 0 ≤ o) : CloseRes k e e := by
  cases e with
  | none => trivial
  | some o =>
    simp only [CloseRes]
    have := he o rfl
    have : 0 ≤ o * k := Int.mul_nonneg this hk
    simp; omega

def PubNonneg (p : Pub) : Prop :=
  (∀ o, p.bc = some o → 0 ≤ o) ∧ (∀ o, p.bm = some o → 0 ≤ o) ∧ (∀ o, p.mc = some o → 0 ≤ o) ∧ (∀ o, p.mm = some o → 0 ≤ o)

theorem ClosePub.refl (k : Int) (hk : 0 ≤ k) (p : Pub) (hp : PubNonneg p) : ClosePub k p p :=
  ⟨CloseRes.refl k hk _ hp.1, CloseRes.refl k hk _ hp.2.1, CloseRes.refl k hk _ hp.2.2.1, CloseRes.refl k hk _ hp.2.2.2⟩

/-- no plugin asks for a sync ⇒ all four resources are close. -/
theorem plugins_quiet_close (D : DiffOps) (hD : DiffOK D) (k : Int) (old new : Pub)
    (h : pluginsNeedSync D k old new = false) : ClosePub k old new := by
  simp only [pluginsNeedSync, midNeedSync, batchNeedSync, Bool.or_eq_false_iff] at h
  obtain ⟨⟨h1, h2⟩, h3, h4⟩ := h
  exact ⟨resDiff_false_close D hD k _ _ h3, resDiff_false_close D hD k _ _ h4,
         resDiff_false_close D hD k _ _ h1, resDiff_false_close D hD k _ _ h2⟩

/-- a plugin asks for a sync ⇒ some resource is far. -/
theorem plugins_loud_far (D : DiffOps) (hD : DiffOK D) (k : Int) (hk : 0 ≤ k) (old new : Pub) (hold : PubNonneg old)
    (h : pluginsNeedSync D k old new = true) :
    FarRes k old.bc new.bc ∨ FarRes k old.bm new.bm ∨ FarRes k old.mc new.mc ∨ FarRes k old.mm new.mm := by
  simp only [pluginsNeedSync, midNeedSync, batchNeedSync, Bool.or_eq_true] at h
  rcases h with (h | h) | (h | h)
  · exact .inr (.inr (.inl (resDiff_true_far D hD k hk _ _ hold.2.2.1 h)))
  · exact .inr (.inr (.inr (resDiff_true_far D hD k hk _ _ hold.2.2.2 h)))
  · exact .inl (resDiff_true_far D hD k hk _ _ hold.1 h)
  · exact .inr (.inl (resDiff_true_far D hD k hk _ _ hold.2.1 h))

theorem resDiff_presence (D : DiffOps) (k : Int) (o n : Ext) (h : o.isSome ≠ n.isSome) : resDiff D k o n = true := by
  cases o <;> cases n <;> simp_all [resDiff]

/-- withdrawing (or first publishing) a resource always triggers a sync, whatever the threshold. -/
theorem presence_change_syncs (D : DiffOps) (k : Int) (old new : Pub)
    (h : old.bc.isSome ≠ new.bc.isSome ∨ old.bm.isSome ≠ new.bm.isSome ∨ old.mc.isSome ≠ new.mc.isSome ∨ old.mm.isSome ≠ new.mm.isSome) :
    pluginsNeedSync D k old new = true := by
  simp only [pluginsNeedSync, midNeedSync, batchNeedSync, Bool.or_eq_true]
  rcases h with h | h | h | h
  · exact .inr (.inl (resDiff_presence D k _ _ h))
  · exact .inr (.inr (resDiff_presence D k _ _ h))
  · exact .inl (.inl (resDiff_presence D k _ _ h))
  · exact .inl (.inr (resDiff_presence D k _ _ h))

/-! ### one reconcile -/

/-- the node is written iff the last sync is missing or older than the interval, or some plugin sees a difference
    (isNodeResourceSyncNeeded); otherwise the state is untouched. -/
theorem reconcile_sync_iff (D : DiffOps) (thr interval now : Int) (st : RState) (c : Pub) :
    (reconcileStep D thr interval now st c = { pub := c, lastSync := some now } ↔
        (commonNeedSync st.lastSync now interval = true ∨ pluginsNeedSync D thr st.pub c = true) ∨ st = { pub := c, lastSync := some now }) ∧
    (commonNeedSync st.lastSync now interval = false → pluginsNeedSync D thr st.pub c = false → reconcileStep D thr interval now st c = st) := by
  unfold reconcileStep
  constructor
  · constructor
    · intro h
      split at h
      · left; simp_all
      · right; exact h
    · rintro (h | h)
      · simp [h]
      · split
        · rfl
        · exact h
  · intro h1 h2; simp [h1, h2]

theorem commonNeedSync_iff (last : Option Int) (now interval : Int) :
    commonNeedSync last now interval = true ↔ (last = none ∨ ∃ t, last = some t ∧ now - t > interval) := by
  cases last <;> simp [commonNeedSync]

/-- after EVERY reconcile (whatever the state before): either the node carries exactly the computed amounts, or
    it was synced at most `interval` seconds ago and every amount is within the threshold of the computed one. -/
theorem reconcile_close (D : DiffOps) (hD : DiffOK D) (thr interval now : Int) (st : RState) (c : Pub) :
    let st' := reconcileStep D thr interval now st c
    (st'.pub = c ∧ st'.lastSync = some now) ∨
    (st' = st ∧ ClosePub thr st.pub c ∧ ∃ t, st.lastSync = some t ∧ now - t ≤ interval) := by
  simp only [reconcileStep]
  split
  · left; exact ⟨rfl, rfl⟩
  · rename_i h
    simp only [Bool.or_eq_true, not_or, Bool.not_eq_true] at h
    right
    refine ⟨rfl, plugins_quiet_close D hD thr _ _ h.2, ?_⟩
    cases hl : st.lastSync with
    | none => simp [commonNeedSync, hl] at h
    | some t =>
      refine ⟨t, rfl, ?_⟩
      have := h.1
      simp [commonNeedSync, hl] at this
      omega

/-- a deviation that is tolerated (within the threshold) is removed by the first reconcile later than
    `interval` after the last sync. -/
theorem reconcile_expired_syncs (D : DiffOps) (thr interval now : Int) (st : RState) (c : Pub)
    (h : st.lastSync = none ∨ ∃ t, st.lastSync = some t ∧ now - t > interval) :
    (reconcileStep D thr interval now st c).pub = c := by
  have := (commonNeedSync_iff st.lastSync now interval).mpr h
  simp [reconcileStep, this]

/-- stale metrics / disabled colocation (the plugins compute "absent" for every resource): after the reconcile
    the node carries none of the four resources — from ANY previous state, regardless of thresholds. -/
theorem reconcile_withdraws (D : DiffOps) (thr interval now : Int) (st : RState) :
    (reconcileStep D thr interval now st Pub.empty).pub = Pub.empty := by
  simp only [reconcileStep]
  split
  · rfl
  · rename_i h
    simp only [Bool.or_eq_true, not_or, Bool.not_eq_true] at h
    have h2 := h.2
    simp only [pluginsNeedSync, midNeedSync, batchNeedSync, Bool.or_eq_false_iff, Pub.empty] at h2
    obtain ⟨⟨h1, h2⟩, h3, h4⟩ := h2
    have key : ∀ e : Ext, resDiff D thr e none = false → e = none := by
      intro e he; cases e <;> simp_all [resDiff]
    cases hp : st.pub with
    | mk bc bm mc mm =>
      simp only [hp] at h1 h2 h3 h4
      simp [Pub.empty, key _ h1, key _ h2, key _ h3, key _ h4]

/-! ### histories of reconciles -/

theorem runHist_append (D : DiffOps) (st : RState) (a b : List Round) :
    runHist D st (a ++ b) = runHist D (runHist D st a) b := by
  induction a generalizing st with
  | nil => rfl
  | cons r rs ih => simp [runHist, ih]

/-- over any history of reconciles (metric updates, pod changes, strategy changes, node updates all enter through
    `computed`, `thr`, `interval`), after every round `r` of the history: the node's amounts are the computed ones,
    or they are within r's threshold of them and the node was written at most r.interval seconds before. -/
theorem hist_close_after_every_round (D : DiffOps) (hD : DiffOK D) (st : RState) (pre : List Round) (r : Round) :
    let st' := runHist D st (pre ++ [r])
    st'.pub = r.computed ∨ (ClosePub r.thr st'.pub r.computed ∧ ∃ t, st'.lastSync = some t ∧ r.now - t ≤ r.interval) := by
  simp only [runHist_append, runHist]
  rcases reconcile_close D hD r.thr r.interval r.now (runHist D st pre) r.computed with h | ⟨h1, h2, h3⟩
  · left; exact h.1
  · right; rw [h1]; exact ⟨h2, h3⟩

/-- a stale metric anywhere in a history withdraws all four resources at that round … -/
theorem hist_degrade (D : DiffOps) (st : RState) (pre : List Round) (r : Round) (h : r.computed = Pub.empty) :
    (runHist D st (pre ++ [r])).pub = Pub.empty := by
  simp only [runHist_append, runHist, h]
  exact reconcile_withdraws D r.thr r.interval r.now _

/-- … and the first round with fresh metrics after it publishes exactly the computed amounts again, provided it
    computes some resource (presence changes always sync). -/
theorem hist_recover (D : DiffOps) (st : RState) (pre : List Round) (r r' : Round) (h : r.computed = Pub.empty)
    (h' : r'.computed.bc.isSome ∨ r'.computed.bm.isSome ∨ r'.computed.mc.isSome ∨ r'.computed.mm.isSome) :
    (runHist D st (pre ++ [r, r'])).pub = r'.computed := by
  have e : pre ++ [r, r'] = (pre ++ [r]) ++ [r'] := by simp
  rw [e, runHist_append]
  have hp := hist_degrade D st pre r h
  simp only [runHist, reconcileStep]
  have : pluginsNeedSync D r'.thr (runHist D st (pre ++ [r])).pub r'.computed = true := by
    apply presence_change_syncs
    rw [hp]
    simp only [Pub.empty, Option.isSome_none]
    rcases h' with h' | h' | h' | h'
    · left; simp [h']
    · right; left; simp [h']
    · right; right; left; simp [h']
    · right; right; right; simp [h']
  simp [this]

/-! ### what Reconcile computes -/

/-- stale or missing NodeMetric ⇒ all four resources are computed absent (mid and batch, cpu and memory). -/
theorem computed_stale_empty (F : FloatOps) (k : PrioConsts) (df : MidDefaults) (en : Bool) (s : Strategy) (ms : MidStrategy)
    (n : NodeIn) (allocNil : Bool) (hs : List HostApp) (pods : List PodIn) (mets : List Metric) (mm : MidMetric)
    (hasUpd : Bool) (now upd : Int) (h : hasUpd = false ∨ now > upd + s.degradeMin * 60) :
    computedPub F k df en s ms n allocNil hs pods mets mm hasUpd now upd = Pub.empty := by
  unfold computedPub
  cases en
  · rfl
  · have h1 := mid_stale_withdrawn F k df ms s.degradeMin n allocNil hs pods mm hasUpd now upd h
    have h2 := degrade_resets F k s n hs pods mets [] hasUpd now upd h
    simp [h1, h2, batchOutQuantities, batchPrepare, prepareBatchCPU, prepareRes, Pub.empty]

theorem computed_disabled_empty (F : FloatOps) (k : PrioConsts) (df : MidDefaults) (s : Strategy) (ms : MidStrategy)
    (n : NodeIn) (allocNil : Bool) (hs : List HostApp) (pods : List PodIn) (mets : List Metric) (mm : MidMetric)
    (hasUpd : Bool) (now upd : Int) :
    computedPub F k df false s ms n allocNil hs pods mets mm hasUpd now upd = Pub.empty := by
  simp [computedPub]

/-- fresh metrics, colocation enabled, well-formed node: Reconcile computes exactly the calculators' amounts, so every
    bound proved for `nodeBatch` / `midAmount` is a bound on what can ever be written to the node. -/
theorem computed_fresh (F : FloatOps) (k : PrioConsts) (df : MidDefaults) (s : Strategy) (ms : MidStrategy)
    (n : NodeIn) (hs : List HostApp) (pods : List PodIn) (mets : List Metric) (mm : MidMetric)
    (now upd : Int) (h : now ≤ upd + s.degradeMin * 60)
    (hc : 0 ≤ nodeBatch F k s n hs pods mets .cpu) (hm : 0 ≤ nodeBatch F k s n hs pods mets .mem) :
    computedPub F k df true s ms n false hs pods mets mm true now upd =
      { bc := some (nodeBatch F k s n hs pods mets .cpu), bm := some (nodeBatch F k s n hs pods mets .mem),
        mc := some (midAmount F k df ms n hs pods mm .cpu), mm := some (midAmount F k df ms n hs pods mm .mem) } := by
  have hd : isDegradeNeeded true now upd s.degradeMin = false := by
    unfold isDegradeNeeded
    have : ¬ (now > upd + s.degradeMin * 60) := by omega
    simp [this]
  have h1 := mid_fresh_published F k df ms s.degradeMin n hs pods mm now upd h
  have hc' : ¬ (nodeBatch F k s n hs pods mets .cpu < 0) := by omega
  have hm' : ¬ (nodeBatch F k s n hs pods mets .mem < 0) := by omega
  simp [computedPub, h1, calculate, hd, batchOutQuantities, batchPrepare, prepareBatchCPU, prepareRes, amplify, hc', hm']

/-- whatever a history feeds in, a node amount is always one that some earlier (or the current) round computed:
    the controller never invents a value. -/
theorem hist_pub_from_rounds (D : DiffOps) (st : RState) (rs : List Round) :
    (runHist D st rs).pub = st.pub ∨ ∃ r ∈ rs, (runHist D st rs).pub = r.computed := by
  induction rs generalizing st with
  | nil => left; rfl
  | cons r rest ih =>
    simp only [runHist]
    rcases ih (reconcileStep D r.thr r.interval r.now st r.computed) with h | ⟨r', hr', h⟩
    · rw [h]
      simp only [reconcileStep]
      split
      · right; exact ⟨r, by simp, rfl⟩
      · left; rfl
    · right; exact ⟨r', by simp [hr'], h⟩

/-! ### batch Prepare -/

theorem milliToValue_nonneg (m : Int) (h : 0 ≤ m) : 0 ≤ milliToValue m := by
  unfold milliToValue; omega

theorem amplify_nonneg (F : FloatOps) (hF : FloatOK F) (r : Option Int) (v : Int) (hv : 0 ≤ v) : 0 ≤ amplify F r v := by
  unfold amplify
  cases r with
  | none => exact hv
  | some r =>
    simp only
    split
    · exact milliToValue_nonneg _ (hF.mul_nonneg _ _ (by omega) (by omega))
    · exact hv

/-- Reset (degrade / disabled) ⇒ Prepare removes both batch resources, whatever the annotations say. -/
theorem batchPrepare_reset (F : FloatOps) (r : Option Int) (an : Bool) (tp : ThirdParty) (qc qm : Option Int) :
    (batchPrepare F r an tp qc qm true).cpu = none ∧ (batchPrepare F r an tp qc qm true).mem = none := by
  cases qc <;> cases qm <;> simp [batchPrepare, prepareBatchCPU, prepareRes]

/-- what Prepare writes is non-negative and never above the (amplified) calculated amount; third-party
    allocations only lower it. -/
theorem batchPrepare_bounds (F : FloatOps) (hF : FloatOK F) (r : Option Int) (an : Bool) (tp : ThirdParty) (qc qm : Int)
    (hc : 0 ≤ qc) (hm : 0 ≤ qm)
    (htp : ∀ a b, tp = .some a b → 0 ≤ a.getD 0 ∧ 0 ≤ b.getD 0) :
    ∃ c m, (batchPrepare F r an tp (some qc) (some qm) false).cpu = some c ∧
           (batchPrepare F r an tp (some qc) (some qm) false).mem = some m ∧
           0 ≤ c ∧ c ≤ amplify F r qc ∧ 0 ≤ m ∧ m ≤ qm := by
  have ha := amplify_nonneg F hF r qc hc
  have h1 : ¬ (amplify F r qc < 0) := by omega
  have h2 : ¬ (qm < 0) := by omega
  cases tp with
  | absent => exact ⟨amplify F r qc, qm, by simp [batchPrepare, prepareBatchCPU, prepareRes, h1, h2], by simp [batchPrepare, prepareBatchCPU, prepareRes, h1, h2], ha, Int.le_refl _, hm, Int.le_refl _⟩
  | bad => exact ⟨amplify F r qc, qm, by simp [batchPrepare, prepareBatchCPU, prepareRes, h1, h2], by simp [batchPrepare, prepareBatchCPU, prepareRes, h1, h2], ha, Int.le_refl _, hm, Int.le_refl _⟩
  | some a b =>
    obtain ⟨h3, h4⟩ := htp a b rfl
    refine ⟨max (max (amplify F r qc) 0 - a.getD 0) 0, max (max qm 0 - b.getD 0) 0, ?_, ?_, ?_, ?_, ?_, ?_⟩
    · simp [batchPrepare, prepareBatchCPU, prepareRes, h1, h2]
    · simp [batchPrepare, prepareBatchCPU, prepareRes, h1, h2]
    all_goals omega

/-- non-vacuity: a history in which the published batch-cpu follows 100 → (98 tolerated) → 80 → withdrawn → 90. -/
def exRounds : List Round :=
  [ { thr := 100, interval := 300, now := 0,   computed := { Pub.empty with bc := some 100 } },
    { thr := 100, interval := 300, now := 60,  computed := { Pub.empty with bc := some 98 } },
    { thr := 100, interval := 300, now := 120, computed := { Pub.empty with bc := some 80 } },
    { thr := 100, interval := 300, now := 180, computed := Pub.empty },
    { thr := 100, interval := 300, now := 240, computed := { Pub.empty with bc := some 90 } } ]

example : (runHist exactDiff RState.init (exRounds.take 2)).pub.bc = some 100 := by decide
example : (runHist exactDiff RState.init (exRounds.take 3)).pub.bc = some 80 := by decide
example : (runHist exactDiff RState.init (exRounds.take 4)).pub = Pub.empty := by decide
example : (runHist exactDiff RState.init exRounds).pub.bc = some 90 := by decide

end KoordVerif.C09
