import KoordVerif.Props.C07
namespace KoordVerif.C07

/-! ### allocateSet = the live pods (the duplicate gate is keyed on it) -/

theorem hasPod_append (s : TState) (x : List (Nat × DevRes)) (q : Nat) :
    hasPod { s with pods := s.pods ++ x } q = (hasPod s q || x.any (fun e => e.1 == q)) := by
  simp [hasPod, List.any_append]

/-- an add leaves the pod recorded, and changes the recorded set for no other pod -/
theorem add_records (s : TState) (p : Nat) (al : List (Nat × RL)) (q : Nat) :
    hasPod (addT s p al) q = (hasPod s q || decide (p = q)) := by
  simp only [addT]
  cases hp : hasPod s p with
  | true =>
    simp only [if_true]
    by_cases h : p = q
    · subst h; simp [hp]
    · simp [h]
  | false =>
    simp only [Bool.false_eq_true, if_false]
    show hasPod { (resetFree { s with used := usedAdd s.used al }) with
      pods := (resetFree { s with used := usedAdd s.used al }).pods ++ [(p, recOf al)] } q = _
    rw [hasPod_append]
    by_cases h : p = q <;> simp [hasPod, resetFree, h]

/-- a removal leaves the pod unrecorded, and changes the recorded set for no other pod -/
theorem remove_forgets (s : TState) (p : Nat) (al : List (Nat × RL)) (q : Nat) :
    hasPod (removeT s p al) q = (hasPod s q && !decide (p = q)) := by
  simp only [removeT]
  cases hp : hasPod s p with
  | false =>
    simp only [Bool.not_false, if_true]
    by_cases h : p = q
    · subst h; simp [hp]
    · simp [h]
  | true =>
    simp only [Bool.not_true, Bool.false_eq_true, if_false]
    show (List.filter (fun e => e.1 != p) s.pods).any (fun e => e.1 == q) = _
    simp only [hasPod, List.any_filter]
    by_cases h : p = q
    · subst h
      simp only [decide_true, Bool.not_true, Bool.and_false]
      rw [List.any_eq_false]
      intro e _
      by_cases h2 : e.1 = p <;> simp [h2]
    · simp only [h, decide_false, Bool.not_false, Bool.and_true]
      congr 1
      funext e
      by_cases h2 : e.1 = q
      · have : e.1 ≠ p := fun h3 => h (h3 ▸ h2)
        simp [h2, this]
        exact fun h3 => h (h3 ▸ rfl)
      · simp [h2]

/-- a refresh does not touch allocateSet and installs exactly the new inventory as total -/
theorem refresh_total (s : TState) (nt : DevRes) (m k : Nat) :
    (refreshT s nt).pods = s.pods ∧ drVal (refreshT s nt).total m k = drVal nt m k := by
  refine ⟨rfl, ?_⟩
  simp only [refreshT, resetFree_total_val]

end KoordVerif.C07
