import KoordVerif.Props.C07
import KoordVerif.Proofs.C07Ext
namespace KoordVerif.C07

/-! ### the ledgers stay maps over every history -/

structure Inv3 (s : TState) : Prop where
  tk : KeysNodup s.total
  fk : KeysNodup s.free
  uk : KeysNodup s.used

theorem inv3_empty : Inv3 TState.empty := by
  refine ⟨?_, ?_, ?_⟩ <;> simp [KeysNodup, TState.empty]

theorem inv3_resetFree (s : TState) (ht : KeysNodup s.total) (hu : KeysNodup s.used) : Inv3 (resetFree s) := by
  obtain ⟨h1, h2, h3⟩ := keysNodup_resetFree s ht hu
  exact ⟨h1, h2, h3⟩

theorem inv3_setPods (s : TState) (x : List (Nat × DevRes)) (h : Inv3 s) : Inv3 { s with pods := x } :=
  ⟨h.tk, h.fk, h.uk⟩

theorem opWF_of_B (op : Op) (h : opWFB op = true) : OpWF op := by
  cases op with
  | add p al => exact alNonneg_of al h
  | remove p al => exact alNonneg_of al h
  | refresh nt =>
    simp only [opWFB, invOK, Bool.and_eq_true] at h
    exact fun m k => drVal_nonneg_of nt h.1 m k

theorem step_preserves_inv3 (s : TState) (op : Op) (h : Inv3 s) (hop : opWFB op = true) : Inv3 (step s op) := by
  cases op with
  | add p al =>
    simp only [step, addT]
    split
    · exact h
    · exact inv3_setPods _ _
        (inv3_resetFree { s with used := usedAdd s.used al } h.tk (keysNodup_usedAdd al s.used h.uk))
  | remove p al =>
    simp only [step, removeT]
    split
    · exact h
    · exact inv3_setPods _ _
        (inv3_resetFree { s with used := usedSub s.used al } h.tk (keysNodup_usedSub al s.used h.uk))
  | refresh nt =>
    simp only [opWFB, invOK, Bool.and_eq_true] at hop
    exact inv3_resetFree { s with total := nt } ((nodupB_iff _).mp hop.2) h.uk

theorem run_inv3 (ops : List Op) : ∀ (s : TState), Inv3 s → histWFB ops = true → Inv3 (run s ops) := by
  induction ops with
  | nil => intro s h _; exact h
  | cons op rest ih =>
    intro s h hw
    simp only [histWFB, List.all_cons, Bool.and_eq_true] at hw
    simp only [run, List.foldl]
    exact ih _ (step_preserves_inv3 s op h hw.1) hw.2

theorem histWF_forall (ops : List Op) (hw : histWFB ops = true) : ∀ op ∈ ops, OpWF op := by
  intro op hop
  simp only [histWFB, List.all_eq_true] at hw
  exact opWF_of_B op (hw op hop)

/-- **keys_nodup**: after ANY history (weakly well-formed: amounts ≥ 0, inventories are maps) total, free and used
    have one entry per minor. -/
theorem keys_nodup (ops : List Op) (hw : histWFB ops = true) :
    let s := run TState.empty ops
    KeysNodup s.total ∧ KeysNodup s.free ∧ KeysNodup s.used := by
  have h := run_inv3 ops _ inv3_empty hw
  exact ⟨h.tk, h.fk, h.uk⟩

/-! ### 2. used = Σ allocateSet over exact histories -/

structure Inv2 (s : TState) : Prop where
  pk : (s.pods.map (·.1)).Nodup
  rpos : ∀ e ∈ s.pods, ∀ m k, 0 ≤ drVal e.2 m k
  sum : ∀ m k, drVal s.used m k = podsSum s.pods m k

theorem inv2_empty : Inv2 TState.empty := by
  refine ⟨?_, ?_, ?_⟩
  · simp [TState.empty]
  · intro e he; simp [TState.empty] at he
  · intro m k; simp [TState.empty, podsSum, drVal, drGetD, drGet, rlVal_nil]

theorem step_preserves_inv2 (s : TState) (op : Op) (h : Inv2 s) (hop : opExact s op = true) : Inv2 (step s op) := by
  cases op with
  | add p al =>
    simp only [step, addT]
    cases hp : hasPod s p with
    | true => simpa using h
    | false =>
      simp only [opExact, hp, Bool.false_or, alOK, Bool.and_eq_true] at hop
      have hn : (al.map (·.1)).Nodup := (nodupB_iff _).mp hop.2
      have hal := alNonneg_of al hop.1
      have hget : podsGet s.pods p = none := by
        have := hasPod_iff_get s p
        rw [hp] at this
        cases hg : podsGet s.pods p with
        | none => rfl
        | some r => rw [hg] at this; simp at this
      simp only [Bool.false_eq_true, if_false]
      refine ⟨?_, ?_, ?_⟩
      · show ((s.pods ++ [(p, recOf al)]).map (·.1)).Nodup
        rw [List.map_append]
        apply nodup_append_of _ _ h.pk (by simp)
        intro x hx
        simp only [List.map_cons, List.map_nil, List.mem_singleton] at hx
        subst hx
        exact podsGet_none_not_mem s.pods x hget
      · intro e he m k
        have he' : e ∈ s.pods ++ [(p, recOf al)] := he
        rcases List.mem_append.mp he' with h1 | h1
        · exact h.rpos e h1 m k
        · simp only [List.mem_singleton] at h1
          subst h1
          show 0 ≤ drVal (recOf al) m k
          rw [recOf_val al hn]
          exact alSum_nonneg al hal m k
      · intro m k
        show drVal (usedAdd s.used al) m k = podsSum (s.pods ++ [(p, recOf al)]) m k
        rw [usedAdd_val, podsSum_append, h.sum m k]
        simp [podsSum, recOf_val al hn]
  | remove p al =>
    simp only [step, removeT]
    cases hg : podsGet s.pods p with
    | none =>
      have : hasPod s p = false := by rw [hasPod_iff_get, hg]; rfl
      simpa [this] using h
    | some r =>
      have hp : hasPod s p = true := by rw [hasPod_iff_get, hg]; rfl
      simp only [opExact, hg, alOK, Bool.and_eq_true, decide_eq_true_eq] at hop
      obtain ⟨⟨hamt, hnd⟩, hrec⟩ := hop
      have hn : (al.map (·.1)).Nodup := (nodupB_iff _).mp hnd
      have hal := alNonneg_of al hamt
      simp only [hp, Bool.not_true, Bool.false_eq_true, if_false]
      refine ⟨?_, ?_, ?_⟩
      · show ((s.pods.filter (fun e => e.1 != p)).map (·.1)).Nodup
        exact List.Nodup.sublist (List.Sublist.map _ List.filter_sublist) h.pk
      · intro e he m k
        have he' : e ∈ s.pods.filter (fun e => e.1 != p) := he
        exact h.rpos e (List.mem_filter.mp he').1 m k
      · intro m k
        show drVal (usedSub s.used al) m k = podsSum (s.pods.filter (fun e => e.1 != p)) m k
        have hu : 0 ≤ drVal s.used m k := by rw [h.sum]; exact podsSum_nonneg s.pods h.rpos m k
        rw [usedSub_val al hal _ _ _ hu, h.sum m k, podsSum_filter s.pods p r h.pk hg m k,
          ← hrec, recOf_val al hn]
        have := podsSum_nonneg (s.pods.filter (fun e => e.1 != p))
          (fun e he => h.rpos e (List.mem_filter.mp he).1) m k
        omega
  | refresh nt =>
    exact ⟨h.pk, h.rpos, h.sum⟩

theorem run_inv2 (ops : List Op) : ∀ (s : TState), Inv2 s → histExact s ops = true → Inv2 (run s ops) := by
  induction ops with
  | nil => intro s h _; exact h
  | cons op rest ih =>
    intro s h hw
    simp only [histExact, Bool.and_eq_true] at hw
    simp only [run, List.foldl]
    exact ih _ (step_preserves_inv2 s op h hw.1) hw.2

/-- **used_eq_sum**: over every history in which each accepted add carries a well-formed allocation (amounts ≥ 0,
    one entry per minor) and each accepted removal carries exactly what allocateSet recorded (`histExact`, a
    decidable predicate the harness evaluates on every generated history), the in-use amount of every device and
    dimension is the sum of the recorded allocations of the live pods, those pods are pairwise distinct and every
    recorded amount is ≥ 0. -/
theorem used_eq_sum (ops : List Op) (hx : histExact TState.empty ops = true) (m k : Nat) :
    let s := run TState.empty ops
    drVal s.used m k = podsSum s.pods m k ∧ (s.pods.map (·.1)).Nodup ∧ 0 ≤ podsSum s.pods m k := by
  have h := run_inv2 ops _ inv2_empty hx
  exact ⟨h.sum m k, h.pk, podsSum_nonneg _ h.rpos m k⟩

/-- a live pod's recorded allocation never exceeds what is in use (so an exact release can never hit the clamp) -/
theorem rec_le_used (ops : List Op) (hx : histExact TState.empty ops = true) (p : Nat) (r : DevRes)
    (hg : podsGet (run TState.empty ops).pods p = some r) (m k : Nat) :
    drVal r m k ≤ drVal (run TState.empty ops).used m k := by
  have h := run_inv2 ops _ inv2_empty hx
  rw [h.sum m k, podsSum_filter _ p r h.pk hg m k]
  have := podsSum_nonneg ((run TState.empty ops).pods.filter (fun e => e.1 != p))
    (fun e he => h.rpos e (List.mem_filter.mp he).1) m k
  omega

/-! ### 4. alloc_sound in full, 3. no_overcommit over all histories -/

/-- **alloc_sound**: in the state reached by ANY weakly well-formed history a successful allocation returns between
    desired and maxDesired DISTINCT minors, each permitted, each a non-zero device whose free entry satisfies
    `LessThanOrEqual(request, free)`; on a device that exposes every requested key that is request ≤ free. -/
theorem alloc_sound (ops : List Op) (hw : histWFB ops = true) (a : AllocReq) (ms : List Nat)
    (h : allocate (run TState.empty ops) a = some ms) :
    let s := run TState.empty ops
    effDesired a ≤ ms.length ∧ ms.length ≤ effMax a ∧ ms.Nodup ∧
    ∀ m ∈ ms, (a.required = [] ∨ m ∈ a.required) ∧
      ∃ f, drGet s.free m = some f ∧ rlIsZero f = false ∧ rlLeq a.req f = true ∧
        (Covered a.req f → ∀ k, 0 ≤ rlVal a.req k → rlVal a.req k ≤ rlVal f k) := by
  intro s
  have hk := (keys_nodup ops hw).2.1
  have hinv := run_inv1 ops _ inv1_empty (histWF_forall ops hw)
  obtain ⟨h1, h2, h3, h4⟩ := alloc_sound_partial s a ms hk h
  refine ⟨h1, h2, h3, ?_⟩
  intro m hm
  obtain ⟨hr, f, hf, hz, hle, hv⟩ := h4 m hm
  refine ⟨hr, f, hf, hz, hle, ?_⟩
  intro hcov k hreq
  have hfv : drVal s.free m k = rlVal f k := by simp [drVal, drGetD, hf]
  have hf0 : 0 ≤ rlVal f k := by
    rw [← hfv, hinv.free m k]; omega
  exact hv hcov k hreq hf0

/-- commit of the allocator's own result in a state with the invariants: `used ≤ total` is preserved wherever it
    held, provided the CHOSEN devices expose every requested key (`chosenCovered`, checked by the harness on every
    committed allocation of the main stream). -/
theorem commit_no_overcommit (s : TState) (a : AllocReq) (ms : List Nat) (p : Nat)
    (hinv : Inv1 s) (hk : KeysNodup s.free) (h : allocate s a = some ms)
    (hreq : rlNonneg a.req = true) (hcov : chosenCovered s a ms = true)
    (m k : Nat) (hle : drVal s.used m k ≤ drVal s.total m k) :
    drVal (addT s p (allocList a ms)).used m k ≤ drVal (addT s p (allocList a ms)).total m k := by
  obtain ⟨_, _, hnd, hall⟩ := alloc_sound_partial s a ms hk h
  have hreq' := rlVal_nonneg_of a.req hreq
  simp only [addT]
  split
  · exact hle
  · show drVal (resetFree { s with used := usedAdd s.used (allocList a ms) }).used m k ≤
      drVal (resetFree { s with used := usedAdd s.used (allocList a ms) }).total m k
    rw [resetFree_total_val, resetFree_used]
    show drVal (usedAdd s.used (allocList a ms)) m k ≤ drVal s.total m k
    rw [usedAdd_val, alSum_allocList a ms hnd]
    by_cases hm : m ∈ ms
    · obtain ⟨_, f, hf, _, hleq, hval⟩ := hall m hm
      have hc : Covered a.req f := by
        simp only [chosenCovered, List.all_eq_true] at hcov
        have := hcov m hm
        rw [hf] at this
        exact covered_of_B a.req f this
      have hfv : drVal s.free m k = rlVal f k := by simp [drVal, drGetD, hf]
      have hfe := hinv.free m k
      have hu := hinv.upos m k
      have ht := hinv.tpos m k
      have hf0 : 0 ≤ rlVal f k := by rw [← hfv, hfe]; omega
      have := hval hc k (hreq' k) hf0
      simp only [hm, if_true]
      by_cases hz : rlVal a.req k = 0
      · omega
      · have : 0 < rlVal a.req k := by have := hreq' k; omega
        omega
    · simp [hm]; exact hle

/-- **no_overcommit**: after ANY weakly well-formed history, allocate-then-commit never makes `used` exceed `total`
    on a device and dimension where it did not before. -/
theorem no_overcommit (ops : List Op) (hw : histWFB ops = true) (a : AllocReq) (ms : List Nat) (p : Nat)
    (h : allocate (run TState.empty ops) a = some ms)
    (hreq : rlNonneg a.req = true) (hcov : chosenCovered (run TState.empty ops) a ms = true) (m k : Nat)
    (hle : drVal (run TState.empty ops).used m k ≤ drVal (run TState.empty ops).total m k) :
    let s' := run TState.empty (ops ++ [Op.add p (allocList a ms)])
    drVal s'.used m k ≤ drVal s'.total m k := by
  intro s'
  have hs' : s' = addT (run TState.empty ops) p (allocList a ms) := by
    simp [s', run, List.foldl_append, step]
  rw [hs']
  exact commit_no_overcommit _ a ms p (run_inv1 ops _ inv1_empty (histWF_forall ops hw))
    (keys_nodup ops hw).2.1 h hreq hcov m k hle

/-! ### scheduler histories: used ≤ total is an invariant -/

/-- the ops the scheduler itself produces: allocate on the current ledger and commit the result (Reserve), release
    of a live pod with its recorded allocation (Unreserve / pod deletion), duplicate or unmatched events, and
    inventory refreshes that do not go below what is in use.  `schedOK s op` is decidable. -/
def schedOK (s : TState) : Op → Bool
  | .add p al =>
    hasPod s p ||
      -- the list is the allocator's own answer to SOME request on the current ledger
      (match al with
       | [] => true
       | (_, req) :: _ =>
         rlNonneg req &&
         al.all (fun e => e.2 == req) && nodupB (al.map (·.1)) &&
         al.all (fun e => match drGet s.free e.1 with
                          | some f => rlLeq req f && coveredB req f
                          | none => false))
  | .remove p al =>
    (match podsGet s.pods p with
     | none => true
     | some r => alOK al && decide (recOf al = r))
  | .refresh nt =>
    invOK nt && s.used.all (fun e => (List.range e.2.length).all (fun k => decide (rlVal e.2 k ≤ drVal nt e.1 k)))

end KoordVerif.C07
