import KoordVerif.Props.C07
namespace KoordVerif.C07

/-- what calcFreeWithPreemptible leaves on a minor whose preemptible amounts are `P` -/
def remainingOf (s : TState) (m : Nat) (P : RL) : RL :=
  rlSubNN (drGetD s.total m) (rlSubNN (drGetD s.used m) P)

def mergeStep (s : TState) (acc : DevRes) (p : Nat × RL) : DevRes :=
  if rlIsZero (remainingOf s p.1 p.2) then acc else drSet acc p.1 (remainingOf s p.1 p.2)

theorem drGet_foldl_merge (s : TState) (pre : DevRes) (m : Nat) : ∀ (acc : DevRes), (pre.map (·.1)).Nodup →
    drGet (pre.foldl (mergeStep s) acc) m =
      match drGet pre m with
      | some P => if rlIsZero (remainingOf s m P) then drGet acc m else some (remainingOf s m P)
      | none => drGet acc m := by
  induction pre with
  | nil => intro acc _; simp [drGet]
  | cons p rest ih =>
    intro acc hn
    obtain ⟨m', P'⟩ := p
    simp only [List.map_cons, List.nodup_cons] at hn
    simp only [List.foldl_cons]
    rw [ih _ hn.2]
    by_cases hm : m' = m
    · subst hm
      rw [drGet_none_of_not_mem rest m' hn.1]
      simp only [drGet, if_true, mergeStep]
      split
      · rfl
      · simp [drGet_drSet]
    · have hacc : drGet (mergeStep s acc (m', P')) m = drGet acc m := by
        simp only [mergeStep]
        split
        · rfl
        · simp [drGet_drSet, hm]
      simp only [drGet, hm, if_false, hacc]

theorem calcFree_preempt_get (s : TState) (pre : DevRes) (hn : (pre.map (·.1)).Nodup) (m : Nat) :
    drGet (calcFree s pre []) m =
      match drGet pre m with
      | some P => if rlIsZero (remainingOf s m P) then drGet s.free m else some (remainingOf s m P)
      | none => drGet s.free m := by
  have hmerged : (if pre.isEmpty then ([] : DevRes) else
      pre.foldl (fun acc p =>
        let used := rlSubNN (drGetD s.used p.1) p.2
        let remaining := rlSubNN (drGetD s.total p.1) used
        if rlIsZero remaining then acc else drSet acc p.1 remaining) []) = pre.foldl (mergeStep s) [] := by
    cases pre with
    | nil => rfl
    | cons _ _ => rfl
  simp only [calcFree, List.isEmpty_nil, if_true]
  rw [hmerged]
  have hg := drGet_foldl_merge s pre m [] hn
  simp only [drGet] at hg
  generalize hM : pre.foldl (mergeStep s) [] = merged at *
  have hfree : drGet (if merged.isEmpty then s.free else merged ++ s.free.filter (fun p => !drHas merged p.1)) m =
      match drGet merged m with
      | some v => some v
      | none => drGet s.free m := by
    cases hme : merged.isEmpty
    · simp only [Bool.false_eq_true, if_false]
      rw [drGet_append, drGet_filter_key s.free (fun x => !drHas merged x) m]
      cases hgm : drGet merged m with
      | some v => rfl
      | none => simp [drHas, hgm]
    · have : merged = [] := List.isEmpty_iff.mp hme
      subst this
      simp [drGet]
  rw [hfree, hg]
  cases drGet pre m with
  | none => rfl
  | some P =>
    simp only []
    cases rlIsZero (remainingOf s m P) <;> simp

/-- **calcFree_preempt**: with preemptible amounts `pre` (what the victims hold, per minor) and no reserved amounts,
    the free amount offered on a preemptible minor is `max 0 (total − max 0 (used − P))`, on any other minor it is
    deviceFree — value-wise, on a ledger with the invariants. -/
theorem calcFree_preempt (s : TState) (hinv : Inv1 s) (pre : DevRes) (hn : (pre.map (·.1)).Nodup)
    (hp : amountsOK pre = true) (m k : Nat) :
    drVal (calcFree s pre []) m k =
      match drGet pre m with
      | some P => max 0 (drVal s.total m k - max 0 (drVal s.used m k - rlVal P k))
      | none => drVal s.free m k := by
  have hget := calcFree_preempt_get s pre hn m
  cases hg : drGet pre m with
  | none =>
    rw [hg] at hget
    simp only [drVal, drGetD, hget]
  | some P =>
    rw [hg] at hget
    simp only [] at hget
    have hP : 0 ≤ rlVal P k := alNonneg_of pre hp (m, P) (drGet_mem pre m P hg) k
    have hrem : rlVal (remainingOf s m P) k = max 0 (drVal s.total m k - max 0 (drVal s.used m k - rlVal P k)) := by
      simp only [remainingOf]
      rw [rlVal_subNN _ _ _ (rlVal_subNN_nonneg _ _ k), rlVal_subNN _ _ _ hP]
      rfl
    by_cases hz : rlIsZero (remainingOf s m P) = true
    · simp only [hz, if_true] at hget
      have h0 := rlVal_of_isZero _ k hz
      rw [hrem] at h0
      have hf := hinv.free m k
      have hu := hinv.upos m k
      have ht := hinv.tpos m k
      simp only [drVal, drGetD, hget] at *
      omega
    · simp only [hz, if_false] at hget
      simp only [drVal, drGetD, hget, Option.getD_some]
      simpa [drVal, drGetD] using hrem

end KoordVerif.C07
