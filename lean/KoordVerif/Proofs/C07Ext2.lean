import KoordVerif.Props.C07
import KoordVerif.Model.C07RO
/-
C07 extension 2 (development file): read-only pipeline steps and event shapes.
-/
namespace KoordVerif.C07

/-! ### read-only steps are the identity on the ledger -/

theorem dryRemovePod_fst (s : TState) (d : Dry) (p : Nat) (rsv : Option Nat) : (dryRemovePod s d p rsv).1 = s := by
  unfold dryRemovePod
  simp only []
  split
  · rfl
  · split <;> rfl

theorem dryAddPod_fst (s : TState) (d : Dry) (p : Nat) (rsv : Option Nat) : (dryAddPod s d p rsv).1 = s := by
  unfold dryAddPod
  simp only []
  split
  · rfl
  · split <;> rfl

theorem roStep_fst (sc : TState × Cycle) (st : RoStep) : (roStep sc st).1 = sc.1 := by
  cases st with
  | removePod p rsv => simp only [roStep]; exact dryRemovePod_fst _ _ _ _
  | addPod p rsv => simp only [roStep]; exact dryAddPod_fst _ _ _ _
  | restore m u => rfl
  | filter ms a => rfl
  | opaque => rfl

/-- READ-ONLY STEPS PRESERVE THE STATE: whatever preemption dry-run (RemovePod / AddPod over any victims, with or
    without reservations), reservation restore and Filter steps a scheduling cycle runs, in any order and number, the
    ledger (total, free, used, allocateSet) it started from is the ledger it ends with. -/
theorem readonly_steps_preserve_state (s : TState) (c : Cycle) (steps : List RoStep) : (roRun s c steps).1 = s := by
  unfold roRun
  suffices h : ∀ (sc : TState × Cycle), (steps.foldl roStep sc).1 = sc.1 from h (s, c)
  induction steps with
  | nil => intro sc; rfl
  | cons st rest ih => intro sc; simp only [List.foldl_cons]; rw [ih, roStep_fst]

/-- so every theorem about `run` holds verbatim for histories with read-only cycles interleaved -/
theorem run_with_readonly (s : TState) (ops : List Op) (c : Cycle) (steps : List RoStep) :
    run (roRun s c steps).1 ops = run s ops := by rw [readonly_steps_preserve_state]

/-! ### what a dry-run accumulates: Σ of the victims' records -/

theorem alSum_eq_drVal (d : DevRes) (hn : (d.map (·.1)).Nodup) (m k : Nat) : alSum d m k = drVal d m k := by
  induction d with
  | nil => simp [alSum, drVal, drGetD, drGet, rlVal_nil]
  | cons e rest ih =>
    obtain ⟨m', v⟩ := e
    simp only [List.map_cons, List.nodup_cons] at hn
    simp only [alSum, drVal, drGetD, drGet]
    by_cases h : m' = m
    · subst h
      simp [alSum_not_mem rest m' k hn.1]
    · have := ih hn.2
      simp only [drVal, drGetD] at this
      simp [h, this]

theorem drAppend_val (inp : DevRes) : ∀ (r : DevRes) (m k : Nat),
    drVal (drAppend r inp []) m k = drVal r m k + alSum inp m k := by
  induction inp with
  | nil => intro r m k; simp [drAppend, alSum]
  | cons e rest ih =>
    intro r m k
    obtain ⟨m', v⟩ := e
    have ih' := ih
    unfold drAppend at ih' ⊢
    simp only [List.foldl_cons, List.isEmpty_nil, Bool.not_true, Bool.false_and, Bool.false_eq_true, if_false] at ih' ⊢
    rw [ih']
    simp only [alSum]
    cases hg : drGet r m' with
    | none =>
      simp only [drVal, drGetD, drGet_drSet]
      by_cases h : m' = m
      · subst h; simp [hg, rlVal_nil]
      · simp [h]
    | some d =>
      simp only [drVal, drGetD, drGet_drSet]
      by_cases h : m' = m
      · subst h; simp [hg, rlVal_add]; omega
      · simp [h]

/-- Σ over the victims of what the cache records for them -/
def victimsSum (s : TState) : List Nat → Nat → Nat → Int
  | [], _, _ => 0
  | p :: ps, m, k => alSum (getUsed s p) m k + victimsSum s ps m k

theorem foldl_removePod (s : TState) (ps : List Nat) : ∀ (c : Cycle) (m k : Nat),
    drVal (roRun s c (ps.map (fun p => RoStep.removePod p none))).2.dry.pre m k
      = drVal c.dry.pre m k + victimsSum s ps m k := by
  induction ps with
  | nil => intro c m k; simp [roRun, victimsSum]
  | cons p rest ih =>
    intro c m k
    have hstep : roStep (s, c) (RoStep.removePod p none) = (s, { c with dry := (dryRemovePod s c.dry p none).2 }) := by
      have := dryRemovePod_fst s c.dry p none
      simp only [roStep]
      cases hd : dryRemovePod s c.dry p none with
      | mk a b => simp [hd] at this; subst this; rfl
    have hrun : roRun s c ((p :: rest).map (fun p => RoStep.removePod p none))
        = roRun s { c with dry := (dryRemovePod s c.dry p none).2 } (rest.map (fun p => RoStep.removePod p none)) := by
      simp only [roRun, List.map_cons, List.foldl_cons, hstep]
    rw [hrun, ih]
    simp only [victimsSum]
    have : drVal (dryRemovePod s c.dry p none).2.pre m k = drVal c.dry.pre m k + alSum (getUsed s p) m k := by
      unfold dryRemovePod
      simp only [dryTarget]
      split
      · rename_i he
        have : getUsed s p = [] := by
          cases hgu : getUsed s p with
          | nil => rfl
          | cons a b => simp [hgu] at he
        simp [this, alSum]
      · simp only []
        exact drAppend_val _ _ _ _
    rw [this]; omega

/-- the preemptible amounts after a dry-run removal of the victims `ps` (none inside a reservation), started on a fresh
    cycle, are exactly the sum of what the cache records for the victims -/
theorem dry_pre_eq_sum (s : TState) (ps : List Nat) (m k : Nat) :
    drVal (roRun s Cycle.empty (ps.map (fun p => RoStep.removePod p none))).2.dry.pre m k = victimsSum s ps m k := by
  rw [foldl_removePod]
  simp [Cycle.empty, Dry.empty, drVal, drGetD, drGet, rlVal_nil]

/-! ### event shapes -/

theorem delete_shape_decoded (sh : Shape) (p : Nat) (o : PodObj) :
    sevOps (.podDelete sh p o) = if sh.wellFormedDelete then deletePodOps p o else [] := by
  cases sh <;> rfl

theorem run_single (s : TState) (op : Op) : run s [op] = step s op := rfl

/-- a delete event of an assigned, device-holding pod delivered in ANY well-formed shape (the object, or a tombstone by
    value) leaves the pod unrecorded and touches the record of no other pod -/
theorem delete_wellformed_releases (s : TState) (sh : Shape) (p : Nat) (o : PodObj) (al : List (Nat × RL))
    (hw : sh.wellFormedDelete = true) (ha : o.assigned = true) (hal : o.alloc = some al) (q : Nat) :
    hasPod (run s (sevOps (.podDelete sh p o))) q = (hasPod s q && !decide (p = q)) := by
  rw [delete_shape_decoded, hw]
  simp only [if_true, deletePodOps, ha, hal, Bool.not_true, Bool.false_eq_true, if_false, run_single, step]
  exact remove_forgets s p al q

/-- shapes client-go never delivers are ignored (the ledger is untouched) -/
theorem delete_garbage_noop (s : TState) (sh : Shape) (p : Nat) (o : PodObj) (hw : sh.wellFormedDelete = false) :
    run s (sevOps (.podDelete sh p o)) = s := by
  rw [delete_shape_decoded, hw]; rfl

theorem histExact_append (a : List Op) : ∀ (s : TState) (b : List Op),
    histExact s (a ++ b) = (histExact s a && histExact (run s a) b) := by
  induction a with
  | nil => intro s b; simp [histExact, run]
  | cons op rest ih =>
    intro s b
    simp only [List.cons_append, histExact, ih, run, List.foldl_cons, Bool.and_assoc]

theorem run_append (s : TState) (a b : List Op) : run s (a ++ b) = run (run s a) b := by
  simp [run, List.foldl_append]

/-- … and gives back exactly what the pod held: after an exact history, a well-formed delete carrying the recorded
    allocation lowers the in-use amount of every device and dimension by the pod's record, no clamp, nothing else -/
theorem delete_wellformed_releases_amount (ops : List Op) (hx : histExact TState.empty ops = true)
    (sh : Shape) (p : Nat) (o : PodObj) (al : List (Nat × RL)) (r : DevRes)
    (hw : sh.wellFormedDelete = true) (ha : o.assigned = true) (hal : o.alloc = some al)
    (hg : podsGet (run TState.empty ops).pods p = some r) (hok : alOK al = true) (hr : recOf al = r) (m k : Nat) :
    drVal (run (run TState.empty ops) (sevOps (.podDelete sh p o))).used m k
      = drVal (run TState.empty ops).used m k - drVal r m k := by
  have hops : sevOps (.podDelete sh p o) = [Op.remove p al] := by
    rw [delete_shape_decoded, hw]; simp [deletePodOps, ha, hal]
  rw [hops, ← run_append]
  have hx2 : histExact TState.empty (ops ++ [Op.remove p al]) = true := by
    rw [histExact_append, hx]
    simp [histExact, opExact, hg, hok, hr]
  have h1 := (used_eq_sum _ hx2 m k).1
  have h0 := used_eq_sum _ hx m k
  simp only [] at h1 h0
  rw [h1, h0.1]
  have hpods : (run TState.empty (ops ++ [Op.remove p al])).pods
      = (run TState.empty ops).pods.filter (fun e => e.1 != p) := by
    rw [run_append, run_single]
    have hh : hasPod (run TState.empty ops) p = true := by rw [hasPod_iff_get, hg]; rfl
    simp only [step, removeT, hh, Bool.not_true, Bool.false_eq_true, if_false]
    rfl
  rw [hpods, podsSum_filter _ p r h0.2.1 hg m k]
  omega

/-- the Lean reading of the code's type switch: a POINTER to a tombstone is not a delete -/
theorem ptr_tombstone_ignored (p : Nat) (o : PodObj) : sevOps (.podDelete .ptrTomb p o) = [] := rfl

/-! ### reservations behind the filtering handler -/

theorem rsv_delete_object_releases (s : TState) (p : Nat) (r : RsvObj) (al : List (Nat × RL))
    (hv : r.valid = true) (hac : r.active = true) (ha : r.pod.assigned = true) (hal : r.pod.alloc = some al) (q : Nat) :
    hasPod (run s (revOps (.rsvDelete .obj p r))) q = (hasPod s q && !decide (p = q)) := by
  simp only [revOps, rsvFilter, decodeObj, hv, hac, Bool.and_self, if_true, deletePodOps, ha, hal, Bool.not_true,
    Bool.false_eq_true, if_false, run_single, step]
  exact remove_forgets s p al q

/-- a reservation that stops being active (Succeeded / Failed) is released by the UPDATE that reports it -/
theorem rsv_inactive_update_releases (s : TState) (p : Nat) (old new : RsvObj) (al : List (Nat × RL))
    (hv : old.valid = true) (hac : old.active = true) (ha : old.pod.assigned = true) (hal : old.pod.alloc = some al)
    (hn : new.active = false) (q : Nat) :
    hasPod (run s (revOps (.rsvUpdate .obj .obj p old new))) q = (hasPod s q && !decide (p = q)) := by
  simp only [revOps, rsvFilter, decodeObj, hv, hac, hn, Bool.and_self, Bool.and_false, Bool.false_and, Bool.true_and,
    Bool.false_eq_true, if_false, if_true, deletePodOps, ha, hal, Bool.not_true, run_single, step]
  exact remove_forgets s p al q

/-- the filter runs on the tombstone itself: a reservation delete delivered as a tombstone changes nothing -/
theorem rsv_tombstone_dropped (s : TState) (p : Nat) (r : RsvObj) : run s (revOps (.rsvDelete .tomb p r)) = s := rfl

/-- … so "a delete in any well-formed shape releases the devices" is FALSE for reservations (suspected defect:
    FilteringResourceEventHandler applies IsObjValidActiveReservation to the DeletedFinalStateUnknown) -/
theorem rsv_tombstone_not_released_counterexample :
    ¬ (∀ (s : TState) (sh : Shape) (p : Nat) (r : RsvObj) (al : List (Nat × RL)),
        sh.wellFormedDelete = true → r.valid = true → r.active = true → r.pod.assigned = true →
        r.pod.alloc = some al → hasPod (run s (revOps (.rsvDelete sh p r))) p = false) := by
  intro h
  have := h (addT TState.empty 500 [(0, [some 100])]) .tomb 500
    { valid := true, active := true, pod := { assigned := true, terminated := false, alloc := some [(0, [some 100])] } }
    [(0, [some 100])] rfl rfl rfl rfl rfl
  revert this
  decide

end KoordVerif.C07
