import KoordVerif.Proofs.C08ExtFw
/-
C08 extension 4, part 2: a node-blind PreFilter may answer Skip for DaemonSet pods ONLY.
For every other pod there is a node (annotation with thresholds in all three parts, a fresh report, usage above the
threshold) that Filter rejects, whatever the plugin-level configuration is.
-/
namespace KoordVerif.C08

/-- float instance of the witness: every percentage rounds to 100 -/
def fwHot : FloatOps := { scale := fun _ _ => 0, roundPct := fun _ _ => 100 }

def fwCfgK : Cfg :=
  { d := 1, factors := [], allowCustom := false, secSched := -1, secInit := -1, prodIncludeSys := false, fl := fwHot }

def fwReportK : Metric :=
  { hasUpd := true, updT := 1, interval := 60, hasInfo := true, nodeUsage := [0], sysUsage := [0], aggs := [], pods := [] }

def fwCacheK : Cache := [(1, { pods := [], metric := some fwReportK, updateTime := some 1, sums := ⟨[], [], [], []⟩ })]

/-- the node part of the witness: thresholds 1 % in all three parts of the annotation -/
def fwNodeK (q : FilterQ) : FilterQ :=
  { q with node := 1, hasNode := true, customKind := 1,
           custom := ⟨[some 1], [some 1], some ⟨[some 1], 1, 0⟩⟩, alloc := [1], rawKind := 0, raw := [] }

theorem withNodePart_fwNodeK (q : FilterQ) : q.withNodePart (fwNodeK q) = fwNodeK q := rfl

theorem vadd_one_len (x : Int) (v : Vec) : ∃ y, vadd [x] v = [y] := by
  cases v with
  | nil => exact ⟨x, rfl⟩
  | cons b bs => exact ⟨x + b, by simp [vadd]⟩

theorem filter_eq_verdict (cfg : Cfg) (c : Cache) (q : FilterQ) (hn : q.hasNode = true) (hd : q.daemon = false)
    (p : Bool) (thr : Vec) (agg : Option AggProfile) (hsel : selProfile cfg q = (p, thr, agg)) (ht : vEmpty thr = false) :
    filter cfg c q =
      verdict cfg q thr agg.isSome (estimatedOfExisting cfg (c.get q.node) p (selTyp agg) (selDur agg)) := by
  simp [filter, hn, hd, hsel, ht]

theorem verdict_hot (q : FilterQ) (isAgg : Bool) (hq : ∃ q0, q = fwNodeK q0) :
    verdict fwCfgK q [1] isAgg (some (fwReportK, [0])) ≠ 0 := by
  obtain ⟨q0, rfl⟩ := hq
  obtain ⟨y, hy⟩ := vadd_one_len 0 (estimateVec fwCfgK (fwNodeK q0).pod)
  have hexp : expirySkip (fwNodeK q0) fwReportK = false := by
    simp only [expirySkip, metricExpired, fwReportK, fwNodeK]
    by_cases h : q0.expSec > 0
    · have : ¬ (-1 : Int) ≥ q0.expSec := by omega
      simp [h, this]
    · simp [h]
  have hinfo : fwReportK.hasInfo = true := rfl
  have hal : allocOf (fwNodeK q0) = [1] := by simp [allocOf, fwNodeK]
  simp only [verdict, hexp, hinfo, hy, hal]
  cases isAgg <;> simp [exceeds, fwCfgK, fwHot]

theorem fwNodeK_rejects (q : FilterQ) (hd : q.daemon = false) : filter fwCfgK fwCacheK (fwNodeK q) ≠ 0 := by
  have hprof : nodeProfile 1 (argsProfile 1 q.args) 1 ⟨[some 1], [some 1], some ⟨[some 1], 1, 0⟩⟩ =
      { usage := [1], prod := [1], agg := some ⟨[1], 1, 0⟩ } := by
    simp [nodeProfile, ThrMap.nonEmpty, ThrMap.vec]
  have hne : vEmpty ([1] : Vec) = false := by decide
  by_cases hc : q.pod.cls == 1
  · have hsel : selProfile fwCfgK (fwNodeK q) = (true, [1], none) := by
      simp only [selProfile, fwNodeK, fwCfgK, hprof]
      simp [vEmpty, hc]
    have hest : estimatedOfExisting fwCfgK (fwCacheK.get (fwNodeK q).node) true (selTyp none) (selDur none) =
        some (fwReportK, [0]) := by
      show estimatedOfExisting fwCfgK (fwCacheK.get 1) true 0 0 = _
      decide
    rw [filter_eq_verdict fwCfgK fwCacheK (fwNodeK q) rfl hd true [1] none hsel hne, hest]
    exact verdict_hot _ _ ⟨q, rfl⟩
  · have hsel : selProfile fwCfgK (fwNodeK q) = (false, [1], some ⟨[1], 1, 0⟩) := by
      simp only [selProfile, fwNodeK, fwCfgK, hprof]
      simp [hc]
    have hest : estimatedOfExisting fwCfgK (fwCacheK.get (fwNodeK q).node) false (selTyp (some ⟨[1], 1, 0⟩))
        (selDur (some ⟨[1], 1, 0⟩)) = some (fwReportK, [0]) := by
      show estimatedOfExisting fwCfgK (fwCacheK.get 1) false 1 0 = _
      decide
    rw [filter_eq_verdict fwCfgK fwCacheK (fwNodeK q) rfl hd false [1] _ hsel hne, hest]
    exact verdict_hot _ _ ⟨q, rfl⟩

theorem skip_only_daemonset (pf : FilterQ → PreStatus) (hb : NodeBlind pf) (hs : SafeSkip pf) (q : FilterQ)
    (h : pf q = .skip) : q.daemon = true := by
  cases hd : q.daemon with
  | true => rfl
  | false =>
    exfalso
    have h1 : pf (fwNodeK q) = .skip := by
      rw [← withNodePart_fwNodeK q, hb q (fwNodeK q)]; exact h
    exact fwNodeK_rejects q hd (hs fwCfgK fwCacheK (fwNodeK q) rfl h1)

end KoordVerif.C08
