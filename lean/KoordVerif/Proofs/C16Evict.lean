import KoordVerif.Model.C16
/-
Helper lemmas for C16 (eviction caps): counter maps, soundness of the two limit tests, and the
invariant of the interleaving semantics.
-/
namespace KoordVerif.C16

theorem cget_cinc (m : Cnt) (k x : Nat) :
    cget (cinc m k) x = if k = x then cget m x + 1 else cget m x := by
  induction m with
  | nil => simp [cinc, cget]
  | cons e r ih =>
    obtain ⟨k', v⟩ := e
    by_cases h : k' = k
    · subst h
      by_cases hx : k' = x <;> simp [cinc, cget, hx]
    · by_cases hx : k' = x
      · subst hx
        have : ¬ k = k' := fun h' => h h'.symm
        simp [cinc, cget, h, this]
      · simp [cinc, cget, h, hx, ih]

/-- the counters respect the caps (per-node caps concern real node names only). -/
structure CapsOK (caps : Caps) (c : Ctr) : Prop where
  node : ∀ n, n ≠ 0 → capLe caps.node (cget c.node n)
  ns : ∀ k, capLe caps.ns (cget c.ns k)
  total : capLe caps.total c.total

/-- a limit test is sound when passing it keeps the counters within the caps after counting. -/
def RefuseOK (refuse : Caps → Ctr → Pod → Bool) (caps : Caps) : Prop :=
  ∀ c p, CapsOK caps c → refuse caps c p = false → CapsOK caps (count c p)

theorem eqHit_step {cap : Option Nat} {c : Nat} (h : capLe cap c) (hh : eqHit cap c = false) :
    capLe cap (c + 1) := by
  cases cap with
  | none => trivial
  | some m =>
    simp [eqHit] at hh
    simp [capLe] at h ⊢
    omega

theorem overHit_step {cap : Option Nat} {c : Nat} (hh : overHit cap c = false) :
    capLe cap (c + 1) := by
  cases cap with
  | none => trivial
  | some m =>
    simp [overHit] at hh
    simp [capLe]
    omega

/-- PodEvictor's `==` test is sound (it has no total cap). -/
theorem peRefuse_ok (caps : Caps) (ht : caps.total = none) : RefuseOK peRefuse caps := by
  intro c p ok hr
  simp [peRefuse] at hr
  obtain ⟨hn, hs⟩ := hr
  refine ⟨?_, ?_, ?_⟩
  · intro n hn0
    simp only [count]
    by_cases hp : p.node = 0
    · simp [hp]; exact ok.node n hn0
    · simp only [hp, if_false, cget_cinc]
      by_cases hq : p.node = n
      · subst hq; simp; exact eqHit_step (ok.node _ hp) hn
      · simp [hq]; exact ok.node n hn0
  · intro k
    simp only [count, cget_cinc]
    by_cases hq : p.ns = k
    · subst hq; simp; exact eqHit_step (ok.ns _) hs
    · simp [hq]; exact ok.ns k
  · simp [ht, capLe]

/-- EvictionLimiter's `count+1 > max` test is sound. -/
theorem elRefuse_ok (caps : Caps) : RefuseOK elRefuse caps := by
  intro c p ok hr
  simp [elRefuse] at hr
  obtain ⟨⟨hn, hs⟩, ht⟩ := hr
  refine ⟨?_, ?_, ?_⟩
  · intro n hn0
    simp only [count]
    by_cases hp : p.node = 0
    · simp [hp]; exact ok.node n hn0
    · simp only [hp, if_false, cget_cinc]
      by_cases hq : p.node = n
      · subst hq; simp; exact overHit_step (hn hp)
      · simp [hq]; exact ok.node n hn0
  · intro k
    simp only [count, cget_cinc]
    by_cases hq : p.ns = k
    · subst hq; simp; exact overHit_step hs
    · simp [hq]; exact ok.ns k
  · exact overHit_step ht

/-- counters = evictions issued, and within the caps. -/
structure Good (caps : Caps) (c : Ctr) (iss : List Pod) : Prop where
  node : ∀ n, n ≠ 0 → issuedBy (·.node) iss n = cget c.node n
  ns : ∀ k, issuedBy (·.ns) iss k = cget c.ns k
  total : iss.length = c.total
  caps : CapsOK caps c

theorem issuedBy_cons (f : Pod → Nat) (p : Pod) (iss : List Pod) (k : Nat) :
    issuedBy f (p :: iss) k = issuedBy f iss k + (if f p = k then 1 else 0) := by
  by_cases h : f p = k <;> simp [issuedBy, List.filter_cons, h]

theorem capLe_zero (cap : Option Nat) : capLe cap 0 := by
  cases cap <;> simp [capLe]

theorem good_init (caps : Caps) : Good caps {} [] := by
  refine ⟨?_, ?_, rfl, ⟨?_, ?_, ?_⟩⟩
  · intro n _; simp [issuedBy, cget]
  · intro k; simp [issuedBy, cget]
  · intro n _; exact capLe_zero _
  · intro k; exact capLe_zero _
  · exact capLe_zero _

theorem good_count {refuse caps c iss p} (hR : RefuseOK refuse caps) (g : Good caps c iss)
    (hr : refuse caps c p = false) : Good caps (count c p) (p :: iss) := by
  refine ⟨?_, ?_, ?_, hR c p g.caps hr⟩
  · intro n hn0
    rw [issuedBy_cons]
    simp only [count]
    by_cases hp : p.node = 0
    · have : ¬ p.node = n := by omega
      simp [hp, this, g.node n hn0]
      have := g.node n hn0; simp [hp] at this ⊢; omega
    · simp only [hp, if_false, cget_cinc, g.node n hn0]
      by_cases hq : p.node = n <;> simp [hq]
  · intro k
    rw [issuedBy_cons]
    simp only [count, cget_cinc, g.ns k]
    by_cases hq : p.ns = k <;> simp [hq]
  · simp [count, g.total]

/-- the only atomic block of a one-section program -/
def theBlock : Block := ⟨true, [.check, .call, .count]⟩

theorem runActs_theBlock {refuse caps p apiOk c iss} (hR : RefuseOK refuse caps) (g : Good caps c iss) :
    Good caps (runActs refuse caps p apiOk theBlock.acts c iss).1
      (runActs refuse caps p apiOk theBlock.acts c iss).2.1 := by
  simp only [theBlock, runActs]
  by_cases hr : refuse caps c p = true
  · simp [hr]; exact g
  · have hr' : refuse caps c p = false := by simpa using hr
    cases apiOk with
    | false => simp [hr']; exact g
    | true => simp [hr']; exact good_count hR g hr'

/-- every caller is either finished or still in front of the single critical section -/
def ThOK (t : Th) : Prop := t.rest = [] ∨ t.rest = [theBlock]

theorem stepTh_ok {refuse caps c iss t} (hR : RefuseOK refuse caps) (g : Good caps c iss) (ht : ThOK t) :
    Good caps (stepTh refuse caps c iss t).1 (stepTh refuse caps c iss t).2.1 ∧
      ThOK (stepTh refuse caps c iss t).2.2 := by
  rcases ht with h | h
  · simp [stepTh, h]; exact ⟨g, Or.inl h⟩
  · simp only [stepTh, h]
    refine ⟨runActs_theBlock hR g, ?_⟩
    left; simp

theorem stepAt_ok {refuse caps} (hR : RefuseOK refuse caps) :
    ∀ (ths : List Th) (i : Nat) (c : Ctr) (iss : List Pod), Good caps c iss → (∀ t ∈ ths, ThOK t) →
      Good caps (stepAt refuse caps c iss ths i).1 (stepAt refuse caps c iss ths i).2.1 ∧
        ∀ t ∈ (stepAt refuse caps c iss ths i).2.2, ThOK t := by
  intro ths
  induction ths with
  | nil => intro i c iss g _; simp [stepAt]; exact g
  | cons t ts ih =>
    intro i c iss g hall
    cases i with
    | zero =>
      have h := stepTh_ok hR g (hall t (by simp))
      simp only [stepAt]
      refine ⟨h.1, ?_⟩
      intro u hu
      simp at hu
      rcases hu with rfl | hu
      · exact h.2
      · exact hall u (by simp [hu])
    | succ j =>
      have h := ih j c iss g (fun u hu => hall u (by simp [hu]))
      simp only [stepAt]
      refine ⟨h.1, ?_⟩
      intro u hu
      simp at hu
      rcases hu with rfl | hu
      · exact hall u (by simp)
      · exact h.2 u hu

end KoordVerif.C16
