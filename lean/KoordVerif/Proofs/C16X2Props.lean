import KoordVerif.Proofs.C16X2Arb
namespace KoordVerif.C16x

/-! ### Part 2 — arbitration round

Full statement `round_inv` (DESIGN §4): after `round cfg uf st order`, per node / namespace / workload / globally
`#(running ∨ passed) ≤ max(limit, count before the round) + #(admissions the code exempts: pod gone or annotated)`,
provided no pod has two open jobs.  Both halves are proved: the per-iteration half (`round_inv_partial`, kept under
its old name): every non-exempt admission had headroom in ALL dimensions on the state containing every earlier
admission of the same round, and admits exactly that one job; and the counting half (`round_inv`, below, with the
development in Proofs/C16ExtArb.lean): `count after ≤ counted-excluding-p + 1` for each of the five counters and
the induction over the loop.  The hypothesis `WF` is decidable; the driver prints it before every round and the
harness evaluates it on the API state (observation `wf`). -/

theorem markPassed_effect (st : ArbSt) (jid : Nat) :
    (markPassed st false jid).1.arbitrated = jid :: st.arbitrated ∧
    (markPassed st false jid).1.pods = st.pods ∧ (markPassed st true jid).1 = st := by
  simp [markPassed]

/-- **round_inv_partial** -/
theorem round_inv_partial (cfg : ArbCfg) (uf : List Nat) (st : ArbSt) (jid : Nat) (j : JobA) (p : PodA)
    (hj : findJob st jid = some j) (hpod : j.pod ≠ 0) (hp : findPod st j.pod = some p) (hann : p.ann = false)
    (hv : (processJob cfg uf st jid).2 = .passed) :
    passGlobal cfg st true p = true ∧ passNode cfg st true p = true ∧ passNs cfg st true p = true ∧
      passWorkload cfg st true p = true ∧ nonRetryable cfg p = true ∧
      (processJob cfg uf st jid).1.arbitrated = jid :: st.arbitrated := by
  simp only [processJob, hj, hpod, if_false, hp] at hv ⊢
  by_cases hn : nonRetryable cfg p = true
  · by_cases hr : retryable cfg st true p = true
    · simp only [hn, hr, Bool.not_true] at hv ⊢
      by_cases hu : jid ∈ uf
      · simp [hu, markPassed] at hv
      · simp [retryable, hann, retryableChecks] at hr
        simp [hu, markPassed, hr]
    · have hr' : retryable cfg st true p = false := by simpa using hr
      simp [hn, hr'] at hv
  · have hn' : nonRetryable cfg p = false := by simpa using hn
    simp [hn'] at hv

/-- **refused_stays_waiting**: a job refused only by a retryable (headroom) check is left exactly as it was —
    same phase, still in the waiting collection, nothing marked. -/
theorem refused_stays_waiting (cfg : ArbCfg) (uf : List Nat) (st : ArbSt) (jid : Nat) (j : JobA) (p : PodA)
    (hj : findJob st jid = some j) (hpod : j.pod ≠ 0) (hp : findPod st j.pod = some p)
    (hn : nonRetryable cfg p = true) (hr : retryable cfg st true p = false) :
    processJob cfg uf st jid = (st, .waitingV) := by
  simp [processJob, hj, hpod, hp, hn, hr]

/-- a job is failed by the arbitrator only when the NON-retryable filter rejects its pod -/
theorem failed_only_nonretryable (cfg : ArbCfg) (uf : List Nat) (st : ArbSt) (jid : Nat)
    (hv : (processJob cfg uf st jid).2 = .failed) :
    ∃ j p, findJob st jid = some j ∧ findPod st j.pod = some p ∧ nonRetryable cfg p = false := by
  unfold processJob at hv
  cases hj : findJob st jid with
  | none => simp [hj] at hv
  | some j =>
    simp only [hj] at hv
    cases hp : (if j.pod = 0 then none else findPod st j.pod) with
    | none =>
      simp only [hp, markPassed] at hv
      by_cases hu : jid ∈ uf <;> simp [hu] at hv
    | some p =>
      simp only [hp] at hv
      by_cases hn : nonRetryable cfg p = true
      · by_cases hr : retryable cfg st true p = true
        · simp only [hn, hr, Bool.not_true, markPassed] at hv
          by_cases hu : jid ∈ uf <;> simp [hu] at hv
        · have : retryable cfg st true p = false := by simpa using hr
          simp [hn, this] at hv
      · refine ⟨j, p, rfl, ?_, by simpa using hn⟩
        by_cases h0 : j.pod = 0
        · simp [h0] at hp
        · simpa [h0] using hp

/-- a failed Update (API error) leaves the job waiting and unmarked, so later jobs of the round do not see it -/
theorem failed_update_no_effect (cfg : ArbCfg) (uf : List Nat) (st : ArbSt) (jid : Nat)
    (hv : (processJob cfg uf st jid).2 = .passFailedUpdate) : (processJob cfg uf st jid).1 = st := by
  unfold processJob at hv ⊢
  cases hj : findJob st jid with
  | none => simp
  | some j =>
    simp only [hj] at hv ⊢
    cases hp : (if j.pod = 0 then none else findPod st j.pod) with
    | none =>
      simp only [hp, markPassed] at hv ⊢
      by_cases hu : jid ∈ uf <;> simp [hu] at hv ⊢
    | some p =>
      simp only [hp] at hv ⊢
      by_cases hn : nonRetryable cfg p = true
      · by_cases hr : retryable cfg st true p = true
        · simp only [hn, hr, Bool.not_true, markPassed] at hv ⊢
          by_cases hu : jid ∈ uf <;> simp [hu] at hv ⊢
        · have : retryable cfg st true p = false := by simpa using hr
          simp [hn, this]
      · have : nonRetryable cfg p = false := by simpa using hn
        simp [this] at hv

/-- **no_second_job**: `arbitratorImpl.Filter` never accepts a pod that already has a pending or running job. -/
theorem no_second_job_ref (cfg : ArbCfg) (st : ArbSt) (p : PodA) (j : JobA)
    (hj : j ∈ st.jobs) (hpod : (j.pod ≠ 0 ∧ j.uid = p.id) ∨ j.pod = p.id) (hph : j.phase = 0 ∨ j.phase = 1 ∨ j.phase = 2) :
    arbFilter cfg st p = false := by
  have : hasJob st false p = true := by
    rw [hasJob_eq_any, List.any_eq_true]
    refine ⟨j, hj, ?_⟩
    have hm : jmatch j p = true := by
      rcases hpod with ⟨h0, hu⟩ | hn
      · simp [jmatch, h0, hu]
      · simp [jmatch, hn]
    rcases hph with h | h | h <;> simp [live, h, hm]
  simp [arbFilter, this]

/-- **no_second_job** in its original form: the job names the pod by namespace/name (whatever UID it carries) -/
theorem no_second_job (cfg : ArbCfg) (st : ArbSt) (p : PodA) (j : JobA)
    (hj : j ∈ st.jobs) (hpod : j.pod = p.id) (hph : j.phase = 0 ∨ j.phase = 1 ∨ j.phase = 2) :
    arbFilter cfg st p = false := no_second_job_ref cfg st p j hj (Or.inr hpod) hph

/-- **existing_lookup_iff**: the two-step lookup of existingPodMigrationJob (UID index first, namespace/name index
    only when the first found nothing) answers "true" exactly when some available job refers to the pod by UID
    OR by namespace/name — the fall-back makes the order of the two lookups irrelevant. -/
theorem existing_lookup_iff (st : ArbSt) (ca : Bool) (v : PodA) :
    hasJob st ca v = true ↔
      ∃ j ∈ st.jobs, live st.arbitrated ca j = true ∧ ((j.pod ≠ 0 ∧ j.uid = v.id) ∨ j.pod = v.id) := by
  rw [hasJob_eq_any, List.any_eq_true]
  constructor
  · rintro ⟨j, hj, h⟩
    simp only [jmatch, Bool.and_eq_true, Bool.or_eq_true, bne_iff_ne, ne_eq, beq_iff_eq] at h
    exact ⟨j, hj, h.1, h.2⟩
  · rintro ⟨j, hj, hl, h⟩
    refine ⟨j, hj, ?_⟩
    simp only [jmatch, Bool.and_eq_true, Bool.or_eq_true, bne_iff_ne, ne_eq, beq_iff_eq]
    exact ⟨hl, h⟩

/-- **ifelse_lookup_counterexample**: with the lookup written as an if/else on the pod's UID (`hasJobIfElse`: a pod
    that has a UID is looked up ONLY by UID) the rule is broken: pod 1 has a Running job whose PodRef carries only
    namespace/name (hand-written job, no UID); the two-step lookup finds it, the if/else one does not, so `Filter`
    would accept a second job for the pod and the per-node count would miss it. -/
theorem ifelse_lookup_counterexample :
    ¬ (∀ (st : ArbSt) (v : PodA), hasJob st false v = true → hasJobIfElse st false v = true) := by
  intro h
  have := h { pods := [⟨1, 1, 1, 1, true, false, false, 0⟩], jobs := [⟨1, 1, 1, 2, false, 0⟩] } ⟨1, 1, 1, 1, true, false, false, 0⟩ (by decide)
  revert this
  decide

/-- the counts of the other limits skip the jobs carrying the pod's own UID: under `WF` that is at most the pod's own
    job, so for every OTHER pod `v` a live job about `v` (by name) is always counted — stated for the global count -/
theorem global_counts_other_pods (st : ArbSt) (w : WF st) (p v : PodA) (hp : p ∈ st.pods) (hv : v ∈ st.pods)
    (hne : v.id ≠ p.id) (j : JobA) (hj : j ∈ st.jobs) (hl : live st.arbitrated true j = true) (h0 : j.pod ≠ 0)
    (hjv : j.pod = v.id) : j ∈ globalJobs st true p := by
  simp only [globalJobs, List.mem_filter, Bool.and_eq_true, bne_iff_ne, ne_eq]
  refine ⟨hj, ⟨hl, h0⟩, ?_⟩
  intro e
  rcases w.uidRef j hj p hp h0 e with e' | e'
  · exact hne (hjv.symm.trans e')
  · exact e' v hv hjv.symm

/-- **round_inv** (counting half; with `round_inv_partial` the full statement of DESIGN §4).  For every
    well-formed state (unique names, PodRefs resolve inside their namespace, no pod with two open jobs),
    every configuration, every Update-failure script and every job order: after the round the jobs that are
    running or passed — globally, per namespace, as pods per real node and as pods per workload — number at
    most max(limit, the count before the round) + the admissions the code exempts on purpose
    (`exemptAdm`: pod gone / PodRef nil, or pod carrying the evict annotation), and the same holds for the
    unavailable-or-migrating pods of every workload (`unavailable_inv`).  Each clause is conditional on its
    gate not being skipped and, for the three int32 limits, on a positive value — exactly when the code checks. -/
theorem round_inv (cfg : ArbCfg) (uf : List Nat) (st : ArbSt) (order : List Nat) (w : WF st) :
    let st' := round cfg uf st order
    let E := roundExempt cfg uf st order
    (gateSkipped cfg 5 = false → 0 < cfg.maxGlobal → cntGlobal st' ≤ max cfg.maxGlobal.toNat (cntGlobal st) + E) ∧
    (∀ n, n ≠ 0 → gateSkipped cfg 3 = false → 0 < cfg.maxNode → cntNode st' n ≤ max cfg.maxNode.toNat (cntNode st n) + E) ∧
    (∀ k, gateSkipped cfg 4 = false → 0 < cfg.maxNs → cntNs st' k ≤ max cfg.maxNs.toNat (cntNs st k) + E) ∧
    (∀ wl k, wl ≠ 0 → gateSkipped cfg 2 = false →
      cntMigr st' wl k ≤ max (max (wlLimit cfg wl cfg.mmKind cfg.maxMigr) 1) (cntMigr st wl k) + E) ∧
    (∀ wl k, wl ≠ 0 → gateSkipped cfg 1 = false →
      cntUnav st' wl k ≤ max (wlLimit cfg wl cfg.muKind cfg.maxUnav) (cntUnav st wl k) + E) := by
  refine ⟨fun hs hl => ?_, fun n hn hs hl => ?_, fun k hs hl => ?_, fun wl k hw hs => ?_, fun wl k hw hs => ?_⟩
  · exact fold_bound cfg uf cntGlobal _ (fun s j ws => step_global cfg uf s j ws hs hl) order st w
  · exact fold_bound cfg uf (cntNode · n) _ (fun s j ws => step_node cfg uf s j ws n hn hs hl) order st w
  · exact fold_bound cfg uf (cntNs · k) _ (fun s j ws => step_ns cfg uf s j ws k hs hl) order st w
  · exact fold_bound cfg uf (cntMigr · wl k) _ (fun s j ws => step_migr cfg uf s j ws wl k hw hs) order st w
  · exact fold_bound cfg uf (cntUnav · wl k) _ (fun s j ws => step_unav cfg uf s j ws wl k hw hs) order st w

/-- **unavailable_inv** for a whole round, stated on its own: unless the gate is skipped, the pods of a workload
    that are unavailable (terminating, Failed / Succeeded, or not Ready) or being migrated stay within
    max(maxUnavailable, what it was before the round) when the round made no exempt admission. -/
theorem unavailable_inv (cfg : ArbCfg) (uf : List Nat) (st : ArbSt) (order : List Nat) (w : WF st) (wl k : Nat)
    (hw : wl ≠ 0) (hs : gateSkipped cfg 1 = false) (hE : roundExempt cfg uf st order = 0) :
    cntUnav (round cfg uf st order) wl k ≤ max (wlLimit cfg wl cfg.muKind cfg.maxUnav) (cntUnav st wl k) := by
  have := (round_inv cfg uf st order w).2.2.2.2 wl k hw hs
  simp only [hE, Nat.add_zero] at this
  exact this

/-- the exemption, explicitly: an admission is exempt iff the job was pending, passed, and its pod is not
    found (deleted, or PodRef nil) or carries the evict annotation; every other admission went through all
    limit checks (`round_inv_partial`). -/
theorem exempt_iff (cfg : ArbCfg) (uf : List Nat) (st : ArbSt) (jid : Nat) :
    exemptAdm cfg uf st jid = true ↔
      ∃ j, findJob st jid = some j ∧ (processJob cfg uf st jid).2 = .passed ∧ j.phase ≤ 1 ∧
        (j.pod = 0 ∨ findPod st j.pod = none ∨ ∃ p, findPod st j.pod = some p ∧ p.ann = true) := by
  unfold exemptAdm
  cases hj : findJob st jid with
  | none => simp
  | some j =>
    by_cases h0 : j.pod = 0
    · simp [h0]
    · cases hp : findPod st j.pod with
      | none => simp [h0, hp]
      | some p => simp [h0, hp, and_assoc]

/-- **missing_pod_bypass_counterexample** (open finding C16:arb-missing-pod-bypasses-limits): without the exempt
    side the bound is false on the code as written — `filtering(nil)` passes a job whose pod is gone without
    consulting any limit.  MaxMigratingGlobally = 1, pod 1 has a Running job, job 2 waits for a deleted pod:
    after the round two jobs are running or passed although the limit was not exceeded before. -/
theorem missing_pod_bypass_counterexample :
    ¬ (∀ (cfg : ArbCfg) (st : ArbSt) (order : List Nat), WF st → gateSkipped cfg 5 = false → 0 < cfg.maxGlobal →
        cntGlobal (round cfg [] st order) ≤ max cfg.maxGlobal.toNat (cntGlobal st)) := by
  intro h
  have := h { maxGlobal := 1, maxNode := -1, maxNs := -1, maxMigr := -1, maxUnav := -1, replicas := [(1, 5)] }
    { pods := [⟨1, 1, 1, 1, true, false, false, 0⟩], jobs := [⟨1, 1, 1, 2, true, 1⟩, ⟨2, 9, 1, 0, false, 9⟩], waiting := [2] }
    [2] (by decide) (by decide) (by decide)
  revert this
  decide

/-- a round keeps the state well-formed, so `round_inv` applies to every round of a history -/
theorem round_keeps_wf (cfg : ArbCfg) (uf : List Nat) (st : ArbSt) (order : List Nat) (w : WF st) :
    WF (round cfg uf st order) := round_wf cfg uf order st w

/-- the counter used for the unavailable clause counts exactly: terminating, Failed / Succeeded, or not Ready -/
theorem podAvail_iff (q : PodA) :
    podAvail q = false ↔ (q.term = true ∨ q.phase = 2 ∨ q.phase = 3 ∨ q.ready = false) := by
  simp only [podAvail, podActive]
  cases q.term <;> cases q.ready <;> by_cases h2 : q.phase = 2 <;> by_cases h3 : q.phase = 3 <;> simp [h2, h3]

-- non-vacuity: a well-formed state where workload 1 (5 replicas, maxUnavailable 2) has one terminating-but-Ready
-- replica: the round admits exactly one of the two waiting jobs; no exempt admission; the bound is tight (2 ≤ 2)
example :
    let cfg : ArbCfg := { maxGlobal := -1, maxNode := -1, maxNs := -1, maxMigr := -1, maxUnav := 2, replicas := [(1, 5)] }
    let st : ArbSt := { pods := [⟨1, 1, 1, 1, true, false, true, 0⟩, ⟨2, 1, 1, 1, true, false, false, 0⟩,
                                 ⟨3, 2, 1, 1, true, false, false, 0⟩],
                        jobs := [⟨1, 2, 1, 0, false, 2⟩, ⟨2, 3, 1, 0, false, 3⟩], waiting := [1, 2] }
    WF st ∧ (round cfg [] st [1, 2]).arbitrated = [1] ∧ roundExempt cfg [] st [1, 2] = 0 ∧
      cntUnav st 1 1 = 1 ∧ cntUnav (round cfg [] st [1, 2]) 1 1 = 2 ∧ wlLimit cfg 1 cfg.muKind cfg.maxUnav = 2 := by decide

-- an annotated pod is admitted beyond the limit and counted as exempt
example :
    let cfg : ArbCfg := { maxGlobal := 1, maxNode := -1, maxNs := -1, maxMigr := -1, maxUnav := -1, replicas := [(1, 8)] }
    let st : ArbSt := { pods := [⟨1, 1, 1, 1, true, false, false, 0⟩, ⟨2, 1, 1, 1, true, true, false, 0⟩],
                        jobs := [⟨1, 1, 1, 0, false, 1⟩, ⟨2, 2, 1, 0, false, 2⟩], waiting := [1, 2] }
    WF st ∧ cntGlobal (round cfg [] st [1, 2]) = 2 ∧ roundExempt cfg [] st [1, 2] = 1 := by decide

-- non-vacuity: a round over two waiting jobs on one node with per-node limit 1 admits the first, keeps the second
example :
    let cfg : ArbCfg := { maxGlobal := -1, maxNode := 1, maxNs := -1, maxMigr := -1, maxUnav := 3, replicas := [(1, 5)] }
    let st : ArbSt := { pods := [⟨1, 1, 1, 1, true, false, false, 0⟩, ⟨2, 1, 1, 1, true, false, false, 0⟩],
                        jobs := [⟨1, 1, 1, 0, false, 1⟩, ⟨2, 2, 1, 0, false, 2⟩], waiting := [1, 2] }
    (round cfg [] st [1, 2]).arbitrated = [1] ∧ (round cfg [] st [1, 2]).waiting = [2] := by decide

end KoordVerif.C16x
