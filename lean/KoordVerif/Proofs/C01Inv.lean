import KoordVerif.Proofs.C01Used
import KoordVerif.Proofs.C01Req
/-
C01: the local invariant, well-formedness of the tree, non-negativity of every aggregate of a
state that satisfies the local equations (induction on a rank), and "no clamp fires".
-/
namespace KoordVerif.C01

/-- summed (ghost) requests of the cached pods selected by `f` -/
def podSum (f : Pod → Bool) : List Pod → Int
  | [] => 0
  | p :: t => (if f p then p.req else 0) + podSum f t

theorem podSum_nonneg (f : Pod → Bool) (ps : List Pod) (h : ∀ p ∈ ps, 0 ≤ p.req) : 0 ≤ podSum f ps := by
  induction ps with
  | nil => simp [podSum]
  | cons p t ih =>
    simp only [podSum]
    have := ih (fun x hx => h x (List.mem_cons_of_mem _ hx))
    have := h p (by simp)
    split <;> omega

/-- the local request equations of one group (DESIGN §4 C01) -/
structure RInv (s : State) (m : Nat) (q : Quota) : Prop where
  selfReq : q.selfRequest = podSum (fun _ => true) q.pods
  selfNpReq : q.selfNpRequest = podSum (fun p => p.np) q.pods
  cr : dCR s m q = 0
  npReq : dNpReq s m q = 0
  rule : m ≠ rootName → q.request = lendRule q q.childRequest

/-- the local used equations of one group -/
structure UInv (s : State) (m : Nat) (q : Quota) : Prop where
  selfUsed : q.selfUsed = podSum (fun p => p.assigned) q.pods
  selfNpUsed : q.selfNpUsed = podSum (fun p => p.assigned && p.np) q.pods
  used : dUsed s m q = 0
  npUsed : dNpUsed s m q = 0

def ReqInv (s : State) : Prop := ∀ m q, get? s m = some q → RInv s m q
def UsedInv (s : State) : Prop := ∀ m q, get? s m = some q → UInv s m q
def LocalInv (s : State) : Prop := ReqInv s ∧ UsedInv s

/-- (name, parent) skeleton -/
def tree (s : State) : List (Nat × Nat) := s.map (fun q => (q.name, q.parent))

structure TreeOK (t : List (Nat × Nat)) : Prop where
  nodup : (t.map (·.1)).Nodup
  ranked : ∃ h : Nat → Nat, ∀ e ∈ t, e.1 ≠ rootName → h e.1 < h e.2
  rootTop : ∀ e ∈ t, e.1 = rootName → ∀ e' ∈ t, e'.1 ≠ e.2

/-- declared maxima and pod requests are non-negative -/
def ParamsOK (s : State) : Prop :=
  ∀ q ∈ s, (∀ m, q.max = some m → 0 ≤ m) ∧ ∀ p ∈ q.pods, 0 ≤ p.req

theorem mem_get? {s : State} (hn : ((tree s).map (·.1)).Nodup) {q : Quota} (hq : q ∈ s) : get? s q.name = some q := by
  induction s with
  | nil => simp at hq
  | cons x t ih =>
    simp only [tree, List.map_cons, List.nodup_cons] at hn
    simp only [get?]
    rcases List.mem_cons.mp hq with e | e
    · subst e; simp
    · have hne : ¬ x.name = q.name := by
        intro heq
        apply hn.1
        simp only [List.map_map, List.mem_map, Function.comp]
        exact ⟨q, e, heq.symm⟩
      simp only [hne, if_false]
      exact ih (by simpa [tree] using hn.2) e

theorem tree_set {s : State} {q q' : Quota} (h : get? s q'.name = some q) (hp : q'.parent = q.parent) :
    tree (set s q') = tree s := by
  induction s with
  | nil => simp [get?] at h
  | cons x t ih =>
    simp only [get?] at h
    by_cases hx : x.name = q'.name
    · simp only [hx, if_true, Option.some.injEq] at h
      subst h
      simp [set, hx, tree, hp]
    · simp only [hx, if_false] at h
      have := ih h
      simp only [tree] at this
      simp [set, hx, tree, this]

theorem mem_set {s : State} {q' x : Quota} (hx : x ∈ set s q') : x = q' ∨ x ∈ s := by
  induction s with
  | nil => simp [set] at hx
  | cons y t ih =>
    simp only [set] at hx
    split at hx
    · rcases List.mem_cons.mp hx with e | e
      · left; exact e
      · right; exact List.mem_cons_of_mem _ e
    · rcases List.mem_cons.mp hx with e | e
      · right; rw [e]; simp
      · rcases ih e with e' | e'
        · left; exact e'
        · right; exact List.mem_cons_of_mem _ e'

structure RNonneg (q : Quota) : Prop where
  cr : 0 ≤ crOf q
  request : 0 ≤ q.request
  npRequest : 0 ≤ q.npRequest
  selfRequest : 0 ≤ q.selfRequest
  selfNpRequest : 0 ≤ q.selfNpRequest

structure UNonneg (q : Quota) : Prop where
  used : 0 ≤ q.used
  npUsed : 0 ≤ q.npUsed
  selfUsed : 0 ≤ q.selfUsed
  selfNpUsed : 0 ≤ q.selfNpUsed

theorem kid_rank {s : State} (ht : TreeOK (tree s)) {h : Nat → Nat}
    (hrank : ∀ e ∈ tree s, e.1 ≠ rootName → h e.1 < h e.2) {m : Nat} {q c : Quota}
    (hq : get? s m = some q) (hc : c ∈ s) (hcp : c.parent = m) : h c.name < h m ∧ get? s c.name = some c := by
  have hqs := get?_mem hq
  have hqn := get?_name hq
  have hcne : c.name ≠ rootName := by
    intro e
    have := ht.rootTop (c.name, c.parent) (by simp only [tree, List.mem_map]; exact ⟨c, hc, rfl⟩) e
      (q.name, q.parent) (by simp only [tree, List.mem_map]; exact ⟨q, hqs, rfl⟩)
    simp [hcp, hqn] at this
  have := hrank (c.name, c.parent) (by simp only [tree, List.mem_map]; exact ⟨c, hc, rfl⟩) hcne
  simp only [hcp] at this
  exact ⟨this, mem_get? ht.nodup hc⟩

/-- tree equations + non-negative self figures + non-negative maxima: every request figure is non-negative -/
theorem reqNonneg_of_eqs {s : State} (ht : TreeOK (tree s)) (hmax : ∀ q ∈ s, ∀ m, q.max = some m → 0 ≤ m)
    (hl : ∀ m q, get? s m = some q → 0 ≤ q.selfRequest ∧ 0 ≤ q.selfNpRequest ∧ dCR s m q = 0 ∧ dNpReq s m q = 0 ∧
      (m ≠ rootName → q.request = lendRule q q.childRequest)) :
    ∀ m q, get? s m = some q → RNonneg q := by
  obtain ⟨h, hrank⟩ := ht.ranked
  suffices H : ∀ n, ∀ m q, h m < n → get? s m = some q → RNonneg q from
    fun m q hq => H (h m + 1) m q (by omega) hq
  intro n
  induction n with
  | zero => intro m q hlt; omega
  | succ n ih =>
    intro m q hlt hq
    have hqs := get?_mem hq
    have hqn := get?_name hq
    have hkid : ∀ c ∈ s, c.parent = m → RNonneg c := by
      intro c hc hcp
      have := kid_rank ht hrank hq hc hcp
      exact ih c.name c (by omega) this.2
    obtain ⟨s1, s2, e1, e2, hrule⟩ := hl m q hq
    have k1 : 0 ≤ sumKids Quota.limited m s := sumKids_nonneg _ _ _ (fun c hc hcp =>
      limit_nonneg (hkid c hc hcp).request (hmax c hc))
    have k2 : 0 ≤ sumKids (·.npRequest) m s := sumKids_nonneg _ _ _ (fun c hc hcp => (hkid c hc hcp).npRequest)
    simp only [dCR, dNpReq] at e1 e2
    have hcr : 0 ≤ crOf q := by omega
    have hreq : 0 ≤ q.request := by
      by_cases hr : m = rootName
      · simp only [crOf, hqn, hr, if_true] at hcr; exact hcr
      · have := hrule hr
        have h2 := lendRule_ge q q.childRequest
        simp only [crOf, hqn, hr, if_false] at hcr
        omega
    exact ⟨hcr, hreq, by omega, s1, s2⟩

/-- A state that satisfies the local request equations has no negative request figure anywhere. -/
theorem reqInv_nonneg {s : State} (ht : TreeOK (tree s)) (hp : ParamsOK s) (hl : ReqInv s) :
    ∀ m q, get? s m = some q → RNonneg q :=
  reqNonneg_of_eqs ht (fun q hq => (hp q hq).1) (fun m q hq => by
    have hi := hl m q hq
    have hpods := (hp q (get?_mem hq)).2
    exact ⟨by rw [hi.selfReq]; exact podSum_nonneg _ _ hpods, by rw [hi.selfNpReq]; exact podSum_nonneg _ _ hpods,
      hi.cr, hi.npReq, hi.rule⟩)

/-- used side of `reqNonneg_of_eqs` -/
theorem usedNonneg_of_eqs {s : State} (ht : TreeOK (tree s))
    (hl : ∀ m q, get? s m = some q → 0 ≤ q.selfUsed ∧ 0 ≤ q.selfNpUsed ∧ dUsed s m q = 0 ∧ dNpUsed s m q = 0) :
    ∀ m q, get? s m = some q → UNonneg q := by
  obtain ⟨h, hrank⟩ := ht.ranked
  suffices H : ∀ n, ∀ m q, h m < n → get? s m = some q → UNonneg q from
    fun m q hq => H (h m + 1) m q (by omega) hq
  intro n
  induction n with
  | zero => intro m q hlt; omega
  | succ n ih =>
    intro m q hlt hq
    have hkid : ∀ c ∈ s, c.parent = m → UNonneg c := by
      intro c hc hcp
      have := kid_rank ht hrank hq hc hcp
      exact ih c.name c (by omega) this.2
    obtain ⟨s3, s4, e3, e4⟩ := hl m q hq
    have k3 : 0 ≤ sumKids (·.used) m s := sumKids_nonneg _ _ _ (fun c hc hcp => (hkid c hc hcp).used)
    have k4 : 0 ≤ sumKids (·.npUsed) m s := sumKids_nonneg _ _ _ (fun c hc hcp => (hkid c hc hcp).npUsed)
    simp only [dUsed, dNpUsed] at e3 e4
    exact ⟨by omega, by omega, s3, s4⟩

/-- A state that satisfies the local used equations has no negative used figure anywhere. -/
theorem usedInv_nonneg {s : State} (ht : TreeOK (tree s)) (hp : ParamsOK s) (hl : UsedInv s) :
    ∀ m q, get? s m = some q → UNonneg q := by
  obtain ⟨h, hrank⟩ := ht.ranked
  suffices H : ∀ n, ∀ m q, h m < n → get? s m = some q → UNonneg q from
    fun m q hq => H (h m + 1) m q (by omega) hq
  intro n
  induction n with
  | zero => intro m q hlt; omega
  | succ n ih =>
    intro m q hlt hq
    have hqs := get?_mem hq
    have hkid : ∀ c ∈ s, c.parent = m → UNonneg c := by
      intro c hc hcp
      have := kid_rank ht hrank hq hc hcp
      exact ih c.name c (by omega) this.2
    have hi := hl m q hq
    obtain ⟨hmax, hpods⟩ := hp q hqs
    have s3 := podSum_nonneg (fun p => p.assigned) q.pods hpods
    have s4 := podSum_nonneg (fun p => p.assigned && p.np) q.pods hpods
    have k3 : 0 ≤ sumKids (·.used) m s := sumKids_nonneg _ _ _ (fun c hc hcp => (hkid c hc hcp).used)
    have k4 : 0 ≤ sumKids (·.npUsed) m s := sumKids_nonneg _ _ _ (fun c hc hcp => (hkid c hc hcp).npUsed)
    have e3 := hi.used; have e4 := hi.npUsed
    simp only [dUsed, dNpUsed] at e3 e4
    exact ⟨by rw [hi.selfUsed] at e3; omega, by rw [hi.selfNpUsed] at e4; omega,
      by rw [hi.selfUsed]; exact s3, by rw [hi.selfNpUsed]; exact s4⟩

end KoordVerif.C01
