import KoordVerif.Model.C20Hist
/-
C20 extension — invariants of the delivery model (Model/C20Hist.lean) over ALL histories:
  * `Inv`   : every NodeSLO object carries exactly `nodeSpec cache labels` of its node, and there is no NodeSLO without node;
  * `CInv`  : every section of the cache whose current text is parsable/absent is the from-scratch merge of that text.
The property theorems built on them are in Props/C20.lean.
-/
namespace KoordVerif.C20

/-! ### association lists -/

theorem lookupA_delA {α} (l : List (Nat × α)) (n m : Nat) :
    lookupA (delA l n) m = if m = n then none else lookupA l m := by
  induction l with
  | nil => simp [lookupA, delA]
  | cons e l ih =>
    simp only [lookupA, delA] at ih
    by_cases hen : e.1 = n
    · have h1 : (e :: l).filter (fun e => !(e.1 == n)) = l.filter (fun e => !(e.1 == n)) := by
        simp [List.filter_cons, hen]
      simp only [lookupA, delA, h1, ih]
      by_cases hmn : m = n
      · simp [hmn]
      · have : (e.1 == m) = false := by
          simp only [beq_eq_false_iff_ne, ne_eq]
          intro h; exact hmn (h ▸ hen)
        simp [hmn, List.find?_cons, this]
    · have h1 : (e :: l).filter (fun e => !(e.1 == n)) = e :: l.filter (fun e => !(e.1 == n)) := by
        simp [List.filter_cons, hen]
      simp only [lookupA, delA, h1, List.find?_cons]
      by_cases hem : e.1 = m
      · have hmn : ¬ m = n := fun h => hen (hem.trans h)
        simp [hem, hmn]
      · have : (e.1 == m) = false := by simpa using hem
        simp only [this]
        exact ih

theorem lookupA_setA {α} (l : List (Nat × α)) (n m : Nat) (v : α) :
    lookupA (setA l n v) m = if m = n then some v else lookupA l m := by
  by_cases hmn : m = n
  · subst hmn
    simp [setA, lookupA]
  · have hb : (n == m) = false := by
      simp only [beq_eq_false_iff_ne, ne_eq]
      exact fun h => hmn h.symm
    have h := lookupA_delA l n m
    simp only [hmn, if_false] at h
    simp only [setA, hmn, if_false]
    rw [← h]
    simp [lookupA, List.find?_cons, hb]

theorem lookupA_some_mem {α} (l : List (Nat × α)) (n : Nat) (v : α) (h : lookupA l n = some v) :
    n ∈ l.map (·.1) := by
  induction l with
  | nil => simp [lookupA] at h
  | cons e l ih =>
    by_cases hen : e.1 = n
    · simp [hen]
    · have hb : (e.1 == n) = false := by simpa using hen
      have : lookupA l n = some v := by simpa [lookupA, List.find?_cons, hb] using h
      simp [ih this]

theorem lookupA_none_of_not_mem {α} (l : List (Nat × α)) (n : Nat) (h : n ∉ l.map (·.1)) : lookupA l n = none := by
  cases hl : lookupA l n with
  | none => rfl
  | some v => exact absurd (lookupA_some_mem l n v hl) h

/-! ### what "delivered correctly" means for one object name -/

/-- the NodeSLO named `n` is exactly what the cache delivers to node `n` (and absent iff the node is absent). -/
def Correct (cfg : Cfg) (nodes : List (Nat × Labels)) (slos : List (Nat × List Flat)) (n : Nat) : Prop :=
  lookupA slos n = (lookupA nodes n).map (nodeSpec cfg)

/-- the delivery invariant. -/
def Inv (w : World) : Prop :=
  ∀ m, Correct w.cfg w.nodes w.slos m ∧ (w.avail = false → lookupA w.nodes m = none)

/-- the invariant everywhere except at name `n` (the object that was just changed and is enqueued). -/
def InvEx (n : Nat) (w : World) : Prop :=
  ∀ m, m ≠ n → Correct w.cfg w.nodes w.slos m ∧ (w.avail = false → lookupA w.nodes m = none)

/-! ### reconcileCore -/

theorem core_frame (w : World) (n : Nat) :
    (reconcileCore w n).cfg = w.cfg ∧ (reconcileCore w n).avail = w.avail ∧
    (reconcileCore w n).cm = w.cm ∧ (reconcileCore w n).nodes = w.nodes := by
  unfold reconcileCore
  split
  · simp
  · simp
  · simp
  · dsimp only; split <;> simp

theorem core_correct (w : World) (n : Nat) : Correct w.cfg w.nodes (reconcileCore w n).slos n := by
  unfold reconcileCore Correct
  split
  · next h1 h2 => simp [h1, h2]
  · next h1 h2 => simp [h1, lookupA_delA]
  · next h1 h2 => simp [h1, lookupA_setA]
  · next ls old h1 h2 =>
    by_cases he : nodeSpec w.cfg ls = old
    · simp [he, h1, h2]
    · simp [he, h1, lookupA_setA]

theorem core_other (w : World) (n m : Nat) (h : m ≠ n) :
    lookupA (reconcileCore w n).slos m = lookupA w.slos m := by
  unfold reconcileCore
  split
  · rfl
  · simp [lookupA_delA, h]
  · simp [lookupA_setA, h]
  · dsimp only
    split
    · rfl
    · simp [lookupA_setA, h]

/-! ### ensureAvail / reconcile -/

theorem ensure_frame (d : Defaults) (parse : Ident → CM) (w : World) :
    (ensureAvail d parse w).avail = true ∧ (ensureAvail d parse w).cm = w.cm ∧
    (ensureAvail d parse w).nodes = w.nodes ∧ (ensureAvail d parse w).slos = w.slos := by
  unfold ensureAvail
  by_cases h : w.avail = true
  · simp [h]
  · simp [h]

theorem ensure_of_avail (d : Defaults) (parse : Ident → CM) (w : World) (h : w.avail = true) :
    ensureAvail d parse w = w := by simp [ensureAvail, h]

theorem reconcile_of_avail (d : Defaults) (parse : Ident → CM) (w : World) (n : Nat) (h : w.avail = true) :
    reconcile d parse w n = reconcileCore w n := by simp [reconcile, ensure_of_avail d parse w h]

theorem reconcile_frame (d : Defaults) (parse : Ident → CM) (w : World) (n : Nat) :
    (reconcile d parse w n).cfg = (ensureAvail d parse w).cfg ∧ (reconcile d parse w n).avail = true ∧
    (reconcile d parse w n).cm = w.cm ∧ (reconcile d parse w n).nodes = w.nodes := by
  have hc := core_frame (ensureAvail d parse w) n
  have he := ensure_frame d parse w
  unfold reconcile
  exact ⟨hc.1, hc.2.1.trans he.1, hc.2.2.1.trans he.2.1, hc.2.2.2.trans he.2.2.1⟩

/-- after Reconcile(n) the NodeSLO `n` is the recomputed spec; other NodeSLOs are untouched. -/
theorem reconcile_correct (d : Defaults) (parse : Ident → CM) (w : World) (n : Nat) :
    Correct (reconcile d parse w n).cfg w.nodes (reconcile d parse w n).slos n := by
  have h := core_correct (ensureAvail d parse w) n
  have he := ensure_frame d parse w
  have hf := reconcile_frame d parse w n
  rw [hf.1]
  rw [he.2.2.1] at h
  exact h

theorem reconcile_other (d : Defaults) (parse : Ident → CM) (w : World) (n m : Nat) (h : m ≠ n) :
    lookupA (reconcile d parse w n).slos m = lookupA w.slos m := by
  unfold reconcile
  rw [core_other _ n m h, (ensure_frame d parse w).2.2.2]

/-! ### draining the queue -/

theorem foldCore_spec (q : List Nat) : ∀ (w : World),
    (q.foldl reconcileCore w).cfg = w.cfg ∧ (q.foldl reconcileCore w).avail = w.avail ∧
    (q.foldl reconcileCore w).cm = w.cm ∧ (q.foldl reconcileCore w).nodes = w.nodes ∧
    ∀ m, (m ∈ q → Correct w.cfg w.nodes (q.foldl reconcileCore w).slos m) ∧
         (m ∉ q → lookupA (q.foldl reconcileCore w).slos m = lookupA w.slos m) := by
  induction q with
  | nil => intro w; simp
  | cons n q ih =>
    intro w
    have hf := core_frame w n
    have h := ih (reconcileCore w n)
    simp only [List.foldl_cons]
    refine ⟨h.1.trans hf.1, h.2.1.trans hf.2.1, h.2.2.1.trans hf.2.2.1, h.2.2.2.1.trans hf.2.2.2, ?_⟩
    intro m
    have hm := h.2.2.2.2 m
    rw [hf.1, hf.2.2.2] at hm
    constructor
    · intro hin
      by_cases hq : m ∈ q
      · exact hm.1 hq
      · have hmn : m = n := by
          cases List.mem_cons.mp hin with
          | inl h => exact h
          | inr h => exact absurd h hq
        subst hmn
        have := core_correct w m
        unfold Correct at *
        rw [hm.2 hq]; exact this
    · intro hnin
      have hmn : m ≠ n := fun h => hnin (by simp [h])
      have hq : m ∉ q := fun h => hnin (by simp [h])
      rw [hm.2 hq, core_other w n m hmn]

theorem drain_of_avail (d : Defaults) (parse : Ident → CM) (q : List Nat) : ∀ (w : World), w.avail = true →
    drain d parse w q = q.foldl reconcileCore w := by
  induction q with
  | nil => intro w _; rfl
  | cons n q ih =>
    intro w h
    simp only [drain, List.foldl_cons]
    rw [reconcile_of_avail d parse w n h]
    have := ih (reconcileCore w n) ((core_frame w n).2.1.trans h)
    simpa [drain] using this

/-- the world after draining `q`: the cache is the one after the (first) availability check; every drained name is
    correct w.r.t. it; every other NodeSLO is untouched. -/
theorem drain_spec (d : Defaults) (parse : Ident → CM) (q : List Nat) (w : World) :
    (drain d parse w q).cfg = (if q = [] then w.cfg else (ensureAvail d parse w).cfg) ∧
    (drain d parse w q).avail = (if q = [] then w.avail else true) ∧
    (drain d parse w q).cm = w.cm ∧ (drain d parse w q).nodes = w.nodes ∧
    ∀ m, (m ∈ q → Correct (drain d parse w q).cfg w.nodes (drain d parse w q).slos m) ∧
         (m ∉ q → lookupA (drain d parse w q).slos m = lookupA w.slos m) := by
  cases q with
  | nil => simp [drain]
  | cons n q =>
    have hr := reconcile_frame d parse w n
    have hd : drain d parse w (n :: q) = q.foldl reconcileCore (reconcile d parse w n) := by
      have := drain_of_avail d parse q (reconcile d parse w n) hr.2.1
      simpa [drain] using this
    have hs := foldCore_spec q (reconcile d parse w n)
    rw [hd]
    refine ⟨by simpa using hs.1.trans hr.1, by simpa using hs.2.1.trans hr.2.1, hs.2.2.1.trans hr.2.2.1,
      hs.2.2.2.1.trans hr.2.2.2, ?_⟩
    intro m
    have hm := hs.2.2.2.2 m
    rw [hs.1]
    rw [hr.2.2.2] at hm
    constructor
    · intro hin
      by_cases hq : m ∈ q
      · exact hm.1 hq
      · have hmn : m = n := by
          cases List.mem_cons.mp hin with
          | inl h => exact h
          | inr h => exact absurd h hq
        subst hmn
        have := reconcile_correct d parse w m
        unfold Correct at *
        rw [hm.2 hq]; exact this
    · intro hnin
      have hmn : m ≠ n := fun h => hnin (by simp [h])
      have hq : m ∉ q := fun h => hnin (by simp [h])
      rw [hm.2 hq, reconcile_other d parse w n m hmn]

/-- reconciling the one name at which the invariant may be broken restores it everywhere. -/
theorem reconcile_inv (d : Defaults) (parse : Ident → CM) (w : World) (n : Nat) (h : InvEx n w) :
    Inv (reconcile d parse w n) := by
  intro m
  have hf := reconcile_frame d parse w n
  refine ⟨?_, by simp [hf.2.1]⟩
  by_cases hmn : m = n
  · subst hmn
    rw [hf.2.2.2]
    exact reconcile_correct d parse w m
  · have hm := h m hmn
    unfold Correct at *
    rw [reconcile_other d parse w n m hmn, hf.2.2.2, hm.1]
    by_cases ha : w.avail = true
    · rw [hf.1, ensure_of_avail d parse w ha]
    · have : lookupA w.nodes m = none := hm.2 (by simpa using ha)
      simp [this]

/-- draining a queue that contains every existing node and NodeSLO name establishes the invariant from ANY world. -/
theorem drain_all_inv (d : Defaults) (parse : Ident → CM) (q : List Nat) (w : World)
    (hq : ∀ m, m ∉ q → lookupA w.nodes m = none ∧ lookupA w.slos m = none) :
    Inv (drain d parse w q) := by
  have hs := drain_spec d parse q w
  intro m
  constructor
  · by_cases hin : m ∈ q
    · have := (hs.2.2.2.2 m).1 hin
      rw [hs.2.2.2.1]; exact this
    · have h1 := (hs.2.2.2.2 m).2 hin
      have h2 := hq m hin
      unfold Correct
      rw [h1, hs.2.2.2.1, h2.1, h2.2]; rfl
  · intro ha
    rw [hs.2.2.2.1]
    by_cases hin : m ∈ q
    · have hne : q ≠ [] := by intro h; simp [h] at hin
      rw [hs.2.1] at ha
      simp [hne] at ha
    · exact (hq m hin).1

/-! ### ConfigMap events -/

theorem cmSync_spec (d : Defaults) (parse : Ident → CM) (w : World) (i : Ident) :
    (cmSync d parse w i).cfg = sync d w.cfg (some (parse i)) ∧ (cmSync d parse w i).avail = true ∧
    (cmSync d parse w i).cm = w.cm ∧ (cmSync d parse w i).nodes = w.nodes ∧
    (∀ m, m ∉ w.nodes.map (·.1) → lookupA (cmSync d parse w i).slos m = lookupA w.slos m) ∧
    (Inv w → Inv (cmSync d parse w i)) := by
  by_cases hch : sync d w.cfg (some (parse i)) ≠ w.cfg
  · have key : cmSync d parse w i =
        (w.nodes.map (·.1)).foldl reconcileCore { w with cfg := sync d w.cfg (some (parse i)), avail := true } := by
      have hdec : decide (sync d w.cfg (some (parse i)) ≠ w.cfg) = true := decide_eq_true hch
      unfold cmSync syncIfChanged
      simp only [hdec, if_true]
      exact drain_of_avail d parse (w.nodes.map (·.1)) { w with cfg := sync d w.cfg (some (parse i)), avail := true } rfl
    rw [key]
    have hs := foldCore_spec (w.nodes.map (·.1)) { w with cfg := sync d w.cfg (some (parse i)), avail := true }
    refine ⟨hs.1, hs.2.1, hs.2.2.1, hs.2.2.2.1, ?_, ?_⟩
    · intro m hm
      exact (hs.2.2.2.2 m).2 hm
    · intro hinv m
      refine ⟨?_, by simp [hs.2.1]⟩
      rw [hs.1, hs.2.2.2.1]
      by_cases hin : m ∈ w.nodes.map (·.1)
      · exact (hs.2.2.2.2 m).1 hin
      · have h1 := (hs.2.2.2.2 m).2 hin
        have h2 := lookupA_none_of_not_mem w.nodes m hin
        have h3 := (hinv m).1
        unfold Correct at *
        simp only at h1
        rw [h1, h3, h2]; rfl
  · have heq : sync d w.cfg (some (parse i)) = w.cfg := by simpa using hch
    have key : cmSync d parse w i = { w with avail := true } := by
      unfold cmSync syncIfChanged
      simp [heq, drain]
    rw [key]
    refine ⟨heq.symm, rfl, rfl, rfl, fun _ _ => rfl, ?_⟩
    intro hinv m
    exact ⟨(hinv m).1, by simp⟩

theorem cmEv_inv (d : Defaults) (parse : Ident → CM) (x : World) (h : Inv x) : Inv (cmEv d parse x) := by
  unfold cmEv
  split
  · exact (cmSync_spec d parse x _).2.2.2.2.2 h
  · exact h

theorem cmEv_frame (d : Defaults) (parse : Ident → CM) (x : World) :
    (cmEv d parse x).nodes = x.nodes ∧
    ∀ m, m ∉ x.nodes.map (·.1) → lookupA (cmEv d parse x).slos m = lookupA x.slos m := by
  unfold cmEv
  split
  · exact ⟨(cmSync_spec d parse x _).2.2.2.1, (cmSync_spec d parse x _).2.2.2.2.1⟩
  · exact ⟨rfl, fun _ _ => rfl⟩

/-! ### the delivery invariant over all histories -/

theorem inv_of_nodes_lookup_eq (w w' : World) (hc : w'.cfg = w.cfg) (ha : w'.avail = w.avail) (hs : w'.slos = w.slos)
    (hn : ∀ m, lookupA w'.nodes m = lookupA w.nodes m) (h : Inv w) : Inv w' := by
  intro m
  have := h m
  unfold Correct at *
  rw [hc, ha, hs, hn m]; exact this

theorem invEx_of_node_change (w : World) (n : Nat) (nodes' : List (Nat × Labels))
    (hn : ∀ m, m ≠ n → lookupA nodes' m = lookupA w.nodes m) (h : Inv w) :
    InvEx n { w with nodes := nodes' } := by
  intro m hmn
  have := h m
  unfold Correct at *
  simp only
  rw [hn m hmn]; exact this

theorem hstep_inv (d : Defaults) (parse : Ident → CM) (w : World) (s : HStep) (h : Inv w) :
    Inv (hstep d parse w s) := by
  cases s with
  | cmCreate i =>
    exact (cmSync_spec d parse { w with cm := some i } i).2.2.2.2.2 h
  | cmUpdate i =>
    simp only [hstep]
    split
    · exact h
    · exact (cmSync_spec d parse { w with cm := some i } i).2.2.2.2.2 h
  | cmDelete => exact h
  | cmForeign => exact h
  | nodeAdd n ls =>
    simp only [hstep, drain, List.foldl_cons, List.foldl_nil]
    apply reconcile_inv
    apply invEx_of_node_change w n _ _ h
    intro m hmn; simp [lookupA_setA, hmn]
  | nodeUpdate n ls =>
    simp only [hstep]
    split
    · exact h
    · next old hold =>
      split
      · next heq =>
        refine inv_of_nodes_lookup_eq w { w with nodes := setA w.nodes n ls } rfl rfl rfl ?_ h
        intro m
        simp only [lookupA_setA]
        by_cases hmn : m = n
        · subst hmn; simp [hold, heq]
        · simp [hmn]
      · simp only [drain, List.foldl_cons, List.foldl_nil]
        apply reconcile_inv
        apply invEx_of_node_change w n _ _ h
        intro m hmn; simp [lookupA_setA, hmn]
  | nodeDelete n =>
    simp only [hstep, drain, List.foldl_cons, List.foldl_nil]
    apply reconcile_inv
    apply invEx_of_node_change w n _ _ h
    intro m hmn; simp [lookupA_delA, hmn]
  | restart cmFirst =>
    simp only [hstep]
    have hall : ∀ m, m ∉ (w.nodes.map (·.1) ++ w.slos.map (·.1)) → lookupA w.nodes m = none ∧ lookupA w.slos m = none := by
      intro m hm
      simp only [List.mem_append, not_or] at hm
      exact ⟨lookupA_none_of_not_mem _ _ hm.1, lookupA_none_of_not_mem _ _ hm.2⟩
    cases cmFirst with
    | true =>
      simp only [if_true]
      apply drain_all_inv
      intro m hm
      have hf := cmEv_frame d parse { w with cfg := Cfg.default d, avail := false }
      have hm' := hall m hm
      simp only [List.mem_append, not_or] at hm
      rw [hf.1, hf.2 m hm.1]
      exact hm'
    | false =>
      simp only [Bool.false_eq_true, if_false]
      exact cmEv_inv d parse _ (drain_all_inv d parse (w.nodes.map (·.1) ++ w.slos.map (·.1))
        { w with cfg := Cfg.default d, avail := false } hall)

theorem init_inv (d : Defaults) : Inv (World.init d) := by
  intro m; simp [World.init, Correct, lookupA]

theorem hrun_inv (d : Defaults) (parse : Ident → CM) (hs : List HStep) : ∀ (w : World), Inv w → Inv (hrun d parse w hs) := by
  induction hs with
  | nil => intro w h; exact h
  | cons s hs ih => intro w h; exact ih _ (hstep_inv d parse w s h)

/-! ### the cache tracks the latest ConfigMap data -/

/-- a section of the cache is the from-scratch merge of the section's current input, unless that input is unparsable. -/
def SecFresh (sys : Bool) (dflt : Flat) (cur : SecCfg) (i : SecIn) : Prop :=
  i ≠ .bad → cur = mergeSection sys dflt (secDefault dflt) i

def HostFresh (cur : SecCfg) (i : SecIn) : Prop :=
  i ≠ .bad → cur = mergeHost (secDefault noApps) i

def Tracks (d : Defaults) (cfg : Cfg) (cm : CM) : Prop :=
  SecFresh false d.thr cfg.thr cm.thr ∧ SecFresh false d.qos cfg.qos cm.qos ∧ SecFresh false d.burst cfg.burst cm.burst ∧
  SecFresh true d.sys cfg.sys cm.sys ∧ HostFresh cfg.host cm.host

theorem mergeSection_fresh (sys : Bool) (dflt : Flat) (a b : SecCfg) (i : SecIn) (h : i ≠ .bad) :
    mergeSection sys dflt a i = mergeSection sys dflt b i := by
  cases i with
  | absent => rfl
  | bad => exact absurd rfl h
  | ok c ns => rfl

theorem mergeHost_fresh (a b : SecCfg) (i : SecIn) (h : i ≠ .bad) : mergeHost a i = mergeHost b i := by
  cases i with
  | absent => rfl
  | bad => exact absurd rfl h
  | ok c ns => rfl

theorem sync_tracks (d : Defaults) (st : Cfg) (cm : CM) : Tracks d (sync d st (some cm)) cm := by
  refine ⟨?_, ?_, ?_, ?_, ?_⟩ <;> intro h <;> simp only [sync]
  · exact mergeSection_fresh _ _ _ _ _ h
  · exact mergeSection_fresh _ _ _ _ _ h
  · exact mergeSection_fresh _ _ _ _ _ h
  · exact mergeSection_fresh _ _ _ _ _ h
  · exact mergeHost_fresh _ _ _ h

/-- skipping an event whose data the cache already tracks loses nothing: syncConfig would not change the cache. -/
theorem sync_idem_of_tracks (d : Defaults) (cfg : Cfg) (cm : CM) (h : Tracks d cfg cm) :
    sync d cfg (some cm) = cfg := by
  obtain ⟨h1, h2, h3, h4, h5⟩ := h
  have sec : ∀ (sys : Bool) (dflt : Flat) (cur : SecCfg) (i : SecIn), SecFresh sys dflt cur i →
      mergeSection sys dflt cur i = cur := by
    intro sys dflt cur i hf
    by_cases hb : i = .bad
    · subst hb; rfl
    · rw [mergeSection_fresh sys dflt cur (secDefault dflt) i hb]; exact (hf hb).symm
  have host : mergeHost cfg.host cm.host = cfg.host := by
    by_cases hb : cm.host = .bad
    · rw [hb]; rfl
    · rw [mergeHost_fresh cfg.host (secDefault noApps) cm.host hb]; exact (h5 hb).symm
  cases cfg with
  | mk thr qos burst sys hostc =>
    simp only [sync] at *
    rw [sec false d.thr thr cm.thr h1, sec false d.qos qos cm.qos h2, sec false d.burst burst cm.burst h3,
      sec true d.sys sys cm.sys h4, host]

/-- once the cache is available it tracks the texts of the ConfigMap object that exists. -/
def CInv (d : Defaults) (parse : Ident → CM) (w : World) : Prop :=
  w.avail = true → ∀ i, w.cm = some i → Tracks d w.cfg (parse i)

theorem ensure_cinv (d : Defaults) (parse : Ident → CM) (w : World) (h : CInv d parse w) :
    CInv d parse (ensureAvail d parse w) := by
  by_cases ha : w.avail = true
  · rw [ensure_of_avail d parse w ha]; exact h
  · intro _ i hi
    have hcm : w.cm = some i := by simpa [ensureAvail, ha] using hi
    simp only [ensureAvail, ha, Bool.false_eq_true, if_false, hcm, Option.map_some]
    exact sync_tracks d w.cfg (parse i)

theorem drain_cinv (d : Defaults) (parse : Ident → CM) (q : List Nat) (w : World) (h : CInv d parse w) :
    CInv d parse (drain d parse w q) := by
  have hs := drain_spec d parse q w
  by_cases hq : q = []
  · subst hq; simpa [drain] using h
  · intro _ i hi
    rw [hs.2.2.1] at hi
    rw [hs.1]
    simp only [hq, if_false]
    exact ensure_cinv d parse w h (ensure_frame d parse w).1 i (by rw [(ensure_frame d parse w).2.1]; exact hi)

theorem cmSync_cinv (d : Defaults) (parse : Ident → CM) (w : World) (i : Ident) (hcm : w.cm = some i) :
    CInv d parse (cmSync d parse w i) := by
  have hs := cmSync_spec d parse w i
  intro _ j hj
  rw [hs.2.2.1, hcm] at hj
  cases hj
  rw [hs.1]
  exact sync_tracks d w.cfg (parse i)

theorem cmEv_cinv (d : Defaults) (parse : Ident → CM) (x : World) (h : CInv d parse x) : CInv d parse (cmEv d parse x) := by
  unfold cmEv
  split
  · next i hi => exact cmSync_cinv d parse x i hi
  · exact h

theorem hstep_cinv (d : Defaults) (parse : Ident → CM) (w : World) (s : HStep) (h : CInv d parse w) :
    CInv d parse (hstep d parse w s) := by
  cases s with
  | cmCreate i => exact cmSync_cinv d parse _ i rfl
  | cmUpdate i =>
    simp only [hstep]
    split
    · exact h
    · exact cmSync_cinv d parse _ i rfl
  | cmDelete => intro _ i hi; simp [hstep] at hi
  | cmForeign => exact h
  | nodeAdd n ls => exact drain_cinv d parse [n] _ h
  | nodeUpdate n ls =>
    simp only [hstep]
    split
    · exact h
    · split
      · exact h
      · exact drain_cinv d parse [n] _ h
  | nodeDelete n => exact drain_cinv d parse [n] _ h
  | restart cmFirst =>
    simp only [hstep]
    have h0 : CInv d parse { w with cfg := Cfg.default d, avail := false } := by
      intro ha; simp at ha
    cases cmFirst with
    | true =>
      simp only [if_true]
      exact drain_cinv d parse _ _ (cmEv_cinv d parse _ h0)
    | false =>
      simp only [Bool.false_eq_true, if_false]
      exact cmEv_cinv d parse _ (drain_cinv d parse _ _ h0)

theorem hrun_cinv (d : Defaults) (parse : Ident → CM) (hs : List HStep) : ∀ (w : World),
    CInv d parse w → CInv d parse (hrun d parse w hs) := by
  induction hs with
  | nil => intro w h; exact h
  | cons s hs ih => intro w h; exact ih _ (hstep_cinv d parse w s h)

theorem init_cinv (d : Defaults) (parse : Ident → CM) : CInv d parse (World.init d) := by
  intro ha; simp [World.init] at ha

end KoordVerif.C20
