import KoordVerif.Model.C11
/-
C11 — helper development for the eviction loop (Part A): association-list lemmas, the
declarative reading of an executor trace, and the loop invariant of KillAndEvictPods.
-/
namespace KoordVerif.C11

/-! ### association lists -/

/-- total amount stored under `k` (equals `get` when keys are unique, as in a Go map). -/
def getSum : Rel → Key → Int
  | [], _ => 0
  | (k', v) :: l, k => (if k' = k then v else 0) + getSum l k

theorem get_setKey (l : Rel) (k k' : Key) (v : Int) :
    get (setKey l k v) k' = if k = k' then v else get l k' := by
  induction l with
  | nil => simp [setKey, get]
  | cons h t ih =>
    obtain ⟨k0, v0⟩ := h
    unfold setKey
    by_cases h1 : k0 = k
    · subst h1
      by_cases h2 : k0 = k' <;> simp [get, h2]
    · by_cases h2 : k0 = k'
      · subst h2
        have : ¬ k = k0 := fun h => h1 h.symm
        simp [get, h1, this]
      · simp [get, h1, h2, ih]

theorem get_addRel (a b : Rel) (k : Key) : get (addRel a b) k = get a k + getSum b k := by
  induction b generalizing a with
  | nil => simp [addRel, getSum]
  | cons h t ih =>
    obtain ⟨k0, v0⟩ := h
    simp only [addRel, getSum]
    rw [ih, get_setKey]
    by_cases h1 : k0 = k
    · subst h1; simp; omega
    · simp [h1]

/-! ### declarative reading of a trace (newest event first) -/

/-- what the events of a trace credit under key `k`: every successful eviction and every pod
    found still terminating contributes its aggregated release; a failed call contributes nothing. -/
def credit (agg : Entry → Rel) : List Ev → Key → Int
  | [], _ => 0
  | ev :: l, k => (if ev.kind = .fail then 0 else getSum (agg ev.e) k) + credit agg l k

/-- pods that were successfully evicted or counted as terminating. -/
def creditedPods : List Ev → List Nat
  | [] => []
  | ev :: l => if ev.kind = .fail then creditedPods l else ev.e.pod :: creditedPods l

/-- the task's target is covered by what the events `older` credit. -/
def Met (agg : Entry → Rel) (t : Task) (older : List Ev) : Prop :=
  ∀ ra ∈ t.toRelease, ra.2 ≤ credit agg older (t.target, ra.1)

/-- per-event obligations, `older` = the events that happened before `ev`. -/
structure EvOK (agg : Entry → Rel) (isEv : Nat → Bool) (tasks : List Task) (older : List Ev) (ev : Ev) : Prop where
  task_ok : ∃ t, tasks[ev.task]? = some t ∧ ev.e ∈ t.pods ∧ ¬ Met agg t older
  fresh   : ev.e.pod ∉ creditedPods older
  kind_ok : ev.kind = .pending ↔ isEv ev.e.pod = true

def HistOK (Φ : List Ev → Ev → Prop) : List Ev → Prop
  | [] => True
  | ev :: older => Φ older ev ∧ HistOK Φ older

theorem HistOK_split {Φ : List Ev → Ev → Prop} {l : List Ev} (h : HistOK Φ l) :
    ∀ newer ev older, l = newer ++ ev :: older → Φ older ev := by
  induction l with
  | nil => intro newer ev older he; cases newer <;> simp at he
  | cons x xs ih =>
    intro newer ev older he
    cases newer with
    | nil =>
      simp at he
      obtain ⟨rfl, rfl⟩ := he
      exact h.1
    | cons y ys =>
      simp at he
      exact ih h.2 ys ev older he.2

theorem remaining_isEmpty_iff (t : Task) (rel : Rel) :
    (remaining t rel).isEmpty = true ↔ ∀ ra ∈ t.toRelease, ra.2 ≤ get rel (t.target, ra.1) := by
  unfold remaining
  generalize t.toRelease = l
  induction l with
  | nil => simp
  | cons a l ih =>
    simp only [List.filterMap_cons, List.mem_cons, forall_eq_or_imp]
    by_cases h : a.2 > get rel (t.target, a.1)
    · simp [h]
      omega
    · simp only [h, if_false]
      rw [ih]
      constructor
      · intro hh; exact ⟨by omega, hh⟩
      · intro hh; exact hh.2

/-! ### loop invariant -/

structure Inv (agg : Entry → Rel) (isEv : Nat → Bool) (tasks : List Task) (st : St) : Prop where
  rel   : ∀ k, get st.released k = credit agg st.logRev k
  evd   : ∀ p, p ∈ st.evicted ↔ p ∈ creditedPods st.logRev
  newly : st.newly = true ↔ ∃ ev ∈ st.logRev, ev.kind = .ok
  hist  : HistOK (EvOK agg isEv tasks) st.logRev

theorem met_iff {agg : Entry → Rel} {isEv tasks st} (inv : Inv agg isEv tasks st) (t : Task) :
    (remaining t st.released).isEmpty = true ↔ Met agg t st.logRev := by
  rw [remaining_isEmpty_iff]
  unfold Met
  constructor
  · intro h ra hra; rw [← inv.rel]; exact h ra hra
  · intro h ra hra; rw [inv.rel]; exact h ra hra

theorem loopPods_inv (agg : Entry → Rel) (isEv : Nat → Bool) (tasks : List Task) (ti : Nat) (t : Task)
    (ht : tasks[ti]? = some t) (es : List Entry) :
    ∀ st, (∀ e ∈ es, e ∈ t.pods) → Inv agg isEv tasks st → (remaining t st.released).isEmpty = false →
      Inv agg isEv tasks (loopPods agg isEv ti t st es) := by
  induction es with
  | nil => intro st _ inv _; simpa [loopPods] using inv
  | cons e es ih =>
    intro st hsub inv hne
    have hes : ∀ e' ∈ es, e' ∈ t.pods := fun e' h => hsub e' (List.mem_cons_of_mem _ h)
    have hnm : ¬ Met agg t st.logRev := by
      intro hm; rw [(met_iff inv t).mpr hm] at hne; cases hne
    unfold loopPods
    by_cases hc : st.evicted.contains e.pod = true
    · rw [if_pos hc]; exact ih st hes inv hne
    · rw [if_neg hc]
      have hfresh : e.pod ∉ creditedPods st.logRev := by
        intro h; apply hc; simpa using (inv.evd e.pod).mpr h
      have htask : ∃ t', tasks[ti]? = some t' ∧ e ∈ t'.pods ∧ ¬ Met agg t' st.logRev :=
        ⟨t, ht, hsub e (List.mem_cons_self ..), hnm⟩
      by_cases hev : isEv e.pod = true
      · rw [if_pos hev]
        -- pending release
        have inv' : Inv agg isEv tasks
            { st with evicted := e.pod :: st.evicted, released := addRel st.released (agg e),
                      logRev := ⟨ti, e, .pending⟩ :: st.logRev } := by
          refine ⟨?_, ?_, ?_, ?_⟩
          · intro k; simp [get_addRel, credit, inv.rel k]; omega
          · intro p; simp [creditedPods, inv.evd p]
          · simp [inv.newly]
          · exact ⟨⟨htask, hfresh, by simp [hev]⟩, inv.hist⟩
        show Inv agg isEv tasks (if (remaining t (addRel st.released (agg e))).isEmpty = true then _ else _)
        split
        · exact inv'
        · rename_i hrem
          exact ih _ hes inv' (by simpa using hrem)
      · rw [if_neg hev]
        by_cases hok : st.script.headD true = true
        · rw [if_pos hok]
          have inv' : Inv agg isEv tasks
              { st with evicted := e.pod :: st.evicted, newly := true,
                        released := addRel st.released (agg e), script := st.script.tail,
                        logRev := ⟨ti, e, .ok⟩ :: st.logRev } := by
            refine ⟨?_, ?_, ?_, ?_⟩
            · intro k; simp [get_addRel, credit, inv.rel k]; omega
            · intro p; simp [creditedPods, inv.evd p]
            · simp
            · exact ⟨⟨htask, hfresh, by simp [hev]⟩, inv.hist⟩
          show Inv agg isEv tasks (if (remaining t (addRel st.released (agg e))).isEmpty = true then _ else _)
          split
          · exact inv'
          · rename_i hrem
            exact ih _ hes inv' (by simpa using hrem)
        · rw [if_neg hok]
          apply ih _ hes
          · refine ⟨?_, ?_, ?_, ?_⟩
            · intro k; simp [credit, inv.rel k]
            · intro p; simp [creditedPods, inv.evd p]
            · simp [inv.newly]
            · exact ⟨⟨htask, hfresh, by simp [hev]⟩, inv.hist⟩
          · simpa using hne

theorem loopTasks_inv (agg : Entry → Rel) (isEv : Nat → Bool) (tasks : List Task) (ts : List Task) :
    ∀ ti st, (∀ j t, ts[j]? = some t → tasks[ti + j]? = some t) → Inv agg isEv tasks st →
      Inv agg isEv tasks (loopTasks agg isEv ti st ts) := by
  induction ts with
  | nil => intro ti st _ inv; simpa [loopTasks] using inv
  | cons t ts ih =>
    intro ti st hidx inv
    have hnext : ∀ j t', ts[j]? = some t' → tasks[ti + 1 + j]? = some t' := by
      intro j t' h
      have := hidx (j + 1) t' (by simpa using h)
      rw [show ti + 1 + j = ti + (j + 1) by omega]; exact this
    have ht : tasks[ti]? = some t := by simpa using hidx 0 t (by simp)
    unfold loopTasks
    split
    · exact ih (ti + 1) st hnext inv
    · rename_i hrem
      exact ih (ti + 1) _ hnext
        (loopPods_inv agg isEv tasks ti t ht t.pods st (fun _ h => h) inv (by simpa using hrem))

theorem init_inv (agg : Entry → Rel) (isEv : Nat → Bool) (tasks : List Task) (script : List Bool) :
    Inv agg isEv tasks (St.init script) := by
  refine ⟨?_, ?_, ?_, ?_⟩ <;> simp [St.init, get, credit, creditedPods, HistOK]

theorem kill_inv (isEv : Nat → Bool) (script : List Bool) (tasks : List Task) :
    Inv (aggWith (collectFns [] tasks)) isEv tasks (killAndEvict isEv script tasks) := by
  unfold killAndEvict
  exact loopTasks_inv _ isEv tasks tasks 0 _ (by intro j t h; simpa using h) (init_inv _ _ _ _)

end KoordVerif.C11
