import KoordVerif.Proofs.C19ExtQuota3
/-
C19 (elasticquota part), helper lemmas 4: every guarded step of a live history keeps the live invariant
(quota handlers, ReplaceQuotas, migration tick, pod add / delete, Reserve / Unreserve).
-/
namespace KoordVerif.C19.Quota

def LiveStepOK (op : Op) : Prop :=
  ∀ s w, LiveInv s w → okStep s w op = true → LiveInv (step s op) (w.apply op)

theorem LiveInv_init : LiveInv {} {} := by
  refine ⟨KInv_init, by decide, List.Pairwise.nil, ?_, List.nodup_nil, ?_, ?_, ?_, ?_, ?_, ?_⟩
  · intro o ho; cases ho
  · intro v hv; cases hv
  · intro o ho; cases ho
  · intro o ho; cases ho
  · intro id h; simp at h
  · intro q; rfl
  · intro q; rfl

theorem step_migrate_ok : LiveStepOK .migrate := fun _ _ h _ => (LiveInv_migrateAll h).1

theorem step_replace_ok : LiveStepOK .replace := by
  intro s w h ho
  simp only [okStep, List.isEmpty_iff] at ho
  show LiveInv (replaceQuotas s) w
  have hv : view (replaceQuotas s) = [] := rfl
  have h1 : ∀ q pid, hasE (replaceQuotas s) q pid = false := fun q pid => by simp [hasE, replaceQuotas]
  have h2 : ∀ q pid, isAssigned (replaceQuotas s) q pid = false := fun q pid => by simp [isAssigned, replaceQuotas]
  refine ⟨KInv_replace s, h.su, h.nd, h.nn, by rw [hv]; exact List.nodup_nil, ?_, ?_, ?_, h.rnt, ?_, ?_⟩
  · intro v hvm; rw [hv] at hvm; cases hvm
  · intro o hom; rw [ho] at hom; cases hom
  · intro o hom; rw [ho] at hom; cases hom
  · intro q; rw [ho]; rfl
  · intro q; rw [ho]; rfl

/-- a quota add / update: the ledger is untouched, a pod may only leave the default group's resolution -/
theorem LiveInv_quota_change {s s' : St} {w : World} (h : LiveInv s w) (hc : s'.cache = s.cache)
    (hr : s'.req = s.req) (hu : s'.used = s.used) (hk : KInv s') (hsu : storeUnique s'.store = true)
    (hres : ∀ o ∈ w.alive, resolve s' o = resolve s o ∨ resolve s o = dflt) : LiveInv s' w := by
  have h1 : ∀ q pid, hasE s' q pid = hasE s q pid := fun q pid => hasE_congr hc q pid
  have h2 : ∀ q pid, isAssigned s' q pid = isAssigned s q pid := fun q pid => isAssigned_congr hc q pid
  have hv : view s' = view s := view_congr hc
  refine ⟨hk, hsu, h.nd, h.nn, by rw [hv]; exact h.vnd, ?_, ?_, ?_, h.rnt, ?_, ?_⟩
  · intro v hvm
    rw [hv] at hvm
    obtain ⟨o, ho, a1, a2, a3, a4⟩ := h.vobj v hvm
    refine ⟨o, ho, a1, a2, ?_, a4⟩
    rcases hres o ho with e | e
    · rw [e]; exact a3
    · rw [e] at a3; right; rcases a3 with a3 | a3 <;> exact a3
  · intro o ho; obtain ⟨q, hq⟩ := h.cov o ho; exact ⟨q, by rw [h1]; exact hq⟩
  · intro o ho q; rw [h1, h2]; exact h.asg o ho q
  · intro q; rw [hr]; simp only [h1]; exact h.req q
  · intro q; rw [hu]; simp only [h2]; exact h.used q

theorem okStep_quota {s : St} {w : World} {s' : St}
    (ho : (storeUnique s'.store &&
      w.alive.all (fun o => resolve s' o == resolve s o || resolve s o == dflt)) = true) :
    storeUnique s'.store = true ∧ ∀ o ∈ w.alive, resolve s' o = resolve s o ∨ resolve s o = dflt := by
  simp only [Bool.and_eq_true, List.all_eq_true, Bool.or_eq_true, beq_iff_eq] at ho
  exact ho

theorem step_qstore_ok (q : QObj) : LiveStepOK (.qstore q) := by
  intro s w h ho
  have := okStep_quota (s := s) (w := w) (s' := storePut s q) ho
  exact LiveInv_quota_change h rfl rfl rfl (KInv_qstore h.kinv q) this.1 this.2

theorem step_qput_ok (q : QObj) : LiveStepOK (.qput q) := by
  intro s w h ho
  have := okStep_quota (s := s) (w := w) (s' := onQuotaPut s q) ho
  exact LiveInv_quota_change h (onQuotaPut_cache s q) (onQuotaPut_req s q) (onQuotaPut_used s q)
    (KInv_qput h.kinv q) this.1 this.2

/-! ### OnQuotaDelete -/

theorem storeUnique_filter {S : List QObj} (p : QObj → Bool) (h : storeUnique S = true) :
    storeUnique (S.filter p) = true := by
  simp only [storeUnique, Bool.and_eq_true, decide_eq_true_eq, List.all_eq_true] at h ⊢
  refine ⟨List.Nodup.sublist (List.Sublist.map _ List.filter_sublist) h.1, ?_⟩
  intro q hq n hn q' hq'
  exact h.2 q (List.mem_filter.1 hq).1 n hn q' (List.mem_filter.1 hq').1

theorem any_and_const {α : Type} (l : List α) (f g : α → Bool) (c : Bool) (h : ∀ e, f e = true → g e = c) :
    l.any (fun e => g e && f e) = (l.any f && c) := by
  induction l with
  | nil => simp
  | cons a l ih =>
    simp only [List.any_cons, ih]
    cases hfa : f a
    · simp
    · rw [h a hfa]; cases c <;> simp

theorem hasE_qdel (s : St) (n q pid : Nat) : hasE (onQuotaDelete s n) q pid = (hasE s q pid && (q != n)) := by
  simp only [hasE, onQuotaDelete, List.any_filter]
  apply any_and_const
  intro e he
  simp only [Bool.and_eq_true, beq_iff_eq] at he
  rw [he.1]

theorem isAssigned_qdel (s : St) (n q pid : Nat) :
    isAssigned (onQuotaDelete s n) q pid = (isAssigned s q pid && (q != n)) := by
  simp only [isAssigned, onQuotaDelete, List.any_filter]
  apply any_and_const
  intro e he
  simp only [Bool.and_eq_true, beq_iff_eq] at he
  rw [he.1.1]

theorem view_qdel (s : St) (n : Nat) : view (onQuotaDelete s n) = (view s).filter (fun v => v.1 != n) := by
  simp only [view, onQuotaDelete, List.filter_map]; rfl

theorem step_qdel_ok (n : Nat) : LiveStepOK (.qdel n) := by
  intro s w h ho
  simp only [okStep, Bool.and_eq_true, decide_eq_true_eq, List.all_eq_true, beq_iff_eq] at ho
  obtain ⟨hn3, hres⟩ := ho
  show LiveInv (onQuotaDelete s n) w
  have hres : ∀ o ∈ w.alive, resolve (onQuotaDelete s n) o = resolve s o := hres
  have hkn : ∀ m, (onQuotaDelete s n).known.contains m = true ↔ (s.known.contains m = true ∧ m ≠ n) := by
    intro m; simp [onQuotaDelete, List.mem_filter]
  have hd : dflt ≠ n := by unfold dflt; omega
  have hK : KInv (onQuotaDelete s n) := by
    refine ⟨fun m hm => ?_, (hkn 1).2 ⟨h.kinv.k1, by omega⟩, (hkn 2).2 ⟨h.kinv.k2, by omega⟩⟩
    obtain ⟨h1, h2⟩ := (hkn m).1 hm
    rcases h.kinv.kn m h1 with a | a | ⟨q, hq, rfl⟩
    · exact Or.inl a
    · exact Or.inr (Or.inl a)
    · exact Or.inr (Or.inr ⟨q, by simp only [onQuotaDelete, List.mem_filter]; exact ⟨hq, by simpa using h2⟩, rfl⟩)
  have hnotn : ∀ o ∈ w.alive, resolve s o ≠ n := by
    intro o ho
    rw [← hres o ho]
    exact ((hkn _).1 (resolve_known _ o hK.k1)).2
  have hloc : ∀ o ∈ w.alive, ∀ q, hasE s q o.id = true → q ≠ n := by
    intro o ho q hq
    obtain ⟨o', ho', hid, hl⟩ := h.loc hq
    have : o' = o := h.nd.eq_of_id ho' ho hid
    subst this
    rcases hl with rfl | rfl
    · exact hnotn o' ho'
    · exact hd
  have hE : ∀ o ∈ w.alive, ∀ q, hasE (onQuotaDelete s n) q o.id = hasE s q o.id := by
    intro o ho q
    rw [hasE_qdel]
    cases hq : hasE s q o.id
    · rfl
    · simp [hloc o ho q hq]
  have hA : ∀ o ∈ w.alive, ∀ q, isAssigned (onQuotaDelete s n) q o.id = isAssigned s q o.id := by
    intro o ho q
    rw [isAssigned_qdel]
    cases hq : isAssigned s q o.id
    · rfl
    · simp [hloc o ho q (isAssigned_le_hasE _ _ _ hq)]
  refine ⟨hK, storeUnique_filter _ h.su, h.nd, h.nn, ?_, ?_, ?_, ?_, h.rnt, ?_, ?_⟩
  · rw [view_qdel]; exact List.Nodup.sublist (List.Sublist.map _ List.filter_sublist) h.vnd
  · intro v hvm
    rw [view_qdel] at hvm
    obtain ⟨o, ho, a1, a2, a3, a4⟩ := h.vobj v (List.mem_filter.1 hvm).1
    exact ⟨o, ho, a1, a2, by rw [hres o ho]; exact a3, a4⟩
  · intro o ho; obtain ⟨q, hq⟩ := h.cov o ho; exact ⟨q, by rw [hE o ho]; exact hq⟩
  · intro o ho q; rw [hE o ho, hA o ho]; exact h.asg o ho q
  · intro q
    show getC (s.req.filter (fun e => e.1 != n)) q = _
    rw [getC_filter_ne, sumBy_congr (fun o ho => hE o ho q)]
    split
    · rename_i hq
      subst hq
      rw [sumBy_false]
      intro o ho
      cases hq : hasE s q o.id
      · rfl
      · exact absurd rfl (hloc o ho q hq)
    · exact h.req q
  · intro q
    show getC (s.used.filter (fun e => e.1 != n)) q = _
    rw [getC_filter_ne, sumBy_congr (fun o ho => hA o ho q)]
    split
    · rename_i hq
      subst hq
      rw [sumBy_false]
      intro o ho
      cases hq : isAssigned s q o.id
      · rfl
      · exact absurd rfl (hloc o ho q (isAssigned_le_hasE _ _ _ hq))
    · exact h.used q

/-! ### world lemmas -/

theorem find_none {w : World} {id : Nat} (h : w.find id = none) : ∀ o ∈ w.alive, o.id ≠ id := by
  intro o ho; have := List.find?_eq_none.1 h o ho; simpa using this

theorem find_some {w : World} {id : Nat} {p : PodObj} (h : w.find id = some p) : p ∈ w.alive ∧ p.id = id := by
  refine ⟨List.mem_of_find?_eq_some h, ?_⟩
  have := List.find?_some h; simpa using this

theorem sumBy_filter (l : List PodObj) (g f : PodObj → Bool) :
    sumBy (l.filter g) f = sumBy l (fun o => g o && f o) := by
  induction l with
  | nil => rfl
  | cons a l ih =>
    simp only [List.filter_cons, sumBy]
    by_cases hg : g a = true
    · simp [hg, sumBy, ih]
    · simp [hg, ih]

theorem contains_filter_ne (l : List Nat) (a b : Nat) :
    (l.filter (· != a)).contains b = (l.contains b && (b != a)) := by
  rw [Bool.eq_iff_iff]
  simp only [List.contains_eq_mem, decide_eq_true_eq, List.mem_filter, Bool.and_eq_true]

/-! ### OnPodAdd -/

theorem LiveInv_padd {s : St} {w : World} (h : LiveInv s w) (p : PodObj)
    (hfresh : ∀ o ∈ w.alive, o.id ≠ p.id) (hp0 : 0 ≤ p.req) :
    LiveInv (onPodAdd s p) { alive := p :: w.alive, resvd := w.resvd } := by
  have hnone : ∀ q, hasE s q p.id = false := by
    intro q
    cases hq : hasE s q p.id
    · rfl
    · obtain ⟨o, ho, hid, _⟩ := h.loc hq; exact absurd hid (hfresh o ho)
  have hanone : ∀ q, isAssigned s q p.id = false := fun q => isAssigned_of_not_hasE _ _ _ (hnone q)
  have hk := resolve_known s p h.k1
  have hr0 : 0 ≤ getC s.req (resolve s p) + p.req := by
    rw [h.req]; have := sumBy_nonneg (fun o => hasE s (resolve s p) o.id) h.nn; omega
  have hu0 : 0 ≤ getC s.used (resolve s p) + p.req := by
    rw [h.used]; have := sumBy_nonneg (fun o => isAssigned s (resolve s p) o.id) h.nn; omega
  obtain ⟨ev, ea, er, eu⟩ := mgrPodAdd_eff s (resolve s p) p hk (hnone _) hr0 hu0
  have eh := hasE_mgrPodAdd s (resolve s p) p
  simp only [hk, Bool.true_and] at eh
  have ek := mgrPodAdd_known s (resolve s p) p
  have es := mgrPodAdd_store s (resolve s p) p
  unfold onPodAdd
  have hrs : ∀ x, resolve (mgrPodAdd s (resolve s p) p) x = resolve s x := fun x => resolve_congr ek es x
  clear hr0 hu0 hk
  generalize hq : resolve s p = q at *
  generalize mgrPodAdd s q p = s' at *
  have hrv : w.resvd.contains p.id = false := by
    cases hc : w.resvd.contains p.id
    · rfl
    · obtain ⟨o', ho', hid, _⟩ := h.rnt _ hc; exact absurd hid (hfresh o' ho')
  refine ⟨KInv_same h.kinv ek es, by rw [es]; exact h.su, ?_, ?_, ?_, ?_, ?_, ?_, ?_, ?_, ?_⟩
  · exact List.pairwise_cons.2 ⟨fun o ho => (hfresh o ho).symm, h.nd⟩
  · intro o ho
    rcases List.mem_cons.1 ho with rfl | ho
    · exact hp0
    · exact h.nn o ho
  · rw [ev]; simp only [List.map_cons, List.nodup_cons]
    refine ⟨fun hm => ?_, h.vnd⟩
    obtain ⟨v, hv, hvid⟩ := List.mem_map.1 hm
    have : hasE s v.1 p.id = true := (hasE_iff_view s v.1 p.id).2 ⟨v.2.2, by rw [← hvid]; exact hv⟩
    rw [hnone] at this; cases this
  · intro v hv
    rw [ev] at hv
    rcases List.mem_cons.1 hv with rfl | hv
    · exact ⟨p, List.mem_cons_self, rfl, rfl, Or.inl (by rw [hrs, hq]), ⟨rfl, rfl, rfl⟩⟩
    · obtain ⟨o, ho, a1, a2, a3, a4⟩ := h.vobj v hv
      exact ⟨o, List.mem_cons_of_mem _ ho, a1, a2, by rw [hrs]; exact a3, a4⟩
  · intro o ho
    rcases List.mem_cons.1 ho with rfl | ho
    · exact ⟨q, by rw [eh]; simp⟩
    · obtain ⟨q', hq'⟩ := h.cov o ho; exact ⟨q', by rw [eh, hq']; rfl⟩
  · intro o ho q'
    rw [ea, eh]
    rcases List.mem_cons.1 ho with rfl | ho
    · show _ = (_ && (bound o || w.resvd.contains o.id))
      rw [hanone, hnone, hrv]; simp
    · show _ = (_ && (bound o || w.resvd.contains o.id))
      rw [beq_false_of_ne (hfresh o ho), h.asg o ho q']; simp
  · intro id hc
    obtain ⟨o, ho, a, b⟩ := h.rnt id hc
    exact ⟨o, List.mem_cons_of_mem _ ho, a, b⟩
  · intro q'
    rw [er, h.req q']
    show _ = sumBy (p :: w.alive) _
    simp only [sumBy]
    have : sumBy w.alive (fun o => hasE s' q' o.id) = sumBy w.alive (fun o => hasE s q' o.id) :=
      sumBy_congr (fun o ho => by rw [eh, beq_false_of_ne (hfresh o ho)]; simp)
    rw [this]
    simp only [eh, hnone]
    by_cases hqq : q' = q <;> simp [hqq] <;> omega
  · intro q'
    rw [eu, h.used q']
    show _ = sumBy (p :: w.alive) _
    simp only [sumBy]
    have : sumBy w.alive (fun o => isAssigned s' q' o.id) = sumBy w.alive (fun o => isAssigned s q' o.id) :=
      sumBy_congr (fun o ho => by rw [ea, beq_false_of_ne (hfresh o ho)]; simp)
    rw [this]
    simp only [ea, hanone]
    by_cases hqq : q' = q <;> cases bound p <;> simp [hqq] <;> omega

theorem step_padd_ok (p : PodObj) : LiveStepOK (.padd p) := by
  intro s w h ho
  simp only [okStep, Bool.and_eq_true, Option.isNone_iff_eq_none, decide_eq_true_eq] at ho
  have hfresh := find_none ho.1
  have hdrop : w.drop p.id = w.alive := List.filter_eq_self.2 (fun o ho' => by simp [hfresh o ho'])
  show LiveInv (onPodAdd s p) { alive := p :: w.drop p.id, resvd := w.resvd }
  rw [hdrop]
  exact LiveInv_padd h p hfresh ho.2

/-! ### OnPodDelete -/

theorem mgrPodDelete_eff (s : St) (q : Nat) (p : PodObj) (hk : s.known.contains q = true)
    (hh : hasE s q p.id = true) {c : PodObj} (hc : cachedObj s q p.id = some c) (hcid : c.id = p.id)
    (hcr : c.req = p.req) (hr : 0 ≤ getC s.req q - p.req)
    (hu : isAssigned s q p.id = true → 0 ≤ getC s.used q - p.req) :
    view (mgrPodDelete s q p) = (view s).filter (fun v => !(v.1 == q && v.2.1 == p.id)) ∧
    (∀ q' pid, hasE (mgrPodDelete s q p) q' pid = (hasE s q' pid && !(q' == q && pid == p.id))) ∧
    (∀ q' pid, isAssigned (mgrPodDelete s q p) q' pid = (isAssigned s q' pid && !(q' == q && pid == p.id))) ∧
    (∀ q', getC (mgrPodDelete s q p).req q' = getC s.req q' - if q' = q then p.req else 0) ∧
    (∀ q', getC (mgrPodDelete s q p).used q' =
      getC s.used q' - if q' = q ∧ isAssigned s q p.id = true then p.req else 0) ∧
    (mgrPodDelete s q p).known = s.known ∧ (mgrPodDelete s q p).store = s.store := by
  have hk' : q ∈ s.known := by simpa using hk
  cases ha : isAssigned s q p.id
  · have e : mgrPodDelete s q p = delE (reqD s q (-p.req)) q p.id := by
      unfold mgrPodDelete; simp [hk', hh, hc, hcid, hcr, ha]
    rw [e]
    refine ⟨by simp [view_delE], fun q' pid => by simp [hasE_delE], fun q' pid => by simp [isAssigned_delE],
      fun q' => ?_, fun q' => by simp, by simp, by simp⟩
    simp only [delE_req]
    rw [reqD_req _ _ _ _ (by omega)]
    split <;> omega
  · have hu := hu ha
    have e : mgrPodDelete s q p = delE (usedD (reqD s q (-p.req)) q (-p.req)) q p.id := by
      unfold mgrPodDelete; simp [hk', hh, hc, hcid, hcr, ha]
    rw [e]
    refine ⟨by simp [view_delE], fun q' pid => by simp [hasE_delE], fun q' pid => by simp [isAssigned_delE],
      fun q' => ?_, fun q' => ?_, by simp, by simp⟩
    · simp only [delE_req, usedD_req]
      rw [reqD_req _ _ _ _ (by omega)]
      split <;> omega
    · simp only [delE_used]
      rw [usedD_used _ _ _ _ (by rw [reqD_used]; omega), reqD_used]
      by_cases hq : q' = q <;> simp [hq] <;> omega

theorem mgrPodDelete_noop (s : St) (q : Nat) (p : PodObj) (h : hasE s q p.id = false) :
    mgrPodDelete s q p = s := by
  unfold mgrPodDelete; simp [h]

theorem hasE_mgrPodDelete_le (s : St) (q : Nat) (p : PodObj) (q' pid : Nat)
    (h : hasE (mgrPodDelete s q p) q' pid = true) : hasE s q' pid = true := by
  unfold mgrPodDelete at h
  split at h
  · exact h
  · simp only [] at h
    split at h <;> (rw [hasE_delE] at h; simp at h; exact h.1)

theorem mgrPodDelete_known (s : St) (q : Nat) (p : PodObj) : (mgrPodDelete s q p).known = s.known := by
  unfold mgrPodDelete; split
  · rfl
  · simp only []; split <;> simp
theorem mgrPodDelete_store (s : St) (q : Nat) (p : PodObj) : (mgrPodDelete s q p).store = s.store := by
  unfold mgrPodDelete; split
  · rfl
  · simp only []; split <;> simp

theorem Pairwise_filter_ids {l : List PodObj} (h : NodupIds l) (g : PodObj → Bool) : NodupIds (l.filter g) :=
  List.Pairwise.sublist List.filter_sublist h

/-- the pod is removed from the group `q` that caches it (its own group, or the default group while parked) -/
theorem LiveInv_pdel_at {s : St} {w : World} (h : LiveInv s w) {p : PodObj} (hp : p ∈ w.alive) (q : Nat)
    (hk : s.known.contains q = true) (hh : hasE s q p.id = true) :
    LiveInv (mgrPodDelete s q p) { alive := w.drop p.id, resvd := w.resvd.filter (· != p.id) } := by
  have hE : ∀ q', hasE s q' p.id = (q' == q) := by
    intro q'
    rw [Bool.eq_iff_iff, beq_iff_eq]
    exact ⟨fun hq => one_loc h.vnd hq hh, fun hq => hq ▸ hh⟩
  have hr : 0 ≤ getC s.req q - p.req := by
    rw [h.req]; have := sumBy_ge_point hp (fun x => hasE s q x.id) hh h.nn; omega
  have hu : isAssigned s q p.id = true → 0 ≤ getC s.used q - p.req := by
    intro ha
    rw [h.used]; have := sumBy_ge_point hp (fun x => isAssigned s q x.id) ha h.nn; omega
  obtain ⟨c, hc, hcid, hcag⟩ := h.cached hp hh
  obtain ⟨ev, eh, ea, er, eu, ek, es⟩ := mgrPodDelete_eff s q p hk hh hc hcid hcag.2.2 hr hu
  have hrs : ∀ x, resolve (mgrPodDelete s q p) x = resolve s x := fun x => resolve_congr ek es x
  clear hr hu hk hc
  generalize mgrPodDelete s q p = s' at *
  have hmem : ∀ o, o ∈ w.drop p.id ↔ (o ∈ w.alive ∧ o.id ≠ p.id) := by
    intro o; simp [World.drop, List.mem_filter]
  generalize hB : (bound p || w.resvd.contains p.id) = B
  have hA : ∀ q', isAssigned s q' p.id = ((q' == q) && B) := by
    intro q'; rw [h.asg p hp q', hE, hB]
  refine ⟨KInv_same h.kinv ek es, by rw [es]; exact h.su, Pairwise_filter_ids h.nd _,
    fun o ho => h.nn o ((hmem o).1 ho).1, ?_, ?_, ?_, ?_, ?_, ?_, ?_⟩
  · rw [ev]; exact List.Nodup.sublist (List.Sublist.map _ List.filter_sublist) h.vnd
  · intro v hv
    rw [ev] at hv
    obtain ⟨hv1, hv2⟩ := List.mem_filter.1 hv
    obtain ⟨o, ho, a1, a2, a3, a4⟩ := h.vobj v hv1
    refine ⟨o, (hmem o).2 ⟨ho, fun hc => ?_⟩, a1, a2, by rw [hrs]; exact a3, a4⟩
    have h1 : hasE s v.1 p.id = true := (hasE_iff_view _ _ _).2 ⟨v.2.2, by rw [← hc, a1]; exact hv1⟩
    rw [hE, beq_iff_eq] at h1
    simp [h1, ← a1, hc] at hv2
  · intro o ho
    obtain ⟨ho1, ho2⟩ := (hmem o).1 ho
    obtain ⟨q', hq'⟩ := h.cov o ho1
    exact ⟨q', by rw [eh, hq', beq_false_of_ne ho2]; simp⟩
  · intro o ho q'
    obtain ⟨ho1, ho2⟩ := (hmem o).1 ho
    show _ = (_ && (bound o || (w.resvd.filter (· != p.id)).contains o.id))
    have hne : (o.id != p.id) = true := by simp [ho2]
    rw [ea, eh, beq_false_of_ne ho2, contains_filter_ne, h.asg o ho1 q', hne]
    simp
  · intro id hc
    show ∃ o ∈ w.drop p.id, _
    have hc : (w.resvd.filter (· != p.id)).contains id = true := hc
    rw [contains_filter_ne, Bool.and_eq_true] at hc
    obtain ⟨o, ho, a, b⟩ := h.rnt id hc.1
    exact ⟨o, (hmem o).2 ⟨ho, by rw [a]; simpa using hc.2⟩, a, b⟩
  · intro q'
    rw [er, h.req q']
    show _ = sumBy (w.alive.filter (fun o => o.id != p.id)) _
    rw [sumBy_filter]
    rw [sumBy_point' h.nd hp (fun x => hasE s q' x.id) (fun x => x.id != p.id && hasE s' q' x.id)
      (fun x _ hne => by
        show hasE s q' x.id = (x.id != p.id && hasE s' q' x.id)
        rw [eh, beq_false_of_ne hne]; simp [hne]) (q' == q) false (hE q') (by simp)]
    by_cases hqq : q' = q <;> simp [hqq]
  · intro q'
    rw [eu, h.used q']
    show _ = sumBy (w.alive.filter (fun o => o.id != p.id)) _
    rw [sumBy_filter]
    rw [sumBy_point' h.nd hp (fun x => isAssigned s q' x.id) (fun x => x.id != p.id && isAssigned s' q' x.id)
      (fun x _ hne => by
        show isAssigned s q' x.id = (x.id != p.id && isAssigned s' q' x.id)
        rw [ea, beq_false_of_ne hne]; simp [hne]) ((q' == q) && B) false (hA q') (by simp)]
    rw [hA]
    by_cases hqq : q' = q <;> cases B <;> simp [hqq]

/-! ### Reserve / Unreserve -/

theorem step_resv_ok (p : PodObj) : LiveStepOK (.resv p) := by
  intro s w h ho
  simp only [okStep, Bool.and_eq_true, beq_iff_eq, atHome, Bool.not_eq_true'] at ho
  obtain ⟨⟨⟨hf, hh⟩, hnode⟩, hterm⟩ := ho
  obtain ⟨hp, _⟩ := find_some hf
  have hk := resolve_known s p h.k1
  have hk' : resolve s p ∈ s.known := by simpa using hk
  have hb : bound p = false := by simp [bound, hnode]
  have hE : ∀ q, hasE s q p.id = (q == resolve s p) := by
    intro q
    rw [Bool.eq_iff_iff, beq_iff_eq]
    exact ⟨fun hq => one_loc h.vnd hq hh, fun hq => hq ▸ hh⟩
  have hA : ∀ q', isAssigned s q' p.id = ((q' == resolve s p) && w.resvd.contains p.id) := by
    intro q'; rw [h.asg p hp q', hE, hb]; simp
  show LiveInv (mgrReserve s (resolve s p) p)
    { alive := w.alive, resvd := if w.resvd.contains p.id then w.resvd else p.id :: w.resvd }
  cases hc : w.resvd.contains p.id
  · have hna : isAssigned s (resolve s p) p.id = false := by rw [hA, hc]; simp
    have e : mgrReserve s (resolve s p) p = usedD (setAsg s (resolve s p) p.id true) (resolve s p) p.req := by
      unfold mgrReserve; simp [hk', hh, hna]
    rw [e]
    simp only [Bool.false_eq_true, if_false]
    have hu0 : 0 ≤ getC (setAsg s (resolve s p) p.id true).used (resolve s p) + p.req := by
      rw [setAsg_used, h.used]
      have := sumBy_nonneg (fun o => isAssigned s (resolve s p) o.id) h.nn; have := h.nn p hp; omega
    have eu := fun q' => usedD_used (setAsg s (resolve s p) p.id true) (resolve s p) q' p.req hu0
    have hrs : ∀ x, resolve (usedD (setAsg s (resolve s p) p.id true) (resolve s p) p.req) x = resolve s x :=
      fun x => resolve_congr (by simp) (by simp) x
    have eh : ∀ q' pid, hasE (usedD (setAsg s (resolve s p) p.id true) (resolve s p) p.req) q' pid = hasE s q' pid :=
      fun q' pid => by simp [hasE_setAsg]
    have ea : ∀ q' pid, isAssigned (usedD (setAsg s (resolve s p) p.id true) (resolve s p) p.req) q' pid =
        if q' = resolve s p ∧ pid = p.id then true else isAssigned s q' pid := by
      intro q' pid; simp [isAssigned_setAsg, hh]
    have ev : view (usedD (setAsg s (resolve s p) p.id true) (resolve s p) p.req) = view s := by simp
    have ek : (usedD (setAsg s (resolve s p) p.id true) (resolve s p) p.req).known = s.known := by simp
    have es : (usedD (setAsg s (resolve s p) p.id true) (resolve s p) p.req).store = s.store := by simp
    simp only [setAsg_used] at eu
    have er : (usedD (setAsg s (resolve s p) p.id true) (resolve s p) p.req).req = s.req := by simp
    clear hu0 e
    generalize usedD (setAsg s (resolve s p) p.id true) (resolve s p) p.req = s' at *
    refine ⟨KInv_same h.kinv ek es, by rw [es]; exact h.su, h.nd, h.nn, by rw [ev]; exact h.vnd, ?_, ?_, ?_, ?_,
      ?_, ?_⟩
    · intro v hv; rw [ev] at hv
      obtain ⟨o, ho, a1, a2, a3, a4⟩ := h.vobj v hv
      exact ⟨o, ho, a1, a2, by rw [hrs]; exact a3, a4⟩
    · intro o ho; obtain ⟨q', hq'⟩ := h.cov o ho; exact ⟨q', by rw [eh]; exact hq'⟩
    · intro o ho q'
      show _ = (_ && (bound o || (p.id :: w.resvd).contains o.id))
      rw [ea, eh, List.contains_cons]
      by_cases hi : o.id = p.id
      · have : o = p := h.nd.eq_of_id ho hp hi
        subst this
        rw [hA, hE, hc]
        by_cases hq : q' = resolve s o <;> simp [hq]
      · rw [if_neg (fun hcc => hi hcc.2), beq_false_of_ne hi, h.asg o ho q']; simp
    · intro id hcc
      have hcc : (p.id :: w.resvd).contains id = true := hcc
      rw [List.contains_cons, Bool.or_eq_true, beq_iff_eq] at hcc
      rcases hcc with rfl | hcc
      · exact ⟨p, hp, rfl, hterm⟩
      · exact h.rnt id hcc
    · intro q'; rw [er]; simp only [eh]; exact h.req q'
    · intro q'
      rw [eu, h.used q']
      rw [sumBy_point' h.nd hp (fun x => isAssigned s' q' x.id) (fun x => isAssigned s q' x.id)
        (fun x _ hne => by
          show isAssigned s' q' x.id = isAssigned s q' x.id
          rw [ea, if_neg (fun hcc => hne hcc.2)]) (q' == resolve s p) false
        (by show isAssigned s' q' p.id = (q' == resolve s p)
            rw [ea, hA, hc]; by_cases hq : q' = resolve s p <;> simp [hq])
        (by show isAssigned s q' p.id = false
            rw [hA, hc]; simp)]
      by_cases hq : q' = resolve s p <;> simp [hq]
  · have ha : isAssigned s (resolve s p) p.id = true := by rw [hA, hc]; simp
    have e : mgrReserve s (resolve s p) p = s := by unfold mgrReserve; simp [ha]
    rw [e]
    exact h

theorem step_unresv_ok (p : PodObj) : LiveStepOK (.unresv p) := by
  intro s w h ho
  simp only [okStep, Bool.and_eq_true, beq_iff_eq, atHome, Bool.not_eq_true'] at ho
  obtain ⟨⟨⟨hf, hh⟩, hc⟩, hnode⟩ := ho
  obtain ⟨hp, _⟩ := find_some hf
  have hk := resolve_known s p h.k1
  have hk' : resolve s p ∈ s.known := by simpa using hk
  have hb : bound p = false := by simp [bound, hnode]
  have hE : ∀ q, hasE s q p.id = (q == resolve s p) := by
    intro q
    rw [Bool.eq_iff_iff, beq_iff_eq]
    exact ⟨fun hq => one_loc h.vnd hq hh, fun hq => hq ▸ hh⟩
  have hA : ∀ q', isAssigned s q' p.id = (q' == resolve s p) := by
    intro q'; rw [h.asg p hp q', hE, hb, hc]; simp
  have ha : isAssigned s (resolve s p) p.id = true := by rw [hA]; simp
  show LiveInv (mgrUnreserve s (resolve s p) p)
    { alive := w.alive, resvd := w.resvd.filter (· != p.id) }
  have e : mgrUnreserve s (resolve s p) p = setAsg (usedD s (resolve s p) (-p.req)) (resolve s p) p.id false := by
    unfold mgrUnreserve; simp [hk', hh, ha]
  rw [e]
  have hu0 : 0 ≤ getC s.used (resolve s p) + -p.req := by
    rw [h.used]
    have := sumBy_ge_point hp (fun x => isAssigned s (resolve s p) x.id) ha h.nn; omega
  have eu := fun q' => usedD_used s (resolve s p) q' (-p.req) hu0
  have hrs : ∀ x, resolve (setAsg (usedD s (resolve s p) (-p.req)) (resolve s p) p.id false) x = resolve s x :=
    fun x => resolve_congr (by simp) (by simp) x
  have eh : ∀ q' pid, hasE (setAsg (usedD s (resolve s p) (-p.req)) (resolve s p) p.id false) q' pid =
      hasE s q' pid := fun q' pid => by simp [hasE_setAsg]
  have ea : ∀ q' pid, isAssigned (setAsg (usedD s (resolve s p) (-p.req)) (resolve s p) p.id false) q' pid =
      if q' = resolve s p ∧ pid = p.id then false else isAssigned s q' pid := by
    intro q' pid; simp [isAssigned_setAsg]
  have ev : view (setAsg (usedD s (resolve s p) (-p.req)) (resolve s p) p.id false) = view s := by simp
  have ek : (setAsg (usedD s (resolve s p) (-p.req)) (resolve s p) p.id false).known = s.known := by simp
  have es : (setAsg (usedD s (resolve s p) (-p.req)) (resolve s p) p.id false).store = s.store := by simp
  have er : (setAsg (usedD s (resolve s p) (-p.req)) (resolve s p) p.id false).req = s.req := by simp
  have eu' : ∀ q', getC (setAsg (usedD s (resolve s p) (-p.req)) (resolve s p) p.id false).used q' =
      getC s.used q' + if q' = resolve s p then -p.req else 0 := fun q' => by rw [setAsg_used]; exact eu q'
  clear hu0 e eu
  generalize setAsg (usedD s (resolve s p) (-p.req)) (resolve s p) p.id false = s' at *
  refine ⟨KInv_same h.kinv ek es, by rw [es]; exact h.su, h.nd, h.nn, by rw [ev]; exact h.vnd, ?_, ?_, ?_, ?_,
    ?_, ?_⟩
  · intro v hv; rw [ev] at hv
    obtain ⟨o, ho, a1, a2, a3, a4⟩ := h.vobj v hv
    exact ⟨o, ho, a1, a2, by rw [hrs]; exact a3, a4⟩
  · intro o ho; obtain ⟨q', hq'⟩ := h.cov o ho; exact ⟨q', by rw [eh]; exact hq'⟩
  · intro o ho q'
    show _ = (_ && (bound o || (w.resvd.filter (· != p.id)).contains o.id))
    rw [ea, eh, contains_filter_ne]
    by_cases hi : o.id = p.id
    · have : o = p := h.nd.eq_of_id ho hp hi
      subst this
      rw [hA, hE, hb]
      by_cases hq : q' = resolve s o <;> simp [hq]
    · have hne : (o.id != p.id) = true := by simp [hi]
      rw [if_neg (fun hcc => hi hcc.2), hne, h.asg o ho q']; simp
  · intro id hcc
    have hcc : (w.resvd.filter (· != p.id)).contains id = true := hcc
    rw [contains_filter_ne, Bool.and_eq_true] at hcc
    exact h.rnt id hcc.1
  · intro q'; rw [er]; simp only [eh]; exact h.req q'
  · intro q'
    rw [eu', h.used q']
    rw [sumBy_point' h.nd hp (fun x => isAssigned s' q' x.id) (fun x => isAssigned s q' x.id)
      (fun x _ hne => by
        show isAssigned s' q' x.id = isAssigned s q' x.id
        rw [ea, if_neg (fun hcc => hne hcc.2)]) false (q' == resolve s p)
      (by show isAssigned s' q' p.id = false
          rw [ea, hA]; by_cases hq : q' = resolve s p <;> simp [hq])
      (hA q')]
    by_cases hq : q' = resolve s p <;> simp [hq] <;> omega

theorem step_pdel_ok (p : PodObj) : LiveStepOK (.pdel p) := by
  intro s w h ho
  simp only [okStep, beq_iff_eq] at ho
  obtain ⟨hp, _⟩ := find_some ho
  show LiveInv (onPodDelete s p) { alive := w.drop p.id, resvd := w.resvd.filter (· != p.id) }
  cases hh : hasE s (resolve s p) p.id
  · -- parked in the default group: OnPodDelete finds nothing in its own group and clears the default one
    obtain ⟨q0, hq0⟩ := h.cov p hp
    obtain ⟨o', ho', hid, hl⟩ := h.loc hq0
    have : o' = p := h.nd.eq_of_id ho' hp hid
    subst this
    have hq0d : q0 = dflt := by
      rcases hl with rfl | rfl
      · rw [hh] at hq0; cases hq0
      · rfl
    subst hq0d
    have hne : resolve s o' ≠ dflt := fun hc => by rw [hc, hq0] at hh; cases hh
    have e0 : onPodDelete s o' = mgrPodDelete s dflt o' := by
      unfold onPodDelete
      simp only [hne, ne_eq, not_false_eq_true, if_true]
      rw [mgrPodDelete_noop _ _ _ hh]
    rw [e0]
    exact LiveInv_pdel_at h hp dflt h.k1 hq0
  · have e0 : onPodDelete s p = mgrPodDelete s (resolve s p) p := by
      unfold onPodDelete
      simp only []
      split
      · rename_i hne
        apply mgrPodDelete_noop
        cases hx : hasE (mgrPodDelete s (resolve s p) p) dflt p.id
        · rfl
        · exact absurd (one_loc h.vnd (hasE_mgrPodDelete_le _ _ _ _ _ hx) hh).symm hne
      · rfl
    rw [e0]
    exact LiveInv_pdel_at h hp _ (resolve_known s p h.k1) hh

end KoordVerif.C19.Quota
