import KoordVerif.Proofs.C01GenU
/-
C01: resetQuotaNoLock (rebuild) produces a state satisfying all local equations, from any state whose
per-group "amount to re-add" equals its pod sums.
-/
namespace KoordVerif.C01

/-- structure that no propagation / clearing touches -/
def skelF (q : Quota) : Nat × Nat × Option Int × List Pod := (q.name, q.parent, q.max, q.pods)

theorem tree_of_skel {s s' : State} (h : s'.map skelF = s.map skelF) : tree s' = tree s := by
  have := congrArg (List.map (fun (e : Nat × Nat × Option Int × List Pod) => (e.1, e.2.1))) h
  rw [List.map_map, List.map_map] at this; exact this

theorem params_of_skel {s s' : State} (h : s'.map skelF = s.map skelF) (hp : ParamsOK s) : ParamsOK s' := by
  apply paramsOK_of_map _ hp
  have := congrArg (List.map (fun (e : Nat × Nat × Option Int × List Pod) => (e.2.2.1, e.2.2.2))) h
  rw [List.map_map, List.map_map] at this; exact this

theorem pods_of_skel {s s' : State} (h : s'.map skelF = s.map skelF) (hp : PodsOK s) : PodsOK s' := by
  apply podsOK_of_map _ hp
  have := congrArg (List.map (fun (e : Nat × Nat × Option Int × List Pod) => e.2.2.2)) h
  rw [List.map_map, List.map_map] at this; exact this

theorem get_of_skel {s s' : State} (h : s'.map skelF = s.map skelF) {m : Nat} {q : Quota} (hq : get? s m = some q) :
    ∃ q', get? s' m = some q' ∧ q'.pods = q.pods ∧ q'.max = q.max := by
  have hmap : s'.map (fun x => (x.name, (x.max, x.pods))) = s.map (fun x => (x.name, (x.max, x.pods))) := by
    have := congrArg (List.map (fun (e : Nat × Nat × Option Int × List Pod) => (e.1, (e.2.2.1, e.2.2.2)))) h
    rw [List.map_map, List.map_map] at this; exact this
  obtain ⟨q', h1, h2⟩ := get?_of_map (fun x => (x.max, x.pods)) m s' s hmap q hq
  simp only [Prod.mk.injEq] at h2
  exact ⟨q', h1, h2.2, h2.1⟩

def rAddR (q : Quota) : Int := if q.isParent then q.selfRequest else q.childRequest
def rAddNR (q : Quota) : Int := if q.isParent then q.selfNpRequest else q.npRequest
def rAddU (q : Quota) : Int := if q.isParent then q.selfUsed else q.used
def rAddNU (q : Quota) : Int := if q.isParent then q.selfNpUsed else q.npUsed

theorem reAdd_eq (st : State) (q : Quota) :
    reAdd st q = deltaUsed (deltaReq st q.name (rAddR q) (rAddNR q) true) q.name (rAddU q) (rAddNU q) true := rfl

/-- what the rebuild needs from its input -/
structure ResetPre (s : State) : Prop where
  topo : Topo s
  params : ParamsOK s
  pods : PodsOK s
  amounts : ∀ q ∈ s, q.name ≠ rootName →
    rAddR q = podSum (fun _ => true) q.pods ∧ rAddNR q = podSum (fun p => p.np) q.pods ∧
    rAddU q = podSum (fun p => p.assigned) q.pods ∧ rAddNU q = podSum (fun p => p.assigned && p.np) q.pods
  root : ∀ r ∈ s, r.name = rootName → r.pods = [] ∧ r.selfRequest = 0 ∧ r.selfNpRequest = 0 ∧ r.selfUsed = 0 ∧ r.selfNpUsed = 0

def PT (f : Pod → Bool) (s : State) (m : Nat) : Int :=
  match get? s m with
  | some q => podSum f q.pods
  | none => 0

def pendF (f : Pod → Bool) (s : State) (todo : List Quota) (m : Nat) : Int :=
  if m ∈ todo.map (·.name) then PT f s m else 0

structure ResetInv (s st : State) (todo : List Quota) : Prop where
  skel : st.map skelF = s.map skelF
  req : ReqG st (pendF (fun _ => true) s todo) (pendF (fun p => p.np) s todo) (fun _ => 0) (fun _ => 0)
    (fun m => m ∉ todo.map (·.name))
  used : UsedG st (pendF (fun p => p.assigned) s todo) (pendF (fun p => p.assigned && p.np) s todo) (fun _ => 0) (fun _ => 0)
  rnn : RNN st
  unn : UNN st

theorem reqG_congr {s : State} {a b k kn a' b' k' kn' : Nat → Int} {R R' : Nat → Prop} (h : ReqG s a b k kn R)
    (ha : ∀ m, a' m = a m) (hb : ∀ m, b' m = b m) (hk : ∀ m, k' m = k m) (hkn : ∀ m, kn' m = kn m)
    (hR : ∀ m, R' m → R m) : ReqG s a' b' k' kn' R' := by
  intro m q hq
  obtain ⟨x1, x2, x3, x4, x5⟩ := h m q hq
  exact ⟨by rw [ha]; exact x1, by rw [hb]; exact x2, by rw [hk]; exact x3, by rw [hkn]; exact x4,
    fun hr hR' => x5 hr (hR m hR')⟩

theorem usedG_congr {s : State} {c e ku knu c' e' ku' knu' : Nat → Int} (h : UsedG s c e ku knu)
    (hc : ∀ m, c' m = c m) (he : ∀ m, e' m = e m) (hk : ∀ m, ku' m = ku m) (hkn : ∀ m, knu' m = knu m) :
    UsedG s c' e' ku' knu' := by
  intro m q hq
  obtain ⟨x1, x2, x3, x4⟩ := h m q hq
  exact ⟨by rw [hc]; exact x1, by rw [he]; exact x2, by rw [hk]; exact x3, by rw [hkn]; exact x4⟩

theorem pendF_step (f : Pod → Bool) (s : State) (q : Quota) (todo : List Quota) (hq : get? s q.name = some q)
    (hnot : q.name ∉ todo.map (·.name)) (m : Nat) :
    pendF f s todo m = pendF f s (q :: todo) m - (if m = q.name ∧ true = true then podSum f q.pods else 0) := by
  simp only [pendF, List.map_cons, List.mem_cons, and_true]
  by_cases hm : m = q.name
  · subst hm; simp [hnot, PT, hq]
  · simp [hm]

/-- one iteration of the re-add loop -/
theorem reAdd_step {s st : State} {q : Quota} {todo : List Quota} (hpre : ResetPre s) (hqs : q ∈ s)
    (hroot : q.name ≠ rootName) (hnot : q.name ∉ todo.map (·.name)) (hinv : ResetInv s st (q :: todo)) :
    ResetInv s (reAdd st q) todo := by
  have hq : get? s q.name = some q := mem_get? hpre.topo.tree.nodup hqs
  obtain ⟨hc, hnd, hh⟩ := hpre.topo.paths q.name (by simp [hq])
  have htree := tree_of_skel hinv.skel
  have hpath : path st q.name = path s q.name := path_congr htree _
  have hcst : Chain st (path s q.name) := Chain_congr (par_of_tree htree) _ hc
  obtain ⟨qs, hqst, hpodsst, hmaxst⟩ := get_of_skel hinv.skel hq
  obtain ⟨am1, am2, am3, am4⟩ := hpre.amounts q hqs hroot
  have hparst := params_of_skel hinv.skel hpre.params
  have hpn := (hpre.params q hqs).2
  have hin : q.name ∈ (q :: todo).map (·.name) := by simp
  -- request
  obtain ⟨r1, r2, _⟩ := hinv.req q.name qs hqst
  simp only [pendF, hin, if_true, PT, hq] at r1 r2
  rw [hpodsst] at r1 r2
  have hR := propReq_gen (self := true) (d := rAddR q) (dnp := rAddNR q) hcst hnd hh (htree ▸ hpre.topo.tree)
    (fun x hx => (hparst x hx).1) hinv.req hinv.rnn
    (fun q0 h0 => by
      rw [hqst] at h0; cases h0
      have p1 := podSum_nonneg (fun _ => true) q.pods hpn
      have p2 := podSum_nonneg (fun p => p.np) q.pods hpn
      simp only [if_true]; constructor <;> omega)
    (fun m _ _ => ⟨rfl, rfl⟩) (Or.inl ⟨by simp, by simp⟩)
  have hU1 := usedG_of_propReq (path s q.name) true (rAddR q) (rAddNR q) hinv.used hinv.unn
  have hskel1 : (propReq st (path s q.name) true (rAddR q) (rAddNR q)).map skelF = s.map skelF := by
    rw [← hinv.skel]
    exact propReqW_map skelF (fun q q' h => by simp [skelF, h.name, h.parent, h.max, h.pods]) clamp0 _ st true _ _
  -- used
  have htree1 := tree_of_skel hskel1
  have hcst1 : Chain (propReq st (path s q.name) true (rAddR q) (rAddNR q)) (path s q.name) :=
    Chain_congr (par_of_tree htree1) _ hc
  obtain ⟨qs1, hqst1, hpodsst1, _⟩ := get_of_skel hskel1 hq
  obtain ⟨u1, u2, _⟩ := hU1.1 q.name qs1 hqst1
  simp only [pendF, hin, if_true, PT, hq] at u1 u2
  rw [hpodsst1] at u1 u2
  have hUU := propUsed_gen (self := true) (d := rAddU q) (dnp := rAddNU q) hcst1 hnd hh (htree1 ▸ hpre.topo.tree)
    hU1.1 hU1.2
    (fun q0 h0 => by
      rw [hqst1] at h0; cases h0
      have p1 := podSum_nonneg (fun p => p.assigned) q.pods hpn
      have p2 := podSum_nonneg (fun p => p.assigned && p.np) q.pods hpn
      simp only [if_true]; constructor <;> omega)
    (fun m _ _ => ⟨rfl, rfl⟩) (Or.inl ⟨by simp, by simp⟩)
  have hR2 := reqG_of_propUsed (path s q.name) true (rAddU q) (rAddNU q) hR.2.1 hR.2.2
  have hpath1 : path (propReq st (path s q.name) true (rAddR q) (rAddNR q)) q.name = path s q.name :=
    path_congr htree1 _
  have hres : reAdd st q = propUsed (propReq st (path s q.name) true (rAddR q) (rAddNR q)) (path s q.name) true
      (rAddU q) (rAddNU q) := by
    rw [reAdd_eq]; simp only [deltaReq, deltaUsed, hpath, hpath1]
  rw [hres]
  refine ⟨?_, ?_, ?_, hR2.2, hUU.2.2⟩
  · rw [← hskel1]
    exact propUsedW_map skelF (fun q q' h => by simp [skelF, h.name, h.parent, h.max, h.pods]) clamp0 _ _ true _ _
  · refine reqG_congr hR2.1 (fun m => ?_) (fun m => ?_) (fun m => by simp) (fun m => by simp) (fun m hm => ?_)
    · rw [pendF_step _ s q todo hq hnot m, am1]
    · rw [pendF_step _ s q todo hq hnot m, am2]
    · by_cases hmq : m = q.name
      · right; rw [hmq]
        cases hp : path s q.name with
        | nil => rw [hp] at hh; simp at hh
        | cons g r => rw [hp] at hh; simp at hh; simp [hh]
      · left; simp only [List.map_cons, List.mem_cons, not_or]; exact ⟨hmq, hm⟩
  · refine usedG_congr hUU.2.1 (fun m => ?_) (fun m => ?_) (fun m => by simp) (fun m => by simp)
    · rw [pendF_step _ s q todo hq hnot m, am3]
    · rw [pendF_step _ s q todo hq hnot m, am4]

theorem reAdd_fold {s : State} (hpre : ResetPre s) : ∀ (todo : List Quota) (st : State),
    (∀ q ∈ todo, q ∈ s ∧ q.name ≠ rootName) → (todo.map (·.name)).Nodup → ResetInv s st todo →
    ResetInv s (todo.foldl reAdd st) []
  | [], _, _, _, h => h
  | q :: t, st, hmem, hnd, h => by
    simp only [List.foldl_cons]
    simp only [List.map_cons, List.nodup_cons] at hnd
    exact reAdd_fold hpre t (reAdd st q) (fun x hx => hmem x (List.mem_cons_of_mem _ hx)) hnd.2
      (reAdd_step hpre (hmem q (by simp)).1 (hmem q (by simp)).2 hnd.1 h)

end KoordVerif.C01
