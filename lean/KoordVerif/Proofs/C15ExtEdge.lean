import KoordVerif.Proofs.C15Forest
/- C15 (extension): facts every accepted request establishes, the hierarchy key set, and the
   clauses "resource keys agree along every edge" / "tree ids agree along every edge". -/
namespace KoordVerif.C15

/-! ### shared consequences of acceptance under `Forest` -/

theorem isKid_iff {s : Topo} (hF : Forest s) {p : Nat} {c : QI} (hc : c ∈ s.info) :
    isKid s p c.name = true ↔ c.parent = p := by
  have hu := uniq_of_nodup hF.nodup
  unfold isKid
  rw [List.contains_iff_mem, hF.kidsOK]
  constructor
  · rintro ⟨q, hq, h1, h2⟩
    rw [← hu q hq c hc h1]; exact h2
  · intro h; exact ⟨c, hc, rfl, h⟩

theorem hasKids_iff {s : Topo} (hF : Forest s) {n : Nat} :
    hasKids s n = true ↔ ∃ c ∈ s.info, c.parent = n := by
  unfold hasKids
  rw [List.any_eq_true]
  constructor
  · rintro ⟨⟨p, c⟩, he, hp⟩
    obtain ⟨q, hq, _, h2⟩ := (hF.kidsOK p c).mp he
    have : p = n := by simpa using hp
    exact ⟨q, hq, h2.trans this⟩
  · rintro ⟨c, hc, hcp⟩
    exact ⟨(n, c.name), (hF.kidsOK _ _).mpr ⟨c, hc, rfl, hcp⟩, by simp⟩

/-- what an accepted create gives (besides the new state). -/
structure AddFacts (d : Nat) (s : Topo) (q : QI) : Prop where
  fresh  : ∀ c ∈ s.info, c.name ≠ q.name
  nopar  : ∀ c ∈ s.info, c.parent ≠ q.name
  self   : q.parent ≠ q.name
  par    : q.parent = 0 ∨ ∃ p ∈ s.info, p.name = q.parent ∧ p.isParent = true
  tree   : treeCheck s none q = true
  deep   : (q.parent = 0 ∧ q.isParent = false) ∨
           (parentInfoOK s q.name q.parent = true ∧ keysCheck d s q = true ∧ minCheck d s q = true)

theorem add_facts {d : Nat} {s : Topo} {q : QI} {sw : Bool} (hF : Forest s) (hq0 : q.name ≠ 0)
    (h : (validAdd d s q sw).2 = true) : AddFacts d s q := by
  obtain ⟨hfresh, _, _, htopo, _⟩ := validAdd_true h
  have hfresh := find_isSome_false hfresh
  obtain ⟨_, htree, hcase⟩ := topoCheck_true hq0 htopo
  have hpar : q.parent = 0 ∨ ∃ p ∈ s.info, p.name = q.parent ∧ p.isParent = true := by
    rcases hcase with ⟨h0, _⟩ | ⟨hpi, _, _⟩
    · exact Or.inl h0
    · by_cases h0 : q.parent = 0
      · exact Or.inl h0
      · obtain ⟨p, hf, hip, _⟩ := parentInfoOK_true h0 hpi
        exact Or.inr ⟨p, (find_some hf).1, (find_some hf).2, hip⟩
  refine ⟨hfresh, ?_, ?_, hpar, htree, hcase⟩
  · intro c hc e
    rcases hF.parentOK c hc with h0 | ⟨p, hp, hpn, _⟩
    · exact hq0 (e ▸ h0)
    · exact hfresh p hp (hpn.trans e)
  · rcases hpar with h0 | ⟨p, hp, hpn, _⟩
    · rw [h0]; exact Ne.symm hq0
    · intro e; exact hfresh p hp (hpn.trans e)

/-- what an accepted, state-changing update gives. -/
structure UpdFacts (d : Nat) (s : Topo) (o q : QI) (hp : Bool) : Prop where
  mem    : o ∈ s.info
  name   : o.name = q.name
  nz     : q.name ≠ 0
  self   : q.parent ≠ q.name
  keep   : ∀ c ∈ s.info, c.parent = q.name → q.isParent = true
  kidne  : ∀ c ∈ s.info, c.parent = q.name → c.name ≠ q.name
  tree   : treeCheck s (some o) q = true
  deep   : (q.parent = 0 ∧ q.isParent = false) ∨
           (parentInfoOK s q.name q.parent = true ∧ keysCheck d s q = true ∧ minCheck d s q = true)

theorem upd_facts {d : Nat} {s : Topo} {o q : QI} {hp : Bool} (hF : Forest s)
    (hfo : find s.info q.name = some o) (hq0 : q.name ≠ 0)
    (htopo : topoCheck d s (some o) q hp = true) : UpdFacts d s o q hp := by
  have hu := uniq_of_nodup hF.nodup
  obtain ⟨ho, hon⟩ := find_some hfo
  obtain ⟨hipc, htree, hcase⟩ := topoCheck_true hq0 htopo
  have hself : q.parent ≠ q.name := by
    rcases hcase with ⟨h0, _⟩ | ⟨hpi, _, _⟩
    · rw [h0]; exact Ne.symm hq0
    · by_cases h0 : q.parent = 0
      · rw [h0]; exact Ne.symm hq0
      · obtain ⟨p, _, _, hw⟩ := parentInfoOK_true h0 hpi
        intro e
        rw [e] at hw
        unfold hitsUp at hw
        simp [hq0] at hw
  have hkeep : ∀ c ∈ s.info, c.parent = q.name → q.isParent = true := by
    intro c hc hcp
    have hk : (q.name, c.name) ∈ s.kids := (hF.kidsOK _ _).mpr ⟨c, hc, rfl, hcp⟩
    have hhk : hasKids s o.name = true := by
      unfold hasKids
      exact List.any_eq_true.mpr ⟨(q.name, c.name), hk, by simp [hon]⟩
    have hoip : o.isParent = true := by
      rcases hF.parentOK c hc with h0 | ⟨p, hp', hpn, hip⟩
      · exact absurd (hcp ▸ h0) hq0
      · have : p = o := hu p hp' o ho (by rw [hpn, hcp, hon])
        exact this ▸ hip
    cases hqi : q.isParent with
    | true => rfl
    | false =>
      unfold isParentChangeOK at hipc
      simp [hoip, hqi, hhk] at hipc
  refine ⟨ho, hon, hq0, hself, hkeep, ?_, htree, hcase⟩
  intro c hc hcp hcn
  obtain ⟨r, _, hr⟩ := hF.ranked
  have := hr c hc
  rw [hcp, hcn] at this
  omega

/-! ### the key set of the children map: root + recorded names -/

def HKeys (s : Topo) : Prop := ∀ n, n ∈ s.hkeys ↔ n = 0 ∨ ∃ q ∈ s.info, q.name = n

theorem hkeys_init : HKeys init := by
  intro n; simp [init]

theorem hkeys_add {d : Nat} {s : Topo} {q : QI} (hH : HKeys s) (hA : AddFacts d s q) : HKeys (addState s q) := by
  intro n
  simp only [addState, List.mem_cons]
  constructor
  · rintro (h | h | h)
    · rcases hA.par with h0 | ⟨p, hp, hpn, _⟩
      · exact Or.inl (h.trans h0)
      · exact Or.inr ⟨p, Or.inr hp, hpn.trans h.symm⟩
    · exact Or.inr ⟨q, Or.inl rfl, h.symm⟩
    · rcases (hH n).mp h with h0 | ⟨c, hc, hcn⟩
      · exact Or.inl h0
      · exact Or.inr ⟨c, Or.inr hc, hcn⟩
  · rintro (h0 | ⟨c, hc | hc, hcn⟩)
    · exact Or.inr (Or.inr ((hH n).mpr (Or.inl h0)))
    · subst hc; exact Or.inr (Or.inl hcn.symm)
    · exact Or.inr (Or.inr ((hH n).mpr (Or.inr ⟨c, hc, hcn⟩)))

theorem hkeys_upd {s : Topo} {o q : QI} (hH : HKeys s) (ho : o ∈ s.info) (hon : o.name = q.name) :
    HKeys (updState s o q) := by
  intro n
  simp only [updState]
  rw [hH n]
  constructor
  · rintro (h0 | ⟨c, hc, hcn⟩)
    · exact Or.inl h0
    · right
      by_cases hq : c.name = q.name
      · exact ⟨q, mem_replace_self ho hon, hq.symm.trans hcn⟩
      · exact ⟨c, mem_replace_of_ne hc hq, hcn⟩
  · rintro (h0 | ⟨c, hc, hcn⟩)
    · exact Or.inl h0
    · right
      rcases mem_replace hc with ⟨rfl, _⟩ | ⟨hc', _⟩
      · exact ⟨o, ho, hon.trans hcn⟩
      · exact ⟨c, hc', hcn⟩

theorem hkeys_del {s : Topo} {o : QI} {name : Nat} (hH : HKeys s) (hn0 : name ≠ 0) : HKeys (delState s o name) := by
  intro n
  simp only [delState, List.mem_filter, bne_iff_ne, ne_eq]
  rw [hH n]
  constructor
  · rintro ⟨h0 | ⟨c, hc, hcn⟩, hne⟩
    · exact Or.inl h0
    · exact Or.inr ⟨c, ⟨hc, by rw [hcn]; exact hne⟩, hcn⟩
  · rintro (h0 | ⟨c, ⟨hc, hcne⟩, hcn⟩)
    · exact ⟨Or.inl h0, by rw [h0]; exact Ne.symm hn0⟩
    · exact ⟨Or.inr ⟨c, hc, hcn⟩, by rw [← hcn]; exact hcne⟩

/-! ### a relation that holds along every recorded parent → child edge -/

def Edge (R : QI → QI → Prop) (info : List QI) : Prop :=
  ∀ c ∈ info, ∀ p ∈ info, p.name = c.parent → R p c

theorem edge_add {R : QI → QI → Prop} {info : List QI} {q : QI} (hE : Edge R info)
    (hnopar : ∀ c ∈ info, c.parent ≠ q.name) (hself : q.parent ≠ q.name)
    (hup : ∀ p ∈ info, p.name = q.parent → R p q) : Edge R (q :: info) := by
  intro c hc p hp hpc
  simp only [List.mem_cons] at hc hp
  rcases hc with rfl | hc <;> rcases hp with rfl | hp
  · exact absurd hpc (Ne.symm hself)
  · exact hup p hp hpc
  · exact absurd hpc.symm (hnopar c hc)
  · exact hE c hc p hp hpc

theorem edge_replace {R : QI → QI → Prop} {info : List QI} {q : QI} (hE : Edge R info)
    (hself : q.parent ≠ q.name)
    (hup : ∀ p ∈ info, p.name = q.parent → R p q)
    (hdown : ∀ c ∈ info, c.parent = q.name → c.name ≠ q.name → R q c) : Edge R (replace info q) := by
  intro c hc p hp hpc
  rcases mem_replace hc with ⟨hcq, _⟩ | ⟨hc', hcn⟩ <;> rcases mem_replace hp with ⟨hpq, _⟩ | ⟨hp', hpn⟩
  · subst hcq; subst hpq; exact absurd hpc (Ne.symm hself)
  · subst hcq; exact hup p hp' hpc
  · subst hpq; exact hdown c hc' hpc.symm hcn
  · exact hE c hc' p hp' hpc

theorem edge_sub {R : QI → QI → Prop} {info info' : List QI} (hE : Edge R info)
    (hs : ∀ c ∈ info', c ∈ info) : Edge R info' :=
  fun c hc p hp hpc => hE c (hs c hc) p (hs p hp) hpc

/-! ### tree ids agree along every edge -/

def TreeEdge (s : Topo) : Prop := Edge (fun p c => p.tree = c.tree) s.info

theorem treeCheck_up {s : Topo} {old : Option QI} {q : QI} (hF : Forest s) (h : treeCheck s old q = true) :
    ∀ p ∈ s.info, p.name = q.parent → p.tree = q.tree := by
  intro p hp hpn
  have hu := uniq_of_nodup hF.nodup
  unfold treeCheck at h
  simp only [Bool.and_eq_true] at h
  have h2 := h.1.2
  have hp0 : q.parent ≠ 0 := by rw [← hpn]; exact hF.nonzero p hp
  have hf : find s.info q.parent = some p := by rw [← hpn]; exact find_mem hu hp
  simp only [hp0, if_false, hf] at h2
  simpa using h2

theorem treeCheck_down {s : Topo} {old : Option QI} {q : QI} (hF : Forest s) (h : treeCheck s old q = true) :
    ∀ c ∈ s.info, c.parent = q.name → q.tree = c.tree := by
  intro c hc hcp
  unfold treeCheck at h
  simp only [Bool.and_eq_true] at h
  have h3 := List.all_eq_true.mp h.2 c hc
  have hk : isKid s q.name c.name = true := (isKid_iff hF hc).mpr hcp
  simp only [hk, Bool.not_true, Bool.false_or, beq_iff_eq] at h3
  exact h3.symm

theorem tree_add {d : Nat} {s : Topo} {q : QI} (hF : Forest s) (hT : TreeEdge s) (hA : AddFacts d s q) :
    TreeEdge (addState s q) :=
  edge_add hT hA.nopar hA.self (treeCheck_up hF hA.tree)

theorem tree_upd {d : Nat} {s : Topo} {o q : QI} {hp : Bool} (hF : Forest s) (hT : TreeEdge s)
    (hU : UpdFacts d s o q hp) : TreeEdge (updState s o q) :=
  edge_replace hT hU.self (treeCheck_up hF hU.tree) (fun c hc hcp _ => treeCheck_down hF hU.tree c hc hcp)

theorem tree_del {s : Topo} {o : QI} {name : Nat} (hT : TreeEdge s) : TreeEdge (delState s o name) :=
  edge_sub hT (fun c hc => by simp only [delState, List.mem_filter] at hc; exact hc.1)

/-! ### resource keys agree along every edge (max keys equal, min keys of the child within the parent's) -/

def KeysRel (d : Nat) (p c : QI) : Prop := keysSame d p.mx c.mx = true ∧ keysIncl d p.mn c.mn = true

def KeysEdge (d : Nat) (s : Topo) : Prop := Edge (KeysRel d) s.info

theorem keysCheck_up {d : Nat} {s : Topo} {q : QI} (hF : Forest s) (h : keysCheck d s q = true) :
    ∀ p ∈ s.info, p.name = q.parent → KeysRel d p q := by
  intro p hp hpn
  have hu := uniq_of_nodup hF.nodup
  unfold keysCheck at h
  simp only [Bool.and_eq_true] at h
  have h1 := h.1.1
  have hp0 : q.parent ≠ 0 := by rw [← hpn]; exact hF.nonzero p hp
  have hf : find s.info q.parent = some p := by rw [← hpn]; exact find_mem hu hp
  simp only [hp0, if_false, hf, Bool.and_eq_true] at h1
  exact h1

theorem keysCheck_down {d : Nat} {s : Topo} {q : QI} (hF : Forest s) (h : keysCheck d s q = true) :
    ∀ c ∈ s.info, c.parent = q.name → KeysRel d q c := by
  intro c hc hcp
  unfold keysCheck at h
  simp only [Bool.and_eq_true] at h
  have h3 := List.all_eq_true.mp h.2 c hc
  have hk : isKid s q.name c.name = true := (isKid_iff hF hc).mpr hcp
  simp only [hk, Bool.not_true, Bool.false_or, Bool.and_eq_true] at h3
  exact h3

theorem keys_add {d : Nat} {s : Topo} {q : QI} (hF : Forest s) (hK : KeysEdge d s) (hA : AddFacts d s q) :
    KeysEdge d (addState s q) := by
  refine edge_add hK hA.nopar hA.self ?_
  rcases hA.deep with ⟨h0, _⟩ | ⟨_, hk, _⟩
  · intro p hp hpn; exact absurd (hpn.trans h0) (hF.nonzero p hp)
  · exact keysCheck_up hF hk

theorem keys_upd {d : Nat} {s : Topo} {o q : QI} {hp : Bool} (hF : Forest s) (hK : KeysEdge d s)
    (hU : UpdFacts d s o q hp) : KeysEdge d (updState s o q) := by
  rcases hU.deep with ⟨h0, hip⟩ | ⟨_, hk, _⟩
  · refine edge_replace hK hU.self ?_ ?_
    · intro p hp hpn; exact absurd (hpn.trans h0) (hF.nonzero p hp)
    · intro c hc hcp _
      have := hU.keep c hc hcp
      rw [hip] at this; cases this
  · exact edge_replace hK hU.self (keysCheck_up hF hk) (fun c hc hcp _ => keysCheck_down hF hk c hc hcp)

theorem keys_del {d : Nat} {s : Topo} {o : QI} {name : Nat} (hK : KeysEdge d s) : KeysEdge d (delState s o name) :=
  edge_sub hK (fun c hc => by simp only [delState, List.mem_filter] at hc; exact hc.1)

end KoordVerif.C15
