import KoordVerif.Proofs.C01Reserve
/-
C01: what the two pod-delta entry points leave untouched at every group (read through a projection).
-/
namespace KoordVerif.C01

theorem get?_of_map {α} (f : Quota → α) (n : Nat) : ∀ (s1 s2 : State),
    s1.map (fun x => (x.name, f x)) = s2.map (fun x => (x.name, f x)) →
    ∀ q2, get? s2 n = some q2 → ∃ q1, get? s1 n = some q1 ∧ f q1 = f q2
  | [], [], _, q2, h2 => by simp [get?] at h2
  | [], _ :: _, hmap, _, _ => by simp at hmap
  | _ :: _, [], hmap, _, _ => by simp at hmap
  | x :: t, y :: t2, hmap, q2, h2 => by
    simp only [List.map_cons, List.cons.injEq, Prod.mk.injEq] at hmap
    simp only [get?] at h2 ⊢
    by_cases hy : y.name = n
    · simp only [hy, if_true, Option.some.injEq] at h2
      subst h2
      exact ⟨x, by simp [hmap.1.1, hy], hmap.1.2⟩
    · simp only [hy, if_false] at h2
      have hx : ¬ x.name = n := by rw [hmap.1.1]; exact hy
      simp only [hx, if_false]
      exact get?_of_map f n t t2 hmap.2 q2 h2

theorem get?_none_of_map {α} (f : Quota → α) (n : Nat) : ∀ (s1 s2 : State),
    s1.map (fun x => (x.name, f x)) = s2.map (fun x => (x.name, f x)) → get? s2 n = none → get? s1 n = none
  | [], _, _, _ => rfl
  | _ :: _, [], hmap, _ => by simp at hmap
  | x :: t, y :: t2, hmap, h2 => by
    simp only [List.map_cons, List.cons.injEq, Prod.mk.injEq] at hmap
    simp only [get?] at h2 ⊢
    by_cases hy : y.name = n
    · simp [hy] at h2
    · simp only [hy, if_false] at h2
      have hx : ¬ x.name = n := by rw [hmap.1.1]; exact hy
      simp only [hx, if_false]
      exact get?_none_of_map f n t t2 hmap.2 h2

/-- projection kept by every request propagation -/
def keepR (q : Quota) : List Pod × Option Int × Int × Int := (q.pods, q.max, q.selfUsed, q.selfNpUsed)
/-- projection kept by every used propagation -/
def keepU (q : Quota) : List Pod × Option Int × Int × Int := (q.pods, q.max, q.selfRequest, q.selfNpRequest)

theorem deltaReq_keep (s : State) (n : Nat) (d dnp : Int) (self : Bool) :
    (deltaReq s n d dnp self).map (fun x => (x.name, keepR x)) = s.map (fun x => (x.name, keepR x)) :=
  propReqW_map _ (fun q q' h => by simp [keepR, h.name, h.pods, h.max, h.selfUsed, h.selfNpUsed]) clamp0 _ s self _ _

theorem deltaUsed_keep (s : State) (n : Nat) (d dnp : Int) (self : Bool) :
    (deltaUsed s n d dnp self).map (fun x => (x.name, keepU x)) = s.map (fun x => (x.name, keepU x)) :=
  propUsedW_map _ (fun q q' h => by simp [keepU, h.name, h.pods, h.max, h.selfRequest, h.selfNpRequest]) clamp0 _ s self _ _

theorem map_ite {α} (f : Quota → α) (c : Prop) [Decidable c] (a b s : State)
    (ha : a.map f = s.map f) (hb : b.map f = s.map f) : (if c then a else b).map f = s.map f := by
  split <;> assumption

theorem updPodReq_keep (s : State) (n : Nat) (old new : Option PodObj) :
    (updPodReq s n old new).map (fun x => (x.name, keepR x)) = s.map (fun x => (x.name, keepR x)) := by
  unfold updPodReq
  cases get? s n with
  | none => rfl
  | some q =>
    exact map_ite _ _ _ _ _ rfl (deltaReq_keep s n _ _ true)

theorem updPodUsed_keep (s : State) (n id : Nat) (old new : Option PodObj) :
    (updPodUsed s n id old new).map (fun x => (x.name, keepU x)) = s.map (fun x => (x.name, keepU x)) := by
  unfold updPodUsed
  cases get? s n with
  | none => rfl
  | some q =>
    exact map_ite _ _ _ _ _ rfl (map_ite _ _ _ _ _ rfl (deltaUsed_keep s n _ _ true))

theorem updPodReq_view {s : State} {m : Nat} {q : Quota} (n : Nat) (old new : Option PodObj) (hq : get? s m = some q) :
    ∃ q', get? (updPodReq s n old new) m = some q' ∧ q'.pods = q.pods ∧ q'.max = q.max ∧
      q'.selfUsed = q.selfUsed ∧ q'.selfNpUsed = q.selfNpUsed := by
  obtain ⟨q', h1, h2⟩ := get?_of_map keepR m _ _ (updPodReq_keep s n old new) q hq
  simp only [keepR, Prod.mk.injEq] at h2
  exact ⟨q', h1, h2.1, h2.2.1, h2.2.2.1, h2.2.2.2⟩

theorem updPodUsed_view {s : State} {m : Nat} {q : Quota} (n id : Nat) (old new : Option PodObj) (hq : get? s m = some q) :
    ∃ q', get? (updPodUsed s n id old new) m = some q' ∧ q'.pods = q.pods ∧ q'.max = q.max ∧
      q'.selfRequest = q.selfRequest ∧ q'.selfNpRequest = q.selfNpRequest := by
  obtain ⟨q', h1, h2⟩ := get?_of_map keepU m _ _ (updPodUsed_keep s n id old new) q hq
  simp only [keepU, Prod.mk.injEq] at h2
  exact ⟨q', h1, h2.1, h2.2.1, h2.2.2.1, h2.2.2.2⟩

/-- the core of ReservePod and of the fail-over / bind branches: flag the (unassigned) entry and add its used -/
theorem assign_good {s : State} {n : Nat} {p : PodObj} {q : Quota} {e : Pod} (h : Good s) (hp : 0 ≤ p.req)
    (hq : get? s n = some q) (hmax : q.max.isSome = true) (he : getPod q.pods p.id = some e)
    (hasg : e.assigned = false) (hreq : e.req = p.req) (hnp : e.np = p.np) :
    Good (updPodUsed (setAssigned s n p.id true) n p.id none (some p)) := by
  have hm : Mid s n 0 0 0 0 := mid_switch h
  rw [setAssigned_eq hq]
  have hg : ∀ x, (gAsg true x).id = x.id := fun _ => rfl
  have h1 := updEntry_mid (gAsg true) hg (by simpa [gAsg, hreq] using hp) hm hq he
  have hq1 := get?_setq (q1 := { q with pods := updPods (gAsg true) p.id q.pods }) hq rfl
  have hnd1 := h1.pods _ (get?_mem hq1)
  have hpa : podAssigned { q with pods := updPods (gAsg true) p.id q.pods } p.id = true := by
    rw [podAssigned_eq _ _ hnd1]
    simp only [getPod_updPods hg he]; rfl
  obtain ⟨_, _, su1, su2⟩ := self_nonneg_used hm hq
  have h2 := updPodUsed_mid (id := p.id) none (some p) h1 hq1 (by simpa using hmax)
    (by simp [hpa]) (by simp only [reqOf, npOf]; constructor <;> (try split) <;> omega)
  apply mid_switch (n := n)
  refine mid_cast h2 (by have : (gAsg true e).req = e.req := rfl; omega)
    (by have : w (fun p => p.np) (gAsg true e) = w (fun p => p.np) e := rfl; omega) ?_ ?_
  · simp [w, gAsg, hasg, reqOf, hreq]
  · simp only [w, gAsg, hasg, npOf, hreq, hnp]; simp

end KoordVerif.C01
