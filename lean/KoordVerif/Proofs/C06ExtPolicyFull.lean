import KoordVerif.Model.C06
import KoordVerif.Proofs.C06ExtPolicy
/-
C06 extension — soundness of `satisfiedRequiredCPUBindPolicy` for FullPCPUs on a regular topology:
`Cores().Size() * cpusPerCore == cpus.Size()` means every touched core is taken whole.
-/
namespace KoordVerif.C06

theorem eraseDups_nodup : ∀ (n : Nat) (l : List Nat), l.length ≤ n → l.eraseDups.Nodup := by
  intro n
  induction n with
  | zero => intro l h; have : l = [] := List.length_eq_zero_iff.mp (by omega); subst this; simp
  | succ n ih =>
    intro l h
    cases l with
    | nil => simp
    | cons a as =>
      rw [List.eraseDups_cons]
      have h1 : (as.filter (fun b => !b == a)).length ≤ as.length := List.length_filter_le _ _
      refine List.nodup_cons.mpr ⟨fun hm => ?_, ih _ (by simp at h; omega)⟩
      have := (List.mem_filter.mp (List.mem_eraseDups.mp hm)).2
      simp at this

def nsum (l : List Nat) : Nat := l.foldr (· + ·) 0

theorem length_split (f : Nat → Nat) (k : Nat) (l : List Nat) :
    l.length = (l.filter (fun c => f c == k)).length + (l.filter (fun c => !(f c == k))).length := by
  induction l with
  | nil => rfl
  | cons x xs ih =>
    simp only [List.filter_cons]
    by_cases h : f x == k <;> simp [h] <;> omega

/-- partition of a list by a key whose values all lie in a duplicate-free list `D`. -/
theorem length_by_key (f : Nat → Nat) : ∀ (D : List Nat), D.Nodup → ∀ (l : List Nat), (∀ x ∈ l, f x ∈ D) →
    l.length = nsum (D.map fun k => (l.filter (fun c => f c == k)).length) := by
  intro D
  induction D with
  | nil => intro _ l h; cases l with
    | nil => rfl
    | cons x xs => exact absurd (h x (by simp)) (by simp)
  | cons k D ih =>
    intro hD l h
    rw [List.nodup_cons] at hD
    have hrest : ∀ x ∈ l.filter (fun c => !(f c == k)), f x ∈ D := by
      intro x hx
      have hx' := List.mem_filter.mp hx
      rcases List.mem_cons.mp (h x hx'.1) with h1 | h1
      · simp [h1] at hx'
      · exact h1
    have := ih hD.2 _ hrest
    rw [length_split f k l, this]
    simp only [List.map_cons, nsum, List.foldr_cons]
    congr 1
    show nsum _ = nsum _
    congr 1
    apply List.map_congr_left
    intro k' hk'
    rw [List.filter_filter]
    congr 1
    apply List.filter_congr
    intro c _
    by_cases hc : f c == k'
    · have : ¬ (f c == k) = true := by
        intro hck
        have e1 : f c = k' := by simpa using hc
        have e2 : f c = k := by simpa using hck
        exact hD.1 (e2 ▸ e1 ▸ hk')
      simp [hc, this]
    · simp [hc]

theorem nsum_cons (x : Nat) (xs : List Nat) : nsum (x :: xs) = x + nsum xs := rfl

theorem nsum_le (cpc : Nat) : ∀ (l : List Nat), (∀ a ∈ l, a ≤ cpc) → nsum l ≤ l.length * cpc := by
  intro l
  induction l with
  | nil => intro _; simp [nsum]
  | cons y ys ih =>
    intro hle
    have h1 := hle y (by simp)
    have h2 := ih (fun a ha => hle a (by simp [ha]))
    rw [nsum_cons, List.length_cons, Nat.succ_mul]
    omega

theorem all_eq_of_sum (cpc : Nat) : ∀ (l : List Nat), (∀ a ∈ l, a ≤ cpc) → nsum l = l.length * cpc →
    ∀ a ∈ l, a = cpc := by
  intro l
  induction l with
  | nil => intro _ _ a ha; simp at ha
  | cons x xs ih =>
    intro hle hs a ha
    have hx := hle x (by simp)
    have hsum_le := nsum_le cpc xs (fun a ha => hle a (by simp [ha]))
    rw [nsum_cons, List.length_cons, Nat.succ_mul] at hs
    have hxs : nsum xs = xs.length * cpc := by omega
    rcases List.mem_cons.mp ha with rfl | h
    · omega
    · exact ih (fun a ha => hle a (by simp [ha])) hxs a h

theorem length_le_of_nodup_subset : ∀ (l1 l2 : List Nat), l1.Nodup → (∀ x ∈ l1, x ∈ l2) → l1.length ≤ l2.length := by
  intro l1
  induction l1 with
  | nil => intro l2 _ _; simp
  | cons a as ih =>
    intro l2 h1 hsub
    rw [List.nodup_cons] at h1
    have ha : a ∈ l2 := hsub a (by simp)
    have hsub' : ∀ y ∈ as, y ∈ l2.erase a := by
      intro y hy
      have hne : y ≠ a := fun e => h1.1 (e ▸ hy)
      exact (List.mem_erase_of_ne hne).mpr (hsub y (by simp [hy]))
    have := ih (l2.erase a) h1.2 hsub'
    rw [List.length_erase_of_mem ha] at this
    have : 0 < l2.length := List.length_pos_of_mem ha
    simp only [List.length_cons]; omega

/-- a duplicate-free list inside another duplicate-free list of no greater length covers it. -/
theorem subset_of_length_ge : ∀ (l1 l2 : List Nat), l1.Nodup → l2.Nodup → (∀ x ∈ l1, x ∈ l2) →
    l2.length ≤ l1.length → ∀ x ∈ l2, x ∈ l1 := by
  intro l1
  induction l1 with
  | nil => intro l2 _ _ _ hlen x hx; have : l2 = [] := List.length_eq_zero_iff.mp (by simpa using hlen); simp [this] at hx
  | cons a as ih =>
    intro l2 h1 h2 hsub hlen x hx
    rw [List.nodup_cons] at h1
    have ha : a ∈ l2 := hsub a (by simp)
    by_cases hxa : x = a
    · simp [hxa]
    · have hsub' : ∀ y ∈ as, y ∈ l2.erase a := by
        intro y hy
        have hne : y ≠ a := fun e => h1.1 (e ▸ hy)
        exact (List.mem_erase_of_ne hne).mpr (hsub y (by simp [hy]))
      have hlen' : (l2.erase a).length ≤ as.length := by
        rw [List.length_erase_of_mem ha]; simp at hlen; omega
      have := ih (l2.erase a) h1.2 (h2.erase a) hsub' hlen' x ((List.mem_erase_of_ne hxa).mpr hx)
      simp [this]

/-- **policy_sound (FullPCPUs)**: on a topology `T` (duplicate-free CPU ids) whose cores have at most
    `cpc` CPUs, a duplicate-free CPU set inside `T` that the check accepts contains, with every CPU,
    all CPUs of that CPU's core. -/
theorem full_sound (core : Nat → Nat) (cpc : Nat) (T cpus : List Nat) (hT : T.Nodup)
    (hreg : ∀ k, (T.filter (fun c => core c == k)).length ≤ cpc)
    (hnd : cpus.Nodup) (hsub : ∀ c ∈ cpus, c ∈ T)
    (h : satisfiedPolicy 1 core cpc cpus = true) :
    ∀ c ∈ cpus, ∀ c' ∈ T, core c' = core c → c' ∈ cpus := by
  simp only [satisfiedPolicy, determineFullPCPUs, coresOf, ↓reduceIte, beq_iff_eq] at h
  let D := (cpus.map core).eraseDups
  have hD : D.Nodup := eraseDups_nodup _ _ (Nat.le_refl _)
  have hmemD : ∀ x ∈ cpus, core x ∈ D := fun x hx => List.mem_eraseDups.mpr (List.mem_map.mpr ⟨x, hx, rfl⟩)
  have hlen := length_by_key core D hD cpus hmemD
  have hle : ∀ k, (cpus.filter (fun c => core c == k)).length ≤ (T.filter (fun c => core c == k)).length := by
    intro k
    exact length_le_of_nodup_subset _ _ (hnd.filter _)
      (fun x hx => List.mem_filter.mpr ⟨hsub x (List.mem_filter.mp hx).1, (List.mem_filter.mp hx).2⟩)
  have hall := all_eq_of_sum cpc (D.map fun k => (cpus.filter (fun c => core c == k)).length)
    (by
      intro a ha
      obtain ⟨k, _, rfl⟩ := List.mem_map.mp ha
      exact Nat.le_trans (hle k) (hreg k))
    (by rw [← hlen, List.length_map]; exact h.symm)
  intro c hc c' hc' hcore
  have hk : (cpus.filter (fun x => core x == core c)).length = cpc :=
    hall _ (List.mem_map.mpr ⟨core c, hmemD c hc, rfl⟩)
  have := subset_of_length_ge (cpus.filter (fun x => core x == core c)) (T.filter (fun x => core x == core c))
    (hnd.filter _) (hT.filter _)
    (fun x hx => List.mem_filter.mpr ⟨hsub x (List.mem_filter.mp hx).1, (List.mem_filter.mp hx).2⟩)
    (by rw [hk]; exact hreg _) c' (List.mem_filter.mpr ⟨hc', by simp [hcore]⟩)
  exact (List.mem_filter.mp this).1

end KoordVerif.C06
