import KoordVerif.Proofs.C15ExtMin
import KoordVerif.Proofs.C15ExtNs
import KoordVerif.Model.C15Inf
/-
C15 (extension): the informer handlers (OnQuotaAdd / OnQuotaUpdate / OnQuotaDelete) against the admission's own
state update.  No `WF` here (Props is not imported): observational equivalence of two recorded topologies, congruence
and idempotence of the handlers, and `handler_matches`: the handler run on the PRE-state has the same observable
effect as the admission's state update.
-/
namespace KoordVerif.C15

/-! ### observational equivalence: same info list, same key set / child pairs / namespace lookups -/

structure Equiv (s t : Topo) : Prop where
  info  : s.info = t.info
  hkeys : ∀ k, k ∈ s.hkeys ↔ k ∈ t.hkeys
  kids  : ∀ e, e ∈ s.kids ↔ e ∈ t.kids
  ns    : ∀ n, nsGet s.nsMap n = nsGet t.nsMap n

theorem Equiv.refl (s : Topo) : Equiv s s := ⟨rfl, fun _ => Iff.rfl, fun _ => Iff.rfl, fun _ => rfl⟩

theorem Equiv.symm {s t : Topo} (h : Equiv s t) : Equiv t s :=
  ⟨h.info.symm, fun k => (h.hkeys k).symm, fun e => (h.kids e).symm, fun n => (h.ns n).symm⟩

theorem Equiv.trans {s t u : Topo} (h : Equiv s t) (g : Equiv t u) : Equiv s u :=
  ⟨h.info.trans g.info, fun k => (h.hkeys k).trans (g.hkeys k), fun e => (h.kids e).trans (g.kids e),
   fun n => (h.ns n).trans (g.ns n)⟩

/-! ### 1. `put` -/

theorem find_isSome_iff {l : List QI} {n : Nat} : (find l n).isSome = true ↔ ∃ c ∈ l, c.name = n := by
  unfold find
  simp [List.find?_isSome]

theorem replace_fresh {l : List QI} {q : QI} (h : ∀ c ∈ l, c.name ≠ q.name) : replace l q = l := by
  unfold replace
  conv => rhs; rw [← List.map_id l]
  apply List.map_congr_left
  intro c hc
  simp [h c hc]

theorem replace_idem (l : List QI) (q : QI) : replace (replace l q) q = replace l q := by
  unfold replace
  rw [List.map_map]
  apply List.map_congr_left
  intro c _
  by_cases hn : c.name = q.name <;> simp [hn]

theorem replace_self {l : List QI} {q : QI} (hu : Uniq l) (hq : q ∈ l) : replace l q = l := by
  unfold replace
  conv => rhs; rw [← List.map_id l]
  apply List.map_congr_left
  intro c hc
  by_cases hn : c.name = q.name
  · simp [hu c hc q hq hn]
  · simp [hn]

theorem put_fresh {l : List QI} {q : QI} (h : ∀ c ∈ l, c.name ≠ q.name) : put l q = q :: l := by
  unfold put
  have : (find l q.name).isSome = false := by
    cases hs : (find l q.name).isSome with
    | false => rfl
    | true =>
      obtain ⟨c, hc, hcn⟩ := find_isSome_iff.mp hs
      exact absurd hcn (h c hc)
  simp [this]

theorem put_present {l : List QI} {q o : QI} (h : find l q.name = some o) : put l q = replace l q := by
  unfold put
  simp [h]

theorem put_of_mem {l : List QI} {q o : QI} (ho : o ∈ l) (hn : o.name = q.name) : put l q = replace l q := by
  unfold put
  have : (find l q.name).isSome = true := find_isSome_iff.mpr ⟨o, ho, hn⟩
  simp [this]

theorem put_idem (l : List QI) (q : QI) : put (put l q) q = put l q := by
  cases hs : (find l q.name).isSome with
  | true =>
    obtain ⟨c, hc, hcn⟩ := find_isSome_iff.mp hs
    rw [put_of_mem hc hcn]
    rw [put_of_mem (mem_replace_self hc hcn) rfl, replace_idem]
  | false =>
    have hfr := find_isSome_false hs
    rw [put_fresh hfr]
    rw [put_of_mem (List.mem_cons_self ..) rfl]
    show replace (q :: l) q = q :: l
    unfold replace
    rw [List.map_cons]
    have := replace_fresh hfr
    unfold replace at this
    rw [this]
    simp

theorem applyEv_info (s : Topo) (e : Ev) : (applyEv s e).info = infoEv s.info e := by
  cases e <;> rfl

/-! ### 2. the handlers respect the equivalence -/

theorem applyEv_congr {s t : Topo} {e : Ev} (h : Equiv s t) : Equiv (applyEv s e) (applyEv t e) := by
  cases e with
  | add q =>
    refine ⟨?_, ?_, ?_, ?_⟩
    · simp only [applyEv, onAdd, h.info]
    · intro k; simp only [applyEv, onAdd, List.mem_cons, h.hkeys]
    · intro k; simp only [applyEv, onAdd, List.mem_cons, h.kids]
    · intro n; simp only [applyEv, onAdd, nsGet_nsSetAll, h.ns]
  | upd o q =>
    refine ⟨?_, ?_, ?_, ?_⟩
    · simp only [applyEv, onUpdate, h.info]
    · intro k; simp only [applyEv, onUpdate, h.hkeys]
    · intro k
      simp only [applyEv, onUpdate]
      split
      · simp only [List.mem_cons, List.mem_filter, h.kids]
      · exact h.kids k
    · intro n
      simp only [applyEv, onUpdate]
      split
      · simp only [nsGet_nsSetAll, nsGet_nsDelAll, h.ns]
      · exact h.ns n
  | del q =>
    refine ⟨?_, ?_, ?_, ?_⟩
    · simp only [applyEv, onDelete, h.info]
    · intro k; simp only [applyEv, onDelete, List.mem_filter, h.hkeys]
    · intro k; simp only [applyEv, onDelete, List.mem_filter, h.kids]
    · intro n; simp only [applyEv, onDelete, nsGet_nsDelAll, h.ns]

/-! ### 3. delivering the same event twice = delivering it once -/

theorem applyEv_idem (s : Topo) (e : Ev) : Equiv (applyEv (applyEv s e) e) (applyEv s e) := by
  cases e with
  | add q =>
    refine ⟨?_, ?_, ?_, ?_⟩
    · simp only [applyEv, onAdd, put_idem]
    · intro k; simp only [applyEv, onAdd, List.mem_cons]
      constructor
      · rintro (h | h | h | h | h)
        · exact Or.inl h
        · exact Or.inr (Or.inl h)
        · exact Or.inl h
        · exact Or.inr (Or.inl h)
        · exact Or.inr (Or.inr h)
      · intro h; exact Or.inr (Or.inr h)
    · intro k; simp only [applyEv, onAdd, List.mem_cons]
      constructor
      · rintro (h | h | h)
        · exact Or.inl h
        · exact Or.inl h
        · exact Or.inr h
      · intro h; exact Or.inr h
    · intro n; simp only [applyEv, onAdd, nsGet_nsSetAll]
      split <;> rfl
  | upd o q =>
    refine ⟨?_, ?_, ?_, ?_⟩
    · simp only [applyEv, onUpdate, put_idem]
    · intro k; simp only [applyEv, onUpdate]
    · intro k
      simp only [applyEv, onUpdate]
      split
      · rename_i hne
        have hne' : (q.parent, q.name) ≠ (o.parent, o.name) := by
          intro e
          have : q.parent = o.parent := congrArg Prod.fst e
          simp [this] at hne
        simp only [List.mem_cons, List.mem_filter, bne_iff_ne, ne_eq]
        constructor
        · rintro (h | ⟨h | ⟨h1, h2⟩, h3⟩)
          · exact Or.inl h
          · exact Or.inl h
          · exact Or.inr ⟨h1, h2⟩
        · rintro (h | ⟨h1, h2⟩)
          · exact Or.inl h
          · exact Or.inr ⟨Or.inr ⟨h1, h2⟩, h2⟩
      · exact Iff.rfl
    · intro n
      simp only [applyEv, onUpdate]
      split
      · simp only [nsGet_nsSetAll, nsGet_nsDelAll]
        split
        · rfl
        · split <;> rfl
      · rfl
  | del q =>
    refine ⟨?_, ?_, ?_, ?_⟩
    · simp only [applyEv, onDelete, List.filter_filter, Bool.and_self]
    · intro k; simp only [applyEv, onDelete, List.mem_filter]
      constructor
      · rintro ⟨h, _⟩; exact h
      · intro h; exact ⟨h, h.2⟩
    · intro k; simp only [applyEv, onDelete, List.mem_filter]
      constructor
      · rintro ⟨h, _⟩; exact h
      · intro h; exact ⟨h, h.2⟩
    · intro n; simp only [applyEv, onDelete, nsGet_nsDelAll]
      split <;> rfl

/-- the echo argument: if the handler on the pre-state matches `s1`, the handler on `s1` changes nothing observable. -/
theorem echo_equiv {s s1 : Topo} {e : Ev} (h : Equiv (applyEv s e) s1) : Equiv (applyEv s1 e) s1 :=
  ((applyEv_congr h.symm).trans (applyEv_idem s e)).trans h

/-! ### 4. `validUpdateO` with the replica's own record as the old API object is `validUpdate` -/

theorem validUpdateO_self (d : Nat) (s : Topo) (q : QI) (sw hp : Bool) :
    validUpdateO d s (find s.info q.name) q sw hp = validUpdate d s q sw hp := by
  unfold validUpdateO validUpdate
  cases find s.info q.name <;> rfl

theorem stepO_self (d : Nat) (s : Topo) (op : Op) : stepO d s s.info op = step d s op := by
  cases op with
  | add q sw => rfl
  | upd q sw hp => exact validUpdateO_self d s q sw hp
  | del n lp => rfl

/-! ### 5. the hypothesis on requests: an update that keeps every compared field keeps the two bypass labels too -/

def FlagsKept (api : List QI) : Op → Prop
  | .upd q _ _ => ∀ o, find api q.name = some o → sameFields o q = true → o.force = q.force ∧ o.treeRoot = q.treeRoot
  | _ => True

theorem sameFields_eq {o q : QI} (hn : o.name = q.name) (h : sameFields o q = true) (hf : o.force = q.force)
    (ht : o.treeRoot = q.treeRoot) : o = q := by
  cases o; cases q
  simp_all [sameFields]

/-! ### 6. the handler on the PRE-state has the same observable effect as the admission's state update -/

theorem validUpdate_checked {d : Nat} {s : Topo} {q o : QI} {sw hp : Bool} (hf : find s.info q.name = some o)
    (h0 : sameFields o q = false) (h : (validUpdate d s q sw hp).2 = true) :
    (validUpdate d s q sw hp).1 = updState s o q := by
  rcases validUpdate_true h with _ | ⟨o', hfo', _, _, _, _, hst⟩
  · -- redo the case analysis: with `sameFields o q = false` the state-unchanged exits are all rejections
    by_cases h1 : (q.name = 0 || q.name = 1) = true
    · simp [validUpdate, hf, h0, h1] at h
    by_cases h2 : nsFree s q = true
    · by_cases h3 : selfOK d q sw = true
      · by_cases h4 : topoCheck d s (some o) q hp = true
        · simp only [validUpdate, hf, h0, h1, h2, h3, h4]; simp [updState]
        · simp only [validUpdate, hf, h0, h1, h2, h3, h4] at h; simp at h
      · simp only [validUpdate, hf, h0, h1, h2, h3] at h; simp at h
    · simp only [validUpdate, hf, h0, h1, h2] at h; simp at h
  · rw [hf] at hfo'
    cases hfo'
    exact hst

theorem handler_matches {d : Nat} {s : Topo} {op : Op} {e : Ev} (hF : Forest s) (hN : NsOK s)
    (hk : FlagsKept s.info op) (h : (step d s op).2 = true) (he : evOf s.info op = some e) :
    Equiv (applyEv s e) (step d s op).1 := by
  have hu := uniq_of_nodup hF.nodup
  cases op with
  | add q sw =>
    simp only [step] at h ⊢
    simp only [evOf, Option.some.injEq] at he
    subst he
    obtain ⟨hfr, _, _, _, hst⟩ := validAdd_true h
    rw [hst]
    have : applyEv s (.add q) = addState s q := by
      simp only [applyEv, onAdd, addState, put_fresh (find_isSome_false hfr)]
    rw [this]
    exact Equiv.refl _
  | upd q sw hp =>
    simp only [step] at h ⊢
    simp only [evOf] at he
    cases hf : find s.info q.name with
    | none => simp [hf] at he
    | some o =>
      simp only [hf, Option.map_some, Option.some.injEq] at he
      subst he
      obtain ⟨ho, hon⟩ := find_some hf
      cases h0 : sameFields o q with
      | true =>
        obtain ⟨hfo, hto⟩ := hk o hf h0
        have hoq : o = q := sameFields_eq hon h0 hfo hto
        subst hoq
        have hst : (validUpdate d s o sw hp).1 = s := by simp [validUpdate, hf, h0]
        rw [hst]
        have : applyEv s (.upd o o) = s := by
          simp only [applyEv, onUpdate, put_present hf, replace_self hu ho, bne_self_eq_false,
            Bool.false_eq_true, if_false]
        rw [this]
        exact Equiv.refl _
      | false =>
        rw [validUpdate_checked hf h0 h]
        refine ⟨?_, ?_, ?_, ?_⟩
        · simp only [applyEv, onUpdate, updState, put_present hf]
        · intro k; exact Iff.rfl
        · intro k; simp only [applyEv, onUpdate, updState, hon]
        · intro x
          simp only [applyEv, onUpdate, updState]
          split
          · rfl
          · rename_i hns
            have hns : o.ns = q.ns := by simpa using hns
            simp only [nsGet_nsSetAll, nsGet_nsDelAll, hns]
            split
            · rename_i hx
              have := (hN x o.name).mpr ⟨o, ho, rfl, hns ▸ hx⟩
              rw [this, hon]
            · rfl
  | del n lp =>
    simp only [step] at h ⊢
    simp only [evOf] at he
    obtain ⟨o, hfo, _, _, hst⟩ := validDelete_true h
    simp only [hfo, Option.map_some, Option.some.injEq] at he
    subst he
    obtain ⟨_, hon⟩ := find_some hfo
    rw [hst]
    have : applyEv s (.del o) = delState s o n := by
      simp only [applyEv, onDelete, delState, hon]
    rw [this]
    exact Equiv.refl _

/-- an accepted request always has an informer event (an accepted update / delete names a recorded quota). -/
theorem accepted_ev {d : Nat} {s : Topo} {op : Op} (h : (step d s op).2 = true) : ∃ e, evOf s.info op = some e := by
  cases op with
  | add q sw => exact ⟨_, rfl⟩
  | upd q sw hp =>
    simp only [step] at h
    cases hf : find s.info q.name with
    | none =>
      exfalso
      simp only [validUpdate, hf] at h
      revert h
      repeat' split
      all_goals simp_all
    | some o => exact ⟨.upd o q, by simp [evOf, hf]⟩
  | del n lp =>
    simp only [step] at h
    obtain ⟨o, hfo, _⟩ := validDelete_true h
    exact ⟨.del o, by simp [evOf, hfo]⟩

/-- an update event whose two objects coincide, emitted for a request on a duplicate-free store, leaves the store as is. -/
theorem infoEv_same {api : List QI} {op : Op} {q : QI} (hu : Uniq api) (he : evOf api op = some (.upd q q)) :
    infoEv api (.upd q q) = api := by
  cases op with
  | add q' sw => simp [evOf] at he
  | upd q' sw hp =>
    simp only [evOf] at he
    cases hf : find api q'.name with
    | none => simp [hf] at he
    | some o =>
      simp only [hf, Option.map_some, Option.some.injEq, Ev.upd.injEq] at he
      obtain ⟨h1, h2⟩ := he
      subst h1; subst h2
      simp only [infoEv, put_present hf, replace_self hu (find_some hf).1]
  | del n lp =>
    simp only [evOf] at he
    cases hf : find api n with
    | none => simp [hf] at he
    | some o => simp [hf] at he

end KoordVerif.C15
