import KoordVerif.Proofs.C01Pend
/-
C01: PodCache bookkeeping — how the pod sums change when one cache entry is added / removed / rewritten.
-/
namespace KoordVerif.C01

def getPod : List Pod → Nat → Option Pod
  | [], _ => none
  | p :: t, i => if p.id = i then some p else getPod t i

def w (f : Pod → Bool) (p : Pod) : Int := if f p then p.req else 0

theorem podSum_cons (f : Pod → Bool) (p : Pod) (t : List Pod) : podSum f (p :: t) = w f p + podSum f t := rfl

theorem getPod_none_iff {ps : List Pod} {i : Nat} : getPod ps i = none ↔ ∀ p ∈ ps, p.id ≠ i := by
  induction ps with
  | nil => simp [getPod]
  | cons p t ih =>
    simp only [getPod]
    by_cases h : p.id = i
    · simp [h]
    · simp [h, ih]

theorem getPod_some {ps : List Pod} {i : Nat} {e : Pod} (h : getPod ps i = some e) : e ∈ ps ∧ e.id = i := by
  induction ps with
  | nil => simp [getPod] at h
  | cons p t ih =>
    simp only [getPod] at h
    split at h
    · cases h; exact ⟨by simp, by assumption⟩
    · have := ih h; exact ⟨List.mem_cons_of_mem _ this.1, this.2⟩

theorem any_id_eq (ps : List Pod) (i : Nat) : ps.any (fun p => p.id == i) = (getPod ps i).isSome := by
  induction ps with
  | nil => rfl
  | cons p t ih =>
    simp only [List.any_cons, getPod, ih]
    by_cases h : p.id = i <;> simp [h]

theorem podExists_eq (q : Quota) (i : Nat) : podExists q i = (getPod q.pods i).isSome := any_id_eq q.pods i

theorem any_asg_eq (ps : List Pod) (i : Nat) (hn : (ps.map (·.id)).Nodup) :
    ps.any (fun p => p.id == i && p.assigned) = (match getPod ps i with | some e => e.assigned | none => false) := by
  induction ps with
  | nil => rfl
  | cons p t ih =>
    simp only [List.map_cons, List.nodup_cons] at hn
    simp only [List.any_cons, getPod, ih hn.2]
    by_cases h : p.id = i
    · have hnone : getPod t i = none := getPod_none_iff.mpr (fun x hx e => hn.1 (by
        rw [h, ← e]; exact List.mem_map.mpr ⟨x, hx, rfl⟩))
      simp [h, hnone]
    · simp [h]

theorem podAssigned_eq (q : Quota) (i : Nat) (hn : (q.pods.map (·.id)).Nodup) :
    podAssigned q i = (match getPod q.pods i with | some e => e.assigned | none => false) := any_asg_eq q.pods i hn

/-- rewrite the entry with id `i` -/
def updPods (g : Pod → Pod) (i : Nat) (ps : List Pod) : List Pod := ps.map (fun p => if p.id = i then g p else p)

theorem updPods_none {g : Pod → Pod} {i : Nat} {ps : List Pod} (h : getPod ps i = none) : updPods g i ps = ps := by
  induction ps with
  | nil => rfl
  | cons p t ih =>
    simp only [getPod] at h
    by_cases hp : p.id = i
    · simp [hp] at h
    · simp only [hp, if_false] at h
      simp [updPods, hp] at ih ⊢
      exact ih h

theorem filter_none {i : Nat} {ps : List Pod} (h : getPod ps i = none) : ps.filter (fun p => p.id != i) = ps := by
  rw [List.filter_eq_self]
  intro p hp
  have := getPod_none_iff.mp h p hp
  simp [this]

theorem podSum_updPods (f : Pod → Bool) (g : Pod → Pod) {i : Nat} {ps : List Pod} {e : Pod}
    (hn : (ps.map (·.id)).Nodup) (he : getPod ps i = some e) :
    podSum f (updPods g i ps) = podSum f ps - w f e + w f (g e) := by
  induction ps with
  | nil => simp [getPod] at he
  | cons p t ih =>
    simp only [List.map_cons, List.nodup_cons] at hn
    simp only [getPod] at he
    by_cases hp : p.id = i
    · simp only [hp, if_true, Option.some.injEq] at he
      subst he
      have hnone : getPod t i = none := getPod_none_iff.mpr (fun x hx e => hn.1 (by
        rw [hp, ← e]; exact List.mem_map.mpr ⟨x, hx, rfl⟩))
      have := updPods_none (g := g) hnone
      simp only [updPods] at this
      simp only [updPods, List.map_cons, hp, if_true, podSum_cons, this]
      omega
    · simp only [hp, if_false] at he
      have := ih hn.2 he
      simp only [updPods] at this
      simp only [updPods, List.map_cons, hp, if_false, podSum_cons, this]
      omega

theorem podSum_filter (f : Pod → Bool) {i : Nat} {ps : List Pod} {e : Pod}
    (hn : (ps.map (·.id)).Nodup) (he : getPod ps i = some e) :
    podSum f (ps.filter (fun p => p.id != i)) = podSum f ps - w f e := by
  induction ps with
  | nil => simp [getPod] at he
  | cons p t ih =>
    simp only [List.map_cons, List.nodup_cons] at hn
    simp only [getPod] at he
    by_cases hp : p.id = i
    · simp only [hp, if_true, Option.some.injEq] at he
      subst he
      have hnone : getPod t i = none := getPod_none_iff.mpr (fun x hx e => hn.1 (by
        rw [hp, ← e]; exact List.mem_map.mpr ⟨x, hx, rfl⟩))
      simp only [List.filter_cons, hp, bne_self_eq_false, Bool.false_eq_true, if_false, filter_none hnone, podSum_cons]
      omega
    · simp only [hp, if_false] at he
      have hb : (p.id != i) = true := by simp [hp]
      simp only [List.filter_cons, hb, if_true, podSum_cons, ih hn.2 he]
      omega

theorem podSum_ge_w (f : Pod → Bool) {ps : List Pod} {e : Pod} (hnn : ∀ p ∈ ps, 0 ≤ p.req) (he : e ∈ ps) :
    w f e ≤ podSum f ps := by
  induction ps with
  | nil => simp at he
  | cons p t ih =>
    have h1 := podSum_nonneg f t (fun x hx => hnn x (List.mem_cons_of_mem _ hx))
    have h2 : 0 ≤ w f p := by unfold w; have := hnn p (by simp); split <;> omega
    rw [podSum_cons]
    rcases List.mem_cons.mp he with e1 | e1
    · subst e1; omega
    · have := ih (fun x hx => hnn x (List.mem_cons_of_mem _ hx)) e1; omega

theorem ids_updPods (g : Pod → Pod) (hg : ∀ p, (g p).id = p.id) (i : Nat) (ps : List Pod) :
    (updPods g i ps).map (·.id) = ps.map (·.id) := by
  induction ps with
  | nil => rfl
  | cons p t ih =>
    simp only [updPods] at ih
    simp only [updPods, List.map_cons, ih]
    by_cases hp : p.id = i <;> simp [hp, hg]

theorem mem_updPods {g : Pod → Pod} {i : Nat} {ps : List Pod} {x : Pod} (hx : x ∈ updPods g i ps) :
    x ∈ ps ∨ ∃ p ∈ ps, p.id = i ∧ x = g p := by
  simp only [updPods, List.mem_map] at hx
  obtain ⟨p, hp, rfl⟩ := hx
  split
  · next h => right; exact ⟨p, hp, h, rfl⟩
  · left; exact hp

theorem pod_unique : ∀ (ps : List Pod), (ps.map (·.id)).Nodup → ∀ {p e : Pod}, p ∈ ps → e ∈ ps → p.id = e.id → p = e := by
  intro ps
  induction ps with
  | nil => intro _ p e hp; simp at hp
  | cons y t ih =>
    intro hn p e hp1 he1 hid
    simp only [List.map_cons, List.nodup_cons] at hn
    rcases List.mem_cons.mp hp1 with a1 | a1 <;> rcases List.mem_cons.mp he1 with b1 | b1
    · rw [a1, b1]
    · exfalso; apply hn.1; rw [← a1, hid]; exact List.mem_map.mpr ⟨e, b1, rfl⟩
    · exfalso; apply hn.1; rw [← b1, ← hid]; exact List.mem_map.mpr ⟨p, a1, rfl⟩
    · exact ih hn.2 a1 b1 hid

/-- cache ids are unique per quota -/
def PodsOK (s : State) : Prop := ∀ q ∈ s, (q.pods.map (·.id)).Nodup

end KoordVerif.C01
