import KoordVerif.Model.C06Pick
import KoordVerif.Proofs.C06Pick
/-
C06 extension (round 2) — admissibility of the candidate generators of `takeCPUs`
(`freeCoresIn`, `freeCPUsIn`, `freeCPUsAll`, `spreadCPUs`, `extractCPU`, the insertion sorts):
every list they return is duplicate-free and drawn from `allocatableCPUs`; the per-socket / per-node
lists of `freeCoresIn` are pairwise disjoint.  Needs only that the accumulator's CPU ids are distinct.
-/
namespace KoordVerif.C06

/-! ### insertion sort, dedup, spread: permutations / sublists -/

theorem insertLt_perm {α} (lt : α → α → Bool) (x : α) : ∀ l : List α, (insertLt lt x l).Perm (x :: l)
  | [] => .refl _
  | y :: ys => by
    simp only [insertLt]
    split
    · exact .refl _
    · exact ((insertLt_perm lt x ys).cons y).trans (List.Perm.swap x y ys)

theorem foldl_insertLt_perm {α} (lt : α → α → Bool) : ∀ (l acc : List α),
    (l.foldl (fun acc x => insertLt lt x acc) acc).Perm (acc ++ l)
  | [], acc => by simp
  | x :: xs, acc => by
    simp only [List.foldl_cons]
    refine (foldl_insertLt_perm lt xs _).trans ?_
    refine ((insertLt_perm lt x acc).append_right xs).trans ?_
    simpa using (List.perm_middle (a := x) (l₁ := acc) (l₂ := xs)).symm

theorem isortLt_perm {α} (lt : α → α → Bool) (l : List α) : (isortLt lt l).Perm l := by
  simpa [isortLt] using foldl_insertLt_perm lt l []

theorem sortAsc_perm (l : List Nat) : (sortAsc l).Perm l := isortLt_perm _ l

theorem sortByRef_perm (a : Acc) (l : List Nat) : (sortByRef a l).Perm l := isortLt_perm _ l

theorem mem_dedupNat {x : Nat} : ∀ {l : List Nat}, x ∈ dedupNat l ↔ x ∈ l
  | [] => by simp [dedupNat]
  | y :: ys => by
    simp only [dedupNat, List.mem_cons, List.mem_filter, mem_dedupNat (l := ys)]
    by_cases h : x = y <;> simp [h]

theorem dedupNat_nodup : ∀ l : List Nat, (dedupNat l).Nodup
  | [] => by simp [dedupNat]
  | y :: ys => by
    simp only [dedupNat, List.nodup_cons]
    exact ⟨by simp, (dedupNat_nodup ys).filter _⟩

theorem extractCPU_go_sublist (ctx : PickCtx) : ∀ (l seen : List Nat), (extractCPU.go ctx seen l).Sublist l
  | [], _ => by simp [extractCPU.go]
  | c :: cs, seen => by
    simp only [extractCPU.go]
    split
    · exact (extractCPU_go_sublist ctx cs seen).cons c
    · exact (extractCPU_go_sublist ctx cs _).cons₂ c

theorem extractCPU_sublist (ctx : PickCtx) (l : List Nat) : (extractCPU ctx l).Sublist l :=
  extractCPU_go_sublist ctx l []

theorem spreadRound_perm (ctx : PickCtx) : ∀ (l seen : List Nat),
    ((spreadRound ctx seen l).1 ++ (spreadRound ctx seen l).2).Perm l
  | [], _ => by simp [spreadRound]
  | c :: cs, seen => by
    simp only [spreadRound]
    split
    · exact List.perm_middle.trans ((spreadRound_perm ctx cs seen).cons c)
    · exact (spreadRound_perm ctx cs _).cons c

theorem spread_go_perm (ctx : PickCtx) : ∀ (fuel : Nat) (l : List Nat), (spreadCPUs.go ctx fuel l).Perm l
  | 0, l => by simp [spreadCPUs.go]
  | fuel + 1, l => by
    simp only [spreadCPUs.go]
    split
    · rename_i h; simp at h; subst h; exact .refl _
    · exact ((spread_go_perm ctx fuel _).append_left _).trans (spreadRound_perm ctx l [])

theorem spreadCPUs_perm (ctx : PickCtx) (l : List Nat) : (spreadCPUs ctx l).Perm l := by
  unfold spreadCPUs
  split
  · exact .refl _
  · exact spread_go_perm ctx _ _

/-! ### lists drawn from a set of CPU infos with distinct ids -/

theorem inj_of_nodup_map {α β} (f : α → β) : ∀ {l : List α}, (l.map f).Nodup → ∀ {a b}, a ∈ l → b ∈ l →
    f a = f b → a = b
  | [], _, _, _, ha, _, _ => by simp at ha
  | x :: xs, h, a, b, ha, hb, hab => by
    simp only [List.map_cons, List.nodup_cons, List.mem_map, not_exists, not_and] at h
    rcases List.mem_cons.mp ha with rfl | ha' <;> rcases List.mem_cons.mp hb with rfl | hb'
    · rfl
    · exact absurd hab.symm (h.1 b hb')
    · exact absurd hab (h.1 a ha')
    · exact inj_of_nodup_map f h.2 ha' hb' hab

/-- `l` is duplicate-free and consists of ids of `cpus`. -/
def FromInfos (cpus : List CpuI) (l : List Nat) : Prop := l.Nodup ∧ ∀ x ∈ l, x ∈ cpus.map (·.cpu)

def Disj (x y : List Nat) : Prop := ∀ c, c ∈ x → c ∉ y

theorem nodup_flatMap_of {α} (f : α → List Nat) : ∀ (gs : List α), (∀ g ∈ gs, (f g).Nodup) →
    gs.Pairwise (fun a b => Disj (f a) (f b)) → (gs.flatMap f).Nodup
  | [], _, _ => by simp
  | g :: gs, hn, hp => by
    rw [List.pairwise_cons] at hp
    simp only [List.flatMap_cons, List.nodup_append]
    refine ⟨hn g (by simp), nodup_flatMap_of f gs (fun g' hg' => hn g' (by simp [hg'])) hp.2, ?_⟩
    intro x hx y hy hxy
    subst hxy
    obtain ⟨b, hb, hxb⟩ := List.mem_flatMap.mp hy
    exact hp.1 b hb x hx hxb

/-- groups tagged by a functional relation `P g x` ("x belongs to group g") are pairwise disjoint. -/
theorem tagged_pairwise (P : Nat → Nat → Prop) (hP : ∀ g g' x, P g x → P g' x → g = g') (f : Nat → List Nat) :
    ∀ (gs : List Nat), gs.Nodup → (∀ g ∈ gs, ∀ x ∈ f g, P g x) → gs.Pairwise (fun a b => Disj (f a) (f b))
  | [], _, _ => List.Pairwise.nil
  | g :: gs, hnd, hm => by
    rw [List.nodup_cons] at hnd
    rw [List.pairwise_cons]
    refine ⟨fun b hb x hx hxb => ?_, tagged_pairwise P hP f gs hnd.2 (fun g' hg' => hm g' (by simp [hg']))⟩
    have := hP g b x (hm g (by simp) x hx) (hm b (by simp [hb]) x hxb)
    subst this
    exact hnd.1 hb

/-- "x is the id of an info of `cpus` on core `c`". -/
def OnCore (cpus : List CpuI) (c x : Nat) : Prop := ∃ i ∈ cpus, i.cpu = x ∧ i.core = c

theorem onCore_fun {cpus : List CpuI} (hnd : (cpus.map (·.cpu)).Nodup) :
    ∀ g g' x, OnCore cpus g x → OnCore cpus g' x → g = g' := by
  rintro g g' x ⟨i, hi, hix, hig⟩ ⟨j, hj, hjx, hjg⟩
  have := inj_of_nodup_map (·.cpu) hnd hi hj (by simp [hix, hjx])
  subst this
  exact hig.symm.trans hjg

/-- `cpusIn core` (ids of the infos on one core), in any order. -/
theorem cpusIn_perm_ok {cpus : List CpuI} (hnd : (cpus.map (·.cpu)).Nodup) (c : Nat) {l : List Nat}
    (hl : l.Perm ((cpus.filter (·.core == c)).map (·.cpu))) : l.Nodup ∧ ∀ x ∈ l, OnCore cpus c x := by
  refine ⟨hl.nodup_iff.mpr ((List.filter_sublist.map _).nodup hnd), fun x hx => ?_⟩
  have := hl.mem_iff.mp hx
  simp only [List.mem_map, List.mem_filter, beq_iff_eq] at this
  obtain ⟨i, ⟨hi, hc⟩, hix⟩ := this
  exact ⟨i, hi, hix, hc⟩

/-- a flattened list of per-core lists over distinct cores. -/
theorem coreFlat_ok {cpus : List CpuI} (hnd : (cpus.map (·.cpu)).Nodup) (g : Nat → List Nat)
    (hg : ∀ c, (g c).Perm ((cpus.filter (·.core == c)).map (·.cpu))) (cores : List Nat) (hc : cores.Nodup) :
    (cores.flatMap g).Nodup ∧ ∀ x ∈ cores.flatMap g, ∃ c ∈ cores, OnCore cpus c x := by
  refine ⟨nodup_flatMap_of g cores (fun c _ => (cpusIn_perm_ok hnd c (hg c)).1)
    (tagged_pairwise (OnCore cpus) (onCore_fun hnd) g cores hc (fun c _ => (cpusIn_perm_ok hnd c (hg c)).2)), ?_⟩
  intro x hx
  obtain ⟨c, hc', hxc⟩ := List.mem_flatMap.mp hx
  exact ⟨c, hc', (cpusIn_perm_ok hnd c (hg c)).2 x hxc⟩

theorem onCore_mem {cpus : List CpuI} {c x : Nat} (h : OnCore cpus c x) : x ∈ cpus.map (·.cpu) := by
  obtain ⟨i, hi, hix, _⟩ := h
  exact List.mem_map.mpr ⟨i, hi, hix⟩

/-- candidate lists that are each `FromInfos` and pairwise disjoint. -/
def ListsFrom (cpus : List CpuI) (ls : List (List Nat)) : Prop :=
  (∀ l ∈ ls, FromInfos cpus l) ∧ ls.Pairwise Disj

/-- the shape of `freeCoresIn`: cores grouped by `groupOf`, every group a flattened list of per-core lists. -/
theorem coreGroups_ok {cpus : List CpuI} (hnd : (cpus.map (·.cpu)).Nodup) (g : Nat → List Nat)
    (hg : ∀ c, (g c).Perm ((cpus.filter (·.core == c)).map (·.cpu))) (cores : List Nat) (hc : cores.Nodup)
    (groupOf : Nat → Nat) (ltc ltg : Nat → Nat → Bool) (groups : List Nat) (hgs : groups.Nodup) :
    ListsFrom cpus ((isortLt ltg groups).map fun grp =>
      (isortLt ltc (cores.filter (fun c => groupOf c == grp))).flatMap g) := by
  let f := fun grp => (isortLt ltc (cores.filter (fun c => groupOf c == grp))).flatMap g
  let P : Nat → Nat → Prop := fun grp x => ∃ c, groupOf c = grp ∧ OnCore cpus c x
  have hP : ∀ a b x, P a x → P b x → a = b := by
    rintro a b x ⟨c, hca, hcx⟩ ⟨c', hcb, hcx'⟩
    have := onCore_fun hnd c c' x hcx hcx'
    subst this
    exact hca.symm.trans hcb
  have hgrp : ∀ grp, (f grp).Nodup ∧ ∀ x ∈ f grp, P grp x := by
    intro grp
    have hnd' : (isortLt ltc (cores.filter (fun c => groupOf c == grp))).Nodup :=
      (isortLt_perm ltc _).nodup_iff.mpr (hc.filter _)
    have := coreFlat_ok hnd g hg _ hnd'
    refine ⟨this.1, fun x hx => ?_⟩
    obtain ⟨c, hcm, hcx⟩ := this.2 x hx
    have hcm' := (isortLt_perm ltc _).mem_iff.mp hcm
    simp only [List.mem_filter, beq_iff_eq] at hcm'
    exact ⟨c, hcm'.2, hcx⟩
  have hnds : (isortLt ltg groups).Nodup := (isortLt_perm ltg _).nodup_iff.mpr hgs
  refine ⟨?_, ?_⟩
  · intro l hl
    obtain ⟨grp, _, rfl⟩ := List.mem_map.mp hl
    refine ⟨(hgrp grp).1, fun x hx => ?_⟩
    obtain ⟨c, _, hcx⟩ := (hgrp grp).2 x hx
    exact onCore_mem hcx
  · rw [List.pairwise_map]
    exact tagged_pairwise P hP f _ hnds (fun grp _ => (hgrp grp).2)

theorem FromInfos.mono {cpus cpus' : List CpuI} (h : ∀ i ∈ cpus, i ∈ cpus') {l : List Nat}
    (hl : FromInfos cpus l) : FromInfos cpus' l := by
  refine ⟨hl.1, fun x hx => ?_⟩
  obtain ⟨i, hi, hix⟩ := List.mem_map.mp (hl.2 x hx)
  exact List.mem_map.mpr ⟨i, h i hi, hix⟩

theorem ListsFrom.mono {cpus cpus' : List CpuI} (h : ∀ i ∈ cpus, i ∈ cpus') {ls : List (List Nat)}
    (hl : ListsFrom cpus ls) : ListsFrom cpus' ls :=
  ⟨fun l hlm => (hl.1 l hlm).mono h, hl.2⟩

/-! ### the generators -/

/-- `freeCoresInNode` / `freeCoresInSocket`: duplicate-free lists of allocatable CPUs, pairwise disjoint. -/
theorem freeCoresIn_ok (ctx : PickCtx) (a : Acc) (hnd : (a.alloc.map (·.cpu)).Nodup) (byNode ff fe : Bool) :
    ListsFrom a.alloc (freeCoresIn ctx a byNode ff fe) := by
  unfold freeCoresIn
  simp only []
  refine ListsFrom.mono (cpus := a.alloc.filter (fun i => !(byNode && fe && exclNUMA ctx a i)))
    (fun i hi => (List.mem_filter.mp hi).1) ?_
  exact coreGroups_ok ((List.filter_sublist.map _).nodup hnd) _ (fun c => sortAsc_perm _) _
    ((dedupNat_nodup _).filter _) _ _ _ _ (dedupNat_nodup _)

/-- `freeCPUsInNode` / `freeCPUsInSocket`: every list is a duplicate-free list of allocatable CPUs. -/
theorem freeCPUsIn_ok (ctx : PickCtx) (a : Acc) (hnd : (a.alloc.map (·.cpu)).Nodup) (byNode fe : Bool) :
    ∀ l ∈ freeCPUsIn ctx a byNode fe, FromInfos a.alloc l := by
  intro l hl
  unfold freeCPUsIn at hl
  simp only [] at hl
  obtain ⟨grp, _, rfl⟩ := List.mem_map.mp hl
  -- the group's list is a sublist of a permutation of ids of a filtered part of `alloc`
  have hbase : ∀ (p : CpuI → Bool) (l0 : List Nat), l0.Perm (((a.alloc.filter p)).map (·.cpu)) → FromInfos a.alloc l0 := by
    intro p l0 h0
    refine ⟨h0.nodup_iff.mpr ((List.filter_sublist.map _).nodup hnd), fun x hx => ?_⟩
    exact (List.filter_sublist.map _).subset (h0.mem_iff.mp hx)
  have hsub : ∀ {l0 l1 : List Nat}, l1.Sublist l0 → FromInfos a.alloc l0 → FromInfos a.alloc l1 :=
    fun hs h0 => ⟨hs.nodup h0.1, fun x hx => h0.2 x (hs.subset hx)⟩
  have h1 := hbase _ _ (by rw [List.filter_filter]; exact sortAsc_perm _ :
    (sortAsc (((a.alloc.filter (fun i => !(fe && (exclPCPU ctx a i || (byNode && exclNUMA ctx a i))))).filter
      (fun i => (if byNode then i.node else i.socket) == grp)).map (·.cpu))).Perm _)
  have h2 : FromInfos a.alloc (if ctx.maxRef > 1 then sortByRef a (sortAsc (((a.alloc.filter (fun i => !(fe && (exclPCPU ctx a i || (byNode && exclNUMA ctx a i))))).filter
      (fun i => (if byNode then i.node else i.socket) == grp)).map (·.cpu))) else sortAsc (((a.alloc.filter (fun i => !(fe && (exclPCPU ctx a i || (byNode && exclNUMA ctx a i))))).filter
      (fun i => (if byNode then i.node else i.socket) == grp)).map (·.cpu))) := by
    split
    · exact ⟨(sortByRef_perm a _).nodup_iff.mpr h1.1, fun x hx => h1.2 x ((sortByRef_perm a _).mem_iff.mp hx)⟩
    · exact h1
  split
  · exact hsub (extractCPU_sublist ctx _) h2
  · exact h2

theorem coreFlatSorted_from {cpus : List CpuI} (hnd : (cpus.map (·.cpu)).Nodup) (g : Nat → List Nat)
    (cores : List Nat) (hc : cores.Nodup) (lt : Nat → Nat → Bool)
    (hg : ∀ c, (g c).Perm ((cpus.filter (·.core == c)).map (·.cpu))) :
    FromInfos cpus ((isortLt lt cores).flatMap g) := by
  have := coreFlat_ok hnd g hg _ ((isortLt_perm lt cores).nodup_iff.mpr hc)
  refine ⟨this.1, fun x hx => ?_⟩
  obtain ⟨c, _, hcx⟩ := this.2 x hx
  exact onCore_mem hcx

/-- `freeCPUs`: a duplicate-free list of allocatable CPUs. -/
theorem freeCPUsAll_ok (ctx : PickCtx) (a : Acc) (hnd : (a.alloc.map (·.cpu)).Nodup) (fe : Bool) :
    FromInfos a.alloc (freeCPUsAll ctx a fe) := by
  unfold freeCPUsAll
  simp only []
  have hnd' : ((a.alloc.filter (fun i => !(fe && (exclPCPU ctx a i || exclNUMA ctx a i)))).map (·.cpu)).Nodup :=
    (List.filter_sublist.map _).nodup hnd
  refine FromInfos.mono (cpus := a.alloc.filter (fun i => !(fe && (exclPCPU ctx a i || exclNUMA ctx a i))))
    (fun i hi => (List.mem_filter.mp hi).1) ?_
  refine coreFlatSorted_from hnd' _ _ (dedupNat_nodup _) _ (fun c => ?_)
  split
  · exact (sortByRef_perm a _).trans (sortAsc_perm _)
  · exact sortAsc_perm _

/-! ### the exclusive-policy filter of the first pass (`filterExclusive = true`) -/

theorem freeCPUsAll_from_filtered (ctx : PickCtx) (a : Acc) (hnd : (a.alloc.map (·.cpu)).Nodup) (fe : Bool) :
    FromInfos (a.alloc.filter (fun i => !(fe && (exclPCPU ctx a i || exclNUMA ctx a i)))) (freeCPUsAll ctx a fe) := by
  unfold freeCPUsAll
  simp only []
  have hnd' : ((a.alloc.filter (fun i => !(fe && (exclPCPU ctx a i || exclNUMA ctx a i)))).map (·.cpu)).Nodup :=
    (List.filter_sublist.map _).nodup hnd
  refine coreFlatSorted_from hnd' _ _ (dedupNat_nodup _) _ (fun c => ?_)
  split
  · exact (sortByRef_perm a _).trans (sortAsc_perm _)
  · exact sortAsc_perm _

/-- `freeCPUs(filterExclusive = true)` offers no CPU on a core held by a PCPULevel-exclusive pod (when the pod itself
    asks PCPULevel) and no CPU of a NUMA node held by a NUMANodeLevel-exclusive pod (when it asks NUMANodeLevel). -/
theorem freeCPUsAll_excl_sound (ctx : PickCtx) (a : Acc) (hnd : (a.alloc.map (·.cpu)).Nodup) :
    ∀ x ∈ freeCPUsAll ctx a true, ∃ i ∈ a.alloc, i.cpu = x ∧ exclPCPU ctx a i = false ∧ exclNUMA ctx a i = false := by
  intro x hx
  obtain ⟨i, hi, hix⟩ := List.mem_map.mp ((freeCPUsAll_from_filtered ctx a hnd true).2 x hx)
  obtain ⟨hia, hcond⟩ := List.mem_filter.mp hi
  refine ⟨i, hia, hix, ?_, ?_⟩
  · cases h : exclPCPU ctx a i <;> simp [h] at hcond ⊢
  · cases h : exclNUMA ctx a i <;> simp [h] at hcond ⊢

theorem mem_group_list (ctx : PickCtx) (a : Acc) (p q : CpuI → Bool) (fe : Bool) {x : Nat}
    (hx : x ∈ (let l := sortAsc (((a.alloc.filter p).filter q).map (·.cpu))
               let l := if ctx.maxRef > 1 then sortByRef a l else l
               if fe then extractCPU ctx l else l)) :
    ∃ i ∈ a.alloc, i.cpu = x ∧ p i = true ∧ q i = true := by
  simp only [] at hx
  have hx1 : x ∈ (if ctx.maxRef > 1 then sortByRef a (sortAsc (((a.alloc.filter p).filter q).map (·.cpu)))
      else sortAsc (((a.alloc.filter p).filter q).map (·.cpu))) := by
    split at hx
    · exact (extractCPU_sublist ctx _).subset hx
    · exact hx
  have hx2 : x ∈ ((a.alloc.filter p).filter q).map (·.cpu) := by
    split at hx1
    · exact (sortAsc_perm _).mem_iff.mp ((sortByRef_perm a _).mem_iff.mp hx1)
    · exact (sortAsc_perm _).mem_iff.mp hx1
  obtain ⟨i, hi, hix⟩ := List.mem_map.mp hx2
  obtain ⟨hi1, hq⟩ := List.mem_filter.mp hi
  obtain ⟨hia, hp⟩ := List.mem_filter.mp hi1
  exact ⟨i, hia, hix, hp, hq⟩

/-- the same for the per-node / per-socket free-CPU lists of the first pass. -/
theorem freeCPUsIn_excl_sound (ctx : PickCtx) (a : Acc) (byNode : Bool) :
    ∀ l ∈ freeCPUsIn ctx a byNode true, ∀ x ∈ l,
      ∃ i ∈ a.alloc, i.cpu = x ∧ exclPCPU ctx a i = false ∧ (byNode = true → exclNUMA ctx a i = false) := by
  intro l hl x hx
  unfold freeCPUsIn at hl
  simp only [] at hl
  obtain ⟨grp, _, rfl⟩ := List.mem_map.mp hl
  obtain ⟨i, hia, hix, hcond, _⟩ := mem_group_list ctx a _ _ true hx
  refine ⟨i, hia, hix, ?_, ?_⟩
  · cases h : exclPCPU ctx a i <;> simp [h] at hcond ⊢
  · intro hb
    cases h : exclNUMA ctx a i <;> simp [h, hb] at hcond ⊢

end KoordVerif.C06
