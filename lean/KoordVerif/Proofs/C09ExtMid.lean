import KoordVerif.Model.C09Plugin
import KoordVerif.Props.C09
/-
C09 extension — mid plugin glue (midresource Plugin.Calculate / getUnallocated / degrade / Prepare).
-/
namespace KoordVerif.C09

/-- percentages are non-negative after defaulting when the set ones and the defaults are. -/
def MidPctOK (df : MidDefaults) (ms : MidStrategy) : Prop :=
  0 ≤ ms.thr df .cpu ∧ 0 ≤ ms.thr df .mem ∧ 0 ≤ ms.res df .cpu ∧ 0 ≤ ms.res df .mem ∧ 0 ≤ ms.una df

theorem MidPctOK.thr_nonneg {df : MidDefaults} {ms : MidStrategy} (h : MidPctOK df ms) (d : Dim) : 0 ≤ ms.thr df d := by
  cases d
  · exact h.1
  · exact h.2.1

theorem MidPctOK.res_nonneg {df : MidDefaults} {ms : MidStrategy} (h : MidPctOK df ms) (d : Dim) : 0 ≤ ms.res df d := by
  cases d
  · exact h.2.2.1
  · exact h.2.2.2.1

/-- the defaults apply exactly to the nil pointers (getPercentFromStrategy). -/
theorem mid_defaulting (df : MidDefaults) (ms : MidStrategy) :
    (ms.cpuThr = none → ms.thr df .cpu = df.cpuThr) ∧ (∀ v, ms.cpuThr = some v → ms.thr df .cpu = v) ∧
    (ms.memThr = none → ms.thr df .mem = df.memThr) ∧ (∀ v, ms.memThr = some v → ms.thr df .mem = v) ∧
    (ms.unalloc = none → ms.una df = df.unalloc) ∧ (∀ v, ms.unalloc = some v → ms.una df = v) := by
  refine ⟨?_, ?_, ?_, ?_, ?_, ?_⟩ <;> intros <;> simp_all [MidStrategy.thr, MidStrategy.una]

theorem midUnallocated_nonneg (k : PrioConsts) (n : NodeIn) (hs : List HostApp) (pods : List PodIn) (d : Dim) :
    0 ≤ midUnallocated k n hs pods d := by
  unfold midUnallocated; omega

/-- Unallocated[Mid] never exceeds capacity − max(reservation, system usage + prod host apps) − Σ prod requests
    (clamped at 0): the documented `max(NodeCapacity − NodeReserved − Allocated[Prod], 0)`. -/
theorem midUnallocated_eq (k : PrioConsts) (n : NodeIn) (hs : List HostApp) (pods : List PodIn) (d : Dim) :
    midUnallocated k n hs pods d =
      max (n.cap d - max (max (kubeletReserved n d) (n.anno d)) (n.sys d + hostHPUsed k .mid hs d) - midProdAllocated pods d) 0 := by
  unfold midUnallocated midReserved nodeReserved; rfl

/-- published mid amount ≥ 0 -/
theorem mid_amount_nonneg (F : FloatOps) (hF : FloatOK F) (k : PrioConsts) (df : MidDefaults) (ms : MidStrategy) (n : NodeIn)
    (hs : List HostApp) (pods : List PodIn) (mm : MidMetric) (d : Dim) (hcap : 0 ≤ n.cap d) (hp : MidPctOK df ms) :
    0 ≤ midAmount F k df ms n hs pods mm d := by
  unfold midAmount
  split
  · exact (mid_static_bounds F hF _ _ _ hcap (hp.res_nonneg d) (hp.thr_nonneg d)).1
  · exact (mid_policy_bounds F hF _ _ _ _ _ _ hcap (midUnallocated_nonneg k n hs pods d) hp.2.2.2.2 (hp.thr_nonneg d)).1

/-- published mid amount ≤ capacity · MidThresholdPercent (both modes) -/
theorem mid_amount_le_threshold (F : FloatOps) (hF : FloatOK F) (k : PrioConsts) (df : MidDefaults) (ms : MidStrategy) (n : NodeIn)
    (hs : List HostApp) (pods : List PodIn) (mm : MidMetric) (d : Dim) (hcap : 0 ≤ n.cap d) (hp : MidPctOK df ms) :
    midAmount F k df ms n hs pods mm d ≤ F.mulPct (n.cap d) (ms.thr df d) := by
  unfold midAmount
  split
  · exact (mid_static_bounds F hF _ _ _ hcap (hp.res_nonneg d) (hp.thr_nonneg d)).2
  · exact (mid_policy_bounds F hF _ _ _ _ _ _ hcap (midUnallocated_nonneg k n hs pods d) hp.2.2.2.2 (hp.thr_nonneg d)).2

/-- and hence ≤ capacity for a threshold ≤ 100 % (what IsColocationStrategyValid enforces). -/
theorem mid_amount_le_capacity (F : FloatOps) (hF : FloatOK F) (k : PrioConsts) (df : MidDefaults) (ms : MidStrategy) (n : NodeIn)
    (hs : List HostApp) (pods : List PodIn) (mm : MidMetric) (d : Dim) (hcap : 0 ≤ n.cap d) (hp : MidPctOK df ms)
    (h100 : ms.thr df d ≤ 100) : midAmount F k df ms n hs pods mm d ≤ n.cap d :=
  Int.le_trans (mid_amount_le_threshold F hF k df ms n hs pods mm d hcap hp) (hF.mul_le _ _ hcap (hp.thr_nonneg d) h100)

theorem midByPolicy_le_sum (F : FloatOps) (cap unallocated nodeUnused reclaimable unallocPct thrPct : Int) :
    midByPolicy F cap unallocated nodeUnused reclaimable unallocPct thrPct ≤
      max (min reclaimable nodeUnused) 0 + F.mulPct unallocated unallocPct := by
  unfold midByPolicy; simp only
  split <;> split <;> split <;> omega

/-- policy mode: ≤ max(min(prodReclaimable, capacity − nodeUsage), 0) + Unallocated[Mid] · MidUnallocatedPercent -/
theorem mid_amount_policy_le (F : FloatOps) (k : PrioConsts) (df : MidDefaults) (ms : MidStrategy) (n : NodeIn)
    (hs : List HostApp) (pods : List PodIn) (mm : MidMetric) (d : Dim) (hmode : ms.static = false) :
    midAmount F k df ms n hs pods mm d ≤
      max (min (midReclaimable mm d) (midNodeUnused n mm d)) 0 + F.mulPct (midUnallocated k n hs pods d) (ms.una df) := by
  unfold midAmount; simp only [hmode]
  exact midByPolicy_le_sum F _ _ _ _ _ _

/-- policy mode without a valid node usage or without a prod-reclaimable metric: only the unallocated share is published. -/
theorem mid_amount_policy_no_metric (F : FloatOps) (k : PrioConsts) (df : MidDefaults) (ms : MidStrategy) (n : NodeIn)
    (hs : List HostApp) (pods : List PodIn) (mm : MidMetric) (d : Dim) (hmode : ms.static = false)
    (h : mm.usageValid = false ∨ mm.hasReclaim = false) :
    midAmount F k df ms n hs pods mm d ≤ F.mulPct (midUnallocated k n hs pods d) (ms.una df) := by
  have h1 := mid_amount_policy_le F k df ms n hs pods mm d hmode
  have h2 : max (min (midReclaimable mm d) (midNodeUnused n mm d)) 0 = 0 := by
    rcases h with h | h
    · simp [midNodeUnused, h]; omega
    · simp [midReclaimable, h]; omega
  omega

theorem midStatic_le_reserve (F : FloatOps) (cap reservedPct thrPct : Int) :
    midStatic F cap reservedPct thrPct ≤ F.mulPct cap reservedPct := by
  unfold midStatic; simp only; split <;> omega

/-- static mode: ≤ capacity · MidStaticReservedPercent -/
theorem mid_amount_static_le (F : FloatOps) (k : PrioConsts) (df : MidDefaults) (ms : MidStrategy) (n : NodeIn)
    (hs : List HostApp) (pods : List PodIn) (mm : MidMetric) (d : Dim) (hmode : ms.static = true) :
    midAmount F k df ms n hs pods mm d ≤ F.mulPct (n.cap d) (ms.res df d) := by
  unfold midAmount; simp only [hmode]
  exact midStatic_le_reserve F _ _ _

/-- raising a prod pod's request, the reservation or the system usage never raises Unallocated[Mid]. -/
theorem midUnallocated_antitone (k : PrioConsts) (n n' : NodeIn) (hs : List HostApp) (pods pods' : List PodIn) (d : Dim)
    (hcap : n'.cap d = n.cap d) (halloc : n'.alloc d ≤ n.alloc d) (hanno : n.anno d ≤ n'.anno d) (hsys : n.sys d ≤ n'.sys d)
    (hp : midProdAllocated pods d ≤ midProdAllocated pods' d) :
    midUnallocated k n' hs pods' d ≤ midUnallocated k n hs pods d := by
  unfold midUnallocated midReserved nodeReserved kubeletReserved
  rw [hcap]; omega

/-- stale or missing NodeMetric ⇒ both mid items are Reset (and Prepare removes them from the node). -/
theorem mid_degrade_resets (F : FloatOps) (k : PrioConsts) (df : MidDefaults) (ms : MidStrategy) (degradeMin : Int) (n : NodeIn)
    (hs : List HostApp) (pods : List PodIn) (mm : MidMetric) (hasUpd : Bool) (now upd : Int)
    (h : hasUpd = false ∨ now > upd + degradeMin * 60) :
    midCalculate F k df ms degradeMin n false hs pods mm hasUpd now upd = .degraded ∧
    midPrepare (midCalculate F k df ms degradeMin n false hs pods mm hasUpd now upd) = (none, none) := by
  have hd : isDegradeNeeded hasUpd now upd degradeMin = true := by
    unfold isDegradeNeeded
    rcases h with h | h <;> simp [h]
  simp [midCalculate, hd, midPrepare]

/-- whatever the outcome, a stale metric leaves no mid amount on the node (also when Calculate refuses the node). -/
theorem mid_stale_withdrawn (F : FloatOps) (k : PrioConsts) (df : MidDefaults) (ms : MidStrategy) (degradeMin : Int) (n : NodeIn)
    (allocNil : Bool) (hs : List HostApp) (pods : List PodIn) (mm : MidMetric) (hasUpd : Bool) (now upd : Int)
    (h : hasUpd = false ∨ now > upd + degradeMin * 60) :
    midPrepare (midCalculate F k df ms degradeMin n allocNil hs pods mm hasUpd now upd) = (none, none) := by
  cases allocNil
  · exact (mid_degrade_resets F k df ms degradeMin n hs pods mm hasUpd now upd h).2
  · simp [midCalculate, midPrepare]

/-- fresh metrics on a well-formed node: Prepare publishes exactly the calculated amounts. -/
theorem mid_fresh_published (F : FloatOps) (k : PrioConsts) (df : MidDefaults) (ms : MidStrategy) (degradeMin : Int) (n : NodeIn)
    (hs : List HostApp) (pods : List PodIn) (mm : MidMetric) (now upd : Int) (h : now ≤ upd + degradeMin * 60) :
    midPrepare (midCalculate F k df ms degradeMin n false hs pods mm true now upd) =
      (some (midAmount F k df ms n hs pods mm .cpu), some (midAmount F k df ms n hs pods mm .mem)) := by
  have hd : isDegradeNeeded true now upd degradeMin = false := by
    unfold isDegradeNeeded
    have : ¬ (now > upd + degradeMin * 60) := by omega
    simp [this]
  simp [midCalculate, hd, midPrepare]

/-- non-vacuity: a 100-core node, 20 reserved by the kubelet, a prod pod requesting 30, system usage 10,
    prod-reclaimable 25 with 40 unused, 50 % of the unallocated: min(25,40) + (100−20−30)·50 % = 50, capped by 45 %. -/
def exMidNode : NodeIn := { capC := 100, capM := 100, allocC := 80, allocM := 100, annoC := 0, annoM := 0, sysC := 10, sysM := 0 }
def exMidStrategy : MidStrategy := { static := false, cpuThr := some 45, memThr := none, cpuRes := none, memRes := none, unalloc := some 50 }
def exMidPods : List PodIn := [{ key := 1, active := true, prio := .prod, qos := .ls, reqC := 30, reqM := 0, numa := [] },
                               { key := 2, active := true, prio := .mid, qos := .ls, reqC := 50, reqM := 0, numa := [] }]
def exMidMetric : MidMetric := { hasReclaim := true, recC := 25, recM := 0, usageValid := true, useC := 60, useM := 0 }

example : midUnallocated stdPrio exMidNode [] exMidPods .cpu = 50 := by decide
example : midAmount exactOps stdPrio stdMidDefaults exMidStrategy exMidNode [] exMidPods exMidMetric .cpu = 45 := by decide
example : midAmount exactOps stdPrio stdMidDefaults { exMidStrategy with cpuThr := none } exMidNode [] exMidPods exMidMetric .cpu = 50 := by decide
example : MidPctOK stdMidDefaults exMidStrategy := by unfold MidPctOK; decide

end KoordVerif.C09
