import KoordVerif.Proofs.C19ExtQuota4
/-
C19 (elasticquota part), helper lemmas 5: OnPodUpdate keeps the live invariant.
-/
namespace KoordVerif.C19.Quota

theorem view_refreshE (s : St) (q : Nat) (p : PodObj) :
    view (refreshE s q p) = (view s).map (fun v => if v.1 == q && v.2.1 == p.id then (v.1, v.2.1, p) else v) := by
  simp only [view, refreshE, List.map_map]
  congr 1; funext e; simp only [Function.comp]; split <;> rfl

theorem reqD_usedD_comm (s : St) (q q' : Nat) (d d' : Int) :
    reqD (usedD s q d) q' d' = usedD (reqD s q' d') q d := by
  unfold reqD usedD; split <;> split <;> rfl

/-- old and new resolve to different quotas: OnPodUpdate is OnPodDelete followed by OnPodAdd -/
theorem mgrPodUpdate_diff_eq (s : St) (nq oq : Nat) (n o : PodObj) (hne : oq ≠ nq)
    (hk : s.known.contains oq = true) (hh : hasE s oq o.id = true)
    {c : PodObj} (hc : cachedObj s oq o.id = some c) (hcid : c.id = o.id) (hcr : c.req = o.req) :
    mgrPodUpdate s nq oq n o = mgrPodAdd (mgrPodDelete s oq o) nq n := by
  have hk' : oq ∈ s.known := by simpa using hk
  have e1 : mgrPodDelete s oq o =
      delE (reqD (if isAssigned s oq o.id then usedD s oq (-o.req) else s) oq (-o.req)) oq o.id := by
    unfold mgrPodDelete
    simp only [hk, hh, Bool.not_true, Bool.or_false, Bool.false_eq_true, if_false, isAssigned_reqD, hc,
      Option.getD_some, hcid, hcr]
    split
    · rw [reqD_usedD_comm]
    · rfl
  rw [e1]
  unfold mgrPodUpdate mgrPodAdd
  simp only [hne, if_false, hk, hh, Bool.and_self, if_true]
  generalize delE (reqD (if isAssigned s oq o.id = true then usedD s oq (-o.req) else s) oq (-o.req)) oq o.id = s1
  by_cases h1 : s1.known.contains nq = true <;> by_cases h2 : hasE s1 nq n.id = true <;> simp [h1, h2]

theorem mgrPodUpdate_same_eff (s : St) (q : Nat) (n o : PodObj) (hid : n.id = o.id)
    (hk : s.known.contains q = true) (hh : hasE s q o.id = true)
    (hr : 0 ≤ getC s.req q + (n.req - o.req))
    (hu1 : isAssigned s q o.id = true → 0 ≤ getC s.used q + (n.req - o.req))
    (hu2 : 0 ≤ getC s.used q + n.req) :
    view (mgrPodUpdate s q q n o) =
      (view s).map (fun v => if v.1 == q && v.2.1 == n.id then (v.1, v.2.1, n) else v) ∧
    (∀ q' pid, hasE (mgrPodUpdate s q q n o) q' pid = hasE s q' pid) ∧
    (∀ q' pid, isAssigned (mgrPodUpdate s q q n o) q' pid =
      if q' = q ∧ pid = o.id then (isAssigned s q o.id || bound n) else isAssigned s q' pid) ∧
    (∀ q', getC (mgrPodUpdate s q q n o).req q' = getC s.req q' + if q' = q then n.req - o.req else 0) ∧
    (∀ q', getC (mgrPodUpdate s q q n o).used q' = getC s.used q' +
      if q' = q then (if isAssigned s q o.id = true then n.req - o.req else if bound n = true then n.req else 0)
      else 0) ∧
    (mgrPodUpdate s q q n o).known = s.known ∧ (mgrPodUpdate s q q n o).store = s.store := by
  have hk' : q ∈ s.known := by simpa using hk
  cases ha : isAssigned s q o.id
  · cases hb : bound n
    · have e : mgrPodUpdate s q q n o = refreshE (reqD s q (n.req - o.req)) q n := by
        unfold mgrPodUpdate; simp [hk', hid, hh, ha, hb]
      rw [e]
      refine ⟨by simp [view_refreshE], fun q' pid => by simp [hasE_refreshE], fun q' pid => ?_,
        fun q' => by rw [refreshE_req]; exact reqD_req _ _ _ _ hr, fun q' => by simp, by simp, by simp⟩
      rw [isAssigned_refreshE, isAssigned_reqD]
      split
      · rename_i hc; rw [hc.1, hc.2, ha]; rfl
      · rfl
    · have e : mgrPodUpdate s q q n o =
          refreshE (usedD (setAsg (reqD s q (n.req - o.req)) q o.id true) q n.req) q n := by
        unfold mgrPodUpdate; simp [hk', hid, hh, ha, hb]
      rw [e]
      refine ⟨by simp [view_refreshE], fun q' pid => by simp [hasE_refreshE, hasE_setAsg], fun q' pid => ?_,
        fun q' => ?_, fun q' => ?_, by simp, by simp⟩
      · simp only [isAssigned_refreshE, isAssigned_usedD, isAssigned_setAsg, isAssigned_reqD, hasE_reqD, hh]
        split <;> simp
      · simp only [refreshE_req, usedD_req, setAsg_req]; exact reqD_req _ _ _ _ hr
      · rw [refreshE_used, usedD_used _ _ _ _ (by simpa using hu2)]; simp
  · have hu1 := hu1 ha
    have e : mgrPodUpdate s q q n o = refreshE (usedD (reqD s q (n.req - o.req)) q (n.req - o.req)) q n := by
      unfold mgrPodUpdate; simp [hk', hid, hh, ha]
    rw [e]
    refine ⟨by simp [view_refreshE], fun q' pid => by simp [hasE_refreshE], fun q' pid => ?_, fun q' => ?_,
      fun q' => ?_, by simp, by simp⟩
    · rw [isAssigned_refreshE, isAssigned_usedD, isAssigned_reqD]
      split
      · rename_i hc; rw [hc.1, hc.2, ha]; rfl
      · rfl
    · simp only [refreshE_req, usedD_req]; exact reqD_req _ _ _ _ hr
    · rw [refreshE_used, usedD_used _ _ _ _ (by simpa using hu1)]; simp

theorem onPodDelete_eq {s : St} {w : World} (h : LiveInv s w) {p : PodObj}
    (hh : hasE s (resolve s p) p.id = true) : onPodDelete s p = mgrPodDelete s (resolve s p) p := by
  unfold onPodDelete
  simp only []
  split
  · rename_i hne
    apply mgrPodDelete_noop
    cases hx : hasE (mgrPodDelete s (resolve s p) p) dflt p.id
    · rfl
    · exact absurd (one_loc h.vnd (hasE_mgrPodDelete_le _ _ _ _ _ hx) hh).symm hne
  · rfl

theorem pupd_bool (on ot nn nt c : Bool) (h1 : on = false ∨ nn = true) (h2 : ot = false ∨ nt = true)
    (h3 : (nt = false ∨ ot = true) ∨ ((on && !ot) || c) = false) (h4 : c = true → ot = false) :
    (((on && !ot) || c) || (nn && !nt)) = ((nn && !nt) || (if nn = true then false else c)) ∧
    (c = true → nt = false) := by
  revert h1 h2 h3 h4
  cases on <;> cases ot <;> cases nn <;> cases nt <;> cases c <;> simp

theorem step_pupd_ok (o n : PodObj) : LiveStepOK (.pupd o n) := by
  intro s w h ho
  simp only [okStep, Bool.and_eq_true, beq_iff_eq, decide_eq_true_eq] at ho
  obtain ⟨⟨⟨hf, hid⟩, hn0⟩, hrest⟩ := ho
  by_cases hrv : o.rv = n.rv
  · have e1 : step s (.pupd o n) = s := by simp [step, onPodUpdate, hrv]
    have e2 : w.apply (.pupd o n) = w := by simp [World.apply, hrv]
    rw [e1, e2]; exact h
  simp only [hrv, if_false, Bool.and_eq_true, Bool.or_eq_true, beq_iff_eq, atHome, Bool.not_eq_eq_eq_not,
    Bool.not_true, Bool.and_eq_false_imp] at hrest
  obtain ⟨⟨⟨⟨hh, hnode⟩, hterm⟩, hta⟩, hres⟩ := hrest
  obtain ⟨hp, _⟩ := find_some hf
  have hk := resolve_known s o h.k1
  have hE : ∀ q, hasE s q o.id = (q == resolve s o) := by
    intro q
    rw [Bool.eq_iff_iff, beq_iff_eq]
    exact ⟨fun hq => one_loc h.vnd hq hh, fun hq => hq ▸ hh⟩
  have hmem : ∀ x, x ∈ w.drop o.id ↔ (x ∈ w.alive ∧ x.id ≠ o.id) := by
    intro x; simp [World.drop, List.mem_filter]
  have e1 : step s (.pupd o n) = mgrPodUpdate s (resolve s n) (resolve s o) n o := by
    simp [step, onPodUpdate, hrv]
  have e2 : w.apply (.pupd o n) =
      { alive := n :: w.drop o.id, resvd := if n.node then w.resvd.filter (· != o.id) else w.resvd } := by
    simp [World.apply, hrv, hid]
  rw [e1, e2]
  by_cases hqq : resolve s o = resolve s n
  · -- same quota
    rw [← hqq]
    have hr : 0 ≤ getC s.req (resolve s o) + (n.req - o.req) := by
      rw [h.req]; have := sumBy_ge_point hp (fun x => hasE s (resolve s o) x.id) hh h.nn; omega
    have hu1 : isAssigned s (resolve s o) o.id = true → 0 ≤ getC s.used (resolve s o) + (n.req - o.req) := by
      intro ha
      rw [h.used]; have := sumBy_ge_point hp (fun x => isAssigned s (resolve s o) x.id) ha h.nn; omega
    have hu2 : 0 ≤ getC s.used (resolve s o) + n.req := by
      rw [h.used]; have := sumBy_nonneg (fun x => isAssigned s (resolve s o) x.id) h.nn; omega
    obtain ⟨ev, eh, ea, er, eu, ek, es⟩ := mgrPodUpdate_same_eff s (resolve s o) n o hid hk hh hr hu1 hu2
    have hrs : ∀ x, resolve (mgrPodUpdate s (resolve s o) (resolve s o) n o) x = resolve s x :=
      fun x => resolve_congr ek es x
    generalize hB : (bound o || w.resvd.contains o.id) = B at *
    have hA : ∀ q', isAssigned s q' o.id = ((q' == resolve s o) && B) := by
      intro q'; rw [h.asg o hp q', hE, hB]
    have hAq : isAssigned s (resolve s o) o.id = B := by rw [hA]; simp
    rw [hAq] at ea eu hta
    have hot : w.resvd.contains o.id = true → o.term = false := by
      intro hc
      obtain ⟨o', ho', a, b⟩ := h.rnt _ hc
      have : o' = o := h.nd.eq_of_id ho' hp a
      subst this; exact b
    have hbool := pupd_bool o.node o.term n.node n.term (w.resvd.contains o.id) hnode hterm
      (by rw [← hB] at hta; exact hta) hot
    have hc' : (if n.node = true then w.resvd.filter (· != o.id) else w.resvd).contains o.id =
        (if n.node = true then false else w.resvd.contains o.id) := by
      split
      · rw [contains_filter_ne]; simp
      · rfl
    have hcx : ∀ x : PodObj, x.id ≠ o.id →
        (if n.node = true then w.resvd.filter (· != o.id) else w.resvd).contains x.id = w.resvd.contains x.id := by
      intro x hx
      split
      · rw [contains_filter_ne]; simp [hx]
      · rfl
    have hBn : (B || bound n) = (bound n || (if n.node = true then w.resvd.filter (· != o.id) else w.resvd).contains o.id) := by
      rw [hc', ← hB]; exact hbool.1
    clear hr hu1 hu2 e1 e2
    generalize hq : resolve s o = q at *
    generalize mgrPodUpdate s q q n o = s' at *
    have hpid : ((fun v : Nat × Nat × PodObj => v.2.1) ∘
        (fun v : Nat × Nat × PodObj => if v.1 == q && v.2.1 == n.id then (v.1, v.2.1, n) else v)) =
        (fun v => v.2.1) := by
      funext v; simp only [Function.comp]; split <;> rfl
    refine ⟨KInv_same h.kinv ek es, by rw [es]; exact h.su, ?_, ?_,
      by rw [ev, List.map_map, hpid]; exact h.vnd, ?_, ?_, ?_, ?_, ?_, ?_⟩
    · exact List.pairwise_cons.2 ⟨fun x hx => by rw [hid]; exact fun hc => ((hmem x).1 hx).2 hc.symm,
        Pairwise_filter_ids h.nd _⟩
    · intro x hx
      rcases List.mem_cons.1 hx with rfl | hx
      · exact hn0
      · exact h.nn x ((hmem x).1 hx).1
    · intro v' hv'
      rw [ev] at hv'
      obtain ⟨v, hv, rfl⟩ := List.mem_map.1 hv'
      by_cases hc : (v.1 == q && v.2.1 == n.id) = true
      · simp only [hc, if_true]
        simp only [Bool.and_eq_true, beq_iff_eq] at hc
        exact ⟨n, List.mem_cons_self, hc.2.symm, hc.2.symm, Or.inl (by rw [hrs, ← hqq]; exact hc.1),
          ⟨rfl, rfl, rfl⟩⟩
      · simp only [hc, if_false, Bool.false_eq_true]
        obtain ⟨o', ho', a1, a2, a3, a4⟩ := h.vobj v hv
        have hi : o'.id ≠ o.id := by
          intro hi
          have h1 : hasE s v.1 o.id = true := (hasE_iff_view _ _ _).2 ⟨v.2.2, by rw [← hi, a1]; exact hv⟩
          rw [hE, beq_iff_eq] at h1
          apply hc
          simp only [Bool.and_eq_true, beq_iff_eq]
          exact ⟨h1, by rw [← a1, hi, hid]⟩
        exact ⟨o', List.mem_cons_of_mem _ ((hmem o').2 ⟨ho', hi⟩), a1, a2, by rw [hrs]; exact a3, a4⟩
    · intro x hx
      rcases List.mem_cons.1 hx with rfl | hx
      · exact ⟨q, by rw [eh, hid]; exact hh⟩
      · obtain ⟨q', hq'⟩ := h.cov x ((hmem x).1 hx).1; exact ⟨q', by rw [eh]; exact hq'⟩
    · intro x hx q'
      show _ = (_ && (bound x || (if n.node = true then w.resvd.filter (· != o.id) else w.resvd).contains x.id))
      rw [ea, eh]
      rcases List.mem_cons.1 hx with rfl | hx
      · rw [hid, hA, hE, ← hBn]
        by_cases hq' : q' = q
        · simp [hq']
        · simp [hq', beq_false_of_ne hq']
      · obtain ⟨hx1, hx2⟩ := (hmem x).1 hx
        rw [if_neg (fun hc => hx2 hc.2), hcx x hx2]; exact h.asg x hx1 q'
    · intro id hc
      have hc : (if n.node = true then w.resvd.filter (· != o.id) else w.resvd).contains id = true := hc
      by_cases hi : id = o.id
      · subst hi
        rw [hc'] at hc
        by_cases hnn : n.node = true
        · simp [hnn] at hc
        · simp only [hnn, if_false, Bool.false_eq_true] at hc
          exact ⟨n, List.mem_cons_self, hid, hbool.2 hc⟩
      · have hc2 : w.resvd.contains id = true := by
          split at hc
          · rw [contains_filter_ne, Bool.and_eq_true] at hc; exact hc.1
          · exact hc
        obtain ⟨o', ho', a, b⟩ := h.rnt id hc2
        exact ⟨o', List.mem_cons_of_mem _ ((hmem o').2 ⟨ho', by rw [a]; exact hi⟩), a, b⟩
    · intro q'
      rw [er, h.req q']
      show _ = sumBy (n :: w.alive.filter (fun x => x.id != o.id)) _
      simp only [sumBy]
      rw [sumBy_filter]
      rw [sumBy_point' h.nd hp (fun x => hasE s q' x.id) (fun x => x.id != o.id && hasE s' q' x.id)
        (fun x _ hne => by
          show hasE s q' x.id = (x.id != o.id && hasE s' q' x.id)
          rw [eh]; simp [hne]) (q' == q) false (hE q') (by simp)]
      simp only [eh, hid, hE]
      by_cases hq' : q' = q <;> simp [hq'] <;> omega
    · intro q'
      rw [eu, h.used q']
      show _ = sumBy (n :: w.alive.filter (fun x => x.id != o.id)) _
      simp only [sumBy]
      rw [sumBy_filter]
      rw [sumBy_point' h.nd hp (fun x => isAssigned s q' x.id) (fun x => x.id != o.id && isAssigned s' q' x.id)
        (fun x _ hne => by
          show isAssigned s q' x.id = (x.id != o.id && isAssigned s' q' x.id)
          rw [ea, if_neg (fun hc => hne hc.2)]; simp [hne]) ((q' == q) && B) false (hA q') (by simp)]
      simp only [ea, hid]
      by_cases hq' : q' = q
      · subst hq'; cases B <;> cases bound n <;> simp <;> omega
      · simp [hq', hA]
  · -- different quotas: delete, then add
    have hcf : w.resvd.contains o.id = false := by
      rcases hres with hc | hc
      · exact hc
      · exact absurd hc.symm hqq
    have hfil : w.resvd.filter (· != o.id) = w.resvd := by
      apply List.filter_eq_self.2
      intro x hx
      have : x ≠ o.id := fun hc => by
        subst hc
        have : w.resvd.contains o.id = true := by simpa using hx
        rw [hcf] at this; cases this
      simp [this]
    have hw : (if n.node = true then w.resvd.filter (· != o.id) else w.resvd) = w.resvd.filter (· != o.id) := by
      split
      · rfl
      · exact hfil.symm
    obtain ⟨c, hc, hcid, hcag⟩ := h.cached hp hh
    rw [hw, mgrPodUpdate_diff_eq s _ _ n o hqq hk hh hc hcid hcag.2.2]
    have h1 : LiveInv (onPodDelete s o) (w.apply (.pdel o)) :=
      step_pdel_ok o s w h (by simp [okStep, hf])
    rw [onPodDelete_eq h hh] at h1
    have h1 : LiveInv (mgrPodDelete s (resolve s o) o)
        { alive := w.drop o.id, resvd := w.resvd.filter (· != o.id) } := h1
    have hfresh : ∀ x ∈ w.drop o.id, x.id ≠ n.id := fun x hx => by rw [hid]; exact ((hmem x).1 hx).2
    have h2 := LiveInv_padd h1 n hfresh hn0
    have hrs : resolve (mgrPodDelete s (resolve s o) o) n = resolve s n :=
      resolve_congr (mgrPodDelete_known _ _ _) (mgrPodDelete_store _ _ _) n
    unfold onPodAdd at h2
    rw [hrs] at h2
    exact h2

end KoordVerif.C19.Quota
