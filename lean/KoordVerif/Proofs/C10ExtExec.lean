import KoordVerif.Model.C10Exec
/-
C10 — helper lemmas about the executor model (`execWrite`, `needUpdate`) and the per-file view of a round
(`writeOne`, `writeCpusets`).  The property theorems built on them are in Props/C10.lean (section 16).
-/
namespace KoordVerif.C10

section Exec
variable {α : Type} [DecidableEq α]

/-- the cache describes the file: what the executor remembers having written is what the file holds.  Holds as long as
    only `updateByCache` (with the Set after a successful write) touches the file; an outside writer breaks it. -/
def CacheOK (x : XFile α) : Prop := ∀ c b, x.cache = some (c, b) → x.content = some c

omit [DecidableEq α] in
theorem cacheOK_of_no_cache (x : XFile α) (h : x.cache = none) : CacheOK x := by
  intro c b hc; rw [h] at hc; cases hc

/-- direct write (`update`): the file gets the value whatever the cache says … -/
theorem execWrite_direct_content (coi : Bool) (x : XFile α) (v c : α) (h : x.content = some c) :
    (execWrite false coi x v).content = some v := by
  simp [execWrite, h]

/-- … and the cache is not touched. -/
theorem execWrite_direct_cache (coi : Bool) (x : XFile α) (v : α) : (execWrite false coi x v).cache = x.cache := by
  unfold execWrite
  simp only [Bool.false_eq_true, if_false]
  split <;> rfl

theorem execWrite_direct_missing (coi : Bool) (x : XFile α) (v : α) (h : x.content = none) : execWrite false coi x v = x := by
  simp [execWrite, h]

/-- an IGNORED write error (file / directory missing) leaves the executor state exactly as it was: nothing is recorded as
    written (shape of the source, `cacheOnIgnored = false`). -/
theorem execWrite_missing_untouched (c : Bool) (x : XFile α) (v : α) (h : x.content = none) : execWrite c false x v = x := by
  unfold execWrite
  cases c <;> simp [h]

/-- cacheable write on an existing file whose cache entry is absent, stale or holds another value: written and remembered. -/
theorem execWrite_cacheable_needed (coi : Bool) (x : XFile α) (v w : α) (h : x.content = some w) (hn : needUpdate x v = true) :
    execWrite true coi x v = { content := some v, cache := some (v, true) } := by
  simp [execWrite, hn, h]

/-- cacheable write that the cache suppresses: the executor state does not change at all. -/
theorem execWrite_cacheable_skipped (coi : Bool) (x : XFile α) (v : α) (hn : needUpdate x v = false) : execWrite true coi x v = x := by
  simp [execWrite, hn]

theorem needUpdate_false_iff (x : XFile α) (v : α) : needUpdate x v = false ↔ x.cache = some (v, true) := by
  unfold needUpdate
  cases hc : x.cache with
  | none => simp
  | some cv =>
    obtain ⟨c, b⟩ := cv
    cases b <;> simp

/-- as long as the cache describes the file, a write — cacheable or not, skipped or not — leaves the target in an existing file. -/
theorem execWrite_cacheOK_content (c coi : Bool) (x : XFile α) (v w : α) (h : x.content = some w) (hc : CacheOK x) :
    (execWrite c coi x v).content = some v := by
  cases c with
  | false => exact execWrite_direct_content coi x v w h
  | true =>
    cases hn : needUpdate x v with
    | true => rw [execWrite_cacheable_needed coi x v w h hn]
    | false =>
      rw [execWrite_cacheable_skipped coi x v hn]
      exact hc v true ((needUpdate_false_iff x v).1 hn)

/-- `updateByCache` with the Set after a successful write keeps the cache truthful. -/
theorem execWrite_cacheable_cacheOK (x : XFile α) (v : α) (hc : CacheOK x) : CacheOK (execWrite true false x v) := by
  cases hn : needUpdate x v with
  | false => rw [execWrite_cacheable_skipped false x v hn]; exact hc
  | true =>
    cases h : x.content with
    | none => rw [execWrite_missing_untouched true x v h]; exact hc
    | some w =>
      rw [execWrite_cacheable_needed false x v w h hn]
      intro c b hcb
      simp only [Option.some.injEq, Prod.mk.injEq] at hcb
      simp [hcb.1]

/-- a direct write keeps `CacheOK` only for a file the executor has no entry for (the quota file under `codeShape`). -/
theorem execWrite_direct_cacheOK (coi : Bool) (x : XFile α) (v : α) (h : x.cache = none) : CacheOK (execWrite false coi x v) :=
  cacheOK_of_no_cache _ (by rw [execWrite_direct_cache, h])

/-- the force-update interval: a stale entry never suppresses a write, whatever an outside writer did to the file. -/
theorem execWrite_stale_rewritten (coi : Bool) (x : XFile α) (v w c : α) (h : x.content = some w) (hs : x.cache = some (c, false)) :
    (execWrite true coi x v).content = some v := by
  have hn : needUpdate x v = true := by simp [needUpdate, hs]
  rw [execWrite_cacheable_needed coi x v w h hn]

omit [DecidableEq α] in
theorem age_stale (x : XFile α) (c : α) (b : Bool) (h : x.cache = some (c, b)) : x.age.cache = some (c, false) := by
  simp [XFile.age, h]

omit [DecidableEq α] in
theorem age_content (x : XFile α) : x.age.content = x.content := rfl

/-- **late file**: a file that is missing when the round tries to write it (ignored error) and appears afterwards with ANY
    content is written by the next round with the same target — provided the executor was not already suppressing that very
    value for the path before (no entry / stale / other value: `needUpdate`). -/
theorem late_file_gets_target (x : XFile α) (v w : α) (hmiss : x.content = none) (hn : needUpdate x v = true) :
    (execWrite true false { execWrite true false x v with content := some w } v).content = some v := by
  rw [execWrite_missing_untouched true x v hmiss]
  have hn' : needUpdate ({ x with content := some w } : XFile α) v = true := by
    simpa [needUpdate] using hn
  rw [execWrite_cacheable_needed false _ v w rfl hn']

end Exec

/-! ### per-file view of writeBECgroupsCPUSet -/

theorem writeOne_level (sh : ExecShape) (val : Nat → Option (List Int)) (x : XF) : (writeOne sh val x).level = x.level := by
  unfold writeOne; split
  · rfl
  · split <;> rfl

theorem writeOne_listed (sh : ExecShape) (val : Nat → Option (List Int)) (x : XF) : (writeOne sh val x).listed = x.listed := by
  unfold writeOne; split
  · rfl
  · split <;> rfl

theorem writeOne_some (sh : ExecShape) (val : Nat → Option (List Int)) (x : XF) (v : List Int) (hl : x.listed = true)
    (hv : val x.level = some v) :
    (writeOne sh val x).f = execWrite sh.cpusetCacheable sh.cacheOnIgnored x.f (canon v) := by
  simp [writeOne, hl, hv]

theorem writeOne_none (sh : ExecShape) (val : Nat → Option (List Int)) (x : XF) (hv : val x.level = none) : writeOne sh val x = x := by
  unfold writeOne; split
  · rfl
  · simp [hv]

/-- a directory that does not exist is not in the walk: nothing is attempted for it. -/
theorem writeOne_unlisted (sh : ExecShape) (val : Nat → Option (List Int)) (x : XF) (hl : x.listed = false) : writeOne sh val x = x := by
  simp [writeOne, hl]

/-- writeBECgroupsCPUSet with the cacheable batch of the source keeps every file's cache truthful. -/
theorem writeOne_cacheOK (sh : ExecShape) (hcb : sh.cpusetCacheable = true) (hci : sh.cacheOnIgnored = false)
    (val : Nat → Option (List Int)) (x : XF) (hc : CacheOK x.f) : CacheOK (writeOne sh val x).f := by
  unfold writeOne; split
  · exact hc
  · split
    · exact hc
    · simp only [hcb, hci]; exact execWrite_cacheable_cacheOK _ _ hc

theorem writeOne_content_some (sh : ExecShape) (val : Nat → Option (List Int)) (x : XF) (h : x.f.content.isSome) :
    (writeOne sh val x).f.content.isSome := by
  unfold writeOne; split
  · exact h
  · split
    · exact h
    · obtain ⟨w, hw⟩ := Option.isSome_iff_exists.1 h
      unfold execWrite
      split
      · split
        · simp [hw]
        · exact h
      · simp [hw]

/-- a listed, existing file whose cache is truthful holds the value of its level after one writeBECgroupsCPUSet call. -/
theorem writeOne_target (sh : ExecShape) (val : Nat → Option (List Int)) (x : XF) (v : List Int) (hl : x.listed = true)
    (hv : val x.level = some v) (h : x.f.content.isSome) (hc : CacheOK x.f) :
    (writeOne sh val x).f.content = some (canon v) := by
  obtain ⟨w, hw⟩ := Option.isSome_iff_exists.1 h
  rw [writeOne_some sh val x v hl hv]
  exact execWrite_cacheOK_content _ _ x.f (canon v) w hw hc

theorem writeCpusets_getElem? (sh : ExecShape) (val : Nat → Option (List Int)) (fs : List XF) (k : Nat) :
    (writeCpusets sh val fs)[k]? = (fs[k]?).map (writeOne sh val) := by
  simp [writeCpusets]

theorem writeCpusets_length (sh : ExecShape) (val : Nat → Option (List Int)) (fs : List XF) :
    (writeCpusets sh val fs).length = fs.length := by
  simp [writeCpusets]

/-- none of the cpuset writes touches the quota file or the agent's recovered flag. -/
theorem recoverCpusetX_quota (sh : ExecShape) (m : Nat) (st : XState) (i : RoundIn) :
    (recoverCpusetX sh m st i).quota = st.quota ∧ (recoverCpusetX sh m st i).quotaRecovered = st.quotaRecovered := by
  unfold recoverCpusetX; split <;> exact ⟨rfl, rfl⟩

theorem adjustCpusetX_quota (f : FloatOps) (sh : ExecShape) (st st' : XState) (i : RoundIn) (h : adjustCpusetX f sh st i = some st') :
    st'.quota = st.quota ∧ st'.quotaRecovered = st.quotaRecovered := by
  unfold adjustCpusetX at h
  split at h
  · cases h; exact ⟨rfl, rfl⟩
  · split at h
    · cases h
    · split at h
      · cases h; exact ⟨rfl, rfl⟩
      · split at h <;> (cases h; exact ⟨rfl, rfl⟩)

/-! ### the invariant of histories without outside writers: every cpuset file's cache entry is truthful -/

def FilesOK (st : XState) : Prop := ∀ x ∈ st.files, CacheOK x.f

theorem writeCpusets_filesOK (sh : ExecShape) (hcb : sh.cpusetCacheable = true) (hci : sh.cacheOnIgnored = false)
    (val : Nat → Option (List Int)) (fs : List XF) (h : ∀ x ∈ fs, CacheOK x.f) : ∀ x ∈ writeCpusets sh val fs, CacheOK x.f := by
  intro x hx
  simp only [writeCpusets, List.mem_map] at hx
  obtain ⟨y, hy, rfl⟩ := hx
  exact writeOne_cacheOK sh hcb hci val y (h y hy)

theorem recoverQuotaX_files (sh : ExecShape) (st : XState) : (recoverQuotaX sh st).files = st.files := by
  unfold recoverQuotaX; split <;> rfl

theorem adjustQuotaX_files (f : FloatOps) (sh : ExecShape) (st : XState) (i : RoundIn) : (adjustQuotaX f sh st i).files = st.files := by
  unfold adjustQuotaX; split
  · rfl
  · split <;> rfl

theorem recoverCpusetX_filesOK (sh : ExecShape) (hcb : sh.cpusetCacheable = true) (hci : sh.cacheOnIgnored = false)
    (m : Nat) (st : XState) (i : RoundIn) (h : FilesOK st) : FilesOK (recoverCpusetX sh m st i) := by
  unfold recoverCpusetX; split
  · exact h
  · exact writeCpusets_filesOK sh hcb hci _ _ h

theorem adjustCpusetX_filesOK (f : FloatOps) (sh : ExecShape) (hcb : sh.cpusetCacheable = true) (hci : sh.cacheOnIgnored = false)
    (st st' : XState) (i : RoundIn) (hst : adjustCpusetX f sh st i = some st') (h : FilesOK st) : FilesOK st' := by
  unfold adjustCpusetX at hst
  split at hst
  · cases hst; exact h
  · split at hst
    · cases hst
    · split at hst
      · cases hst
        exact writeCpusets_filesOK sh hcb hci _ _ (writeCpusets_filesOK sh hcb hci _ _ h)
      · split at hst
        · cases hst; exact h
        · cases hst
          exact writeCpusets_filesOK sh hcb hci _ _ (writeCpusets_filesOK sh hcb hci _ _ h)

/-- **rounds keep the cache truthful**: with the cacheable batch and the Set after a successful write (the source), a round
    — any mode, any policy, files missing or not — never leaves a cache entry that differs from the file.  So in every history
    without outside writers the `CacheOK` hypotheses of the file-level theorems hold, and a skipped write is a write of the
    value the file already has. -/
theorem roundStepX_filesOK (f : FloatOps) (sh : ExecShape) (hcb : sh.cpusetCacheable = true) (hci : sh.cacheOnIgnored = false)
    (st st' : XState) (i : RoundIn) (hst : roundStepX f sh st i = some st') (h : FilesOK st) : FilesOK st' := by
  unfold roundStepX at hst
  split at hst
  · cases hst; exact h
  · split at hst
    · cases hst
      apply recoverCpusetX_filesOK sh hcb hci
      intro x hx; rw [recoverQuotaX_files] at hx; exact h x hx
    · split at hst
      · cases hst; exact h
      · split at hst
        · cases hst
          apply recoverCpusetX_filesOK sh hcb hci
          intro x hx
          simp only [adjustQuotaX_files] at hx
          exact h x hx
        · split at hst
          · cases hst
          · rename_i st1 hst1
            cases hst
            intro x hx; rw [recoverQuotaX_files] at hx
            exact adjustCpusetX_filesOK f sh hcb hci st st1 i hst1 h x hx

/-- the force-update interval passing does not make an entry untruthful. -/
theorem ageAll_filesOK (st : XState) (h : FilesOK st) : FilesOK (ageAll st) := by
  intro x hx
  simp only [ageAll, List.mem_map] at hx
  obtain ⟨y, hy, rfl⟩ := hx
  intro c b hcb
  simp only [XFile.age, Option.map_eq_some_iff] at hcb
  obtain ⟨⟨c', b'⟩, hc', heq⟩ := hcb
  simp only [Prod.mk.injEq] at heq
  obtain ⟨rfl, _⟩ := heq
  exact h y hy c' b' hc'

end KoordVerif.C10
