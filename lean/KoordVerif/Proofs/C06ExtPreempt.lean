import KoordVerif.Model.C06Preempt
/-
C06 extension round 6 — the preemption dry run (preempt.go preemptibleAlloc, Plugin.RemovePod / Plugin.AddPod).

  reprieve_inverse_core      Subtract undoes Accumulate exactly (structurally) for a CPU set disjoint from the state
  dry_inv_step / dry_inv_run the invariant of every well-formed dry run over pods with pairwise disjoint CPU sets:
                             cpusToRemove = ∅ and cpusToAdd = ⋃ { cpus u | u removed and not reprieved }
-/
namespace KoordVerif.C06

theorem mem_csInter (a b : List Nat) (c : Nat) : c ∈ csInter a b ↔ c ∈ a ∧ c ∈ b := by
  simp [csInter]

theorem mem_csDiff (a b : List Nat) (c : Nat) : c ∈ csDiff a b ↔ c ∈ a ∧ c ∉ b := by
  simp [csDiff]

theorem mem_csUnion (a b : List Nat) (c : Nat) : c ∈ csUnion a b ↔ c ∈ a ∨ c ∈ b := by
  simp only [csUnion, List.mem_append, List.mem_filter]
  constructor
  · rintro (h | ⟨h, _⟩)
    · exact Or.inl h
    · exact Or.inr h
  · intro h
    by_cases ha : c ∈ a
    · exact Or.inl ha
    · rcases h with h | h
      · exact Or.inl h
      · exact Or.inr ⟨h, by simp [ha]⟩

theorem mem_preemptible (a : PreAlloc) (c : Nat) : c ∈ a.preemptible ↔ c ∈ a.toAdd ∧ c ∉ a.toRemove := by
  simp [PreAlloc.preemptible, PreAlloc.appendCPUSet, mem_csDiff, mem_csUnion]

theorem csDiff_nil_right (a : List Nat) : csDiff a [] = a := by
  simp [csDiff]

theorem csUnion_nil_right (a : List Nat) : csUnion a [] = a := by
  simp [csUnion]

theorem csInter_eq_nil_of_disjoint (a b : List Nat) (h : ∀ c ∈ b, c ∉ a) : csInter a b = [] := by
  simp only [csInter, List.filter_eq_nil_iff]
  intro c hc hb
  exact h c (by simpa using hb) hc

theorem csUnion_of_disjoint (a b : List Nat) (h : ∀ c ∈ b, c ∉ a) : csUnion a b = a ++ b := by
  simp only [csUnion]
  congr 1
  rw [List.filter_eq_self]
  intro c hc
  simp [h c hc]

theorem csInter_append_self (a b : List Nat) (h : ∀ c ∈ b, c ∉ a) : csInter (a ++ b) b = b := by
  simp only [csInter, List.filter_append]
  have h1 : a.filter (fun c => b.contains c) = [] := by
    rw [List.filter_eq_nil_iff]
    intro c hc hb
    exact h c (by simpa using hb) hc
  have h2 : b.filter (fun c => b.contains c) = b := by
    rw [List.filter_eq_self]
    intro c hc
    simpa using hc
  rw [h1, h2]; rfl

theorem csDiff_append_self (a b : List Nat) (h : ∀ c ∈ b, c ∉ a) : csDiff (a ++ b) b = a := by
  simp only [csDiff, List.filter_append]
  have h1 : a.filter (fun c => !b.contains c) = a := by
    rw [List.filter_eq_self]
    intro c hc
    have : c ∉ b := fun hb => h c hb hc
    simp [this]
  have h2 : b.filter (fun c => !b.contains c) = [] := by
    rw [List.filter_eq_nil_iff]
    intro c hc
    simp [hc]
  rw [h1, h2]; simp

theorem csDiff_self (b : List Nat) : csDiff b b = [] := by
  simp only [csDiff, List.filter_eq_nil_iff]
  intro c hc
  simp [hc]

/-- Subtract after Accumulate of the same CPU set gives back the very state, whenever that set is disjoint from both
    fields (a victim's CPUs are: the sharing limit is one and the victim was on the node). -/
theorem reprieve_inverse_core (a : PreAlloc) (cpus : List Nat)
    (hA : ∀ c ∈ cpus, c ∉ a.toAdd) (hR : ∀ c ∈ cpus, c ∉ a.toRemove) :
    (a.accumulate cpus).subtract cpus = a := by
  cases hc : cpus with
  | nil => simp [PreAlloc.accumulate, PreAlloc.subtract]
  | cons x xs =>
    have hne : cpus.isEmpty = false := by simp [hc]
    have hacc : a.accumulate cpus = { toAdd := a.toAdd ++ cpus, toRemove := a.toRemove } := by
      unfold PreAlloc.accumulate
      rw [if_neg (by simp [hne])]
      by_cases hr : a.toRemove.isEmpty
      · simp [hr, csUnion_of_disjoint a.toAdd cpus hA]
      · simp only [hr]
        simp [csInter_eq_nil_of_disjoint a.toRemove cpus hR, csDiff_nil_right, csUnion_of_disjoint a.toAdd cpus hA]
    rw [← hc, hacc]
    unfold PreAlloc.subtract
    rw [if_neg (by simp [hne])]
    have hne2 : (a.toAdd ++ cpus).isEmpty = false := by simp [hc]
    simp only [hne2]
    simp [csInter_append_self a.toAdd cpus hA, csDiff_append_self a.toAdd cpus hA, csDiff_self, csUnion_nil_right]

/-- the invariant of a well-formed dry run. -/
def DryInv (cpusOf : Nat → List Nat) (a : PreAlloc) (s : List Nat) : Prop :=
  a.toRemove = [] ∧ ∀ c, c ∈ a.toAdd ↔ ∃ u ∈ s, c ∈ cpusOf u

/-- no CPU is recorded for two pods (ledger with sharing limit one: `over_shared` never happens). -/
def CpusDisjoint (cpusOf : Nat → List Nat) : Prop := ∀ u v c, c ∈ cpusOf u → c ∈ cpusOf v → u = v

theorem dry_inv_step (cpusOf : Nat → List Nat) (hd : CpusDisjoint cpusOf) (a : PreAlloc) (s : List Nat) (o : DOp)
    (hinv : DryInv cpusOf a s) (hok : dok s o = true) :
    DryInv cpusOf (dstep cpusOf a o) (dremoved s o) := by
  obtain ⟨hrem, hadd⟩ := hinv
  cases o with
  | rm u =>
    simp only [dstep, dremoved]
    by_cases he : (cpusOf u).isEmpty
    · have hnil : cpusOf u = [] := by simpa using he
      refine ⟨by simp [PreAlloc.accumulate, he, hrem], ?_⟩
      intro c
      simp only [PreAlloc.accumulate, he, if_true, hadd c, List.mem_cons]
      constructor
      · rintro ⟨v, hv, hc⟩; exact ⟨v, Or.inr hv, hc⟩
      · rintro ⟨v, hv | hv, hc⟩
        · subst hv; simp [hnil] at hc
        · exact ⟨v, hv, hc⟩
    · have hacc : a.accumulate (cpusOf u) = { a with toAdd := csUnion a.toAdd (cpusOf u) } := by
        unfold PreAlloc.accumulate
        simp [he, hrem]
      rw [hacc]
      refine ⟨hrem, ?_⟩
      intro c
      simp only [mem_csUnion, hadd c, List.mem_cons]
      constructor
      · rintro (⟨v, hv, hc⟩ | hc)
        · exact ⟨v, Or.inr hv, hc⟩
        · exact ⟨u, Or.inl rfl, hc⟩
      · rintro ⟨v, hv | hv, hc⟩
        · subst hv; exact Or.inr hc
        · exact Or.inl ⟨v, hv, hc⟩
  | ad u =>
    have hu : u ∈ s := by simpa [dok] using hok
    simp only [dstep, dremoved]
    by_cases he : (cpusOf u).isEmpty
    · have hnil : cpusOf u = [] := by simpa using he
      refine ⟨by simp [PreAlloc.subtract, he, hrem], ?_⟩
      intro c
      simp only [PreAlloc.subtract, he, if_true, hadd c, List.mem_filter]
      constructor
      · rintro ⟨v, hv, hc⟩
        refine ⟨v, ⟨hv, ?_⟩, hc⟩
        have : v ≠ u := by intro h; subst h; simp [hnil] at hc
        simpa using this
      · rintro ⟨v, ⟨hv, _⟩, hc⟩; exact ⟨v, hv, hc⟩
    · have hsub : ∀ c ∈ cpusOf u, c ∈ a.toAdd := fun c hc => (hadd c).2 ⟨u, hu, hc⟩
      have hne : a.toAdd.isEmpty = false := by
        cases hcu : cpusOf u with
        | nil => simp [hcu] at he
        | cons x xs =>
          have := hsub x (by simp [hcu])
          cases hta : a.toAdd with
          | nil => simp [hta] at this
          | cons _ _ => rfl
      have hrest : csDiff (cpusOf u) (csInter a.toAdd (cpusOf u)) = [] := by
        simp only [csDiff, List.filter_eq_nil_iff]
        intro c hc
        have : c ∈ csInter a.toAdd (cpusOf u) := (mem_csInter _ _ _).2 ⟨hsub c hc, hc⟩
        simp [this]
      have hs : a.subtract (cpusOf u) =
          { toAdd := csDiff a.toAdd (csInter a.toAdd (cpusOf u)), toRemove := [] } := by
        unfold PreAlloc.subtract
        simp [he, hne, hrest, hrem, csUnion]
      rw [hs]
      refine ⟨rfl, ?_⟩
      intro c
      simp only [mem_csDiff, mem_csInter, hadd c, List.mem_filter]
      constructor
      · rintro ⟨⟨v, hv, hc⟩, hnot⟩
        refine ⟨v, ⟨hv, ?_⟩, hc⟩
        have : v ≠ u := by
          intro h; subst h
          exact hnot ⟨⟨v, hv, hc⟩, hc⟩
        simpa using this
      · rintro ⟨v, ⟨hv, hvu⟩, hc⟩
        refine ⟨⟨v, hv, hc⟩, ?_⟩
        rintro ⟨_, hcu⟩
        have : v = u := hd v u c hc hcu
        simp [this] at hvu

theorem dry_inv_run (cpusOf : Nat → List Nat) (hd : CpusDisjoint cpusOf) :
    ∀ (ops : List DOp) (a : PreAlloc) (s : List Nat) (a' : PreAlloc) (s' : List Nat),
      DryInv cpusOf a s → drun cpusOf a s ops = some (a', s') → DryInv cpusOf a' s' := by
  intro ops
  induction ops with
  | nil =>
    intro a s a' s' hinv h
    simp [drun] at h
    obtain ⟨rfl, rfl⟩ := h
    exact hinv
  | cons o os ih =>
    intro a s a' s' hinv h
    simp only [drun] at h
    by_cases hok : dok s o = true
    · rw [if_pos hok] at h
      exact ih _ _ _ _ (dry_inv_step cpusOf hd a s o hinv hok) h
    · rw [if_neg hok] at h
      cases h

theorem dry_inv_empty (cpusOf : Nat → List Nat) : DryInv cpusOf PreAlloc.empty [] := by
  refine ⟨rfl, ?_⟩
  intro c
  simp [PreAlloc.empty]

/-- the SEEDED shape of Subtract (round-5 miss): the argument is reduced by its overlap with cpusToAdd first, and
    cpusToAdd is then reduced by its overlap with the REDUCED argument - which is empty.  Not the code; kept to state
    what `reprieve_inverse` excludes. -/
def PreAlloc.subtractReordered (a : PreAlloc) (cpus : List Nat) : PreAlloc :=
  if cpus.isEmpty then a
  else if !a.toAdd.isEmpty then
    let cpus' := csDiff cpus (csInter a.toAdd cpus)
    { toAdd := csDiff a.toAdd (csInter a.toAdd cpus'), toRemove := csUnion a.toRemove cpus' }
  else { a with toRemove := csUnion a.toRemove cpus }

end KoordVerif.C06
