import KoordVerif.Model.C02
/-
Helper lemmas for computeHamiltonDeltas (DESIGN.md Appendix A.1).
-/
namespace KoordVerif.C02

/-! ### bump / foldl bump -/

theorem bump_length (ds : List Int) (i : Nat) : (bump ds i).length = ds.length := by
  simp [bump]

theorem bump_sum (ds : List Int) (i : Nat) (h : i < ds.length) : (bump ds i).sum = ds.sum + 1 := by
  induction ds generalizing i with
  | nil => simp at h
  | cons d ds ih =>
    unfold bump at *
    rw [List.modify_cons]
    by_cases hi : i = 0
    · simp [hi]; omega
    · simp only [hi, if_false, List.sum_cons]
      have : i - 1 < ds.length := by simp at h; omega
      rw [ih (i - 1) this]; omega

theorem foldl_bump_length (idxs : List Nat) (ds : List Int) : (idxs.foldl bump ds).length = ds.length := by
  induction idxs generalizing ds with
  | nil => rfl
  | cons i is ih => simp [List.foldl_cons, ih, bump_length]

theorem foldl_bump_sum (idxs : List Nat) (ds : List Int) (h : ∀ i ∈ idxs, i < ds.length) :
    (idxs.foldl bump ds).sum = ds.sum + idxs.length := by
  induction idxs generalizing ds with
  | nil => simp
  | cons i is ih =>
    simp only [List.foldl_cons]
    rw [ih]
    · rw [bump_sum ds i (h i (by simp))]; simp; omega
    · intro j hj; rw [bump_length]; exact h j (by simp [hj])

/-- every delta only grows under bumps. -/
theorem bump_ge (ds : List Int) (i j : Nat) (hj : j < ds.length) :
    ds[j] ≤ (bump ds i)[j]'(by rw [bump_length]; exact hj) := by
  unfold bump
  rw [List.getElem_modify]
  split <;> omega

theorem foldl_bump_ge (idxs : List Nat) (ds : List Int) (j : Nat) (hj : j < ds.length) :
    ds[j] ≤ (idxs.foldl bump ds)[j]'(by rw [foldl_bump_length]; exact hj) := by
  induction idxs generalizing ds with
  | nil => simp
  | cons i is ih =>
    simp only [List.foldl_cons]
    have h1 := bump_ge ds i j hj
    have h2 := ih (bump ds i) (by rw [bump_length]; exact hj)
    omega

/-! ### bases and entries -/

theorem entriesFrom_index (T W : Int) (i : Nat) (ns : List Node) :
    ∀ e ∈ entriesFrom T W i ns, i ≤ e.index ∧ e.index < i + ns.length := by
  induction ns generalizing i with
  | nil => intro e he; simp [entriesFrom] at he
  | cons n ns ih =>
    intro e he
    unfold entriesFrom at he
    by_cases hw : n.weight ≤ 0
    · simp only [hw, if_true] at he
      have := ih (i + 1) e he
      simp; omega
    · simp only [hw, if_false, List.mem_cons] at he
      rcases he with rfl | he
      · simp
      · have := ih (i + 1) e he
        simp; omega

theorem entriesFrom_rem (T W : Int) (hW : 0 < W) (i : Nat) (ns : List Node) :
    ∀ e ∈ entriesFrom T W i ns, 0 ≤ e.rem ∧ e.rem < W := by
  induction ns generalizing i with
  | nil => intro e he; simp [entriesFrom] at he
  | cons n ns ih =>
    intro e he
    unfold entriesFrom at he
    by_cases hw : n.weight ≤ 0
    · simp only [hw, if_true] at he; exact ih (i + 1) e he
    · simp only [hw, if_false, List.mem_cons] at he
      rcases he with rfl | he
      · exact ⟨Int.emod_nonneg _ (by omega), Int.emod_lt_of_pos _ hW⟩
      · exact ih (i + 1) e he

def remSum (es : List Entry) : Int := (es.map (·.rem)).sum

/-- Σ wᵢ·T = W·Σ baseᵢ + Σ remᵢ  (weights non-negative). -/
theorem split_identity (T W : Int) (i : Nat) (ns : List Node) (hw : ∀ n ∈ ns, 0 ≤ n.weight) :
    (ns.map (·.weight)).sum * T = W * (ns.map (baseOf T W)).sum + remSum (entriesFrom T W i ns) := by
  induction ns generalizing i with
  | nil => simp [entriesFrom, remSum]
  | cons n ns ih =>
    have hn := hw n (by simp)
    have ih' := ih (i + 1) (fun m hm => hw m (by simp [hm]))
    unfold entriesFrom
    by_cases h0 : n.weight ≤ 0
    · have hz : n.weight = 0 := by omega
      rw [if_pos h0]
      simp only [List.map_cons, List.sum_cons]
      have hb : baseOf T W n = 0 := by simp [baseOf, h0]
      rw [hb, hz, Int.add_mul, Int.mul_add]
      simp only [Int.zero_mul, Int.mul_zero, Int.zero_add]
      exact ih'
    · rw [if_neg h0]
      simp only [List.map_cons, List.sum_cons, remSum]
      have hb : baseOf T W n = n.weight * T / W := by simp [baseOf, h0]
      rw [hb, Int.add_mul, Int.mul_add]
      have hdm : n.weight * T = W * (n.weight * T / W) + n.weight * T % W := by
        have := Int.mul_ediv_add_emod (n.weight * T) W
        omega
      unfold remSum at ih'
      unfold remOf
      omega

theorem remSum_bounds (W : Int) (es : List Entry) (h : ∀ e ∈ es, 0 ≤ e.rem ∧ e.rem < W) :
    0 ≤ remSum es ∧ (es ≠ [] → remSum es < es.length * W) := by
  induction es with
  | nil => simp [remSum]
  | cons e es ih =>
    have he := h e (by simp)
    have ih' := ih (fun x hx => h x (by simp [hx]))
    unfold remSum at *
    simp only [List.map_cons, List.sum_cons, List.length_cons]
    constructor
    · omega
    · intro _
      by_cases hes : es = []
      · subst hes; simp; omega
      · have := ih'.2 hes
        have : ((es.length + 1 : Nat) : Int) * W = es.length * W + W := by
          rw [Int.natCast_add, Int.add_mul]; simp
        omega

end KoordVerif.C02

namespace KoordVerif.C02

theorem hamilton_length (T W : Int) (ns : List Node) : (hamilton T W ns).length = ns.length := by
  unfold hamilton
  split
  · simp
  · simp only []
    split
    · simp
    · rw [foldl_bump_length]; simp

theorem baseOf_nonneg (T W : Int) (hT : 0 < T) (hW : 0 < W) (n : Node) : 0 ≤ baseOf T W n := by
  unfold baseOf
  split
  · omega
  · apply Int.ediv_nonneg
    · apply Int.mul_nonneg <;> omega
    · omega

theorem hamilton_nonneg (T W : Int) (ns : List Node) : ∀ d ∈ hamilton T W ns, 0 ≤ d := by
  intro d hd
  unfold hamilton at hd
  split at hd
  · simp at hd; omega
  · rename_i hc
    have hT : 0 < T := by omega
    have hW : 0 < W := by omega
    simp only [] at hd
    split at hd
    · obtain ⟨n, _, rfl⟩ := List.mem_map.mp hd
      exact baseOf_nonneg T W hT hW n
    · obtain ⟨j, hj, rfl⟩ := List.mem_iff_getElem.mp hd
      have hj' : j < (ns.map (baseOf T W)).length := by rw [foldl_bump_length] at hj; exact hj
      have := foldl_bump_ge (((entriesFrom T W 0 ns).mergeSort entryLe |>.take (T - (ns.map (baseOf T W)).sum).toNat).map (·.index))
        (ns.map (baseOf T W)) j hj'
      have hb : 0 ≤ (ns.map (baseOf T W))[j] := by simp [baseOf_nonneg T W hT hW]
      omega

theorem entriesFrom_nil_weights (T W : Int) (i : Nat) (ns : List Node) (h : entriesFrom T W i ns = []) :
    ∀ n ∈ ns, n.weight ≤ 0 := by
  induction ns generalizing i with
  | nil => intro n hn; cases hn
  | cons m ms ih =>
    intro n hn
    unfold entriesFrom at h
    by_cases hm : m.weight ≤ 0
    · rw [if_pos hm] at h
      rcases List.mem_cons.mp hn with rfl | hn'
      · exact hm
      · exact ih (i + 1) h n hn'
    · rw [if_neg hm] at h; cases h

theorem sum_zero_of_all_zero (l : List Int) (h : ∀ x ∈ l, x = 0) : l.sum = 0 := by
  induction l with
  | nil => simp
  | cons a l ih =>
    simp only [List.sum_cons]
    rw [h a (by simp), ih (fun x hx => h x (by simp [hx]))]
    simp

/-- residual facts: `0 ≤ T - Σ base` and it is smaller than the number of entries. -/
theorem residual_bounds (T W : Int) (hT : 0 < T) (hW : 0 < W) (ns : List Node)
    (hw : ∀ n ∈ ns, 0 ≤ n.weight) (hsum : (ns.map (·.weight)).sum = W) :
    0 ≤ T - (ns.map (baseOf T W)).sum ∧
    T - (ns.map (baseOf T W)).sum < (entriesFrom T W 0 ns).length := by
  have hid := split_identity T W 0 ns hw
  rw [hsum] at hid
  have hrb := remSum_bounds W (entriesFrom T W 0 ns) (entriesFrom_rem T W hW 0 ns)
  generalize hB : (ns.map (baseOf T W)).sum = B at *
  generalize hR : remSum (entriesFrom T W 0 ns) = R at *
  generalize hk : (entriesFrom T W 0 ns).length = k at *
  -- W * T = W * B + R
  have hR' : R = W * (T - B) := by rw [Int.mul_sub]; omega
  have h1 : 0 ≤ T - B := by
    have : W * 0 ≤ W * (T - B) := by rw [← hR']; simp; exact hrb.1
    exact Int.le_of_mul_le_mul_left this hW
  constructor
  · exact h1
  · by_cases hne : entriesFrom T W 0 ns = []
    · exfalso
      have hall : ∀ n ∈ ns, n.weight = 0 := fun n hn => by
        have := entriesFrom_nil_weights T W 0 ns hne n hn
        have := hw n hn
        omega
      have := sum_zero_of_all_zero (ns.map (·.weight)) (by
        intro x hx
        obtain ⟨n, hn, rfl⟩ := List.mem_map.mp hx
        exact hall n hn)
      omega
    · have h2 := hrb.2 hne
      rw [hR'] at h2
      have : W * (T - B) < W * (k : Int) := by rw [Int.mul_comm W k]; exact h2
      exact Int.lt_of_mul_lt_mul_left this (by omega)

end KoordVerif.C02

namespace KoordVerif.C02

/-- Σ deltas = T: no unit is created or dropped by rounding. -/
theorem hamilton_sum (T W : Int) (hT : 0 < T) (hW : 0 < W) (ns : List Node)
    (hw : ∀ n ∈ ns, 0 ≤ n.weight) (hsum : (ns.map (·.weight)).sum = W) :
    (hamilton T W ns).sum = T := by
  obtain ⟨hr0, hrk⟩ := residual_bounds T W hT hW ns hw hsum
  unfold hamilton
  have hne : ns ≠ [] := by
    intro h; subst h; simp at hsum; omega
  have hc : ¬ (W ≤ 0 ∨ T ≤ 0 ∨ ns = []) := by
    intro h; rcases h with h | h | h
    · omega
    · omega
    · exact hne h
  rw [if_neg hc]
  simp only []
  split
  · rename_i h
    rcases h with h | h
    · omega
    · rw [h] at hrk; simp at hrk; omega
  · rename_i h
    rw [foldl_bump_sum]
    · simp only [List.length_map, List.length_take]
      have hp := (List.mergeSort_perm (entriesFrom T W 0 ns) entryLe).length_eq
      rw [hp]
      have : (T - (ns.map (baseOf T W)).sum).toNat ≤ (entriesFrom T W 0 ns).length := by omega
      rw [Nat.min_eq_left this]
      omega
    · intro i hi
      obtain ⟨e, he, rfl⟩ := List.mem_map.mp hi
      have he' : e ∈ entriesFrom T W 0 ns :=
        (List.mergeSort_perm _ entryLe).mem_iff.mp ((List.take_sublist _ _).subset he)
      have := entriesFrom_index T W 0 ns e he'
      simp; omega

end KoordVerif.C02

namespace KoordVerif.C02

/-! ### each index is bumped at most once: delta ∈ {base, base + 1} -/

theorem entriesFrom_index_pairwise (T W : Int) (i : Nat) (ns : List Node) :
    ((entriesFrom T W i ns).map (·.index)).Pairwise (· < ·) := by
  induction ns generalizing i with
  | nil => simp [entriesFrom]
  | cons n ns ih =>
    unfold entriesFrom
    by_cases hw : n.weight ≤ 0
    · rw [if_pos hw]; exact ih (i + 1)
    · rw [if_neg hw]
      simp only [List.map_cons, List.pairwise_cons]
      refine ⟨?_, ih (i + 1)⟩
      intro j hj
      obtain ⟨e, he, rfl⟩ := List.mem_map.mp hj
      have := entriesFrom_index T W (i + 1) ns e he
      omega

theorem entriesFrom_index_nodup (T W : Int) (i : Nat) (ns : List Node) :
    ((entriesFrom T W i ns).map (·.index)).Nodup := by
  have h := entriesFrom_index_pairwise T W i ns
  exact h.imp (fun hab => by omega)

theorem bump_getElem (ds : List Int) (i j : Nat) (hj : j < ds.length) :
    (bump ds i)[j]'(by rw [bump_length]; exact hj) = ds[j] + (if i = j then 1 else 0) := by
  unfold bump
  rw [List.getElem_modify]
  split <;> simp_all

theorem foldl_bump_getElem (idxs : List Nat) (hnd : idxs.Nodup) (ds : List Int) (j : Nat) (hj : j < ds.length) :
    (idxs.foldl bump ds)[j]'(by rw [foldl_bump_length]; exact hj) = ds[j] + (if j ∈ idxs then 1 else 0) := by
  induction idxs generalizing ds with
  | nil => simp
  | cons i is ih =>
    simp only [List.foldl_cons]
    have hnd' := List.nodup_cons.mp hnd
    rw [ih hnd'.2 (bump ds i) (by rw [bump_length]; exact hj)]
    rw [bump_getElem ds i j hj]
    by_cases hij : i = j
    · subst hij
      have : i ∉ is := hnd'.1
      simp [this]
    · have : ¬ j = i := fun h => hij h.symm
      simp [hij, this]

/-- every delta is the floor share or the floor share plus one. -/
theorem hamilton_fair (T W : Int) (hT : 0 < T) (hW : 0 < W) (ns : List Node) (hne : ns ≠ [])
    (j : Nat) (hj : j < ns.length) :
    baseOf T W ns[j] ≤ (hamilton T W ns)[j]'(by rw [hamilton_length]; exact hj) ∧
    (hamilton T W ns)[j]'(by rw [hamilton_length]; exact hj) ≤ baseOf T W ns[j] + 1 := by
  have hc : ¬ (W ≤ 0 ∨ T ≤ 0 ∨ ns = []) := by
    intro h; rcases h with h | h | h
    · omega
    · omega
    · exact hne h
  have key : ∀ (l : List Int) (hl : l = hamilton T W ns), baseOf T W ns[j] ≤ l[j]'(by rw [hl, hamilton_length]; exact hj) ∧
      l[j]'(by rw [hl, hamilton_length]; exact hj) ≤ baseOf T W ns[j] + 1 := by
    intro l hl
    unfold hamilton at hl
    rw [if_neg hc] at hl
    simp only [] at hl
    split at hl
    · subst hl; simp only [List.getElem_map]; omega
    · subst hl
      have hjb : j < (ns.map (baseOf T W)).length := by simp; exact hj
      have hnd : (((entriesFrom T W 0 ns).mergeSort entryLe |>.take (T - (ns.map (baseOf T W)).sum).toNat).map (·.index)).Nodup := by
        rw [List.map_take]
        apply List.Nodup.sublist (List.take_sublist _ _)
        exact ((List.mergeSort_perm (entriesFrom T W 0 ns) entryLe).map (·.index)).nodup_iff.mpr
          (entriesFrom_index_nodup T W 0 ns)
      rw [foldl_bump_getElem _ hnd _ j hjb]
      simp only [List.getElem_map]
      split <;> omega
  exact key _ rfl

end KoordVerif.C02

namespace KoordVerif.C02

theorem entriesFrom_index_weight (T W : Int) (i : Nat) (ns : List Node) :
    ∀ e ∈ entriesFrom T W i ns, ∃ k, ∃ (hk : k < ns.length), e.index = i + k ∧ 0 < ns[k].weight := by
  induction ns generalizing i with
  | nil => intro e he; simp [entriesFrom] at he
  | cons n ns ih =>
    intro e he
    unfold entriesFrom at he
    by_cases hw : n.weight ≤ 0
    · rw [if_pos hw] at he
      obtain ⟨k, hk, h1, h2⟩ := ih (i + 1) e he
      exact ⟨k + 1, by simp; omega, by omega, by simpa using h2⟩
    · rw [if_neg hw] at he
      rcases List.mem_cons.mp he with rfl | he
      · exact ⟨0, by simp, by simp, by simp; omega⟩
      · obtain ⟨k, hk, h1, h2⟩ := ih (i + 1) e he
        exact ⟨k + 1, by simp; omega, by omega, by simpa using h2⟩

/-- a sibling whose shared weight is not positive receives nothing. -/
theorem hamilton_zero_weight_delta (T W : Int) (ns : List Node) (j : Nat) (hj : j < ns.length)
    (hw : ns[j].weight ≤ 0) : (hamilton T W ns)[j]'(by rw [hamilton_length]; exact hj) = 0 := by
  have key : ∀ (l : List Int) (hl : l = hamilton T W ns), l[j]'(by rw [hl, hamilton_length]; exact hj) = 0 := by
    intro l hl
    unfold hamilton at hl
    split at hl
    · subst hl; simp
    · simp only [] at hl
      have hb : baseOf T W ns[j] = 0 := by simp [baseOf, hw]
      split at hl
      · subst hl; simp [hb]
      · subst hl
        have hjb : j < (ns.map (baseOf T W)).length := by simp; exact hj
        have hnd : (((entriesFrom T W 0 ns).mergeSort entryLe |>.take (T - (ns.map (baseOf T W)).sum).toNat).map (·.index)).Nodup := by
          rw [List.map_take]
          apply List.Nodup.sublist (List.take_sublist _ _)
          exact ((List.mergeSort_perm (entriesFrom T W 0 ns) entryLe).map (·.index)).nodup_iff.mpr
            (entriesFrom_index_nodup T W 0 ns)
        rw [foldl_bump_getElem _ hnd _ j hjb]
        simp only [List.getElem_map, hb]
        have hnot : j ∉ ((entriesFrom T W 0 ns).mergeSort entryLe |>.take (T - (ns.map (baseOf T W)).sum).toNat).map (·.index) := by
          intro hmem
          obtain ⟨e, he, hej⟩ := List.mem_map.mp hmem
          have he' : e ∈ entriesFrom T W 0 ns :=
            (List.mergeSort_perm _ entryLe).mem_iff.mp ((List.take_sublist _ _).subset he)
          obtain ⟨k, hk, h1, h2⟩ := entriesFrom_index_weight T W 0 ns e he'
          have : k = j := by omega
          subst this
          omega
        rw [if_neg hnot]; simp
  exact key _ rfl

end KoordVerif.C02
