import KoordVerif.Model.C11Rounds
import KoordVerif.Proofs.C11Loop
import KoordVerif.Proofs.C11ExtScan
/-
C11 — Part C helper development: the loop with the real (stateful) executor refines Part A's loop with
the `IsPodEvicted` answers frozen at the start of the round, and the evicted-cache after a round is the
old cache plus exactly the pods whose eviction API call succeeded in the round.
-/
namespace KoordVerif.C11

/-! ### the expiring cache -/

theorem cacheLookup_set (c : Cache) (p q : Nat) (exp : Int) :
    cacheLookup (cacheSet c p exp) q = if p = q then some exp else cacheLookup c q := by
  induction c with
  | nil => simp [cacheSet, cacheLookup]
  | cons h t ih =>
    obtain ⟨k, v⟩ := h
    unfold cacheSet
    by_cases h1 : k = p
    · subst h1
      by_cases h2 : k = q <;> simp [cacheLookup, h2]
    · by_cases h2 : k = q
      · subst h2
        have : ¬ p = k := fun h => h1 h.symm
        simp [cacheLookup, h1, this]
      · simp [cacheLookup, h1, h2, ih]

theorem cacheGet_set_ne (c : Cache) (p q : Nat) (exp now : Int) (h : p ≠ q) :
    cacheGet (cacheSet c p exp) now q = cacheGet c now q := by
  unfold cacheGet; rw [cacheLookup_set]; simp [h]

/-- a pod has a successful eviction in the trace. -/
def okIn (l : List Ev) (p : Nat) : Prop := ∃ ev ∈ l, ev.kind = .ok ∧ ev.e.pod = p

instance (l : List Ev) (p : Nat) : Decidable (okIn l p) := by unfold okIn; infer_instance

/-! ### invariant of the loop with the real executor, relative to the executor `x0` at round start -/

structure XInv (x0 : Exec) (now : Int) (s : XSt) : Prop where
  only    : s.x.onlyAPI = x0.onlyAPI
  started : s.x.started = x0.started
  ttl     : s.x.ttl = x0.ttl
  frozen  : ∀ p, p ∉ s.st.evicted → cacheGet s.x.cache now p = cacheGet x0.cache now p
  noscript : x0.onlyAPI = false → s.st.script = []
  look    : ∀ p, cacheLookup s.x.cache p =
              if x0.onlyAPI = true ∧ x0.started = true ∧ okIn s.st.logRev p then some (now + x0.ttl)
              else cacheLookup x0.cache p
  same    : (x0.onlyAPI = false ∨ x0.started = false ∨ ∀ ev ∈ s.st.logRev, ev.kind ≠ .ok) → s.x = x0

theorem okIn_cons_notok (ev : Ev) (l : List Ev) (p : Nat) (h : ev.kind ≠ .ok) : okIn (ev :: l) p ↔ okIn l p := by
  unfold okIn
  constructor
  · rintro ⟨ev', hm, hk, hp⟩
    rcases List.mem_cons.mp hm with rfl | hm'
    · exact absurd hk h
    · exact ⟨ev', hm', hk, hp⟩
  · rintro ⟨ev', hm, hk, hp⟩
    exact ⟨ev', List.mem_cons_of_mem _ hm, hk, hp⟩

theorem okIn_cons_ok (ti : Nat) (e : Entry) (l : List Ev) (p : Nat) :
    okIn (⟨ti, e, .ok⟩ :: l) p ↔ (e.pod = p ∨ okIn l p) := by
  unfold okIn
  constructor
  · rintro ⟨ev', hm, hk, hp⟩
    rcases List.mem_cons.mp hm with rfl | hm'
    · exact Or.inl hp
    · exact Or.inr ⟨ev', hm', hk, hp⟩
  · rintro (h | ⟨ev', hm, hk, hp⟩)
    · exact ⟨_, List.mem_cons_self .., rfl, h⟩
    · exact ⟨ev', List.mem_cons_of_mem _ hm, hk, hp⟩

/-- a step that appends a non-`ok` event, may add a pod to `evicted`, and leaves the executor alone. -/
theorem XInv_step_notok {x0 : Exec} {now : Int} {s : XSt} (inv : XInv x0 now s) (st' : St) (ev : Ev)
    (hk : ev.kind ≠ .ok) (hlog : st'.logRev = ev :: s.st.logRev)
    (hevd : ∀ p, p ∈ s.st.evicted → p ∈ st'.evicted)
    (hscript : st'.script = s.st.script ∨ (x0.onlyAPI = true)) :
    XInv x0 now { st := st', x := s.x, api := s.api } := by
  refine ⟨inv.only, inv.started, inv.ttl, ?_, ?_, ?_, ?_⟩
  · intro p hp; exact inv.frozen p (fun h => hp (hevd p h))
  · intro h
    rcases hscript with h' | h'
    · show st'.script = []; rw [h']; exact inv.noscript h
    · rw [h] at h'; cases h'
  · intro p
    show cacheLookup s.x.cache p = if x0.onlyAPI = true ∧ x0.started = true ∧ okIn st'.logRev p then _ else _
    rw [hlog, inv.look p]
    simp only [okIn_cons_notok ev s.st.logRev p hk]
  · intro h
    apply inv.same
    rcases h with h | h | h
    · exact Or.inl h
    · exact Or.inr (Or.inl h)
    · refine Or.inr (Or.inr ?_)
      intro ev' hm
      exact h ev' (by show ev' ∈ st'.logRev; rw [hlog]; exact List.mem_cons_of_mem _ hm)

theorem loopPodsX_spec (agg : Entry → Rel) (x0 : Exec) (now : Int) (ti : Nat) (t : Task) (es : List Entry) :
    ∀ s, XInv x0 now s →
      (loopPodsX agg now ti t s es).st = loopPods agg (fun p => cacheGet x0.cache now p) ti t s.st es ∧
      XInv x0 now (loopPodsX agg now ti t s es) := by
  induction es with
  | nil => intro s inv; exact ⟨by simp [loopPodsX, loopPods], by simpa [loopPodsX] using inv⟩
  | cons e es ih =>
    intro s inv
    unfold loopPodsX loopPods
    by_cases hc : s.st.evicted.contains e.pod = true
    · rw [if_pos hc, if_pos hc]; exact ih s inv
    · rw [if_neg hc, if_neg hc]
      have hnot : e.pod ∉ s.st.evicted := by simpa using hc
      have hfro : cacheGet s.x.cache now e.pod = cacheGet x0.cache now e.pod := inv.frozen e.pod hnot
      by_cases hev : cacheGet x0.cache now e.pod = true
      · -- pending release
        have hev' : s.x.isEvicted now e.pod = true := by unfold Exec.isEvicted; rw [hfro]; exact hev
        rw [if_pos hev', if_pos hev]
        let st1 : St := { s.st with evicted := e.pod :: s.st.evicted, released := addRel s.st.released (agg e),
                                    logRev := ⟨ti, e, .pending⟩ :: s.st.logRev }
        have inv1 : XInv x0 now { s with st := st1 } :=
          XInv_step_notok inv st1 ⟨ti, e, .pending⟩ (by simp) rfl
            (fun p hp => List.mem_cons_of_mem _ hp) (Or.inl rfl)
        show ((if (remaining t (addRel s.st.released (agg e))).isEmpty = true then ({ s with st := st1 } : XSt)
                else loopPodsX agg now ti t { s with st := st1 } es).st =
              (if (remaining t (addRel s.st.released (agg e))).isEmpty = true then st1
                else loopPods agg (fun p => cacheGet x0.cache now p) ti t st1 es)) ∧
             XInv x0 now (if (remaining t (addRel s.st.released (agg e))).isEmpty = true then ({ s with st := st1 } : XSt)
                else loopPodsX agg now ti t { s with st := st1 } es)
        split
        · exact ⟨rfl, inv1⟩
        · exact ih _ inv1
      · have hev' : ¬ s.x.isEvicted now e.pod = true := by unfold Exec.isEvicted; rw [hfro]; exact hev
        rw [if_neg hev', if_neg hev]
        have hmiss : cacheGet s.x.cache now e.pod = false := by
          rw [hfro]; simpa using hev
        by_cases hapi : x0.onlyAPI = true
        · -- eviction by API
          have hsx : s.x.onlyAPI = true := by rw [inv.only]; exact hapi
          by_cases hok : s.st.script.headD true = true
          · -- the API call succeeds
            have hr : s.x.evict now e.pod (s.st.script.headD true) = (true, true, s.x.record now e.pod) := by
              rw [hok]; simp [Exec.evict, Exec.evictIfNot, hsx, hmiss]
            simp only [hr, if_true]
            rw [if_pos hok]
            let st1 : St := { s.st with evicted := e.pod :: s.st.evicted, newly := true,
                                        released := addRel s.st.released (agg e), script := s.st.script.tail,
                                        logRev := ⟨ti, e, .ok⟩ :: s.st.logRev }
            have inv1 : XInv x0 now { st := st1, x := s.x.record now e.pod, api := s.api + 1 } := by
              refine ⟨?_, ?_, ?_, ?_, ?_, ?_, ?_⟩
              · show (s.x.record now e.pod).onlyAPI = _
                unfold Exec.record; split <;> exact inv.only
              · show (s.x.record now e.pod).started = _
                unfold Exec.record; split <;> exact inv.started
              · show (s.x.record now e.pod).ttl = _
                unfold Exec.record; split <;> exact inv.ttl
              · intro p hp
                have hp' : p ∉ e.pod :: s.st.evicted := hp
                have hne : e.pod ≠ p := fun h => hp' (h ▸ List.mem_cons_self ..)
                have hp2 : p ∉ s.st.evicted := fun h => hp' (List.mem_cons_of_mem _ h)
                show cacheGet (s.x.record now e.pod).cache now p = _
                unfold Exec.record
                split
                · show cacheGet (cacheSet s.x.cache e.pod (now + s.x.ttl)) now p = _
                  rw [cacheGet_set_ne _ _ _ _ _ hne]; exact inv.frozen p hp2
                · exact inv.frozen p hp2
              · intro h; rw [hapi] at h; cases h
              · intro p
                show cacheLookup (s.x.record now e.pod).cache p =
                  if x0.onlyAPI = true ∧ x0.started = true ∧ okIn (⟨ti, e, .ok⟩ :: s.st.logRev) p then _ else _
                simp only [okIn_cons_ok]
                unfold Exec.record
                by_cases hst : s.x.started = true
                · rw [if_pos hst]
                  show cacheLookup (cacheSet s.x.cache e.pod (now + s.x.ttl)) p = _
                  rw [cacheLookup_set, inv.look p, inv.ttl]
                  have hst0 : x0.started = true := by rw [← inv.started]; exact hst
                  by_cases hp : e.pod = p
                  · simp [hp, hapi, hst0]
                  · simp [hp]
                · rw [if_neg hst]
                  have hst0 : ¬ x0.started = true := by rw [← inv.started]; exact hst
                  rw [inv.look p]; simp [hst0]
              · intro h
                rcases h with h | h | h
                · rw [hapi] at h; cases h
                · have hst : ¬ s.x.started = true := by rw [inv.started, h]; simp
                  show s.x.record now e.pod = x0
                  unfold Exec.record; rw [if_neg hst]
                  exact inv.same (Or.inr (Or.inl h))
                · exact absurd rfl (h ⟨ti, e, .ok⟩ (List.mem_cons_self ..))
            show ((if (remaining t (addRel s.st.released (agg e))).isEmpty = true
                    then ({ st := st1, x := s.x.record now e.pod, api := s.api + 1 } : XSt)
                    else loopPodsX agg now ti t { st := st1, x := s.x.record now e.pod, api := s.api + 1 } es).st =
                  (if (remaining t (addRel s.st.released (agg e))).isEmpty = true then st1
                    else loopPods agg (fun p => cacheGet x0.cache now p) ti t st1 es)) ∧
                 XInv x0 now (if (remaining t (addRel s.st.released (agg e))).isEmpty = true
                    then ({ st := st1, x := s.x.record now e.pod, api := s.api + 1 } : XSt)
                    else loopPodsX agg now ti t { st := st1, x := s.x.record now e.pod, api := s.api + 1 } es)
            split
            · exact ⟨rfl, inv1⟩
            · exact ih _ inv1
          · -- the API call fails: nothing is recorded
            have hokf : s.st.script.headD true = false := by simpa using hok
            have hr : s.x.evict now e.pod (s.st.script.headD true) = (false, true, s.x) := by
              rw [hokf]; simp [Exec.evict, Exec.evictIfNot, hsx, hmiss]
            simp only [hr, if_true]
            rw [if_neg hok]
            simp only [Bool.false_eq_true, if_false]
            let st1 : St := { s.st with script := s.st.script.tail, logRev := ⟨ti, e, .fail⟩ :: s.st.logRev }
            have inv1 : XInv x0 now { st := st1, x := s.x, api := s.api + 1 } := by
              have := XInv_step_notok inv st1 ⟨ti, e, .fail⟩ (by simp) rfl (fun p hp => hp) (Or.inr hapi)
              exact ⟨this.only, this.started, this.ttl, this.frozen, this.noscript, this.look, this.same⟩
            exact ih _ inv1
        · -- kill containers: always "success", no API call, nothing recorded
          have hapif : x0.onlyAPI = false := by simpa using hapi
          have hsx : s.x.onlyAPI = false := by rw [inv.only]; exact hapif
          have hsc : s.st.script = [] := inv.noscript hapif
          have hr : s.x.evict now e.pod (s.st.script.headD true) = (true, false, s.x) := by
            simp [Exec.evict, hsx]
          simp only [hr, if_true, Bool.false_eq_true, if_false]
          have hh : s.st.script.headD true = true := by rw [hsc]; rfl
          rw [if_pos hh]
          let st1 : St := { s.st with evicted := e.pod :: s.st.evicted, newly := true,
                                      released := addRel s.st.released (agg e), script := s.st.script,
                                      logRev := ⟨ti, e, .ok⟩ :: s.st.logRev }
          have hst1 : st1 = { s.st with evicted := e.pod :: s.st.evicted, newly := true,
                                        released := addRel s.st.released (agg e), script := s.st.script.tail,
                                        logRev := ⟨ti, e, .ok⟩ :: s.st.logRev } := by
            show ({ s.st with evicted := e.pod :: s.st.evicted, newly := true,
                              released := addRel s.st.released (agg e), script := s.st.script,
                              logRev := ⟨ti, e, .ok⟩ :: s.st.logRev } : St) = _
            rw [hsc]; rfl
          have inv1 : XInv x0 now { st := st1, x := s.x, api := s.api } := by
            refine ⟨inv.only, inv.started, inv.ttl, ?_, ?_, ?_, ?_⟩
            · intro p hp
              exact inv.frozen p (fun h => hp (List.mem_cons_of_mem _ h))
            · intro _; exact hsc
            · intro p
              rw [inv.look p]; simp [hapif]
            · intro _; exact inv.same (Or.inl hapif)
          show ((if (remaining t (addRel s.st.released (agg e))).isEmpty = true
                  then ({ st := st1, x := s.x, api := s.api } : XSt)
                  else loopPodsX agg now ti t { st := st1, x := s.x, api := s.api } es).st =
                (if (remaining t (addRel s.st.released (agg e))).isEmpty = true then _
                  else loopPods agg (fun p => cacheGet x0.cache now p) ti t _ es)) ∧
               XInv x0 now (if (remaining t (addRel s.st.released (agg e))).isEmpty = true
                  then ({ st := st1, x := s.x, api := s.api } : XSt)
                  else loopPodsX agg now ti t { st := st1, x := s.x, api := s.api } es)
          rw [← hst1]
          split
          · exact ⟨rfl, inv1⟩
          · exact ih _ inv1

theorem loopTasksX_spec (agg : Entry → Rel) (x0 : Exec) (now : Int) (ts : List Task) :
    ∀ ti s, XInv x0 now s →
      (loopTasksX agg now ti s ts).st = loopTasks agg (fun p => cacheGet x0.cache now p) ti s.st ts ∧
      XInv x0 now (loopTasksX agg now ti s ts) := by
  induction ts with
  | nil => intro ti s inv; exact ⟨by simp [loopTasksX, loopTasks], by simpa [loopTasksX] using inv⟩
  | cons t ts ih =>
    intro ti s inv
    unfold loopTasksX loopTasks
    split
    · exact ih (ti + 1) s inv
    · obtain ⟨h1, h2⟩ := loopPodsX_spec agg x0 now ti t t.pods s inv
      have := ih (ti + 1) _ h2
      rw [h1] at this
      exact this

theorem init_XInv (x : Exec) (now : Int) (script : List Bool) :
    XInv x now { st := St.init (x.scriptFor script), x := x, api := 0 } := by
  refine ⟨rfl, rfl, rfl, fun _ _ => rfl, ?_, ?_, fun _ => rfl⟩
  · intro h; simp [St.init, Exec.scriptFor, h]
  · intro p; simp [St.init, okIn]

/-- the real-executor round is Part A's KillAndEvictPods with the `IsPodEvicted` answers frozen at the
    start of the round. -/
theorem runRound_refines (x : Exec) (r : Round) :
    (runRound x r).st = killAndEvict (fun p => cacheGet x.cache r.now p) (x.scriptFor r.script) r.tasks :=
  (loopTasksX_spec _ x r.now r.tasks 0 _ (init_XInv x r.now r.script)).1

theorem runRound_inv (x : Exec) (r : Round) : XInv x r.now (runRound x r) :=
  (loopTasksX_spec _ x r.now r.tasks 0 _ (init_XInv x r.now r.script)).2

/-! ### histories of rounds -/

/-- trace (newest first) of round `r` when it runs after the rounds `pre`. -/
def traceOf (x0 : Exec) (pre : List Round) (r : Round) : List Ev := (runRound (execAfter x0 pre) r).st.logRev

theorem execAfter_snoc (x : Exec) (pre : List Round) (r : Round) :
    execAfter x (pre ++ [r]) = (runRound (execAfter x pre) r).x := by
  induction pre generalizing x with
  | nil => simp [execAfter]
  | cons a pre ih => simp [execAfter, ih]

theorem execAfter_append (x : Exec) (a b : List Round) :
    execAfter x (a ++ b) = execAfter (execAfter x a) b := by
  induction a generalizing x with
  | nil => rfl
  | cons r a ih => simp [execAfter, ih]

theorem execAfter_cfg (x : Exec) (pre : List Round) :
    (execAfter x pre).onlyAPI = x.onlyAPI ∧ (execAfter x pre).started = x.started ∧ (execAfter x pre).ttl = x.ttl := by
  induction pre generalizing x with
  | nil => simp [execAfter]
  | cons a pre ih =>
    have i := runRound_inv x a
    obtain ⟨h1, h2, h3⟩ := ih (runRound x a).x
    exact ⟨by simpa [execAfter, i.only] using h1, by simpa [execAfter, i.started] using h2, by simpa [execAfter, i.ttl] using h3⟩

/-- every cache entry stems from a successful API eviction in an earlier round. -/
def CacheSound (x0 : Exec) (pre : List Round) (c : Cache) : Prop :=
  ∀ p exp, cacheLookup c p = some exp →
    ∃ pre1 r1 post1, pre = pre1 ++ r1 :: post1 ∧ okIn (traceOf x0 pre1 r1) p ∧ exp = r1.now + x0.ttl

theorem cache_sound_step (x0 : Exec) (pre : List Round) (r : Round)
    (h : CacheSound x0 pre (execAfter x0 pre).cache) :
    CacheSound x0 (pre ++ [r]) (execAfter x0 (pre ++ [r])).cache := by
  intro p exp hl
  rw [execAfter_snoc] at hl
  have inv := runRound_inv (execAfter x0 pre) r
  rw [inv.look p] at hl
  split at hl
  · rename_i hc
    refine ⟨pre, r, [], rfl, hc.2.2, ?_⟩
    have := (execAfter_cfg x0 pre).2.2
    simp at hl; rw [← hl, this]
  · obtain ⟨pre1, r1, post1, e1, e2, e3⟩ := h p exp hl
    exact ⟨pre1, r1, post1 ++ [r], by simp [e1], e2, e3⟩

theorem cache_sound_gen (x0 : Exec) (pre : List Round) :
    ∀ pre0, CacheSound x0 pre0 (execAfter x0 pre0).cache →
      CacheSound x0 (pre0 ++ pre) (execAfter x0 (pre0 ++ pre)).cache := by
  induction pre with
  | nil => intro pre0 h; simpa using h
  | cons r pre ih =>
    intro pre0 h
    have := ih (pre0 ++ [r]) (cache_sound_step x0 pre0 r h)
    simpa using this

theorem cache_sound (x0 : Exec) (h0 : x0.cache = []) (pre : List Round) :
    CacheSound x0 pre (execAfter x0 pre).cache := by
  have := cache_sound_gen x0 pre [] (by intro p exp hl; simp [execAfter, h0, cacheLookup] at hl)
  simpa using this

/-- an entry written by a successful eviction at time `t1` keeps an expiration `≥ t1 + ttl` as long as the
    later rounds do not run before `t1`. -/
theorem cache_keeps (x : Exec) (p : Nat) (lo : Int) (post : List Round)
    (hpost : ∀ r ∈ post, lo ≤ r.now + x.ttl)
    (h : ∃ exp, cacheLookup x.cache p = some exp ∧ lo ≤ exp) :
    ∃ exp, cacheLookup (execAfter x post).cache p = some exp ∧ lo ≤ exp := by
  induction post generalizing x with
  | nil => simpa [execAfter] using h
  | cons r post ih =>
    have inv := runRound_inv x r
    apply ih (runRound x r).x
    · intro r' hr'; rw [inv.ttl]; exact hpost r' (List.mem_cons_of_mem _ hr')
    · rw [inv.look p]
      split
      · exact ⟨_, rfl, hpost r (List.mem_cons_self ..)⟩
      · exact h

end KoordVerif.C11
