import KoordVerif.Proofs.C01Reset
/-
C01: resetAll = clear + re-add loop; ResetQuota and the "other meta change" branch of UpdateQuota.
-/
namespace KoordVerif.C01

def clF (q : Quota) : Quota := if q.name = rootName then clearRoot q else clearQ q

theorem clF_name (q : Quota) : (clF q).name = q.name := by unfold clF; split <;> rfl
theorem clF_skel (q : Quota) : skelF (clF q) = skelF q := by unfold clF; split <;> rfl

theorem limit_zero {mx : Option Int} (h : ∀ m, mx = some m → 0 ≤ m) : limit mx 0 = 0 := by
  cases mx with
  | none => rfl
  | some m =>
    have := h m rfl
    show (if (0:Int) > m then m else 0) = 0
    rw [if_neg (by omega)]

theorem clF_max_req (q : Quota) : (clF q).max = q.max ∧ (clF q).request = 0 := by
  unfold clF; split <;> exact ⟨rfl, rfl⟩

theorem get?_map_clF (s : State) (m : Nat) : get? (s.map clF) m = (get? s m).map clF := by
  induction s with
  | nil => rfl
  | cons x t ih =>
    simp only [List.map_cons, get?, clF_name]
    split
    · rfl
    · exact ih

theorem sumKids_map_zero (v : Quota → Int) (g : Nat) (f : Quota → Quota) (s : State) (h : ∀ q ∈ s, v (f q) = 0) :
    sumKids v g (s.map f) = 0 := by
  induction s with
  | nil => rfl
  | cons x t ih =>
    simp only [List.map_cons, sumKids, h x (by simp), ih (fun q hq => h q (List.mem_cons_of_mem _ hq))]
    split <;> rfl

theorem resetAll_eq (s : State) :
    resetAll s = (s.filter (fun q => q.name ≠ rootName)).foldl reAdd (s.map clF) := by
  rfl

theorem reset_init {s : State} (hpre : ResetPre s) :
    ResetInv s (s.map clF) (s.filter (fun q => q.name ≠ rootName)) := by
  have hnodup := hpre.topo.tree.nodup
  have hskel : (s.map clF).map skelF = s.map skelF := by
    rw [List.map_map]; apply List.map_congr_left; intro q _; exact clF_skel q
  have hlim0 : ∀ q ∈ s, Quota.limited (clF q) = 0 := by
    intro q hq
    have hm := (hpre.params q hq).1
    obtain ⟨e1, e2⟩ := clF_max_req q
    show limit (clF q).max (clF q).request = 0
    rw [e1, e2]; exact limit_zero hm
  have hz : ∀ q : Quota, (clF q).npRequest = 0 ∧ (clF q).used = 0 ∧ (clF q).npUsed = 0 ∧ (clF q).request = 0 := by
    intro q; unfold clF; split <;> simp [clearRoot, clearQ]
  have z1 := fun m => sumKids_map_zero Quota.limited m clF s hlim0
  have z2 := fun m => sumKids_map_zero (·.npRequest) m clF s (fun q _ => (hz q).1)
  have z3 := fun m => sumKids_map_zero (·.used) m clF s (fun q _ => (hz q).2.1)
  have z4 := fun m => sumKids_map_zero (·.npUsed) m clF s (fun q _ => (hz q).2.2.1)
  have hsaved : ∀ q, q ∈ s → q.name ≠ rootName → q.name ∈ (s.filter (fun q => q.name ≠ rootName)).map (·.name) := by
    intro q hq hr
    exact List.mem_map.mpr ⟨q, List.mem_filter.mpr ⟨hq, by simpa using hr⟩, rfl⟩
  have hrootnot : rootName ∉ (s.filter (fun q => q.name ≠ rootName)).map (·.name) := by
    intro h
    obtain ⟨q, hq, hn⟩ := List.mem_map.mp h
    have := (List.mem_filter.mp hq).2
    simp [hn] at this
  have hback : ∀ m q1, get? (s.map clF) m = some q1 → ∃ q, get? s m = some q ∧ q1 = clF q := by
    intro m q1 h1
    rw [get?_map_clF] at h1
    cases hq : get? s m with
    | none => simp [hq] at h1
    | some q => simp [hq] at h1; exact ⟨q, rfl, h1.symm⟩
  refine ⟨hskel, ?_, ?_, ?_, ?_⟩
  · intro m q1 h1
    obtain ⟨q, hq, rfl⟩ := hback m q1 h1
    have hqs := get?_mem hq
    have hqn := get?_name hq
    by_cases hr : q.name = rootName
    · obtain ⟨r1, r2, r3, r4, r5⟩ := hpre.root q hqs hr
      have hm : m = rootName := by rw [← hqn, hr]
      subst hm
      simp only [pendF, hrootnot, if_false, dCR, dNpReq, z1, z2]
      simp only [clF, hr, if_true, clearRoot, crOf, r1, r2, r3, podSum]
      exact ⟨by omega, by omega, by simp, by simp, fun h => absurd rfl h⟩
    · have hmem := hsaved q hqs hr
      rw [hqn] at hmem
      simp only [pendF, hmem, if_true, PT, hq, dCR, dNpReq, z1, z2]
      simp only [clF, hr, if_false, clearQ, crOf]
      refine ⟨by omega, by omega, by simp, by simp, fun _ hR => absurd trivial hR⟩
  · intro m q1 h1
    obtain ⟨q, hq, rfl⟩ := hback m q1 h1
    have hqs := get?_mem hq
    have hqn := get?_name hq
    by_cases hr : q.name = rootName
    · obtain ⟨r1, r2, r3, r4, r5⟩ := hpre.root q hqs hr
      have hm : m = rootName := by rw [← hqn, hr]
      subst hm
      simp only [pendF, hrootnot, if_false, dUsed, dNpUsed, z3, z4]
      simp only [clF, hr, if_true, clearRoot, r1, r4, r5, podSum]
      exact ⟨by omega, by omega, by simp, by simp⟩
    · have hmem := hsaved q hqs hr
      rw [hqn] at hmem
      simp only [pendF, hmem, if_true, PT, hq, dUsed, dNpUsed, z3, z4]
      simp only [clF, hr, if_false, clearQ]
      exact ⟨by omega, by omega, by simp, by simp⟩
  · intro m q1 h1
    obtain ⟨q, hq, rfl⟩ := hback m q1 h1
    have hqs := get?_mem hq
    by_cases hr : q.name = rootName
    · obtain ⟨r1, r2, r3, r4, r5⟩ := hpre.root q hqs hr
      constructor <;> simp [clF, hr, clearRoot, crOf, r2, r3]
    · constructor <;> simp [clF, hr, clearQ, crOf]
  · intro m q1 h1
    obtain ⟨q, hq, rfl⟩ := hback m q1 h1
    have hqs := get?_mem hq
    by_cases hr : q.name = rootName
    · obtain ⟨r1, r2, r3, r4, r5⟩ := hpre.root q hqs hr
      constructor <;> simp [clF, hr, clearRoot, r4, r5]
    · constructor <;> simp [clF, hr, clearQ]

theorem resetInv_done {s st : State} (hpre : ResetPre s) (h : ResetInv s st []) : Good st := by
  have htree := tree_of_skel h.skel
  refine ⟨topo_congr htree hpre.topo, params_of_skel h.skel hpre.params, pods_of_skel h.skel hpre.pods,
    reqPend_zero.mpr ?_, usedPend_zero.mpr ?_⟩
  · intro m q hq
    obtain ⟨a, b, c, d, f⟩ := h.req m q hq
    simp only [pendF, List.map_nil, List.not_mem_nil, if_false, Int.add_zero] at a b c d
    exact ⟨a, b, c, d, fun hr => f hr (by simp)⟩
  · intro m q hq
    obtain ⟨a, b, c, d⟩ := h.used m q hq
    simp only [pendF, List.map_nil, List.not_mem_nil, if_false, Int.add_zero] at a b c d
    exact ⟨a, b, c, d⟩

/-- resetQuotaNoLock: the rebuilt state satisfies every local equation -/
theorem resetAll_good {s : State} (hpre : ResetPre s) : Good (resetAll s) := by
  rw [resetAll_eq]
  apply resetInv_done hpre
  apply reAdd_fold hpre _ _ _ _ (reset_init hpre)
  · intro q hq
    have := List.mem_filter.mp hq
    exact ⟨this.1, by simpa using this.2⟩
  · have hsub : (s.filter (fun q => q.name ≠ rootName)).Sublist s := List.filter_sublist
    have := (hsub.map (·.name)).nodup (by
      have := hpre.topo.tree.nodup
      simp only [tree, List.map_map] at this; exact this)
    exact this

end KoordVerif.C01
