import KoordVerif.Proofs.C17Base
/-
C17: where `Evict` calls come from.  `Evicted m m'` = exactly one evictor call was issued in state `m`
(after every early exit of `evictPod`) and the stage returned `m'`.  `Goal m0 Q mf` = the final state `mf`
of a reconcile started in `m0` either kept the evictor log, or issued exactly one call in a state `m1`
about which `Q` is known.
-/
namespace KoordVerif.C17

theorem wok_of_faults_zero {m : M} (h : m.faults = 0) : m.wok = true := by
  simp [M.wok, h]

/-- fault-free, a condition that is not already there verbatim gets persisted by `updateCondition` -/
theorem updateCondition_records {m : M} {c : Cond} (h0 : m.faults = 0)
    (hnew : getCond m.mem.status.conds c.ty ≠ some c) :
    getCond (updateCondition m c).2.api.status.conds c.ty = some c := by
  unfold updateCondition
  split
  · unfold M.statusUpdate
    split
    · exact getCond_setCond_same _ _
    · rename_i hw
      exact absurd (wok_of_faults_zero (m := (m.setStatus _).setStatus _) h0) hw
  · rename_i hupd
    rcases setCond_upd m.mem.status.conds c with h | h
    · exact absurd h hupd
    · exact absurd h hnew

structure Evicted (m m' : M) : Prop where
  job0 : m'.job0 = m.job0
  faults : m'.faults = m.faults
  evicts : m'.evicts = m.evicts ++ [⟨m.env, m.job0, m.mem⟩]
  pod : ∃ p, m.env.pod = some p
  bound : m.mem.spec.resvRef = true → ∃ r, m.env.resv = some r ∧ resvSucceeded r = false
  nocond : ¬ WFp m.mem.status.conds
  recorded : m.faults = 0 → WFp m'.api.status.conds
  env : m'.env = m.env

def Res.EvSpec (m : M) (r : Res) : Prop :=
  match r with
  | .cont m' => Frame m m'
  | .stop m' => Keep m m' ∨ Evicted m m'

theorem not_WFp_of {cs : List Cond} (h1 : condTrue cs CT.eviction = false)
    (h2 : condReasonIs cs CT.eviction Rs.evicting = false) : ¬ WFp cs := by
  rintro ⟨c, hc, hw⟩
  simp only [condTrue, hc] at h1
  simp only [condReasonIs, hc, beq_eq_false_iff_ne] at h2
  rcases hw with hw | hw
  · rw [hw] at h1; cases h1
  · exact h2 hw

theorem boundByOther_none_cont {m m' : M} (h : boundByOther m none = .cont m') :
    m.mem.spec.resvRef = true → ∃ r, m.env.resv = some r ∧ resvSucceeded r = false := by
  intro hr
  unfold boundByOther at h
  split at h
  · rename_i hh; simp [hr] at hh
  · split at h
    · cases h
    · rename_i r hres
      split at h
      · cases h
      · rename_i hs
        exact ⟨r, hres, by simpa using hs⟩

theorem evictPod_spec (m : M) : (evictPod m).EvSpec m := by
  unfold evictPod
  split
  · exact Frame.refl m
  · rename_i hct
    split
    · split
      · exact Or.inl (frame_abortWith _ _).toKeep
      · have := spec_okOr (m := m) _ (frame_updateCondition m ⟨CT.eviction, true, Rs.evictComplete, 0⟩ ok4t)
        revert this
        cases okOr (updateCondition m ⟨CT.eviction, true, Rs.evictComplete, 0⟩) with
        | stop m' => exact fun h => Or.inl h
        | cont m' => exact fun h => h
    · rename_i p hp
      split
      · split
        · exact Or.inl (frame_abortWith _ _).toKeep
        · have := spec_okOr (m := m) _ (frame_updateCondition m ⟨CT.eviction, true, Rs.evictComplete, 0⟩ ok4t)
          revert this
          cases okOr (updateCondition m ⟨CT.eviction, true, Rs.evictComplete, 0⟩) with
          | stop m' => exact fun h => Or.inl h
          | cont m' => exact fun h => h
      · split
        · exact Or.inl (Keep.refl m)
        · rename_i hre
          have hb := spec_boundByOther m none
          cases hbo : boundByOther m none with
          | stop m' => rw [hbo] at hb; exact Or.inl hb
          | cont m' =>
            have hm : m' = m := boundByOther_cont hbo
            subst hm
            have hbound := boundByOther_none_cont hbo
            have hnc : ¬ WFp m'.mem.status.conds :=
              not_WFp_of (by simpa using hct) (by simpa using hre)
            by_cases hw : m'.wok = true
            · simp only [Res.bind, M.evictCall, hw]
              have hfr := frame_updateCondition
                ({ m'.logw .evict p.uid with evicts := m'.evicts ++ [{ env := m'.env, job0 := m'.job0, mem := m'.mem }] } : M)
                ⟨CT.eviction, false, Rs.evicting, 0⟩ ok4e
              refine Or.inr ⟨hfr.job0, hfr.faults, hfr.evicts, ⟨p, hp⟩, hbound, hnc, ?_, hfr.env⟩
              intro h0
              -- fault-free: the Evicting condition is new, hence written
              have hnew : getCond m'.mem.status.conds CT.eviction ≠ some ⟨CT.eviction, false, Rs.evicting, 0⟩ :=
                fun hsame => hnc ⟨_, hsame, Or.inr rfl⟩
              exact ⟨_, updateCondition_records (m := ({ m'.logw .evict p.uid with evicts := m'.evicts ++ [{ env := m'.env, job0 := m'.job0, mem := m'.mem }] } : M))
                (c := ⟨CT.eviction, false, Rs.evicting, 0⟩) h0 hnew, Or.inr rfl⟩
            · have hw' : m'.wok = false := by simpa using hw
              simp only [Res.bind, M.evictCall, hw']
              exact Or.inr ⟨rfl, rfl, rfl, ⟨p, hp⟩, hbound, hnc,
                fun h0 => absurd (wok_of_faults_zero h0) hw, rfl⟩

/-! ### goal bookkeeping -/

def Goal (m0 : M) (Q : M → Prop) (mf : M) : Prop :=
  Keep m0 mf ∨ ∃ m1, Keep m0 m1 ∧ Q m1 ∧ Evicted m1 mf

theorem Goal.of_keep {m0 mf : M} {Q} (h : Keep m0 mf) : Goal m0 Q mf := Or.inl h

theorem Goal.pull {m0 m mf : M} {Q} (hk : Keep m0 m) (h : Goal m Q mf) : Goal m0 Q mf := by
  rcases h with h | ⟨m1, h1, hq, he⟩
  · exact Or.inl (hk.trans h)
  · exact Or.inr ⟨m1, hk.trans h1, hq, he⟩

theorem Goal.bind {m : M} {r : Res} {f : M → Res} {Q} (h : r.Spec m)
    (hf : ∀ m', r = .cont m' → Frame m m' → Goal m' Q (f m').m) : Goal m Q (r.bind f).m := by
  cases r with
  | stop m' => exact Or.inl h
  | cont m' =>
    have h' : Frame m m' := h
    exact Goal.pull h'.toKeep (hf m' rfl h')

theorem Goal.bindEv {m : M} {r : Res} {f : M → Res} {Q} (h : r.EvSpec m) (hq : Q m)
    (hf : ∀ m', Frame m m' → (f m').Spec m') : Goal m Q (r.bind f).m := by
  cases r with
  | stop m' =>
    rcases h with h | h
    · exact Or.inl h
    · exact Or.inr ⟨m, Keep.refl m, hq, h⟩
  | cont m' =>
    have h' : Frame m m' := h
    exact Or.inl (h'.toKeep.trans (hf m' h').keep)

end KoordVerif.C17
