import KoordVerif.Model.C16Glue
import KoordVerif.Proofs.C16ExtArb
import KoordVerif.Proofs.C16Ext2Cycle
/-
C16 extension 3 — the glue of Model/C16Glue.lean:
 * the informer events routed through arbitrationHandler never change which job is live (running or passed), so
   every counter of `round_inv` is untouched by them and the bound of a round also holds when each of the
   arbitrator's own writes is echoed back in the middle of the round (`roundEager`);
 * the three caps reach the EvictionLimiter as the configuration file declares them.
-/
namespace KoordVerif.C16

/-! ### handler events -/

theorem dropMark_contains (st : ArbSt) (jid x : Nat) :
    (dropMark st jid).arbitrated.contains x = (st.arbitrated.contains x && x != jid) := by
  simp only [dropMark]
  rw [Bool.eq_iff_iff]
  simp [List.mem_filter]

/-- a terminal job is not live whatever the filter's map says -/
theorem live_terminal (arb : List Nat) (ca : Bool) (j : JobA) (h : terminalPhase j.phase = true) : live arb ca j = false := by
  simp only [terminalPhase, Bool.or_eq_true, beq_iff_eq] at h
  rcases h with (h | h) | h <;> simp [live, h]

/-- an Update event that carries the phase the job has in the API leaves `live` of every job of the state as it
    was (`hph`: ObjectNew is the API object; it follows from unique names, see `echo_live`) -/
theorem handle_update_live (st : ArbSt) (jid ph : Nat) (ca : Bool) (j : JobA)
    (hph : j.id = jid → j.phase = ph) :
    live (handle st (.update jid ph)).arbitrated ca j = live st.arbitrated ca j := by
  simp only [handle]
  split
  · rename_i ht
    by_cases hj : j.id = jid
    · rw [live_terminal _ _ _ (by rw [hph hj]; exact ht), live_terminal _ _ _ (by rw [hph hj]; exact ht)]
    · have : (j.id != jid) = true := by simpa using hj
      simp only [live, dropMark_contains, this, Bool.and_true]
  · rfl

theorem findJob_mem {st : ArbSt} {jid : Nat} {j : JobA} (h : findJob st jid = some j) : j ∈ st.jobs ∧ j.id = jid := by
  refine ⟨List.mem_of_find?_eq_some h, ?_⟩
  have := List.find?_some h
  simpa using this

theorem nodup_id_eq {l : List JobA} (hn : (l.map (·.id)).Nodup) {a b : JobA} (ha : a ∈ l) (hb : b ∈ l) (h : a.id = b.id) : a = b := by
  induction l with
  | nil => cases ha
  | cons x r ih =>
    have hc := List.nodup_cons.mp (by simpa using hn : (x.id :: r.map (·.id)).Nodup)
    rcases List.mem_cons.mp ha with ha1 | ha1 <;> rcases List.mem_cons.mp hb with hb1 | hb1
    · rw [ha1, hb1]
    · subst ha1
      have : a.id ∈ r.map (·.id) := List.mem_map.mpr ⟨b, hb1, h.symm⟩
      exact absurd this hc.1
    · subst hb1
      have : b.id ∈ r.map (·.id) := List.mem_map.mpr ⟨a, ha1, h⟩
      exact absurd this hc.1
    · exact ih hc.2 ha1 hb1

/-- **echo_live**: with unique job names, the informer's echo of any job leaves `live` of every job unchanged -/
theorem echo_live (st : ArbSt) (hn : (st.jobs.map (·.id)).Nodup) (jid : Nat) (ca : Bool) (j : JobA) (hj : j ∈ st.jobs) :
    live (echo st jid).arbitrated ca j = live st.arbitrated ca j := by
  simp only [echo]
  cases hf : findJob st jid with
  | none => rfl
  | some j0 =>
    obtain ⟨hm, hid⟩ := findJob_mem hf
    exact handle_update_live st jid j0.phase ca j (fun h => by rw [nodup_id_eq hn hj hm (h.trans hid.symm)])

theorem echo_pods (st : ArbSt) (jid : Nat) : (echo st jid).pods = st.pods := by
  simp only [echo]; split <;> simp only [handle] <;> (try split) <;> rfl

theorem echo_jobs (st : ArbSt) (jid : Nat) : (echo st jid).jobs = st.jobs := by
  simp only [echo]; split <;> simp only [handle] <;> (try split) <;> rfl

theorem echo_waiting (st : ArbSt) (jid : Nat) : (echo st jid).waiting = st.waiting := by
  simp only [echo]; split <;> simp only [handle] <;> (try split) <;> rfl

theorem any_congr_mem {α} (l : List α) (f g : α → Bool) (h : ∀ a ∈ l, f a = g a) : l.any f = l.any g := by
  induction l with
  | nil => rfl
  | cons a r ih =>
    simp only [List.any_cons, h a (List.mem_cons_self ..)]
    rw [ih (fun b hb => h b (List.mem_cons_of_mem _ hb))]

theorem countP_congr_mem {α} (l : List α) (f g : α → Bool) (h : ∀ a ∈ l, f a = g a) : l.countP f = l.countP g := by
  induction l with
  | nil => rfl
  | cons a r ih =>
    simp only [List.countP_cons, h a (List.mem_cons_self ..)]
    rw [ih (fun b hb => h b (List.mem_cons_of_mem _ hb))]

/-- two states that differ only in the filter's map and agree on `live` for every job -/
structure LiveEq (s t : ArbSt) : Prop where
  pods : t.pods = s.pods
  jobs : t.jobs = s.jobs
  live : ∀ ca, ∀ j ∈ s.jobs, live t.arbitrated ca j = live s.arbitrated ca j

theorem echo_liveEq (st : ArbSt) (hn : (st.jobs.map (·.id)).Nodup) (jid : Nat) : LiveEq st (echo st jid) :=
  ⟨echo_pods st jid, echo_jobs st jid, fun ca j hj => echo_live st hn jid ca j hj⟩

theorem LiveEq.hasJob {s t : ArbSt} (e : LiveEq s t) (ca : Bool) (v : PodA) : hasJob t ca v = hasJob s ca v := by
  have h1 : hasJobByUID t ca v = hasJobByUID s ca v := by
    simp only [hasJobByUID, e.jobs]
    exact any_congr_mem _ _ _ (fun j hj => by rw [e.live ca j hj])
  have h2 : hasJobByName t ca v = hasJobByName s ca v := by
    simp only [hasJobByName, e.jobs]
    exact any_congr_mem _ _ _ (fun j hj => by rw [e.live ca j hj])
  simp only [C16.hasJob, h1, h2]

theorem LiveEq.hasJobNs {s t : ArbSt} (e : LiveEq s t) (k : Nat) (q : PodA) : hasJobNs t k q = hasJobNs s k q := by
  simp only [C16.hasJobNs, liveR, e.jobs]
  exact any_congr_mem _ _ _ (fun j hj => by rw [e.live true j hj])

theorem LiveEq.cntGlobal {s t : ArbSt} (e : LiveEq s t) : cntGlobal t = cntGlobal s := by
  simp only [C16.cntGlobal, liveR, e.jobs]
  exact countP_congr_mem _ _ _ (fun j hj => by rw [e.live true j hj])

theorem LiveEq.cntNs {s t : ArbSt} (e : LiveEq s t) (k : Nat) : cntNs t k = cntNs s k := by
  simp only [C16.cntNs, liveR, e.jobs]
  exact countP_congr_mem _ _ _ (fun j hj => by rw [e.live true j hj])

theorem LiveEq.cntNode {s t : ArbSt} (e : LiveEq s t) (n : Nat) : cntNode t n = cntNode s n := by
  simp only [C16.cntNode, e.pods]
  exact countP_congr_mem _ _ _ (fun v _ => by rw [e.hasJob])

theorem LiveEq.cntMigr {s t : ArbSt} (e : LiveEq s t) (w k : Nat) : cntMigr t w k = cntMigr s w k := by
  simp only [C16.cntMigr, e.pods]
  exact countP_congr_mem _ _ _ (fun v _ => by rw [e.hasJobNs])

theorem LiveEq.cntUnav {s t : ArbSt} (e : LiveEq s t) (w k : Nat) : cntUnav t w k = cntUnav s w k := by
  simp only [C16.cntUnav, e.pods]
  exact countP_congr_mem _ _ _ (fun v _ => by rw [e.hasJobNs])

/-- every limit check of the filter gives the same answer on two such states -/
theorem LiveEq.retryable {s t : ArbSt} (e : LiveEq s t) (cfg : ArbCfg) (ca : Bool) (p : PodA) :
    retryable cfg t ca p = retryable cfg s ca p := by
  have hg : globalJobs t ca p = globalJobs s ca p := by
    simp only [globalJobs, e.jobs]
    exact List.filter_congr (fun j hj => by rw [e.live ca j hj])
  have hns : nsJobs t ca p = nsJobs s ca p := by
    simp only [nsJobs, e.jobs]
    exact List.filter_congr (fun j hj => by rw [e.live ca j hj])
  have hnp : nodePods t ca p = nodePods s ca p := by
    simp only [nodePods, e.pods, e.hasJob]
  have hm : migrating t ca p = migrating s ca p := by
    simp only [migrating, findPod, e.jobs, e.pods]
    congr 1
    exact List.filter_congr (fun j hj => by rw [e.live ca j hj])
  have hu : unavailable t p = unavailable s p := by simp only [unavailable, e.pods]
  simp only [C16.retryable, retryableChecks, passGlobal, passNode, passNs, passWorkload, hg, hns, hnp, hm, hu, e.pods]

theorem echo_wf (st : ArbSt) (jid : Nat) (w : WF st) : WF (echo st jid) := by
  have hp := echo_pods st jid
  have hj := echo_jobs st jid
  exact ⟨by rw [hj]; exact w.jobIds, by rw [hp]; exact w.podIds, by rw [hj, hp]; exact w.refNs,
    by rw [hj, hp]; exact w.uidRef, by rw [hj, hp]; exact w.uniqueOpen⟩

/-- one iteration of `roundEager` -/
def stepEager (cfg : ArbCfg) (uf : List Nat) (st : ArbSt) (jid : Nat) : ArbSt :=
  let r := processJob cfg uf st jid
  if wrote r.2 then echo r.1 jid else r.1

theorem roundEager_cons (cfg : ArbCfg) (uf : List Nat) (st : ArbSt) (jid : Nat) (r : List Nat) :
    roundEager cfg uf st (jid :: r) = roundEager cfg uf (stepEager cfg uf st jid) r := by
  simp only [roundEager, List.foldl_cons, stepEager]

/-- exempt admissions of an eager round (same definition as `roundExempt`, along the states the eager round visits) -/
def roundExemptEager (cfg : ArbCfg) (uf : List Nat) : ArbSt → List Nat → Nat
  | _, [] => 0
  | st, jid :: r => (if exemptAdm cfg uf st jid then 1 else 0) + roundExemptEager cfg uf (stepEager cfg uf st jid) r

theorem stepEager_wf (cfg : ArbCfg) (uf : List Nat) (st : ArbSt) (jid : Nat) (w : WF st) : WF (stepEager cfg uf st jid) := by
  simp only [stepEager]
  split
  · exact echo_wf _ _ (processJob_wf cfg uf st jid w)
  · exact processJob_wf cfg uf st jid w

theorem fold_bound_eager (cfg : ArbCfg) (uf : List Nat) (C : ArbSt → Nat) (L : Nat)
    (hstep : ∀ st jid, WF st →
      C (processJob cfg uf st jid).1 ≤ C st + (if exemptAdm cfg uf st jid then 1 else 0) ∨ C (processJob cfg uf st jid).1 ≤ L)
    (hecho : ∀ s t, LiveEq s t → C t = C s)
    (order : List Nat) : ∀ st, WF st → C (roundEager cfg uf st order) ≤ max L (C st) + roundExemptEager cfg uf st order := by
  induction order with
  | nil => intro st _; simp only [roundEager, List.foldl_nil, roundExemptEager]; omega
  | cons jid r ih =>
    intro st w
    have h := ih _ (stepEager_wf cfg uf st jid w)
    have hs := hstep st jid w
    have he : C (stepEager cfg uf st jid) = C (processJob cfg uf st jid).1 := by
      simp only [stepEager]
      split
      · exact hecho _ _ (echo_liveEq _ (processJob_wf cfg uf st jid w).jobIds jid)
      · rfl
    rw [roundEager_cons]
    simp only [roundExemptEager]
    rw [he] at h
    rcases hs with hs | hs <;> omega

/-! ### the annotation an observer sees and the mark the filter keeps -/

/-- what an observer of the API counts as live: Running, or ""/Pending carrying the passed-arbitration annotation -/
def annLive (j : JobA) : Bool := j.phase == 2 || ((j.phase == 0 || j.phase == 1) && j.passedAnn)

/-- for every open job the annotation in the API and the mark in the filter's map say the same -/
def AnnMark (st : ArbSt) : Prop :=
  ∀ j ∈ st.jobs, j.phase ≤ 1 → (j.passedAnn = true ↔ st.arbitrated.contains j.id = true)

theorem AnnMark.live_eq {st : ArbSt} (h : AnnMark st) (j : JobA) (hj : j ∈ st.jobs) : liveR st j = annLive j := by
  simp only [liveR, live, annLive, Bool.not_true, Bool.false_or]
  by_cases hp : j.phase ≤ 1
  · have := h j hj hp
    cases h1 : j.passedAnn <;> cases h2 : st.arbitrated.contains j.id <;> simp_all
  · have h0 : (j.phase == 0) = false := by simp; omega
    have h1 : (j.phase == 1) = false := by simp; omega
    simp [h0, h1]

/-- under `AnnMark` the count the code's own bookkeeping yields is the count an observer of the API makes -/
theorem AnnMark.cntGlobal_eq {st : ArbSt} (h : AnnMark st) :
    cntGlobal st = st.jobs.countP fun j => annLive j && j.pod != 0 := by
  simp only [cntGlobal]
  exact countP_congr_mem _ _ _ (fun j hj => by rw [h.live_eq j hj])

/-- an Update event carrying the API phase of the job keeps `AnnMark` (unique job names) -/
theorem echo_annMark (st : ArbSt) (hn : (st.jobs.map (·.id)).Nodup) (jid : Nat) (h : AnnMark st) : AnnMark (echo st jid) := by
  intro j hj hp
  rw [echo_jobs] at hj
  rw [h j hj hp]
  simp only [echo]
  cases hf : findJob st jid with
  | none => exact Iff.rfl
  | some j0 =>
    obtain ⟨hm, hid⟩ := findJob_mem hf
    simp only [handle]
    split
    · rename_i ht
      rw [dropMark_contains]
      by_cases hj0 : j.id = jid
      · have : j = j0 := nodup_id_eq hn hj hm (hj0.trans hid.symm)
        subst this
        simp only [terminalPhase, Bool.or_eq_true, beq_iff_eq] at ht
        omega
      · have : (j.id != jid) = true := by simpa using hj0
        simp [this]
    · exact Iff.rfl

theorem markPassed_annMark (st : ArbSt) (b : Bool) (jid : Nat) (h : AnnMark st) : AnnMark (markPassed st b jid).1 := by
  simp only [markPassed]
  split
  · exact h
  · intro j hj hp
    simp only [setJob, List.mem_map] at hj
    obtain ⟨j0, hj0, rfl⟩ := hj
    by_cases hid : j0.id = jid
    · simp [hid]
    · have hne : (j0.id == jid) = false := by simpa using hid
      simp only [hne, Bool.false_eq_true, if_false] at hp ⊢
      rw [h j0 hj0 hp]
      simp [hid]

/-- every iteration of the arbitration loop keeps `AnnMark`: annotation and mark are written together -/
theorem processJob_annMark (cfg : ArbCfg) (uf : List Nat) (st : ArbSt) (jid : Nat) (h : AnnMark st) :
    AnnMark (processJob cfg uf st jid).1 := by
  simp only [processJob]
  split
  · exact h
  · split
    · exact markPassed_annMark _ _ _ h
    · split
      · intro j hj hp
        simp only [setJob, List.mem_map] at hj
        obtain ⟨j0, hj0, rfl⟩ := hj
        by_cases hid : j0.id = jid
        · simp [hid] at hp
        · have hne : (j0.id == jid) = false := by simpa using hid
          simp only [hne, Bool.false_eq_true, if_false] at hp ⊢
          exact h j0 hj0 hp
      · split
        · exact h
        · exact markPassed_annMark _ _ _ h

/-- … so a whole round with every write echoed keeps it, and the bound of `round_inv_eager` is a bound on what an
    observer of the API counts -/
theorem roundEager_annMark (cfg : ArbCfg) (uf : List Nat) (order : List Nat) :
    ∀ st, WF st → AnnMark st → AnnMark (roundEager cfg uf st order) := by
  induction order with
  | nil => intro st _ h; exact h
  | cons jid r ih =>
    intro st w h
    rw [roundEager_cons]
    refine ih _ (stepEager_wf cfg uf st jid w) ?_
    simp only [stepEager]
    split
    · exact echo_annMark _ (processJob_wf cfg uf st jid w).jobIds jid (processJob_annMark cfg uf st jid h)
    · exact processJob_annMark cfg uf st jid h

/-- the seeded handler breaks it: the event of a passed job of phase "" removes the mark, the annotation stays -/
theorem literal_breaks_annMark :
    let st : ArbSt := { jobs := [⟨1, 1, 1, 0, true, 1⟩], arbitrated := [1] }
    AnnMark st ∧ ¬ AnnMark (handleLiteral st (.update 1 0)) := by
  refine ⟨?_, ?_⟩
  · intro j hj _
    simp only [List.mem_singleton] at hj
    subst hj; decide
  · intro h
    have := h ⟨1, 1, 1, 0, true, 1⟩ (by simp [handleLiteral, dropMark]) (by decide)
    revert this
    decide

end KoordVerif.C16
