import KoordVerif.Model.C11Metric
import KoordVerif.Model.C11E2E
/-
C11 — helper lemmas for Part F (metric glue): `lastFrom` / `lastOf` / `podMetricLast`.
-/
namespace KoordVerif.C11

theorem lastFrom_mem (best : Sample) (xs : List Sample) : lastFrom best xs = best ∨ lastFrom best xs ∈ xs := by
  induction xs generalizing best with
  | nil => exact Or.inl rfl
  | cons x xs ih =>
    unfold lastFrom
    by_cases h : x.age < best.age
    · simp only [h, if_true]
      rcases ih x with h1 | h1
      · exact Or.inr (by rw [h1]; exact List.mem_cons_self)
      · exact Or.inr (List.mem_cons_of_mem _ h1)
    · simp only [h, if_false]
      rcases ih best with h1 | h1
      · exact Or.inl h1
      · exact Or.inr (List.mem_cons_of_mem _ h1)

theorem lastFrom_le_best (best : Sample) (xs : List Sample) : (lastFrom best xs).age ≤ best.age := by
  induction xs generalizing best with
  | nil => exact Int.le_refl _
  | cons x xs ih =>
    unfold lastFrom
    by_cases h : x.age < best.age
    · simp only [h, if_true]; have := ih x; omega
    · simp only [h, if_false]; exact ih best

theorem lastFrom_le_mem (best : Sample) (xs : List Sample) (y : Sample) (hy : y ∈ xs) :
    (lastFrom best xs).age ≤ y.age := by
  induction xs generalizing best with
  | nil => cases hy
  | cons x xs ih =>
    unfold lastFrom
    rcases List.mem_cons.mp hy with rfl | hy'
    · by_cases h : y.age < best.age
      · simp only [h, if_true]; exact lastFrom_le_best y xs
      · simp only [h, if_false]; have := lastFrom_le_best best xs; omega
    · exact ih _ hy'

theorem lastOf_none_iff (xs : List Sample) : lastOf xs = none ↔ xs = [] := by
  cases xs <;> simp [lastOf]

theorem lastOf_some (xs : List Sample) (s : Sample) (h : lastOf xs = some s) :
    s ∈ xs ∧ ∀ y ∈ xs, s.age ≤ y.age := by
  cases xs with
  | nil => simp [lastOf] at h
  | cons a rest =>
    simp only [lastOf, Option.some.injEq] at h
    subst h
    refine ⟨?_, ?_⟩
    · rcases lastFrom_mem a rest with h1 | h1
      · rw [h1]; exact List.mem_cons_self
      · exact List.mem_cons_of_mem _ h1
    · intro y hy
      rcases List.mem_cons.mp hy with rfl | hy'
      · exact lastFrom_le_best y rest
      · exact lastFrom_le_mem a rest y hy'

end KoordVerif.C11
