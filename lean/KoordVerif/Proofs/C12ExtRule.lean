import KoordVerif.Model.C12Rule
import KoordVerif.Proofs.C12
/-
C12 — the targets of the callers' batches are hierarchy-valid (a hypothesis of every_prefix_valid that the callers
have to meet), and where they are not.
-/
namespace KoordVerif.C12

/-- what the theorems need of `q ↦ int64(ceil(float64(q)/ratio))` for ratio > 1 (or of the identity). -/
structure ScaleOK (scale : Int → Int) : Prop where
  mono : ∀ a b, 0 < a → a ≤ b → scale a ≤ scale b
  pos : ∀ a, 0 < a → 0 < scale a
  le : ∀ a, 0 < a → scale a ≤ a

theorem scaleOK_id : ScaleOK id := ⟨fun _ _ _ h => h, fun _ h => h, fun _ _ => Int.le_refl _⟩

/-- exact integer ceiling division by a rational ratio n/d > 1 satisfies it (e.g. 1.5 = 3/2: 200000 ↦ 133334). -/
theorem scaleOK_ceilDiv (n d : Int) (hd : 0 < d) (hn : d ≤ n) : ScaleOK (fun q => (q * d + n - 1) / n) where
  mono a b _ hab := by
    have hn0 : 0 < n := by omega
    apply Int.ediv_le_ediv hn0
    have : a * d ≤ b * d := Int.mul_le_mul_of_nonneg_right hab (by omega)
    omega
  pos a ha := by
    have hn0 : 0 < n := by omega
    have h1 : 1 ≤ a * d := by
      have : 1 * 1 ≤ a * d := Int.mul_le_mul (by omega) (by omega) (by omega) (by omega)
      simpa using this
    have : n ≤ a * d + n - 1 := by omega
    have := Int.ediv_le_ediv hn0 this
    rw [Int.ediv_self (by omega)] at this
    omega
  le a ha := by
    have hn0 : 0 < n := by omega
    have h1 : a * d ≤ a * n := Int.mul_le_mul_of_nonneg_left hn (by omega)
    have : a * d + n - 1 < (a + 1) * n := by
      have : (a + 1) * n = a * n + n := by rw [Int.add_mul]; omega
      omega
    have := (Int.ediv_lt_iff_lt_mul hn0).mpr this
    omega

theorem baseQuota_pos_mono (a b : Int) (ha : 0 < baseQuota a) (hab : a ≤ b) : baseQuota a ≤ baseQuota b ∧ 0 < baseQuota b := by
  unfold baseQuota at *
  simp only at *
  have h : a * 100000 / 1000 ≤ b * 100000 / 1000 := Int.ediv_le_ediv (by omega) (by omega)
  split at ha
  · omega
  · repeat' split
    all_goals omega

theorem sum_nonneg_of_nonneg (xs : List Int) (h : ∀ l ∈ xs, 0 ≤ l) : 0 ≤ xs.sum := by
  induction xs with
  | nil => simp
  | cons y ys ih =>
    have := h y (List.mem_cons_self ..)
    have := ih (fun l hl => h l (List.mem_cons_of_mem _ hl))
    simp only [List.sum_cons]; omega

theorem mem_le_sum_of_nonneg (lims : List Int) (hpos : ∀ l ∈ lims, 0 ≤ l) : ∀ l ∈ lims, l ≤ lims.sum := by
  induction lims with
  | nil => intro l h; cases h
  | cons x xs ih =>
    intro l hl
    have hx : 0 ≤ x := hpos x (List.mem_cons_self ..)
    have hxs : ∀ l ∈ xs, 0 ≤ l := fun l h => hpos l (List.mem_cons_of_mem _ h)
    have hs := sum_nonneg_of_nonneg xs hxs
    simp only [List.sum_cons]
    rcases List.mem_cons.mp hl with h | h
    · subst h; omega
    · have := ih hxs l h; omega

/-- cfs quota of a container against its pod's, raw form: the pod is unlimited, or both are positive and ordered. -/
theorem rule_ctr_le_pod {scale : Int → Int} (h : ScaleOK scale) (lims : List Int) :
    ∀ l ∈ lims, podQuota scale lims = -1 ∨
      (0 < ctrQuota scale l ∧ ctrQuota scale l ≤ podQuota scale lims ∧ podQuota scale lims ≤ baseQuota lims.sum) := by
  intro l hl
  by_cases hall : lims.all (fun l => decide (l > 0)) = true
  · right
    have hpos : ∀ x ∈ lims, 0 < x := by
      intro x hx
      have := List.all_eq_true.mp hall x hx
      simpa using this
    have hl0 := hpos l hl
    have hle : l ≤ lims.sum := mem_le_sum_of_nonneg lims (fun x hx => Int.le_of_lt (hpos x hx)) l hl
    have hbl : 0 < baseQuota l := by
      unfold baseQuota; simp only
      have : 100 ≤ l * 100000 / 1000 := by omega
      repeat' split
      all_goals omega
    obtain ⟨hm, hps⟩ := baseQuota_pos_mono l lims.sum hbl hle
    simp only [ctrQuota, podQuota, hall, if_true, hl0, scaledQuota, hbl, hps]
    exact ⟨h.pos _ hbl, h.mono _ _ hbl hm, h.le _ hps⟩
  · left
    have : lims.all (fun l => decide (l > 0)) = false := by simpa using hall
    have hb : baseQuota (-1) = -1 := by decide
    simp [podQuota, this, hb, scaledQuota]

/-- cgreconcile: request * percent / 100 is monotone in the request. -/
theorem prot_mono (pct a b : Int) (hp : 0 ≤ pct) (hab : a ≤ b) : prot a pct ≤ prot b pct := by
  unfold prot
  apply Int.ediv_le_ediv (by omega)
  exact Int.mul_le_mul_of_nonneg_right hab hp

theorem prot_nonneg (pct a : Int) (hp : 0 ≤ pct) (ha : 0 ≤ a) : 0 ≤ prot a pct := by
  unfold prot
  exact Int.ediv_nonneg (Int.mul_nonneg ha hp) (by omega)

end KoordVerif.C12
