import KoordVerif.Proofs.C04Permit
/-
C04 — pod deletions racing the loop of Permit (no cache-wide lock): how far a gang can have shrunk
between the moment it was inspected and the moment Permit returns.
`Shrunk s t h k`: from state s to state t gang h either left the cache (then k ≥ 1) or kept its
parameters and lost at most k waiting members and at most k bound members.
-/
namespace KoordVerif.C04

/-- the waiting / bound key sets have no duplicate (they are Go maps) -/
def NodupSets (s : State) : Prop := ∀ g ∈ s.gangs, g.ps.waiting.Nodup ∧ g.ps.bound.Nodup

theorem length_le_sDel_succ (p : Nat) (l : List Nat) (h : l.Nodup) : l.length ≤ (sDel p l).length + 1 := by
  induction l with
  | nil => simp [sDel]
  | cons a t ih =>
    have hn := List.nodup_cons.mp h
    unfold sDel at *
    by_cases e : a = p
    · subst e
      have : t.filter (fun y => y != a) = t := by
        apply List.filter_eq_self.mpr
        intro y hy
        simp only [bne_iff_ne, ne_eq]
        intro e
        subst e
        exact hn.1 hy
      simp [this]
    · have := ih hn.2
      simp [e]
      omega

theorem nodup_sDel (p : Nat) (l : List Nat) (h : l.Nodup) : (sDel p l).Nodup := by
  unfold sDel
  exact List.Nodup.sublist List.filter_sublist h

theorem findGang_filter_ne (gs : List Gang) (id h : GangId) (hne : h ≠ id) :
    findGang (gs.filter (fun x => x.id != id)) h = findGang gs h := by
  unfold findGang
  induction gs with
  | nil => rfl
  | cons a t ih =>
    by_cases e : a.id = id
    · subst e
      have hah : ¬ a.id = h := fun e2 => hne e2.symm
      simp [hah, ih]
    · simp only [List.filter_cons, bne_iff_ne, ne_eq, e, not_false_eq_true, if_true, List.find?_cons]
      split
      · rfl
      · exact ih

theorem findGang_filter_eq (gs : List Gang) (id : GangId) :
    findGang (gs.filter (fun x => x.id != id)) id = none := by
  unfold findGang
  rw [List.find?_eq_none]
  intro x hx
  have := (List.mem_filter.mp hx).2
  simpa using this

theorem podDel_infos (s : State) (p : Pod) (id : GangId) : (podDel s p id).infos = s.infos := by
  unfold podDel
  split
  · rfl
  · simp only
    split
    · rfl
    · rfl

theorem podDel_findGang_ne (s : State) (p : Pod) (id h : GangId) (hne : h ≠ id) :
    findGang (podDel s p id).gangs h = findGang s.gangs h := by
  have hu : findGang (updGang s.gangs id (fun g => g.deletePod p)) h = findGang s.gangs h := by
    rw [findGang_updGang s.gangs id h (fun g => g.deletePod p) (fun _ => rfl)]
    cases hf : findGang s.gangs h with
    | none => rfl
    | some g =>
      have := (mem_of_findGang hf).2
      have hne' : ¬ g.id = id := fun e => hne (this.symm.trans e)
      simp [hne']
  unfold podDel
  split
  · rfl
  next g hg =>
    simp only
    split
    · unfold removeGang
      simp only
      have : (g.deletePod p).id = id := (mem_of_findGang hg).2
      rw [this, findGang_filter_ne _ id h hne]
      exact hu
    · exact hu

theorem podDel_findGang_eq (s : State) (p : Pod) (id : GangId) :
    findGang (podDel s p id).gangs id = none ∨
    findGang (podDel s p id).gangs id = (findGang s.gangs id).map (fun g => g.deletePod p) := by
  unfold podDel
  split
  next hg => exact Or.inr (by rw [hg]; rfl)
  next g hg =>
    have hid : g.id = id := (mem_of_findGang hg).2
    simp only
    split
    · left
      unfold removeGang
      simp only
      have : (g.deletePod p).id = id := hid
      rw [this]
      exact findGang_filter_eq _ id
    · right
      rw [findGang_updGang s.gangs id id (fun g => g.deletePod p) (fun _ => rfl), hg]
      simp [hid]

theorem podDel_nodup (s : State) (p : Pod) (id : GangId) (h : NodupSets s) : NodupSets (podDel s p id) := by
  have hu : ∀ g ∈ updGang s.gangs id (fun g => g.deletePod p), g.ps.waiting.Nodup ∧ g.ps.bound.Nodup := by
    intro g' hg'
    rcases mem_updGang hg' with ⟨g, hg, rfl⟩
    split
    · exact ⟨nodup_sDel _ _ (h g hg).1, nodup_sDel _ _ (h g hg).2⟩
    · exact h g hg
  unfold podDel
  split
  · exact h
  · simp only
    split
    · unfold removeGang
      intro g hg
      exact hu g (List.mem_filter.mp hg).1
    · exact hu

/-- from s to t gang h left the cache (k ≥ 1) or kept its parameters and lost at most k waiting and
    at most k bound members; the GangGroupInfo heap did not change -/
def Shrunk (s t : State) (h : GangId) (k : Nat) : Prop :=
  t.infos = s.infos ∧
  (findGang s.gangs h = none → findGang t.gangs h = none) ∧
  ∀ gs, findGang s.gangs h = some gs →
    (findGang t.gangs h = none ∧ 1 ≤ k) ∨
    ∃ gt, findGang t.gangs h = some gt ∧ gt.init = gs.init ∧ gt.min = gs.min ∧ gt.policy = gs.policy ∧
      gt.info = gs.info ∧ gs.ps.waiting.length ≤ gt.ps.waiting.length + k ∧
      gs.ps.bound.length ≤ gt.ps.bound.length + k

theorem Shrunk.refl (s : State) (h : GangId) : Shrunk s s h 0 :=
  ⟨rfl, id, fun gs hg => Or.inr ⟨gs, hg, rfl, rfl, rfl, rfl, Nat.le_refl _, Nat.le_refl _⟩⟩

theorem Shrunk.trans {s m t : State} {h : GangId} {k1 k2 : Nat} (h1 : Shrunk s m h k1) (h2 : Shrunk m t h k2) :
    Shrunk s t h (k1 + k2) := by
  obtain ⟨i1, n1, g1⟩ := h1
  obtain ⟨i2, n2, g2⟩ := h2
  refine ⟨i2.trans i1, fun hn => n2 (n1 hn), ?_⟩
  intro gs hgs
  rcases g1 gs hgs with ⟨hm, hk⟩ | ⟨gm, hgm, a1, a2, a3, a4, a5, a6⟩
  · exact Or.inl ⟨n2 hm, by omega⟩
  · rcases g2 gm hgm with ⟨ht, hk⟩ | ⟨gt, hgt, b1, b2, b3, b4, b5, b6⟩
    · exact Or.inl ⟨ht, by omega⟩
    · exact Or.inr ⟨gt, hgt, b1.trans a1, b2.trans a2, b3.trans a3, b4.trans a4, by omega, by omega⟩

theorem shrunk_podDel (s : State) (p : Pod) (id h : GangId) (hn : NodupSets s) :
    Shrunk s (podDel s p id) h (if id = h then 1 else 0) := by
  by_cases e : id = h
  · subst e
    simp only [if_true]
    refine ⟨podDel_infos s p id, ?_, ?_⟩
    · intro hnone
      rcases podDel_findGang_eq s p id with h1 | h1
      · exact h1
      · rw [h1, hnone]; rfl
    · intro gs hgs
      rcases podDel_findGang_eq s p id with h1 | h1
      · exact Or.inl ⟨h1, Nat.le_refl _⟩
      · right
        rw [hgs] at h1
        have hmem := (mem_of_findGang hgs).1
        refine ⟨gs.deletePod p, h1, rfl, rfl, rfl, rfl, ?_, ?_⟩
        · exact length_le_sDel_succ p _ (hn gs hmem).1
        · exact length_le_sDel_succ p _ (hn gs hmem).2
  · simp only [e, if_false]
    have hne : h ≠ id := fun x => e x.symm
    refine ⟨podDel_infos s p id, ?_, ?_⟩
    · intro hnone; rw [podDel_findGang_ne s p id h hne]; exact hnone
    · intro gs hgs
      exact Or.inr ⟨gs, by rw [podDel_findGang_ne s p id h hne]; exact hgs, rfl, rfl, rfl, rfl,
        Nat.le_add_right _ _, Nat.le_add_right _ _⟩

/-- a batch of pod deletions delivered by the informer goroutine -/
def delBatch (ds : List (Pod × GangId)) (s : State) : State := ds.foldl (fun s d => podDel s d.1 d.2) s

/-- how many of the deletions concern members of gang h -/
def racing (h : GangId) (ds : List (Pod × GangId)) : Nat := (ds.filter (fun d => d.2 == h)).length

theorem racing_append (h : GangId) (a b : List (Pod × GangId)) : racing h (a ++ b) = racing h a + racing h b := by
  simp [racing, List.filter_append]

theorem delBatch_nodup (ds : List (Pod × GangId)) (s : State) (hn : NodupSets s) : NodupSets (delBatch ds s) := by
  induction ds generalizing s with
  | nil => exact hn
  | cons d t ih => exact ih _ (podDel_nodup s d.1 d.2 hn)

theorem shrunk_delBatch (ds : List (Pod × GangId)) (s : State) (h : GangId) (hn : NodupSets s) :
    Shrunk s (delBatch ds s) h (racing h ds) := by
  induction ds generalizing s with
  | nil => exact Shrunk.refl s h
  | cons d t ih =>
    have h1 := shrunk_podDel s d.1 d.2 h hn
    have h2 := ih (podDel s d.1 d.2) (podDel_nodup s d.1 d.2 hn)
    have := h1.trans h2
    have e : racing h (d :: t) = (if d.2 = h then 1 else 0) + racing h t := by
      unfold racing
      by_cases c : d.2 = h
      · simp [c]; omega
      · simp [c]
    rw [e]
    exact this

end KoordVerif.C04
