import KoordVerif.Model.C12Static
import KoordVerif.Proofs.C12None
/-
C12 — helper development for the static-policy branch (Model/C12Static.lean).
`KTopG`: a cacheable exact sweep turning assignment `A` into `B` over a list that need NOT contain every
directory of the tree; it keeps the hierarchy valid when no listed directory is listed after one of its
descendants' parents (parents first), `A c ≤ B p` on every edge, and a directory that is not rewritten
(`B c = A c`) may hang below a listed one.
-/
namespace KoordVerif.C12

variable {α : Type}

section OrderedG
variable (parent : Nat → Option Nat) (le : α → α → Prop) (A B : Nat → α)

/-- parents first; children outside the list keep their value. -/
def KTopG (l : List (Upd α)) (s : St α) : Prop :=
  JC A B l s ∧ (∀ c p, parent c = some p → p ∈ nodes l → c ∉ nodes l → B c = A c) ∧
  l.Pairwise (fun a b => parent a.node ≠ some b.node)

theorem KTopG_valid (hAA : Valid parent le A) (hBB : Valid parent le B)
    (hAB : ∀ c p, parent c = some p → le (A c) (B p)) (l : List (Upd α)) (s : St α)
    (h : KTopG parent A B l s) : Valid parent le s.files := by
  obtain ⟨⟨_, _, _, hf⟩, hcl, _⟩ := h
  intro c p hcp
  rw [hf c, hf p]
  by_cases hc : c ∈ nodes l <;> by_cases hp : p ∈ nodes l <;> simp only [hc, hp, if_true, if_false]
  · exact hAA c p hcp
  · exact hAB c p hcp
  · rw [hcl c p hcp hp hc]; exact hAA c p hcp
  · exact hBB c p hcp

theorem KTopG_step {D : Dom α} (hD : DomEq D) (exp : Bool) (u : Upd α) (l : List (Upd α)) (s : St α)
    (h : KTopG parent A B (u :: l) s) :
    KTopG parent A B l (stepCached D exp s u).1 ∧
    (((stepCached D exp s u).2 = [] ∧ (stepCached D exp s u).1.files = s.files) ∨
     (∃ w, (stepCached D exp s u).2 = [w] ∧ (stepCached D exp s u).1.files = setAt s.files w.1 w.2)) := by
  obtain ⟨hj, hcl, hpw⟩ := h
  obtain ⟨g1, g2⟩ := JC_step hD exp A B u l s hj
  rw [List.pairwise_cons] at hpw
  refine ⟨⟨g1, ?_, hpw.2⟩, g2⟩
  intro c p hcp hp hc
  by_cases hcu : c = u.node
  · obtain ⟨b, hb, hbn⟩ := mem_nodes' hp
    exact absurd (by rw [← hcu, hbn]; exact hcp) (hpw.1 b hb)
  · exact hcl c p hcp (by simp [hp]) (by simp [hcu, hc])

end OrderedG

/-! ### a constant-value sweep over a sub-list of the walked dirs -/

section ConstSweep
variable (parent : Nat → Option Nat) (le : Nat → Nat → Prop) (exp : Bool)

theorem cpusetDom_eq' : DomEq cpusetDom where
  mergeSelf a := by simp [cpusetDom]
  same_eq c t h := by simpa [cpusetDom] using h
  valEq_eq v t h := by simpa [cpusetDom] using h
  after_eq t v h := by simp [cpusetDom] at h; exact h.symm
  read_eq c v h := by simp [cpusetDom] at h; exact h.symm

/-- assignment after writing `v` to every dir of `l`. -/
def cB (l : List Nat) (v : Nat) (f : Nat → Nat) : Nat → Nat := fun n => if n ∈ l then v else f n

theorem c_nodes (l : List Nat) (v : Nat) :
    nodes (l.map fun n => ({ node := n, tgt := some v } : Upd Nat)) = l := by
  simp [nodes, List.map_map, Function.comp_def]

theorem c_JC (l : List Nat) (v : Nat) (s : St Nat) (hc : CacheOK s) (hnd : l.Nodup) :
    JC s.files (cB l v s.files) (l.map fun n => ({ node := n, tgt := some v } : Upd Nat)) s := by
  refine ⟨hc, by rw [c_nodes]; exact hnd, ?_, ?_⟩
  · intro u hu
    simp only [List.mem_map] at hu
    obtain ⟨n, hn, rfl⟩ := hu
    simp [cB, hn]
  · intro n; rw [c_nodes]
    by_cases h : n ∈ l <;> simp [cB, h]

/-- what one constant sweep leaves: cache consistent, files = `cB`, write log replays to the files. -/
theorem c_after (l : List Nat) (v : Nat) (s : St Nat) (hc : CacheOK s) (hnd : l.Nodup) :
    CacheOK (runPass (stepCached cpusetDom exp) (l.map fun n => ({ node := n, tgt := some v } : Upd Nat)) s).1 ∧
    (∀ n, (runPass (stepCached cpusetDom exp) (l.map fun n => ({ node := n, tgt := some v } : Upd Nat)) s).1.files n =
      cB l v s.files n) ∧
    applyWrites s.files (runPass (stepCached cpusetDom exp) (l.map fun n => ({ node := n, tgt := some v } : Upd Nat)) s).2 =
      (runPass (stepCached cpusetDom exp) (l.map fun n => ({ node := n, tgt := some v } : Upd Nat)) s).1.files := by
  have h := runPass_inv (stepCached cpusetDom exp) (JC s.files (cB l v s.files))
    (fun u l' s' h => (JC_step cpusetDom_eq' exp _ _ u l' s' h).1) _ _ (c_JC l v s hc hnd)
  have a := runPass_apply (stepCached cpusetDom exp) (JC s.files (cB l v s.files))
    (fun u l' s' h => by
      obtain ⟨g1, g2⟩ := JC_step cpusetDom_eq' exp _ _ u l' s' h
      refine ⟨g1, ?_⟩
      rcases g2 with g | ⟨w, g⟩
      · rw [g.1, g.2]; rfl
      · rw [g.1, g.2]; rfl) _ _ (c_JC l v s hc hnd)
  exact ⟨h.1, fun n => by simpa using h.2.2.2 n, a⟩

/-- every prefix of one constant sweep is valid, given the three edge facts of `KTopG_valid`. -/
theorem c_prefix (l : List Nat) (v : Nat) (s : St Nat) (hc : CacheOK s) (hnd : l.Nodup)
    (htop : l.Pairwise (fun a b => parent a ≠ some b))
    (hAA : Valid parent le s.files) (hBB : Valid parent le (cB l v s.files))
    (hAB : ∀ c p, parent c = some p → le (s.files c) (cB l v s.files p)) :
    ∀ k, Valid parent le (applyWrites s.files
      ((runPass (stepCached cpusetDom exp) (l.map fun n => ({ node := n, tgt := some v } : Upd Nat)) s).2.take k)) := by
  have k1 : KTopG parent s.files (cB l v s.files) (l.map fun n => ({ node := n, tgt := some v } : Upd Nat)) s := by
    refine ⟨c_JC l v s hc hnd, ?_, ?_⟩
    · intro c p _ _ hcn
      rw [c_nodes] at hcn
      simp [cB, hcn]
    · rw [List.pairwise_map]; exact htop
  exact runPass_prefix (stepCached cpusetDom exp) (KTopG parent s.files (cB l v s.files))
    (Valid parent le) (KTopG_valid parent le _ _ hAA hBB hAB)
    (fun u l' s' h => KTopG_step parent _ _ cpusetDom_eq' exp u l' s' h) _ _ k1

end ConstSweep

end KoordVerif.C12
