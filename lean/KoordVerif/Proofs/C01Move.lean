import KoordVerif.Proofs.C01Update
/-
C01: OnPodUpdate with a quota change, MigratePod.
-/
namespace KoordVerif.C01

theorem cacheRemove_view {s : State} (n i m : Nat) :
    (get? s m = none → get? (cacheRemove s n i) m = none) ∧
    ∀ q, get? s m = some q → ∃ q', get? (cacheRemove s n i) m = some q' ∧ q'.max = q.max ∧
      q'.pods = (if m = n then q.pods.filter (fun p => p.id != i) else q.pods) := by
  unfold cacheRemove
  cases hn : get? s n with
  | none =>
    refine ⟨fun h => h, fun q hq => ⟨q, hq, rfl, ?_⟩⟩
    by_cases hm : m = n
    · subst hm; rw [hn] at hq; cases hq
    · simp [hm]
  | some qn =>
    have hqn := get?_name hn
    have hq' : get? s ({ qn with pods := qn.pods.filter (fun p => p.id != i) } : Quota).name = some qn := by
      simpa [hqn] using hn
    simp only
    rw [get?_set hq']
    by_cases hm : m = n
    · subst hm
      refine ⟨fun h => (by rw [hn] at h; cases h), fun q hq => ?_⟩
      rw [hn] at hq; cases hq
      exact ⟨{ qn with pods := qn.pods.filter (fun p => p.id != i) }, by simp [hqn], rfl, by simp⟩
    · have : ¬ m = qn.name := by rw [hqn]; exact hm
      simp only [this, if_false]
      exact ⟨fun h => h, fun q hq => ⟨q, hq, rfl, by simp [hm]⟩⟩

theorem updPodReq_none {s : State} (n : Nat) (old new : Option PodObj) {m : Nat} (h : get? s m = none) :
    get? (updPodReq s n old new) m = none :=
  get?_none_of_map keepR m _ _ (updPodReq_keep s n old new) h

theorem updPodUsed_none {s : State} (n id : Nat) (old new : Option PodObj) {m : Nat} (h : get? s m = none) :
    get? (updPodUsed s n id old new) m = none :=
  get?_none_of_map keepU m _ _ (updPodUsed_keep s n id old new) h

theorem removePodFrom_view {s : State} (n : Nat) (p : PodObj) (uf : Bool) (m : Nat) :
    (get? s m = none → get? (removePodFrom s n p uf) m = none) ∧
    ∀ q, get? s m = some q → ∃ q', get? (removePodFrom s n p uf) m = some q' ∧ q'.max = q.max ∧
      q'.pods = (if m = n then q.pods.filter (fun x => x.id != p.id) else q.pods) := by
  -- every shape of removePodFrom is  cacheRemove (X (Y s))  with X, Y ∈ {id, updPodReq, updPodUsed}
  have key : ∀ (s2 : State), (get? s m = none → get? s2 m = none) →
      (∀ q, get? s m = some q → ∃ q2, get? s2 m = some q2 ∧ q2.max = q.max ∧ q2.pods = q.pods) →
      (get? s m = none → get? (cacheRemove s2 n p.id) m = none) ∧
      ∀ q, get? s m = some q → ∃ q', get? (cacheRemove s2 n p.id) m = some q' ∧ q'.max = q.max ∧
        q'.pods = (if m = n then q.pods.filter (fun x => x.id != p.id) else q.pods) := by
    intro s2 hnone hsome
    have hv := cacheRemove_view (s := s2) n p.id m
    refine ⟨fun h => hv.1 (hnone h), fun q hq => ?_⟩
    obtain ⟨q2, h2, hm2, hp2⟩ := hsome q hq
    obtain ⟨q', h', hm', hp'⟩ := hv.2 q2 h2
    exact ⟨q', h', by rw [hm', hm2], by rw [hp', hp2]⟩
  have stepR : ∀ (s0 : State) (old new : Option PodObj),
      (get? s m = none → get? s0 m = none) →
      (∀ q, get? s m = some q → ∃ q2, get? s0 m = some q2 ∧ q2.max = q.max ∧ q2.pods = q.pods) →
      (get? s m = none → get? (updPodReq s0 n old new) m = none) ∧
      (∀ q, get? s m = some q → ∃ q2, get? (updPodReq s0 n old new) m = some q2 ∧ q2.max = q.max ∧ q2.pods = q.pods) := by
    intro s0 old new hnone hsome
    refine ⟨fun h => updPodReq_none n old new (hnone h), fun q hq => ?_⟩
    obtain ⟨q2, h2, hm2, hp2⟩ := hsome q hq
    obtain ⟨q3, h3, hp3, hm3, _, _⟩ := updPodReq_view n old new h2
    exact ⟨q3, h3, by rw [hm3, hm2], by rw [hp3, hp2]⟩
  have stepU : ∀ (s0 : State) (old new : Option PodObj),
      (get? s m = none → get? s0 m = none) →
      (∀ q, get? s m = some q → ∃ q2, get? s0 m = some q2 ∧ q2.max = q.max ∧ q2.pods = q.pods) →
      (get? s m = none → get? (updPodUsed s0 n p.id old new) m = none) ∧
      (∀ q, get? s m = some q → ∃ q2, get? (updPodUsed s0 n p.id old new) m = some q2 ∧ q2.max = q.max ∧ q2.pods = q.pods) := by
    intro s0 old new hnone hsome
    refine ⟨fun h => updPodUsed_none n p.id old new (hnone h), fun q hq => ?_⟩
    obtain ⟨q2, h2, hm2, hp2⟩ := hsome q hq
    obtain ⟨q3, h3, hp3, hm3, _, _⟩ := updPodUsed_view n p.id old new h2
    exact ⟨q3, h3, by rw [hm3, hm2], by rw [hp3, hp2]⟩
  have base : (get? s m = none → get? s m = none) ∧
      (∀ q, get? s m = some q → ∃ q2, get? s m = some q2 ∧ q2.max = q.max ∧ q2.pods = q.pods) :=
    ⟨fun h => h, fun q hq => ⟨q, hq, rfl, rfl⟩⟩
  unfold removePodFrom
  cases uf <;> cases assignedIn s n p.id <;> simp only [Bool.false_eq_true, if_false, if_true]
  · have a := stepR s (some p) none base.1 base.2
    exact key _ a.1 a.2
  · have a := stepR s (some p) none base.1 base.2
    have b := stepU _ (some p) none a.1 a.2
    exact key _ b.1 b.2
  · have a := stepR s (some p) none base.1 base.2
    exact key _ a.1 a.2
  · have a := stepU s (some p) none base.1 base.2
    have b := stepR _ (some p) none a.1 a.2
    exact key _ b.1 b.2

theorem getPod_filter_self (ps : List Pod) (i : Nat) : getPod (ps.filter (fun x => x.id != i)) i = none := by
  apply getPod_none_iff.mpr
  intro x hx
  have := (List.mem_filter.mp hx).2
  simpa using this

theorem onPodUpdate_move_good {s : State} {newQ oldQ : Nat} {np op : PodObj} (h : Good s) (hne : oldQ ≠ newQ)
    (hpre : UpdPre s newQ oldQ np op) : Good (onPodUpdate s newQ oldQ np op) := by
  unfold onPodUpdate
  simp only [hne, if_false]
  -- release from the old quota
  have h1 : Good (if existsIn s oldQ op.id then removePodFrom s oldQ op true else s) ∧
      ((get? s newQ = none → get? (if existsIn s oldQ op.id then removePodFrom s oldQ op true else s) newQ = none) ∧
       ∀ q, get? s newQ = some q → ∃ q', get? (if existsIn s oldQ op.id then removePodFrom s oldQ op true else s) newQ = some q' ∧
         q'.max = q.max) := by
    unfold existsIn
    cases hq : get? s oldQ with
    | none => exact ⟨by simpa using h, by simpa using fun q hq => ⟨q, hq, rfl⟩⟩
    | some q =>
      simp only [podExists_eq]
      cases he : getPod q.pods op.id with
      | none => exact ⟨by simpa using h, by simpa using fun q hq => ⟨q, hq, rfl⟩⟩
      | some e =>
        obtain ⟨hmax, hcons⟩ := hpre.oldQuota q hq
        obtain ⟨hreq, hnp⟩ := hcons e he
        have hv := removePodFrom_view (s := s) oldQ op true newQ
        refine ⟨by simpa using removePodFrom_good h hpre.nnOld hq hmax he hreq hnp true, ?_⟩
        simp only [Option.isSome_some, if_true]
        exact ⟨hv.1, fun q0 h0 => by
          obtain ⟨q', a, b, _⟩ := hv.2 q0 h0
          exact ⟨q', a, b⟩⟩
  obtain ⟨hg1, hn1, hs1⟩ := h1
  cases hq1 : get? (if existsIn s oldQ op.id then removePodFrom s oldQ op true else s) newQ with
  | none => exact hg1
  | some q1 =>
    simp only [podExists_eq]
    cases hq0 : get? s newQ with
    | none => rw [hn1 hq0] at hq1; cases hq1
    | some q0 =>
      obtain ⟨q', a, b⟩ := hs1 q0 hq0
      rw [a] at hq1; cases hq1
      have hmax1 : q1.max.isSome = true := by rw [b]; exact hpre.newQuota q0 hq0
      cases he1 : getPod q1.pods np.id with
      | some e => simpa using hg1
      | none =>
        cases hign : np.ign with
        | true => simpa using hg1
        | false => simpa using addPodTo_good hg1 hpre.nnNew a hmax1 he1

theorem onPodUpdate_good {s : State} {newQ oldQ : Nat} {np op : PodObj} (h : Good s)
    (hpre : UpdPre s newQ oldQ np op) : Good (onPodUpdate s newQ oldQ np op) := by
  by_cases hne : oldQ = newQ
  · subst hne; exact onPodUpdate_same_good h hpre
  · exact onPodUpdate_move_good h hne hpre

end KoordVerif.C01
