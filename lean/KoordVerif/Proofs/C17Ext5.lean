import KoordVerif.Model.C17Scav
/-
C17 ext5 — helper lemmas for the scavenger theorems of Props/C17.lean.
-/
namespace KoordVerif.C17

/-- `Reconcile` leaves a foreign job alone: no API call, no change -/
theorem reconcile_foreign (w : World) (f : Nat) (h : foreign w = true) : reconcile w f = (w, ⟨[], []⟩) := by
  unfold reconcile
  have : w.job.spec.createdBy ≠ 0 ∧ w.job.spec.createdBy ≠ w.env.ctrl := by
    simpa [foreign] using h
  rw [if_pos this]

/-- ops that neither restart the controller nor are environment events on the job / reservation: time, reconciles
    (any write faults), scavenger rounds (any faults) -/
def SOp.quiet : SOp → Bool
  | .base (.tick _) => true
  | .base (.recon _) => true
  | .scav _ => true
  | _ => false

theorem stepS_skip_foreign (s : SWorld) (op : SOp) (hq : op.quiet = true) (hf : foreign s.w = true) :
    (stepS true s op).gone = s.gone ∧ (stepS true s op).w.job = s.w.job ∧ (stepS true s op).w.env.resv = s.w.env.resv ∧
    (stepS true s op).w.env.ctrl = s.w.env.ctrl := by
  cases op with
  | scav f =>
    simp only [stepS, scavenge, hf, Bool.true_and, if_true]
    split <;> simp
  | base o =>
    cases o with
    | tick d => simp [stepS, step]
    | recon f =>
      simp only [stepS, reconcileS]
      split
      · simp
      · simp [reconcile_foreign s.w f hf]
    | _ => simp [SOp.quiet] at hq

theorem foreign_congr {a b : World} (hj : a.job = b.job) (hc : a.env.ctrl = b.env.ctrl) : foreign a = foreign b := by
  simp [foreign, hj, hc]

theorem runS_skip_foreign (ops : List SOp) (s : SWorld) (hq : ∀ op ∈ ops, op.quiet = true) (hf : foreign s.w = true) :
    (runS true s ops).gone = s.gone ∧ (runS true s ops).w.job = s.w.job ∧ (runS true s ops).w.env.resv = s.w.env.resv := by
  induction ops generalizing s with
  | nil => simp [runS]
  | cons op rest ih =>
    have h1 := stepS_skip_foreign s op (hq op (by simp)) hf
    have hf' : foreign (stepS true s op).w = true := by
      rw [foreign_congr h1.2.1 h1.2.2.2]; exact hf
    have h2 := ih (stepS true s op) (fun o ho => hq o (by simp [ho])) hf'
    simp only [runS]
    refine ⟨h2.1.trans h1.1, h2.2.1.trans h1.2.1, h2.2.2.trans h1.2.2.1⟩

/-- the shipped scavenger on a job past the scavenge timeout, no failed call: the referenced reservation and the job
    are deleted — whoever created the job -/
theorem scavenge_expired (s : SWorld) (hg : s.gone = false) (hexp : scavTimeout s.w.job.spec.ttl ≤ s.w.env.now) :
    (scavenge false s 0).1.gone = true ∧ (s.w.job.spec.resvRef = true → (scavenge false s 0).1.w.env.resv = none) := by
  have hnl : ¬ s.w.env.now < scavTimeout s.w.job.spec.ttl := Nat.not_lt.mpr hexp
  unfold scavenge
  simp only [hg, Bool.false_eq_true, if_false, Bool.false_and, hnl]
  by_cases hr : s.w.job.spec.resvRef = true
  · simp only [hr, Bool.not_true, Bool.false_eq_true, if_false]
    cases hres : s.w.env.resv with
    | none => simp [scavDeleteJob, hres]
    | some r => simp [scavDeleteJob]
  · have hr' : s.w.job.spec.resvRef = false := by simpa using hr
    simp [hr', scavDeleteJob]

/-- under ANY fault mask the shipped scavenger deletes the job only after the referenced reservation is gone -/
theorem scavenge_order (s : SWorld) (f : Nat) (hg : s.gone = false) (hr : s.w.job.spec.resvRef = true)
    (hd : (scavenge false s f).1.gone = true) : (scavenge false s f).1.w.env.resv = none := by
  revert hd
  unfold scavenge
  simp only [hg, Bool.false_eq_true, if_false, Bool.false_and, hr, Bool.not_true]
  split
  · simp [hg]
  · cases hres : s.w.env.resv with
    | none =>
      simp only [scavDeleteJob]
      split <;> simp [hg, hres]
    | some r =>
      simp only [scavDeleteJob]
      split
      · simp [hg]
      · split <;> simp

/-- before the timeout the scavenger does nothing -/
theorem scavenge_early (b : Bool) (s : SWorld) (f : Nat) (h : s.w.env.now < scavTimeout s.w.job.spec.ttl) :
    scavenge b s f = (s, []) := by
  unfold scavenge
  simp [h]

end KoordVerif.C17
