import KoordVerif.Proofs.C01Full
/-
C01: the local equations determine every figure — two states over the same objects that both satisfy them
report the same aggregates (so the incrementally maintained figures equal any from-scratch recomputation).
-/
namespace KoordVerif.C01

/-- the objects: quota specs and cached pods (with their last delivered requests / flags) -/
def obj (q : Quota) : Nat × Nat × Bool × Bool × Option Int × Int × List Pod :=
  (q.name, q.parent, q.isParent, q.lend, q.max, q.min, q.pods)

/-- the reported figures (for the root `request` plays the role of childRequest) -/
def aggs (q : Quota) : Int × Int × Int × Int × Int × Int × Int × Int × Int :=
  (q.used, q.npUsed, q.request, q.npRequest, crOf q, q.selfUsed, q.selfNpUsed, q.selfRequest, q.selfNpRequest)

theorem sumKids_lockstep (v : Quota → Int) (m : Nat) : ∀ (l l' : State), l'.map obj = l.map obj →
    (∀ x ∈ l, ∀ x' ∈ l', x'.name = x.name → x.parent = m → v x' = v x) → sumKids v m l' = sumKids v m l
  | [], [], _, _ => rfl
  | [], _ :: _, h, _ => by simp at h
  | _ :: _, [], h, _ => by simp at h
  | x :: t, x' :: t', h, hv => by
    simp only [List.map_cons, List.cons.injEq] at h
    have ho := h.1
    simp only [obj, Prod.mk.injEq] at ho
    have ih := sumKids_lockstep v m t t' h.2 (fun y hy y' hy' hn hp =>
      hv y (List.mem_cons_of_mem _ hy) y' (List.mem_cons_of_mem _ hy') hn hp)
    simp only [sumKids, ih, ho.2.1]
    split
    · next hp => rw [hv x (by simp) x' (by simp) ho.1 hp]
    · rfl

theorem localInv_unique_aux {s s' : State} (hobj : s'.map obj = s.map obj) (ht : TreeOK (tree s))
    (h : LocalInv s) (h' : LocalInv s') :
    ∀ m q q', get? s m = some q → get? s' m = some q' → aggs q' = aggs q := by
  have htree : tree s' = tree s := by
    have := congrArg (List.map (fun (e : Nat × Nat × Bool × Bool × Option Int × Int × List Pod) => (e.1, e.2.1))) hobj
    rw [List.map_map, List.map_map] at this; exact this
  have ht' : TreeOK (tree s') := htree ▸ ht
  have hmapn : s'.map (fun x => (x.name, obj x)) = s.map (fun x => (x.name, obj x)) := by
    have := congrArg (List.map (fun (e : Nat × Nat × Bool × Bool × Option Int × Int × List Pod) => (e.1, e))) hobj
    rw [List.map_map, List.map_map] at this; exact this
  obtain ⟨hr, hrank⟩ := ht.ranked
  suffices H : ∀ n, ∀ m q q', hr m < n → get? s m = some q → get? s' m = some q' → aggs q' = aggs q from
    fun m q q' hq hq' => H (hr m + 1) m q q' (by omega) hq hq'
  intro n
  induction n with
  | zero => intro m q q' hlt; omega
  | succ n ih =>
    intro m q q' hlt hq hq'
    obtain ⟨q0, hq0, ho⟩ := get?_of_map obj m s' s hmapn q hq
    rw [hq'] at hq0; cases hq0
    simp only [obj, Prod.mk.injEq] at ho
    obtain ⟨on, op, oip, ol, omx, omn, opods⟩ := ho
    have hkid : ∀ (v : Quota → Int), (∀ c c', aggs c' = aggs c → c'.max = c.max → v c' = v c) →
        sumKids v m s' = sumKids v m s := by
      intro v hvv
      apply sumKids_lockstep v m s s' hobj
      intro c hc c' hc' hn hp
      have hk := kid_rank ht hrank hq hc hp
      have hc1 := hk.2
      have hc2 : get? s' c'.name = some c' := mem_get? ht'.nodup hc'
      rw [hn] at hc2
      have hagg := ih c.name c c' (by omega) hc1 hc2
      obtain ⟨c0, hc0, hoc⟩ := get?_of_map obj c.name s' s hmapn c hc1
      rw [hc2] at hc0; cases hc0
      simp only [obj, Prod.mk.injEq] at hoc
      exact hvv c c' hagg hoc.2.2.2.2.1
    have k1 := hkid Quota.limited (fun c c' ha hm => by
      simp only [aggs, Prod.mk.injEq] at ha
      simp [Quota.limited, hm, ha.2.2.1])
    have k2 := hkid (·.npRequest) (fun c c' ha _ => by simp only [aggs, Prod.mk.injEq] at ha; exact ha.2.2.2.1)
    have k3 := hkid (·.used) (fun c c' ha _ => by simp only [aggs, Prod.mk.injEq] at ha; exact ha.1)
    have k4 := hkid (·.npUsed) (fun c c' ha _ => by simp only [aggs, Prod.mk.injEq] at ha; exact ha.2.1)
    have r := h.1 m q hq; have r' := h'.1 m q' hq'
    have u := h.2 m q hq; have u' := h'.2 m q' hq'
    have e1 : q'.selfRequest = q.selfRequest := by rw [r'.selfReq, r.selfReq, opods]
    have e2 : q'.selfNpRequest = q.selfNpRequest := by rw [r'.selfNpReq, r.selfNpReq, opods]
    have e3 : q'.selfUsed = q.selfUsed := by rw [u'.selfUsed, u.selfUsed, opods]
    have e4 : q'.selfNpUsed = q.selfNpUsed := by rw [u'.selfNpUsed, u.selfNpUsed, opods]
    have c1 := r.cr; have c1' := r'.cr; have c2 := r.npReq; have c2' := r'.npReq
    have c3 := u.used; have c3' := u'.used; have c4 := u.npUsed; have c4' := u'.npUsed
    simp only [dCR, dNpReq, dUsed, dNpUsed] at c1 c1' c2 c2' c3 c3' c4 c4'
    rw [k1] at c1'; rw [k2] at c2'; rw [k3] at c3'; rw [k4] at c4'
    have f1 : crOf q' = crOf q := by omega
    have f2 : q'.npRequest = q.npRequest := by omega
    have f3 : q'.used = q.used := by omega
    have f4 : q'.npUsed = q.npUsed := by omega
    have hqn := get?_name hq
    have f5 : q'.request = q.request := by
      by_cases hroot : m = rootName
      · simp only [crOf, on, hqn, hroot, if_true] at f1; exact f1
      · have a := r.rule hroot; have a' := r'.rule hroot
        simp only [crOf, on, hqn, hroot, if_false] at f1
        rw [a', a, f1, lendRule_congr ol omn]
    simp only [aggs, Prod.mk.injEq]
    exact ⟨f3, f4, f5, f2, f1, e3, e4, e1, e2⟩

end KoordVerif.C01
