import KoordVerif.Proofs.C01ExtHandlers2
/-
C01 extension (schedules quantifier), part 7: the handler-level theorem.
A pool of pod events (OnPodAdd / OnPodDelete / OnPodUpdate, all branches) on DISTINCT pods, each meeting the
precondition of the sequential theorem in the start state; every thread runs the sections of its handler.
* `handlers_seq_eq`: running the threads one after the other is `run s0 ops`, the ATOMIC model of Props/C01
  (the plan of a handler computed at the start equals the plan computed when its turn comes, because no other
  handler touches its pod's view or the static data).
* `handlers_serializable`: ANY complete interleaving at section granularity ends in a state that satisfies
  `LocalInv` and reports exactly the figures of `run s0 ops`.
-/
namespace KoordVerif.C01

def thr (s0 : State) (ev : PodEv) : Thread := (ev.id, ev.plan s0)

theorem plan_congr {s s' : State} (ev : PodEv) (hst : stat s' = stat s)
    (hent : ∀ m, entry s' m ev.id = entry s m ev.id) : ev.plan s' = ev.plan s := by
  unfold PodEv.plan
  rw [hst]
  have : (fun m => entry s' m ev.id) = (fun m => entry s m ev.id) := funext hent
  rw [this]

theorem runThreads_append (s : State) (a b : Pool) : runThreads s (a ++ b) = runThreads (runThreads s a) b := by
  simp [runThreads, List.foldl_append]

theorem psteps_prefix : ∀ (done a b : Pool) (s : State),
    PSteps (s, finished done ++ (a ++ b)) (runThreads s a, finished done ++ (finished a ++ b))
  | done, [], b, s => by simp only [runThreads, finished, List.map_nil, List.foldl_nil, List.nil_append]; exact PSteps.refl _
  | done, th :: t, b, s => by
    have h1 := psteps_thread (finished done) (t ++ b) th.1 th.2 s
    have h2 := psteps_prefix (done ++ [th]) t b (runMicros s th.2)
    have e1 : finished (done ++ [th]) ++ (t ++ b) = finished done ++ (th.1, []) :: (t ++ b) := by simp [finished]
    have e2 : finished (done ++ [th]) ++ (finished t ++ b) = finished done ++ (finished (th :: t) ++ b) := by
      simp [finished]
    rw [e1, e2] at h2
    exact h1.trans h2

theorem owners_thr (s0 : State) (evs : List PodEv) : (evs.map (thr s0)).map (·.1) = evs.map PodEv.id := by
  simp [thr, List.map_map, Function.comp_def]

theorem safe_thr {s0 : State} {evs : List PodEv} (hg : Good s0) (hpre : ∀ ev ∈ evs, ev.Pre s0) :
    ∀ th ∈ evs.map (thr s0), Safe (stat s0) th.1 (localOf s0 (cntOf s0) th.1) th.2 := by
  intro th hth
  obtain ⟨ev, hev, rfl⟩ := List.mem_map.mp hth
  exact PodEv.safe hg (hpre ev hev)

theorem handlers_seq_eq {s0 : State} (hg : Good s0) : ∀ (rest pre : List PodEv),
    ((pre ++ rest).map PodEv.id).Nodup → (∀ ev ∈ pre ++ rest, ev.Pre s0) →
    run (runThreads s0 (pre.map (thr s0))) (rest.map PodEv.op) = runThreads s0 ((pre ++ rest).map (thr s0))
  | [], pre, _, _ => by simp [run]
  | ev :: t, pre, hn, hpre => by
    have hown : (((pre ++ ev :: t).map (thr s0)).map (·.1)).Nodup := by rw [owners_thr]; exact hn
    have hsafe := safe_thr hg hpre
    -- the configuration after the handlers of `pre` ran sequentially
    have hreach : PSteps (s0, (pre ++ ev :: t).map (thr s0))
        (runThreads s0 (pre.map (thr s0)), finished (pre.map (thr s0)) ++ (ev :: t).map (thr s0)) := by
      have := psteps_prefix [] (pre.map (thr s0)) ((ev :: t).map (thr s0)) s0
      simpa [finished] using this
    obtain ⟨c, hc⟩ := pinv_steps (CI_of_good hg) hown hsafe hreach
    have hmem : thr s0 ev ∈ finished (pre.map (thr s0)) ++ (ev :: t).map (thr s0) := by simp
    obtain ⟨done, hd1, hd2⟩ := hc.det (thr s0 ev) hmem
    have hprog : progOf ((pre ++ ev :: t).map (thr s0)) (thr s0 ev).1 = (thr s0 ev).2 :=
      progOf_mem hown (by simp)
    rw [hprog] at hd1
    have hdone : done = [] := by
      have := congrArg List.length hd1
      simp only [List.length_append] at this
      exact List.eq_nil_of_length_eq_zero (by omega)
    subst hdone
    simp only [lrun, thr] at hd2
    have hent : ∀ m, entry (runThreads s0 (pre.map (thr s0))) m ev.id = entry s0 m ev.id := by
      intro m
      have := congrArg (fun L => L.ent m) hd2
      simpa [localOf_ent] using this
    have hst : stat (runThreads s0 (pre.map (thr s0))) = stat s0 := stat_of_statN hc.statEq
    have hplan := plan_congr ev hst hent
    have hwf : ev.WF := PodEv.wf_of_pre (hpre ev (by simp))
    have hstep : step (runThreads s0 (pre.map (thr s0))) ev.op =
        runThreads s0 ((pre ++ [ev]).map (thr s0)) := by
      rw [← PodEv.run_plan hc.ci.pods ev hwf, hplan, List.map_append, runThreads_append]
      simp [runThreads, thr]
    have ih := handlers_seq_eq hg t (pre ++ [ev]) (by simpa using hn) (by simpa using hpre)
    simp only [List.map_cons, run, List.foldl_cons]
    rw [hstep]
    simpa [run] using ih

/-- SCHEDULES, handler level: pod events on distinct pods, each admissible in the start state, issued from
concurrent goroutines; whatever way the separately locked sections of their handlers interleave, once every handler
has finished the state satisfies `LocalInv` and every group reports exactly the figures of the atomic model run on the
same events one after the other (`run s0 ops`), with the same cache entries. -/
theorem handlers_serializable {s0 : State} {evs : List PodEv} (hg : Good s0) (hn : (evs.map PodEv.id).Nodup)
    (hpre : ∀ ev ∈ evs, ev.Pre s0)
    {s : State} {pool : Pool} (hs : PSteps (s0, evs.map (thr s0)) (s, pool)) (hq : Quiescent pool) :
    Good s ∧ LocalInv s ∧
    (∀ m q q', get? s m = some q → get? (run s0 (evs.map PodEv.op)) m = some q' → aggs q = aggs q') ∧
    (∀ m j, entry s m j = entry (run s0 (evs.map PodEv.op)) m j) := by
  have hseq := handlers_seq_eq hg evs [] (by simpa using hn) (by simpa using hpre)
  simp only [List.map_nil, runThreads, List.foldl_nil, List.nil_append] at hseq
  have hown : ((evs.map (thr s0)).map (·.1)).Nodup := by rw [owners_thr]; exact hn
  have := interleaving_serializable hg hown (safe_thr hg hpre) hs hq
  rw [show runThreads s0 (evs.map (thr s0)) = run s0 (evs.map PodEv.op) from hseq.symm] at this
  exact this

/-- and at every intermediate point the section invariant holds: all tree equations, nothing negative -/
theorem handlers_between {s0 : State} {evs : List PodEv} (hg : Good s0) (hn : (evs.map PodEv.id).Nodup)
    (hpre : ∀ ev ∈ evs, ev.Pre s0)
    {s : State} {pool : Pool} (hs : PSteps (s0, evs.map (thr s0)) (s, pool)) :
    ∃ c, CI s c ∧ (∀ j, j ∉ pool.map (·.1) → ∀ m, Settled s c m j) ∧
      ∀ m q, get? s m = some q → RNonneg q ∧ UNonneg q := by
  have hown : ((evs.map (thr s0)).map (·.1)).Nodup := by rw [owners_thr]; exact hn
  obtain ⟨c, hc, hset⟩ := interleaving_invariant hg hown (safe_thr hg hpre) hs
  refine ⟨c, hc, hset, fun m q hq => ⟨?_, ?_⟩⟩
  · exact reqNonneg_of_eqs hc.topo.tree (fun q hq => (hc.params q hq).1) hc.req m q hq
  · exact usedNonneg_of_eqs hc.topo.tree hc.used m q hq

end KoordVerif.C01
